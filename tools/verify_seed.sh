#!/bin/bash
# tools/verify_seed.sh <seed-dir> <pkgdir> [suite]: confirm in a scratch worktree that the demo passes on HEAD, fails with the patch,
# the tree builds, and (with "suite") the unedited package suite still passes with the patch.
set -u
export GOFLAGS=-mod=mod GOPROXY=off GOSUMDB=off GOTOOLCHAIN=local
SEED="$1"; PKG="$2"; WT=/tmp/seedwt-$(basename $SEED)
git -C /repo worktree add -q "$WT" HEAD || exit 2
trap 'git -C /repo worktree remove --force "$WT"' EXIT
cd "$WT"
cp "$SEED/zz_demo_test.go" "$PKG/zz_demo_test.go"
go test -vet=off -count=1 -run 'Demo' ./$PKG/ > /tmp/vs_clean.log 2>&1; echo "demo on HEAD: rc=$? ($(tail -1 /tmp/vs_clean.log))"
git apply "$SEED/patch.diff" || { echo "patch does not apply"; exit 2; }
go build ./... && echo "build ok"
go test -vet=off -count=1 -run 'Demo' ./$PKG/ > /tmp/vs_mut.log 2>&1; echo "demo with patch: rc=$? ($(grep -m1 -E '^--- FAIL|^FAIL|^ok' /tmp/vs_mut.log))"
if [ "${3:-}" = "suite" ]; then rm "$PKG/zz_demo_test.go"; go test -vet=off -count=1 ./$PKG/ > /tmp/vs_suite.log 2>&1; echo "unedited suite with patch: rc=$? ($(tail -1 /tmp/vs_suite.log))"; fi
