#!/bin/bash
# tools/intake_seed.sh <zz_out/X dir> <seed-id> <property>... : store a sub-agent's change as /verif/seeded/<seed-id>,
# confirm it (verify_seed.sh) and try the checks (try_seed.sh).  Package dir of the demo is read from its first line
# ("// place in: <dir>") or guessed from the patch.
set -u
SRC="$1"; ID="$2"; shift 2
D=/verif/seeded/$ID
mkdir -p $D && cp "$SRC/patch.diff" "$SRC/zz_demo_test.go" "$SRC/notes.md" $D/ 2>/dev/null
PKG=$(head -3 $D/zz_demo_test.go | grep -o 'place in: *[A-Za-z0-9_/.-]*' | head -1 | sed 's/place in: *//')
[ -z "$PKG" ] && PKG=$(grep -m1 '^+++ b/' $D/patch.diff | sed 's|+++ b/||; s|/[^/]*$||')
echo "== $ID (demo in $PKG)"
SUITE=suite; [ "$PKG" = "swap" ] && [ "${SWAPSUITE:-no}" != "yes" ] && SUITE=nosuite
/verif/tools/verify_seed.sh $D $PKG $SUITE 2>&1 | tail -4
/verif/tools/try_seed.sh $D "$@" 2>&1 | tail -8
