#!/bin/bash
# runs the quick check of every claimed property sequentially; prints exit code and wall time
cd "$(dirname "$0")/.."
for p in $(python3 -c "import json;print(' '.join(c['property_id'] for c in json.load(open('MANIFEST.json'))['checks']))"); do
  s=$(date +%s); timeout 3600 bin/check $p --tier ${1:-quick} > /tmp/sweep_${1:-quick}_$p.log 2>&1; rc=$?; e=$(date +%s)
  echo "$p rc=$rc wall=$((e-s))s $(grep -c '^VIOLATION' /tmp/sweep_${1:-quick}_$p.log) violations $(grep -c '^KNOWN-FINDING' /tmp/sweep_${1:-quick}_$p.log) known $(grep -c '^INCONCLUSIVE' /tmp/sweep_${1:-quick}_$p.log) inconclusive"
done
