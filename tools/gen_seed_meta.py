#!/usr/bin/env python3
"""Merge seeded/<id>/result.txt (written by tools/seed_matrix.sh) and notes/seed_desc_round2.json into
seeded/<id>/meta.json, and print the markdown table of all seeds (for DESIGN.md I.6)."""
import json, os, re, sys
root = '/verif/seeded'
desc = json.load(open("/verif/notes/seed_desc_round2.json"))
if os.path.exists("/verif/notes/seed_desc_round3.json"):
    desc.update(json.load(open("/verif/notes/seed_desc_round3.json")))
hist = {}
hp = '/verif/notes/seed_history.json'
if os.path.exists(hp):
    hist = json.load(open(hp))
rows = []
def key(i):
    p, n = i.split('-'); return (int(p[1:]), int(n))
for sid in sorted(os.listdir(root), key=key):
    d = os.path.join(root, sid)
    mp = os.path.join(d, 'meta.json')
    meta = json.load(open(mp)) if os.path.exists(mp) else {}
    meta.setdefault('id', sid); meta.setdefault('property', sid.split('-')[0])
    if sid in desc:
        meta['change'], meta['needs_to_manifest'] = desc[sid]
    meta.setdefault('written_by', 'independent sub-agent given only the property text and a scratch worktree')
    meta.setdefault('confirmed', 'tools/verify_seed.sh: demonstration passes on HEAD, fails with patch.diff, tree builds, unedited package suite passes with the patch')
    rp = os.path.join(d, 'result.txt')
    if os.path.exists(rp):
        lines = open(rp).read().strip().split('\n')
        rcs = [l for l in lines if ' rc=' in l]
        viol = [l for l in lines if l.startswith('violation')]
        caught_by = []
        own = False
        for l in rcs:
            m = re.match(r'(\S+) (C\d+) rc=(\d+)', l)
            if m and m.group(3) == '1':
                caught_by.append(m.group(2))
                if m.group(2) == meta['property']:
                    own = True
        labels = []
        for l in viol:
            m = re.search(r'entry=(\S+) label=(\S+)', l)
            if m and (m.group(1) + ': ' + m.group(2)) not in labels:
                labels.append(m.group(1) + ': ' + m.group(2))
        if not rcs:
            meta['detection'] = 'not tried (patch does not apply on the repaired tree)'
        elif own:
            meta['detection'] = 'caught'
        elif caught_by:
            meta['detection'] = 'caught by the check of ' + ', '.join(caught_by) + ' only'
        elif any(' rc=2' in l for l in rcs):
            meta['detection'] = 'missed (run inconclusive, exit 2)'
        else:
            meta['detection'] = 'missed'
        meta['detected_by'] = '; '.join(labels[:4]) if labels else meta.get('detected_by', '') if meta['detection'].startswith('caught') else ''
        meta['checked_with'] = 'tools/seed_matrix.sh (tools/try_seed.sh: scratch worktree with patch.diff, vcheck --repo)'
    if sid in hist:
        meta['history'] = hist[sid]
    json.dump(meta, open(mp, 'w'), indent=1)
    rows.append('| %s | %s | %s | %s | %s |' % (sid, meta.get('change', ''), meta.get('needs_to_manifest', ''),
        ('**' + meta.get('detection', '?') + '**') + (' (' + meta['history'] + ')' if meta.get('history') else ''),
        meta.get('detected_by', '') or meta.get('why_missed', '')))
print('| seed | change | needs | result | caught by / why missed |')
print('|---|---|---|---|---|')
print('\n'.join(rows))
