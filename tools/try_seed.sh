#!/bin/bash
# tools/try_seed.sh <seed-dir> <property>... : apply a seeded change to /repo, run the quick checks, undo.
set -u
SEED="$1"; shift
cd /repo || exit 2
if [ -n "$(git status --porcelain --untracked-files=no)" ]; then echo "/repo not clean" >&2; exit 2; fi
git apply "$SEED/patch.diff" || { echo "patch does not apply" >&2; exit 2; }
trap 'git -C /repo checkout -- . ' EXIT
for p in "$@"; do
  s=$(date +%s); (cd /verif && timeout 3000 bin/check $p --tier ${TIER:-quick} > /tmp/seed_$(basename $SEED)_$p.log 2>&1); rc=$?; e=$(date +%s)
  echo "$(basename $SEED) $p rc=$rc wall=$((e-s))s violations=$(grep -c '^VIOLATION' /tmp/seed_$(basename $SEED)_$p.log) inconclusive=$(grep -c '^INCONCLUSIVE' /tmp/seed_$(basename $SEED)_$p.log)"
  grep "^violation" /tmp/seed_$(basename $SEED)_$p.log | cut -c1-160 | head -5
done
