#!/bin/bash
# tools/try_seed.sh <seed-dir> <property>... : apply a seeded change to a scratch worktree of /repo and run the
# quick checks against it (vcheck --repo), with a scratch verif root so that /verif/evidence and /repo stay untouched.
set -u
export GOFLAGS=-mod=mod GOPROXY=off GOSUMDB=off GOTOOLCHAIN=local GOMEMLIMIT=${GOMEMLIMIT:-16GiB}
SEED="$1"; shift
ID=$(basename $SEED)
WT=/tmp/seedtry-$ID; VR=/tmp/seedtry-$ID-verif
git -C /repo worktree add -q --detach "$WT" HEAD || exit 2
trap 'git -C /repo worktree remove --force "$WT"; rm -rf "$VR"' EXIT
git -C "$WT" apply "$SEED/patch.diff" || { echo "patch does not apply" >&2; exit 2; }
mkdir -p "$VR/evidence" "$VR/replays"
cp -r /verif/harness "$VR/harness"; for f in known_findings.jsonl properties.jsonl tools MANIFEST.json; do ln -s /verif/$f "$VR/$f"; done
[ -x /verif/engine/vcheck ] || (cd /verif/engine && go build -o vcheck ./cmd/vcheck)
for p in "$@"; do
  s=$(date +%s); timeout 3000 /verif/engine/vcheck run $p --verif "$VR" --repo "$WT" --tier ${TIER:-quick} > /tmp/seed_${ID}_$p.log 2>&1; rc=$?; e=$(date +%s)
  echo "$ID $p rc=$rc wall=$((e-s))s violations=$(grep -c '^VIOLATION' /tmp/seed_${ID}_$p.log) inconclusive=$(grep -c '^INCONCLUSIVE' /tmp/seed_${ID}_$p.log)"
  grep "^violation" /tmp/seed_${ID}_$p.log | cut -c1-160 | head -5
done
