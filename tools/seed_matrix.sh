#!/bin/bash
# tools/seed_matrix.sh [seed-id...]: try every stored seed (or the given ones) against the check of its property
# (plus the properties named in seeded/<id>/also.txt) and record the outcome in seeded/<id>/result.txt.
cd /verif
ids="$@"; [ -z "$ids" ] && ids=$(ls seeded)
for id in $ids; do
  p=${id%%-*}
  also=""; [ -f seeded/$id/also.txt ] && also=$(cat seeded/$id/also.txt)
  out=$(tools/try_seed.sh /verif/seeded/$id $p $also 2>&1)
  echo "$out" | grep -E "rc=|^violation" | cut -c1-220 > seeded/$id/result.txt
  echo "== $id"; cat seeded/$id/result.txt | grep "rc="
done
