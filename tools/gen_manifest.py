#!/usr/bin/env python3
"""Regenerates /verif/MANIFEST.json from tools/checks.json (claimed checks) and properties.jsonl."""
import json, os
here = os.path.dirname(os.path.dirname(os.path.abspath(__file__)))
props = [json.loads(l) for l in open(os.path.join(here, 'properties.jsonl'))]
table = json.load(open(os.path.join(here, 'tools', 'checks.json')))
checks, na = [], []
for p in props:
    pid = p['id']
    c = table.get(pid)
    if c and c.get('claimed'):
        checks.append({
            "property_id": pid,
            "quick_cmd": f"bin/check {pid} --tier quick",
            "thorough_cmd": f"bin/check {pid} --tier thorough",
            "evidence_file": f"/verif/evidence/{pid}.json",
            "replay_cmd_template": "bin/check replay {path}",
            "engine": "gosymex",
            "level_claimed": {"category": "model_checking", "text": c['level_text'], "design_ref": c.get('design_ref', f"DESIGN.md §5 {pid}")},
            "level_note": c['level_note'],
            "technique": c.get('technique', "bounded symbolic execution of the real Go code (go/ssa -> SMT-LIB2, z3/cvc5), counterexamples replayed natively"),
        })
    else:
        reason = (c or {}).get('na_reason', 'check not built yet (framework under construction)')
        na.append({"property_id": pid, "reason": reason})
m = {
    "version": 1,
    "setup_cmd": "export GOFLAGS=-mod=mod GOPROXY=off GOSUMDB=off GOTOOLCHAIN=local; (cd /verif/engine && go build -o vcheck ./cmd/vcheck) && (cd /repo && go build ./... )",
    "hooks": {"guard": "verif",
              "enable": "harness files (//go:build verif) are injected with go/packages Overlay and `go test -tags verif -overlay`; no file is added to /repo",
              "baseline_off_cmd": "for m in $(cat /w/out/gomods.txt); do MF=$(cd /repo/$m && . /w/out/goenv.sh && gomodflag); (cd /repo/$m && go test $MF -json -vet=off -count=1 -timeout 25m ./...); done",
              "source_commits": [], "add_only": True},
    "engines": [{"name": "gosymex", "path": "/verif/engine", "serves_properties": [c['property_id'] for c in checks],
                 "kind_free_text": "own go/ssa symbolic executor (decision-prefix re-execution) -> SMT-LIB2 -> persistent z3 4.8.12 / z3 5.1.0 / cvc5 1.0 processes; native replay via go test -overlay"}],
    "checks": checks,
    "not_applicable": na,
    "notes": "exit 0 = held within the stated bounds; exit 1 = VIOLATION line (replayed natively); exit 2 = inconclusive (solver unknown, unsupported construct, unwinding bound hit, non-reproducing counterexample) - never reported as a pass. Known findings: /verif/known_findings.jsonl.",
}
json.dump(m, open(os.path.join(here, 'MANIFEST.json'), 'w'), indent=1)
print(f"{len(checks)} checks, {len(na)} not_applicable")
