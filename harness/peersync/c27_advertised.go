//go:build verif

package peersync

import (
	"context"
	"encoding/json"

	"github.com/elementsproject/peerswap/messages"
	"github.com/elementsproject/peerswap/premium"
	"github.com/elementsproject/peerswap/zzverif"
)

// H_C27_advertisedRates: for an arbitrary rate table (peers A, B, default row; 12 cells present or
// absent with arbitrary int64 ppm), every recipient in {A, B, C(no row)} and both message types, the
// capability PeerSync sends (payload of SendCustomMessage, decoded) advertises for each of the four
// (asset, direction) pairs exactly the ppm premium.Setting.GetRate returns for that recipient — the
// rate Setting.Compute charges that peer (Compute == PPM.Compute of it, checked on an arbitrary
// amount) — and that is peer-specific -> stored default -> built-in default.  Also: protocol version
// 7, both assets, peer_allowed = policy answer.
// Bounds: 2 stored peers + default.  Outside: bbolt, JSON text encoding (model: decode(encode(x)) = x).
func H_C27_advertisedRates() {
	zzverif.Unwind(64)
	vClockStart()
	rates, setting := vPremiumSetting()
	env := vNewEnv(nil, setting, vPeerA, vPeerB)
	to := [3]string{vPeerA, vPeerB, vPeerC}[zzverif.Choice("to", 3)]
	mt := [2]messages.MessageType{messages.MESSAGETYPE_POLL, messages.MESSAGETYPE_REQUEST_POLL}[zzverif.Choice("msgtype", 2)]
	amt := zzverif.U64("amt_sat")
	// PPM.Compute is replaced (symbolic side only) by rate XOR amount: injective in the rate for a
	// fixed amount, so okCompute holds exactly when Setting.Compute applies PPM.Compute to the
	// advertised rate; the arithmetic of PPM.Compute itself is H_C27_ppmCompute*.
	zzverif.Override("(*github.com/elementsproject/peerswap/premium.PPM).Compute",
		func(p *premium.PPM, amtSat uint64) int64 { return p.Value() ^ int64(amtSat) })

	err := env.ps.sendCapability(context.Background(), vID(to), mt)
	zzverif.Assert(len(env.ln.sends) == 1 && env.ln.sends[0].to == to && env.ln.sends[0].msgType == mt, "C27.one_message_to_recipient")
	_ = err
	var dto PollMessageDTO
	derr := json.Unmarshal(env.ln.sends[0].payload, &dto)
	zzverif.Assert(derr == nil, "C27.payload_decodes")
	adv := map[premium.AssetType]map[premium.OperationType]int64{
		premium.BTC:  {premium.SwapIn: dto.BTCSwapInPremiumRatePPM, premium.SwapOut: dto.BTCSwapOutPremiumRatePPM},
		premium.LBTC: {premium.SwapIn: dto.LBTCSwapInPremiumRatePPM, premium.SwapOut: dto.LBTCSwapOutPremiumRatePPM},
	}
	row := -1
	for i, r := range vRateRows[:2] {
		if r == to {
			row = i
		}
	}
	okCharged, okOrder, okCompute := true, true, true
	for _, a := range vAssets {
		for _, o := range vOps {
			r, rerr := setting.GetRate(to, a, o)
			okCharged = okCharged && rerr == nil && r.PremiumRatePPM().Value() == adv[a][o]
			want := vBuiltin(a, o)
			if rates.set[2][a][o] {
				want = rates.ppm[2][a][o]
			}
			if row >= 0 && rates.set[row][a][o] {
				want = rates.ppm[row][a][o]
			}
			okOrder = okOrder && adv[a][o] == want
			c, cerr := setting.Compute(to, a, o, amt)
			okCompute = okCompute && cerr == nil && c == premium.NewPPM(adv[a][o]).Compute(amt)
		}
	}
	zzverif.Assert(okCharged, "C27.advertised_equals_charged_rate")
	zzverif.Assert(okOrder, "C27.advertised_selection_order")
	zzverif.Assert(okCompute, "C27.compute_uses_advertised_rate")
	zzverif.Assert(dto.Version == 7 && len(dto.Assets) == 2 && dto.Assets[0] == "BTC" && dto.Assets[1] == "LBTC", "C27.advertised_version_assets")
	zzverif.Assert(dto.PeerAllowed == env.pol.IsPeerAllowed(to), "C27.advertised_allowed")
}
