//go:build verif

package peersync

import (
	"context"
	"time"

	"github.com/elementsproject/peerswap/messages"
	"github.com/elementsproject/peerswap/premium"
	"github.com/elementsproject/peerswap/zzverif"
)

// C26 (peersync part).  The guard is the real peerGuard over a real policy.Policy value whose
// suspicious_peers list contains the quarantined peer (how the entry gets there: policy harness and
// swap harness).  "Sends nothing" is observed at the Lightning stub, "stores nothing" at the bucket
// model (ghost write counters; natively: stored bytes unchanged).  The other peer is the control:
// the same stimulus for a non-suspicious peer does send / store, so the checks are not vacuous.

// vOther returns the non-suspicious peer of {A, B}.
func vOther(s string) string {
	if s == vPeerA {
		return vPeerB
	}
	return vPeerA
}

// vPeerMin: a stored peer with a version-7 capability, observed an hour ago, last polled never or at
// an arbitrary past instant (decides ShouldPoll; pollInterval = 10 s).
func vPeerMin(id, prefix string) *Peer {
	p := NewPeer(vID(id), "")
	polled, _ := vPast(prefix+".polled", 10*time.Second)
	p.SetLastPollAt(polled)
	p.SetLastObservedAt(time.Now().Add(-time.Hour))
	p.SetStatus(StatusActive)
	p.capability = NewPeerCapability(NewVersion(7), []Asset{AssetBTC}, true, premium.NewPPM(0), premium.NewPPM(2000), premium.NewPPM(0), premium.NewPPM(1000))
	return p
}

// vSnapshotMsgSmall: a capability payload that is well-formed, or malformed by an unknown asset or by
// an out-of-range rate (arbitrary int64).
func vSnapshotMsgSmall(prefix string) (PeerCapabilitySnapshot, bool) {
	k := zzverif.Choice(prefix+".assets", 2)
	s := PeerCapabilitySnapshot{Version: zzverif.U64(prefix + ".version"), Assets: [][]string{{"BTC", "LBTC"}, {"XYZ"}}[k],
		PeerAllowed: zzverif.Bool(prefix + ".allowed"), BTCSwapOutPremiumRatePPM: zzverif.I64(prefix + ".btc_out")}
	valid := k == 0 && s.BTCSwapOutPremiumRatePPM >= -1000000 && s.BTCSwapOutPremiumRatePPM <= 1000000
	return s, valid
}

func vPickSuspicious() string {
	return [2]string{vPeerA, vPeerB}[zzverif.Choice("suspicious", 2)]
}

// H_C26_inboundFromSuspicious: a poll or request-poll with an arbitrary (well-formed or malformed)
// capability payload from the suspicious peer — whether or not a record for it already exists —
// is neither answered (no message at all leaves the node) nor stored (its record is not created,
// rewritten or deleted).  The same message from the other peer is answered (request-poll) and, if
// well-formed, stored.
// Bounds: 2 peers, 1 message each.
func H_C26_inboundFromSuspicious() {
	zzverif.Unwind(64)
	vClockStart()
	sus := vPickSuspicious()
	other := vOther(sus)
	env := vNewEnv([]string{sus}, nil, vPeerA, vPeerB)
	if zzverif.Bool("known") {
		if err := env.store.SavePeerState(vPeerMin(sus, "old")); err != nil {
			zzverif.Fail("harness: seeding the store failed")
		}
	}
	snap, valid := vSnapshotMsgSmall("poll")
	mt := [2]messages.MessageType{messages.MESSAGETYPE_POLL, messages.MESSAGETYPE_REQUEST_POLL}[zzverif.Choice("msgtype", 2)]
	sn := vSnapshot(env.store)
	ctx := context.Background()

	env.ps.handler.processMessage(ctx, vMsg(sus, mt, snap))
	zzverif.Assert(len(env.ln.sends) == 0, "C26.suspicious_peer_not_answered")
	zzverif.Assert(!sn.written(env.store, sus) && !sn.written(env.store, other), "C26.suspicious_capability_not_stored")
	id, err := env.ps.handler.storeCapabilityMessage(vMsg(sus, mt, snap))
	zzverif.Assert(id.String() == sus && (err == nil) == valid && !sn.written(env.store, sus), "C26.store_capability_skips_suspicious")

	// control
	env.ps.handler.processMessage(ctx, vMsg(other, mt, snap))
	zzverif.Assert(env.ln.sentTo(sus) == 0, "C26.still_nothing_to_suspicious")
	if mt == messages.MESSAGETYPE_REQUEST_POLL {
		zzverif.Assert(env.ln.sentTo(other) == 1, "C26.control_answered")
	}
	if valid {
		zzverif.Assert(sn.written(env.store, other), "C26.control_stored")
	}
}

// H_C26_outboundToSuspicious: the poll sweep (pollPeers, forced or not) with A and B connected, the
// suspicious one known to the store, unknown, or both peers known: nothing is sent to the suspicious
// peer and its record is not written; RequestPoll(suspicious) returns nil without sending;
// performInitialSync skips it.  The other peer is polled / requested (control).
// Bounds: 2 peers; sweeps: 1 poll sweep + RequestPoll + initial sync.
func H_C26_outboundToSuspicious() {
	zzverif.Unwind(64)
	zzverif.GoInline(true)
	vClockStart()
	sus := vPickSuspicious()
	other := vOther(sus)
	env := vNewEnv([]string{sus}, nil, vPeerA, vPeerB)
	knownSus, knownOther := zzverif.Bool("known.suspicious"), zzverif.Bool("known.other")
	if knownSus {
		if err := env.store.SavePeerState(vPeerMin(sus, "sus")); err != nil {
			zzverif.Fail("harness: seeding the store failed")
		}
	}
	if knownOther {
		if err := env.store.SavePeerState(vPeerMin(other, "other")); err != nil {
			zzverif.Fail("harness: seeding the store failed")
		}
	}
	sn := vSnapshot(env.store)
	ctx := context.Background()
	force := zzverif.Bool("force")

	env.ps.poller.pollPeers(ctx, force)
	zzverif.Assert(env.ln.sentTo(sus) == 0, "C26.sweep_sends_nothing_to_suspicious")
	zzverif.Assert(!sn.written(env.store, sus), "C26.sweep_does_not_save_suspicious")
	if force || !knownOther {
		zzverif.Assert(env.ln.sentTo(other) == 1, "C26.control_polled")
	}

	n := len(env.ln.sends)
	err := env.ps.RequestPoll(ctx, vID(sus))
	zzverif.Assert(err == nil && len(env.ln.sends) == n, "C26.request_poll_to_suspicious_is_noop")
	_ = env.ps.RequestPoll(ctx, vID(other))
	zzverif.Assert(env.ln.sentTo(other) >= 1 && len(env.ln.sends) == n+1, "C26.control_request_poll_sent")

	_ = env.ps.performInitialSync(ctx)
	zzverif.Assert(env.ln.sentTo(sus) == 0 && !sn.written(env.store, sus), "C26.initial_sync_skips_suspicious")
	zzverif.Assert(len(env.ln.sends) == n+2, "C26.control_initial_sync_requested")
}

// H_C26_quarantinedWhileRunning: the quarantine takes effect on the running node.  Peer-sync is built while the
// policy names nobody; then the swap service marks a peer (AddToSuspiciousPeerList reloads the same Policy
// object in place - here the list member of that object is extended directly, the file round trip is the
// subject of the policy entries).  From then on a poll / request-poll from that peer is neither answered nor
// stored, the sweep sends it nothing, and RequestPoll to it is a no-op.
// Bounds: 2 peers, 1 message, 1 sweep.
func H_C26_quarantinedWhileRunning() {
	zzverif.Unwind(64)
	vClockStart()
	sus := vPickSuspicious()
	other := vOther(sus)
	env := vNewEnv(nil, nil, vPeerA, vPeerB)
	snap, _ := vSnapshotMsgSmall("poll")
	mt := [2]messages.MessageType{messages.MESSAGETYPE_POLL, messages.MESSAGETYPE_REQUEST_POLL}[zzverif.Choice("msgtype", 2)]
	ctx := context.Background()

	env.pol.SuspiciousPeerList = append(env.pol.SuspiciousPeerList, sus)
	sn := vSnapshot(env.store)

	env.ps.handler.processMessage(ctx, vMsg(sus, mt, snap))
	zzverif.Assert(len(env.ln.sends) == 0, "C26.peer_quarantined_at_runtime_not_answered")
	zzverif.Assert(!sn.written(env.store, sus) && !sn.written(env.store, other), "C26.peer_quarantined_at_runtime_not_stored")
	env.ps.poller.pollPeers(ctx, true)
	zzverif.Assert(env.ln.sentTo(sus) == 0 && !sn.written(env.store, sus), "C26.sweep_skips_peer_quarantined_at_runtime")
	n := len(env.ln.sends)
	err := env.ps.RequestPoll(ctx, vID(sus))
	zzverif.Assert(err == nil && len(env.ln.sends) == n, "C26.request_poll_to_peer_quarantined_at_runtime_is_noop")
}
