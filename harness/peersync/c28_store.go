//go:build verif

package peersync

import (
	"context"
	"encoding/json"
	"errors"
	"time"

	"github.com/elementsproject/peerswap/messages"
	"github.com/elementsproject/peerswap/premium"
	"github.com/elementsproject/peerswap/zzverif"
)

// vAssetSymbols: what a remote peer may put into "assets" (valid tickers in several spellings and an
// unknown one, which makes ToCapability reject the whole message).
var vAssetSymbolLists = [][]string{nil, {"BTC"}, {"LBTC", "BTC"}, {"lbtc"}, {" btc "}, {"BTC", "XYZ"}}

// vSnapshotMsg draws an arbitrary capability payload as a remote peer may send it (rates are
// arbitrary int64: out-of-range values must be rejected) and reports whether it is well-formed.
func vSnapshotMsg(prefix string) (PeerCapabilitySnapshot, bool) {
	k := zzverif.Choice(prefix+".assets", len(vAssetSymbolLists))
	s := PeerCapabilitySnapshot{
		Version:                   zzverif.U64(prefix + ".version"),
		Assets:                    vAssetSymbolLists[k],
		PeerAllowed:               zzverif.Bool(prefix + ".allowed"),
		BTCSwapInPremiumRatePPM:   zzverif.I64(prefix + ".btc_in"),
		BTCSwapOutPremiumRatePPM:  zzverif.I64(prefix + ".btc_out"),
		LBTCSwapInPremiumRatePPM:  zzverif.I64(prefix + ".lbtc_in"),
		LBTCSwapOutPremiumRatePPM: zzverif.I64(prefix + ".lbtc_out"),
	}
	inRange := func(v int64) bool { return v >= -1000000 && v <= 1000000 }
	valid := k != 5 && inRange(s.BTCSwapInPremiumRatePPM) && inRange(s.BTCSwapOutPremiumRatePPM) &&
		inRange(s.LBTCSwapInPremiumRatePPM) && inRange(s.LBTCSwapOutPremiumRatePPM)
	return s, valid
}

func vMsg(from string, mt messages.MessageType, s PeerCapabilitySnapshot) CustomMessage {
	b, err := json.Marshal(s)
	if err != nil {
		panic(err)
	}
	return CustomMessage{From: vID(from), Type: mt, Payload: b}
}

// vMatchesSnapshot: the capability equals the payload through the exported getters.
func vMatchesSnapshot(c *PeerCapability, s PeerCapabilitySnapshot) bool {
	if c == nil {
		return false
	}
	want := make([]Asset, 0, 2)
	for _, sym := range s.Assets {
		a, _ := NewAsset(sym)
		want = append(want, a)
	}
	return c.Version().Value() == s.Version && c.IsAllowed() == s.PeerAllowed && vSameAssets(c.SupportedAssets(), want) &&
		c.PremiumRateValue(premium.BTC, premium.SwapIn) == s.BTCSwapInPremiumRatePPM &&
		c.PremiumRateValue(premium.BTC, premium.SwapOut) == s.BTCSwapOutPremiumRatePPM &&
		c.PremiumRateValue(premium.LBTC, premium.SwapIn) == s.LBTCSwapInPremiumRatePPM &&
		c.PremiumRateValue(premium.LBTC, premium.SwapOut) == s.LBTCSwapOutPremiumRatePPM
}

func vSnapshotHasData(s PeerCapabilitySnapshot) bool {
	return s.Version != 0 || len(s.Assets) > 0 || s.PeerAllowed || s.BTCSwapInPremiumRatePPM != 0 || s.BTCSwapOutPremiumRatePPM != 0 ||
		s.LBTCSwapInPremiumRatePPM != 0 || s.LBTCSwapOutPremiumRatePPM != 0
}

// vPeerLite: a stored peer with arbitrary address, last-poll time (zero or past), an observation time
// in the past, status inactive, and either no capability or one with arbitrary version (>= 1, so the
// record has capability data), allowed flag, rates, and assets [BTC] or [LBTC BTC].
func vPeerLite(id, prefix string) *Peer {
	p := NewPeer(vID(id), zzverif.Str(prefix+".address"))
	p.SetStatus(StatusInactive)
	polled, _ := vPast(prefix + ".polled")
	p.SetLastPollAt(polled)
	p.SetLastObservedAt(time.Now().Add(-time.Hour))
	if zzverif.Bool(prefix + ".cap.present") {
		v := zzverif.U64(prefix + ".cap.version")
		zzverif.Assume(v >= 1)
		assets := [][]Asset{{AssetBTC}, {AssetLBTC, AssetBTC}}[zzverif.Choice(prefix+".cap.assets", 2)]
		p.capability = NewPeerCapability(NewVersion(v), assets, zzverif.Bool(prefix+".cap.allowed"),
			vRatePPM(prefix+".cap.btc_in"), vRatePPM(prefix+".cap.btc_out"), vRatePPM(prefix+".cap.lbtc_in"), vRatePPM(prefix+".cap.lbtc_out"))
	}
	return p
}

// H_C28_storeCapability: a poll / request-poll from peer A arrives while the store holds nothing for
// A, a record without capability, or a record with an arbitrary earlier capability.  Malformed
// payloads (unknown asset, rate outside +/-10^6) change nothing.  Otherwise the record read back
// from the store carries the new poll's capability unless its version is lower than the stored one
// (then the stored capability is kept); the peer becomes active and its observation time is
// refreshed; address and last-poll time are preserved.  HasCompatiblePeer(A) afterwards holds
// exactly when the stored capability's version is 7, and is false for unknown / invalid ids.
// Bounds: one peer, <= 2 assets.  Outside: JSON text encoding, bbolt (map model).
func H_C28_storeCapability() {
	zzverif.Unwind(64)
	vClockStart()
	env := vNewEnv(nil, nil, vPeerA)
	var old *Peer
	if zzverif.Bool("known") {
		old = vPeerLite(vPeerA, "old")
		if err := env.store.SavePeerState(old); err != nil {
			zzverif.Fail("harness: seeding the store failed")
		}
	}
	snap, valid := vSnapshotMsg("poll")
	mt := [2]messages.MessageType{messages.MESSAGETYPE_POLL, messages.MESSAGETYPE_REQUEST_POLL}[zzverif.Choice("msgtype", 2)]
	sn := vSnapshot(env.store)
	before := time.Now()

	env.ps.handler.processMessage(context.Background(), vMsg(vPeerA, mt, snap))
	vClockSettle()

	q, err := env.store.GetPeerState(vID(vPeerA))
	if !valid {
		zzverif.Assert(!sn.written(env.store, vPeerA), "C28.malformed_poll_changes_nothing")
	} else {
		zzverif.Assert(err == nil && q != nil, "C28.poll_stored")
		if err == nil && q != nil {
			keepOld := old != nil && old.Capability() != nil && snap.Version < old.Capability().Version().Value()
			if keepOld {
				zzverif.Reach("store.lower_version_keeps_old")
				zzverif.Assert(vSameCapability(q.Capability(), old.Capability()), "C28.lower_version_poll_keeps_stored_capability")
			} else if vSnapshotHasData(snap) {
				zzverif.Assert(vMatchesSnapshot(q.Capability(), snap), "C28.stored_capability_is_latest_poll")
			} else {
				// the all-zero poll (payload "{}"): see H_C28_recordRoundTrip_zeroCapability
				zzverif.Reach("store.zero_poll")
				zzverif.Assert(vMatchesSnapshot(q.Capability(), snap), "C28.stored_capability_is_latest_poll_zero_capability")
			}
			zzverif.Assert(q.Status() == StatusActive && !q.LastObservedAt().Before(before), "C28.poll_marks_active_and_observed")
			if old != nil {
				zzverif.Assert(q.Address() == old.Address() && q.LastPollAt().Equal(old.LastPollAt()), "C28.poll_preserves_other_fields")
			}
			zzverif.Assert(env.ps.HasCompatiblePeer(vPeerA) == (q.Capability() != nil && q.Capability().Version().Value() == 7), "C28.compatible_iff_stored_version_7")
		}
	}
	zzverif.Assert(!env.ps.HasCompatiblePeer(vPeerC) && !env.ps.HasCompatiblePeer(""), "C28.unknown_peer_not_compatible")
	if mt == messages.MESSAGETYPE_REQUEST_POLL {
		zzverif.Assert(env.ln.sentTo(vPeerA) == 1 && env.ln.sends[0].msgType == messages.MESSAGETYPE_POLL, "C28.request_poll_answered_once")
	} else {
		zzverif.Assert(len(env.ln.sends) == 0, "C28.poll_not_answered")
	}
}

// H_C28_cleanup: the cleanup sweep (poller.cleanupExpired -> ListPeers -> CleanupExpiredExcept with
// the 30 min timeout) over a store holding A and B with arbitrary observation ages, each connected or
// not: connected peers are kept untouched even when expired; a disconnected peer observed more than
// 30 min before the sweep is removed; a peer is removed only if it is disconnected and older than the
// timeout when the sweep has finished; never-observed peers are kept; a failing ListPeers skips the
// sweep entirely.  Kept peers reload equal (status may only change to "expired").
// Bounds: 2 peers; in the quick entry B's observation time is one of {never, 1 h ago, 1 min ago} and
// A's is arbitrary; H_C28_T_cleanupBothArbitrary draws both arbitrarily.
// Outside: bbolt cursor behaviour (map model, header of stubs.go).
func H_C28_cleanup() { vCleanup(false) }

// H_C28_T_cleanupBothArbitrary: H_C28_cleanup with arbitrary observation ages for both peers.
func H_C28_T_cleanupBothArbitrary() { vCleanup(true) }

func vCleanup(bothArbitrary bool) {
	zzverif.Unwind(64)
	vClockStart()
	conn := [2]bool{zzverif.Bool("connected.A"), zzverif.Bool("connected.B")}
	ids := [2]string{vPeerA, vPeerB}
	var connected []string
	for i, c := range conn {
		if c {
			connected = append(connected, ids[i])
		}
	}
	env := vNewEnv(nil, nil, connected...)
	env.ln.listErr = zzverif.Bool("listpeers.err")
	var peers [2]*Peer
	var ages [2]int64
	for i, id := range ids {
		p := NewPeer(vID(id), "")
		var seen time.Time
		var age int64
		if i == 0 || bothArbitrary {
			seen, age = vPast("seen."+id[:2], 30*time.Minute)
		} else {
			switch zzverif.Choice("seen.B", 3) {
			case 1:
				age = int64(time.Hour)
				seen = time.Now().Add(-time.Hour)
			case 2:
				age = int64(time.Minute)
				seen = time.Now().Add(-time.Minute)
			}
		}
		p.SetLastObservedAt(seen)
		p.SetStatus(StatusActive)
		if err := env.store.SavePeerState(p); err != nil {
			zzverif.Fail("harness: seeding the store failed")
		}
		peers[i], ages[i] = p, age
	}
	sn := vSnapshot(env.store)
	timeout := 30 * time.Minute

	err := env.ps.poller.cleanupExpired(context.Background())

	var after [2]*Peer
	var gerrs [2]error
	var ageAfter [2]time.Duration
	for i, id := range ids {
		after[i], gerrs[i] = env.store.GetPeerState(vID(id))
		ageAfter[i] = time.Since(peers[i].LastObservedAt())
	}
	vClockSettle()

	for i, id := range ids {
		q, gerr := after[i], gerrs[i]
		removed := errors.Is(gerr, ErrPeerNotFound)
		zzverif.Assert(removed || (gerr == nil && q != nil), "C28.cleanup_leaves_readable_store")
		never := peers[i].LastObservedAt().IsZero()
		switch {
		case env.ln.listErr:
			zzverif.Assert(err != nil && !sn.written(env.store, id), "C28.cleanup_skipped_when_peers_unknown")
		case conn[i]:
			zzverif.Assert(!removed && !sn.written(env.store, id), "C28.connected_peer_kept_even_if_expired")
		default:
			if !never && time.Duration(ages[i]) > timeout {
				zzverif.Assert(removed, "C28.expired_disconnected_peer_removed")
			}
			if removed {
				zzverif.Assert(!never && ageAfter[i] > timeout, "C28.only_expired_peers_removed")
			}
			if never {
				zzverif.Assert(!removed, "C28.never_observed_peer_kept")
			}
		}
		if !removed && gerr == nil && q != nil {
			zzverif.Assert(q.LastObservedAt().Equal(peers[i].LastObservedAt()) && (q.Status() == StatusActive || q.Status() == StatusExpired), "C28.kept_peer_unchanged")
		}
	}
}

// H_C28_requestUnknownPeers: poll sweeps (pollPeers) with an empty store and connected peers A and B:
// the first sweep requests a poll from both exactly once; a second sweep within the same minute sends
// nothing unless forced (then again exactly once each); after A disconnects and reconnects it is
// requested again immediately while B is not.  Send failures do not cause retries inside the interval.
// Bounds: 2 peers, 4 sweeps, all sweeps within vMaxRun (2 s < requestInterval = 10 min).
func H_C28_requestUnknownPeers() {
	zzverif.Unwind(64)
	vClockStart()
	env := vNewEnv(nil, nil, vPeerA, vPeerB)
	ctx := context.Background()
	force := zzverif.Bool("force_second")

	env.ps.poller.pollPeers(ctx, false)
	a1, b1 := env.ln.sentTo(vPeerA), env.ln.sentTo(vPeerB)
	env.ps.poller.pollPeers(ctx, force)
	a2, b2 := env.ln.sentTo(vPeerA), env.ln.sentTo(vPeerB)
	// A disconnects, one sweep, reconnects
	env.ln.peers = []PeerID{vID(vPeerB)}
	env.ps.poller.pollPeers(ctx, false)
	a3, b3 := env.ln.sentTo(vPeerA), env.ln.sentTo(vPeerB)
	env.ln.peers = []PeerID{vID(vPeerA), vID(vPeerB)}
	env.ps.poller.pollPeers(ctx, false)
	a4, b4 := env.ln.sentTo(vPeerA), env.ln.sentTo(vPeerB)
	vClockSettle()

	zzverif.Assert(a1 == 1 && b1 == 1, "C28.unknown_connected_peers_requested_once")
	extra := 0
	if force {
		extra = 1
	}
	zzverif.Assert(a2 == 1+extra && b2 == 1+extra, "C28.no_second_request_within_interval_unless_forced")
	zzverif.Assert(a3 == a2 && b3 == b2, "C28.no_request_while_disconnected_or_within_interval")
	zzverif.Assert(a4 == a3+1 && b4 == b3, "C28.reconnected_peer_requested_again")
	allReq := true
	for _, s := range env.ln.sends {
		allReq = allReq && s.msgType == messages.MESSAGETYPE_REQUEST_POLL
	}
	zzverif.Assert(allReq, "C28.unknown_peers_get_request_poll")
	_, okA := vRaw(env.store, vPeerA)
	zzverif.Assert(!okA, "C28.requests_store_nothing")
}

// vMaxGap bounds the harness-controlled pause between two operations of a sequence (natively a real
// time.Sleep, symbolically the clock advances by at least the pause and by less than pause + vMaxRun).
const vMaxGap = 12 * time.Second

// vPause lets `name` (0 .. vMaxGap, drawn) pass on the clock of both worlds.
func vPause(name string) time.Duration {
	gap := time.Duration(zzverif.I64(name + "_ns"))
	zzverif.Assume(gap >= 0)
	zzverif.Assume(gap <= vMaxGap)
	ta := time.Now()
	time.Sleep(gap)
	tb := time.Now()
	zzverif.Assume(tb.Sub(ta) >= gap)
	zzverif.Assume(tb.Sub(ta) < gap+vMaxRun)
	return gap
}

// H_C28_cleanupAfterPollSweep: "expired peers are removed only while disconnected" over an operation
// sequence: records for A (never observed, or observed an arbitrary time ago) and B (observed 1 h ago,
// i.e. expired, and connected throughout); a poll sweep while A is connected or not (the case without
// a preceding poll sweep is H_C28_cleanup); then A's connection state
// changes arbitrarily and an arbitrary pause of 0..12 s passes (covers both sides of the 10 s poll
// tick); then the cleanup sweep runs, with ListPeers answering the *current* connection state or
// failing.  The decision must follow the ListPeers answer at cleanup time: a peer connected then is
// kept untouched even if expired; a peer disconnected then and observed > 30 min ago is removed;
// nothing else is removed; a failing ListPeers skips the sweep, whatever an earlier sweep has seen.
// Bounds: 2 peers (B connected throughout), 1 poll sweep, pause <= 12 s, sends do not fail.
// Clock: vClockStart, vPause; all clock readings lie within pause + vMaxRun.
func H_C28_cleanupAfterPollSweep() {
	zzverif.Unwind(64)
	vClockStart()
	ids := [2]string{vPeerA, vPeerB}
	connA0, connA1, connB := zzverif.Bool("connected.A.at_poll"), zzverif.Bool("connected.A.at_cleanup"), true
	listing := func(a bool) []PeerID {
		var l []PeerID
		if a {
			l = append(l, vID(vPeerA))
		}
		if connB {
			l = append(l, vID(vPeerB))
		}
		return l
	}
	env := vNewEnv(nil, nil)
	env.ln.noFail = true
	timeout := 30 * time.Minute
	var peers [2]*Peer
	var ages [2]int64
	for i, id := range ids {
		p := NewPeer(vID(id), "")
		p.SetStatus(StatusActive)
		var seen time.Time
		var age int64
		if i == 0 {
			// not inside (30 min - pause - clock slack, 30 min]: there the verdict depends on the exact instant
			seen, age = vPast("seen.A")
			clear := time.Duration(age) > timeout
			if !clear {
				clear = time.Duration(age)+vMaxGap+2*vMaxRun <= timeout
			}
			zzverif.Assume(clear)
		} else {
			age = int64(time.Hour)
			seen = time.Now().Add(-time.Hour)
		}
		p.SetLastObservedAt(seen)
		if err := env.store.SavePeerState(p); err != nil {
			zzverif.Fail("harness: seeding the store failed")
		}
		peers[i], ages[i] = p, age
	}
	ctx := context.Background()

	env.ln.peers = listing(connA0)
	env.ps.poller.pollPeers(ctx, false)
	// A's connection state changes (or not), time passes
	env.ln.peers = listing(connA1)
	env.ln.listErr = zzverif.Bool("listpeers.err_at_cleanup")
	gap := vPause("pause")
	sn := vSnapshot(env.store)

	err := env.ps.poller.cleanupExpired(ctx)

	var gerrs [2]error
	var ageAfter [2]time.Duration
	for i, id := range ids {
		_, gerrs[i] = env.store.GetPeerState(vID(id))
		ageAfter[i] = time.Since(peers[i].LastObservedAt())
	}
	zzverif.Assume(time.Since(vT0) < gap+vMaxRun)

	conn := [2]bool{connA1, connB}
	for i, id := range ids {
		removed := errors.Is(gerrs[i], ErrPeerNotFound)
		zzverif.Assert(removed || gerrs[i] == nil, "C28.seq_cleanup_leaves_readable_store")
		never := peers[i].LastObservedAt().IsZero()
		switch {
		case env.ln.listErr:
			zzverif.Assert(err != nil && !sn.written(env.store, id), "C28.seq_cleanup_skipped_when_listpeers_fails")
		case conn[i]:
			zzverif.Assert(!removed && !sn.written(env.store, id), "C28.seq_peer_connected_at_cleanup_is_kept")
		default:
			if !never && time.Duration(ages[i]) > timeout {
				zzverif.Assert(removed, "C28.seq_expired_peer_disconnected_at_cleanup_is_removed")
			}
			if removed {
				zzverif.Assert(!never && ageAfter[i] > timeout, "C28.seq_only_expired_peers_removed")
			}
		}
	}
}

// H_C28_cleanupKeepsEachPeersOwnRecord: the cleanup sweep rewrites every kept record (status update).  With one
// peer stored with a capability, an address and a last-poll time and the other stored bare (which of A, B is
// which is drawn; both observed a minute ago, both disconnected), each record still holds its own peer's data
// after the sweep: the bare peer has no capability, no address and no poll time, the other one reloads what was
// stored.  (A decoder that reuses one record for all keys leaks the members the bare record omits.)
// Bounds: 2 peers, one sweep.
func H_C28_cleanupKeepsEachPeersOwnRecord() {
	zzverif.Unwind(64)
	vClockStart()
	env := vNewEnv(nil, nil)
	rich, bare := vPeerA, vPeerB
	if zzverif.Bool("bare_is_first") {
		rich, bare = vPeerB, vPeerA
	}
	p := NewPeer(vID(rich), "10.0.0.1:9735")
	p.SetLastPollAt(time.Now().Add(-time.Minute))
	p.SetLastObservedAt(time.Now().Add(-time.Minute))
	p.SetStatus(StatusActive)
	snap := PeerCapabilitySnapshot{Version: 7, Assets: []string{"BTC"}, PeerAllowed: true, BTCSwapOutPremiumRatePPM: zzverif.I64("rich.btc_out")}
	zzverif.Assume(snap.BTCSwapOutPremiumRatePPM >= -1000000 && snap.BTCSwapOutPremiumRatePPM <= 1000000)
	p.capability = NewPeerCapability(NewVersion(7), []Asset{AssetBTC}, true, premium.NewPPM(0), premium.NewPPM(snap.BTCSwapOutPremiumRatePPM), premium.NewPPM(0), premium.NewPPM(0))
	q := NewPeer(vID(bare), "")
	q.SetLastObservedAt(time.Now().Add(-time.Minute))
	q.SetStatus(StatusActive)
	if env.store.SavePeerState(p) != nil || env.store.SavePeerState(q) != nil {
		zzverif.Fail("harness: seeding the store failed")
	}

	err := env.ps.poller.cleanupExpired(context.Background())
	vClockSettle()

	zzverif.Assert(err == nil, "C28.cleanup_of_fresh_peers_succeeds")
	pr, perr := env.store.GetPeerState(vID(rich))
	qr, qerr := env.store.GetPeerState(vID(bare))
	zzverif.Assert(perr == nil && qerr == nil && pr != nil && qr != nil, "C28.fresh_disconnected_peers_kept")
	if pr != nil && qr != nil {
		zzverif.Assert(qr.Capability() == nil && qr.Address() == "" && qr.LastPollAt().IsZero(), "C28.cleanup_keeps_a_bare_record_bare")
		zzverif.Assert(vMatchesSnapshot(pr.Capability(), snap) && pr.Address() == "10.0.0.1:9735" && !pr.LastPollAt().IsZero(), "C28.cleanup_keeps_a_stored_capability")
	}
}
