//go:build verif

package peersync

import (
	"context"
	"errors"
	"os"
	"path/filepath"
	"time"

	"github.com/elementsproject/peerswap/messages"
	"github.com/elementsproject/peerswap/policy"
	"github.com/elementsproject/peerswap/premium"
	"github.com/elementsproject/peerswap/zzverif"
	bolt "go.etcd.io/bbolt"
)

// ---------------------------------------------------------------------------------------
// Environment of the peersync harnesses.
//
//   - bbolt is never executed symbolically.  The real Store code (SavePeerState, GetPeerState,
//     GetAllPeerStates, RemovePeerState, CleanupExpiredExcept, processPeerRecord, persistPeer) runs
//     over a *map model of one bucket*: DB.Update/View call the closure (Update rolls the map back
//     when the closure fails), Tx.Bucket returns the one bucket, Bucket.Get/Put/Delete/ForEach and
//     Cursor.First/Next/Delete work on a sorted map with the three possible keys vPeerA < vPeerB <
//     vPeerC.  Assumed contract (bbolt, trusted/outside): atomic Update, sorted iteration, a cursor
//     that stays valid over Put/Delete of the current key.
//   - encoding/json is the engine's model: Unmarshal(Marshal(record)) returns the record content.
//   - Natively a temp-file bbolt store is used through the same Store API.
//   - Lightning is a recording stub (sends fail arbitrarily), ListPeers returns the list the entry
//     configured.
//   - premium.Setting: store getter overridden by a map model (same pattern as harness/swap).
// ---------------------------------------------------------------------------------------

const (
	vPeerA = "02aaaaaaaaaaaaaaaaaaaaaaaaaaaaaaaaaaaaaaaaaaaaaaaaaaaaaaaaaaaaaaaaaa"
	vPeerB = "03bbbbbbbbbbbbbbbbbbbbbbbbbbbbbbbbbbbbbbbbbbbbbbbbbbbbbbbbbbbbbbbbbb"
	vPeerC = "03cccccccccccccccccccccccccccccccccccccccccccccccccccccccccccccccc"
	vSelf  = "02ffffffffffffffffffffffffffffffffffffffffffffffffffffffffffffffff"
)

var vKeys = [3]string{vPeerA, vPeerB, vPeerC}

func vKeyIndex(k string) int {
	for i, s := range vKeys {
		if s == k {
			return i
		}
	}
	zzverif.Fail("harness: key outside the bucket model")
	return -1
}

func vID(s string) PeerID { return PeerID{value: s} }

type vBoltModel struct {
	present [3]bool
	vals    [3][]byte
	puts    [3]int
	dels    [3]int
	pos     int
	bucket  *bolt.Bucket
	cursor  *bolt.Cursor
}

var vBolt *vBoltModel

func vNewPremiumStoreModel(db *bolt.DB) (*premium.BBoltPremiumStore, error) {
	return &premium.BBoltPremiumStore{}, nil
}

func vDBUpdate(db *bolt.DB, fn func(*bolt.Tx) error) error {
	present, vals := vBolt.present, vBolt.vals
	err := fn(&bolt.Tx{})
	if err != nil {
		vBolt.present, vBolt.vals = present, vals
	}
	return err
}
func vDBView(db *bolt.DB, fn func(*bolt.Tx) error) error { return fn(&bolt.Tx{}) }
func vTxBucket(tx *bolt.Tx, name []byte) *bolt.Bucket {
	if string(name) != "poll-list" {
		zzverif.Fail("harness: unexpected bucket")
	}
	return vBolt.bucket
}
func vBucketGet(b *bolt.Bucket, key []byte) []byte {
	i := vKeyIndex(string(key))
	if !vBolt.present[i] {
		return nil
	}
	return vBolt.vals[i]
}
func vBucketPut(b *bolt.Bucket, key []byte, value []byte) error {
	i := vKeyIndex(string(key))
	vBolt.present[i], vBolt.vals[i] = true, value
	vBolt.puts[i]++
	return nil
}
func vBucketDelete(b *bolt.Bucket, key []byte) error {
	i := vKeyIndex(string(key))
	if vBolt.present[i] {
		vBolt.dels[i]++
	}
	vBolt.present[i], vBolt.vals[i] = false, nil
	return nil
}
func vBucketForEach(b *bolt.Bucket, fn func(k, v []byte) error) error {
	for i := range vKeys {
		if vBolt.present[i] {
			if err := fn([]byte(vKeys[i]), vBolt.vals[i]); err != nil {
				return err
			}
		}
	}
	return nil
}
func vBucketCursor(b *bolt.Bucket) *bolt.Cursor { vBolt.pos = -1; return vBolt.cursor }
func vCursorFirst(c *bolt.Cursor) ([]byte, []byte) {
	vBolt.pos = -1
	return vCursorNext(c)
}
func vCursorNext(c *bolt.Cursor) ([]byte, []byte) {
	for vBolt.pos++; vBolt.pos < len(vKeys); vBolt.pos++ {
		if vBolt.present[vBolt.pos] {
			return []byte(vKeys[vBolt.pos]), vBolt.vals[vBolt.pos]
		}
	}
	return nil, nil
}
func vCursorDelete(c *bolt.Cursor) error {
	i := vBolt.pos
	if i < 0 || i >= len(vKeys) || !vBolt.present[i] {
		zzverif.Fail("harness: cursor delete without current element")
	}
	vBolt.dels[i]++
	vBolt.present[i], vBolt.vals[i] = false, nil
	return nil
}

// vNewStore returns an empty Store (symbolic: over the map model; native: temp-file bbolt).
func vNewStore() *Store {
	if zzverif.Symbolic() {
		vBolt = &vBoltModel{bucket: &bolt.Bucket{}, cursor: &bolt.Cursor{}}
		const p = "go.etcd.io/bbolt."
		zzverif.Override("(*"+p+"DB).Update", vDBUpdate)
		zzverif.Override("(*"+p+"DB).View", vDBView)
		zzverif.Override("(*"+p+"Tx).Bucket", vTxBucket)
		zzverif.Override("(*"+p+"Bucket).Get", vBucketGet)
		zzverif.Override("(*"+p+"Bucket).Put", vBucketPut)
		zzverif.Override("(*"+p+"Bucket).Delete", vBucketDelete)
		zzverif.Override("(*"+p+"Bucket).ForEach", vBucketForEach)
		zzverif.Override("(*"+p+"Bucket).Cursor", vBucketCursor)
		zzverif.Override("(*"+p+"Cursor).First", vCursorFirst)
		zzverif.Override("(*"+p+"Cursor).Next", vCursorNext)
		zzverif.Override("(*"+p+"Cursor).Delete", vCursorDelete)
		return &Store{}
	}
	dir, err := os.MkdirTemp("", "zzverif-peersync-")
	if err != nil {
		panic(err)
	}
	s, err := NewStore(filepath.Join(dir, "peers.db"))
	if err != nil {
		panic(err)
	}
	return s
}

// vRaw returns the stored bytes of a key ("" + false when absent).
func vRaw(s *Store, key string) (string, bool) {
	if zzverif.Symbolic() {
		i := vKeyIndex(key)
		return string(vBolt.vals[i]), vBolt.present[i]
	}
	var out []byte
	ok := false
	s.db.View(func(tx *bolt.Tx) error {
		if v := tx.Bucket(pollBucketName).Get([]byte(key)); v != nil {
			out, ok = append([]byte(nil), v...), true
		}
		return nil
	})
	return string(out), ok
}

// vWrites is the observable "was the record of key written or deleted since the snapshot":
// symbolically the ghost counters of the map model, natively a comparison of the stored bytes.
type vSnap struct {
	raw     [3]string
	present [3]bool
	puts    [3]int
	dels    [3]int
}

func vSnapshot(s *Store) *vSnap {
	sn := &vSnap{}
	for i, k := range vKeys {
		sn.raw[i], sn.present[i] = vRaw(s, k)
	}
	if zzverif.Symbolic() {
		sn.puts, sn.dels = vBolt.puts, vBolt.dels
	}
	return sn
}

func (sn *vSnap) written(s *Store, key string) bool {
	i := vKeyIndex(key)
	if zzverif.Symbolic() {
		return vBolt.puts[i] != sn.puts[i] || vBolt.dels[i] != sn.dels[i]
	}
	raw, ok := vRaw(s, key)
	return ok != sn.present[i] || raw != sn.raw[i]
}

// ---------------------------------------------------------------------------------------
// Lightning
// ---------------------------------------------------------------------------------------

type vSent struct {
	to      string
	msgType messages.MessageType
	payload []byte
}

type vLightning struct {
	sends   []vSent
	peers   []PeerID
	listErr bool
	lists   int
	noFail  bool // sends never fail (no draw)
}

func (l *vLightning) SendCustomMessage(ctx context.Context, to PeerID, msgType messages.MessageType, payload []byte) error {
	l.sends = append(l.sends, vSent{to: to.String(), msgType: msgType, payload: payload})
	zzverif.Effect("send", to.String(), int(msgType))
	if !l.noFail && zzverif.Bool("send.err") {
		return errors.New("send failed")
	}
	return nil
}
func (l *vLightning) SubscribeCustomMessages(ctx context.Context) (<-chan CustomMessage, error) {
	return nil, errors.New("not used")
}
func (l *vLightning) Stop() error { return nil }
func (l *vLightning) ListPeers(ctx context.Context) ([]PeerID, error) {
	l.lists++
	if l.listErr {
		return nil, errors.New("listpeers failed")
	}
	return l.peers, nil
}

func (l *vLightning) sentTo(peer string) int {
	n := 0
	for _, s := range l.sends {
		if s.to == peer {
			n++
		}
	}
	return n
}

// ---------------------------------------------------------------------------------------
// premium.Setting over a map model (rows: vPeerA, vPeerB, "default")
// ---------------------------------------------------------------------------------------

type vRates struct {
	set [3][3][3]bool
	ppm [3][3][3]int64
}

var (
	vCurRates *vRates
	vRateRows = [3]string{vPeerA, vPeerB, "default"}
	vAssets   = [2]premium.AssetType{premium.BTC, premium.LBTC}
	vOps      = [2]premium.OperationType{premium.SwapIn, premium.SwapOut}
)

func vPremiumGetRate(p *premium.BBoltPremiumStore, peer string, asset premium.AssetType, operation premium.OperationType) (*premium.PremiumRate, error) {
	for i, r := range vRateRows {
		if r == peer && vCurRates.set[i][asset][operation] {
			return premium.NewPremiumRate(asset, operation, premium.NewPPM(vCurRates.ppm[i][asset][operation]))
		}
	}
	return nil, premium.ErrRateNotFound
}

// vPremiumSetting draws an arbitrary rate table (12 cells, each present/absent with an int64 ppm).
func vPremiumSetting() (*vRates, *premium.Setting) {
	r := &vRates{}
	for i := range vRateRows {
		for _, a := range vAssets {
			for _, o := range vOps {
				r.set[i][a][o] = zzverif.Bool("rate.set")
				r.ppm[i][a][o] = zzverif.I64("rate.ppm")
			}
		}
	}
	vCurRates = r
	if zzverif.Symbolic() {
		zzverif.Override("(*github.com/elementsproject/peerswap/premium.BBoltPremiumStore).GetRate", vPremiumGetRate)
		zzverif.Override("github.com/elementsproject/peerswap/premium.NewBBoltPremiumStore", vNewPremiumStoreModel)
		ps, perr := premium.NewSetting(nil)
		if perr != nil {
			zzverif.Fail("premium.NewSetting failed over the store model")
		}
		return r, ps
	}
	dir, err := os.MkdirTemp("", "zzverif-premium-")
	if err != nil {
		panic(err)
	}
	db, err := bolt.Open(filepath.Join(dir, "premium.db"), 0o600, nil)
	if err != nil {
		panic(err)
	}
	ps, err := premium.NewSetting(db)
	if err != nil {
		panic(err)
	}
	for i, row := range vRateRows {
		for _, a := range vAssets {
			for _, o := range vOps {
				if r.set[i][a][o] {
					pr, _ := premium.NewPremiumRate(a, o, premium.NewPPM(r.ppm[i][a][o]))
					if i == 2 {
						ps.SetDefaultRate(context.Background(), pr)
					} else {
						ps.SetRate(context.Background(), row, pr)
					}
				}
			}
		}
	}
	return r, ps
}

func vBuiltin(a premium.AssetType, o premium.OperationType) int64 {
	switch {
	case a == premium.BTC && o == premium.SwapOut:
		return 2000
	case a == premium.LBTC && o == premium.SwapOut:
		return 1000
	}
	return 0
}

// ---------------------------------------------------------------------------------------
// Wiring
// ---------------------------------------------------------------------------------------

type vEnv struct {
	store *Store
	ln    *vLightning
	ps    *PeerSync
	pol   *policy.Policy
}

// vNewEnv wires a PeerSync exactly like NewPeerSync does (real guard over a real policy.Policy value
// whose suspicious list is the given one; allow-list arbitrary: accept_all_peers drawn).
func vNewEnv(suspicious []string, setting *premium.Setting, connected ...string) *vEnv {
	e := &vEnv{store: vNewStore(), ln: &vLightning{}}
	for _, c := range connected {
		e.ln.peers = append(e.ln.peers, vID(c))
	}
	e.pol = &policy.Policy{SuspiciousPeerList: suspicious, AcceptAllPeers: zzverif.Bool("policy.accept_all"), AllowNewSwaps: true}
	e.ps = NewPeerSync(vID(vSelf), e.store, e.ln, e.pol, nil, setting)
	return e
}

// Clock.  Symbolically time.Now is a fresh non-decreasing int64 (ns); natively it is the real clock,
// which a script cannot set.  Two environment assumptions make both sides agree and are part of
// every claim that uses them:
//   - vClockStart: the clock shows a date later than 50 years after the zero time (natively always
//     true; excludes symbolic clocks near 0, where time.Since(zero time) would be small);
//   - vClockSettle (called after the code under test, before the assertions): all clock readings of
//     one harness run lie within vMaxRun of each other (a run is a handful of function calls).
//   - vPast(name, thresholds...): a stored age is not drawn from the window (threshold - vMaxRun,
//     threshold] of a clock comparison the code under test makes with it: there the outcome depends
//     on the exact instant of the code's own clock reading (either answer is correct), and the native
//     run, whose clock the script cannot set, may legitimately take the other branch.
const vMaxRun = 2 * time.Second

var vT0 time.Time

func vClockStart() {
	vT0 = time.Now()
	zzverif.Assume(vT0.Sub(time.Time{}) > 50*365*24*time.Hour)
}

func vClockSettle() { zzverif.Assume(time.Since(vT0) < vMaxRun) }

// vAssumeClear keeps age out of the window (threshold - vMaxRun, threshold].
func vAssumeClear(age int64, threshold time.Duration) {
	clear := time.Duration(age) > threshold
	if !clear {
		clear = time.Duration(age)+vMaxRun <= threshold
	}
	zzverif.Assume(clear)
}

// vPast returns a time that lies age ns (0 <= age <= 100 years) before the current instant, or the
// zero time.  All stored timestamps of the harnesses are built this way so that native runs (real
// clock) and symbolic runs agree.
func vPast(name string, thresholds ...time.Duration) (time.Time, int64) {
	zero := zzverif.Bool(name + ".zero")
	age := zzverif.I64(name + ".age_ns")
	zzverif.Assume(age >= 0)
	zzverif.Assume(age <= int64(100*365*24*time.Hour))
	for _, th := range thresholds {
		vAssumeClear(age, th)
	}
	if zero {
		return time.Time{}, 0
	}
	t := time.Now().Add(-time.Duration(age))
	zzverif.Assume(!t.IsZero())
	return t, age
}
