//go:build verif

package peersync

import (
	"time"

	"github.com/elementsproject/peerswap/premium"
	"github.com/elementsproject/peerswap/zzverif"
)

// vAssetLists: every asset list of length <= 2 over {BTC, LBTC} (AssetUnknown never enters a
// capability: ToCapability rejects unknown symbols).
var vAssetLists = [][]Asset{nil, {AssetBTC}, {AssetLBTC}, {AssetBTC, AssetLBTC}, {AssetLBTC, AssetBTC}, {AssetBTC, AssetBTC}, {AssetLBTC, AssetLBTC}}

// vRatePPM draws a premium rate inside the range every stored capability satisfies
// (parseCapabilityMessage -> ToCapability -> NewPremiumRate rejects anything outside +/-10^6).
func vRatePPM(name string) *premium.PPM {
	v := zzverif.I64(name)
	zzverif.Assume(v >= MinPremiumRatePPM)
	zzverif.Assume(v <= MaxPremiumRatePPM)
	return premium.NewPPM(v)
}

// vCapability draws an arbitrary capability (version uint64, <= 2 assets, allowed flag, 4 rates).
func vCapability(prefix string) *PeerCapability {
	return NewPeerCapability(NewVersion(zzverif.U64(prefix+".version")), vAssetLists[zzverif.Choice(prefix+".assets", len(vAssetLists))],
		zzverif.Bool(prefix+".allowed"), vRatePPM(prefix+".btc_in"), vRatePPM(prefix+".btc_out"), vRatePPM(prefix+".lbtc_in"), vRatePPM(prefix+".lbtc_out"))
}

func vSameAssets(a, b []Asset) bool {
	if len(a) != len(b) {
		return false
	}
	for i := range a {
		if a[i] != b[i] {
			return false
		}
	}
	return true
}

// vSameCapability compares two capabilities through the exported getters (ObservedAt excluded: it
// is not persisted, see H_C28_recordRoundTrip).
func vSameCapability(a, b *PeerCapability) bool {
	if a == nil || b == nil {
		return a == nil && b == nil
	}
	ok := a.Version().Value() == b.Version().Value() && a.IsAllowed() == b.IsAllowed() && vSameAssets(a.SupportedAssets(), b.SupportedAssets())
	for _, as := range vAssets {
		for _, op := range vOps {
			ok = ok && a.PremiumRateValue(as, op) == b.PremiumRateValue(as, op)
		}
	}
	return ok && a.SupportsAsset(AssetBTC) == b.SupportsAsset(AssetBTC) && a.SupportsAsset(AssetLBTC) == b.SupportsAsset(AssetLBTC)
}

// H_C28_mergeCapabilities: MergeCapabilities(local, remote) returns the remote (newer) capability
// object unless its version is lower than the local one (then the local object); nil on either
// side yields the other.  All uint64 versions.
func H_C28_mergeCapabilities() {
	zzverif.Unwind(32)
	vClockStart()
	l := NewSyncLogic()
	var local, remote *PeerCapability
	if zzverif.Bool("local.present") {
		local = vCapability("local")
	}
	if zzverif.Bool("remote.present") {
		remote = vCapability("remote")
	}
	got := l.MergeCapabilities(local, remote)
	switch {
	case local == nil:
		zzverif.Assert(got == remote, "C28.merge_nil_local")
	case remote == nil:
		zzverif.Assert(got == local, "C28.merge_nil_remote")
	case remote.Version().Value() < local.Version().Value():
		zzverif.Assert(got == local, "C28.merge_keeps_local_on_lower_version")
	default:
		zzverif.Assert(got == remote, "C28.merge_takes_newer_poll")
	}
}

var vStatuses = [4]PeerStatus{StatusActive, StatusInactive, StatusUnknown, StatusExpired}

// vPeer draws an arbitrary peer: address, one of the four status constants, last-poll and
// last-observed instants (zero or up to 100 years in the past), optional capability.
func vPeer(id string, prefix string) (*Peer, int64) {
	p := NewPeer(vID(id), zzverif.Str(prefix+".address"))
	p.SetStatus(vStatuses[zzverif.Choice(prefix+".status", 4)])
	polled, _ := vPast(prefix + ".polled")
	seen, seenAge := vPast(prefix + ".seen")
	p.SetLastPollAt(polled)
	p.SetLastObservedAt(seen)
	if zzverif.Bool(prefix + ".cap.present") {
		p.capability = vCapability(prefix + ".cap")
	}
	return p, seenAge
}

func vCapabilityHasData(c *PeerCapability) bool {
	return c.Version().Value() != 0 || len(c.SupportedAssets()) > 0 || c.IsAllowed() ||
		c.PremiumRateValue(premium.BTC, premium.SwapIn) != 0 || c.PremiumRateValue(premium.BTC, premium.SwapOut) != 0 ||
		c.PremiumRateValue(premium.LBTC, premium.SwapIn) != 0 || c.PremiumRateValue(premium.LBTC, premium.SwapOut) != 0
}

// vRoundTripEqual asserts observational equality of p and q through the exported getters.
func vRoundTripEqual(p, q *Peer, suffix string) {
	zzverif.Assert(q.ID().Equals(p.ID()) && q.Address() == p.Address() && q.Status() == p.Status(), "C28.roundtrip_identity_fields"+suffix)
	zzverif.Assert(q.LastPollAt().Equal(p.LastPollAt()) && q.LastObservedAt().Equal(p.LastObservedAt()) &&
		q.LastPollAt().IsZero() == p.LastPollAt().IsZero() && q.LastObservedAt().IsZero() == p.LastObservedAt().IsZero(), "C28.roundtrip_timestamps"+suffix)
	zzverif.Assert(vSameCapability(p.Capability(), q.Capability()), "C28.roundtrip_capability"+suffix)
	v7 := NewVersion(7)
	zzverif.Assert(q.IsCompatibleWith(v7) == p.IsCompatibleWith(v7), "C28.roundtrip_compatibility"+suffix)
	if q.Capability() != nil {
		// the observation instant is not a record field: it is rehydrated from LastSeen
		zzverif.Assert(q.Capability().ObservedAt().Equal(p.LastObservedAt()), "C28.roundtrip_observed_at_is_last_seen"+suffix)
	}
}

// H_C28_recordRoundTrip: for every peer (arbitrary address, status constant, timestamps, no capability
// or a capability with at least one non-zero field: version, <= 2 assets, allowed, rates within
// +/-10^6) toPeer(peerToRecord(p)) succeeds and equals p through every exported getter of Peer and
// PeerCapability, except PeerCapability.ObservedAt, which is not persisted and becomes LastSeen.
// The all-zero capability is H_C28_recordRoundTrip_zeroCapability.
// Outside: the JSON text between the two functions and bbolt.
func H_C28_recordRoundTrip() {
	zzverif.Unwind(32)
	vClockStart()
	p, _ := vPeer(vPeerA, "peer")
	if p.Capability() != nil {
		zzverif.Assume(vCapabilityHasData(p.Capability()))
	}
	rec := peerToRecord(p)
	q, err := rec.toPeer(vPeerA)
	zzverif.Assert(err == nil && q != nil, "C28.roundtrip_loads")
	if err == nil && q != nil {
		vRoundTripEqual(p, q, "")
	}
}

// H_C28_recordRoundTrip_zeroCapability: the remaining case — a capability whose every field is zero
// (version 0, no assets, not allowed, all rates 0; what a poll with payload "{}" produces).
func H_C28_recordRoundTrip_zeroCapability() {
	vClockStart()
	p := NewPeer(vID(vPeerA), "")
	p.UpdateCapability(NewPeerCapability(NewVersion(0), nil, false, premium.NewPPM(0), premium.NewPPM(0), premium.NewPPM(0), premium.NewPPM(0)))
	q, err := peerToRecord(p).toPeer(vPeerA)
	zzverif.Assert(err == nil && q != nil, "C28.roundtrip_zero_loads")
	if err == nil && q != nil {
		vRoundTripEqual(p, q, "_zero_capability")
	}
}

// H_C28_expiry: IsExpired / CheckAndUpdateStatus against the clock.  A peer never observed
// (zero LastObservedAt) never expires; a peer observed `age` before the call is expired if
// age > timeout already before the call, and if it is reported expired then its age measured after
// the call exceeds the timeout (the internal clock reading lies between the two); the status
// becomes "expired" exactly when IsExpired, otherwise it is unchanged.
func H_C28_expiry() {
	vClockStart()
	p := NewPeer(vID(vPeerA), "")
	p.SetStatus(vStatuses[zzverif.Choice("peer.status", 4)])
	timeout := time.Duration(zzverif.I64("timeout_ns"))
	zzverif.Assume(timeout > 0)
	zzverif.Assume(timeout <= 100*365*24*time.Hour)
	seen, age := vPast("peer.seen", timeout)
	p.SetLastObservedAt(seen)
	st := p.Status()
	exp := p.IsExpired(timeout)
	after := time.Since(p.LastObservedAt())
	vClockSettle()
	if p.LastObservedAt().IsZero() {
		zzverif.Assert(!exp, "C28.never_observed_never_expires")
	} else {
		zzverif.Assert(!(time.Duration(age) > timeout) || exp, "C28.expired_when_older_than_timeout")
		zzverif.Assert(!exp || after > timeout, "C28.expired_only_when_older_than_timeout")
	}
	zzverif.Assert(p.Status() == st, "C28.is_expired_is_pure")
	q := *p
	q.CheckAndUpdateStatus(timeout)
	exp2 := q.IsExpired(timeout)
	vClockSettle()
	// the two readings can differ only inside the settle window; compare on the unambiguous sides
	if exp {
		zzverif.Assert(q.Status() == StatusExpired, "C28.status_expired_when_expired")
	}
	if !exp2 {
		zzverif.Assert(q.Status() == st, "C28.status_unchanged_when_not_expired")
	}
}

// H_C28_shouldKeepPeer: a record is exempt from cleanup exactly when its key is in the set of
// connected peers (empty set / nil: never).
func H_C28_shouldKeepPeer() {
	keep := map[PeerID]struct{}{}
	inA, inB := zzverif.Bool("connected.A"), zzverif.Bool("connected.B")
	if inA {
		keep[vID(vPeerA)] = struct{}{}
	}
	if inB {
		keep[vID(vPeerB)] = struct{}{}
	}
	zzverif.Assert(shouldKeepPeer([]byte(vPeerA), keep) == inA, "C28.keep_iff_connected")
	zzverif.Assert(shouldKeepPeer([]byte(vPeerB), keep) == inB, "C28.keep_iff_connected_b")
	zzverif.Assert(!shouldKeepPeer([]byte(vPeerC), keep) && !shouldKeepPeer([]byte(vPeerA), nil), "C28.keep_not_for_unconnected")
}

// vInstant: an arbitrary non-zero instant (1 ns .. ~146 years after the Unix epoch), so differences
// do not saturate natively nor wrap symbolically.
func vInstant(name string) (time.Time, int64) {
	ns := zzverif.I64(name)
	zzverif.Assume(ns >= 1)
	zzverif.Assume(ns <= 1<<62)
	return time.Unix(0, ns), ns
}

// H_C28_allowRequest: the first request to a peer is always allowed and recorded; a second one at
// any instant closer than requestInterval (10 min; also for a clock that went backwards) is refused
// unless forced, and allowed (and re-recorded) when forced or >= interval later; a refused attempt
// does not move the recorded instant; other peers are independent; pruneRequestTimes forgets exactly
// the peers that are not connected, so a reconnecting peer is requested again immediately.
func H_C28_allowRequest() {
	p := newPoller(nil, nil, nil, nil, nil, 10*time.Second, time.Minute, 30*time.Minute, 10*time.Minute)
	a, b := vID(vPeerA), vID(vPeerB)
	t1, n1 := vInstant("t1")
	t2, n2 := vInstant("t2")
	t3, n3 := vInstant("t3")
	f1, f2 := zzverif.Bool("force1"), zzverif.Bool("force2")
	iv := int64(10 * time.Minute)

	zzverif.Assert(p.allowRequest(a, t1, f1), "C28.first_request_allowed")
	second := p.allowRequest(a, t2, f2)
	zzverif.Assert(second == (f2 || n2-n1 >= iv), "C28.second_request_within_interval_refused_unless_forced")
	last := n1
	if second {
		last = n2
	}
	third := p.allowRequest(a, t3, false)
	zzverif.Assert(third == (n3-last >= iv), "C28.refused_attempt_does_not_move_window")
	zzverif.Assert(p.allowRequest(b, t2, false), "C28.other_peer_independent")

	// A stays connected, B disconnects
	p.pruneRequestTimes(map[PeerID]struct{}{a: {}})
	_, hasA := p.lastRequestedAt[a]
	_, hasB := p.lastRequestedAt[b]
	zzverif.Assert(hasA && !hasB, "C28.prune_forgets_exactly_disconnected")
	zzverif.Assert(p.allowRequest(b, t2, false), "C28.reconnected_peer_requested_immediately")
}

// H_C28_isCompatibleWith: a peer is compatible with version w exactly when it has a capability
// whose version equals w (all uint64 pairs).
func H_C28_isCompatibleWith() {
	vClockStart()
	p := NewPeer(vID(vPeerA), "")
	if zzverif.Bool("peer.cap.present") {
		p.UpdateCapability(NewPeerCapability(NewVersion(zzverif.U64("peer.cap.version")), nil, false, nil, nil, nil, nil))
	}
	w := zzverif.U64("version")
	want := p.Capability() != nil && p.Capability().Version().Value() == w
	zzverif.Assert(p.IsCompatibleWith(NewVersion(w)) == want, "C28.compatible_iff_same_version")
}
