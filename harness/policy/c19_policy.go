//go:build verif

package policy

import "github.com/elementsproject/peerswap/zzverif"

// H_C19_policyReadVsUpdate: a request handler asks the policy (NewSwapsAllowed, IsPeerAllowed,
// IsPeerSuspicious, GetMinSwapAmountMsat) while an RPC command or the CSV-refund path of another swap
// updates it (AddToSuspiciousPeerList -> ReloadFile -> *p = *newp).  File model as in the C26 entries.
func H_C19_policyReadVsUpdate() {
	key := zzverif.HexStr("key", 33)
	zzverif.Assume(key != vKeyB && key != vKeyC)
	p := vNewPolicy([]string{vKeyB}, true, true, key)
	which := zzverif.Choice("reader", 4)
	read := func() {
		switch which {
		case 0:
			_ = p.NewSwapsAllowed()
		case 1:
			_ = p.IsPeerAllowed(vKeyB)
		case 2:
			_ = p.IsPeerSuspicious(vKeyB)
		default:
			_ = p.GetMinSwapAmountMsat()
		}
	}
	viaReload := zzverif.Bool("update_is_reloadpolicy_rpc")
	update := func() {
		if viaReload {
			_ = p.ReloadFile() // the reloadpolicy RPC
		} else {
			_ = p.AddToSuspiciousPeerList(key)
		}
	}
	zzverif.Race2("C19.race_free", read, update)
}
