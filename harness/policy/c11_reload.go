//go:build verif

package policy

import (
	"fmt"
	"os"

	"github.com/elementsproject/peerswap/zzverif"
)

// H_C11_policyReloadTakesEveryField: the admission conditions of C11 are read from the policy object; every
// runtime change of the policy file reaches it through ReloadFile.  After a reload every getter answers
// with what the file says: minimum swap amount, on-chain reserve, allow_new_swaps, accept_all_peers, the
// allowlist and the suspicious list - and the policy still knows its file.
// File model as in the C26 entries: the ini parser (`create`) is outside (C25 is not applicable) and is
// replaced by "a policy holding the values of the file"; natively the real file is written and parsed.
func H_C11_policyReloadTakesEveryField() {
	p := vNewPolicy([]string{vKeyB}, true, true, "")
	path := p.path
	min, reserve := zzverif.U64("file.min_swap_amount_msat"), zzverif.U64("file.reserve_onchain_msat")
	allowNew, acceptAll := zzverif.Bool("file.allow_new_swaps"), zzverif.Bool("file.accept_all_peers")
	if zzverif.Symbolic() {
		vReloadValues = &Policy{MinSwapAmountMsat: min, ReserveOnchainMsat: reserve, AllowNewSwaps: allowNew, AcceptAllPeers: acceptAll,
			PeerAllowlist: []string{vKeyC}, SuspiciousPeerList: []string{vKeyB}}
		zzverif.Override("github.com/elementsproject/peerswap/policy.create", vCreateFromValues)
	} else {
		content := fmt.Sprintf("min_swap_amount_msat=%d\nreserve_onchain_msat=%d\nallow_new_swaps=%t\naccept_all_peers=%t\nallowlisted_peers=%s\nsuspicious_peers=%s\n",
			min, reserve, allowNew, acceptAll, vKeyC, vKeyB)
		if err := os.WriteFile(path, []byte(content), 0o644); err != nil {
			panic(err)
		}
	}
	err := p.ReloadFile()
	zzverif.Assert(err == nil, "C11.policy_reload_ok")
	zzverif.Assert(p.GetMinSwapAmountMsat() == min, "C11.policy_reload_takes_min_swap_amount")
	zzverif.Assert(p.GetReserveOnchainMsat() == reserve, "C11.policy_reload_takes_reserve")
	zzverif.Assert(p.NewSwapsAllowed() == allowNew, "C11.policy_reload_takes_allow_new_swaps")
	zzverif.Assert(p.IsPeerAllowed(vKeyC) && p.IsPeerAllowed(vKeyB) == acceptAll, "C11.policy_reload_takes_allowlist_and_accept_all")
	zzverif.Assert(p.IsPeerSuspicious(vKeyB) && !p.IsPeerSuspicious(vKeyC), "C11.policy_reload_takes_suspicious_list")
	zzverif.Assert(p.path == path, "C11.policy_reload_keeps_path")
}

var vReloadValues *Policy

func vCreateFromValues(r interface{ Read([]byte) (int, error) }) (*Policy, error) {
	c := *vReloadValues
	return &c, nil
}
