//go:build verif

package policy

import (
	"fmt"
	"io"
	"os"
	"path/filepath"
	"strings"

	"github.com/elementsproject/peerswap/zzverif"
)

// ---------------------------------------------------------------------------------------
// C26 (policy part): AddToSuspiciousPeerList up to the file operations.
//
// The policy file is environment.  Symbolically the os calls made by addLineToFile / ReloadFile
// (os.OpenFile, os.Open, (*os.File).WriteString, (*os.File).Close) and the ini parser entry point
// `create` are overridden by a file model:
//   - the file is a list of appended strings plus the list of suspicious / allow-listed keys the
//     ini parser would read back from it; a string equal to fmt.Sprintf("suspicious_peers=%s", k)+"\n"
//     appended in O_APPEND|O_WRONLY mode adds k to the suspicious keys (this *is* the ini round trip,
//     which is outside: C25 is not applicable — go-flags' reflection based parser);
//   - opening fails exactly when the file does not exist (no O_CREATE) — drawn by the entry and
//     produced natively by removing the file;
//   - `create` returns DefaultPolicy() with the two lists of the model (never fails: the file
//     content is assumed to be well-formed ini).
//   - regexp.MatchString for the one pattern of isValidPubkey answers "66 characters of [0-9a-f]":
//     computed for concrete strings, true for the symbolic key built by zzverif.HexStr(.., 33)
//     (contract of encoding/hex: lower-case digits, 2 per byte).
// Natively the real file system, go-flags and regexp run on a temp file.
// ---------------------------------------------------------------------------------------

type vOpenRec struct {
	path string
	flag int
}

type vFileModel struct {
	exists     bool
	path       string
	suspicious []string
	allow      []string
	appends    []string
	opens      []vOpenRec
	creates    int
	closes     int
	order      []string // "append" / "reload" in call order
	symKey     string
	handles    map[*os.File]int // handle -> flag
}

var vFile *vFileModel

func vOpenFile(name string, flag int, perm os.FileMode) (*os.File, error) {
	vFile.opens = append(vFile.opens, vOpenRec{path: name, flag: flag})
	if name != vFile.path {
		zzverif.Fail("harness: unexpected file path")
	}
	if !vFile.exists {
		if flag&os.O_CREATE == 0 {
			return nil, &os.PathError{Op: "open", Path: name, Err: os.ErrNotExist}
		}
		vFile.exists = true
	}
	f := &os.File{}
	vFile.handles[f] = flag
	return f, nil
}

func vOpen(name string) (*os.File, error) { return vOpenFile(name, os.O_RDONLY, 0) }

func vWriteString(f *os.File, s string) (int, error) {
	flag, ok := vFile.handles[f]
	if !ok {
		zzverif.Fail("harness: write to unknown handle")
	}
	if flag&os.O_APPEND == 0 || flag&os.O_WRONLY == 0 {
		zzverif.Fail("harness: model supports append-only writes")
	}
	vFile.appends = append(vFile.appends, s)
	vFile.order = append(vFile.order, "append")
	// what the ini parser reads back from this line
	for _, k := range []string{vFile.symKey, vKeyB, vKeyC} {
		if k != "" && s == fmt.Sprintf("suspicious_peers=%s", k)+"\n" {
			vFile.suspicious = append(vFile.suspicious, k)
		}
	}
	return len(s), nil
}

func vClose(f *os.File) error { vFile.closes++; return nil }

func vCreate(r io.Reader) (*Policy, error) {
	vFile.creates++
	vFile.order = append(vFile.order, "reload")
	p := DefaultPolicy()
	p.SuspiciousPeerList = append([]string(nil), vFile.suspicious...)
	p.PeerAllowlist = append([]string(nil), vFile.allow...)
	return p, nil
}

func vIsLowerHex66(s string) bool {
	if len(s) != 66 {
		return false
	}
	for i := 0; i < len(s); i++ {
		c := s[i]
		if !(c >= '0' && c <= '9' || c >= 'a' && c <= 'f') {
			return false
		}
	}
	return true
}

func vMatchString(pattern string, s string) (bool, error) {
	if pattern != "^[0-9a-f]{66}?\\z" {
		zzverif.Fail("harness: unexpected pattern")
	}
	if vFile.symKey != "" && s == vFile.symKey {
		return true, nil
	}
	return vIsLowerHex66(s), nil
}

const (
	vKeyB = "03bbbbbbbbbbbbbbbbbbbbbbbbbbbbbbbbbbbbbbbbbbbbbbbbbbbbbbbbbbbbbbbbbb"
	vKeyC = "02cccccccccccccccccccccccccccccccccccccccccccccccccccccccccccccccc"
)

// vNewPolicy builds a Policy bound to a policy file that initially lists the given suspicious peers.
func vNewPolicy(initial []string, withPath, fileExists bool, symKey string) *Policy {
	if zzverif.Symbolic() {
		vFile = &vFileModel{exists: fileExists, path: "/zzverif/policy.conf", suspicious: append([]string(nil), initial...),
			symKey: symKey, handles: map[*os.File]int{}}
		zzverif.Override("os.OpenFile", vOpenFile)
		zzverif.Override("os.Open", vOpen)
		zzverif.Override("(*os.File).WriteString", vWriteString)
		zzverif.Override("(*os.File).Close", vClose)
		zzverif.Override("github.com/elementsproject/peerswap/policy.create", vCreate)
		zzverif.Override("regexp.MatchString", vMatchString)
		p := DefaultPolicy()
		p.SuspiciousPeerList = append([]string(nil), initial...)
		if withPath {
			p.path = vFile.path
		}
		return p
	}
	dir, err := os.MkdirTemp("", "zzverif-policy-")
	if err != nil {
		panic(err)
	}
	path := filepath.Join(dir, "policy.conf")
	var sb strings.Builder
	for _, k := range initial {
		sb.WriteString("suspicious_peers=" + k + "\n")
	}
	if err := os.WriteFile(path, []byte(sb.String()), 0o644); err != nil {
		panic(err)
	}
	p, err := CreateFromFile(path)
	if err != nil {
		panic(err)
	}
	vFile = &vFileModel{path: path}
	if !withPath {
		p.path = ""
	}
	if !fileExists {
		os.Remove(path)
	}
	return p
}

// vFileAppends returns the strings appended to the policy file since vNewPolicy (natively: the
// file's content after the initial lines, one string per line).
func vFileAppends(initial []string) []string {
	if zzverif.Symbolic() {
		return vFile.appends
	}
	b, err := os.ReadFile(vFile.path)
	if err != nil {
		return nil
	}
	lines := strings.SplitAfter(string(b), "\n")
	if n := len(lines); n > 0 && lines[n-1] == "" {
		lines = lines[:n-1]
	}
	if len(lines) < len(initial) {
		return []string{"<file truncated>"}
	}
	return lines[len(initial):]
}

// vReloadedAfterAppend: symbolically the recorded call order is exactly append, reload; natively
// observed through its effect (the in-memory list contains the appended key only via a reload).
func vReloadedAfterAppend(p *Policy, key string) bool {
	if zzverif.Symbolic() {
		return len(vFile.order) == 2 && vFile.order[0] == "append" && vFile.order[1] == "reload"
	}
	return p.IsPeerSuspicious(key)
}

// vNoFileOps: no open / write / parse happened (natively not observable after the fact: true).
func vNoFileOps() bool {
	if zzverif.Symbolic() {
		return len(vFile.opens)+len(vFile.appends)+vFile.creates == 0
	}
	return true
}

// vAppendMode: the first open was (path, O_APPEND|O_WRONLY) (natively not observable: true).
func vAppendMode(path string) bool {
	if zzverif.Symbolic() {
		return len(vFile.opens) > 0 && vFile.opens[0].path == path && vFile.opens[0].flag == os.O_APPEND|os.O_WRONLY
	}
	return true
}

// H_C26_addSuspicious_validNewKey: for every 33-byte key (66 lower-case hex characters) that is not
// yet listed, a policy bound to an existing file whose list is [], [B] or [B, C]:
// AddToSuspiciousPeerList returns nil, appends exactly the one string "suspicious_peers=<key>\n"
// (O_APPEND|O_WRONLY, to the policy's path), then reloads; afterwards IsPeerSuspicious(key) holds,
// earlier entries stay suspicious, and the policy stays bound to its file.  A second call with the
// same key is refused without touching the file.
// Bounds: <= 2 earlier entries.  Outside: file-system and ini round trip (C25 n/a), see file header.
func H_C26_addSuspicious_validNewKey() {
	key := zzverif.HexStr("key", 33)
	zzverif.Assume(key != vKeyB && key != vKeyC)
	initial := [][]string{nil, {vKeyB}, {vKeyB, vKeyC}}[zzverif.Choice("initial", 3)]
	p := vNewPolicy(initial, true, true, key)
	path := p.path
	zzverif.Assert(!p.IsPeerSuspicious(key), "C26.new_key_not_listed_before")

	err := p.AddToSuspiciousPeerList(key)
	zzverif.Assert(err == nil, "C26.add_valid_new_key_ok")
	app := vFileAppends(initial)
	zzverif.Assert(len(app) == 1 && app[0] == fmt.Sprintf("suspicious_peers=%s", key)+"\n", "C26.appends_suspicious_line")
	zzverif.Assert(vAppendMode(path), "C26.append_mode_and_target")
	zzverif.Assert(vReloadedAfterAppend(p, key), "C26.reload_after_append")
	zzverif.Assert(p.IsPeerSuspicious(key), "C26.key_suspicious_after_add")
	kept := true
	for _, k := range initial {
		kept = kept && p.IsPeerSuspicious(k)
	}
	zzverif.Assert(kept, "C26.earlier_entries_kept")
	zzverif.Assert(p.path == path, "C26.policy_keeps_path")

	before := len(vFileAppends(initial))
	err2 := p.AddToSuspiciousPeerList(key)
	zzverif.Assert(err2 != nil && len(vFileAppends(initial)) == before, "C26.second_add_refused_without_write")
}

// H_C26_addSuspicious_rejected: no file operation at all and an error when (a) the key is already
// listed, (b) the policy has no file, (c) the key is not 66 lower-case hex characters (upper-case
// hex, wrong length, empty) — and the in-memory list is unchanged; (d) if the file has disappeared
// the call fails and the list is unchanged.
func H_C26_addSuspicious_rejected() {
	c := zzverif.Choice("case", 7)
	initial := []string{vKeyB}
	key, withPath, exists := vKeyC, true, true
	switch c {
	case 0:
		key = vKeyB
	case 1:
		withPath = false
	case 2:
		key = strings.ToUpper(vKeyC)
	case 3:
		key = vKeyC[:64]
	case 4:
		key = ""
	case 5:
		key = vKeyC + "00"
	case 6:
		exists = false
	}
	p := vNewPolicy(initial, withPath, exists, "")
	err := p.AddToSuspiciousPeerList(key)
	zzverif.Assert(err != nil, "C26.add_rejected")
	if c == 1 {
		zzverif.Assert(err == ErrNoPolicyFile, "C26.no_policy_file_error")
	}
	if c >= 2 && c <= 5 {
		_, isKeyErr := err.(ErrNotAValidPublicKey)
		zzverif.Assert(isKeyErr, "C26.invalid_key_error")
	}
	if c != 6 {
		zzverif.Assert(len(vFileAppends(initial)) == 0, "C26.rejected_without_write")
		zzverif.Assert(vNoFileOps(), "C26.rejected_without_file_access")
	}
	zzverif.Assert(len(p.SuspiciousPeerList) == 1 && p.SuspiciousPeerList[0] == vKeyB, "C26.rejected_list_unchanged")
	zzverif.Assert(p.IsPeerSuspicious(key) == (c == 0), "C26.rejected_key_not_added")
}
