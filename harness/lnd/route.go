//go:build verif

package lnd

// Route part of C24 / C04 / C05 for the LND back-end: buildDirectClaimPaymentRequest, CheckChannel,
// payInvoiceViaChannel and its exported callers PayInvoiceViaChannel / RebalancePayment.
//
// Environment: lnd, reached through the gRPC client interfaces lnrpc.LightningClient and
// routerrpc.RouterClient.  They are Go interfaces, so the same harness types answer under the
// symbolic executor and natively.  Contract assumed (nothing else):
//   - DecodePayReq answers an error, or a non-nil PayReq with ARBITRARY destination, num_satoshis
//     (int64), cltv_expiry (int64), payment hash;
//   - ListChannels answers an error, or a list of non-nil channels (protobuf never yields nil
//     elements) with ARBITRARY chan_id, remote_pubkey, local_balance.  Bound: at most 3 channels;
//   - SendPaymentV2 answers an error or a stream; the stream delivers at most 2 non-final updates
//     (bound) with arbitrary status values and then a final one (SUCCEEDED / FAILED) or an error.
//
// lnwire.NewShortChanIDFromInt / ShortChannelID.String live outside the module (no body is
// executed): under the symbolic executor they are overridden by the two three-line functions
// below, which restate lnd v0.18.4 lnwire/short_channel_id.go:38-57; natively the real lnwire
// code runs and the validation witness compares both.

import (
	"context"
	"errors"
	"fmt"

	"github.com/elementsproject/peerswap/zzverif"
	"github.com/lightningnetwork/lnd/lnrpc"
	"github.com/lightningnetwork/lnd/lnrpc/routerrpc"
	"github.com/lightningnetwork/lnd/lnwire"
	"github.com/lightningnetwork/lnd/routing"
	"google.golang.org/grpc"
)

// ---------------------------------------------------------------------------------------
// lnd stand-in
// ---------------------------------------------------------------------------------------

type vrLightning struct {
	lnrpc.LightningClient // every method not defined below is outside the payment path (nil: panics)

	decodes    []string
	decoded    *lnrpc.PayReq
	lists      int
	activeOnly bool
	channels   []*lnrpc.Channel

	// concreteIDs: listed channels take their id from {1x2x3, 1x2x4} instead of an arbitrary
	// uint64.  Used by the C04/C05 entries, which pass the concrete scid "1x2x3" and whose
	// property does not depend on the id: with constant ids the two spellings are computed
	// exactly (fmt.Sprintf of constants), whereas for a symbolic id they are an uninterpreted
	// function, under which "1x2x3" could match any id and counterexamples would not replay.
	concreteIDs bool
}

const (
	vrChan123 = uint64(1)<<40 | uint64(2)<<16 | 3
	vrChan124 = uint64(1)<<40 | uint64(2)<<16 | 4
)

func vrPayReq() *lnrpc.PayReq {
	return &lnrpc.PayReq{
		Destination: zzverif.Str("inv.dest"),
		NumSatoshis: zzverif.I64("inv.sat"),
		CltvExpiry:  zzverif.I64("inv.cltv"),
		PaymentHash: zzverif.Str("inv.hash"),
	}
}

func vrChannel(concreteID bool) *lnrpc.Channel {
	var id uint64
	if !concreteID {
		id = zzverif.U64("chan.id")
	} else if zzverif.Choice("chan.idsel", 2) == 0 {
		id = vrChan123
	} else {
		id = vrChan124
	}
	return &lnrpc.Channel{
		Active:       true,
		ChanId:       id,
		RemotePubkey: zzverif.Str("chan.peer"),
		LocalBalance: zzverif.I64("chan.local"),
	}
}

func (s *vrLightning) DecodePayReq(ctx context.Context, in *lnrpc.PayReqString, opts ...grpc.CallOption) (*lnrpc.PayReq, error) {
	s.decodes = append(s.decodes, in.PayReq)
	zzverif.Effect("lnd.decodepayreq")
	if zzverif.Bool("decode.err") {
		return nil, errors.New("decode failed")
	}
	s.decoded = vrPayReq()
	return s.decoded, nil
}

func (s *vrLightning) ListChannels(ctx context.Context, in *lnrpc.ListChannelsRequest, opts ...grpc.CallOption) (*lnrpc.ListChannelsResponse, error) {
	s.lists++
	s.activeOnly = in.ActiveOnly && !in.InactiveOnly && !in.PublicOnly && !in.PrivateOnly && len(in.Peer) == 0
	zzverif.Effect("lnd.listchannels")
	if zzverif.Bool("list.err") {
		return nil, errors.New("listchannels failed")
	}
	n := zzverif.Choice("list.n", 4) // bound: 0..3 channels
	s.channels = nil
	for i := 0; i < n; i++ {
		s.channels = append(s.channels, vrChannel(s.concreteIDs))
	}
	return &lnrpc.ListChannelsResponse{Channels: s.channels}, nil
}

type vrRouter struct {
	routerrpc.RouterClient

	sends    []*routerrpc.SendPaymentRequest
	recvs    int
	preimage string
	paid     bool
	// how the payment call ended, as lnd reported it
	sendErr, recvErr, failed bool
}

type vrPayStream struct {
	routerrpc.Router_SendPaymentV2Client
	r *vrRouter
}

func (r *vrRouter) SendPaymentV2(ctx context.Context, in *routerrpc.SendPaymentRequest, opts ...grpc.CallOption) (routerrpc.Router_SendPaymentV2Client, error) {
	r.sends = append(r.sends, in)
	zzverif.Effect("lnd.sendpaymentv2")
	if zzverif.Bool("send.err") {
		r.sendErr = true
		return nil, errors.New("sendpayment failed")
	}
	return &vrPayStream{r: r}, nil
}

func (s *vrPayStream) Recv() (*lnrpc.Payment, error) {
	s.r.recvs++
	if zzverif.Bool("recv.err") {
		s.r.recvErr = true
		return nil, errors.New("stream closed")
	}
	st := lnrpc.Payment_PaymentStatus(zzverif.I32("recv.status"))
	if s.r.recvs > 2 { // bound: at most 2 non-final updates
		zzverif.Assume(st == lnrpc.Payment_SUCCEEDED || st == lnrpc.Payment_FAILED)
	}
	p := &lnrpc.Payment{Status: st, PaymentPreimage: zzverif.Str("recv.preimage")}
	if st == lnrpc.Payment_SUCCEEDED {
		s.r.preimage, s.r.paid = p.PaymentPreimage, true
	}
	if st == lnrpc.Payment_FAILED {
		s.r.failed = true
	}
	return p, nil
}

// lnd v0.18.4 lnwire/short_channel_id.go:38 and :55 (symbolic side only, see file comment).
func vrNewShortChanIDFromInt(chanID uint64) lnwire.ShortChannelID {
	return lnwire.ShortChannelID{
		BlockHeight: uint32(chanID >> 40),
		TxIndex:     uint32(chanID>>16) & 0xFFFFFF,
		TxPosition:  uint16(chanID),
	}
}

func vrShortChanIDString(c lnwire.ShortChannelID) string {
	return fmt.Sprintf("%d:%d:%d", c.BlockHeight, c.TxIndex, c.TxPosition)
}

func vrOverrides() {
	zzverif.Override("github.com/lightningnetwork/lnd/lnwire.NewShortChanIDFromInt", vrNewShortChanIDFromInt)
	zzverif.Override("(github.com/lightningnetwork/lnd/lnwire.ShortChannelID).String", vrShortChanIDString)
}

func vrClient() (*Client, *vrLightning, *vrRouter) {
	vrOverrides()
	l, r := &vrLightning{}, &vrRouter{}
	return &Client{lndClient: l, routerClient: r, ctx: context.Background()}, l, r
}

// The two spellings of a channel id, written from the BOLT-7 layout (block:24 | tx:24 | out:16),
// independently of lnwire.
func vrSpellColon(id uint64) string {
	return fmt.Sprintf("%d:%d:%d", uint32(id>>40), uint32(id>>16)&0xFFFFFF, uint16(id))
}

func vrSpellX(id uint64) string {
	return fmt.Sprintf("%dx%dx%d", uint32(id>>40), uint32(id>>16)&0xFFFFFF, uint16(id))
}

// vrFirstMatch: index of the first listed channel one of whose spellings is scid, or -1.
func vrFirstMatch(chs []*lnrpc.Channel, scid string) int {
	for i, c := range chs {
		if vrSpellColon(c.ChanId) == scid || vrSpellX(c.ChanId) == scid {
			return i
		}
	}
	return -1
}

// vrSingleDirectHTLC: the request pays the given payreq (amount from the invoice: no explicit
// amount, destination or hash), as one part, over exactly the one outgoing channel.
func vrSingleDirectHTLC(req *routerrpc.SendPaymentRequest, payreq string, chanId uint64) bool {
	return req.PaymentRequest == payreq && req.Amt == 0 && req.AmtMsat == 0 &&
		len(req.Dest) == 0 && len(req.PaymentHash) == 0 && req.FinalCltvDelta == 0 &&
		len(req.OutgoingChanIds) == 1 && req.OutgoingChanIds[0] == chanId && req.OutgoingChanId == 0 &&
		req.MaxParts == 1 && !req.Amp && !req.AllowSelfPayment && len(req.LastHopPubkey) == 0 &&
		len(req.RouteHints) == 0 && req.TimeoutSeconds == 30
}

// ---------------------------------------------------------------------------------------
// buildDirectClaimPaymentRequest
// ---------------------------------------------------------------------------------------

// H_C24_lndRequest: buildDirectClaimPaymentRequest refuses (error, nil request) unless the
// invoice's destination is the channel's remote node; otherwise, if it builds a request, the
// request carries the original payreq, OutgoingChanIds = [channel.ChanId], MaxParts = 1.
// All invoices, channels, limits.
func H_C24_lndRequest() {
	decoded, channel := vrPayReq(), vrChannel(false)
	payreq, limit := zzverif.Str("payreq"), zzverif.U32("limit")
	req, err := buildDirectClaimPaymentRequest(payreq, decoded, channel, limit)
	if decoded.Destination != channel.RemotePubkey {
		zzverif.Assert(err != nil && req == nil, "C24.lnd_refuses_foreign_destination")
	}
	zzverif.Assert((err == nil) != (req == nil), "C24.lnd_request_xor_error")
	if err == nil && req != nil {
		zzverif.Assert(decoded.Destination == channel.RemotePubkey, "C24.lnd_destination_is_peer")
		zzverif.Assert(vrSingleDirectHTLC(req, payreq, channel.ChanId), "C24.lnd_single_htlc_over_channel")
	}
}

// H_C04_lndRequestLimit: with a limit L != 0 and a matching destination a request is built exactly
// when 0 <= f, f + BlockPadding(3) <= L (f = invoice cltv_expiry, any int64; compared without
// wrap) and L < 2^31-1; the request then has CltvLimit = L+1 (lnd requires cltv_limit > f+3, i.e.
// its bound is exclusive).  Instance L = 32: built iff 0 <= f <= 29, CltvLimit = 33.
func H_C04_lndRequestLimit() {
	decoded, channel := vrPayReq(), vrChannel(false)
	zzverif.Assume(decoded.Destination == channel.RemotePubkey)
	f := decoded.CltvExpiry
	limit := zzverif.U32("limit")
	zzverif.Assume(limit != 0)
	req, err := buildDirectClaimPaymentRequest("payreq", decoded, channel, limit)
	fits := f >= 0 && f <= int64(limit)-int64(routing.BlockPadding) && limit < 0x7FFFFFFF
	zzverif.Assert((err == nil) == fits, "C04.lnd_request_iff_within_limit")
	if err == nil {
		zzverif.Assert(int64(req.CltvLimit) == int64(limit)+1, "C04.lnd_cltv_limit_is_limit_plus_1")
		zzverif.Assert(f+int64(routing.BlockPadding) < int64(req.CltvLimit), "C04.lnd_padded_cltv_below_cltv_limit")
	}
	if limit == 32 {
		zzverif.Assert((err == nil) == (f >= 0 && f <= 29), "C04.lnd_limit32_refuses")
		zzverif.Assert(err != nil || req.CltvLimit == 33, "C04.lnd_limit32_cltv_limit_33")
	}
}

// H_C05_lndRequestNoLimit: limit 0 (Bitcoin, fee invoices) and matching destination: no limit is
// applied, a request is always built, with CltvLimit = int32(f + BlockPadding + 1) computed in
// wrapping int64 and truncated; for 0 <= f <= 2^31-5 that is exactly f + 4.
func H_C05_lndRequestNoLimit() {
	decoded, channel := vrPayReq(), vrChannel(false)
	zzverif.Assume(decoded.Destination == channel.RemotePubkey)
	f := decoded.CltvExpiry
	req, err := buildDirectClaimPaymentRequest("payreq", decoded, channel, 0)
	zzverif.Assert(err == nil && req != nil, "C05.lnd_no_limit_always_builds")
	if err == nil && req != nil {
		zzverif.Assert(req.CltvLimit == int32(f+int64(routing.BlockPadding)+1), "C05.lnd_cltv_limit_exact")
		if f >= 0 && f <= 0x7FFFFFFF-4 {
			zzverif.Assert(int64(req.CltvLimit) == f+4 && routing.BlockPadding == 3, "C05.lnd_cltv_limit_is_cltv_plus_4")
		}
	}
}

// ---------------------------------------------------------------------------------------
// CheckChannel
// ---------------------------------------------------------------------------------------

// H_C24_lndCheckChannel: CheckChannel asks for active channels only and returns the FIRST listed
// channel one of whose spellings ("b:t:o" or "bxtxo") equals the scid, provided its local balance
// covers the amount; no match => error.  Bounds: <= 3 channels, scid <= 14 characters.
func H_C24_lndCheckChannel() { vrCheckChannel(false) }

// H_C24_lndCheckChannelConcreteIds: the same with channel ids from {1x2x3, 1x2x4} and the scid one of
// "1x2x3", "1:2:3", "1x2x4", "1:2:4", "1x2x2", "3x2x1": here both spellings are computed exactly (for arbitrary ids
// they are uninterpreted functions of the id, which is enough for "selected by spelling" but gives
// witnesses that do not replay when the code spells an id differently from the oracle).
func H_C24_lndCheckChannelConcreteIds() { vrCheckChannel(true) }

func vrConcreteScid() string {
	return [6]string{"1x2x3", "1:2:3", "1x2x4", "1:2:4", "1x2x2", "3x2x1"}[zzverif.Choice("scid.sel", 6)]
}

func vrCheckChannel(concrete bool) {
	cl, l, _ := vrClient()
	l.concreteIDs = concrete
	var scid string
	if concrete {
		scid = vrConcreteScid()
	} else {
		scid = zzverif.Str("scid")
	}
	zzverif.Assume(len(scid) <= 14)
	amt := zzverif.U64("amount_sat")
	ch, err := cl.CheckChannel(scid, amt)
	zzverif.Assert(l.lists == 1 && l.activeOnly, "C24.lnd_lists_active_channels_once")
	k := vrFirstMatch(l.channels, scid)
	if err == nil {
		zzverif.Assert(k >= 0 && ch == l.channels[k], "C24.lnd_channel_selected_by_scid")
		zzverif.Assert(ch.LocalBalance >= int64(amt), "C24.lnd_channel_has_balance")
	} else {
		zzverif.Assert(ch == nil, "C24.lnd_no_channel_on_error")
		zzverif.Assert(k < 0 || l.channels[k].LocalBalance < int64(amt), "C24.lnd_error_only_without_usable_match")
	}
}

// ---------------------------------------------------------------------------------------
// payInvoiceViaChannel and its exported callers
// ---------------------------------------------------------------------------------------

func vrPay(cl *Client, payreq, scid string, limit uint32) (string, error) {
	switch zzverif.Choice("entrypoint", 3) {
	case 0:
		return cl.PayInvoiceViaChannel(payreq, scid)
	case 1:
		return cl.RebalancePayment(payreq, scid, limit)
	}
	return cl.payInvoiceViaChannel(payreq, scid, limit)
}

// H_C24_lndPay: PayInvoiceViaChannel, RebalancePayment and payInvoiceViaChannel hand lnd at most
// one SendPaymentV2 request, after decoding exactly the given payreq; the request pays that
// payreq (amount from the invoice) as a single part (MaxParts = 1) restricted to
// OutgoingChanIds = [c.ChanId], where c is the first active channel whose ':' or 'x' spelling is
// the scid passed in, and only if the invoice's destination is c.RemotePubkey; a preimage is
// returned only when lnd reported SUCCEEDED.
// Bounds: <= 3 channels, scid <= 14 characters, <= 2 non-final payment updates.
func H_C24_lndPay() { vrPayEntry(false) }

// H_C24_lndPayConcreteIds: the same with channel ids from {1x2x3, 1x2x4} and concrete scids (see
// H_C24_lndCheckChannelConcreteIds).
func H_C24_lndPayConcreteIds() { vrPayEntry(true) }

func vrPayEntry(concrete bool) {
	cl, l, r := vrClient()
	l.concreteIDs = concrete
	payreq := zzverif.Str("payreq")
	var scid string
	if concrete {
		scid = vrConcreteScid()
	} else {
		scid = zzverif.Str("scid")
	}
	zzverif.Assume(len(scid) <= 14)
	pre, err := vrPay(cl, payreq, scid, zzverif.U32("limit"))
	zzverif.Assert(len(r.sends) <= 1, "C24.lnd_at_most_one_payment")
	for _, d := range l.decodes {
		zzverif.Assert(d == payreq, "C24.lnd_decodes_given_payreq")
	}
	if len(r.sends) == 1 {
		zzverif.Reach("lnd.send")
		zzverif.Assert(l.decoded != nil && len(l.decodes) == 1 && l.lists == 1 && l.activeOnly, "C24.lnd_send_after_decode_and_list")
		k := vrFirstMatch(l.channels, scid)
		zzverif.Assert(k >= 0, "C24.lnd_pay_channel_selected_by_scid")
		if k >= 0 && l.decoded != nil {
			c := l.channels[k]
			zzverif.Assert(l.decoded.Destination == c.RemotePubkey, "C24.lnd_pay_destination_is_peer")
			zzverif.Assert(vrSingleDirectHTLC(r.sends[0], payreq, c.ChanId), "C24.lnd_pay_single_htlc_over_channel")
		}
	}
	if err == nil {
		zzverif.Reach("lnd.paid")
		zzverif.Assert(len(r.sends) == 1 && r.paid && pre == r.preimage, "C24.lnd_preimage_from_succeeded_payment")
	} else {
		zzverif.Assert(pre == "", "C24.lnd_no_preimage_on_error")
	}
}

// H_C04_lndPayLimit: with limit L != 0 a payment request reaches lnd only for an invoice with
// 0 <= f and f + 3 <= L, and it carries CltvLimit = L + 1; for L = 32 (what the swap package
// passes for Liquid v7): f <= 29 and CltvLimit = 33.  Bounds as H_C24_lndPay (<= 3 channels); scid "1x2x3", channel ids from {1x2x3, 1x2x4}.
func H_C04_lndPayLimit() {
	cl, l, r := vrClient()
	l.concreteIDs = true
	limit := zzverif.U32("limit")
	zzverif.Assume(limit != 0)
	var err error
	if zzverif.Choice("entrypoint", 2) == 0 {
		_, err = cl.RebalancePayment(zzverif.Str("payreq"), "1x2x3", limit)
	} else {
		_, err = cl.payInvoiceViaChannel(zzverif.Str("payreq"), "1x2x3", limit)
	}
	zzverif.Assert(err != nil || len(r.sends) == 1, "C04.lnd_pay_success_needs_request")
	for _, req := range r.sends {
		zzverif.Reach("lnd.send_limited")
		f := l.decoded.CltvExpiry
		zzverif.Assert(f >= 0 && f <= int64(limit)-3 && limit < 0x7FFFFFFF, "C04.lnd_pay_only_within_limit")
		zzverif.Assert(int64(req.CltvLimit) == int64(limit)+1, "C04.lnd_pay_cltv_limit")
		zzverif.Assert(limit != 32 || (f <= 29 && req.CltvLimit == 33), "C04.lnd_pay_limit32")
	}
}

// H_C06_lndPayErrorMeansNotLive: what RebalancePayment (claim invoice) and PayInvoiceViaChannel (fee
// invoice) report to the swap: once a payment request reached lnd, an error comes back only when lnd said
// FAILED or the call / update stream itself broke (known finding C06-F1's subject) - never on a status
// update of a payment that is still live (UNKNOWN, IN_FLIGHT, INITIATED, any status value); a preimage
// comes back only with SUCCEEDED.  Status values arbitrary 32-bit, <= 2 non-final updates, scid "1x2x3",
// channel ids from {1x2x3, 1x2x4}.
func H_C06_lndPayErrorMeansNotLive() {
	cl, l, r := vrClient()
	l.concreteIDs = true
	var pre string
	var err error
	if zzverif.Choice("entrypoint", 2) == 0 {
		pre, err = cl.RebalancePayment(zzverif.Str("payreq"), "1x2x3", zzverif.U32("limit"))
	} else {
		pre, err = cl.PayInvoiceViaChannel(zzverif.Str("payreq"), "1x2x3")
	}
	if len(r.sends) == 1 {
		zzverif.Reach("c06.lnd_request_sent")
		if err != nil {
			zzverif.Assert(r.sendErr || r.recvErr || r.failed, "C06.lnd_payment_error_never_on_a_live_status")
		} else {
			zzverif.Assert(r.paid && pre == r.preimage, "C06.lnd_success_means_succeeded")
		}
	}
}

// H_C05_lndPayNoLimit: PayInvoiceViaChannel, and RebalancePayment with limit 0 (what the swap
// package passes for Bitcoin swaps), apply no limit: every request handed to lnd carries
// CltvLimit = int32(f + 4) (= f + BlockPadding + 1 exactly for 0 <= f <= 2^31-5).
// Bounds as H_C24_lndPay (<= 3 channels); scid "1x2x3", channel ids from {1x2x3, 1x2x4}.
func H_C05_lndPayNoLimit() {
	cl, l, r := vrClient()
	l.concreteIDs = true
	if zzverif.Choice("entrypoint", 2) == 0 {
		cl.PayInvoiceViaChannel(zzverif.Str("payreq"), "1x2x3")
	} else {
		cl.RebalancePayment(zzverif.Str("payreq"), "1x2x3", 0)
	}
	zzverif.Assert(len(r.sends) <= 1, "C05.lnd_at_most_one_request")
	for _, req := range r.sends {
		zzverif.Reach("lnd.send_unlimited")
		f := l.decoded.CltvExpiry
		zzverif.Assert(req.CltvLimit == int32(f+4), "C05.lnd_pay_cltv_limit_exact")
		if f >= 0 && f <= 0x7FFFFFFF-4 {
			zzverif.Assert(int64(req.CltvLimit) == f+4, "C05.lnd_pay_cltv_limit_is_cltv_plus_4")
		}
	}
}
