//go:build verif

package lnd

import (
	"context"
	"errors"
	"io"
	"time"

	"github.com/btcsuite/btcd/chaincfg/chainhash"
	"github.com/elementsproject/peerswap/zzverif"
	"github.com/lightningnetwork/lnd/lnrpc"
	"github.com/lightningnetwork/lnd/lnrpc/chainrpc"
	"google.golang.org/grpc"
)

// ---------------------------------------------------------------------------------------
// Environment: lnd's gRPC services answered by arbitrary values.
//   GetInfo                     error or any uint32 block height
//   RegisterConfirmationsNtfn   error, or a stream of <= 2 events: Reorg events, then one of
//                               {Conf(any height, any raw tx), EOF, error, unknown event}
//   RegisterBlockEpochNtfn      error, or a stream of <= 3 block epochs (any uint32 height)
//                               followed by EOF or an error
// What lnd is trusted for (DESIGN "O"): a Conf event is only sent once the tx has the number
// of confirmations asked for in the request; the harness records the request so that the
// assertion "ok => a Conf event for a request with NumConfs = targetConfs" is checkable.
// ---------------------------------------------------------------------------------------

const vTxA = "aaaaaaaaaaaaaaaaaaaaaaaaaaaaaaaaaaaaaaaaaaaaaaaaaaaaaaaaaaaaaaaa"

func vNewHashFromStr(s string) (*chainhash.Hash, error) {
	if s == vTxA {
		h := new(chainhash.Hash)
		for i := 0; i < len(h); i++ {
			h[i] = 0xaa
		}
		return h, nil
	}
	return nil, errors.New("encoding/hex: invalid byte")
}

func vIsContextError(err error) bool { return false } // harness errors carry no grpc status

type vLnd struct {
	lnrpc.LightningClient // only GetInfo is ever called by the watcher

	infoCalls  int
	infoErr    bool
	infoHeight uint32

	confReqs     []*chainrpc.ConfRequest
	confSeen     bool   // a Conf event was handed to the watcher
	confHeight   uint32 // its block height
	confRaw      []byte
	epochReqs    []*chainrpc.BlockEpoch
	epochs       int
	lastEpoch    uint32
	epochAssume  bool // epochs obey: height >= height of the registration request
	confCalls    int
	confErrCalls int
	csvCalls     int
	lastHex      string
}

func (l *vLnd) GetInfo(ctx context.Context, in *lnrpc.GetInfoRequest, opts ...grpc.CallOption) (*lnrpc.GetInfoResponse, error) {
	l.infoCalls++
	if zzverif.Bool("info.err") {
		l.infoErr = true
		return nil, errors.New("lnd: getinfo failed")
	}
	l.infoErr = false
	l.infoHeight = zzverif.U32("info.height")
	return &lnrpc.GetInfoResponse{BlockHeight: l.infoHeight}, nil
}

type vNotifier struct {
	chainrpc.ChainNotifierClient // RegisterSpendNtfn is never used
	l                            *vLnd
}

func (n *vNotifier) RegisterConfirmationsNtfn(ctx context.Context, in *chainrpc.ConfRequest, opts ...grpc.CallOption) (chainrpc.ChainNotifier_RegisterConfirmationsNtfnClient, error) {
	n.l.confReqs = append(n.l.confReqs, in)
	if zzverif.Bool("confntfn.err") {
		return nil, errors.New("lnd: cannot register")
	}
	return &vConfStream{l: n.l}, nil
}

func (n *vNotifier) RegisterBlockEpochNtfn(ctx context.Context, in *chainrpc.BlockEpoch, opts ...grpc.CallOption) (chainrpc.ChainNotifier_RegisterBlockEpochNtfnClient, error) {
	n.l.epochReqs = append(n.l.epochReqs, in)
	if zzverif.Bool("epochntfn.err") {
		return nil, errors.New("lnd: cannot register")
	}
	return &vEpochStream{l: n.l, from: in.Height}, nil
}

type vConfStream struct {
	grpc.ClientStream
	l    *vLnd
	recv int
}

func (s *vConfStream) Recv() (*chainrpc.ConfEvent, error) {
	s.recv++
	kind := zzverif.Choice("conf.kind", 5)
	if s.recv > 1 && kind == 0 {
		kind = 2 // bound: at most one Reorg event before the stream produces something else
	}
	switch kind {
	case 0:
		return &chainrpc.ConfEvent{Event: &chainrpc.ConfEvent_Reorg{Reorg: &chainrpc.Reorg{}}}, nil
	case 1:
		s.l.confSeen = true
		s.l.confHeight = zzverif.U32("conf.height")
		s.l.confRaw = zzverif.Bytes("conf.rawtx", 4)
		return &chainrpc.ConfEvent{Event: &chainrpc.ConfEvent_Conf{Conf: &chainrpc.ConfDetails{
			RawTx: s.l.confRaw, BlockHeight: s.l.confHeight}}}, nil
	case 2:
		return nil, io.EOF
	case 3:
		return nil, errors.New("lnd: stream broke")
	}
	return &chainrpc.ConfEvent{}, nil // event of an unexpected type
}

type vEpochStream struct {
	grpc.ClientStream
	l    *vLnd
	from uint32
}

func (s *vEpochStream) Recv() (*chainrpc.BlockEpoch, error) {
	if s.l.epochs >= 3 {
		return nil, io.EOF // bound: <= 3 block epochs
	}
	switch zzverif.Choice("epoch.kind", 3) {
	case 1:
		return nil, io.EOF
	case 2:
		return nil, errors.New("lnd: block stream broke")
	}
	s.l.epochs++
	h := zzverif.U32("epoch.height")
	if s.l.epochAssume {
		// Contract variant: a block epoch registered with a height hint only delivers blocks
		// at or above that height (backlog from the hint, then new tips; a reorganisation
		// deeper than the 144 confirmations lnd waited for is excluded).
		zzverif.Assume(h >= s.from)
	}
	s.l.lastEpoch = h
	return &chainrpc.BlockEpoch{Height: h}, nil
}

func vWatcher(l *vLnd, targetConfs, targetCsv uint32) *TxWatcher {
	zzverif.GoInline(true)
	zzverif.Override("github.com/btcsuite/btcd/chaincfg/chainhash.NewHashFromStr", vNewHashFromStr)
	zzverif.Override("github.com/elementsproject/peerswap/lnd.IsContextError", vIsContextError)
	ctx, cancel := context.WithCancel(context.Background())
	t := &TxWatcher{
		ctx: ctx, cancel: cancel,
		lnrpcClient:          l,
		chainrpcClient:       &vNotifier{l: l},
		targetConfs:          targetConfs,
		targetCsv:            targetCsv,
		confirmationWatchers: map[string]bool{},
		waitForCsvWatchers:   map[string]bool{},
	}
	t.AddConfirmationCallback(func(swapId, txHex string, err error) error {
		if err != nil {
			l.confErrCalls++
		} else {
			l.confCalls++
			l.lastHex = txHex
		}
		zzverif.Reach("lnd_confirmation_callback")
		if zzverif.Bool("conf.cb.err") {
			return errors.New("swap service rejected the event")
		}
		return nil
	})
	t.AddCsvCallback(func(swapId string) error {
		l.csvCalls++
		zzverif.Reach("lnd_csv_callback")
		if zzverif.Bool("csv.cb.err") {
			return errors.New("swap service rejected the event")
		}
		return nil
	})
	return t
}

// vSettle: natively the watcher's goroutines run concurrently: wait until they are done, or
// give up when they sit on an empty stream (symbolically such paths end as "blocked").
func vSettle(t *TxWatcher) bool {
	if zzverif.Symbolic() {
		return true
	}
	done := make(chan struct{})
	go func() { t.wg.Wait(); close(done) }()
	select {
	case <-done:
		return true
	case <-time.After(500 * time.Millisecond):
		return false
	}
}

// vLndConf: real lnd.TxWatcher.AddWaitForConfirmationTx (addTxWatcher, both goroutines run
// inline) with targetConfs 3 over arbitrary lnd answers.
//   - the confirmation request asks lnd for exactly targetConfs confirmations of the tx;
//   - ok is delivered at most once, only after a Conf event, only if GetInfo succeeded, with
//     the raw tx of that event, and only if the tx has fewer than 504 confirmations on the
//     height read: current - confHeight + 1 < 504 in unbounded arithmetic (for all uint32
//     heights with the single exception current = 2^32-1, confHeight = 0, where the code's
//     32-bit count is 0; lnd's heights are below 2^31);
//   - a stream error, EOF, unknown event or GetInfo error never produces a callback;
//   - the watcher itself never checks the depth: it relies on lnd's NumConfs contract;
//   - once the window has closed (>= 504 confirmations on the height read) the property asks
//     for a failure report through the confirmation callback, and a failure report is only
//     issued then;
//   - the CSV callback is never used by this watcher (before the repair it served as "too
//     late" signal; the assertions about that signal are kept).
//
// What C20 demands of ok, and why no lower bound "confHeight <= current+1" belongs to it:
//
//	depth   "on the best chain with the required depth" is lnd's NumConfs contract: the Conf
//	        event is only sent once the chain notifier has seen targetConfs confirmations,
//	        i.e. its best height is >= confHeight+targetConfs-1.  The watcher adds nothing to
//	        it; the assertions pin that exactly targetConfs was requested and that ok needs
//	        the event.
//	window  judged on the height the watcher read (GetInfo): fewer than 504 confirmations on
//	        that height, current+1-confHeight < 504.  GetInfo is served by another lnd
//	        subsystem than the chain notifier and may lag the event.  With current <
//	        confHeight the tx has no confirmation at all on the height read, so the window
//	        is as open as it can be on that height; the depth is still the event's.  The
//	        old code refused ok for a lag of >= 2 blocks (and accepted a lag of 1) only
//	        because current-confHeight+1 wrapped around; it then issued the csv callback,
//	        which a taker waiting for the confirmation rejects: a stalled swap, which the
//	        property does not ask for.
//
// Bounds: <= 1 Reorg event before the deciding event; one registration.
func vLndConf(realistic bool) {
	l := &vLnd{}
	t := vWatcher(l, 3, 1008)
	t.AddWaitForConfirmationTx("swap-1", vTxA, zzverif.U32("vout"), zzverif.U32("hint"), zzverif.U32("window"), zzverif.Bytes("script", 4))
	if !vSettle(t) {
		return
	}
	registered := len(l.confReqs) == 1 && l.confReqs[0].NumConfs == 3
	zzverif.Assert(registered, "C20.lnd_conf_requests_target_confs")
	zzverif.Assert(l.confCalls+l.csvCalls+l.confErrCalls <= 1, "C20.lnd_conf_at_most_one_callback")
	cur, hc := l.infoHeight, l.confHeight
	if realistic {
		// lnd keeps block heights in int32 variables: values on the wire are below 2^31
		zzverif.Assume(cur < 1<<31 && hc < 1<<31)
	}
	depth := int64(cur) - int64(hc) + 1 // confirmations on the height the watcher read
	if l.confCalls == 1 {
		zzverif.Assert(l.confSeen && l.infoCalls == 1 && !l.infoErr, "C20.lnd_conf_ok_needs_conf_event_and_height")
		// fewer than 504 confirmations on the height read, in unbounded arithmetic; over all
		// uint32 heights the only exception is the 32-bit count 2^32 == 0 (cur = 2^32-1, hc = 0)
		zzverif.Assert(depth < 504 || depth == 1<<32, "C20.lnd_conf_ok_below_safety_limit")
		if realistic {
			zzverif.Assert(depth < 504, "C20.lnd_conf_ok_window_open")
		}
		if depth < 0 {
			// GetInfo two or more blocks behind the Conf event (the case the wrap used to
			// refuse): depth from lnd's event, window open on the height read
			zzverif.Reach("lnd_conf_ok_read_height_below_confirmation_height")
		}
	}
	if l.confErrCalls == 1 {
		// a failure is reported only once the window has closed on the height read
		zzverif.Assert(l.confSeen && l.infoCalls == 1 && !l.infoErr && cur >= hc && cur-hc+1 >= 504, "C20.lnd_conf_failure_report_mod_2_32")
		if realistic {
			zzverif.Assert(depth >= 504, "C20.lnd_conf_failure_report_means_504_deep")
		}
	}
	zzverif.Assert(l.csvCalls == 0, "C20.lnd_conf_never_signals_csv")
	if l.csvCalls == 1 {
		zzverif.Assert(l.confSeen && !l.infoErr && cur-hc+1 >= 504, "C20.lnd_conf_too_late_signal_mod_2_32")
		if realistic {
			zzverif.Assert(depth >= 504, "C20.lnd_conf_too_late_signal_means_504_deep")
		}
	}
	if realistic && l.confSeen && l.infoCalls == 1 && !l.infoErr && depth >= 504 {
		zzverif.Assert(l.confErrCalls == 1, "C20.lnd_conf_closed_window_reports_failure")
	}
	zzverif.Assert(l.confSeen || l.confCalls+l.csvCalls == 0, "C20.lnd_conf_no_event_no_callback")
	zzverif.Assert(!(l.infoCalls > 0 && l.infoErr) || l.confCalls+l.csvCalls == 0, "C20.lnd_conf_height_error_no_callback")
	_, still := t.confirmationWatchers["swap-1"]
	if len(l.confReqs) == 1 && still {
		// only when lnd refused the registration: the swap id stays marked as watched
		zzverif.Reach("lnd_conf_marker_left_behind_after_failed_registration")
	}
	zzverif.Assert(!still || l.confCalls+l.csvCalls+l.confErrCalls == 0, "C20.lnd_conf_deregistered_after_callback")
}

// H_C20_lndConf: heights below 2^31 (what lnd can produce).
func H_C20_lndConf() { vLndConf(true) }

// H_C20_lndConf_wrap: all uint32 heights (beyond what lnd can produce): the facts that hold
// for every pair of 32-bit heights.
func H_C20_lndConf_wrap() { vLndConf(false) }

// H_C05_lndHandover: the hand-over condition of the lnd watcher (Bitcoin): when ok is
// delivered, with h the GetInfo height read after the Conf event and hc the event's block
// height (both < 2^31): h+1-hc < 504 in unbounded arithmetic, i.e. h <= hc+502 (this upper
// bound on the height read relative to the confirmation height is what the HTLC-before-CSV
// argument of C05 consumes).  There is no lower bound on h: GetInfo may be behind the Conf
// event by any number of blocks (h+1 == hc and h+1 < hc: Reach witnesses); the depth >= 3 is
// lnd's NumConfs contract for the requested 3 confirmations, not something the watcher
// derives from h.  The start height (heightHint) and the paymentWindow argument are not used
// by this watcher at all: Reach witnesses.
// Bounds: <= 1 Reorg event; one registration.
func H_C05_lndHandover() {
	l := &vLnd{}
	t := vWatcher(l, 3, 1008)
	start := zzverif.U32("start")
	t.AddWaitForConfirmationTx("swap-1", vTxA, zzverif.U32("vout"), start, 504, zzverif.Bytes("script", 4))
	if !vSettle(t) {
		return
	}
	h, hc := l.infoHeight, l.confHeight
	zzverif.Assume(h < 1<<31 && hc < 1<<31)
	zzverif.Assert(len(l.confReqs) == 1 && l.confReqs[0].NumConfs == 3 && l.confReqs[0].HeightHint == start, "C05.lnd_request_three_confs_from_start_hint")
	if l.confCalls == 1 {
		zzverif.Assert(int64(h)+1-int64(hc) < 504, "C05.lnd_ok_confs_below_504")
		if hc == h+1 {
			zzverif.Reach("lnd_ok_with_zero_confirmations_on_read_height")
		}
		if h+1 < hc {
			zzverif.Reach("lnd_ok_read_height_below_confirmation_height")
		}
		if hc < start {
			zzverif.Reach("lnd_ok_confirmed_before_start")
		}
		if uint64(h) >= uint64(start)+504 {
			zzverif.Reach("lnd_ok_current_at_or_after_start_plus_504")
		}
	}
}

// vLndCsv: real lnd.TxWatcher.AddWaitForCsvTx: a Conf event (requested with 144
// confirmations, lnd's maximum) and then block epochs counted by the watcher itself.  The CSV
// callback is issued at most once, only after a Conf event at height hc and a block epoch at
// height b with (b-hc+1) mod 2^32 >= 1008; with epochs at or above hc (contract variant)
// that is b-hc+1 >= 1008 in unbounded arithmetic.
// Bounds: <= 1 Reorg event, <= 3 block epochs, one registration.
func vLndCsv(epochContract bool) {
	l := &vLnd{epochAssume: epochContract}
	t := vWatcher(l, 3, 1008)
	t.AddWaitForCsvTx("swap-1", vTxA, zzverif.U32("vout"), zzverif.U32("hint"), zzverif.U32("csv"), zzverif.Bytes("script", 4))
	if !vSettle(t) {
		return
	}
	zzverif.Assert(len(l.confReqs) == 1 && l.confReqs[0].NumConfs == 144, "C20.lnd_csv_requests_144_confs")
	zzverif.Assert(l.confCalls+l.confErrCalls == 0 && l.csvCalls <= 1, "C20.lnd_csv_at_most_one_callback")
	if l.csvCalls == 1 {
		b, hc := l.lastEpoch, l.confHeight
		zzverif.Assert(l.confSeen && len(l.epochReqs) == 1 && l.epochReqs[0].Height == hc && l.epochs >= 1, "C20.lnd_csv_needs_conf_event_and_epoch")
		zzverif.Assert(b-hc+1 >= 1008, "C20.lnd_csv_depth_mod_2_32")
		zzverif.Assert(int64(b)-int64(hc)+1 >= 1008, "C20.lnd_csv_depth")
	}
	_, still := t.waitForCsvWatchers["swap-1"]
	zzverif.Assert(!still, "C20.lnd_csv_deregistered_when_done")
}

// H_C20_lndCsv: block epochs obey the registration contract (height >= the hinted height).
func H_C20_lndCsv() { vLndCsv(true) }

// H_C20_T_lndCsv_anyEpoch: block epochs with arbitrary heights (deep reorganisation / a
// misbehaving lnd): exposes that the depth is computed in wrapping uint32 arithmetic.
func H_C20_T_lndCsv_anyEpoch() { vLndCsv(false) }
