//go:build verif

package lnd

import (
	"context"
	"errors"

	"github.com/lightningnetwork/lnd/lnrpc"
	"google.golang.org/grpc"

	"github.com/elementsproject/peerswap/zzverif"
)

// C11 on the LND back-end: "the channel can carry the amount" is decided by SpendableMsat (initiator of a
// swap-out / responder of a swap-in) and ReceivableMsat (swap-out responder - the only capacity check that
// side has).  lnd's channel listing answers arbitrarily (balances, reserves of both sides, activity, max
// htlc policy); the peer listing says whether the peer is connected.

type vcLightning struct {
	lnrpc.LightningClient
	ch        *lnrpc.Channel
	connected bool
	maxHtlc   uint64
	infoErr   bool
}

func (s *vcLightning) ListChannels(ctx context.Context, in *lnrpc.ListChannelsRequest, opts ...grpc.CallOption) (*lnrpc.ListChannelsResponse, error) {
	return &lnrpc.ListChannelsResponse{Channels: []*lnrpc.Channel{s.ch}}, nil
}
func (s *vcLightning) ListPeers(ctx context.Context, in *lnrpc.ListPeersRequest, opts ...grpc.CallOption) (*lnrpc.ListPeersResponse, error) {
	if !s.connected {
		return &lnrpc.ListPeersResponse{}, nil
	}
	return &lnrpc.ListPeersResponse{Peers: []*lnrpc.Peer{{PubKey: s.ch.RemotePubkey}}}, nil
}
func (s *vcLightning) GetChanInfo(ctx context.Context, in *lnrpc.ChanInfoRequest, opts ...grpc.CallOption) (*lnrpc.ChannelEdge, error) {
	if s.infoErr {
		return nil, errors.New("edge not found")
	}
	// both directions advertise the same limit: which policy belongs to whom is not this entry's subject
	return &lnrpc.ChannelEdge{Node1Pub: "me", Node2Pub: s.ch.RemotePubkey,
		Node1Policy: &lnrpc.RoutingPolicy{MaxHtlcMsat: s.maxHtlc}, Node2Policy: &lnrpc.RoutingPolicy{MaxHtlcMsat: s.maxHtlc}}, nil
}

// H_C11_lndChannelCapacity: whatever lnd reports, the amount SpendableMsat / ReceivableMsat admit is never
// more than what the respective side of the channel holds above its reserve (and never more than the
// advertised max htlc): in particular a side whose balance is below its reserve can move nothing.  An
// inactive channel or a disconnected peer admits nothing.
// Bounds: one channel (the swap's), balances 0..2^62 sat, reserves arbitrary 64-bit values.
func H_C11_lndChannelCapacity() {
	vrOverrides()
	vcGetterOverrides()
	local, remote := zzverif.I64("chan.local"), zzverif.I64("chan.remote")
	zzverif.Assume(local >= 0 && local <= 1<<62 && remote >= 0 && remote <= 1<<62)
	lres, rres := zzverif.U64("chan.local_reserve"), zzverif.U64("chan.remote_reserve")
	l := &vcLightning{connected: zzverif.Bool("peer.connected"), maxHtlc: zzverif.U64("policy.max_htlc_msat"), infoErr: zzverif.Bool("chaninfo.err"),
		ch: &lnrpc.Channel{Active: zzverif.Bool("chan.active"), ChanId: vrChan123, RemotePubkey: "peer", LocalBalance: local, RemoteBalance: remote,
			LocalConstraints: &lnrpc.ChannelConstraints{ChanReserveSat: lres}, RemoteConstraints: &lnrpc.ChannelConstraints{ChanReserveSat: rres}}}
	c := &Client{lndClient: l, ctx: context.Background(), pubkey: "me"}
	scid := vrSpellColon(vrChan123)
	receive := zzverif.Bool("receivable")
	var got uint64
	var err error
	bal, res := uint64(local), lres
	if receive {
		got, err = c.ReceivableMsat(scid)
		bal, res = uint64(remote), rres
	} else {
		got, err = c.SpendableMsat(scid)
	}
	if !l.ch.Active || !l.connected {
		zzverif.Assert(err != nil, "C11.lnd_unusable_channel_admits_nothing")
		return
	}
	zzverif.Assert(err == nil, "C11.lnd_capacity_no_error_for_usable_channel")
	if bal <= res {
		zzverif.Reach("c11.lnd_balance_below_reserve")
		zzverif.Assert(got == 0, "C11.lnd_side_below_its_reserve_can_move_nothing")
	} else {
		zzverif.Assert(got <= (bal-res)*1000, "C11.lnd_capacity_at_most_balance_above_reserve")
		if l.infoErr || l.maxHtlc == 0 {
			zzverif.Assert(got == (bal-res)*1000, "C11.lnd_capacity_is_balance_above_reserve")
		} else {
			zzverif.Assert(got <= l.maxHtlc, "C11.lnd_capacity_at_most_max_htlc")
		}
	}
}

// The protobuf getters of lnrpc (generated code, not executed) are nil-safe field reads.
func vcGetLocalBalance(c *lnrpc.Channel) int64 {
	if c == nil {
		return 0
	}
	return c.LocalBalance
}
func vcGetRemoteBalance(c *lnrpc.Channel) int64 {
	if c == nil {
		return 0
	}
	return c.RemoteBalance
}
func vcGetRemotePubkey(c *lnrpc.Channel) string {
	if c == nil {
		return ""
	}
	return c.RemotePubkey
}
func vcGetLocalConstraints(c *lnrpc.Channel) *lnrpc.ChannelConstraints {
	if c == nil {
		return nil
	}
	return c.LocalConstraints
}
func vcGetRemoteConstraints(c *lnrpc.Channel) *lnrpc.ChannelConstraints {
	if c == nil {
		return nil
	}
	return c.RemoteConstraints
}
func vcGetChanReserveSat(c *lnrpc.ChannelConstraints) uint64 {
	if c == nil {
		return 0
	}
	return c.ChanReserveSat
}
func vcGetNode1Policy(e *lnrpc.ChannelEdge) *lnrpc.RoutingPolicy {
	if e == nil {
		return nil
	}
	return e.Node1Policy
}
func vcGetNode2Policy(e *lnrpc.ChannelEdge) *lnrpc.RoutingPolicy {
	if e == nil {
		return nil
	}
	return e.Node2Policy
}
func vcGetMaxHtlcMsat(p *lnrpc.RoutingPolicy) uint64 {
	if p == nil {
		return 0
	}
	return p.MaxHtlcMsat
}

func vcGetterOverrides() {
	const p = "github.com/lightningnetwork/lnd/lnrpc."
	zzverif.Override("(*"+p+"Channel).GetLocalBalance", vcGetLocalBalance)
	zzverif.Override("(*"+p+"Channel).GetRemoteBalance", vcGetRemoteBalance)
	zzverif.Override("(*"+p+"Channel).GetRemotePubkey", vcGetRemotePubkey)
	zzverif.Override("(*"+p+"Channel).GetLocalConstraints", vcGetLocalConstraints)
	zzverif.Override("(*"+p+"Channel).GetRemoteConstraints", vcGetRemoteConstraints)
	zzverif.Override("(*"+p+"ChannelConstraints).GetChanReserveSat", vcGetChanReserveSat)
	zzverif.Override("(*"+p+"ChannelEdge).GetNode1Policy", vcGetNode1Policy)
	zzverif.Override("(*"+p+"ChannelEdge).GetNode2Policy", vcGetNode2Policy)
	zzverif.Override("(*"+p+"RoutingPolicy).GetMaxHtlcMsat", vcGetMaxHtlcMsat)
}
