//go:build verif

package lnd

// C08 / C03, LND wallet adapter (lnd/lnd_wallet.go): (*Client).CreateOpeningTransaction,
// CreatePreimageSpendingTransaction, CreateCsvSpendingTransaction, CreateCoopSpendingTransaction
// with everything of package onchain they call (CreateOpeningAddress, GetFeeSatsFromTx,
// GetVoutAndVerify, GetOutputScript, PrepareSpendingTransaction, Get*Witness, GetFee) — all real.
//
// Environment
//   - lnd's WalletKit (FundPsbt / FinalizePsbt / PublishTransaction) and Lightning (NewAddress)
//     services are the Go interfaces walletrpc.WalletKitClient / lnrpc.LightningClient, answered by
//     vwKit / vwLightning below, under the symbolic executor and natively alike.  Contract:
//       FundPsbt      error, or a PSBT whose unsigned transaction has 1..2 wallet inputs (bound) with
//                     arbitrary outpoints and UTXO values 0..21e14 sat, one output per template entry
//                     (address script, amount) at an ARBITRARY position and 0..2 change outputs
//                     (bound: <= 3 outputs in total) with arbitrary value 0..21e14 sat and an
//                     arbitrary script other than the swap script; a template address lnd cannot
//                     decode is an error;
//       FinalizePsbt  error (also for bytes that are no PSBT lnd knows), or (signed PSBT, raw final
//                     transaction): the final transaction has the inputs and outputs of the
//                     unsigned one; each input is either native segwit (empty scriptSig) or NESTED
//                     segwit (non-empty scriptSig: 23 arbitrary bytes) — so the id of the final
//                     transaction may differ from the id of the PSBT's unsigned transaction;
//       PublishTransaction  records the bytes; ok or error;
//       NewAddress    error, or a P2WPKH address (witness v0, arbitrary 20-byte program) — the
//                     adapter asks for WITNESS_PUBKEY_HASH, which the stub checks.
//   - swap.Signer is vwSigner: records the hash, returns a signature object (natively a real ECDSA
//     signature by a fixed key).
//   - fee estimator: arbitrary whole rate 0..65535 sat/vB, no error, fallback/floor 0 (as in
//     harness/onchain/spend_btc.go; GetFee itself is C30's subject): symbolically GetFee is
//     replaced by rate*size, natively the real GetFee runs on the same estimator.
//
// Library model (symbolic side only; natively the real btcd code runs on real serialised data built
// from the same draws).  Serialised transactions / PSBTs are opaque byte strings ("blobs"); the
// world keeps for every blob it handed out the structured value it stands for:
//     (*wire.MsgTx).Deserialize, btcutil.NewTxFromBytes, psbt.NewFromRawBytes   table lookup by
//                     content (unknown bytes: parse error)
//     (*wire.MsgTx).Serialize    a blob that is an uninterpreted function of the whole transaction
//                     (witness included), remembered in the table (so it parses back)
//     (*psbt.Packet).Serialize   the blob the packet was parsed from
//     (*wire.MsgTx).TxHash       uninterpreted function of version, locktime, inputs (outpoint,
//                     scriptSig, sequence) and outputs — NOT of the witness (BIP141 txid)
//     (chainhash.Hash).String    uninterpreted function of the 32 bytes
//     psbt.SumUtxoInputValues    restated (psbt v1.1.8 utils.go:288)
//     txscript.CalcWitnessSigHash   uninterpreted function of (script, hash type, version, locktime,
//                     inputs' outpoints and sequences, outputs, input index, amount)
//     bech32: (*AddressSegWit).EncodeAddress is an uninterpreted function of the witness program,
//                     btcutil.DecodeAddress its inverse on the addresses seen on the path
//     (*ecdsa.Signature).Serialize   the DER bytes drawn when the stub made the signature
//   encoding/hex, encoding/base64, bytes.Buffer, sha256: engine models.  wire / txscript
//   constructors and the script builder are executed from source (harness/lnd/EXEC).
//
// OUTSIDE the claim: ECDSA validity, BIP143 hashing, SHA256, (de)serialisation and bech32 coding
// themselves, lnd's coin selection and signing, relay policy.

import (
	"bytes"
	"context"
	"encoding/base64"
	"encoding/hex"
	"errors"
	"io"

	"github.com/btcsuite/btcd/btcec/v2"
	btecdsa "github.com/btcsuite/btcd/btcec/v2/ecdsa"
	"github.com/btcsuite/btcd/btcutil"
	"github.com/btcsuite/btcd/btcutil/psbt"
	"github.com/btcsuite/btcd/chaincfg"
	"github.com/btcsuite/btcd/chaincfg/chainhash"
	"github.com/btcsuite/btcd/txscript"
	"github.com/btcsuite/btcd/wire"
	"github.com/elementsproject/peerswap/onchain"
	"github.com/elementsproject/peerswap/swap"
	"github.com/elementsproject/peerswap/zzverif"
	"github.com/lightningnetwork/lnd/lnrpc"
	"github.com/lightningnetwork/lnd/lnrpc/walletrpc"
	"google.golang.org/grpc"
)

// ---------------------------------------------------------------------------------------
// world
// ---------------------------------------------------------------------------------------

const vwMaxSats = 2100000000000000

type vwTxBlob struct {
	blob []byte
	tx   *wire.MsgTx
}

type vwPsbtBlob struct {
	blob []byte
	b64  string
	pkt  *psbt.Packet
}

type vwReaderRec struct {
	r *bytes.Reader
	b []byte
}

type vwUtilTx struct {
	t  *btcutil.Tx
	tx *wire.MsgTx
}

type vwAddrRec struct {
	s    string
	prog []byte
}

type vwSigRec struct {
	sig *btecdsa.Signature
	der []byte
}

type vwWorld struct {
	chain  *onchain.BitcoinOnChain
	net    *chaincfg.Params
	est    *vwEstimator
	params *swap.OpeningParams
	maker  []byte
	taker  []byte
	hash   []byte
	want   []byte // GetOutputScript(params): OP_0 <SHA256(redeem script)>

	txs     []vwTxBlob
	psbts   []vwPsbtBlob
	readers []vwReaderRec
	utx     []vwUtilTx
	addrs   []vwAddrRec
	sigs    []vwSigRec

	kit *vwKit
	ln  *vwLightning
}

var vw *vwWorld

// vwChain: a harness-made Params value (a global of the non-executed chaincfg package would be
// havocked); the adapters read the segwit HRP only.
func vwChain() *chaincfg.Params {
	return &chaincfg.Params{Name: "regtest", Bech32HRPSegwit: "bcrt"}
}

type vwEstimator struct{ perVb []uint64 }

func (e *vwEstimator) EstimateFeePerKW(targetBlocks uint32) (btcutil.Amount, error) {
	k := uint64(zzverif.U16("fee_rate_sat_per_vb"))
	e.perVb = append(e.perVb, k)
	return btcutil.Amount(int64(k * 250)), nil
}
func (e *vwEstimator) Start() error { return nil }

// ---------------------------------------------------------------------------------------
// library model (symbolic side only)
// ---------------------------------------------------------------------------------------

func vwNewReader(b []byte) *bytes.Reader {
	r := &bytes.Reader{}
	vw.readers = append(vw.readers, vwReaderRec{r, b})
	return r
}

func vwReaderBytes(r io.Reader) []byte {
	br, ok := r.(*bytes.Reader)
	if !ok {
		zzverif.Fail("parser reads from something that is not a bytes.Reader")
	}
	for i := len(vw.readers) - 1; i >= 0; i-- {
		if vw.readers[i].r == br {
			return vw.readers[i].b
		}
	}
	zzverif.Fail("unknown reader")
	return nil
}

func vwCopyTx(dst, src *wire.MsgTx) {
	dst.Version, dst.LockTime = src.Version, src.LockTime
	dst.TxIn, dst.TxOut = nil, nil
	for _, in := range src.TxIn {
		dst.TxIn = append(dst.TxIn, &wire.TxIn{PreviousOutPoint: in.PreviousOutPoint, SignatureScript: in.SignatureScript, Witness: in.Witness, Sequence: in.Sequence})
	}
	for _, out := range src.TxOut {
		dst.TxOut = append(dst.TxOut, &wire.TxOut{Value: out.Value, PkScript: out.PkScript})
	}
}

func vwLookupTx(b []byte) *wire.MsgTx {
	for i := len(vw.txs) - 1; i >= 0; i-- {
		if bytes.Equal(b, vw.txs[i].blob) {
			return vw.txs[i].tx
		}
	}
	return nil
}

func vwDeserialize(tx *wire.MsgTx, r io.Reader) error {
	m := vwLookupTx(vwReaderBytes(r))
	if m == nil {
		return errors.New("wire: unexpected EOF")
	}
	vwCopyTx(tx, m)
	return nil
}

// vwTxArgs: the content of a transaction as arguments of an uninterpreted function.
func vwTxArgs(tx *wire.MsgTx, sigScript, witness, outputs bool) []interface{} {
	a := []interface{}{tx.Version, tx.LockTime, len(tx.TxIn), len(tx.TxOut)}
	for _, in := range tx.TxIn {
		a = append(a, string(in.PreviousOutPoint.Hash[:]), in.PreviousOutPoint.Index, in.Sequence)
		if sigScript {
			a = append(a, string(in.SignatureScript))
		}
		if witness {
			a = append(a, len(in.Witness))
			for _, w := range in.Witness {
				a = append(a, string(w))
			}
		}
	}
	if outputs {
		for _, out := range tx.TxOut {
			a = append(a, out.Value, string(out.PkScript))
		}
	}
	return a
}

func vwSerialize(tx *wire.MsgTx, w io.Writer) error {
	blob := vwUFBytes("txser", vwRawTxLen, vwTxArgs(tx, true, true, true)...)
	snap := &wire.MsgTx{}
	vwCopyTx(snap, tx)
	vw.txs = append(vw.txs, vwTxBlob{blob, snap})
	_, err := w.Write(blob)
	return err
}

func vwTxHash(tx *wire.MsgTx) chainhash.Hash {
	var h chainhash.Hash
	copy(h[:], vwUFBytes("txid", 32, vwTxArgs(tx, true, false, true)...))
	return h
}

// vwUFBytes: an uninterpreted function with a byte-string value of fixed length n (engine
// intrinsic, engine/symex/intrinsics_wallet.go).  Only used by the symbolic-side library model.
func vwUFBytes(name string, n int, args ...interface{}) []byte {
	b := []byte(zzverif.UFStr(name, args...))
	for len(b) < n {
		b = append(b, 0)
	}
	return b[:n]
}

// Length of a serialisation made by the Serialize model (a token: nothing depends on the number;
// short fixed lengths keep the string solvers away from length arithmetic and long models).
const vwRawTxLen = 8

func vwHashString(h chainhash.Hash) string { return zzverif.UFStr("hashstr", string(h[:])) }

func vwPsbtFromRaw(r io.Reader, b64 bool) (*psbt.Packet, error) {
	b := vwReaderBytes(r)
	for i := len(vw.psbts) - 1; i >= 0; i-- {
		e := vw.psbts[i]
		if b64 {
			if string(b) == e.b64 {
				return e.pkt, nil
			}
		} else if bytes.Equal(b, e.blob) {
			return e.pkt, nil
		}
	}
	return nil, errors.New("psbt: invalid magic bytes")
}

func vwPsbtSerialize(p *psbt.Packet, w io.Writer) error {
	for i := len(vw.psbts) - 1; i >= 0; i-- {
		if vw.psbts[i].pkt == p {
			_, err := w.Write(vw.psbts[i].blob)
			return err
		}
	}
	zzverif.Fail("Serialize of a packet the world did not hand out")
	return nil
}

// psbt v1.1.8 utils.go:288 restated.
func vwSumUtxoInputValues(packet *psbt.Packet) (int64, error) {
	if len(packet.UnsignedTx.TxIn) != len(packet.Inputs) {
		return 0, errors.New("TX input length doesn't match PSBT input length")
	}
	inputSum := int64(0)
	for idx, in := range packet.Inputs {
		switch {
		case in.WitnessUtxo != nil:
			inputSum += in.WitnessUtxo.Value
		case in.NonWitnessUtxo != nil:
			utxOuts := in.NonWitnessUtxo.TxOut
			opIdx := packet.UnsignedTx.TxIn[idx].PreviousOutPoint.Index
			if opIdx >= uint32(len(utxOuts)) {
				return 0, errors.New("input has malformed TxOut field")
			}
			inputSum += utxOuts[opIdx].Value
		default:
			return 0, errors.New("input has no UTXO information")
		}
	}
	return inputSum, nil
}

func vwNewTxFromBytes(b []byte) (*btcutil.Tx, error) {
	m := vwLookupTx(b)
	if m == nil {
		return nil, errors.New("wire: unexpected EOF")
	}
	c := &wire.MsgTx{}
	vwCopyTx(c, m)
	t := &btcutil.Tx{}
	vw.utx = append(vw.utx, vwUtilTx{t, c})
	return t, nil
}

func vwUtilMsgTx(t *btcutil.Tx) *wire.MsgTx {
	for i := len(vw.utx) - 1; i >= 0; i-- {
		if vw.utx[i].t == t {
			return vw.utx[i].tx
		}
	}
	zzverif.Fail("unknown btcutil.Tx")
	return nil
}

// vwAddr is what the DecodeAddress model returns.
type vwAddr struct {
	s    string
	prog []byte
}

func (a *vwAddr) String() string                 { return a.s }
func (a *vwAddr) EncodeAddress() string          { return a.s }
func (a *vwAddr) ScriptAddress() []byte          { return a.prog }
func (a *vwAddr) IsForNet(*chaincfg.Params) bool { return true }

func vwEncodeSegWit(a *btcutil.AddressSegWit) string {
	prog := a.ScriptAddress()
	s := "bcrt1:" + hex.EncodeToString(prog) // injective, like bech32
	vw.addrs = append(vw.addrs, vwAddrRec{s, prog})
	return s
}

func vwLookupAddr(s string) []byte {
	for i := len(vw.addrs) - 1; i >= 0; i-- {
		if vw.addrs[i].s == s {
			return vw.addrs[i].prog
		}
	}
	return nil
}

func vwDecodeAddress(addr string, net *chaincfg.Params) (btcutil.Address, error) {
	prog := vwLookupAddr(addr)
	if prog == nil {
		return nil, errors.New("decoded address is of unknown format")
	}
	return &vwAddr{addr, prog}, nil
}

func vwSigSerialize(sig *btecdsa.Signature) []byte {
	for i := 0; i < len(vw.sigs); i++ {
		if vw.sigs[i].sig == sig {
			return vw.sigs[i].der
		}
	}
	zzverif.Fail("Serialize of a signature the harness did not hand out")
	return nil
}

func vwGetFee(b *onchain.BitcoinOnChain, txSize int64) (uint64, error) {
	vw.est.EstimateFeePerKW(onchain.BitcoinFeeTargetBlocks)
	return vw.est.perVb[len(vw.est.perVb)-1] * uint64(txSize), nil // no division: 64-bit bvudiv stalls the solver
}

func vwNewTxSigHashes(tx *wire.MsgTx, f txscript.PrevOutputFetcher) *txscript.TxSigHashes {
	return &txscript.TxSigHashes{}
}

func vwCalcWitnessSigHash(script []byte, sh *txscript.TxSigHashes, ht txscript.SigHashType, tx *wire.MsgTx, idx int, amt int64) ([]byte, error) {
	a := append([]interface{}{string(script), uint32(ht), idx, amt}, vwTxArgs(tx, false, false, true)...)
	return vwUFBytes("sighash", 32, a...), nil
}

func vwInstall() {
	if !zzverif.Symbolic() {
		return
	}
	zzverif.Override("bytes.NewReader", vwNewReader)
	zzverif.Override("(*github.com/btcsuite/btcd/wire.MsgTx).Deserialize", vwDeserialize)
	zzverif.Override("(*github.com/btcsuite/btcd/wire.MsgTx).Serialize", vwSerialize)
	zzverif.Override("(*github.com/btcsuite/btcd/wire.MsgTx).TxHash", vwTxHash)
	zzverif.Override("(github.com/btcsuite/btcd/chaincfg/chainhash.Hash).String", vwHashString)
	zzverif.Override("github.com/btcsuite/btcd/btcutil/psbt.NewFromRawBytes", vwPsbtFromRaw)
	zzverif.Override("(*github.com/btcsuite/btcd/btcutil/psbt.Packet).Serialize", vwPsbtSerialize)
	zzverif.Override("github.com/btcsuite/btcd/btcutil/psbt.SumUtxoInputValues", vwSumUtxoInputValues)
	zzverif.Override("github.com/btcsuite/btcd/btcutil.NewTxFromBytes", vwNewTxFromBytes)
	zzverif.Override("(*github.com/btcsuite/btcd/btcutil.Tx).MsgTx", vwUtilMsgTx)
	zzverif.Override("(*github.com/btcsuite/btcd/btcutil.AddressSegWit).EncodeAddress", vwEncodeSegWit)
	zzverif.Override("github.com/btcsuite/btcd/btcutil.DecodeAddress", vwDecodeAddress)
	zzverif.Override("(*github.com/decred/dcrd/dcrec/secp256k1/v4/ecdsa.Signature).Serialize", vwSigSerialize)
	zzverif.Override("(*github.com/elementsproject/peerswap/onchain.BitcoinOnChain).GetFee", vwGetFee)
	zzverif.Override("github.com/btcsuite/btcd/txscript.NewTxSigHashes", vwNewTxSigHashes)
	zzverif.Override("github.com/btcsuite/btcd/txscript.CalcWitnessSigHash", vwCalcWitnessSigHash)
}

// ---------------------------------------------------------------------------------------
// helpers working on both sides
// ---------------------------------------------------------------------------------------

// vwParseTx: the transaction a blob stands for (natively: the real parser); nil if it does not parse.
func vwParseTx(b []byte) *wire.MsgTx {
	tx := wire.NewMsgTx(2)
	if err := tx.Deserialize(bytes.NewReader(b)); err != nil {
		return nil
	}
	return tx
}

func vwSerializeTx(tx *wire.MsgTx) []byte {
	var buf bytes.Buffer
	if err := tx.Serialize(&buf); err != nil {
		panic(err)
	}
	return buf.Bytes()
}

func vwSerializePsbt(p *psbt.Packet) []byte {
	var buf bytes.Buffer
	if err := p.Serialize(&buf); err != nil {
		panic(err)
	}
	return buf.Bytes()
}

// vwAddrScript: the output script lnd derives from an address string (nil: lnd cannot decode it).
func vwAddrScript(addr string) []byte {
	if zzverif.Symbolic() {
		prog := vwLookupAddr(addr)
		if prog == nil {
			return nil
		}
		return append([]byte{0x00, byte(len(prog))}, prog...)
	}
	a, err := btcutil.DecodeAddress(addr, vw.net)
	if err != nil {
		return nil
	}
	s, err := txscript.PayToAddrScript(a)
	if err != nil {
		return nil
	}
	return s
}

// vwFill: n bytes b (bytes.Repeat is not executed by the engine).
func vwFill(b byte, n int) []byte {
	out := make([]byte, n)
	for i := range out {
		out[i] = b
	}
	return out
}

// vwCoinTxid: id of the i-th coin the wallet spends (fixed; the adapters never look at it).
func vwCoinTxid(i int) chainhash.Hash {
	var h chainhash.Hash
	copy(h[:], vwFill(byte(0xc0+i), 32))
	return h
}

// vwSetup draws the swap parameters (arbitrary keys, payment hash, amount) and builds the client.
func vwSetup(anyKeys bool) (*Client, *vwWorld) {
	w := &vwWorld{}
	vw = w
	vwInstall()
	w.net = vwChain()
	w.est = &vwEstimator{}
	w.chain = onchain.NewBitcoinOnChain(w.est, 0, 0, w.net)
	if anyKeys {
		w.maker = zzverif.Bytes("maker", 33)
		w.taker = zzverif.Bytes("taker", 33)
		w.hash = zzverif.Bytes("hash", 32)
		zzverif.Assume(!bytes.Equal(w.maker, w.taker)) // equal keys: C02's subject
	} else {
		w.maker = append([]byte{0x02}, vwFill(0x11, 32)...)
		w.taker = append([]byte{0x03}, vwFill(0x22, 32)...)
		w.hash = vwFill(0x33, 32)
	}
	w.params = &swap.OpeningParams{
		TakerPubkey:      hex.EncodeToString(w.taker),
		MakerPubkey:      hex.EncodeToString(w.maker),
		ClaimPaymentHash: hex.EncodeToString(w.hash),
		Amount:           zzverif.U64("amount"),
		CSV:              onchain.BitcoinCsv,
	}
	want, err := w.chain.GetOutputScript(w.params)
	if err != nil {
		zzverif.Fail("GetOutputScript failed")
	}
	w.want = want
	w.kit = &vwKit{w: w}
	w.ln = &vwLightning{w: w}
	return &Client{lndClient: w.ln, walletClient: w.kit, bitcoinOnChain: w.chain, ctx: context.Background()}, w
}

// ---------------------------------------------------------------------------------------
// lnd stand-ins
// ---------------------------------------------------------------------------------------

type vwKit struct {
	walletrpc.WalletKitClient // every method not defined below is outside the adapters (nil: panics)
	w                         *vwWorld
	region                    int

	funds       int
	fundAddr    string
	fundAmount  uint64
	fundEntries int
	fundConf    uint32
	funded      bool
	unsigned    *wire.MsgTx // the funded PSBT's transaction
	swapIndex   int
	inValues    []int64

	finalizes int
	finalized bool
	final     *wire.MsgTx
	rawFinal  []byte
	anyNested bool

	published [][]byte
	pubFailed bool
}

func (k *vwKit) FundPsbt(ctx context.Context, in *walletrpc.FundPsbtRequest, opts ...grpc.CallOption) (*walletrpc.FundPsbtResponse, error) {
	k.funds++
	zzverif.Effect("lnd.fundpsbt")
	raw, ok := in.Template.(*walletrpc.FundPsbtRequest_Raw)
	if !ok || raw.Raw == nil || len(raw.Raw.Inputs) != 0 {
		zzverif.Fail("FundPsbt: template is not a raw template without inputs")
	}
	if tc, ok := in.Fees.(*walletrpc.FundPsbtRequest_TargetConf); ok {
		k.fundConf = tc.TargetConf
	}
	k.fundEntries = len(raw.Raw.Outputs)
	for a, v := range raw.Raw.Outputs {
		k.fundAddr, k.fundAmount = a, v
	}
	if zzverif.Bool("fund.err") {
		return nil, errors.New("lnd: insufficient funds")
	}
	if k.fundEntries != 1 {
		zzverif.Fail("FundPsbt: the stub funds single-output templates only")
	}
	script := vwAddrScript(k.fundAddr)
	if script == nil {
		return nil, errors.New("lnd: cannot decode template address")
	}
	// bounds: 1..3 outputs, 1..2 inputs
	n := 3 - zzverif.Choice("fund.outputs_below_max", 3)
	k.swapIndex = zzverif.Choice("fund.swap_index", n)
	tx := wire.NewMsgTx(2)
	amountInFront := false
	for i := 0; i < n; i++ {
		if i == k.swapIndex {
			tx.AddTxOut(wire.NewTxOut(int64(k.fundAmount), script))
			continue
		}
		v := zzverif.I64("fund.change_value")
		zzverif.Assume(v >= 0)
		zzverif.Assume(v <= vwMaxSats)
		switch k.region {
		case vwChangeNotAmount:
			zzverif.Assume(v != int64(k.fundAmount))
		case vwChangeAmountFirst:
			if i < k.swapIndex && !amountInFront && zzverif.Bool("fund.change_is_amount") {
				zzverif.Assume(v == int64(k.fundAmount))
				amountInFront = true
			}
		}
		cs := zzverif.Bytes("fund.change_script", 22) // P2WPKH-sized; never the 34-byte swap script
		tx.AddTxOut(wire.NewTxOut(v, cs))
	}
	if k.region == vwChangeAmountFirst {
		zzverif.Assume(amountInFront)
	}
	m := 1 + zzverif.Choice("fund.more_inputs", 2)
	pkt := &psbt.Packet{UnsignedTx: tx}
	for i := 0; i < m; i++ {
		h := vwCoinTxid(i)
		tx.AddTxIn(wire.NewTxIn(wire.NewOutPoint(&h, zzverif.U32("fund.in_vout")), nil, nil))
		v := zzverif.I64("fund.in_value")
		zzverif.Assume(v >= 0)
		zzverif.Assume(v <= vwMaxSats)
		k.inValues = append(k.inValues, v)
		pkt.Inputs = append(pkt.Inputs, psbt.PInput{WitnessUtxo: wire.NewTxOut(v, vwFill(0x51, 23))})
	}
	pkt.Outputs = make([]psbt.POutput, n)
	blob := []byte("psbt:funded") // symbolic side: a token
	if !zzverif.Symbolic() {
		blob = vwSerializePsbt(pkt)
	}
	k.w.psbts = append(k.w.psbts, vwPsbtBlob{blob, base64.StdEncoding.EncodeToString(blob), pkt})
	k.unsigned, k.funded = tx, true
	return &walletrpc.FundPsbtResponse{FundedPsbt: blob, ChangeOutputIndex: -1}, nil
}

// vwKnownPsbt: the packet lnd reads from the bytes (nil: not a PSBT).
func (k *vwKit) vwKnownPsbt(b []byte) *psbt.Packet {
	p, err := psbt.NewFromRawBytes(bytes.NewReader(b), false)
	if err != nil {
		return nil
	}
	return p
}

func (k *vwKit) FinalizePsbt(ctx context.Context, in *walletrpc.FinalizePsbtRequest, opts ...grpc.CallOption) (*walletrpc.FinalizePsbtResponse, error) {
	k.finalizes++
	zzverif.Effect("lnd.finalizepsbt")
	pkt := k.vwKnownPsbt(in.FundedPsbt)
	if pkt == nil {
		return nil, errors.New("lnd: error parsing PSBT")
	}
	if zzverif.Bool("finalize.err") {
		return nil, errors.New("lnd: cannot sign")
	}
	final := &wire.MsgTx{}
	vwCopyTx(final, pkt.UnsignedTx)
	signed := &psbt.Packet{UnsignedTx: pkt.UnsignedTx, Outputs: pkt.Outputs}
	for i := range final.TxIn {
		pin := psbt.PInput{WitnessUtxo: pkt.Inputs[i].WitnessUtxo, FinalScriptWitness: []byte{0x01, 0x01, 0x30}}
		if zzverif.Bool("finalize.nested") {
			// nested segwit coin: the redeem script goes into the scriptSig, which the txid covers
			k.anyNested = true
			final.TxIn[i].SignatureScript = zzverif.Bytes("finalize.sigscript", 3)
			pin.FinalScriptSig = final.TxIn[i].SignatureScript
		}
		final.TxIn[i].Witness = wire.TxWitness{[]byte{0x30}}
		signed.Inputs = append(signed.Inputs, pin)
	}
	raw, sblob := []byte("rawtx:final"), []byte("psbt:signed") // symbolic side: tokens
	if !zzverif.Symbolic() {
		raw = vwSerializeTx(final)
		sblob = vwSerializePsbt(signed)
	}
	k.w.txs = append(k.w.txs, vwTxBlob{raw, final})
	k.w.psbts = append(k.w.psbts, vwPsbtBlob{sblob, base64.StdEncoding.EncodeToString(sblob), signed})
	k.final, k.rawFinal, k.finalized = final, raw, true
	return &walletrpc.FinalizePsbtResponse{SignedPsbt: sblob, RawFinalTx: raw}, nil
}

func (k *vwKit) PublishTransaction(ctx context.Context, in *walletrpc.Transaction, opts ...grpc.CallOption) (*walletrpc.PublishResponse, error) {
	k.published = append(k.published, in.TxHex)
	zzverif.Effect("lnd.publishtransaction")
	if zzverif.Bool("publish.err") {
		k.pubFailed = true
		return nil, errors.New("lnd: transaction rejected")
	}
	return &walletrpc.PublishResponse{}, nil
}

type vwLightning struct {
	lnrpc.LightningClient
	w *vwWorld

	newAddrs  int
	wpkhAsked bool
	addrErr   bool
	addr      string
	prog      []byte
}

func (l *vwLightning) NewAddress(ctx context.Context, in *lnrpc.NewAddressRequest, opts ...grpc.CallOption) (*lnrpc.NewAddressResponse, error) {
	l.newAddrs++
	l.wpkhAsked = in.Type == lnrpc.AddressType_WITNESS_PUBKEY_HASH && in.Account == ""
	zzverif.Effect("lnd.newaddress")
	if zzverif.Bool("newaddress.err") {
		l.addrErr = true
		return nil, errors.New("lnd: wallet locked")
	}
	l.prog = zzverif.Bytes("wallet_addr_program", 20)
	if zzverif.Symbolic() {
		l.addr = "vaddr"
		l.w.addrs = append(l.w.addrs, vwAddrRec{l.addr, l.prog})
	} else {
		a, err := btcutil.NewAddressWitnessPubKeyHash(l.prog, l.w.net)
		if err != nil {
			panic(err)
		}
		l.addr = a.EncodeAddress()
	}
	return &lnrpc.NewAddressResponse{Address: l.addr}, nil
}

// vwSigner: swap.Signer.
type vwSigner struct {
	w      *vwWorld
	name   string
	priv   *btcec.PrivateKey
	hashes [][]byte
	sigs   []*btecdsa.Signature
}

func vwNewSigner(w *vwWorld, name string, key byte) *vwSigner {
	s := &vwSigner{w: w, name: name}
	if !zzverif.Symbolic() {
		s.priv, _ = btcec.PrivKeyFromBytes(vwFill(key, 32))
	}
	return s
}

func (s *vwSigner) Sign(hash []byte) (*btecdsa.Signature, error) {
	s.hashes = append(s.hashes, hash)
	der := zzverif.Bytes(s.name, 9)
	var sig *btecdsa.Signature
	if zzverif.Symbolic() {
		sig = new(btecdsa.Signature)
		s.w.sigs = append(s.w.sigs, vwSigRec{sig, der})
	} else {
		sig = btecdsa.Sign(s.priv, hash)
	}
	s.sigs = append(s.sigs, sig)
	return sig, nil
}

// ---------------------------------------------------------------------------------------
// C08: CreateOpeningTransaction
// ---------------------------------------------------------------------------------------

const (
	vwAnyChange         = 0 // change values arbitrary
	vwChangeNotAmount   = 1 // no change output carries exactly the swap amount
	vwChangeAmountFirst = 2 // a change output in front of the swap output carries exactly the swap amount
)

// vwOpening runs CreateOpeningTransaction against the lnd stand-in.
func vwOpening(region int, anyKeys bool) {
	cl, w := vwSetup(anyKeys)
	k := w.kit
	k.region = region
	rawTxHex, addr, txId, fee, vout, err := cl.CreateOpeningTransaction(w.params)

	// what lnd was asked to fund: one output, the swap amount to the address that pays the swap script
	zzverif.Assert(k.funds == 1, "C08.lnd_fundpsbt_once")
	zzverif.Assert(k.fundEntries == 1 && k.fundAmount == w.params.Amount, "C08.lnd_funds_swap_amount")
	zzverif.Assert(k.fundConf == 3, "C08.lnd_funds_with_target_conf_3")
	if !k.funded {
		zzverif.Assert(err != nil && len(k.published) == 0, "C08.lnd_fund_error_propagates")
		return
	}
	zzverif.Assert(bytes.Equal(vwAddrScript(k.fundAddr), w.want), "C08.lnd_funded_address_pays_swap_script")

	zzverif.Assert(len(k.published) <= 1, "C08.lnd_at_most_one_broadcast")
	if region == vwChangeAmountFirst {
		// GetVoutAndVerify (first output carrying the amount) cannot point to the swap output of this
		// transaction: the adapter must fail and must not broadcast it
		zzverif.Assert(err != nil, "C08.lnd_unlocatable_swap_output_is_an_error")
		zzverif.Assert(len(k.published) == 0, "C08.lnd_unlocatable_swap_output_not_broadcast")
	}
	if err != nil {
		zzverif.Assert(rawTxHex == "" && txId == "" && addr == "" && fee == 0 && vout == 0, "C08.lnd_nothing_returned_on_error")
		return
	}
	zzverif.Reach("C08.lnd_opening_success")
	zzverif.Assert(len(k.published) == 1 && !k.pubFailed && k.finalized, "C08.lnd_success_means_broadcast_succeeded")
	if len(k.published) != 1 || !k.finalized {
		return
	}
	pub := k.published[0]
	zzverif.Assert(bytes.Equal(pub, k.rawFinal), "C08.lnd_broadcasts_the_finalized_tx")
	zzverif.Assert(rawTxHex == hex.EncodeToString(pub), "C08.lnd_txhex_is_broadcast_tx")
	zzverif.Assert(addr == k.fundAddr, "C08.lnd_address_is_the_funded_one")
	btx := vwParseTx(pub)
	zzverif.Assert(btx != nil, "C08.lnd_broadcast_tx_parses")
	if btx == nil {
		return
	}
	zzverif.Assert(txId == btx.TxHash().String(), "C08.lnd_txid_is_broadcast_txid")
	// the swap output of the broadcast transaction: the one lnd added for the template entry
	zzverif.Assert(int(vout) == k.swapIndex, "C08.lnd_vout_is_swap_output_index")
	if int(vout) < len(btx.TxOut) {
		o := btx.TxOut[vout]
		zzverif.Assert(o.Value == int64(w.params.Amount) && bytes.Equal(o.PkScript, w.want), "C08.lnd_vout_pays_amount_to_swap_script")
	} else {
		zzverif.Assert(false, "C08.lnd_vout_pays_amount_to_swap_script")
	}
	ok, gv, gerr := w.chain.GetVoutAndVerify(rawTxHex, w.params)
	zzverif.Assert(gerr == nil && ok && gv == vout, "C08.lnd_vout_is_what_GetVoutAndVerify_accepts")
	// fee: inputs of the signed PSBT minus outputs of the broadcast transaction
	sum := int64(0)
	for _, v := range k.inValues {
		sum += v
	}
	for _, o := range btx.TxOut {
		sum -= o.Value
	}
	zzverif.Assert(fee == uint64(sum), "C08.lnd_fee_is_inputs_minus_outputs")
}

// H_C08_lndOpening: (*Client).CreateOpeningTransaction asks lnd to fund exactly {address paying the
// swap script: Amount} with target_conf 3, broadcasts the finalized transaction at most once,
// returns nothing but an error when FundPsbt / FinalizePsbt / PublishTransaction fail, and on
// success returns hex = hex(bytes given to PublishTransaction), txid = TxHash(those bytes) — also
// when an input is nested segwit, i.e. when the PSBT's unsigned transaction has ANOTHER id —,
// vout = index of the swap output in that transaction (the output GetVoutAndVerify accepts: Amount
// to the swap script), fee = sum of PSBT input values - sum of its outputs.
// Bounds: 1..3 outputs (swap output at any position), 1..2 inputs each native or nested segwit;
// fixed distinct keys and payment hash (arbitrary ones: H_C08_T_lndOpening).
// Region: no CHANGE output carries exactly the swap amount (the complement is
// H_C08_lndOpeningChangeEqualsAmount).
func H_C08_lndOpening() { vwOpening(vwChangeNotAmount, false) }

// H_C08_lndOpeningChangeEqualsAmount: the complementary region: a change output IN FRONT of the
// swap output carries exactly the swap amount, so GetVoutAndVerify (which looks at the first
// output carrying the amount) cannot point to the swap output: besides everything above
// ("success => returned values describe the broadcast transaction"), the adapter returns an error
// and broadcasts nothing.  (Found a defect: before e518e46 the adapter dropped the boolean,
// broadcast and reported vout 0.)  A change output of that value BEHIND the swap output is
// harmless; it is covered here only together with one in front.
func H_C08_lndOpeningChangeEqualsAmount() { vwOpening(vwChangeAmountFirst, false) }

// ---------------------------------------------------------------------------------------
// C03: Create{Preimage,Csv,Coop}SpendingTransaction
// ---------------------------------------------------------------------------------------

const (
	vwPreimage = 0
	vwCsv      = 1
	vwCoop     = 2
)

// vwOpeningTx draws an opening transaction that passed validation: 1..maxOuts outputs (bound), the
// swap output (Amount, swap script) at index k, no output in front of it with value == Amount (the
// validator and GetVoutAndVerify look at the FIRST output carrying the amount), arbitrary outputs
// around it.  amountInFront: instead an opening transaction that does NOT pass validation: output
// 0, in front of the swap output, carries the amount with another script.  Returns its hex and k.
func vwOpeningTx(w *vwWorld, maxOuts int, amountInFront bool) (string, int, *wire.MsgTx) {
	n := maxOuts - zzverif.Choice("opening.outputs_below_max", maxOuts)
	k := zzverif.Choice("opening.swap_index", n)
	if amountInFront && k == 0 {
		zzverif.Assume(false)
	}
	tx := wire.NewMsgTx(2)
	h := vwCoinTxid(0)
	tx.AddTxIn(wire.NewTxIn(wire.NewOutPoint(&h, zzverif.U32("opening.in_vout")), nil, nil))
	for i := 0; i < n; i++ {
		if i == k {
			tx.AddTxOut(wire.NewTxOut(int64(w.params.Amount), w.want))
			continue
		}
		v := zzverif.I64("opening.other_value")
		if i < k && !(amountInFront && i == 0) {
			zzverif.Assume(v != int64(w.params.Amount))
		}
		if amountInFront && i == 0 {
			zzverif.Assume(v == int64(w.params.Amount))
		}
		tx.AddTxOut(wire.NewTxOut(v, zzverif.Bytes("opening.other_script", 22)))
	}
	blob := []byte("rawtx:opening") // symbolic side: a token
	if !zzverif.Symbolic() {
		blob = vwSerializeTx(tx)
	}
	w.txs = append(w.txs, vwTxBlob{blob, tx})
	return hex.EncodeToString(blob), k, tx
}

func vwSpend(kind int, maxOuts int, anyKeys bool) {
	cl, w := vwSetup(anyKeys)
	openHex, k, openTx := vwOpeningTx(w, maxOuts, false)
	preimage := vwFill(0x44, 32)
	if anyKeys {
		preimage = zzverif.Bytes("preimage", 32)
	}
	own := vwNewSigner(w, "own_signature", 0x31)
	peer := vwNewSigner(w, "taker_signature", 0x32)
	claim := &swap.ClaimParams{Preimage: hex.EncodeToString(preimage), Signer: own, OpeningTxHex: openHex}

	var txId, txHex, addr string
	var err error
	switch kind {
	case vwPreimage:
		txId, txHex, addr, err = cl.CreatePreimageSpendingTransaction(w.params, claim)
	case vwCsv:
		txId, txHex, addr, err = cl.CreateCsvSpendingTransaction(w.params, claim)
	default:
		txId, txHex, addr, err = cl.CreateCoopSpendingTransaction(w.params, claim, peer)
	}
	kit, ln := w.kit, w.ln

	zzverif.Assert(len(kit.published) <= 1, "C03.lnd_at_most_one_broadcast")
	zzverif.Assert(ln.newAddrs == 1 && ln.wpkhAsked, "C03.lnd_asks_wallet_for_one_fresh_p2wpkh_address")
	if ln.addrErr {
		zzverif.Assert(err != nil && len(kit.published) == 0, "C03.lnd_newaddress_error_propagates")
		return
	}
	if err != nil {
		zzverif.Assert(kit.pubFailed, "C03.lnd_error_only_when_broadcast_failed")
		zzverif.Assert(txId == "" && txHex == "" && addr == "", "C03.lnd_nothing_returned_on_error")
		return
	}
	zzverif.Reach("C03.lnd_spend_success")
	zzverif.Assert(len(kit.published) == 1 && !kit.pubFailed, "C03.lnd_success_means_broadcast_succeeded")
	if len(kit.published) != 1 {
		return
	}
	pub := kit.published[0]
	zzverif.Assert(txHex == hex.EncodeToString(pub), "C03.lnd_txhex_is_broadcast_tx")
	zzverif.Assert(addr == ln.addr, "C03.lnd_returns_wallet_address")
	tx := vwParseTx(pub)
	zzverif.Assert(tx != nil, "C03.lnd_broadcast_tx_parses")
	if tx == nil {
		return
	}
	zzverif.Assert(txId == tx.TxHash().String(), "C03.lnd_txid_is_broadcast_txid")

	zzverif.Assert(tx.Version == 2 && tx.LockTime == 0, "C03.lnd_version_2_locktime_0")
	zzverif.Assert(len(tx.TxIn) == 1 && len(tx.TxOut) == 1, "C03.lnd_one_input_one_output")
	if len(tx.TxIn) != 1 || len(tx.TxOut) != 1 {
		return
	}
	in := tx.TxIn[0]
	zzverif.Assert(in.PreviousOutPoint.Hash == openTx.TxHash(), "C03.lnd_spends_opening_txid")
	zzverif.Assert(in.PreviousOutPoint.Index == uint32(k), "C03.lnd_spends_swap_output")
	zzverif.Assert(len(in.SignatureScript) == 0, "C03.lnd_empty_scriptsig")
	if kind == vwCsv {
		zzverif.Assert(in.Sequence == onchain.BitcoinCsv, "C03.lnd_csv_sequence_is_csv")
	} else {
		zzverif.Assert(in.Sequence == 0, "C03.lnd_sequence_0")
	}

	// single output to the wallet's fresh address, value = amount - 200 - fee
	zzverif.Assert(bytes.Equal(tx.TxOut[0].PkScript, append([]byte{0x00, 0x14}, ln.prog...)), "C03.lnd_pays_wallet_address")
	rates := w.est.perVb
	fee := uint64(0)
	if kind == vwCoop {
		zzverif.Assert(len(rates) >= 1, "C03.lnd_coop_fee_from_estimator")
		fee = rates[0] * 250 // GetRefundFee = GetFee(250)
	}
	if fee == 0 {
		fee = rates[len(rates)-1] * (82 + 74) // GetFee(stripped size + largest witness)
	}
	zzverif.Assert(tx.TxOut[0].Value == int64(w.params.Amount)-200-int64(fee), "C03.lnd_value_is_amount_minus_200_minus_fee")

	// signatures: over the BIP143 hash of (redeem script, input 0, SIGHASH_ALL, amount) of THIS transaction
	redeem, _ := onchain.GetOpeningTxScript(w.taker, w.maker, w.hash, onchain.BitcoinCsv)
	unsignedTx := &wire.MsgTx{}
	if tx2 := vwParseTx(pub); tx2 != nil {
		unsignedTx = tx2
		unsignedTx.TxIn[0].Witness = nil
	}
	fetcher := txscript.NewCannedPrevOutputFetcher(w.want, int64(w.params.Amount))
	wantHash, _ := txscript.CalcWitnessSigHash(redeem, txscript.NewTxSigHashes(unsignedTx, fetcher), txscript.SigHashAll, unsignedTx, 0, int64(w.params.Amount))
	wit := in.Witness
	if kind == vwCoop {
		zzverif.Assert(len(own.hashes) == 1 && len(peer.hashes) == 1 && bytes.Equal(own.hashes[0], wantHash) && bytes.Equal(peer.hashes[0], wantHash), "C03.lnd_both_sign_the_sighash_once")
		zzverif.Assert(len(wit) == 4, "C03.lnd_coop_witness_has_4_items")
		if len(wit) == 4 && len(own.sigs) == 1 && len(peer.sigs) == 1 {
			zzverif.Assert(bytes.Equal(wit[0], append(peer.sigs[0].Serialize(), 0x01)), "C03.lnd_coop_witness_0_taker_sig")
			zzverif.Assert(bytes.Equal(wit[1], append(own.sigs[0].Serialize(), 0x01)), "C03.lnd_coop_witness_1_maker_sig")
			zzverif.Assert(len(wit[2]) == 0, "C03.lnd_coop_witness_2_empty")
			zzverif.Assert(bytes.Equal(wit[3], redeem), "C03.lnd_coop_witness_3_redeem_script")
		}
		return
	}
	zzverif.Assert(len(own.hashes) == 1 && len(peer.hashes) == 0 && bytes.Equal(own.hashes[0], wantHash), "C03.lnd_signs_the_sighash_once")
	if len(own.sigs) != 1 {
		return
	}
	sig := append(own.sigs[0].Serialize(), 0x01)
	if kind == vwCsv {
		zzverif.Assert(len(wit) == 2, "C03.lnd_csv_witness_has_2_items")
		if len(wit) == 2 {
			zzverif.Assert(bytes.Equal(wit[0], sig), "C03.lnd_csv_witness_0_sig")
			zzverif.Assert(bytes.Equal(wit[1], redeem), "C03.lnd_csv_witness_1_redeem_script")
		}
		return
	}
	zzverif.Assert(len(wit) == 5, "C03.lnd_preimage_witness_has_5_items")
	if len(wit) == 5 {
		zzverif.Assert(bytes.Equal(wit[0], sig), "C03.lnd_preimage_witness_0_sig")
		zzverif.Assert(bytes.Equal(wit[1], preimage), "C03.lnd_preimage_witness_1_preimage")
		zzverif.Assert(len(wit[2]) == 0 && len(wit[3]) == 0, "C03.lnd_preimage_witness_2_3_empty")
		zzverif.Assert(bytes.Equal(wit[4], redeem), "C03.lnd_preimage_witness_4_redeem_script")
	}
}

// H_C03_lndSpendPreimage / Csv / Coop: on every validated opening transaction (1..3 outputs, swap
// output at any index k) the adapter asks lnd for exactly one fresh P2WPKH address, broadcasts at
// most one transaction, fails iff NewAddress or PublishTransaction failed (returning nothing), and
// on success returns (TxHash(broadcast bytes), hex(broadcast bytes), the wallet address); the
// broadcast transaction has version 2, locktime 0, one input (TxHash(opening tx), k) with empty
// scriptSig and nSequence 0 (preimage, coop) / 1008 (csv), one output OP_0 <wallet program> of
// value Amount-200-fee (fee = rate*156, coop: rate*250 unless that is 0); the signer(s) signed
// exactly once the sighash of (redeem script, input 0, SIGHASH_ALL, Amount) of that transaction;
// witness = [sig|01, preimage, "", "", script] / [sig|01, script] / [taker sig|01, own sig|01, "", script].
// Bounds: opening tx <= 3 outputs (coop quick: <= 2); fee rate whole 0..65535 sat/vB; quick tier: fixed
// distinct keys, payment hash and preimage (arbitrary ones: the _T_ entries and, for the builder,
// H_C03_btc*Spend in harness/onchain).
func H_C03_lndSpendPreimage() { vwSpend(vwPreimage, 3, false) }
func H_C03_lndSpendCsv()      { vwSpend(vwCsv, 3, false) }
func H_C03_lndSpendCoop()     { vwSpend(vwCoop, 2, false) }

// Thorough tier: arbitrary keys / payment hash / preimage (maker != taker), <= 3 outputs (coop: <= 2).
func H_C03_T_lndSpendPreimage() { vwSpend(vwPreimage, 3, true) }
func H_C03_T_lndSpendCsv()      { vwSpend(vwCsv, 3, true) }
func H_C03_T_lndSpendCoop()     { vwSpend(vwCoop, 2, true) }
func H_C08_T_lndOpening()       { vwOpening(vwChangeNotAmount, true) }

// H_C03_lndSpendUnvalidatedOpening: an opening transaction that would NOT pass validation (2..3
// outputs, output 0 carries the amount with another script, the swap output sits behind it): each
// of the three adapters returns an error, broadcasts nothing and asks nobody to sign.
func H_C03_lndSpendUnvalidatedOpening() {
	cl, w := vwSetup(false)
	openHex, _, _ := vwOpeningTx(w, 3, true)
	own := vwNewSigner(w, "own_signature", 0x31)
	peer := vwNewSigner(w, "taker_signature", 0x32)
	claim := &swap.ClaimParams{Preimage: hex.EncodeToString(vwFill(0x44, 32)), Signer: own, OpeningTxHex: openHex}
	var txId, txHex, addr string
	var err error
	switch zzverif.Choice("adapter", 3) {
	case vwPreimage:
		txId, txHex, addr, err = cl.CreatePreimageSpendingTransaction(w.params, claim)
	case vwCsv:
		txId, txHex, addr, err = cl.CreateCsvSpendingTransaction(w.params, claim)
	default:
		txId, txHex, addr, err = cl.CreateCoopSpendingTransaction(w.params, claim, peer)
	}
	zzverif.Assert(err != nil, "C03.lnd_unvalidated_opening_is_an_error")
	zzverif.Assert(len(w.kit.published) == 0, "C03.lnd_unvalidated_opening_nothing_broadcast")
	zzverif.Assert(len(own.hashes) == 0 && len(peer.hashes) == 0, "C03.lnd_unvalidated_opening_nothing_signed")
	zzverif.Assert(txId == "" && txHex == "" && addr == "", "C03.lnd_unvalidated_opening_nothing_returned")
}
