//go:build verif

package lnd

// C21, lnd side: the custom message listener (type formatting with
// messages.MessageTypeToHexString before the handlers run) and Client.SendMessage (type number
// and payload passed to lnd's SendCustomMessage).
//
// Environment: lnd's gRPC Lightning service answered by arbitrary values:
//   SubscribeCustomMessages  error, or a stream of <= 2 messages (arbitrary uint32 type, 33
//                            arbitrary peer bytes, arbitrary data) followed by EOF or an error
//   SendCustomMessage        error or ok; the request is recorded
// Harness errors carry no gRPC status, so IsContextError answers false for them (natively the
// real function does; symbolically it is overridden because google.golang.org/grpc/status is not
// executed).

import (
	"bytes"
	"context"
	"encoding/hex"
	"errors"
	"io"

	"github.com/elementsproject/peerswap/messages"
	"github.com/elementsproject/peerswap/zzverif"
	"github.com/lightningnetwork/lnd/lnrpc"
	"google.golang.org/grpc"
)

func vmIsContextError(err error) bool { return false }

type vmMsg struct {
	typ  uint32
	peer []byte
	data []byte
}

type vmLnd struct {
	lnrpc.LightningClient // only the two custom message calls are used

	maxMsgs  int
	subErr   bool
	streamed []vmMsg
	sendReqs []*lnrpc.SendCustomMessageRequest
	sendErr  bool // answer of SendCustomMessage (drawn by the entry before the call)
}

func (l *vmLnd) SubscribeCustomMessages(ctx context.Context, in *lnrpc.SubscribeCustomMessagesRequest, opts ...grpc.CallOption) (lnrpc.Lightning_SubscribeCustomMessagesClient, error) {
	if zzverif.Bool("subscribe.err") {
		l.subErr = true
		return nil, errors.New("lnd: cannot subscribe")
	}
	return &vmStream{l: l}, nil
}

func (l *vmLnd) SendCustomMessage(ctx context.Context, in *lnrpc.SendCustomMessageRequest, opts ...grpc.CallOption) (*lnrpc.SendCustomMessageResponse, error) {
	l.sendReqs = append(l.sendReqs, in)
	if l.sendErr {
		return nil, errors.New("lnd: send failed")
	}
	return &lnrpc.SendCustomMessageResponse{}, nil
}

type vmStream struct {
	grpc.ClientStream
	l *vmLnd
}

func (s *vmStream) Recv() (*lnrpc.CustomMessage, error) {
	kind := zzverif.Choice("stream.kind", 3)
	if len(s.l.streamed) >= s.l.maxMsgs && kind == 0 {
		kind = 1 // bound on the number of streamed messages
	}
	switch kind {
	case 1:
		return nil, io.EOF
	case 2:
		return nil, errors.New("lnd: stream broke")
	}
	m := vmMsg{typ: zzverif.U32("msg.type"), peer: zzverif.Bytes("msg.peer", 33), data: zzverif.Bytes("msg.data", -1)}
	s.l.streamed = append(s.l.streamed, m)
	return &lnrpc.CustomMessage{Peer: m.peer, Type: m.typ, Data: m.data}, nil
}

type vmGot struct {
	peer, typ string
	data      []byte
}

func vmIsNine(v uint32) bool { return v-42069 <= 16 && (v-42069)%2 == 0 }

// vmListenerEntry: the real MessageListener.Start with its receive goroutine (inline)
// over a stream of <= maxMsgs arbitrary custom messages: a failing subscription is returned as error and
// nothing runs; otherwise every streamed message reaches every handler exactly once, in order, as
// (hex(peer), MessageTypeToHexString(type), data) whatever the handlers return; the type string a
// handler receives parses (PeerswapCustomMessageType) to a peerswap type exactly when the uint32
// wire type is one of the nine numbers, and then to that number; the listener's mutex is free
// afterwards.  parseAll = false checks the parse of the last streamed message only (the messages
// are handled by the same code; this keeps the 10-way type switch from multiplying paths).
// Bounds: 2 handlers; peer = 33 bytes.  strconv.FormatInt/ParseInt: uninterpreted
// formatter with the round-trip law ParseInt(FormatInt(n,16),16,64) = n (engine model).
func vmListenerEntry(maxMsgs int, parseAll bool) {
	zzverif.GoInline(true)
	zzverif.Unwind(16)
	zzverif.Override("github.com/elementsproject/peerswap/lnd.IsContextError", vmIsContextError)
	ctx, cancel := context.WithCancel(context.Background())
	l := &vmLnd{maxMsgs: maxMsgs}
	ml := &MessageListener{lnrpcClient: l, ctx: ctx, cancel: cancel}
	var first, second []vmGot
	ml.AddMessageHandler(func(peerId string, msgType string, payload []byte) error {
		first = append(first, vmGot{peerId, msgType, payload})
		if zzverif.Bool("handler.err") {
			return errors.New("handler failed")
		}
		return nil
	})
	ml.AddMessageHandler(func(peerId string, msgType string, payload []byte) error {
		second = append(second, vmGot{peerId, msgType, payload})
		return nil
	})
	err := ml.Start()
	ml.Stop() // natively: waits for the receive goroutine (the stream has ended)
	if l.subErr {
		zzverif.Assert(err != nil && len(first) == 0 && len(second) == 0, "C21.lnd_subscribe_error_returned")
		return
	}
	zzverif.Assert(err == nil, "C21.lnd_start_ok")
	zzverif.Assert(len(first) == len(l.streamed) && len(second) == len(l.streamed), "C21.lnd_every_message_to_every_handler_once")
	for i := range l.streamed {
		m, g := l.streamed[i], second[i]
		zzverif.Assert(g.peer == hex.EncodeToString(m.peer) && bytes.Equal(g.data, m.data) && first[i].typ == g.typ, "C21.lnd_peer_and_data_passed")
		zzverif.Assert(g.typ == messages.MessageTypeToHexString(messages.MessageType(m.typ)), "C21.lnd_type_formatted")
		if !parseAll && i != len(l.streamed)-1 {
			continue
		}
		t, perr := messages.PeerswapCustomMessageType(g.typ)
		zzverif.Assert((perr == nil) == vmIsNine(m.typ), "C21.lnd_type_accepted_iff_nine")
		if perr == nil {
			zzverif.Assert(uint32(t) == m.typ && int(t) >= 0, "C21.lnd_type_number_preserved")
		} else {
			zzverif.Assert(errors.Is(perr, &messages.ErrNotPeerswapCustomMessage{}), "C21.lnd_other_type_is_not_peerswap")
		}
	}
	zzverif.Assert(zzverif.LocksHeld() == 0, "C21.lnd_listener_lock_released")
}

// H_C21_lndListener_NoPanic: vmListenerEntry, <= 2 messages, type parse checked on the last one.
func H_C21_lndListener_NoPanic() { vmListenerEntry(2, false) }

// H_C21_T_lndListener_NoPanic: vmListenerEntry, <= 2 messages, type parse checked on both.
func H_C21_T_lndListener_NoPanic() { vmListenerEntry(2, true) }

var vmNine = [9]messages.MessageType{
	messages.MESSAGETYPE_SWAPINREQUEST, messages.MESSAGETYPE_SWAPOUTREQUEST, messages.MESSAGETYPE_SWAPINAGREEMENT,
	messages.MESSAGETYPE_SWAPOUTAGREEMENT, messages.MESSAGETYPE_OPENINGTXBROADCASTED, messages.MESSAGETYPE_CANCELED,
	messages.MESSAGETYPE_COOPCLOSE, messages.MESSAGETYPE_POLL, messages.MESSAGETYPE_REQUEST_POLL,
}

// H_C21_lndSend_NoPanic: Client.SendMessage for each of the nine types, an arbitrary peer id
// string and arbitrary payload bytes: a peer id that is not hex gives an error and no request;
// otherwise exactly one SendCustomMessage request with Peer = decoded id, Type = the protocol
// number (uint32, 42069..42085) and Data = the payload, and the result is nil iff lnd accepted.
// Bounds: none on the payload.
// (Whether an arbitrary string is valid hex is an uninterpreted predicate in the engine; all draws
// happen before the call and both outcomes run the same assertion sequence, so that a native run
// of a witness is comparable whichever way the real decoder decides.)
func H_C21_lndSend_NoPanic() {
	l := &vmLnd{sendErr: zzverif.Bool("sendcustom.err")}
	c := &Client{lndClient: l, ctx: context.Background()}
	t := vmNine[zzverif.Choice("type", 9)]
	peer := zzverif.Str("peer")
	message := zzverif.Bytes("message", -1)
	err := c.SendMessage(peer, message, int(t))
	want, derr := hex.DecodeString(peer)
	bad := derr != nil
	zzverif.Assert(!bad || (err != nil && len(l.sendReqs) == 0), "C21.lnd_send_bad_peer_rejected")
	zzverif.Assert(bad || (len(l.sendReqs) == 1 && (err == nil) == !l.sendErr), "C21.lnd_send_one_request")
	zzverif.Assert(bad || (len(l.sendReqs) == 1 && l.sendReqs[0].Type == uint32(t) && vmIsNine(l.sendReqs[0].Type) && l.sendReqs[0].Type%2 == 1), "C21.lnd_send_type_number")
	zzverif.Assert(bad || (len(l.sendReqs) == 1 && bytes.Equal(l.sendReqs[0].Peer, want) && bytes.Equal(l.sendReqs[0].Data, message)), "C21.lnd_send_peer_and_data")
}
