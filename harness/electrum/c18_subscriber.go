//go:build verif

package electrum

import (
	"context"
	"sync"
	"time"

	"github.com/elementsproject/peerswap/zzverif"
)

// H_C18_elSubscriberLockOrder: the Liquid (Electrum) side of "event handling never deadlocks".  Two facts
// come from the swap package (its C18 entries run them on the real service): a csv / confirmation callback
// (SwapService.OnCsvPassed / OnTxConfirmed) takes the swap's mutex, and a handler that moves a maker into
// its csv wait registers the watch (AddWaitForCsvTx -> subscriber.Register) while it holds that mutex.
// Here the real liquidBlockHeaderSubscriber runs both sides against a mutex standing for the swap's:
// Update (a block arrives, the csv is mature, the callback takes the swap mutex) and a handler (holds the swap
// mutex, registers another watch).  Symbolically both run one after the other and the lock-order edges must
// be acyclic; natively they run concurrently with a rendezvous inside the callback and must both finish.
// Bounds: 1 registered csv observer, 1 block, 1 registration.
func H_C18_elSubscriberLockOrder() {
	vInstall()
	zzverif.Unwind(24)
	e := &vElectrum{maxN: 1}
	sub := NewLiquidBlockHeaderSubscriber()
	var swapMu sync.Mutex
	var arrived, release chan struct{}
	csv := zzverif.U32("csv")
	c := NewobserveCSVTX(vSwapID(2), vHash(0xaa), scriptPubKey{}, e, func(swapId string) error {
		if arrived != nil {
			arrived <- struct{}{}
			<-release
		}
		swapMu.Lock() // SendEvent
		defer swapMu.Unlock()
		zzverif.Reach("c18.el_csv_callback")
		return nil
	}, csv)
	sub.Register(&c)
	other := NewobserveCSVTX(vSwapID(3), vHash(0xbb), scriptPubKey{}, e, func(swapId string) error { return nil }, csv)
	handler := func() {
		swapMu.Lock() // SendEvent of the swap a cancel arrived for
		sub.Register(&other)
		swapMu.Unlock()
	}
	tip := BlockHeight(zzverif.I64("tip"))
	zzverif.Assume(tip > 0)
	if zzverif.Symbolic() {
		_ = sub.Update(context.Background(), tip)
		handler()
		zzverif.Assert(!zzverif.LockOrderCycle(), "C18.el_subscriber_no_lock_order_cycle")
		return
	}
	// native: the block notification is inside the callback (about to take the swap mutex) while the handler
	// holds the swap mutex and registers
	arrived, release = make(chan struct{}, 1), make(chan struct{})
	done := make(chan struct{}, 2)
	go func() { _ = sub.Update(context.Background(), tip); done <- struct{}{} }()
	inCallback := false
	select {
	case <-arrived:
		inCallback = true
	case <-time.After(2 * time.Second): // no callback on this script (csv not mature): nothing to interleave
	}
	hdone := make(chan struct{}, 1)
	go func() {
		swapMu.Lock()
		if inCallback {
			close(release)
		}
		sub.Register(&other)
		swapMu.Unlock()
		hdone <- struct{}{}
		done <- struct{}{}
	}()
	finished := 0
	deadline := time.After(5 * time.Second)
	for finished < 2 {
		select {
		case <-done:
			finished++
		case <-deadline:
			zzverif.Assert(false, "C18.el_subscriber_no_lock_order_cycle")
			return
		}
	}
	zzverif.Assert(true, "C18.el_subscriber_no_lock_order_cycle")
}
