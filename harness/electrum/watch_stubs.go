//go:build verif

package electrum

import (
	"context"
	"errors"

	"github.com/btcsuite/btcd/chaincfg/chainhash"
	"github.com/checksum0/go-electrum/electrum"
	"github.com/elementsproject/peerswap/swap"
	"github.com/elementsproject/peerswap/zzverif"
)

// ---------------------------------------------------------------------------------------
// Environment: electrum.RPC answered by arbitrary values.  A history answer is a list of
// <= 2 entries, each nil or {tx hash, signed height}; the hash is the watched txid, another
// valid txid or an unparsable string; heights cover all of int32 (what the wire type holds),
// sign-extended by the code into its signed 64-bit BlockHeight.
// The ground truth for a report is the history list the observer itself read last together
// with the tip height it was handed.
// ---------------------------------------------------------------------------------------

const (
	vTxA  = "aaaaaaaaaaaaaaaaaaaaaaaaaaaaaaaaaaaaaaaaaaaaaaaaaaaaaaaaaaaaaaaa"
	vTxB  = "bbbbbbbbbbbbbbbbbbbbbbbbbbbbbbbbbbbbbbbbbbbbbbbbbbbbbbbbbbbbbbbb"
	vBad  = "zz"
	vSHsh = "SCRIPTHASH"
)

func vHash(b byte) *chainhash.Hash {
	h := new(chainhash.Hash)
	for i := 0; i < len(h); i++ {
		h[i] = b
	}
	return h
}

// vNewHashFromStr replaces the hex parser symbolically; it agrees with the real parser on the
// only three strings the stub ever produces (natively the real parser runs).
func vNewHashFromStr(s string) (*chainhash.Hash, error) {
	switch s {
	case vTxA:
		return vHash(0xaa), nil
	case vTxB:
		return vHash(0xbb), nil
	}
	return nil, errors.New("encoding/hex: invalid byte")
}

func vScriptHash(s *scriptPubKey) string { return vSHsh }

func vInstall() {
	zzverif.Override("github.com/btcsuite/btcd/chaincfg/chainhash.NewHashFromStr", vNewHashFromStr)
	zzverif.Override("(*github.com/elementsproject/peerswap/electrum.scriptPubKey).scriptHash", vScriptHash)
}

type vEntry struct {
	present bool
	mine    bool // hash parses and equals the watched txid (vTxA)
	height  int32
}

type vElectrum struct {
	maxN      int // longest history answer (0: 2 entries)
	histCalls int
	histErr   bool     // last history call failed
	hist      []vEntry // last history answer
	rawCalls  int
	rawErr    bool
	raw       string
}

func (e *vElectrum) GetHistory(ctx context.Context, scripthash string) ([]*electrum.GetMempoolResult, error) {
	e.histCalls++
	e.hist = nil
	e.histErr = false
	if zzverif.Bool("hist.err") {
		e.histErr = true
		return nil, errors.New("electrum: history failed")
	}
	n := zzverif.Choice("hist.n", 3)
	if e.maxN > 0 {
		zzverif.Assume(n <= e.maxN)
	}
	var out []*electrum.GetMempoolResult
	for i := 0; i < n; i++ {
		kind := zzverif.Choice("hist.kind", 4)
		height := zzverif.I32("hist.height")
		switch kind {
		case 0:
			out = append(out, nil)
			e.hist = append(e.hist, vEntry{})
		case 1:
			out = append(out, &electrum.GetMempoolResult{Hash: vTxA, Height: height})
			e.hist = append(e.hist, vEntry{present: true, mine: true, height: height})
		case 2:
			out = append(out, &electrum.GetMempoolResult{Hash: vTxB, Height: height})
			e.hist = append(e.hist, vEntry{present: true, height: height})
		default:
			out = append(out, &electrum.GetMempoolResult{Hash: vBad, Height: height})
			e.hist = append(e.hist, vEntry{present: true, height: height})
		}
	}
	return out, nil
}

func (e *vElectrum) GetRawTransaction(ctx context.Context, txHash string) (string, error) {
	e.rawCalls++
	e.rawErr = false
	if zzverif.Bool("rawtx.err") {
		e.rawErr = true
		return "", errors.New("electrum: no such transaction")
	}
	e.raw = zzverif.Str("rawtx")
	return e.raw, nil
}

func (e *vElectrum) SubscribeHeaders(ctx context.Context) (<-chan *electrum.SubscribeHeadersResult, error) {
	zzverif.Fail("observers never subscribe")
	return nil, nil
}
func (e *vElectrum) BroadcastTransaction(ctx context.Context, rawTx string) (string, error) {
	zzverif.Fail("observers never broadcast")
	return "", nil
}
func (e *vElectrum) GetFee(ctx context.Context, target uint32) (float32, error) {
	zzverif.Fail("observers never ask for fees")
	return 0, nil
}
func (e *vElectrum) Ping(ctx context.Context) error   { return nil }
func (e *vElectrum) Reboot(ctx context.Context) error { return nil }

// vDeepEnough: some history entry for the watched tx has 0 < height <= tip and
// tip-height+1 >= need, in unbounded arithmetic (tip > 0 assumed by the caller).
func (e *vElectrum) vDeepEnough(tip BlockHeight, need uint32) bool {
	for _, h := range e.hist {
		if h.present && h.mine && h.height > 0 && int64(h.height) <= int64(tip) &&
			uint64(int64(tip)-int64(h.height))+1 >= uint64(need) {
			return true
		}
	}
	return false
}

// callback results of the swap service: accepted, unknown swap, any other error
func vCbResult(name string) error {
	switch zzverif.Choice(name, 3) {
	case 1:
		return swap.ErrSwapDoesNotExist
	case 2:
		return errors.New("swap service rejected the event")
	}
	return nil
}

func vSwapID(b byte) swap.SwapId {
	var id swap.SwapId
	id[0] = b
	return id
}
