//go:build verif

package electrum

import (
	"context"

	"github.com/elementsproject/peerswap/swap"
	"github.com/elementsproject/peerswap/zzverif"
)

// H_C20_hasConfirmations: for all signed 64-bit heights and every required depth the
// helper answers true exactly when 0 < txHeight <= tip and tip-txHeight+1 >= required
// (mathematical integers: no wrap can occur inside the accepted region), and it reports an
// error exactly for a non-positive tip or a tx height above the tip.
// Bounds: none (all int64 x int64 x uint32).
func H_C20_hasConfirmations() {
	tx, tip := BlockHeight(zzverif.I64("tx_height")), BlockHeight(zzverif.I64("tip"))
	req := zzverif.U32("required")
	ok, err := hasConfirmations(tx, tip, req)
	if ok {
		zzverif.Assert(err == nil, "C20.el_ok_no_error")
		zzverif.Assert(tx > 0 && tx <= tip, "C20.el_ok_height_range")
		// depth without wrap: tip-tx is in [0, 2^63-2] when 0 < tx <= tip
		zzverif.Assert(uint64(tip-tx)+1 >= uint64(req), "C20.el_ok_depth")
	} else if err == nil {
		// complete: "not yet" only for unconfirmed (<=0) heights or too few confirmations
		zzverif.Assert(tip > 0 && (tx <= 0 || (tx <= tip && uint64(tip-tx)+1 < uint64(req))), "C20.el_notyet_exact")
	} else {
		zzverif.Assert(tip <= 0 || tx > tip, "C20.el_error_exact")
	}
}

type vConfGhost struct {
	calls, okCalls, errCalls int
	lastRaw                  string
}

func vOpening(e *vElectrum, g *vConfGhost, id byte, start, window uint32, cbName string) *observeOpeningTX {
	o := NewObserveOpeningTX(vSwapID(id), vHash(0xaa), scriptPubKey{}, e, func(swapId string, txHex string, err error) error {
		g.calls++
		if err != nil {
			g.errCalls++
		} else {
			g.okCalls++
			g.lastRaw = txHex
		}
		return vCbResult(cbName)
	}, start, window)
	return &o
}

// H_C20_elOpeningCallback: one call of the real observeOpeningTX.Callback (with getHeight,
// hasConfirmations) for every start/window (uint32), every signed 64-bit tip and an arbitrary
// Electrum answer.  Exactly characterises when the confirmation callback fires:
//
//	ok    <=> 0 < tip, start <= tip < start+window (64-bit), history read without error,
//	          the watched tx listed with 0 < height <= tip and tip-height+1 >= 2, raw tx read;
//	error <=> 0 < tip and the window is not open (tip < start or tip >= start+window);
//	tip <= 0, a failed history/raw-tx request or an inconsistent height never report.
//
// Bounds: history <= 2 entries (the first matching entry decides; the assertion is on the
// existence of a sufficiently deep matching entry, exact when a tx is listed once).
func H_C20_elOpeningCallback() {
	vInstall()
	e, g := &vElectrum{}, &vConfGhost{}
	start, window := zzverif.U32("start"), zzverif.U32("window")
	tip := BlockHeight(zzverif.I64("tip"))
	o := vOpening(e, g, 1, start, window, "cb")
	called, _ := o.Callback(context.Background(), tip)

	open := tip > 0 && uint64(tip) >= uint64(start) && uint64(tip) < uint64(start)+uint64(window)
	zzverif.Assert(g.calls <= 1 && called == (g.calls == 1), "C20.el_conf_called_iff_one_callback")
	if g.okCalls == 1 {
		zzverif.Assert(open, "C20.el_conf_ok_window_open")
		zzverif.Assert(e.histCalls == 1 && !e.histErr && e.vDeepEnough(tip, 2), "C20.el_conf_ok_depth_on_read_history")
		zzverif.Assert(e.rawCalls == 1 && !e.rawErr && g.lastRaw == e.raw, "C20.el_conf_ok_rawtx_is_answer")
	}
	if g.errCalls == 1 {
		zzverif.Assert(tip > 0 && !open, "C20.el_conf_error_only_when_window_not_open")
		zzverif.Assert(e.histCalls == 0, "C20.el_conf_error_without_query")
	}
	// window closed (or not yet open) on a valid tip => the error is reported
	zzverif.Assert(!(tip > 0 && !open) || g.errCalls == 1, "C20.el_conf_window_not_open_reports_error")
	zzverif.Assert(tip > 0 || g.calls == 0, "C20.el_conf_invalid_tip_never_reports")
	zzverif.Assert(!(e.histErr || e.rawErr) || g.calls == 0, "C20.el_conf_transient_error_never_reports")
}

// H_C20_elCsvCallback: one call of the real observeCSVTX.Callback for every csv (uint32),
// signed 64-bit tip and arbitrary history: the CSV callback fires only if the history was read
// without error and lists the watched tx with 0 < height <= tip (tip > 0) and
// tip-height+1 >= csv; at most one callback.  Bounds: history <= 2 entries.
func H_C20_elCsvCallback() {
	vInstall()
	e := &vElectrum{}
	csv := zzverif.U32("csv")
	tip := BlockHeight(zzverif.I64("tip"))
	calls := 0
	o := NewobserveCSVTX(vSwapID(1), vHash(0xaa), scriptPubKey{}, e, func(swapId string) error {
		calls++
		return vCbResult("cb")
	}, csv)
	called, _ := o.Callback(context.Background(), tip)
	zzverif.Assert(calls <= 1 && called == (calls == 1), "C20.el_csv_called_iff_one_callback")
	if calls == 1 {
		zzverif.Assert(tip > 0 && !e.histErr && e.vDeepEnough(tip, csv), "C20.el_csv_depth_on_read_history")
	}
	zzverif.Assert(!e.histErr || calls == 0, "C20.el_csv_transient_error_never_reports")
}

// vSubEntry: the real liquidBlockHeaderSubscriber with an opening observer and/or a CSV
// observer (of two different swaps), driven by Update calls with strictly increasing
// positive tips (the contract lwk's acceptBlockHeight establishes, see
// H_C20_lwkAcceptBlockHeight).  Per registration: once the swap service accepted a callback
// (returned nil or ErrSwapDoesNotExist) the observer is removed and never called again; an
// ok confirmation is never delivered after the deadline error for a closed window was
// delivered (the error is re-delivered while the service keeps rejecting it); every ok/CSV report is justified by the
// history read in the same Update.
func vSubEntry(withConf, withCsv bool, updates int) {
	vInstall()
	zzverif.Unwind(24)
	e, g := &vElectrum{maxN: 1}, &vConfGhost{}
	start, window, csv := zzverif.U32("start"), zzverif.U32("window"), zzverif.U32("csv")
	sub := NewLiquidBlockHeaderSubscriber()
	var tip BlockHeight
	confAccepted, csvAccepted, csvCalls := 0, 0, 0
	closedReported := false

	o := NewObserveOpeningTX(vSwapID(1), vHash(0xaa), scriptPubKey{}, e, func(swapId string, txHex string, err error) error {
		g.calls++
		zzverif.Assert(confAccepted == 0, "C20.el_sub_conf_no_callback_after_accepted_one")
		if err != nil {
			g.errCalls++
			if uint64(tip) >= uint64(start)+uint64(window) {
				closedReported = true
			}
		} else {
			g.okCalls++
			zzverif.Assert(!closedReported, "C20.el_sub_never_ok_after_closed_window")
			zzverif.Assert(uint64(tip) >= uint64(start) && uint64(tip) < uint64(start)+uint64(window), "C20.el_sub_ok_window_open")
			zzverif.Assert(!e.histErr && e.vDeepEnough(tip, 2), "C20.el_sub_ok_depth")
		}
		r := vCbResult("conf.cb")
		if r == nil || r == swap.ErrSwapDoesNotExist {
			confAccepted++
		}
		return r
	}, start, window)
	want := 0
	if withConf {
		sub.Register(&o)
		want++
	}
	c := NewobserveCSVTX(vSwapID(2), vHash(0xaa), scriptPubKey{}, e, func(swapId string) error {
		csvCalls++
		zzverif.Assert(csvAccepted == 0, "C20.el_sub_csv_no_callback_after_accepted_one")
		zzverif.Assert(!e.histErr && e.vDeepEnough(tip, csv), "C20.el_sub_csv_depth")
		r := vCbResult("csv.cb")
		if r == nil || r == swap.ErrSwapDoesNotExist {
			csvAccepted++
		}
		return r
	}, csv)
	if withCsv {
		sub.Register(&c)
		want++
	}
	zzverif.Assert(sub.Count() == want, "C20.el_sub_registered")

	for i := 0; i < updates; i++ {
		next := BlockHeight(zzverif.I64("tip"))
		zzverif.Assume(next > 0 && next > tip) // lwk only forwards strictly increasing positive heights
		tip = next
		err := sub.Update(context.Background(), tip)
		zzverif.Assert(err == nil, "C20.el_sub_update_never_fails")
	}
	zzverif.Assert(confAccepted <= 1 && csvAccepted <= 1, "C20.el_sub_at_most_one_accepted_callback")
	zzverif.Assert(sub.Count() == want-confAccepted-csvAccepted, "C20.el_sub_removed_exactly_when_accepted")
}

// H_C20_elSubscriberOnce_conf: bounds: opening observer, 3 updates, history <= 1 entry.
func H_C20_elSubscriberOnce_conf() { vSubEntry(true, false, 3) }

// H_C20_elSubscriberOnce_csv: bounds: CSV observer, 3 updates, history <= 1 entry.
func H_C20_elSubscriberOnce_csv() { vSubEntry(false, true, 3) }

// H_C20_elSubscriberOnce_both: bounds: both observers, 1 update (2 in the _T_ variant),
// history <= 1 entry; removing one observer leaves the other registered.
func H_C20_elSubscriberOnce_both() { vSubEntry(true, true, 1) }

func H_C20_T_elSubscriberOnce_both2() { vSubEntry(true, true, 2) }

// H_C04_elWatcherDeadline: the Liquid payment window (60 blocks) as enforced by the Electrum
// opening observer, for every anchor (incl. anchor+60 >= 2^32) and every signed 64-bit tip:
// the observer's verdict agrees exactly with `anchor <= h < anchor+60` in 64-bit arithmetic:
// inside the window it never reports the deadline error and may report ok; outside (valid
// tip) it reports the error and never ok; a tip <= 0 reports nothing.
// Bounds: history <= 2 entries.
func H_C04_elWatcherDeadline() {
	vInstall()
	e, g := &vElectrum{}, &vConfGhost{}
	anchor := zzverif.U32("anchor")
	tip := BlockHeight(zzverif.I64("tip"))
	o := vOpening(e, g, 1, anchor, 60, "cb")
	o.Callback(context.Background(), tip)
	inside := tip > 0 && uint64(tip) >= uint64(anchor) && uint64(tip) < uint64(anchor)+60
	zzverif.Assert(g.okCalls == 0 || inside, "C04.el_ok_only_inside_window64")
	zzverif.Assert((g.errCalls == 1) == (tip > 0 && !inside), "C04.el_deadline_error_exactly_outside_window64")
	zzverif.Assert(g.calls <= 1, "C04.el_at_most_one_report")
	if inside && uint64(anchor)+60 >= 1<<32 {
		zzverif.Reach("el_inside_window_with_anchor_plus_60_above_2_32")
	}
}
