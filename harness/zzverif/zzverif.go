//go:build verif

// Package zzverif is the harness intrinsic API.  The symbolic executor intercepts every
// call by name and never looks at these bodies; compiled natively (replay, translator
// validation) the same functions read a JSON script named by $ZZVERIF_SCRIPT that maps
// symbol names to concrete values, so the very same harness drives the real build with
// the solver's assignment.
package zzverif

import (
	crand "crypto/rand"
	"encoding/hex"
	"encoding/json"
	"fmt"
	"io"
	"os"
	"reflect"
	"strconv"
	"sync"
	"sync/atomic"
	"time"
)

// countingReader wraps the process's crypto random source so that SecretDraws can tell natively whether a
// value was drawn from it.
type countingReader struct{ r io.Reader }

var secretReads int64

func (c countingReader) Read(b []byte) (int, error) {
	atomic.AddInt64(&secretReads, 1)
	return c.r.Read(b)
}

func init() { crand.Reader = countingReader{crand.Reader} }

// SecretDraws: how many times the crypto random source has been read so far (symbolically: calls of
// crypto/rand.Read on this path; natively: reads of crypto/rand.Reader).
func SecretDraws() int { return int(atomic.LoadInt64(&secretReads)) }

type script struct {
	Values map[string]json.RawMessage `json:"values"`
}

var (
	mu      sync.Mutex
	loaded  bool
	vals    map[string]json.RawMessage
	counts  = map[string]int{}
	logf    *os.File
	Failed  []string
	Reached []string
)

// AssertFailure is the panic value raised natively by a failed Assert.
type AssertFailure struct{ Label string }

func (a AssertFailure) Error() string { return "ZZVERIF-ASSERT-FAIL " + a.Label }

// AssumeFailure is raised natively when a scripted run leaves the assumed region.
type AssumeFailure struct{}

func (AssumeFailure) Error() string { return "ZZVERIF-ASSUME-FAIL" }

var loadOnce sync.Once

func load() { loadOnce.Do(doLoad) }

func doLoad() {
	loaded = true
	vals = map[string]json.RawMessage{}
	if p := os.Getenv("ZZVERIF_SCRIPT"); p != "" {
		b, err := os.ReadFile(p)
		if err != nil {
			panic(err)
		}
		var s script
		if err := json.Unmarshal(b, &s); err != nil {
			panic(err)
		}
		vals = s.Values
	}
	if p := os.Getenv("ZZVERIF_LOG"); p != "" {
		logf, _ = os.Create(p)
	}
}

// Reset clears per-run counters (one scripted run per process is the norm).
func Reset() {
	mu.Lock()
	defer mu.Unlock()
	counts = map[string]int{}
	Failed = nil
	Reached = nil
}

func logLine(format string, a ...interface{}) {
	load()
	if logf != nil {
		fmt.Fprintf(logf, format+"\n", a...)
	}
}

func next(name string) (string, json.RawMessage, bool) {
	mu.Lock()
	defer mu.Unlock()
	load()
	k := counts[name]
	counts[name] = k + 1
	full := name
	if k > 0 {
		full = name + "#" + strconv.Itoa(k)
	}
	v, ok := vals[full]
	logLine("draw %s", full)
	return full, v, ok
}

func num(name string) uint64 {
	_, raw, ok := next(name)
	if !ok {
		return 0
	}
	var s string
	if json.Unmarshal(raw, &s) == nil {
		v, _ := strconv.ParseUint(s, 10, 64)
		return v
	}
	var u uint64
	json.Unmarshal(raw, &u)
	return u
}

func Bool(name string) bool {
	_, raw, ok := next(name)
	if !ok {
		return false
	}
	var b bool
	json.Unmarshal(raw, &b)
	return b
}
func U8(name string) uint8   { return uint8(num(name)) }
func U16(name string) uint16 { return uint16(num(name)) }
func U32(name string) uint32 { return uint32(num(name)) }
func I32(name string) int32  { return int32(uint32(num(name))) }
func U64(name string) uint64 { return num(name) }
func I64(name string) int64  { return int64(num(name)) }
func Int(name string) int    { return int(int64(num(name))) }

// Str returns an arbitrary string (script values are hex-encoded bytes).
func Str(name string) string {
	_, raw, ok := next(name)
	if !ok {
		return ""
	}
	var s string
	json.Unmarshal(raw, &s)
	b, err := hex.DecodeString(s)
	if err != nil {
		return s
	}
	return string(b)
}

// Bytes returns n arbitrary bytes (n < 0: any length).
func Bytes(name string, n int) []byte {
	s := Str(name)
	b := []byte(s)
	if n >= 0 {
		for len(b) < n {
			b = append(b, 0)
		}
		b = b[:n]
	}
	return b
}

// HexStr returns the hex encoding of n arbitrary bytes.
func HexStr(name string, n int) string { return hex.EncodeToString(Bytes(name, n)) }

func Assume(c bool) {
	if !c {
		logLine("assume-fail")
		panic(AssumeFailure{})
	}
}

func Assert(c bool, label string) {
	if !c {
		mu.Lock()
		Failed = append(Failed, label)
		mu.Unlock()
		logLine("assert-fail %s", label)
		fmt.Printf("ZZVERIF-ASSERT-FAIL %s\n", label)
	} else {
		logLine("assert-ok %s", label)
	}
}

func Reach(label string) {
	mu.Lock()
	Reached = append(Reached, label)
	mu.Unlock()
	logLine("reach %s", label)
}

func Effect(name string, args ...interface{}) { logLine("effect %s", name) }
func Unwind(n int)                            {}
func GoInline(on bool)                        {}

// GoLogical(true): goroutines started by the code under test run as logical goroutines (symbolic side):
// at once, until they finish or need a mutex somebody else holds; then they are parked and resumed at
// the release.  Natively a no-op: they are real goroutines.
func GoLogical(on bool) {}

// JSONArbitrary(false): payloads that were not produced by json.Marshal on this run decode as error or
// null only (the "arbitrary content" alternative of the decoder model is switched off).
func JSONArbitrary(on bool) {}

// JSONUnbounded: encodings produced by json.Marshal on this path may be arbitrarily long (default: the
// model bounds them by 60000 bytes, the size a Lightning custom message can carry).
func JSONUnbounded() {}

// AssertNoFlow: symbolically a two-run non-interference obligation (the value must not depend on the
// named secret symbols except through public-key derivation and hashing).  Natively: the value's bytes
// must not contain any scripted secret verbatim or hex-encoded.
func AssertNoFlow(label string, value interface{}, secrets ...string) {
	load()
	var data []byte
	switch v := value.(type) {
	case []byte:
		data = v
	case string:
		data = []byte(v)
	default:
		data = []byte(fmt.Sprint(v))
	}
	ok := true
	for _, name := range secrets {
		for full, raw := range vals {
			base := full
			for i := 0; i < len(full); i++ {
				if full[i] == '#' {
					base = full[:i]
					break
				}
			}
			if base != name {
				continue
			}
			var s string
			if json.Unmarshal(raw, &s) != nil || s == "" {
				continue
			}
			secret, err := hex.DecodeString(s)
			if err != nil || len(secret) < 4 {
				continue
			}
			if bytesContains(data, secret) || bytesContains(data, []byte(hex.EncodeToString(secret))) {
				ok = false
			}
		}
	}
	// The native oracle is a heuristic (a degenerate model value may coincide with unrelated bytes of the
	// payload), so it only confirms counterexamples (stdout line read by the replay); in the event trace
	// compared by translator validation the assertion is recorded as executed.
	if !ok {
		mu.Lock()
		Failed = append(Failed, label)
		mu.Unlock()
		fmt.Printf("ZZVERIF-ASSERT-FAIL %s\n", label)
	}
	logLine("assert-ok %s", label)
}

func bytesContains(a, b []byte) bool {
	for i := 0; i+len(b) <= len(a); i++ {
		j := 0
		for j < len(b) && a[i+j] == b[j] {
			j++
		}
		if j == len(b) {
			return true
		}
	}
	return false
}

// DeadlineControl: from now on contexts with a deadline expire only when ExpireDeadlines is called
// (symbolic side).  Natively a no-op: real time decides.
func DeadlineControl() {}

// ExpireDeadlines: "time passes here until every pending deadline has expired".  Natively sleeps past
// the (fast_test) payment retry window.
func ExpireDeadlines() { time.Sleep(3 * time.Second) }

// Thorough reports whether the check runs in the thorough tier (natively: $VERIF_TIER).
func Thorough() bool { return os.Getenv("VERIF_TIER") == "thorough" }

// Symbolic reports whether the harness runs under the symbolic executor.
func Symbolic() bool { return false }

// Choice returns a scripted value in [0,n).
func Choice(name string, n int) int {
	v := int(num(name))
	if v < 0 || v >= n {
		return 0
	}
	return v
}

// CrashPoint is true on the path where the process is assumed to crash here.
func CrashPoint(name string) bool { return Bool(name) }

func Fail(msg string) { panic("zzverif.Fail: " + msg) }

// Override redirects calls of a named real function to a harness function (symbolic only).
func Override(target string, fn interface{}) {}

func LocksHeld() int { return 0 }

var concurrent sync.WaitGroup

// Concurrently runs fn as a second goroutine of the program under test.  Symbolically it is a logical
// goroutine that is parked when it needs a mutex another one holds and resumed when it is released;
// natively a real goroutine that gets a head start of 100 ms (enough to reach the mutex it blocks on).
func Concurrently(fn func()) {
	concurrent.Add(1)
	go func() { defer concurrent.Done(); fn() }()
	time.Sleep(100 * time.Millisecond)
}

// Blocked: number of goroutines started with Concurrently that have not finished.  Natively waits up to
// two seconds for them first.
func Blocked() int {
	done := make(chan struct{})
	go func() { concurrent.Wait(); close(done) }()
	select {
	case <-done:
		return 0
	case <-time.After(2 * time.Second):
		return 1
	}
}

// Spawned: symbolically the number of goroutines started (and not run inline) so far on this path.
func Spawned() int { return 0 }

// LockOrderCycle: symbolically, whether the locks taken so far on this path were taken in
// contradictory orders by different calls (natively the harness has to provoke the deadlock itself).
func LockOrderCycle() bool { return false }

// UFStr is an uninterpreted function for oracles (natively: a deterministic rendering).
func UFStr(name string, args ...interface{}) string {
	return fmt.Sprint(append([]interface{}{name}, args...)...)
}

// UFU64 is an uninterpreted 64-bit function (symbolic side only: it stands for a real function whose
// arithmetic is another check's subject, through Override; natively the real function runs).
func UFU64(name string, args ...interface{}) uint64 { panic("zzverif.UFU64 is symbolic only") }

// Race2 states that the handlers a and b run on different goroutines of the daemon.  Symbolically they
// run one after the other on the same objects while every access to pre-existing memory is recorded with
// the locks held (lockset): a pair of unsynchronised conflicting accesses is a candidate data race and
// becomes a failing obligation "<label>:<Type.field>".  Natively both run concurrently (the test binary
// of this property is built with -race): a candidate counts only if the race detector reports it.
// Draw every scripted value before calling Race2.
func Race2(label string, a, b func()) {
	var wg sync.WaitGroup
	wg.Add(2)
	// which handler gets going first varies with the replay attempt ($ZZVERIF_TRY): the race detector
	// reports two accesses only if no lock hand-over happens to order them
	try, _ := strconv.Atoi(os.Getenv("ZZVERIF_TRY"))
	first, second := a, b
	if try%2 == 1 {
		first, second = b, a
	}
	go func() { defer wg.Done(); first() }()
	if try >= 2 {
		time.Sleep(time.Duration(try) * 200 * time.Microsecond)
	}
	go func() { defer wg.Done(); second() }()
	done := make(chan struct{})
	go func() { wg.Wait(); close(done) }()
	select {
	case <-done:
	case <-time.After(10 * time.Second):
	}
	logLine("assert-ok %s", label)
}

// RaceTouch: a stubbed collaborator reads (or writes) the whole object behind ptr, as its real
// counterpart does.  Natively the object is copied through reflection, which the race detector sees.
func RaceTouch(ptr interface{}, write bool) {
	v := reflect.ValueOf(ptr)
	if v.Kind() != reflect.Ptr || v.IsNil() {
		return
	}
	if write {
		tmp := reflect.New(v.Elem().Type())
		tmp.Elem().Set(v.Elem())
		v.Elem().Set(tmp.Elem())
		return
	}
	_ = v.Elem().Interface()
}
