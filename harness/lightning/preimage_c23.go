//go:build verif

package lightning

import (
	"github.com/elementsproject/peerswap/zzverif"
)

// H_C23_preimageComesFromTheCryptoSource: the claim preimage is the maker's secret until the taker pays for
// it; GetPreimage draws all 32 bytes from the crypto random source (exactly one read of it per preimage) -
// a preimage taken from a predictable stream (math/rand, a counter, a constant) is recomputable from the
// payment hash.  Outside: the quality of the operating system's source.
func H_C23_preimageComesFromTheCryptoSource() {
	n0 := zzverif.SecretDraws()
	p, err := GetPreimage()
	if err == nil {
		zzverif.Assert(zzverif.SecretDraws() == n0+1, "C23.preimage_is_drawn_from_the_crypto_source")
		zzverif.Assert(len(p) == 32, "C23.preimage_is_32_bytes")
	}
}
