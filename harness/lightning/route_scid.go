//go:build verif

package lightning

import (
	"strings"

	"github.com/elementsproject/peerswap/zzverif"
)

// vrSep draws one of the two separator spellings.
func vrSep(name string) string {
	if zzverif.Choice(name, 2) == 0 {
		return ":"
	}
	return "x"
}

// H_C24_scidStyles: every spelling of a short channel id "A<sep>B<sep>C" (each separator
// independently ':' or 'x', so also the mixed spellings) normalises to "AxBxC" in CLN style and to
// "A:B:C" in LND style; both spellings of one channel therefore select the same channel.
// A, B, C are arbitrary strings free of both separator characters (digit strings in real ids).
// Bound: the whole scid string has at most 14 characters.
func H_C24_scidStyles() {
	a, b, c := zzverif.Str("blk"), zzverif.Str("tx"), zzverif.Str("out")
	for _, p := range []string{a, b, c} {
		zzverif.Assume(!strings.Contains(p, ":"))
		zzverif.Assume(!strings.Contains(p, "x"))
	}
	s := a + vrSep("sep1") + b + vrSep("sep2") + c
	zzverif.Assume(len(s) <= 14)
	cln, lnd := Scid(s).ClnStyle(), Scid(s).LndStyle()
	zzverif.Assert(cln == a+"x"+b+"x"+c, "C24.scid_cln_style")
	zzverif.Assert(lnd == a+":"+b+":"+c, "C24.scid_lnd_style")
	zzverif.Assert(len(cln) == len(s), "C24.scid_length")
	zzverif.Assert(Scid(cln).ClnStyle() == cln, "C24.scid_cln_idempotent")
	zzverif.Assert(Scid(lnd).LndStyle() == lnd, "C24.scid_lnd_idempotent")
	zzverif.Assert(Scid(lnd).ClnStyle() == cln, "C24.scid_cln_of_lnd")
	zzverif.Assert(Scid(cln).LndStyle() == lnd, "C24.scid_lnd_of_cln")
}

// H_C24_scidAnyString: for an arbitrary string (not only well-formed ids) the two styles keep the
// length, and leave a string without the replaced separator unchanged.
// Bound: at most 14 characters.
func H_C24_scidAnyString() {
	s := zzverif.Str("scid")
	zzverif.Assume(len(s) <= 14)
	cln, lnd := Scid(s).ClnStyle(), Scid(s).LndStyle()
	zzverif.Assert(len(cln) == len(s), "C24.scid_any_cln_length")
	zzverif.Assert(len(lnd) == len(s), "C24.scid_any_lnd_length")
	if !strings.Contains(s, ":") {
		zzverif.Assert(cln == s, "C24.scid_any_cln_identity")
	}
	if !strings.Contains(s, "x") {
		zzverif.Assert(lnd == s, "C24.scid_any_lnd_identity")
	}
}
