//go:build verif

package premium

import (
	"math/bits"

	"github.com/elementsproject/peerswap/zzverif"
)

const (
	vRateParts = 1000000
	// vMaxAmtSat: amount*1000 <= 2^63 (amounts up to 2^63 msat).
	vMaxAmtSat uint64 = (1 << 63) / 1000
	// vSafeAmtSat = floor((2^63-1)/10^6): below or at this amount the product with |rate| <= 10^6 fits int64.
	vSafeAmtSat uint64 = 9223372036854
)

// The 128-bit reference uses math/bits.Mul64 / Div64 (natively the real functions, symbolically a
// 128-bit bit-vector product / quotient: engine/symex/intrinsics_peersync.go).

// vRefPremium is trunc(amt*rate/10^6) over the mathematical integers (128-bit product), for
// |rate| <= 10^6 and amt < 2^63 (so the result fits int64).  When the exact product fits int64 the
// quotient is, by the Go spec, the truncated int64 division of that product; otherwise it is obtained
// by the 128-by-64 long division.
func vRefPremium(amt uint64, rate int64) int64 {
	neg := rate < 0
	m := uint64(rate)
	if neg {
		m = uint64(-rate)
	}
	hi, lo := bits.Mul64(amt, m)
	if hi == 0 && lo < 1<<63 {
		zzverif.Reach("ref.product_fits_int64")
		if neg {
			return -int64(lo) / vRateParts
		}
		return int64(lo) / vRateParts
	}
	zzverif.Reach("ref.product_needs_128_bits")
	q, _ := bits.Div64(hi, lo, vRateParts) // hi < 2^10 in the stated region
	if neg {
		return -int64(q)
	}
	return int64(q)
}

// H_C27_ppmCompute_safeRegion: for every amount <= 9 223 372 036 854 sat and every rate in
// [-10^6, 10^6] ppm, PPM.Compute equals trunc(amount*rate/10^6) with the product taken in 128 bits
// (no 64-bit wrap is possible there).  Bounds: none inside the stated region.
func H_C27_ppmCompute_safeRegion() {
	amt, rate := zzverif.U64("amt_sat"), zzverif.I64("rate_ppm")
	zzverif.Assume(amt <= vSafeAmtSat && rate >= -vRateParts && rate <= vRateParts)
	got := NewPPM(rate).Compute(amt)
	hi, lo := bits.Mul64(amt, uint64(vAbs(rate)))
	zzverif.Assert(hi == 0 && lo < 1<<63, "C27.safe_region_no_wrap")
	zzverif.Assert(got == vRefPremium(amt, rate), "C27.compute_exact_safe_region")
}

func vAbs(x int64) int64 {
	if x < 0 {
		return -x
	}
	return x
}

// H_C27_ppmCompute: the property as stated — all amounts with amount*1000 <= 2^63 (amount <= 2^63
// msat), all rates within +/-10^6 ppm: PPM.Compute = trunc(amount*rate/10^6), product in 128 bits.
func H_C27_ppmCompute() {
	amt, rate := zzverif.U64("amt_sat"), zzverif.I64("rate_ppm")
	zzverif.Assume(amt <= vMaxAmtSat && rate >= -vRateParts && rate <= vRateParts)
	got := NewPPM(rate).Compute(amt)
	zzverif.Assert(got == vRefPremium(amt, rate), "C27.compute_exact")
}

// H_C27_ppmCompute_minWitness: the smallest amount at which the 64-bit product wraps
// (9 223 372 036 855 sat at +/-10^6 ppm; H_C27_ppmCompute_safeRegion shows nothing smaller exists).
func H_C27_ppmCompute_minWitness() {
	amt := vSafeAmtSat + 1
	rate := int64(vRateParts)
	if zzverif.Bool("negative_rate") {
		rate = -rate
	}
	got := NewPPM(rate).Compute(amt)
	zzverif.Assert(got == vRefPremium(amt, rate), "C27.compute_exact_min_witness")
}
