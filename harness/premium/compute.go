//go:build verif

package premium

import (
	"math/bits"

	"github.com/elementsproject/peerswap/zzverif"
)

const (
	vRateParts = 1000000
	// vMaxAmtSat: amount*1000 <= 2^63 (amounts up to 2^63 msat).
	vMaxAmtSat uint64 = (1 << 63) / 1000
	// vSafeAmtSat = floor((2^63-1)/10^6): up to this amount the product with |rate| <= 10^6 fits int64.
	vSafeAmtSat uint64 = 9223372036854
)

// The 128-bit reference uses math/bits.Mul64 / Div64 (natively the real functions, symbolically a
// 128-bit bit-vector product / quotient: engine/symex/intrinsics_peersync.go).

// vRate draws a rate in [-10^6, 10^6] ppm as (magnitude, sign): every value of the interval is
// produced by exactly the draws (|rate|, rate<0); -0 = 0.
func vRate() (rate int64, mag uint64, neg bool) {
	mag = zzverif.U64("rate_abs_ppm")
	zzverif.Assume(mag <= vRateParts)
	neg = zzverif.Bool("rate_negative")
	rate = int64(mag)
	if neg {
		rate = -rate
	}
	return
}

// vRefPremium is trunc(amt*rate/10^6) over the mathematical integers (128-bit product) for
// rate = +/-mag, mag <= 10^6 and amt < 2^63 (so the result fits int64).  When the exact product fits
// int64 the quotient is, by the Go spec, the truncated int64 division of that product; otherwise it
// is obtained from the 128-by-64 division of the magnitude.
func vRefPremium(amt uint64, mag uint64, neg bool) int64 {
	hi, lo := bits.Mul64(amt, mag)
	if hi == 0 && lo < 1<<63 {
		zzverif.Reach("ref.product_fits_int64")
		if neg {
			return -int64(lo) / vRateParts
		}
		return int64(lo) / vRateParts
	}
	zzverif.Reach("ref.product_needs_more_than_63_bits")
	q, _ := bits.Div64(hi, lo, vRateParts) // hi < 2^10 < 10^6 in the stated region
	if neg {
		return -int64(q)
	}
	return int64(q)
}

// H_C27_ppmCompute_safeRegion: for every amount <= 9 223 372 036 854 sat and every rate in
// [-10^6, 10^6] ppm, the exact product fits int64 and PPM.Compute equals trunc(amount*rate/10^6).
// Bounds: none inside the stated region.
func H_C27_ppmCompute_safeRegion() {
	amt := zzverif.U64("amt_sat")
	zzverif.Assume(amt <= vSafeAmtSat)
	rate, mag, neg := vRate()
	got := NewPPM(rate).Compute(amt)
	hi, lo := bits.Mul64(amt, mag)
	zzverif.Assert(hi == 0 && lo < 1<<63, "C27.safe_region_no_wrap")
	zzverif.Assert(got == vRefPremium(amt, mag, neg), "C27.compute_exact_safe_region")
}

// H_C27_ppmCompute: the property as stated — all amounts with amount*1000 <= 2^63 (amount <= 2^63
// msat), all rates within +/-10^6 ppm: PPM.Compute = trunc(amount*rate/10^6), product in 128 bits.
func H_C27_ppmCompute() {
	amt := zzverif.U64("amt_sat")
	zzverif.Assume(amt <= vMaxAmtSat)
	rate, mag, neg := vRate()
	got := NewPPM(rate).Compute(amt)
	zzverif.Assert(got == vRefPremium(amt, mag, neg), "C27.compute_exact")
}

// H_C27_ppmCompute_minWitness: the smallest amount at which the 64-bit product wraps
// (9 223 372 036 855 sat at +/-10^6 ppm; H_C27_ppmCompute_safeRegion shows nothing smaller exists).
func H_C27_ppmCompute_minWitness() {
	amt := vSafeAmtSat + 1
	neg := zzverif.Bool("rate_negative")
	rate := int64(vRateParts)
	if neg {
		rate = -rate
	}
	got := NewPPM(rate).Compute(amt)
	zzverif.Assert(got == vRefPremium(amt, vRateParts, neg), "C27.compute_exact_min_witness")
}

// H_C27_ppmCompute_fitsInt64: characterisation of the defect region — for all amounts <= 2^63 msat
// and all rates within +/-10^6 ppm, PPM.Compute is exact whenever amount*|rate| <= 2^63-1 (128-bit
// product); every violation of H_C27_ppmCompute therefore has amount*|rate| >= 2^63.
func H_C27_ppmCompute_fitsInt64() {
	amt := zzverif.U64("amt_sat")
	zzverif.Assume(amt <= vMaxAmtSat)
	rate, mag, neg := vRate()
	hi, lo := bits.Mul64(amt, mag)
	zzverif.Assume(hi == 0 && lo < 1<<63)
	got := NewPPM(rate).Compute(amt)
	zzverif.Assert(got == vRefPremium(amt, mag, neg), "C27.compute_exact_when_product_fits")
}
