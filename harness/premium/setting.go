//go:build verif

package premium

import (
	"context"
	"os"
	"path/filepath"

	"github.com/elementsproject/peerswap/zzverif"
	"go.etcd.io/bbolt"
)

// ---------------------------------------------------------------------------------------
// premium.Setting over a map model of BBoltPremiumStore.  bbolt is never executed symbolically:
// (*BBoltPremiumStore).GetRate / SetRate / DeleteRate are overridden by a total map keyed by
// (peer, asset, operation) — peers "A", "B" and the store's own "default" row — whose content is
// arbitrary (every cell: present?, ppm).  GetDefaultRate / SetDefaultRate of the store are executed
// for real (they delegate to the overridden methods with peer "default").  Natively the same draws
// seed a temp-dir bbolt through the real Setting API.
// Outside (stated): bbolt itself, the "%s.%d.%d" key / "%d" value text encoding of the real store,
// store I/O errors other than ErrRateNotFound.
// ---------------------------------------------------------------------------------------

const (
	vPeerA = "02aaaaaaaaaaaaaaaaaaaaaaaaaaaaaaaaaaaaaaaaaaaaaaaaaaaaaaaaaaaaaaaaaa"
	vPeerB = "03bbbbbbbbbbbbbbbbbbbbbbbbbbbbbbbbbbbbbbbbbbbbbbbbbbbbbbbbbbbbbbbbbb"
	vPeerC = "02cccccccccccccccccccccccccccccccccccccccccccccccccccccccccccccccc" // never in the store
)

var vPeers = [3]string{vPeerA, vPeerB, defaultPeerID}

type vRateMap struct {
	set [3][3][3]bool // [peer row][asset][operation]; row 2 = "default"
	ppm [3][3][3]int64
}

var vStore *vRateMap

func vRow(peer string) int {
	for i, p := range vPeers {
		if p == peer {
			return i
		}
	}
	return -1
}

func vNewStoreModel(db *bbolt.DB) (*BBoltPremiumStore, error) { return &BBoltPremiumStore{}, nil }

func vStoreGetRate(p *BBoltPremiumStore, peer string, asset AssetType, operation OperationType) (*PremiumRate, error) {
	i := vRow(peer)
	if i < 0 || !vStore.set[i][asset][operation] {
		return nil, ErrRateNotFound
	}
	return NewPremiumRate(asset, operation, NewPPM(vStore.ppm[i][asset][operation]))
}

func vStoreSetRate(p *BBoltPremiumStore, peer string, rate *PremiumRate) error {
	i := vRow(peer)
	if i < 0 {
		zzverif.Fail("harness: rate set for a peer outside the model")
	}
	vStore.set[i][rate.Asset()][rate.Operation()] = true
	vStore.ppm[i][rate.Asset()][rate.Operation()] = rate.PremiumRatePPM().Value()
	return nil
}

func vStoreDeleteRate(p *BBoltPremiumStore, peer string, asset AssetType, operation OperationType) error {
	if i := vRow(peer); i >= 0 {
		vStore.set[i][asset][operation] = false
	}
	return nil
}

var (
	vAssets = [2]AssetType{BTC, LBTC}
	vOps    = [2]OperationType{SwapIn, SwapOut}
)

// vNewSetting draws the whole store content (12 cells) and returns the Setting under test.
func vNewSetting(drawContent bool) (*vRateMap, *Setting) {
	m := &vRateMap{}
	if drawContent {
		for i := range vPeers {
			for _, a := range vAssets {
				for _, o := range vOps {
					m.set[i][a][o] = zzverif.Bool("store.set")
					m.ppm[i][a][o] = zzverif.I64("store.ppm")
				}
			}
		}
	}
	vStore = m
	if zzverif.Symbolic() {
		zzverif.Override("(*github.com/elementsproject/peerswap/premium.BBoltPremiumStore).GetRate", vStoreGetRate)
		zzverif.Override("(*github.com/elementsproject/peerswap/premium.BBoltPremiumStore).SetRate", vStoreSetRate)
		zzverif.Override("(*github.com/elementsproject/peerswap/premium.BBoltPremiumStore).DeleteRate", vStoreDeleteRate)
		// built by the real constructor (whatever else it sets up), over the store model
		zzverif.Override("github.com/elementsproject/peerswap/premium.NewBBoltPremiumStore", vNewStoreModel)
		st, err := NewSetting(nil)
		if err != nil {
			zzverif.Fail("NewSetting failed over the store model")
		}
		return m, st
	}
	dir, err := os.MkdirTemp("", "zzverif-premium-")
	if err != nil {
		panic(err)
	}
	db, err := bbolt.Open(filepath.Join(dir, "premium.db"), 0o600, nil)
	if err != nil {
		panic(err)
	}
	s, err := NewSetting(db)
	if err != nil {
		panic(err)
	}
	for i, p := range vPeers {
		for _, a := range vAssets {
			for _, o := range vOps {
				if m.set[i][a][o] {
					r, _ := NewPremiumRate(a, o, NewPPM(m.ppm[i][a][o]))
					if err := s.store.SetRate(p, r); err != nil {
						panic(err)
					}
				}
			}
		}
	}
	return m, s
}

// vBuiltin is the built-in default of the property statement (premium.go constants).
func vBuiltin(a AssetType, o OperationType) int64 {
	switch {
	case a == BTC && o == SwapOut:
		return 2000
	case a == LBTC && o == SwapOut:
		return 1000
	}
	return 0
}

// vExpectedRate: peer-specific rate if set, else the stored default, else the built-in default.
func (m *vRateMap) vExpectedRate(peer string, a AssetType, o OperationType) int64 {
	if i := vRow(peer); i >= 0 && i < 2 && m.set[i][a][o] {
		return m.ppm[i][a][o]
	}
	return m.vExpectedDefault(a, o)
}

func (m *vRateMap) vExpectedDefault(a AssetType, o OperationType) int64 {
	if m.set[2][a][o] {
		return m.ppm[2][a][o]
	}
	return vBuiltin(a, o)
}

// H_C27_settingSelection: for an arbitrary store content (peers A, B, default row; every cell
// present/absent with an arbitrary int64 ppm), every queried peer in {A, B, C(not stored)}, asset in
// {BTC, LBTC} and operation in {SwapIn, SwapOut}: GetRate/GetDefaultRate never fail and select
// peer-specific -> stored default -> built-in default (0/2000/0/1000 ppm); the returned rate carries
// the queried asset/operation; Setting.Compute(peer, asset, op, amt) is PPM.Compute of exactly that
// rate for every uint64 amount (arithmetic of PPM.Compute: the H_C27_ppmCompute* entries; here
// PPM.Compute is replaced by the injective tag vComputeTag).
// Bounds: 2 stored peers + default row.
func H_C27_settingSelection() {
	m, s := vNewSetting(true)
	peer := [3]string{vPeerA, vPeerB, vPeerC}[zzverif.Choice("query.peer", 3)]
	a := vAssets[zzverif.Choice("query.asset", 2)]
	o := vOps[zzverif.Choice("query.op", 2)]
	want := m.vExpectedRate(peer, a, o)

	r, err := s.GetRate(peer, a, o)
	zzverif.Assert(err == nil && r != nil, "C27.get_rate_total")
	if err == nil && r != nil {
		zzverif.Assert(r.Asset() == a && r.Operation() == o, "C27.rate_key_echoed")
		zzverif.Assert(r.PremiumRatePPM() != nil && r.PremiumRatePPM().Value() == want, "C27.selection_order")
	}
	d, err := s.GetDefaultRate(a, o)
	zzverif.Assert(err == nil && d != nil && d.PremiumRatePPM().Value() == m.vExpectedDefault(a, o), "C27.default_selection_order")
	zzverif.Assert(DefaultPremiumRate[a][o] == vBuiltin(a, o), "C27.builtin_defaults")

	amt := zzverif.U64("amt_sat")
	zzverif.Override("(*github.com/elementsproject/peerswap/premium.PPM).Compute", vComputeTag)
	c, err := s.Compute(peer, a, o, amt)
	zzverif.Assert(err == nil && c == NewPPM(want).Compute(amt), "C27.compute_uses_selected_rate")
}

// vComputeTag stands in for PPM.Compute (symbolic side only; natively the real Compute runs on both
// sides of the comparison) in entries that check WHICH rate and amount Compute is applied to, not its
// arithmetic (that is H_C27_ppmCompute*).  rate XOR amount is injective in the rate for a fixed
// amount (and vice versa), so equality of two tags with the same amount holds exactly when the rates
// are equal — stronger than comparing real premiums, and free of the 128-bit case split of Compute.
func vComputeTag(p *PPM, amtSat uint64) int64 { return p.ppmValue ^ int64(amtSat) }

// vSpec is the specification map the history entries compare the Setting against.
type vSpec struct {
	set [3][3][3]bool
	ppm [3][3][3]int64
}

// vHistory runs n update steps through the Setting API (SetRate / SetDefaultRate / DeleteRate on peers
// A and B, arbitrary asset, operation and value per step) starting from an empty store, mirroring
// them in a specification map, then compares every cell read through GetRate / GetDefaultRate (every cell
// was also read once before the updates).
func vHistory(n int) {
	m, s := vNewSetting(false)
	_ = m
	spec := &vSpec{}
	ctx := context.Background()
	// rates are read between updates as well (requests are served all the time): every cell is looked up
	// once before the updates, so that an answer remembered from an earlier lookup would show
	for _, a := range vAssets {
		for _, o := range vOps {
			s.GetDefaultRate(a, o)
			for row := 0; row < 2; row++ {
				s.GetRate(vPeers[row], a, o)
				s.Compute(vPeers[row], a, o, 1000)
			}
		}
	}
	for k := 0; k < n; k++ {
		kind := zzverif.Choice("step.kind", 3)
		row := zzverif.Choice("step.peer", 2)
		a := vAssets[zzverif.Choice("step.asset", 2)]
		o := vOps[zzverif.Choice("step.op", 2)]
		v := zzverif.I64("step.ppm")
		switch kind {
		case 0:
			r, _ := NewPremiumRate(a, o, NewPPM(v))
			zzverif.Assert(s.SetRate(ctx, vPeers[row], r) == nil, "C27.set_rate_ok")
			spec.set[row][a][o], spec.ppm[row][a][o] = true, v
		case 1:
			r, _ := NewPremiumRate(a, o, NewPPM(v))
			zzverif.Assert(s.SetDefaultRate(ctx, r) == nil, "C27.set_default_ok")
			spec.set[2][a][o], spec.ppm[2][a][o] = true, v
		case 2:
			zzverif.Assert(s.DeleteRate(ctx, vPeers[row], a, o) == nil, "C27.delete_rate_ok")
			spec.set[row][a][o] = false
		}
	}
	ok := true
	for _, a := range vAssets {
		for _, o := range vOps {
			def := vBuiltin(a, o)
			if spec.set[2][a][o] {
				def = spec.ppm[2][a][o]
			}
			d, err := s.GetDefaultRate(a, o)
			ok = ok && err == nil && d.PremiumRatePPM().Value() == def
			for row := 0; row < 2; row++ {
				want := def
				if spec.set[row][a][o] {
					want = spec.ppm[row][a][o]
				}
				r, err := s.GetRate(vPeers[row], a, o)
				ok = ok && err == nil && r.PremiumRatePPM().Value() == want && r.Asset() == a && r.Operation() == o
			}
		}
	}
	zzverif.Assert(ok, "C27.history_behaves_like_map")
	// C12's view: the rate a responder charges a peer is the one configured now, not one looked up earlier
	zzverif.Assert(ok, "C12.responder_rate_is_the_currently_configured_one")
}

// H_C27_settingHistory: every sequence of 2 updates (set peer rate / set default rate / delete peer
// rate; peers A, B; any asset, operation, int64 value) applied through the Setting API to an empty
// store leaves all 12 readable cells equal to the specification map (set overwrites, delete falls
// back to the default chain, keys do not interfere).  Bounds: 2 steps, 2 peers.  The store's
// persistence (bbolt) is outside; natively the real store is used.
// zzverif:also C12
func H_C27_settingHistory() { vHistory(2) }

// H_C27_T_settingHistory3: the same for 3 steps.
func H_C27_T_settingHistory3() { vHistory(3) }
