//go:build verif

package onchain

import (
	"bytes"
	"crypto/sha256"
	"encoding/hex"
	"errors"
	"io"

	"github.com/btcsuite/btcd/chaincfg"
	"github.com/btcsuite/btcd/chaincfg/chainhash"
	"github.com/btcsuite/btcd/wire"
	"github.com/elementsproject/peerswap/swap"
	"github.com/elementsproject/peerswap/zzverif"
)

// ---------------------------------------------------------------------------------------
// C01 obligation 3 — Bitcoin validator (BitcoinOnChain.ValidateTx, GetOutputScript,
// ParamsToTxScript; GetVoutAndVerify for C08's Bitcoin tail).
//
// The transaction parser is outside: (*wire.MsgTx).Deserialize is replaced (symbolic side only)
// by vBtcDeserialize, which fills the message with the outputs the harness drew, or fails.
// Natively the harness serialises a real wire.MsgTx with the same outputs (one dummy input) and
// the real parser reads it back, so every witness runs through the real code.
// A transaction: n in 0..4 outputs; each output has an arbitrary int64 value and a script that is
// either exactly the expected output script or arbitrary bytes different from it (the two cases
// together are all byte strings; the split keeps native runs faithful although SHA-256 is an
// uninterpreted function for the solver).
// Expected output script for (taker, maker, hash): 0x00 0x20 || SHA256(GetOpeningTxScript(taker,
// maker, hash, 1008)); the byte-level content of that script is C02's subject.
// Trusted: hex decoding (engine model), SHA-256 (uninterpreted), btcutil's witness-script-hash
// address (ScriptAddress = the 32-byte program), the txscript builder (executed from source).
// ---------------------------------------------------------------------------------------

type vBtcOut struct {
	value  int64
	script []byte
}

var (
	vBtcOutputs    []vBtcOut
	vBtcParseFails bool
	vBtcParses     int
)

// vBtcDeserialize stands for (*wire.MsgTx).Deserialize on the symbolic side.
func vBtcDeserialize(msg *wire.MsgTx, r io.Reader) error {
	vBtcParses++
	if vBtcParseFails {
		return errors.New("unexpected EOF")
	}
	msg.TxOut = nil
	for _, o := range vBtcOutputs {
		msg.TxOut = append(msg.TxOut, &wire.TxOut{Value: o.value, PkScript: o.script})
	}
	return nil
}

// vBtcExpectedScript is the specification of the opening output script.
func vBtcExpectedScript(p *swap.OpeningParams) []byte {
	taker, _ := hex.DecodeString(p.TakerPubkey)
	maker, _ := hex.DecodeString(p.MakerPubkey)
	hash, _ := hex.DecodeString(p.ClaimPaymentHash)
	redeem, err := GetOpeningTxScript(taker, maker, hash, 1008)
	if err != nil {
		zzverif.Fail("script construction failed")
	}
	prog := sha256.Sum256(redeem)
	return append([]byte{0x00, 0x20}, prog[:]...)
}

// vBtcDrawParams draws the taker's view of the swap: arbitrary 33-byte keys, 32-byte hash, amount
// and CSV field (the Bitcoin validator must use 1008 whatever the field says).
func vBtcDrawParams() *swap.OpeningParams {
	return &swap.OpeningParams{
		TakerPubkey:      hex.EncodeToString(zzverif.Bytes("taker", 33)),
		MakerPubkey:      hex.EncodeToString(zzverif.Bytes("maker", 33)),
		ClaimPaymentHash: hex.EncodeToString(zzverif.Bytes("hash", 32)),
		Amount:           zzverif.U64("amount"),
		CSV:              zzverif.U32("csv_field"),
	}
}

// vBtcDrawTx draws a transaction (or a malformed one) and returns its hex.
func vBtcDrawTx(expected []byte) string {
	vBtcOutputs = nil
	vBtcParses = 0
	vBtcParseFails = zzverif.Bool("tx.malformed")
	if vBtcParseFails {
		if zzverif.Symbolic() {
			zzverif.Override("(*github.com/btcsuite/btcd/wire.MsgTx).Deserialize", vBtcDeserialize)
		}
		return "00" // valid hex, not a transaction
	}
	n := zzverif.Choice("tx.n", 5)
	for i := 0; i < n; i++ {
		o := vBtcOut{value: zzverif.I64("out.value")}
		if zzverif.Choice("out.kind", 2) == 0 {
			o.script = expected
		} else {
			o.script = zzverif.Bytes("out.script", -1)
			zzverif.Assume(!bytes.Equal(o.script, expected))
		}
		vBtcOutputs = append(vBtcOutputs, o)
	}
	if zzverif.Symbolic() {
		zzverif.Override("(*github.com/btcsuite/btcd/wire.MsgTx).Deserialize", vBtcDeserialize)
		return "00"
	}
	tx := wire.NewMsgTx(2)
	tx.AddTxIn(wire.NewTxIn(wire.NewOutPoint(&chainhash.Hash{}, 0), nil, nil))
	for _, o := range vBtcOutputs {
		tx.AddTxOut(wire.NewTxOut(o.value, o.script))
	}
	var buf bytes.Buffer
	if err := tx.Serialize(&buf); err != nil {
		panic(err)
	}
	return hex.EncodeToString(buf.Bytes())
}

// vBtcChain: the only field the adapter's address construction reads is the segwit HRP.  (A
// harness-made value instead of &chaincfg.RegressionNetParams: a global of a package that is not
// executed is havocked by the engine, which forks on each of its pointer fields.)
func vBtcChain() *chaincfg.Params {
	return &chaincfg.Params{Name: "regtest", Bech32HRPSegwit: "bcrt"}
}

// vBtcFirstMatch: index of the first output whose value equals the amount, -1 if none.
func vBtcFirstMatch(amount uint64) int {
	for i, o := range vBtcOutputs {
		if o.value == int64(amount) {
			return i
		}
	}
	return -1
}

// H_C01_btcValidateTx: ValidateTx = (true, nil) implies an output i with Value = Amount and
// PkScript = expected script; exactly: the verdict is true iff the transaction parses and the
// FIRST output whose value equals the amount carries the expected script (a later such output is
// ignored: rejection, never acceptance).  A verdict true always comes with a nil error; a parse
// failure gives (false, error).  GetOutputScript(params) is the expected script.  n <= 4 outputs.
func H_C01_btcValidateTx() {
	zzverif.Unwind(8)
	p := vBtcDrawParams()
	b := NewBitcoinOnChain(nil, 0, 0, vBtcChain())
	expected := vBtcExpectedScript(p)
	txHex := vBtcDrawTx(expected)

	ok, err := b.ValidateTx(p, txHex)

	if vBtcParseFails {
		zzverif.Assert(!ok && err != nil, "C01.btc_malformed_rejected")
		return
	}
	k := vBtcFirstMatch(p.Amount)
	if ok {
		zzverif.Assert(err == nil, "C01.btc_true_has_no_error")
		zzverif.Assert(k >= 0, "C01.btc_accept_needs_amount_output")
		if k >= 0 {
			zzverif.Assert(bytes.Equal(vBtcOutputs[k].script, expected), "C01.btc_accept_needs_expected_script")
		}
	} else {
		zzverif.Assert(k < 0 || !bytes.Equal(vBtcOutputs[k].script, expected), "C01.btc_reject_only_without_valid_first_match")
	}
	got, gerr := b.GetOutputScript(p)
	zzverif.Assert(gerr == nil && bytes.Equal(got, expected), "C01.btc_output_script_is_expected")
}

// H_C08_btcGetVoutAndVerify: the Bitcoin adapters' tail: GetVoutAndVerify = (true, v, nil) implies
// output v has Value = Amount and the expected script, v is the first output with that value, and
// the verdict agrees with ValidateTx.  n <= 4 outputs.
func H_C08_btcGetVoutAndVerify() {
	zzverif.Unwind(8)
	p := vBtcDrawParams()
	b := NewBitcoinOnChain(nil, 0, 0, vBtcChain())
	expected := vBtcExpectedScript(p)
	txHex := vBtcDrawTx(expected)

	ok, vout, err := b.GetVoutAndVerify(txHex, p)

	if vBtcParseFails {
		zzverif.Assert(!ok && err != nil, "C08.btc_malformed_rejected")
		return
	}
	k := vBtcFirstMatch(p.Amount)
	if ok {
		zzverif.Assert(err == nil, "C08.btc_true_has_no_error")
		zzverif.Assert(k >= 0 && int(vout) == k, "C08.btc_vout_is_first_amount_output")
		if k >= 0 {
			zzverif.Assert(bytes.Equal(vBtcOutputs[k].script, expected), "C08.btc_vout_pays_swap_script")
		}
	} else {
		zzverif.Assert(k < 0 || !bytes.Equal(vBtcOutputs[k].script, expected), "C08.btc_reject_only_without_valid_first_match")
	}
	ok2, _ := b.ValidateTx(p, txHex)
	zzverif.Assert(ok2 == ok, "C08.btc_verdict_agrees_with_validatetx")
}

// ---------------------------------------------------------------------------------------
// Script classes.  The entries above draw an output script either as the expected script or as
// one opaque byte string; code that *parses* a script (btcd's tokenizer indexes a 256-entry
// opcode table with the script bytes) cannot run on an opaque string.  The entries below decide
// the same obligation with scripts drawn from concrete-structured classes so that txscript's
// helpers execute on concrete opcode bytes.  The swap keys and payment hash are fixed (two
// concrete 33-byte keys, one 32-byte hash: the byte-level script content is C02's subject and
// arbitrary keys are covered by H_C01_btcValidateTx); SHA-256 of a constant is computed by the
// engine, so the expected script 0x00 0x20 <H> is the same concrete value symbolically and
// natively, and every variant is derived from its bytes:
//
//	exact         0x00 0x20 <H>
//	otherVersion  OP_v 0x20 <H>           v in 1..16: right program, wrong witness version
//	otherProgram  0x00 0x20 <P>           P = H with its first, a middle or its last byte inverted
//	p2wpkh        0x00 0x14 <K>           K = first or last 20 bytes of H
//	nonWitness    OP_DUP OP_HASH160 0x14 <K> OP_EQUALVERIFY OP_CHECKSIG, or <H> alone (33-byte push)
//	empty         (no bytes)
//
// Symbolic: Amount, the CSV field, the number of outputs, every output value (any int64), the
// class and variant of every output.
// ---------------------------------------------------------------------------------------

const (
	vScExact = iota
	vScOtherVersion
	vScOtherProgram
	vScP2WPKH
	vScNonWitness
	vScEmpty
	vScClasses
)

func vBtcFixedParams() *swap.OpeningParams {
	return &swap.OpeningParams{
		TakerPubkey:      "02752e1beeeeb6472959117a0aa5d172900680c033ddf86b1a8318311e2b10223f",
		MakerPubkey:      "02c30ff537639962f493d326a77f1c6cb591ee3d21ca8d89194bb69cb288f497e8",
		ClaimPaymentHash: "b94f26d422d5ce3a1e65dd4abb398d0d369aefe8f71d112c5591aa45eea1e75c",
		Amount:           zzverif.U64("amount"),
		CSV:              zzverif.U32("csv_field"),
	}
}

func vBtcCopy(b []byte) []byte { return append([]byte(nil), b...) }

// vBtcClassScript builds a script of the given class from the bytes of the expected script.
// With rich=false only the first variant choices are drawn (fewer shapes for the quick tier).
func vBtcClassScript(class int, expected []byte, versions []byte, rich bool) []byte {
	h := expected[2:34]
	switch class {
	case vScExact:
		return vBtcCopy(expected)
	case vScOtherVersion:
		s := vBtcCopy(expected)
		s[0] = versions[zzverif.Choice("out.version", len(versions))]
		return s
	case vScOtherProgram:
		s := vBtcCopy(expected)
		flips := []int{2, 33, 17}
		if !rich {
			flips = flips[:2]
		}
		s[flips[zzverif.Choice("out.flip", len(flips))]] ^= 0xff
		return s
	case vScP2WPKH:
		k := h[:20]
		if rich && zzverif.Bool("out.keyhash_tail") {
			k = h[12:]
		}
		return append([]byte{0x00, 0x14}, k...)
	case vScNonWitness:
		if rich && zzverif.Bool("out.bare_push") {
			return append([]byte{0x20}, h...)
		}
		s := append([]byte{0x76, 0xa9, 0x14}, h[:20]...)
		return append(s, 0x88, 0xac)
	}
	return []byte{}
}

// vBtcDrawClassTx draws a well-formed transaction of 0..maxOut outputs with class scripts.
func vBtcDrawClassTx(expected []byte, maxOut int, versions []byte, rich bool) string {
	vBtcOutputs = nil
	vBtcParseFails = false
	if len(expected) != 34 {
		zzverif.Fail("expected script is not 34 bytes")
	}
	n := zzverif.Choice("tx.n", maxOut+1)
	for i := 0; i < n; i++ {
		o := vBtcOut{value: zzverif.I64("out.value")}
		o.script = vBtcClassScript(zzverif.Choice("out.class", vScClasses), expected, versions, rich)
		vBtcOutputs = append(vBtcOutputs, o)
	}
	if zzverif.Symbolic() {
		zzverif.Override("(*github.com/btcsuite/btcd/wire.MsgTx).Deserialize", vBtcDeserialize)
		return "00"
	}
	tx := wire.NewMsgTx(2)
	tx.AddTxIn(wire.NewTxIn(wire.NewOutPoint(&chainhash.Hash{}, 0), nil, nil))
	for _, o := range vBtcOutputs {
		tx.AddTxOut(wire.NewTxOut(o.value, o.script))
	}
	var buf bytes.Buffer
	if err := tx.Serialize(&buf); err != nil {
		panic(err)
	}
	return hex.EncodeToString(buf.Bytes())
}

func vBtcValidateClasses(maxOut int, versions []byte, rich bool) {
	zzverif.Unwind(64)
	p := vBtcFixedParams()
	b := NewBitcoinOnChain(nil, 0, 0, vBtcChain())
	expected := vBtcExpectedScript(p)
	txHex := vBtcDrawClassTx(expected, maxOut, versions, rich)

	ok, err := b.ValidateTx(p, txHex)

	if !ok {
		zzverif.Reach("C01.btc_classes_reject")
		return
	}
	zzverif.Assert(err == nil, "C01.btc_classes_true_has_no_error")
	found := false
	for _, o := range vBtcOutputs {
		if o.value == int64(p.Amount) && bytes.Equal(o.script, expected) {
			found = true
			break
		}
	}
	zzverif.Assert(found, "C01.btc_classes_accept_needs_amount_and_exact_script")
}

// H_C01_btcValidateTx_scriptClasses: ValidateTx = (true, nil) implies some output has Value =
// Amount and PkScript exactly equal to the expected script, over transactions of 0..3 outputs
// whose scripts are drawn from the classes above, each class at any position, any int64 value per
// output.  Quick-tier variants: witness versions 1 and 16, first/last program byte inverted, one
// p2wpkh and one non-witness form (8 shapes per output); every version 1..16 and all variants:
// H_C01_T_btcValidateTx_scriptClassesAllVersions.
func H_C01_btcValidateTx_scriptClasses() {
	vBtcValidateClasses(3, []byte{0x51, 0x60}, false)
}

// H_C01_T_btcValidateTx_scriptClassesAllVersions: the same with every witness version OP_1..OP_16
// and all variants (25 shapes per output), 0..2 outputs.
func H_C01_T_btcValidateTx_scriptClassesAllVersions() {
	vBtcValidateClasses(2, []byte{0x51, 0x52, 0x53, 0x54, 0x55, 0x56, 0x57, 0x58, 0x59, 0x5a, 0x5b, 0x5c, 0x5d, 0x5e, 0x5f, 0x60}, true)
}
