//go:build verif

package onchain

import (
	"bytes"
	"crypto/sha256"
	"encoding/hex"
	"errors"
	"io"

	"github.com/btcsuite/btcd/chaincfg"
	"github.com/btcsuite/btcd/chaincfg/chainhash"
	"github.com/btcsuite/btcd/wire"
	"github.com/elementsproject/peerswap/swap"
	"github.com/elementsproject/peerswap/zzverif"
)

// ---------------------------------------------------------------------------------------
// C01 obligation 3 — Bitcoin validator (BitcoinOnChain.ValidateTx, GetOutputScript,
// ParamsToTxScript; GetVoutAndVerify for C08's Bitcoin tail).
//
// The transaction parser is outside: (*wire.MsgTx).Deserialize is replaced (symbolic side only)
// by vBtcDeserialize, which fills the message with the outputs the harness drew, or fails.
// Natively the harness serialises a real wire.MsgTx with the same outputs (one dummy input) and
// the real parser reads it back, so every witness runs through the real code.
// A transaction: n in 0..4 outputs; each output has an arbitrary int64 value and a script that is
// either exactly the expected output script or arbitrary bytes different from it (the two cases
// together are all byte strings; the split keeps native runs faithful although SHA-256 is an
// uninterpreted function for the solver).
// Expected output script for (taker, maker, hash): 0x00 0x20 || SHA256(GetOpeningTxScript(taker,
// maker, hash, 1008)); the byte-level content of that script is C02's subject.
// Trusted: hex decoding (engine model), SHA-256 (uninterpreted), btcutil's witness-script-hash
// address (ScriptAddress = the 32-byte program), the txscript builder (executed from source).
// ---------------------------------------------------------------------------------------

type vBtcOut struct {
	value  int64
	script []byte
}

var (
	vBtcOutputs    []vBtcOut
	vBtcParseFails bool
	vBtcParses     int
)

// vBtcDeserialize stands for (*wire.MsgTx).Deserialize on the symbolic side.
func vBtcDeserialize(msg *wire.MsgTx, r io.Reader) error {
	vBtcParses++
	if vBtcParseFails {
		return errors.New("unexpected EOF")
	}
	msg.TxOut = nil
	for _, o := range vBtcOutputs {
		msg.TxOut = append(msg.TxOut, &wire.TxOut{Value: o.value, PkScript: o.script})
	}
	return nil
}

// vBtcExpectedScript is the specification of the opening output script.
func vBtcExpectedScript(p *swap.OpeningParams) []byte {
	taker, _ := hex.DecodeString(p.TakerPubkey)
	maker, _ := hex.DecodeString(p.MakerPubkey)
	hash, _ := hex.DecodeString(p.ClaimPaymentHash)
	redeem, err := GetOpeningTxScript(taker, maker, hash, 1008)
	if err != nil {
		zzverif.Fail("script construction failed")
	}
	prog := sha256.Sum256(redeem)
	return append([]byte{0x00, 0x20}, prog[:]...)
}

// vBtcDrawParams draws the taker's view of the swap: arbitrary 33-byte keys, 32-byte hash, amount
// and CSV field (the Bitcoin validator must use 1008 whatever the field says).
func vBtcDrawParams() *swap.OpeningParams {
	return &swap.OpeningParams{
		TakerPubkey:      hex.EncodeToString(zzverif.Bytes("taker", 33)),
		MakerPubkey:      hex.EncodeToString(zzverif.Bytes("maker", 33)),
		ClaimPaymentHash: hex.EncodeToString(zzverif.Bytes("hash", 32)),
		Amount:           zzverif.U64("amount"),
		CSV:              zzverif.U32("csv_field"),
	}
}

// vBtcDrawTx draws a transaction (or a malformed one) and returns its hex.
func vBtcDrawTx(expected []byte) string {
	vBtcOutputs = nil
	vBtcParses = 0
	vBtcParseFails = zzverif.Bool("tx.malformed")
	if vBtcParseFails {
		if zzverif.Symbolic() {
			zzverif.Override("(*github.com/btcsuite/btcd/wire.MsgTx).Deserialize", vBtcDeserialize)
		}
		return "00" // valid hex, not a transaction
	}
	n := zzverif.Choice("tx.n", 5)
	for i := 0; i < n; i++ {
		o := vBtcOut{value: zzverif.I64("out.value")}
		if zzverif.Choice("out.kind", 2) == 0 {
			o.script = expected
		} else {
			o.script = zzverif.Bytes("out.script", -1)
			zzverif.Assume(!bytes.Equal(o.script, expected))
		}
		vBtcOutputs = append(vBtcOutputs, o)
	}
	if zzverif.Symbolic() {
		zzverif.Override("(*github.com/btcsuite/btcd/wire.MsgTx).Deserialize", vBtcDeserialize)
		return "00"
	}
	tx := wire.NewMsgTx(2)
	tx.AddTxIn(wire.NewTxIn(wire.NewOutPoint(&chainhash.Hash{}, 0), nil, nil))
	for _, o := range vBtcOutputs {
		tx.AddTxOut(wire.NewTxOut(o.value, o.script))
	}
	var buf bytes.Buffer
	if err := tx.Serialize(&buf); err != nil {
		panic(err)
	}
	return hex.EncodeToString(buf.Bytes())
}

// vBtcFirstMatch: index of the first output whose value equals the amount, -1 if none.
func vBtcFirstMatch(amount uint64) int {
	for i, o := range vBtcOutputs {
		if o.value == int64(amount) {
			return i
		}
	}
	return -1
}

// H_C01_btcValidateTx: ValidateTx = (true, nil) implies an output i with Value = Amount and
// PkScript = expected script; exactly: the verdict is true iff the transaction parses and the
// FIRST output whose value equals the amount carries the expected script (a later such output is
// ignored: rejection, never acceptance).  A verdict true always comes with a nil error; a parse
// failure gives (false, error).  GetOutputScript(params) is the expected script.  n <= 4 outputs.
func H_C01_btcValidateTx() {
	zzverif.Unwind(8)
	p := vBtcDrawParams()
	b := NewBitcoinOnChain(nil, 0, 0, &chaincfg.RegressionNetParams)
	expected := vBtcExpectedScript(p)
	txHex := vBtcDrawTx(expected)

	ok, err := b.ValidateTx(p, txHex)

	if vBtcParseFails {
		zzverif.Assert(!ok && err != nil, "C01.btc_malformed_rejected")
		return
	}
	k := vBtcFirstMatch(p.Amount)
	if ok {
		zzverif.Assert(err == nil, "C01.btc_true_has_no_error")
		zzverif.Assert(k >= 0, "C01.btc_accept_needs_amount_output")
		if k >= 0 {
			zzverif.Assert(bytes.Equal(vBtcOutputs[k].script, expected), "C01.btc_accept_needs_expected_script")
		}
	} else {
		zzverif.Assert(k < 0 || !bytes.Equal(vBtcOutputs[k].script, expected), "C01.btc_reject_only_without_valid_first_match")
	}
	got, gerr := b.GetOutputScript(p)
	zzverif.Assert(gerr == nil && bytes.Equal(got, expected), "C01.btc_output_script_is_expected")
}

// H_C08_btcGetVoutAndVerify: the Bitcoin adapters' tail: GetVoutAndVerify = (true, v, nil) implies
// output v has Value = Amount and the expected script, v is the first output with that value, and
// the verdict agrees with ValidateTx.  n <= 4 outputs.
func H_C08_btcGetVoutAndVerify() {
	zzverif.Unwind(8)
	p := vBtcDrawParams()
	b := NewBitcoinOnChain(nil, 0, 0, &chaincfg.RegressionNetParams)
	expected := vBtcExpectedScript(p)
	txHex := vBtcDrawTx(expected)

	ok, vout, err := b.GetVoutAndVerify(txHex, p)

	if vBtcParseFails {
		zzverif.Assert(!ok && err != nil, "C08.btc_malformed_rejected")
		return
	}
	k := vBtcFirstMatch(p.Amount)
	if ok {
		zzverif.Assert(err == nil, "C08.btc_true_has_no_error")
		zzverif.Assert(k >= 0 && int(vout) == k, "C08.btc_vout_is_first_amount_output")
		if k >= 0 {
			zzverif.Assert(bytes.Equal(vBtcOutputs[k].script, expected), "C08.btc_vout_pays_swap_script")
		}
	} else {
		zzverif.Assert(k < 0 || !bytes.Equal(vBtcOutputs[k].script, expected), "C08.btc_reject_only_without_valid_first_match")
	}
	ok2, _ := b.ValidateTx(p, txHex)
	zzverif.Assert(ok2 == ok, "C08.btc_verdict_agrees_with_validatetx")
}
