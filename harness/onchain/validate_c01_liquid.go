//go:build verif

package onchain

import (
	"bytes"
	"crypto/sha256"
	"encoding/hex"
	"errors"
	"strconv"

	"github.com/btcsuite/btcd/btcec/v2"
	"github.com/elementsproject/peerswap/swap"
	"github.com/elementsproject/peerswap/zzverif"
	"github.com/vulpemventures/go-elements/confidential"
	"github.com/vulpemventures/go-elements/elementsutil"
	"github.com/vulpemventures/go-elements/network"
	"github.com/vulpemventures/go-elements/payment"
	"github.com/vulpemventures/go-elements/transaction"
	secp256k1 "github.com/vulpemventures/go-secp256k1-zkp"
)

// ---------------------------------------------------------------------------------------
// Liquid environment shared by C01 obligation 4 (validator) and C08 (opening transaction).
//
// go-elements is not executed.  On the symbolic side the following library functions are
// replaced by the stubs below (zzverif.Override); natively the real library runs on real objects
// that the harness builds from the same draws.
//
//	transaction.NewTxFromHex        -> the transaction object the harness drew, or an error
//	(*TxOutput).IsConfidential      -> len(Nonce) > 1 (its definition)
//	confidential.UnblindOutputWithKey -> with the announced blinding key: per output either an
//	                                   error or (asset, abf, value, vbf); explicit outputs:
//	                                   asset = Asset[1:], the encoded value, zero factors (what the
//	                                   library does); confidential outputs: four arbitrary values
//	                                   (the range-proof message is chosen by the sender) or an error;
//	                                   with any other key: an error
//	confidential.AssetCommitment    -> uninterpreted function of (asset, abf)
//	payment.FromScript / WitnessScriptHash / ConfidentialWitnessScriptHash / address.ToOutputScript
//	                                -> addresses are uninterpreted strings of (hrp, [blinding key,]
//	                                   program); ToOutputScript(address) gives back 0x00 0x20 || program
//	                                   (bech32/blech32 encode-decode round trip: trusted)
//	elementsutil.ReverseBytes       -> in NewLiquidOnChain: the policy asset bytes the harness drew
//
// Trusted (outside): range-proof rewinding, Pedersen commitments (binding), bech32, SHA-256,
// the go-elements parser/serialiser.
// ---------------------------------------------------------------------------------------

const (
	vLqExplicit  = 0 // unconfidential output
	vLqRewinds   = 1 // confidential, range proof rewinds with the announced key
	vLqNoRewind  = 2 // confidential, range proof does not rewind (unblinding fails)
	vLqMaxOutput = 4
)

type vLqOut struct {
	kind   int
	isSwap bool // script = expected opening script
	out    *transaction.TxOutput
	// what unblinding with the announced key discloses (kind 0/1)
	asset, abf, vbf []byte
	value           uint64
	honest          bool // kind 1: Asset field = AssetCommitment(asset, abf)
}

type vLqAddr struct {
	addr   string
	script []byte
}

var (
	vLqOuts       []*vLqOut
	vLqTx         *transaction.Transaction
	vLqTxHex      string
	vLqParseFails bool
	vLqKey        []byte // serialisation of the announced blinding key
	vLqAddrs      []vLqAddr
	vLqAssetBody  []byte // policy asset without the 0x01 prefix
	vLqNet        *network.Network
)

// ---- symbolic-side stubs ----

func vLqReverseBytes(b []byte) []byte { return vLqAssetBody }

func vLqFromScript(script []byte, net *network.Network, blindingKey *btcec.PublicKey) (*payment.Payment, error) {
	if len(script) != 34 {
		// every caller in package onchain passes 0x00 0x20 || 32-byte program
		zzverif.Fail("payment.FromScript: the stub models p2wsh scripts only")
	}
	return &payment.Payment{WitnessHash: script[2:], WitnessScript: script, Network: net, BlindingKey: blindingKey}, nil
}

func vLqWitnessScriptHash(p *payment.Payment) (string, error) {
	addr := zzverif.UFStr("bech32", p.Network.Bech32, p.WitnessHash)
	vLqAddrs = append(vLqAddrs, vLqAddr{addr, p.WitnessScript})
	return addr, nil
}

func vLqConfidentialWitnessScriptHash(p *payment.Payment) (string, error) {
	addr := zzverif.UFStr("blech32", p.Network.Blech32, p.BlindingKey.SerializeCompressed(), p.WitnessHash)
	vLqAddrs = append(vLqAddrs, vLqAddr{addr, p.WitnessScript})
	return addr, nil
}

func vLqToOutputScript(addr string) ([]byte, error) {
	for i := len(vLqAddrs) - 1; i >= 0; i-- {
		if vLqAddrs[i].addr == addr {
			return vLqAddrs[i].script, nil
		}
	}
	return nil, errors.New("unknown address")
}

func vLqNewTxFromHex(str string) (*transaction.Transaction, error) {
	if vLqParseFails {
		return nil, errors.New("malformed transaction")
	}
	if str != vLqTxHex {
		zzverif.Fail("NewTxFromHex on a transaction the harness did not draw")
	}
	return vLqTx, nil
}

func vLqIsConfidential(out *transaction.TxOutput) bool { return len(out.Nonce) > 1 }

func vLqUnblind(out *transaction.TxOutput, blindKey []byte) (*confidential.UnblindOutputResult, error) {
	for _, o := range vLqOuts {
		if o.out != out {
			continue
		}
		if o.kind == vLqExplicit {
			return &confidential.UnblindOutputResult{Value: o.value, Asset: out.Asset[1:],
				ValueBlindingFactor: confidential.Zero, AssetBlindingFactor: confidential.Zero}, nil
		}
		if o.kind == vLqNoRewind || !bytes.Equal(blindKey, vLqKey) {
			return nil, errors.New("range proof does not rewind")
		}
		return &confidential.UnblindOutputResult{Value: o.value, Asset: o.asset,
			ValueBlindingFactor: o.vbf, AssetBlindingFactor: o.abf}, nil
	}
	zzverif.Fail("UnblindOutputWithKey on an output the harness did not draw")
	return nil, nil
}

func vLqAssetCommitment(asset, factor []byte) ([]byte, error) {
	return []byte(zzverif.UFStr("assetcommitment", asset, factor)), nil
}

func vLqInstall() {
	if !zzverif.Symbolic() {
		return
	}
	zzverif.Override("github.com/vulpemventures/go-elements/elementsutil.ReverseBytes", vLqReverseBytes)
	zzverif.Override("github.com/vulpemventures/go-elements/payment.FromScript", vLqFromScript)
	zzverif.Override("(*github.com/vulpemventures/go-elements/payment.Payment).WitnessScriptHash", vLqWitnessScriptHash)
	zzverif.Override("(*github.com/vulpemventures/go-elements/payment.Payment).ConfidentialWitnessScriptHash", vLqConfidentialWitnessScriptHash)
	zzverif.Override("github.com/vulpemventures/go-elements/address.ToOutputScript", vLqToOutputScript)
	zzverif.Override("github.com/vulpemventures/go-elements/transaction.NewTxFromHex", vLqNewTxFromHex)
	zzverif.Override("(*github.com/vulpemventures/go-elements/transaction.TxOutput).IsConfidential", vLqIsConfidential)
	zzverif.Override("github.com/vulpemventures/go-elements/confidential.UnblindOutputWithKey", vLqUnblind)
	zzverif.Override("github.com/vulpemventures/go-elements/confidential.AssetCommitment", vLqAssetCommitment)
}

// ---- construction ----

func vLqReset() {
	vLqOuts, vLqTx, vLqTxHex, vLqParseFails, vLqKey, vLqAddrs, vLqAssetBody = nil, nil, "", false, nil, nil, nil
}

// vLqNewChain builds the adapter with the real constructor for a regtest-like network whose policy
// asset is an arbitrary byte string of assetLen bytes (32 on every real network).
func vLqNewChain(w *vLqWallet, assetLen int) *LiquidOnChain {
	// one symbol name per length: the engine states the length of a named byte string as a global
	// axiom, so the same name must never be drawn with two different lengths
	vLqAssetBody = zzverif.Bytes("policy_asset"+strconv.Itoa(assetLen), assetLen)
	id := "00"
	if !zzverif.Symbolic() {
		id = hex.EncodeToString(elementsutil.ReverseBytes(vLqAssetBody))
	}
	vLqNet = &network.Network{Name: "regtest", Bech32: "ert", Blech32: "el", PubKeyHash: 235, ScriptHash: 75,
		Wif: 0xef, Confidential: 4, AssetID: id}
	if w == nil {
		return NewLiquidOnChain(nil, vLqNet)
	}
	return NewLiquidOnChain(w, vLqNet)
}

// vLqDrawParams: the taker's view: arbitrary keys/hash/amount, announced blinding key, CSV 60 or 10080.
func vLqDrawParams() *swap.OpeningParams {
	csv := uint32(LiquidCsv)
	if zzverif.Bool("csv_10080") {
		csv = 10080
	}
	kb := zzverif.Bytes("blinding_key", 32)
	// a secp256k1 secret key is never zero (btcec reduces larger values modulo the group order)
	zzverif.Assume(!bytes.Equal(kb, make([]byte, 32)))
	key, _ := btcec.PrivKeyFromBytes(kb)
	vLqKey = key.Serialize()
	return &swap.OpeningParams{
		TakerPubkey:      hex.EncodeToString(zzverif.Bytes("taker", 33)),
		MakerPubkey:      hex.EncodeToString(zzverif.Bytes("maker", 33)),
		ClaimPaymentHash: hex.EncodeToString(zzverif.Bytes("hash", 32)),
		Amount:           zzverif.U64("amount"),
		CSV:              csv,
		BlindingKey:      key,
	}
}

// vLqExpectedScript: 0x00 0x20 || SHA256(GetOpeningTxScript(taker, maker, hash, CSV)).
func vLqExpectedScript(p *swap.OpeningParams) (redeem, script []byte) {
	taker, _ := hex.DecodeString(p.TakerPubkey)
	maker, _ := hex.DecodeString(p.MakerPubkey)
	hash, _ := hex.DecodeString(p.ClaimPaymentHash)
	redeem, err := GetOpeningTxScript(taker, maker, hash, p.CSV)
	if err != nil {
		zzverif.Fail("script construction failed")
	}
	prog := sha256.Sum256(redeem)
	return redeem, append([]byte{0x00, 0x20}, prog[:]...)
}

// vLqDrawOutput draws one output.  Outputs that do not carry the swap script are explicit (the
// validator never looks at them); an output with the swap script is explicit, confidential with
// an honest or a forged asset commitment, or confidential with a proof that does not rewind.
func vLqDrawOutput(p *swap.OpeningParams, expected []byte) *vLqOut {
	o := &vLqOut{isSwap: zzverif.Bool("out.is_swap")}
	script := expected
	if !o.isSwap {
		script = zzverif.Bytes("out.script", -1)
		zzverif.Assume(!bytes.Equal(script, expected))
	} else {
		o.kind = zzverif.Choice("out.kind", 3)
	}
	o.asset = zzverif.Bytes("out.asset", 32)
	o.value = zzverif.U64("out.value")
	if o.kind == vLqExplicit {
		var val []byte
		if zzverif.Symbolic() {
			val = zzverif.Bytes("out.value_bytes", 9)
		} else {
			zzverif.Bytes("out.value_bytes", 9)
			val, _ = elementsutil.ValueToBytes(o.value)
		}
		o.out = &transaction.TxOutput{Asset: append([]byte{0x01}, o.asset...), Value: val, Script: script, Nonce: []byte{0x00}}
		return o
	}
	o.abf = zzverif.Bytes("out.abf", 32)
	o.vbf = zzverif.Bytes("out.vbf", 32) // disclosed value blinding factor: nothing depends on it
	o.honest = zzverif.Bool("out.honest_commitment")
	casset, cabf := o.asset, o.abf
	if !o.honest {
		casset, cabf = zzverif.Bytes("out.committed_asset", 32), zzverif.Bytes("out.committed_abf", 32)
	}
	commit, err := confidential.AssetCommitment(casset, cabf)
	if err != nil {
		zzverif.Assume(false) // not a valid scalar: outside the drawn space
	}
	if !o.honest {
		// Pedersen commitments are binding: a different opening gives a different commitment
		honest, herr := confidential.AssetCommitment(o.asset, o.abf)
		zzverif.Assume(herr == nil && !bytes.Equal(honest, commit))
	}
	if zzverif.Symbolic() {
		o.out = &transaction.TxOutput{Asset: commit, Value: zzverif.Bytes("out.value_commitment", 33), Script: script,
			Nonce: zzverif.Bytes("out.nonce", 33), RangeProof: zzverif.Bytes("out.rangeproof", -1)}
		return o
	}
	zzverif.Bytes("out.value_commitment", 33)
	zzverif.Bytes("out.nonce", 33)
	zzverif.Bytes("out.rangeproof", -1)
	o.out = vLqNativeConfidential(p, o, commit, script)
	return o
}

// vLqNativeConfidential builds a real blinded output whose range proof discloses (asset, abf,
// value) to the holder of the announced blinding key (or, for vLqNoRewind, to a different key).
func vLqNativeConfidential(p *swap.OpeningParams, o *vLqOut, assetCommitment, script []byte) *transaction.TxOutput {
	vbf := make([]byte, 32)
	vbf[31] = 4
	valueCommitment, err := confidential.ValueCommitment(o.value, assetCommitment, vbf)
	if err != nil {
		panic(err)
	}
	ephemeral, _ := btcec.PrivKeyFromBytes(bytes.Repeat([]byte{0x11}, 32))
	blindPub := p.BlindingKey.PubKey()
	if o.kind == vLqNoRewind {
		other, _ := btcec.PrivKeyFromBytes(bytes.Repeat([]byte{0x22}, 32))
		blindPub = other.PubKey()
	}
	nonce, err := confidential.NonceHash(blindPub.SerializeCompressed(), ephemeral.Serialize())
	if err != nil {
		panic(err)
	}
	ctx, _ := secp256k1.ContextCreate(secp256k1.ContextBoth)
	defer secp256k1.ContextDestroy(ctx)
	commitment, err := secp256k1.CommitmentParse(ctx, valueCommitment)
	if err != nil {
		panic(err)
	}
	generator, err := secp256k1.GeneratorParse(ctx, assetCommitment)
	if err != nil {
		panic(err)
	}
	var vbf32 [32]byte
	copy(vbf32[:], vbf)
	message := append(append([]byte{}, o.asset...), o.abf...)
	proof, err := secp256k1.RangeProofSign(ctx, 0, commitment, vbf32, nonce, 0, 64, o.value, message, script, generator)
	if err != nil {
		panic(err)
	}
	return &transaction.TxOutput{Asset: assetCommitment, Value: valueCommitment, Script: script,
		Nonce: ephemeral.PubKey().SerializeCompressed(), RangeProof: proof}
}

// vLqDrawTx draws a transaction of 1..maxOut outputs (or a malformed one) and returns its hex.
func vLqDrawTx(p *swap.OpeningParams, expected []byte, maxOut int) string {
	vLqParseFails = zzverif.Bool("tx.malformed")
	if vLqParseFails {
		vLqTxHex = "00"
		return vLqTxHex
	}
	n := 1 + zzverif.Choice("tx.n", maxOut)
	tx := &transaction.Transaction{Version: 2}
	for i := 0; i < n; i++ {
		o := vLqDrawOutput(p, expected)
		vLqOuts = append(vLqOuts, o)
		tx.Outputs = append(tx.Outputs, o.out)
	}
	vLqTx = tx
	if zzverif.Symbolic() {
		vLqTxHex = "0200"
		return vLqTxHex
	}
	tx.Inputs = append(tx.Inputs, transaction.NewTxInput(make([]byte, 32), 0))
	h, err := tx.ToHex()
	if err != nil {
		panic(err)
	}
	vLqTxHex = h
	return h
}

// vLqFirstSwap: index of the first output carrying the expected script, -1 if none.
func vLqFirstSwap() int {
	for i, o := range vLqOuts {
		if o.isSwap {
			return i
		}
	}
	return -1
}

// vLqAssertAccepted states what acceptance of output k must imply, through the real library API
// (so the same statements are evaluated natively).
func vLqAssertAccepted(l *LiquidOnChain, p *swap.OpeningParams, expected []byte, k int, prefix string) {
	zzverif.Assert(k >= 0, prefix+"_needs_swap_script_output")
	if k < 0 {
		return
	}
	out := vLqOuts[k].out
	zzverif.Assert(bytes.Equal(out.Script, expected), prefix+"_output_has_expected_script")
	res, err := confidential.UnblindOutputWithKey(out, p.BlindingKey.Serialize())
	zzverif.Assert(err == nil, prefix+"_unblinds_with_announced_key")
	if err != nil {
		return
	}
	zzverif.Assert(len(l.asset) == 33, prefix+"_policy_asset_is_33_bytes")
	zzverif.Assert(bytes.Equal(res.Asset, l.asset[1:]), prefix+"_asset_is_policy_asset")
	zzverif.Assert(res.Value == p.Amount, prefix+"_value_is_amount")
	if !out.IsConfidential() {
		zzverif.Assert(bytes.Equal(out.Asset, append([]byte{0x01}, res.Asset...)), prefix+"_explicit_asset_field")
	} else {
		c, cerr := confidential.AssetCommitment(res.Asset, res.AssetBlindingFactor)
		zzverif.Assert(cerr == nil && bytes.Equal(out.Asset, c), prefix+"_asset_commitment_opens")
	}
}

// H_C01_liquidValidateTx: ValidateTx = (true, nil) implies: the first output carrying the expected
// script (taker, maker, hash, CSV) exists, unblinds with the announced blinding key, discloses the
// policy asset and Amount, and its Asset field is 0x01||asset (explicit) or AssetCommitment(asset,
// abf) (confidential).  A true verdict has a nil error; every rejection carries an error.
// Bounds: 1..3 outputs (1..4 in H_C01_T_liquidValidateTx4); CSV 60 or 10080; policy asset 32
// bytes (other lengths: H_C01_liquidWrongAssetLength).
func H_C01_liquidValidateTx() { vLqValidateTx(3) }

// H_C01_T_liquidValidateTx4: the same with 1..4 outputs.
func H_C01_T_liquidValidateTx4() { vLqValidateTx(vLqMaxOutput) }

func vLqValidateTx(maxOut int) {
	zzverif.Unwind(12)
	vLqReset()
	vLqInstall()
	l := vLqNewChain(nil, 32)
	p := vLqDrawParams()
	_, expected := vLqExpectedScript(p)
	txHex := vLqDrawTx(p, expected, maxOut)

	ok, err := l.ValidateTx(p, txHex)

	if !ok {
		zzverif.Assert(err != nil, "C01.lq_reject_has_error")
		return
	}
	zzverif.Assert(err == nil, "C01.lq_true_has_no_error")
	zzverif.Assert(!vLqParseFails, "C01.lq_accept_needs_parsed_tx")
	vLqAssertAccepted(l, p, expected, vLqFirstSwap(), "C01.lq_accept")
}

// H_C01_liquidWrongAssetLength: a policy asset whose serialisation is not 33 bytes (asset id of 31
// or 33 bytes) makes ValidateTx reject every transaction.  1..2 outputs.
func H_C01_liquidWrongAssetLength() {
	zzverif.Unwind(12)
	vLqReset()
	vLqInstall()
	n := 31
	if zzverif.Bool("asset_33_bytes") {
		n = 33
	}
	l := vLqNewChain(nil, n)
	p := vLqDrawParams()
	_, expected := vLqExpectedScript(p)
	txHex := vLqDrawTx(p, expected, 2)
	ok, err := l.ValidateTx(p, txHex)
	zzverif.Assert(!ok && err != nil, "C01.lq_wrong_asset_length_rejected")
}

// H_C01_liquidFindVout: FindVout returns the index of the first output whose script is the
// expected script and an error when there is none; validateOpeningOutput on that output accepts
// only under the conditions of H_C01_liquidValidateTx.  1..3 outputs.
func H_C01_liquidFindVout() {
	zzverif.Unwind(12)
	vLqReset()
	vLqInstall()
	l := vLqNewChain(nil, 32)
	p := vLqDrawParams()
	redeem, expected := vLqExpectedScript(p)
	vLqDrawTx(p, expected, 3)
	if vLqParseFails {
		return
	}
	k := vLqFirstSwap()
	vout, err := l.FindVout(vLqTx.Outputs, redeem)
	if k < 0 {
		zzverif.Assert(err != nil, "C01.lq_findvout_none")
		return
	}
	zzverif.Assert(err == nil && int(vout) == k, "C01.lq_findvout_first_match")
	res, verr := l.validateOpeningOutput(vLqTx.Outputs[k], p.Amount, p.BlindingKey)
	if verr == nil {
		zzverif.Assert(res != nil && res.Value == p.Amount, "C01.lq_validate_output_value")
		vLqAssertAccepted(l, p, expected, k, "C01.lq_output")
	}
}
