//go:build verif

package onchain

import (
	"bytes"

	"github.com/elementsproject/peerswap/zzverif"
)

// ---------------------------------------------------------------------------------------
// Script model for C02/C03 (DESIGN.md §4.5).
//
// vParseScript parses the byte string produced by the REAL txscript.ScriptBuilder (run
// symbolically through GetOpeningTxScript) into opcodes and pushes; vSpend.run evaluates the
// parsed script with Bitcoin *consensus* semantics for a P2WSH (witness v0) input over a
// symbolic witness stack.  The same code runs natively on concrete bytes (translator
// validation / replay), so nothing here depends on zzverif.Symbolic().
//
// Modelled opcodes (everything else makes vParseScript report !ok and the interpreter stop):
//   data pushes OP_DATA_1..75, OP_0, OP_1NEGATE, OP_1..OP_16, OP_IF, OP_NOTIF, OP_ELSE,
//   OP_ENDIF, OP_VERIFY, OP_DROP, OP_DUP, OP_SIZE, OP_EQUAL, OP_EQUALVERIFY, OP_SHA256,
//   OP_CHECKSIG, OP_CHECKSEQUENCEVERIFY (BIP 68/112).
//
// Uninterpreted parts (assumptions):
//   * CHECKSIG(sig,key) is an oracle: one Bool per (witness item, key in {maker,taker}) drawn
//     by vDrawOracles, constrained only by "empty signature => false"; when the maker and
//     taker key bytes coincide vSig uses one column for both.  Real consensus additionally *aborts* the
//     script for a non-empty signature that is not DER (BIP66); the model lets the script
//     continue with `false`, i.e. it accepts a superset of the real spends (sound for the
//     "only these three paths" direction).  Policy rules (NULLFAIL, MINIMALIF, MINIMALDATA,
//     WITNESS_PUBKEYTYPE, CLEANSTACK-as-policy) are NOT applied: they only remove spends.
//   * SHA256 is an oracle: one Bool per witness item "hashes to the payment hash"; the result
//     of OP_SHA256 is the payment hash itself when the oracle says so and otherwise a fresh
//     32-byte string different from it (functional consistency between equal items is assumed
//     in vSha).  ECDSA / SHA-256 themselves, the sighash and the witness-program commitment
//     SHA256(script) are outside the model.
//   * Elements/Liquid evaluates these opcodes exactly like Bitcoin (Elements only adds opcodes).
// ---------------------------------------------------------------------------------------

const (
	vOP_0                   = 0x00
	vOP_1NEGATE             = 0x4f
	vOP_1                   = 0x51
	vOP_16                  = 0x60
	vOP_IF                  = 0x63
	vOP_NOTIF               = 0x64
	vOP_ELSE                = 0x67
	vOP_ENDIF               = 0x68
	vOP_VERIFY              = 0x69
	vOP_DROP                = 0x75
	vOP_DUP                 = 0x76
	vOP_SIZE                = 0x82
	vOP_EQUAL               = 0x87
	vOP_EQUALVERIFY         = 0x88
	vOP_SHA256              = 0xa8
	vOP_CHECKSIG            = 0xac
	vOP_CHECKSEQUENCEVERIFY = 0xb2

	vSeqDisable = uint32(1) << 31 // SEQUENCE_LOCKTIME_DISABLE_FLAG
	vSeqType    = uint32(1) << 22 // SEQUENCE_LOCKTIME_TYPE_FLAG
	vSeqMask    = uint32(0xffff)  // SEQUENCE_LOCKTIME_MASK

	vMaxElem   = 520 // MAX_SCRIPT_ELEMENT_SIZE, enforced on P2WSH witness items by consensus
	vMaxScript = 10000
)

// vOp is one parsed script operation.
type vOp struct {
	op      byte
	push    bool   // the operation pushes `data`
	data    []byte // pushed bytes
	isNum   bool   // len(data) <= 5: numeric value decoded at parse time
	num     int64
	minimal bool // data is the minimal script-number encoding of num
}

// vNoteLen, vByteAt, vSub: plain Go below; under the symbolic executor they are computed by
// engine/symex/intrinsics_script.go with the SAME meaning (no-op, b[i], b[lo:hi] used read-only)
// but positions inside a byte string assembled from literal bytes and opaque chunks of known
// length are resolved syntactically: a literal script byte is a constant, a whole chunk is the
// chunk's own term.  Without them every opcode comparison is a string-solver query.
func vNoteLen(b []byte)                {}
func vByteAt(b []byte, i int) byte     { return b[i] }
func vSub(b []byte, lo, hi int) []byte { return b[lo:hi] }

// vConcByte returns b; under the symbolic executor the result is a constant whenever the path
// condition determines the byte (always the case for the literal part of a script), which keeps
// the parser's control flow and offsets concrete.  With vByteAt the argument already is a
// constant for builder-made scripts and no decision is taken.
func vConcByte(b byte) byte {
	for k := 0; k < 256; k++ {
		if b == byte(k) {
			return byte(k)
		}
	}
	return 0 // unreachable
}

// vDecodeNum decodes a script number (little endian, sign-magnitude) of at most 5 bytes.
func vDecodeNum(d []byte) (v int64, minimal bool) {
	n := len(d)
	if n == 0 {
		return 0, true
	}
	for k := 0; k < n; k++ {
		v |= int64(d[k]) << uint(8*k)
	}
	last := d[n-1]
	minimal = true
	if last&0x7f == 0 {
		// the top byte carries only the sign: minimal only if the byte below needs bit 7
		if n == 1 || d[n-2]&0x80 == 0 {
			minimal = false
		}
	}
	if last&0x80 != 0 {
		v &^= int64(0x80) << uint(8*(n-1))
		v = -v
	}
	return v, minimal
}

// vParseScript parses a script whose push lengths and opcodes are literal (keys/hash content
// may be symbolic).  ok=false: an opcode outside the model or a truncated push.
func vParseScript(s []byte) (ops []vOp, ok bool) {
	n := len(s)
	if n > vMaxScript {
		return nil, false
	}
	i := 0
	for i < n {
		op := vConcByte(vByteAt(s, i))
		i++
		switch {
		case op >= 1 && op <= 75:
			l := int(op)
			if i+l > n {
				return nil, false
			}
			d := vSub(s, i, i+l)
			i += l
			o := vOp{op: op, push: true, data: d}
			if l <= 5 {
				// small pushes are literal bytes of the builder: make them concrete
				c := make([]byte, l)
				for k := 0; k < l; k++ {
					c[k] = vConcByte(vByteAt(d, k))
				}
				o.data = c
				o.isNum = true
				o.num, o.minimal = vDecodeNum(c)
			}
			ops = append(ops, o)
		case op == vOP_0:
			ops = append(ops, vOp{op: op, push: true, data: []byte{}, isNum: true, num: 0, minimal: true})
		case op == vOP_1NEGATE:
			ops = append(ops, vOp{op: op, push: true, data: []byte{0x81}, isNum: true, num: -1, minimal: true})
		case op >= vOP_1 && op <= vOP_16:
			v := op - (vOP_1 - 1)
			ops = append(ops, vOp{op: op, push: true, data: []byte{v}, isNum: true, num: int64(v), minimal: true})
		case op == vOP_IF, op == vOP_NOTIF, op == vOP_ELSE, op == vOP_ENDIF, op == vOP_VERIFY,
			op == vOP_DROP, op == vOP_DUP, op == vOP_SIZE, op == vOP_EQUAL, op == vOP_EQUALVERIFY,
			op == vOP_SHA256, op == vOP_CHECKSIG, op == vOP_CHECKSEQUENCEVERIFY:
			ops = append(ops, vOp{op: op})
		default:
			return nil, false
		}
	}
	return ops, true
}

// ---------------------------------------------------------------------------------------
// stack elements
// ---------------------------------------------------------------------------------------

const (
	vkData = 0 // byte string `data` (witness item, script push, hash result)
	vkNum  = 1 // minimally encoded script number n >= 0 (result of OP_SIZE)
	vkBool = 2 // result of OP_CHECKSIG / OP_EQUAL: true = {0x01}, false = {}
)

type vElem struct {
	kind    int
	data    []byte
	n       int64
	b       bool
	wit     int  // index of the witness item this element is (a copy of), -1 otherwise
	isNum   bool // kind==vkData with a parse-time decoded number
	num     int64
	minimal bool
}

// vWitness: the witness stack below the witness script plus the oracles about its items.
type vWitness struct {
	items  [][]byte
	sigM   []bool // SigOK(item, maker key)
	sigT   []bool // SigOK(item, taker key)
	hashOK []bool // SHA256(item) == payment hash
	truthy []bool // CastToBool(item)
}

// vSpend is one evaluation of the witness script for a P2WSH input.
type vSpend struct {
	w        *vWitness
	maker    []byte
	taker    []byte
	hash     []byte
	version  int32  // spending transaction nVersion
	sequence uint32 // nSequence of the spending input

	stack []vElem
	// ghost: which witness item established which fact (-1: none).  The soundness entries do not
	// trust these: they re-evaluate the oracles for the recorded items.
	makerItem int    // CHECKSIG(item, key == maker) returned true
	takerItem int    // CHECKSIG(item, key == taker) returned true
	sizedItem int    // SIZE(item) compared equal to the script constant 32
	hashItem  int    // SHA256(item) compared equal to a script constant
	csvActive bool   // a CHECKSEQUENCEVERIFY with an enabled operand was executed and passed
	csvOp     int64  // its operand
	other     bool   // an oracle outside {maker,taker} x {witness items} was consulted
	sigUsed   []int  // witness items consumed as the signature operand of some CHECKSIG
	wrongSha  []byte // native grid runs only: the "some other hash" value (instead of a draw)
	shaIn     [][]byte
	shaOut    [][]byte
}

func vNewSpend(w *vWitness, maker, taker, hash []byte, version int32, sequence uint32) *vSpend {
	return &vSpend{w: w, maker: maker, taker: taker, hash: hash, version: version, sequence: sequence,
		makerItem: -1, takerItem: -1, sizedItem: -1, hashItem: -1}
}

// vDrawWitness draws n arbitrary witness items (any length up to the consensus limit) with
// arbitrary oracle answers.  Draw order is fixed (same natively).
func vDrawWitness(n int) vWitness {
	var w vWitness
	names := [6]string{"w0", "w1", "w2", "w3", "w4", "w5"}
	for i := 0; i < n; i++ {
		it := zzverif.Bytes(names[i], -1)
		zzverif.Assume(len(it) <= vMaxElem)
		w.items = append(w.items, it)
	}
	vDrawOracles(&w)
	return w
}

// vDrawOracles draws the oracle answers for the items already in w.  Branch-free: the drawn
// bit is masked with "item is not empty" (consensus: an empty signature never verifies, an empty
// item is false).  When maker and taker key bytes coincide the lookup in vSig uses the maker
// column for both, so the oracle stays a function of (item, key bytes).
func vDrawOracles(w *vWitness) {
	sm := [6]string{"w0_sig_maker", "w1_sig_maker", "w2_sig_maker", "w3_sig_maker", "w4_sig_maker", "w5_sig_maker"}
	st := [6]string{"w0_sig_taker", "w1_sig_taker", "w2_sig_taker", "w3_sig_taker", "w4_sig_taker", "w5_sig_taker"}
	hs := [6]string{"w0_is_preimage", "w1_is_preimage", "w2_is_preimage", "w3_is_preimage", "w4_is_preimage", "w5_is_preimage"}
	tr := [6]string{"w0_truthy", "w1_truthy", "w2_truthy", "w3_truthy", "w4_truthy", "w5_truthy"}
	for i := 0; i < len(w.items); i++ {
		l := int64(len(w.items[i]))
		nonEmpty := uint8(uint64((l|-l)>>63)) & 1 // 1 iff l != 0
		m := zzverif.U8(sm[i]) & nonEmpty
		t := zzverif.U8(st[i]) & nonEmpty
		h := zzverif.U8(hs[i]) & 1
		c := zzverif.U8(tr[i]) & nonEmpty
		w.sigM = append(w.sigM, m != 0)
		w.sigT = append(w.sigT, t != 0)
		w.hashOK = append(w.hashOK, h != 0)
		w.truthy = append(w.truthy, c != 0)
	}
}

// vSig is the signature oracle SigOK(item i, key): a function of the item and the key bytes.
// other=true: the key is neither the maker's nor the taker's (no oracle column).
func vSig(w *vWitness, i int, key, maker, taker []byte) (ok bool, other bool) {
	if bytes.Equal(key, maker) {
		return w.sigM[i], false
	}
	if bytes.Equal(key, taker) {
		return w.sigT[i], false
	}
	return false, true
}

func (sp *vSpend) push(e vElem) { sp.stack = append(sp.stack, e) }

func (sp *vSpend) pop() (vElem, bool) {
	n := len(sp.stack)
	if n == 0 {
		return vElem{}, false
	}
	e := sp.stack[n-1]
	sp.stack = sp.stack[:n-1]
	return e, true
}

// fresh: an unconstrained answer for a question outside the oracle tables (over-approximation).
func (sp *vSpend) fresh() bool {
	sp.other = true
	return zzverif.Bool("oracle_other")
}

// truth implements CastToBool.
func (sp *vSpend) truth(e vElem) bool {
	switch e.kind {
	case vkBool:
		return e.b
	case vkNum:
		return e.n != 0
	}
	if e.wit >= 0 {
		return sp.w.truthy[e.wit]
	}
	if e.isNum {
		return e.num != 0 // vDecodeNum gives 0 for negative zero as well
	}
	if e.wit <= -2 {
		return sp.fresh() // a hash value: unconstrained
	}
	// longer script push (a key or the hash): any non-zero byte, ignoring a trailing sign bit
	n := len(e.data)
	for k := 0; k < n; k++ {
		c := e.data[k]
		if k == n-1 {
			c &= 0x7f
		}
		if c != 0 {
			return true
		}
	}
	return false
}

// size is the byte length of an element.
func (sp *vSpend) size(e vElem) int64 {
	switch e.kind {
	case vkBool:
		if e.b {
			return 1
		}
		return 0
	case vkNum:
		// length of the minimal encoding of 0 <= n <= 520
		switch {
		case e.n == 0:
			return 0
		case e.n < 0x80:
			return 1
		}
		return 2
	}
	return int64(len(e.data))
}

// equal is byte-wise equality of two elements.
func (sp *vSpend) equal(a, b vElem) bool {
	if a.kind == vkData && b.kind != vkData {
		a, b = b, a
	}
	switch a.kind {
	case vkData:
		return bytes.Equal(a.data, b.data)
	case vkNum:
		switch b.kind {
		case vkNum:
			return a.n == b.n
		case vkBool:
			if b.b {
				return a.n == 1
			}
			return a.n == 0
		}
		// a minimally encoded non-negative number against bytes: equal iff the bytes are the
		// minimal encoding of the same number
		if b.isNum {
			if !b.minimal {
				return false
			}
			return b.num == a.n
		}
		if b.wit < 0 {
			return false // script pushes > 5 bytes / hash values: a number <= 520 has <= 2 bytes
		}
		return sp.fresh() // witness bytes against a computed number: unconstrained
	}
	// a is vkBool
	switch b.kind {
	case vkBool:
		return a.b == b.b
	case vkNum:
		if a.b {
			return b.n == 1
		}
		return b.n == 0
	}
	if b.isNum {
		if !b.minimal {
			return false
		}
		if a.b {
			return b.num == 1
		}
		return b.num == 0
	}
	if b.wit < 0 {
		return false
	}
	return sp.fresh()
}

// sigOK evaluates OP_CHECKSIG through the oracle.
func (sp *vSpend) sigOK(sig, key vElem) bool {
	if key.kind != vkData || sig.kind != vkData {
		// {}, {0x01} and numbers <= 520 are neither a public key nor a signature encoding
		return false
	}
	if sig.wit < 0 {
		return sp.fresh() // a signature taken from the script or a hash value: unconstrained
	}
	sp.sigUsed = append(sp.sigUsed, sig.wit)
	r, other := vSig(sp.w, sig.wit, key.data, sp.maker, sp.taker)
	if other {
		return sp.fresh() // a key that is neither maker nor taker: unconstrained
	}
	if r {
		if bytes.Equal(key.data, sp.maker) {
			sp.makerItem = sig.wit
		}
		if bytes.Equal(key.data, sp.taker) {
			sp.takerItem = sig.wit
		}
	}
	return r
}

// sha evaluates OP_SHA256 through the oracle.
func (sp *vSpend) sha(e vElem) vElem {
	if e.kind != vkData || e.wit < 0 {
		// hash of a script constant or a computed value: some 32 bytes, unconstrained
		sp.other = true
		return vElem{kind: vkData, data: zzverif.Bytes("sha_other", 32), wit: -1}
	}
	var out []byte
	if sp.w.hashOK[e.wit] {
		out = sp.hash
	} else if sp.wrongSha != nil {
		out = sp.wrongSha
	} else {
		out = zzverif.Bytes("sha_out", 32)
		zzverif.Assume(!bytes.Equal(out, sp.hash))
	}
	// SHA256 is a function: equal inputs give equal outputs
	for k := 0; k < len(sp.shaIn); k++ {
		if bytes.Equal(sp.shaIn[k], e.data) {
			zzverif.Assume(bytes.Equal(sp.shaOut[k], out))
		}
	}
	sp.shaIn = append(sp.shaIn, e.data)
	sp.shaOut = append(sp.shaOut, out)
	return vElem{kind: vkData, data: out, wit: -2 - e.wit} // "SHA256 of witness item e.wit"
}

// csv implements OP_CHECKSEQUENCEVERIFY (BIP112) including CheckSequence (BIP68 encoding).
func (sp *vSpend) csv(top vElem) bool {
	var n int64
	switch top.kind {
	case vkNum:
		n = top.n
	case vkBool:
		if top.b {
			n = 1
		}
	default:
		if !top.isNum {
			if top.wit >= 0 {
				// operand taken from the witness: cannot happen in a script whose CSV directly
				// follows a literal push (checked by the binding entry)
				zzverif.Fail("CSV operand from the witness is outside the model")
			}
			return false // more than 5 bytes: script number overflow
		}
		n = top.num
	}
	if n < 0 {
		return false
	}
	if uint64(n)&uint64(vSeqDisable) != 0 {
		return true // disable flag in the operand: behaves as a NOP
	}
	if uint32(sp.version) < 2 {
		return false
	}
	if sp.sequence&vSeqDisable != 0 {
		return false
	}
	mask := vSeqType | vSeqMask
	txM := sp.sequence & mask
	opM := uint32(uint64(n)) & mask
	if txM < vSeqType {
		if opM >= vSeqType {
			return false
		}
	} else if opM < vSeqType {
		return false
	}
	if opM > txM {
		return false
	}
	sp.csvActive = true
	sp.csvOp = n
	return true
}

// run evaluates the witness script; true iff the P2WSH spend is valid: no failing VERIFY,
// balanced conditionals, and afterwards exactly one element on the stack, which is true
// (the clean-stack rule is consensus for witness programs).
func (sp *vSpend) run(ops []vOp) bool {
	sp.stack = nil
	for i := 0; i < len(sp.w.items); i++ {
		sp.push(vElem{kind: vkData, data: sp.w.items[i], wit: i})
	}
	var cond []bool
	for pc := 0; pc < len(ops); pc++ {
		o := ops[pc]
		exec := true
		for k := 0; k < len(cond); k++ {
			if !cond[k] {
				exec = false
			}
		}
		switch o.op {
		case vOP_IF, vOP_NOTIF:
			v := false
			if exec {
				e, ok := sp.pop()
				if !ok {
					return false
				}
				v = sp.truth(e)
				if o.op == vOP_NOTIF {
					v = !v
				}
			}
			cond = append(cond, v)
			continue
		case vOP_ELSE:
			if len(cond) == 0 {
				return false
			}
			cond[len(cond)-1] = !cond[len(cond)-1]
			continue
		case vOP_ENDIF:
			if len(cond) == 0 {
				return false
			}
			cond = cond[:len(cond)-1]
			continue
		}
		if !exec {
			continue
		}
		if o.push {
			sp.push(vElem{kind: vkData, data: o.data, wit: -1, isNum: o.isNum, num: o.num, minimal: o.minimal})
			continue
		}
		switch o.op {
		case vOP_VERIFY:
			e, ok := sp.pop()
			if !ok {
				return false
			}
			if !sp.truth(e) {
				return false
			}
		case vOP_DROP:
			if _, ok := sp.pop(); !ok {
				return false
			}
		case vOP_DUP:
			e, ok := sp.pop()
			if !ok {
				return false
			}
			sp.push(e)
			sp.push(e)
		case vOP_SIZE:
			e, ok := sp.pop()
			if !ok {
				return false
			}
			sp.push(e)
			sz := vElem{kind: vkNum, n: sp.size(e), wit: -1}
			if e.wit >= 0 {
				sz.wit = -2 - e.wit // "size of witness item e.wit"
			}
			sp.push(sz)
		case vOP_EQUAL, vOP_EQUALVERIFY:
			b, ok1 := sp.pop()
			a, ok2 := sp.pop()
			if !ok1 {
				return false
			}
			if !ok2 {
				return false
			}
			eq := sp.equal(a, b)
			if eq {
				sp.note(a, b)
				sp.note(b, a)
			}
			if o.op == vOP_EQUALVERIFY {
				if !eq {
					return false
				}
			} else {
				sp.push(vElem{kind: vkBool, b: eq, wit: -1})
			}
		case vOP_SHA256:
			e, ok := sp.pop()
			if !ok {
				return false
			}
			sp.push(sp.sha(e))
		case vOP_CHECKSIG:
			key, ok1 := sp.pop()
			sig, ok2 := sp.pop()
			if !ok1 {
				return false
			}
			if !ok2 {
				return false
			}
			sp.push(vElem{kind: vkBool, b: sp.sigOK(sig, key), wit: -1})
		case vOP_CHECKSEQUENCEVERIFY:
			n := len(sp.stack)
			if n == 0 {
				return false
			}
			if !sp.csv(sp.stack[n-1]) {
				return false
			}
		default:
			zzverif.Fail("opcode outside the script model")
		}
	}
	if len(cond) != 0 {
		return false // unbalanced conditional
	}
	if len(sp.stack) != 1 {
		return false // clean stack
	}
	return sp.truth(sp.stack[0])
}

// note records ghost facts after a successful equality: `a` is derived from a witness item
// (its size / its hash), `b` is a script constant.
func (sp *vSpend) note(a, b vElem) {
	if a.wit > -2 || b.wit != -1 || b.kind != vkData {
		return
	}
	item := -2 - a.wit
	if a.kind == vkNum {
		if b.isNum && b.minimal && b.num == 32 {
			sp.sizedItem = item
		}
		return
	}
	sp.hashItem = item
}
