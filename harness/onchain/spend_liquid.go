//go:build verif

package onchain

import (
	"bytes"
	"crypto/sha256"
	"encoding/hex"
	"errors"

	"github.com/btcsuite/btcd/btcec/v2"
	btecdsa "github.com/btcsuite/btcd/btcec/v2/ecdsa"
	"github.com/btcsuite/btcd/chaincfg/chainhash"
	"github.com/btcsuite/btcd/txscript"
	"github.com/elementsproject/peerswap/swap"
	"github.com/elementsproject/peerswap/zzverif"
	"github.com/vulpemventures/go-elements/address"
	"github.com/vulpemventures/go-elements/confidential"
	"github.com/vulpemventures/go-elements/elementsutil"
	"github.com/vulpemventures/go-elements/payment"
	"github.com/vulpemventures/go-elements/transaction"
)

// ---------------------------------------------------------------------------------------
// C03 (restricted) — Liquid side: LiquidOnChain.Create{Preimage,Csv,Coop}SpendingTransaction with
// create*SpendingTransaction, prepareSpendingTransaction, createSpendingTransaction,
// getEstimatedTxSize, FindVout, validateOpeningOutput — all real code.
//
// Environment (on top of the go-elements model of validate_c01_liquid.go, which supplies the
// symbolic opening transaction, unblinding of its outputs and the address <-> script table):
//   - wallet.Wallet is vSpLqWallet: GetAddress returns a confidential p2wpkh address of the node
//     (blech32 of (blinding pubkey, 20-byte program)); GetFee returns an arbitrary amount <= 21e14 sat or an
//     error; SendRawTx records the hex.
//   - swap.Signer is vSpLqSigner: records the hash, returns a signature object (natively a real
//     ECDSA signature).
//   - symbolic side only, library functions used to BUILD the spending transaction are
//     uninterpreted functions of their arguments that remember their calls:
//     FinalValueBlindingFactor, ValueCommitment, SurjectionProof (always succeeds — the real one
//     fails only by chance), NonceHash, RangeProof, ValueToBytes/ValueFromBytes (inverse pair),
//     (*Transaction).TxHash / HashForWitnessV0 / ToHex, transaction.NewTxFromHex (inverse of ToHex
//     on this path), address.FromConfidential (blinding key of the wallet address),
//     (*ecdsa.Signature).Serialize.  transaction.NewTx/NewTxInput/NewTxOutput are executed
//     (harness/onchain/EXEC lists go-elements/transaction).
//   - unblinding the new output with the wallet's blinding key (the way the harness OBSERVES the
//     confidential value; natively the real range-proof rewind) succeeds in the model exactly when
//     the output carries the range proof that was produced for (value, asset, abf, vbf) with
//     nonce = NonceHash(wallet blinding pubkey, ephemeral secret), the output's Nonce field is the
//     ephemeral public key, its Value field is ValueCommitment(value, Asset field, vbf), its Asset
//     field is AssetCommitment(asset, abf) and the proof commits to the output's script.
//
// OUTSIDE: ECDSA validity, the Elements sighash algorithm, SHA256, serialisation, blech32,
// validity of range/surjection proofs and of the value balance equation (Pedersen arithmetic),
// relay policy.
// ---------------------------------------------------------------------------------------

type vSpLqWallet struct {
	blindPriv *btcec.PrivateKey
	blindPub  []byte
	prog      []byte
	script    []byte
	addr      string
	addrCalls int

	feeCalls int
	feeSize  int64
	feeErr   bool
	fee      uint64

	sent []string
}

func (w *vSpLqWallet) GetAddress() (string, error) {
	w.addrCalls++
	return w.addr, nil
}
func (w *vSpLqWallet) GetFee(txSize int64) (uint64, error) {
	w.feeCalls++
	w.feeSize = txSize
	w.feeErr = zzverif.Bool("wallet.fee_err")
	w.fee = zzverif.U64("wallet.fee")
	// ASSUMPTION: a fee estimate is an amount of satoshi, at most the total supply
	zzverif.Assume(w.fee <= 2100000000000000)
	if w.feeErr {
		return 0, errors.New("wallet: fee estimation failed")
	}
	return w.fee, nil
}
func (w *vSpLqWallet) SendRawTx(rawTx string) (string, error) {
	w.sent = append(w.sent, rawTx)
	return "txid", nil
}
func (w *vSpLqWallet) SendToAddress(string, uint64) (string, error) {
	zzverif.Fail("unused")
	return "", nil
}
func (w *vSpLqWallet) GetBalance() (uint64, error) { zzverif.Fail("unused"); return 0, nil }
func (w *vSpLqWallet) CreateAndBroadcastTransaction(*swap.OpeningParams, []byte) (string, string, uint64, error) {
	zzverif.Fail("unused")
	return "", "", 0, nil
}
func (w *vSpLqWallet) SetLabel(txID, address, label string) error { return nil }
func (w *vSpLqWallet) Ping() (bool, error)                        { return true, nil }

// vSpLqSigner: swap.Signer.
type vSpLqSigner struct {
	name   string
	priv   *btcec.PrivateKey
	hashes [][]byte
	sigs   []*btecdsa.Signature
}

type vSpLqSigRec struct {
	sig *btecdsa.Signature
	der []byte
}

func (s *vSpLqSigner) Sign(hash []byte) (*btecdsa.Signature, error) {
	s.hashes = append(s.hashes, hash)
	der := zzverif.Bytes(s.name, 71)
	var sig *btecdsa.Signature
	if zzverif.Symbolic() {
		sig = new(btecdsa.Signature)
		vSpL.sigs = append(vSpL.sigs, vSpLqSigRec{sig, der})
	} else {
		sig = btecdsa.Sign(s.priv, hash)
	}
	s.sigs = append(s.sigs, sig)
	return sig, nil
}

// ---- records of the symbolic library stubs ----

type vSpLqRange struct {
	args  confidential.RangeProofArgs
	proof []byte
}
type vSpLqNonce struct {
	pub, priv []byte
	out       [32]byte
}
type vSpLqHex struct {
	hex string
	tx  *transaction.Transaction
}
type vSpLqVal struct {
	v uint64
	b []byte
}

type vSpLqLib struct {
	w      *vSpLqWallet
	ranges []vSpLqRange
	nonces []vSpLqNonce
	hexes  []vSpLqHex
	vals   []vSpLqVal
	sigs   []vSpLqSigRec
}

var vSpL *vSpLqLib

func vSpLqHash32(tag string, args ...interface{}) [32]byte {
	return sha256.Sum256([]byte(zzverif.UFStr(tag, args...)))
}

func vSpLqFinalVbf(a confidential.FinalValueBlindingFactorArgs) ([32]byte, error) {
	return vSpLqHash32("finalvbf", a.InValues, a.OutValues, a.InGenerators, a.OutGenerators, a.InFactors, a.OutFactors), nil
}
func vSpLqValueCommitment(value uint64, generator, factor []byte) ([]byte, error) {
	return []byte(zzverif.UFStr("valuecommitment", value, generator, factor)), nil
}
func vSpLqSurjection(a confidential.SurjectionProofArgs) ([]byte, bool) {
	return []byte(zzverif.UFStr("surjectionproof", a.OutputAsset, a.OutputAssetBlindingFactor, a.InputAssets, a.InputAssetBlindingFactors, a.Seed)), true
}
func vSpLqNonceHash(pub, priv []byte) ([32]byte, error) {
	h := vSpLqHash32("noncehash", pub, priv)
	vSpL.nonces = append(vSpL.nonces, vSpLqNonce{pub, priv, h})
	return h, nil
}
func vSpLqRangeProof(a confidential.RangeProofArgs) ([]byte, error) {
	// library contract (secp256k1-zkp rangeproof_sign, checked natively): values above
	// INT64_MAX cannot be proven
	if a.Value >= 1<<63 {
		return nil, errors.New("failed to create a range proof")
	}
	p := []byte(zzverif.UFStr("rangeproof", a.Value, a.Nonce, a.Asset, a.AssetBlindingFactor, a.ValueBlindFactor, a.ValueCommit, a.ScriptPubkey, a.Exp, a.MinBits))
	vSpL.ranges = append(vSpL.ranges, vSpLqRange{a, p})
	return p, nil
}
func vSpLqValueToBytes(v uint64) ([]byte, error) {
	b := []byte(zzverif.UFStr("valuebytes", v))
	vSpL.vals = append(vSpL.vals, vSpLqVal{v, b})
	return b, nil
}
func vSpLqValueFromBytes(b []byte) (uint64, error) {
	for i := 0; i < len(vSpL.vals); i++ {
		if bytes.Equal(vSpL.vals[i].b, b) {
			return vSpL.vals[i].v, nil
		}
	}
	return 0, errors.New("not an explicit value")
}
func vSpLqTxHash(tx *transaction.Transaction) chainhash.Hash {
	return chainhash.Hash(vSpLqHash32("lqtxhash", tx))
}
func vSpLqSigHash(tx *transaction.Transaction, idx int, script []byte, value []byte, ht txscript.SigHashType) [32]byte {
	return vSpLqHash32("lqsighash", tx, idx, script, value, uint32(ht))
}
func vSpLqToHex(tx *transaction.Transaction) (string, error) {
	h := zzverif.UFStr("lqtxhex", tx)
	// serialisation is injective: the new transaction (it has an input the opening transaction
	// does not have) never serialises to the opening transaction's hex
	zzverif.Assume(h != vLqTxHex)
	vSpL.hexes = append(vSpL.hexes, vSpLqHex{h, tx})
	return h, nil
}
func vSpLqNewTxFromHex(s string) (*transaction.Transaction, error) {
	if s == vLqTxHex {
		return vLqNewTxFromHex(s)
	}
	for i := len(vSpL.hexes) - 1; i >= 0; i-- {
		if vSpL.hexes[i].hex == s {
			return vSpL.hexes[i].tx, nil
		}
	}
	return vLqNewTxFromHex(s)
}
func vSpLqFromConfidential(a string) (*address.AddressInfo, error) {
	if a != vSpL.w.addr {
		zzverif.Fail("FromConfidential of a string that is not the wallet's address")
	}
	return &address.AddressInfo{Address: a, Script: vSpL.w.script, BlindingKey: vSpL.w.blindPub}, nil
}
func vSpLqSigSerialize(sig *btecdsa.Signature) []byte {
	for i := 0; i < len(vSpL.sigs); i++ {
		if vSpL.sigs[i].sig == sig {
			return vSpL.sigs[i].der
		}
	}
	zzverif.Fail("Serialize of a signature the harness did not hand out")
	return nil
}

// vSpLqUnblind: outputs of the opening transaction are answered by vLqUnblind; an output of the
// spending transaction is answered by the range-proof model described in the header.
func vSpLqUnblind(out *transaction.TxOutput, key []byte) (*confidential.UnblindOutputResult, error) {
	for _, o := range vLqOuts {
		if o.out == out {
			return vLqUnblind(out, key)
		}
	}
	no := errors.New("range proof does not rewind")
	for i := 0; i < len(vSpL.ranges); i++ {
		r := vSpL.ranges[i]
		if !bytes.Equal(out.RangeProof, r.proof) {
			continue
		}
		if !bytes.Equal(key, vSpL.w.blindPriv.Serialize()) {
			return nil, no
		}
		okNonce := false
		for j := 0; j < len(vSpL.nonces); j++ {
			n := vSpL.nonces[j]
			if n.out != r.args.Nonce {
				continue
			}
			if !bytes.Equal(n.pub, vSpL.w.blindPub) {
				continue
			}
			eph, _ := btcec.PrivKeyFromBytes(n.priv)
			if bytes.Equal(out.Nonce, eph.PubKey().SerializeCompressed()) {
				okNonce = true
			}
		}
		if !okNonce {
			return nil, no
		}
		vc, _ := confidential.ValueCommitment(r.args.Value, out.Asset, r.args.ValueBlindFactor[:])
		if !bytes.Equal(out.Value, vc) {
			return nil, no
		}
		if !bytes.Equal(out.Value, r.args.ValueCommit) {
			return nil, no
		}
		ac, _ := confidential.AssetCommitment(r.args.Asset, r.args.AssetBlindingFactor)
		if !bytes.Equal(out.Asset, ac) {
			return nil, no
		}
		if !bytes.Equal(out.Script, r.args.ScriptPubkey) {
			return nil, no
		}
		return &confidential.UnblindOutputResult{Value: r.args.Value, Asset: r.args.Asset,
			ValueBlindingFactor: r.args.ValueBlindFactor[:], AssetBlindingFactor: r.args.AssetBlindingFactor}, nil
	}
	return nil, no
}

func vSpLqInstall(w *vSpLqWallet) {
	vSpL = &vSpLqLib{w: w}
	vLqInstall()
	if !zzverif.Symbolic() {
		return
	}
	const conf = "github.com/vulpemventures/go-elements/confidential."
	const trx = "(*github.com/vulpemventures/go-elements/transaction.Transaction)."
	zzverif.Override(conf+"FinalValueBlindingFactor", vSpLqFinalVbf)
	zzverif.Override(conf+"ValueCommitment", vSpLqValueCommitment)
	zzverif.Override(conf+"SurjectionProof", vSpLqSurjection)
	zzverif.Override(conf+"NonceHash", vSpLqNonceHash)
	zzverif.Override(conf+"RangeProof", vSpLqRangeProof)
	zzverif.Override(conf+"UnblindOutputWithKey", vSpLqUnblind)
	zzverif.Override("github.com/vulpemventures/go-elements/elementsutil.ValueToBytes", vSpLqValueToBytes)
	zzverif.Override("github.com/vulpemventures/go-elements/elementsutil.ValueFromBytes", vSpLqValueFromBytes)
	zzverif.Override(trx+"TxHash", vSpLqTxHash)
	zzverif.Override(trx+"HashForWitnessV0", vSpLqSigHash)
	zzverif.Override(trx+"ToHex", vSpLqToHex)
	zzverif.Override("github.com/vulpemventures/go-elements/transaction.NewTxFromHex", vSpLqNewTxFromHex)
	zzverif.Override("github.com/vulpemventures/go-elements/address.FromConfidential", vSpLqFromConfidential)
	zzverif.Override("(*github.com/decred/dcrd/dcrec/secp256k1/v4/ecdsa.Signature).Serialize", vSpLqSigSerialize)
}

// vSpLqNewWallet draws the node wallet: blinding key and 20-byte key hash of its next address.
func vSpLqNewWallet() *vSpLqWallet {
	w := &vSpLqWallet{}
	kb := zzverif.Bytes("wallet.blinding_key", 32)
	zzverif.Assume(!bytes.Equal(kb, make([]byte, 32)))
	w.blindPriv, _ = btcec.PrivKeyFromBytes(kb)
	w.blindPub = w.blindPriv.PubKey().SerializeCompressed()
	w.prog = zzverif.Bytes("wallet.addr_program", 20)
	w.script = append([]byte{0x00, 0x14}, w.prog...)
	return w
}

// address of the wallet (needs the network, i.e. after vLqNewChain)
func (w *vSpLqWallet) makeAddress() {
	if zzverif.Symbolic() {
		w.addr = zzverif.UFStr("blech32", vLqNet.Blech32, w.blindPub, w.prog)
		vLqAddrs = append(vLqAddrs, vLqAddr{w.addr, w.script})
		return
	}
	pay, err := payment.FromScript(w.script, vLqNet, w.blindPriv.PubKey())
	if err != nil {
		panic(err)
	}
	a, err := pay.ConfidentialWitnessPubKeyHash()
	if err != nil {
		panic(err)
	}
	w.addr = a
}

// vSpLqKey: signing key of a Signer stub (only used natively).
func vSpLqKey(b byte) *btcec.PrivateKey {
	if zzverif.Symbolic() {
		return nil
	}
	k, _ := btcec.PrivKeyFromBytes(bytes.Repeat([]byte{b}, 32))
	return k
}

// vSpLqParams: like vLqDrawParams (arbitrary amount, blinding key; CSV 10080, or 60/10080 when
// bothCsv) but with FIXED
// maker/taker keys and payment hash: how the script depends on them is C02's subject, the
// structure of the spending transaction does not depend on them, and symbolic hex strings make
// every string-solver query of these entries 10-100 times slower.
func vSpLqParams(bothCsv bool) *swap.OpeningParams {
	csv := uint32(10080)
	if bothCsv && zzverif.Bool("csv_legacy_60") {
		csv = LiquidCsv
	}
	kb := zzverif.Bytes("blinding_key", 32)
	zzverif.Assume(!bytes.Equal(kb, make([]byte, 32)))
	key, _ := btcec.PrivKeyFromBytes(kb)
	vLqKey = key.Serialize()
	amount := zzverif.U64("amount")
	// ASSUMPTION: the swap amount is an amount of satoshi, at most the total supply (above
	// INT64_MAX the library cannot build a range proof and every spend fails with an error)
	zzverif.Assume(amount <= 2100000000000000)
	return &swap.OpeningParams{
		TakerPubkey:      "022121212121212121212121212121212121212121212121212121212121212121",
		MakerPubkey:      "034242424242424242424242424242424242424242424242424242424242424242",
		ClaimPaymentHash: "6363636363636363636363636363636363636363636363636363636363636363",
		Amount:           amount,
		CSV:              csv,
		BlindingKey:      key,
	}
}

// vSpLqDrawOpening draws an opening transaction of 1..maxOut outputs that the validator accepts:
// the swap output sits at an arbitrary position k, is explicit or confidential (honest asset
// commitment, range proof rewinding with the announced key) and discloses (policy asset, amount);
// outputs before it carry other scripts, outputs after it carry another script or the swap script
// again (a duplicate that the first-match rule must ignore); the other outputs are explicit with
// arbitrary asset and value.  Natively a real transaction is built (real range proof).
func vSpLqDrawOpening(p *swap.OpeningParams, expected []byte, maxOut int) string {
	n := 1 + zzverif.Choice("tx.n", maxOut)
	k := zzverif.Choice("tx.swap_index", n)
	tx := &transaction.Transaction{Version: 2}
	on := [3]string{"out0", "out1", "out2"}
	for i := 0; i < n; i++ {
		o := &vLqOut{}
		script := expected
		if i == k {
			o.isSwap = true
			o.asset, o.value = vLqAssetBody, p.Amount
			if zzverif.Bool("swap_output_confidential") {
				o.kind, o.honest = vLqRewinds, true
			}
		} else {
			if i > k && zzverif.Bool(on[i]+".duplicate_swap_script") {
				o.isSwap = true
			} else {
				script = zzverif.Bytes(on[i]+".script", -1)
				zzverif.Assume(!bytes.Equal(script, expected))
			}
			o.asset, o.value = zzverif.Bytes(on[i]+".asset", 32), zzverif.U64(on[i]+".value")
		}
		if o.kind == vLqExplicit {
			val := zzverif.Bytes(on[i]+".value_bytes", 9)
			if !zzverif.Symbolic() {
				val, _ = elementsutil.ValueToBytes(o.value)
			}
			o.out = &transaction.TxOutput{Asset: append([]byte{0x01}, o.asset...), Value: val, Script: script, Nonce: []byte{0x00}}
		} else {
			o.abf = zzverif.Bytes("swap.abf", 32)
			o.vbf = zzverif.Bytes("swap.vbf", 32)
			commit, err := confidential.AssetCommitment(o.asset, o.abf)
			if err != nil {
				zzverif.Assume(false) // not a valid scalar: outside the drawn space
			}
			vc, nonce, rp := zzverif.Bytes("swap.value_commitment", 33), zzverif.Bytes("swap.nonce", 33), zzverif.Bytes("swap.rangeproof", -1)
			if zzverif.Symbolic() {
				o.out = &transaction.TxOutput{Asset: commit, Value: vc, Script: script, Nonce: nonce, RangeProof: rp}
			} else {
				o.out = vLqNativeConfidential(p, o, commit, script)
			}
		}
		vLqOuts = append(vLqOuts, o)
		tx.Outputs = append(tx.Outputs, o.out)
	}
	vLqTx = tx
	if zzverif.Symbolic() {
		vLqTxHex = "0200"
		return vLqTxHex
	}
	tx.Inputs = append(tx.Inputs, transaction.NewTxInput(make([]byte, 32), 0))
	h, err := tx.ToHex()
	if err != nil {
		panic(err)
	}
	vLqTxHex = h
	return h
}

// vSpLqSpend runs one Create*SpendingTransaction of the real LiquidOnChain on an opening
// transaction that the real ValidateTx accepts and checks the transaction handed to SendRawTx.
func vSpLqSpend(kind int, maxOut int, bothCsv bool) {
	zzverif.Unwind(16)
	vLqReset()
	w := vSpLqNewWallet()
	vSpLqInstall(w)
	lw := vLqNewChainWith(w)
	w.makeAddress()
	p := vSpLqParams(bothCsv)
	redeem, expected := vLqExpectedScript(p)
	if zzverif.Symbolic() {
		// address coding is injective: the wallet's blech32 p2wpkh address is not the bech32 p2wsh
		// opening address (different prefix, length and payload)
		oa, _ := lw.CreateOpeningAddress(redeem)
		zzverif.Assume(oa != w.addr)
	}
	// Precondition of C03: the opening transaction is one the validator accepts.  By C01
	// (H_C01_liquidValidateTx) those are exactly the transactions whose FIRST output with the swap
	// script unblinds with the announced key to (policy asset, amount) and whose Asset field is
	// the explicit asset / the honest commitment.  vSpLqDrawOpening draws exactly that class; the
	// real ValidateTx is still run and must accept.
	openHex := vSpLqDrawOpening(p, expected, maxOut)
	k := vLqFirstSwap() // index of the first output with the swap script
	ok, verr := lw.ValidateTx(p, openHex)
	zzverif.Assert(verr == nil, "C03.lq_precondition_no_error")
	zzverif.Assert(ok, "C03.lq_precondition_validated")
	if verr != nil || !ok {
		return
	}

	preimage := zzverif.Bytes("preimage", 32)
	signer := &vSpLqSigner{name: "maker_or_taker_signature", priv: vSpLqKey(0x31)}
	other := &vSpLqSigner{name: "taker_signature", priv: vSpLqKey(0x32)}
	claim := &swap.ClaimParams{Preimage: hex.EncodeToString(preimage), Signer: signer, OpeningTxHex: openHex}

	var txHex, addr string
	var err error
	switch kind {
	case vSpPreimage:
		_, txHex, addr, err = lw.CreatePreimageSpendingTransaction(p, claim)
	case vSpCsv:
		_, txHex, addr, err = lw.CreateCsvSpendingTransaction(p, claim)
	default:
		_, txHex, addr, err = lw.CreateCoopSpendingTransaction(p, claim, other)
	}

	// fee: wallet estimate for the kind's size, 500 sat placeholder when the wallet fails
	wantSize := int64(337) // 1350/4
	if kind == vSpCoop {
		wantSize = 340 // 1360/4
	}
	zzverif.Assert(w.feeCalls == 1 && w.feeSize == wantSize, "C03.lq_fee_asked_once_for_estimated_size")
	fee := w.fee
	if w.feeErr {
		fee = 500
	}
	if fee == 0 {
		zzverif.Assert(err != nil && len(w.sent) == 0, "C03.lq_zero_fee_rejected")
		return
	}
	if fee > p.Amount {
		// liquid.go:283 `ubRes.Value - preparedFee` wraps (H_C03_liquidValueRange) and nothing in
		// peerswap checks it; the wrapped value is >= 2^64 - 2.1e15 > INT64_MAX, for which the
		// library cannot create a range proof, so the builder fails before anything is signed/sent
		zzverif.Reach("C03.lq_fee_exceeds_amount_value_wraps")
		zzverif.Assert(err != nil && len(w.sent) == 0 && len(signer.hashes) == 0, "C03.lq_wrapped_value_refused_by_range_proof")
		return
	}
	zzverif.Assert(err == nil, "C03.lq_no_error")
	if err != nil {
		return
	}
	zzverif.Assert(len(w.sent) == 1 && w.sent[0] == txHex, "C03.lq_sent_once_and_returned")
	zzverif.Assert(addr == w.addr && w.addrCalls == 1, "C03.lq_returns_wallet_address")

	stx, perr := transaction.NewTxFromHex(txHex)
	if perr != nil {
		zzverif.Fail("spending transaction does not parse")
	}
	op, _ := transaction.NewTxFromHex(openHex)
	opHash := op.TxHash()

	zzverif.Assert(stx.Version == 2, "C03.lq_version_2")
	zzverif.Assert(stx.Locktime == 0, "C03.lq_locktime_0")
	zzverif.Assert(len(stx.Inputs) == 1, "C03.lq_one_input")
	zzverif.Assert(len(stx.Outputs) == 2, "C03.lq_two_outputs")
	if len(stx.Inputs) != 1 || len(stx.Outputs) != 2 {
		return
	}
	in := stx.Inputs[0]
	zzverif.Assert(bytes.Equal(in.Hash, opHash[:]), "C03.lq_spends_opening_txid")
	zzverif.Assert(in.Index == uint32(k), "C03.lq_spends_validated_vout")
	zzverif.Assert(len(in.Script) == 0, "C03.lq_empty_scriptsig")
	if kind == vSpCsv {
		zzverif.Assert(in.Sequence == p.CSV, "C03.lq_csv_sequence_is_csv")
	} else {
		zzverif.Assert(in.Sequence == 0, "C03.lq_sequence_0")
	}

	// output 1: explicit fee output (empty script) of the policy asset
	fo := stx.Outputs[1]
	zzverif.Assert(len(fo.Script) == 0, "C03.lq_fee_output_empty_script")
	zzverif.Assert(bytes.Equal(fo.Asset, lw.asset), "C03.lq_fee_output_policy_asset")
	fv, ferr := elementsutil.ValueFromBytes(fo.Value)
	zzverif.Assert(ferr == nil, "C03.lq_fee_output_explicit")
	zzverif.Assert(fv == fee, "C03.lq_fee_output_value")

	// output 0: pays the wallet address' script; unblinds with the wallet's blinding key to
	// (policy asset, spent value - fee)
	ro := stx.Outputs[0]
	zzverif.Assert(bytes.Equal(ro.Script, w.script), "C03.lq_pays_wallet_script")
	res, uerr := confidential.UnblindOutputWithKey(ro, w.blindPriv.Serialize())
	zzverif.Assert(uerr == nil, "C03.lq_output_unblinds_with_wallet_key")
	if uerr != nil {
		return
	}
	zzverif.Assert(bytes.Equal(res.Asset, lw.asset[1:]), "C03.lq_output_policy_asset")
	zzverif.Assert(res.Value == p.Amount-fee, "C03.lq_value_is_amount_minus_fee")
	zzverif.Assert(res.Value+fv == p.Amount, "C03.lq_outputs_sum_to_spent_value")

	// sighash: Signer(s) got HashForWitnessV0(input 0, redeem script, value commitment of the
	// spent output, SIGHASH_ALL) of this transaction (witness excluded)
	bare := *stx
	in0 := *in
	in0.Witness = nil
	bare.Inputs = []*transaction.TxInput{&in0}
	wantHash := bare.HashForWitnessV0(0, redeem, op.Outputs[k].Value, txscript.SigHashAll)
	zzverif.Assert(len(signer.hashes) == 1, "C03.lq_signer_called_once")
	if len(signer.hashes) != 1 {
		return
	}
	zzverif.Assert(bytes.Equal(signer.hashes[0], wantHash[:]), "C03.lq_sighash_args")
	sig := append(signer.sigs[0].Serialize(), byte(txscript.SigHashAll))

	// witness layout = what C02 proved sufficient
	wit := in.Witness
	switch kind {
	case vSpPreimage:
		zzverif.Assert(len(wit) == 5, "C03.lq_preimage_witness_items")
		if len(wit) != 5 {
			return
		}
		zzverif.Assert(bytes.Equal(wit[0], sig), "C03.lq_preimage_witness_sig")
		zzverif.Assert(bytes.Equal(wit[1], preimage), "C03.lq_preimage_witness_is_claim_preimage")
		zzverif.Assert(len(wit[2]) == 0, "C03.lq_preimage_witness_empty2")
		zzverif.Assert(len(wit[3]) == 0, "C03.lq_preimage_witness_empty3")
		zzverif.Assert(bytes.Equal(wit[4], redeem), "C03.lq_preimage_witness_script")
	case vSpCsv:
		zzverif.Assert(len(wit) == 2, "C03.lq_csv_witness_items")
		if len(wit) != 2 {
			return
		}
		zzverif.Assert(bytes.Equal(wit[0], sig), "C03.lq_csv_witness_sig")
		zzverif.Assert(bytes.Equal(wit[1], redeem), "C03.lq_csv_witness_script")
	default:
		zzverif.Assert(len(wit) == 4, "C03.lq_coop_witness_items")
		zzverif.Assert(len(other.hashes) == 1, "C03.lq_coop_taker_signer_called_once")
		if len(wit) != 4 || len(other.hashes) != 1 {
			return
		}
		zzverif.Assert(bytes.Equal(other.hashes[0], wantHash[:]), "C03.lq_coop_taker_sighash_args")
		tsig := append(other.sigs[0].Serialize(), byte(txscript.SigHashAll))
		zzverif.Assert(bytes.Equal(wit[0], tsig), "C03.lq_coop_witness_taker_sig")
		zzverif.Assert(bytes.Equal(wit[1], sig), "C03.lq_coop_witness_maker_sig")
		zzverif.Assert(len(wit[2]) == 0, "C03.lq_coop_witness_empty2")
		zzverif.Assert(bytes.Equal(wit[3], redeem), "C03.lq_coop_witness_script")
	}
}

// vLqNewChainWith: vLqNewChain for a wallet of this file's type.
func vLqNewChainWith(w *vSpLqWallet) *LiquidOnChain {
	l := vLqNewChain(nil, 32)
	l.liquidWallet = w
	return l
}

// H_C03_liquid{Preimage,Csv,Coop}Spend: for every opening transaction the real ValidateTx accepts
// (quick: 1 output, CSV 10080 — the csv entry also 60; thorough: 1..2 outputs, swap output at any
// position, later outputs may repeat the swap script, both CSV values; swap output explicit or
// confidential), every wallet fee answer
// (error => 500 sat placeholder, 0 => refused) with fee <= amount: exactly one transaction is
// sent; version 2, locktime 0, one input spending (TxHash(opening), first output with the swap
// script = the output ValidateTx checked) with empty scriptSig and nSequence 0 (preimage, coop)
// / params.CSV (csv); output 0 pays the wallet address' script and unblinds with the wallet key
// to (policy asset, amount - fee); output 1 is the explicit fee output; the signer(s) signed
// HashForWitnessV0(0, redeem script, spent value commitment, SIGHASH_ALL); the witness is the one
// built by Get{Preimage,Csv,Cooperative}Witness with the claim preimage.
func H_C03_liquidPreimageSpend()   { vSpLqSpend(vSpPreimage, 1, false) }
func H_C03_liquidCsvSpend()        { vSpLqSpend(vSpCsv, 1, true) }
func H_C03_liquidCoopSpend()       { vSpLqSpend(vSpCoop, 1, false) }
func H_C03_T_liquidPreimageSpend() { vSpLqSpend(vSpPreimage, 2, true) }
func H_C03_T_liquidCsvSpend()      { vSpLqSpend(vSpCsv, 2, true) }
func H_C03_T_liquidCoopSpend()     { vSpLqSpend(vSpCoop, 2, true) }

// H_C03_liquidValueRange: arithmetic of liquid.go:283 `outputValue := ubRes.Value - preparedFee`
// (uint64): no wrap iff fee <= value; for fee > value the committed value is 2^64 - (fee-value).
// Reachable in the real code: validateOpeningOutput pins value = swap amount, the fee is whatever
// wallet.GetFee answers (or 500 sat) and is never compared with the amount.  With the default
// policy minimum of 100 000 sat it needs a wallet fee estimate above 100 000 sat for ~340 vB.
func H_C03_liquidValueRange() {
	value := zzverif.U64("value")
	fee := zzverif.U64("fee")
	out := value - fee
	if fee <= value {
		zzverif.Assert(out <= value, "C03.lq_value_no_wrap_when_fee_le_value")
		zzverif.Assert(out+fee == value, "C03.lq_value_plus_fee_is_spent")
	} else {
		zzverif.Reach("C03.lq_value_wraps_when_fee_exceeds_value")
		zzverif.Assert(out > value, "C03.lq_value_wrapped_is_larger_than_spent")
	}
}
