//go:build verif

package onchain

import (
	"bytes"
	"crypto/sha256"
	"fmt"

	"github.com/btcsuite/btcd/btcec/v2"
	"github.com/btcsuite/btcd/chaincfg/chainhash"
	"github.com/btcsuite/btcd/txscript"
	"github.com/btcsuite/btcd/wire"
	"github.com/elementsproject/peerswap/zzverif"
)

// vNativeEngineCheck — translator validation of the script MODEL (script_vm.go) against btcd's
// real txscript.Engine.  It runs only natively (replays / validation cases of the C02 entries):
// the oracle pattern of the run (which witness item is a valid maker / taker signature, which
// one is the preimage, which ones are empty) is REALISED with real keys, real ECDSA signatures
// over the real BIP143 sighash and a real SHA256 preimage; the script is rebuilt by the real
// GetOpeningTxScript for those keys, funded as a real P2WSH output and spent by a transaction
// with the run's nVersion / nSequence; btcd executes it with the consensus flag set.
//
//	btcd accepts                      => the model must have accepted   (model over-approximates)
//	model accepts, realisation exact  => btcd must accept               (model is not too liberal)
//
// "exact": every non-empty item is a real signature or the real preimage, and no non-empty item
// that is not a signature was consumed as the signature operand of a CHECKSIG (a non-empty byte
// string that is not DER aborts the real script under BIP66, where the model continues with
// `false`; such runs only check the first implication).  A disagreement panics,
// which the driver reports as a validation mismatch (run inconclusive).
func vNativeEngineCheck(sp *vSpend, csv uint32, modelOK bool) {
	if zzverif.Symbolic() {
		return
	}
	sameKey := bytes.Equal(sp.maker, sp.taker)
	makerPriv, makerPub := btcec.PrivKeyFromBytes(bytes.Repeat([]byte{0x11}, 32))
	takerPriv, takerPub := btcec.PrivKeyFromBytes(bytes.Repeat([]byte{0x22}, 32))
	if sameKey {
		takerPriv, takerPub = makerPriv, makerPub
	}
	preimage := bytes.Repeat([]byte{0x33}, 32)
	hash := sha256.Sum256(preimage)
	script, err := GetOpeningTxScript(takerPub.SerializeCompressed(), makerPub.SerializeCompressed(), hash[:], csv)
	if err != nil {
		panic(err)
	}
	prog := sha256.Sum256(script)
	pkScript := append([]byte{0x00, 0x20}, prog[:]...)
	const amount = int64(100000)

	tx := wire.NewMsgTx(sp.version)
	in := wire.NewTxIn(wire.NewOutPoint(&chainhash.Hash{7}, 0), nil, nil)
	in.Sequence = sp.sequence
	tx.AddTxIn(in)
	tx.AddTxOut(wire.NewTxOut(amount-500, []byte{0x00, 0x14, 1, 2, 3, 4, 5, 6, 7, 8, 9, 10, 11, 12, 13, 14, 15, 16, 17, 18, 19, 20}))
	fetcher := txscript.NewCannedPrevOutputFetcher(pkScript, amount)
	sigHashes := txscript.NewTxSigHashes(tx, fetcher)
	sign := func(k *btcec.PrivateKey) []byte {
		s, serr := txscript.RawTxInWitnessSignature(tx, sigHashes, 0, amount, script, txscript.SigHashAll, k)
		if serr != nil {
			panic(serr)
		}
		return s
	}

	w := sp.w
	exact := true
	var wit wire.TxWitness
	for i := 0; i < len(w.items); i++ {
		it := w.items[i]
		switch {
		case len(it) == 0:
			wit = append(wit, []byte{})
		case w.sigM[i] && w.sigT[i] && !sameKey:
			return // one signature valid under two different keys: not realisable
		case w.sigM[i]:
			wit = append(wit, sign(makerPriv))
			if len(it) == 32 {
				exact = false // the model item could also pass SIZE 32, a real signature cannot
			}
		case w.sigT[i] && !sameKey:
			wit = append(wit, sign(takerPriv))
			if len(it) == 32 {
				exact = false
			}
		case w.hashOK[i]:
			if len(it) != 32 {
				return // a preimage of another length cannot hash to SHA256(32-byte preimage)
			}
			wit = append(wit, preimage)
			for _, u := range sp.sigUsed {
				if u == i {
					exact = false // the preimage was used as a signature: BIP66 abort in the real engine
				}
			}
		default:
			wit = append(wit, it) // arbitrary bytes: neither a valid signature nor the preimage
			exact = false
		}
	}
	wit = append(wit, script)
	tx.TxIn[0].Witness = wit

	flags := txscript.ScriptBip16 | txscript.ScriptVerifyWitness | txscript.ScriptVerifyCheckSequenceVerify |
		txscript.ScriptVerifyCheckLockTimeVerify | txscript.ScriptVerifyDERSignatures
	vm, err := txscript.NewEngine(pkScript, tx, 0, flags, nil, sigHashes, amount, fetcher)
	engineOK := false
	var eerr error
	if err != nil {
		eerr = err
	} else {
		eerr = vm.Execute()
		engineOK = eerr == nil
	}
	if engineOK && !modelOK {
		panic("script model REJECTS a spend that btcd's txscript.Engine accepts")
	}
	if exact && modelOK && !engineOK {
		panic("script model ACCEPTS an exactly realised spend that btcd's txscript.Engine rejects: " + eerr.Error())
	}
	vNativeStats[0]++
	if modelOK {
		vNativeStats[1]++
	}
	if engineOK {
		vNativeStats[2]++
	}
	if exact {
		vNativeStats[3]++
	}
	if !vNativeQuiet {
		fmt.Printf("script model vs btcd engine: items=%d model=%v engine=%v exact=%v (%v)\n", len(w.items), modelOK, engineOK, exact, eerr)
	}
}

// H_C02_modelAgreesWithBtcd — systematic translator validation of the script model.  The symbolic
// side only restates that the real script parses into the 19 modelled operations (so the entry
// has an obligation); the NATIVE run of this entry (done by the driver on every check) evaluates
// model and btcd engine side by side, through vNativeEngineCheck, on a grid of concrete spends:
// every witness of 0..4 items over the alphabet {empty, valid maker signature, valid taker
// signature, the preimage, 32 arbitrary bytes, 71 arbitrary bytes} x nSequence in {0, csv-1, csv,
// csv|type bit, csv|disable bit, 0xffff|bit 23} x nVersion in {1, 2}, for the CSV value chosen by
// csv_kind (about 18 700 spends).  Any disagreement panics => validation mismatch.
func H_C02_modelAgreesWithBtcd() {
	csv := vCSVs[zzverif.Choice("csv_kind", 3)]
	e := vBuildScript(csv)
	zzverif.Assert(len(e.ops) == 19, "C02.model_validation_script_parsed")
	if zzverif.Symbolic() {
		return
	}
	maker := bytes.Repeat([]byte{0x02}, 33)
	taker := bytes.Repeat([]byte{0x03}, 33)
	hash := bytes.Repeat([]byte{0x05}, 32)
	s, _ := GetOpeningTxScript(taker, maker, hash, csv)
	ops, ok := vParseScript(s)
	if !ok {
		panic("script does not parse")
	}
	seqs := []uint32{0, csv - 1, csv, csv | vSeqType, csv | vSeqDisable, 0xffff | 1<<23}
	const nKinds = 6
	total := 0
	for n := 0; n <= 4; n++ {
		combos := 1
		for i := 0; i < n; i++ {
			combos *= nKinds
		}
		for c := 0; c < combos; c++ {
			w := &vWitness{}
			x := c
			for i := 0; i < n; i++ {
				k := x % nKinds
				x /= nKinds
				var it []byte
				m, t, h := false, false, false
				switch k {
				case 0:
					it = []byte{}
				case 1:
					it, m = bytes.Repeat([]byte{0x30}, 71), true
				case 2:
					it, t = bytes.Repeat([]byte{0x30}, 71), true
				case 3:
					it, h = bytes.Repeat([]byte{0x07}, 32), true
				case 4:
					it = bytes.Repeat([]byte{0x09}, 32)
				default:
					it = bytes.Repeat([]byte{0x30}, 71)
				}
				w.items = append(w.items, it)
				w.sigM = append(w.sigM, m)
				w.sigT = append(w.sigT, t)
				w.hashOK = append(w.hashOK, h)
				w.truthy = append(w.truthy, len(it) != 0)
			}
			for _, seq := range seqs {
				for _, ver := range []int32{1, 2} {
					sp := vNewSpend(w, maker, taker, hash, ver, seq)
					sp.wrongSha = bytes.Repeat([]byte{0xee}, 32)
					vNativeQuiet = true
					vNativeEngineCheck(sp, csv, sp.run(ops))
					total++
				}
			}
		}
	}
	vNativeQuiet = false
	fmt.Printf("script model vs btcd engine: %d concrete spends generated, %d realisable and compared (model accepts %d, btcd accepts %d, exact realisations %d), no disagreement\n",
		total, vNativeStats[0], vNativeStats[1], vNativeStats[2], vNativeStats[3])
}

var (
	vNativeQuiet bool
	vNativeStats [4]int // compared, model accepts, engine accepts, exact
)
