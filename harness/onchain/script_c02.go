//go:build verif

package onchain

import (
	"bytes"
	"encoding/hex"

	"github.com/elementsproject/peerswap/swap"
	"github.com/elementsproject/peerswap/zzverif"
)

// ---------------------------------------------------------------------------------------
// C02 — the opening output is spendable only by preimage+taker, taker+maker, or maker after CSV.
//
// Common set-up of every entry: the script bytes are produced by the REAL code
// (GetOpeningTxScript -> btcd txscript.ScriptBuilder, executed symbolically because
// harness/onchain/EXEC lists github.com/btcsuite/btcd/txscript) for
//   maker, taker : arbitrary 33-byte strings (may be equal, need not be curve points)
//   hash         : arbitrary 32-byte string
//   csv          : one of 1008 (onchain.BitcoinCsv = swap.bitcoinSwapCSV), 10080
//                  (swap.liquidSwapCSV) and 60 (swap.legacyLiquidSwapCSV) — the three values
//                  swap.getTimelockPolicy can put into OpeningParams.CSV (swap/timelock.go:44;
//                  the policy constants themselves are pinned by H_C04_checkPaymentWindow /
//                  H_C04_legacyPolicy in harness/swap).
// and then parsed by vParseScript and evaluated by vSpend.run (script_vm.go).
// Bounds: witness stack of 0..6 items below the witness script, every item an arbitrary byte
// string of 0..520 bytes (consensus limit for P2WSH items); nVersion and nSequence arbitrary
// 32-bit values.  Consensus rules only (see script_vm.go for what is uninterpreted).
// ---------------------------------------------------------------------------------------

var vCSVs = [3]uint32{1008, 10080, 60}

type vScriptEnv struct {
	maker, taker, hash []byte
	csv                uint32
	script             []byte
	ops                []vOp
}

// vBuildScript draws keys/hash, runs the real builder and parses its output.
func vBuildScript(csv uint32) *vScriptEnv {
	zzverif.Unwind(4096)
	e := &vScriptEnv{csv: csv}
	e.maker = zzverif.Bytes("maker", 33)
	e.taker = zzverif.Bytes("taker", 33)
	e.hash = zzverif.Bytes("hash", 32)
	vNoteLen(e.maker)
	vNoteLen(e.taker)
	vNoteLen(e.hash)
	s, err := GetOpeningTxScript(e.taker, e.maker, e.hash, csv)
	if err != nil {
		zzverif.Fail("builder error (excluded by H_C02_binding: C02.bind_no_error)")
	}
	e.script = s
	ops, ok := vParseScript(s)
	if !ok {
		zzverif.Fail("script outside the model (excluded by H_C02_binding: C02.bind_only_modelled_opcodes)")
	}
	e.ops = ops
	return e
}

// H_C02_binding: for every maker/taker key, hash and each of the three CSV values the real
// builder returns no error and a script that consists exactly of
//
//	<maker> CHECKSIG NOTIF <maker> CHECKSIG NOTIF SIZE <0x20> EQUALVERIFY SHA256 <hash>
//	EQUALVERIFY ENDIF <taker> CHECKSIG ELSE <csv> CHECKSEQUENCEVERIFY ENDIF
//
// (19 operations, only modelled opcodes, the pushes carry exactly the given bytes and the CSV
// push is the minimal script number csv), and ParamsToTxScript on the hex forms yields the same
// bytes.  3 paths (one per CSV value).
func H_C02_binding() {
	csv := vCSVs[zzverif.Choice("csv_kind", 3)]
	zzverif.Unwind(4096)
	maker := zzverif.Bytes("maker", 33)
	taker := zzverif.Bytes("taker", 33)
	hash := zzverif.Bytes("hash", 32)
	vNoteLen(maker)
	vNoteLen(taker)
	vNoteLen(hash)
	s, err := GetOpeningTxScript(taker, maker, hash, csv)
	zzverif.Assert(err == nil, "C02.bind_no_error")
	ops, ok := vParseScript(s)
	zzverif.Assert(ok, "C02.bind_only_modelled_opcodes")
	if !ok {
		return
	}
	want := [19]byte{33, vOP_CHECKSIG, vOP_NOTIF, 33, vOP_CHECKSIG, vOP_NOTIF, vOP_SIZE, 1, vOP_EQUALVERIFY,
		vOP_SHA256, 32, vOP_EQUALVERIFY, vOP_ENDIF, 33, vOP_CHECKSIG, vOP_ELSE, 2, vOP_CHECKSEQUENCEVERIFY, vOP_ENDIF}
	if csv < 0x80 {
		want[16] = 1 // 60 is a one-byte script number
	}
	shape := len(ops) == 19
	if shape {
		for i := 0; i < 19; i++ {
			if ops[i].op != want[i] {
				shape = false
			}
			isPush := i == 0 || i == 3 || i == 7 || i == 10 || i == 13 || i == 16
			if ops[i].push != isPush {
				shape = false
			}
		}
	}
	zzverif.Assert(shape, "C02.bind_shape")
	if !shape {
		return
	}
	zzverif.Assert(bytes.Equal(ops[0].data, maker), "C02.bind_maker_outer")
	zzverif.Assert(bytes.Equal(ops[3].data, maker), "C02.bind_maker_inner")
	zzverif.Assert(ops[7].isNum && ops[7].minimal && ops[7].num == 32, "C02.bind_size_32")
	zzverif.Assert(bytes.Equal(ops[10].data, hash), "C02.bind_hash")
	zzverif.Assert(bytes.Equal(ops[13].data, taker), "C02.bind_taker")
	zzverif.Assert(ops[16].isNum && ops[16].minimal && ops[16].num == int64(csv), "C02.bind_csv")

	// ParamsToTxScript = hex decoding + GetOpeningTxScript.  The engine's hex model forgets the
	// length of a decoded string, so the decode of exactly these three encodings is answered
	// with the bytes they encode (contract Decode(Encode(b)) = b, DESIGN §4.1); natively the
	// real hex.DecodeString runs.
	mh, th, hh := hex.EncodeToString(maker), hex.EncodeToString(taker), hex.EncodeToString(hash)
	zzverif.Override("encoding/hex.DecodeString", func(x string) ([]byte, error) {
		if x == mh {
			return maker, nil
		}
		if x == th {
			return taker, nil
		}
		if x == hh {
			return hash, nil
		}
		if x == "20" {
			return []byte{0x20}, nil // h2b("20") in GetOpeningTxScript
		}
		zzverif.Fail("unexpected hex string")
		return nil, nil
	})
	p := &swap.OpeningParams{TakerPubkey: th, MakerPubkey: mh, ClaimPaymentHash: hh, CSV: csv}
	s2, err2 := ParamsToTxScript(p, p.CSV)
	zzverif.Assert(err2 == nil, "C02.bind_params_no_error")
	zzverif.Assert(bytes.Equal(s2, s), "C02.bind_params_same_script")
}

// vAssertSound states the soundness property on a path where the spend succeeded.  The ghost
// fields of vSpend only say WHICH witness item to look at; the facts themselves are
// re-evaluated through the oracle tables (vSig / hashOK / item length) and the transaction
// fields.
func vAssertSound(e *vScriptEnv, sp *vSpend) {
	w := sp.w
	a := sp.takerItem >= 0 && sp.sizedItem >= 0 && sp.sizedItem == sp.hashItem
	b := sp.takerItem >= 0 && sp.makerItem >= 0
	c := sp.makerItem >= 0 && sp.csvActive
	zzverif.Assert(a || b || c, "C02.sound_only_three_paths")
	zzverif.Assert(!sp.other, "C02.sound_oracles_closed")
	if a || b {
		r, _ := vSig(w, sp.takerItem, e.taker, e.maker, e.taker)
		zzverif.Assert(r, "C02.sound_taker_sig")
	}
	if a {
		zzverif.Reach("C02.path_preimage")
		zzverif.Assert(len(w.items[sp.sizedItem]) == 32, "C02.sound_preimage_len32")
		zzverif.Assert(w.hashOK[sp.hashItem], "C02.sound_preimage_hash")
		return
	}
	if b {
		zzverif.Reach("C02.path_coop")
		r, _ := vSig(w, sp.makerItem, e.maker, e.maker, e.taker)
		zzverif.Assert(r, "C02.sound_coop_maker_sig")
		return
	}
	if c {
		zzverif.Reach("C02.path_csv")
		r, _ := vSig(w, sp.makerItem, e.maker, e.maker, e.taker)
		zzverif.Assert(r, "C02.sound_csv_maker_sig")
		// BIP68/112: nVersion is compared as an unsigned 32-bit number
		zzverif.Assert(uint32(sp.version) >= 2, "C02.sound_csv_version2")
		zzverif.Assert(sp.sequence&vSeqDisable == 0, "C02.sound_csv_disable_clear")
		zzverif.Assert(sp.sequence&vSeqType == 0, "C02.sound_csv_type_clear")
		zzverif.Assert(sp.sequence&vSeqMask >= e.csv, "C02.sound_csv_depth")
	}
}

// vSound: witness of exactly n items, everything else arbitrary.
func vSound(csv uint32, n int) {
	e := vBuildScript(csv)
	w := vDrawWitness(n)
	version := int32(zzverif.U32("tx_version"))
	sequence := zzverif.U32("sequence")
	sp := vNewSpend(&w, e.maker, e.taker, e.hash, version, sequence)
	ok := sp.run(e.ops)
	vNativeEngineCheck(sp, csv, ok) // native only: the model against btcd's txscript.Engine
	if !ok {
		zzverif.Reach("C02.spend_rejected")
		return
	}
	vAssertSound(e, sp)
}

// H_C02_sound_btc1008 / _liquid10080 / _legacy60: every accepted P2WSH spend of the real script
// (CSV as named) is one of the three intended paths.  Witness 0..6 items (Choice), item length
// 0..520, arbitrary oracle answers, arbitrary nVersion/nSequence.
func H_C02_sound_btc1008()     { vSound(vCSVs[0], zzverif.Choice("n_items", 7)) }
func H_C02_sound_liquid10080() { vSound(vCSVs[1], zzverif.Choice("n_items", 7)) }
func H_C02_sound_legacy60()    { vSound(vCSVs[2], zzverif.Choice("n_items", 7)) }

// vCompleteWitness wraps a witness built by the real Get*Witness function: the last item must
// be the witness script (P2WSH), the rest is the stack the script runs on.
func vCompleteWitness(e *vScriptEnv, wit [][]byte, label string) *vWitness {
	n := len(wit)
	zzverif.Assert(n >= 1 && n <= 7, label+"_shape")
	if n < 1 || n > 7 {
		zzverif.Fail("witness shape")
	}
	zzverif.Assert(bytes.Equal(wit[n-1], e.script), label+"_last_item_is_script")
	w := &vWitness{items: wit[:n-1]}
	vDrawOracles(w)
	return w
}

// H_C02_complete_preimage: the witness built by GetPreimageWitness (signature of arbitrary
// non-empty length n<=80 + SIGHASH_ALL byte, 32-byte preimage) is accepted whenever the
// signature verifies under the taker key and the preimage hashes to the payment hash — for
// every nVersion/nSequence.  One CSV value per path (3).
func H_C02_complete_preimage() {
	e := vBuildScript(vCSVs[zzverif.Choice("csv_kind", 3)])
	sig := zzverif.Bytes("sig_taker", 71)
	pre := zzverif.Bytes("preimage", 32)
	wit := GetPreimageWitness(sig, pre, e.script)
	zzverif.Assert(len(wit) == 5, "C02.complete_preimage_items")
	w := vCompleteWitness(e, wit, "C02.complete_preimage")
	zzverif.Assert(bytes.Equal(w.items[1], pre), "C02.complete_preimage_item1_is_preimage")
	r, _ := vSig(w, 0, e.taker, e.maker, e.taker)
	zzverif.Assume(r)           // oracle: the taker's signature is valid
	zzverif.Assume(w.hashOK[1]) // oracle: SHA256(preimage) = payment hash
	sp := vNewSpend(w, e.maker, e.taker, e.hash, int32(zzverif.U32("tx_version")), zzverif.U32("sequence"))
	ok := sp.run(e.ops)
	vNativeEngineCheck(sp, e.csv, ok)
	zzverif.Assert(ok, "C02.complete_preimage_accepted")
	if ok {
		vAssertSound(e, sp)
	}
}

// H_C02_complete_csv: the witness built by GetCsvWitness is accepted whenever the signature
// verifies under the maker key and the spending input has nVersion>=2, disable and type bits
// clear and nSequence&0xffff >= csv (in particular for nVersion=2, nSequence=csv, the values the
// node sets).
func H_C02_complete_csv() {
	e := vBuildScript(vCSVs[zzverif.Choice("csv_kind", 3)])
	sig := zzverif.Bytes("sig_maker", 71)
	wit := GetCsvWitness(sig, e.script)
	zzverif.Assert(len(wit) == 2, "C02.complete_csv_items")
	w := vCompleteWitness(e, wit, "C02.complete_csv")
	r, _ := vSig(w, 0, e.maker, e.maker, e.taker)
	zzverif.Assume(r) // oracle: the maker's signature is valid
	version := int32(zzverif.U32("tx_version"))
	sequence := zzverif.U32("sequence")
	zzverif.Assume(uint32(version) >= 2)
	zzverif.Assume(sequence&vSeqDisable == 0)
	zzverif.Assume(sequence&vSeqType == 0)
	zzverif.Assume(sequence&vSeqMask >= e.csv)
	sp := vNewSpend(w, e.maker, e.taker, e.hash, version, sequence)
	ok := sp.run(e.ops)
	vNativeEngineCheck(sp, e.csv, ok)
	zzverif.Assert(ok, "C02.complete_csv_accepted")
	if ok {
		vAssertSound(e, sp)
	}
}

// H_C02_complete_coop: the witness built by GetCooperativeWitness is accepted whenever the two
// signatures verify under the taker and maker key respectively, for every nVersion/nSequence.
func H_C02_complete_coop() {
	e := vBuildScript(vCSVs[zzverif.Choice("csv_kind", 3)])
	tsig := zzverif.Bytes("sig_taker", 71)
	msig := zzverif.Bytes("sig_maker", 71)
	wit := GetCooperativeWitness(tsig, msig, e.script)
	zzverif.Assert(len(wit) == 4, "C02.complete_coop_items")
	w := vCompleteWitness(e, wit, "C02.complete_coop")
	rt, _ := vSig(w, 0, e.taker, e.maker, e.taker)
	rm, _ := vSig(w, 1, e.maker, e.maker, e.taker)
	zzverif.Assume(rt) // oracle: the taker's signature is valid
	zzverif.Assume(rm) // oracle: the maker's signature is valid
	sp := vNewSpend(w, e.maker, e.taker, e.hash, int32(zzverif.U32("tx_version")), zzverif.U32("sequence"))
	ok := sp.run(e.ops)
	vNativeEngineCheck(sp, e.csv, ok)
	zzverif.Assert(ok, "C02.complete_coop_accepted")
	if ok {
		vAssertSound(e, sp)
	}
}
