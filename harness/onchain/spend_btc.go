//go:build verif

package onchain

import (
	"bytes"
	"crypto/sha256"
	"encoding/hex"
	"io"

	"github.com/btcsuite/btcd/btcutil"
	"github.com/btcsuite/btcd/chaincfg"
	"github.com/btcsuite/btcd/chaincfg/chainhash"
	"github.com/btcsuite/btcd/txscript"
	"github.com/btcsuite/btcd/wire"
	"github.com/elementsproject/peerswap/swap"
	"github.com/elementsproject/peerswap/zzverif"
)

// ---------------------------------------------------------------------------------------
// C03 (restricted) — Bitcoin side: BitcoinOnChain.GetVoutAndVerify, ValidateTx,
// PrepareSpendingTransaction, composed exactly as the CLN / LND wallet adapters compose them
// (clightning/clightning_wallet.go:66/111/150, lnd/lnd_wallet.go:82/125/163):
//
//	preimage: _, vout := GetVoutAndVerify(OpeningTxHex, params); addr := wallet.NewAddr()
//	          PrepareSpendingTransaction(params, claim, addr, vout, csv=0, fee=0); GetPreimageWitness
//	csv:      ... PrepareSpendingTransaction(params, claim, addr, vout, csv=BitcoinCsv, fee=0); GetCsvWitness
//	coop:     fee := GetRefundFee() (= GetFee(250)); ... PrepareSpendingTransaction(.., vout, 0, fee);
//	          GetCooperativeWitness
//
// The adapters themselves (RPC plumbing to glightning / lnrpc) are not executed.
//
// OUTSIDE the claim (stated in MANIFEST level_note): validity of the ECDSA signatures, the
// BIP143 sighash algorithm (an uninterpreted function of its arguments here; natively the real
// one), SHA256, transaction (de)serialisation, bech32 address coding, relay policy (dust, fee
// rate).  What IS decided: which outpoint is spent, nSequence, nVersion, number / script / value
// of outputs, the arguments handed to the sighash function, the witness layout.
//
// Environment model (symbolic side; natively the real functions run on real data built from the
// same draws):
//   - the opening transaction is structured data: 0..vSpMaxOuts outputs, each with an arbitrary
//     int64 value and a script that is either exactly the expected P2WSH script (kind 1) or an
//     arbitrary other byte string (kind 0); (*wire.MsgTx).Deserialize is replaced by a stub
//     filling in that data, (*wire.MsgTx).TxHash is an uninterpreted function of the transaction.
//   - the node wallet's address is a P2WPKH / P2WSH (witness v0) address: btcutil.DecodeAddress is
//     replaced by a stub returning an address object whose ScriptAddress() is the drawn 20-byte
//     program.  ASSUMPTION: glightning.NewAddr / lnrpc.NewAddress(WITNESS_PUBKEY_HASH) return
//     witness-v0 addresses; for any other address type `OP_0 <ScriptAddress()>` is not the
//     address' script (bitcoin.go:219 builds the script by hand instead of PayToAddrScript).
//   - the fee estimator answers an arbitrary whole rate k = 0..65535 sat/vB (= 250*k sat/kW)
//     without error; fallback and floor are 0.  For such rates the real GetFee is exactly
//     k*size (float64 arithmetic is exact), so on the symbolic side GetFee is replaced by that
//     integer formula (floating point makes every fee comparison a minutes-long solver query);
//     GetFee itself — errors, fallback, floor, fractional rates — is C30's subject.  Natively the
//     real GetFee runs against the same estimator.
// ---------------------------------------------------------------------------------------

const vSpMaxOuts = 4

type vSpOut struct {
	value  int64
	script []byte
	kind   int
}

type vSpBtc struct {
	chain  *BitcoinOnChain
	params *swap.OpeningParams
	maker  []byte
	taker  []byte
	hash   []byte
	mh     string
	th     string
	hh     string
	outs   []vSpOut
	want   []byte // expected output script OP_0 <SHA256(redeemScript)>
	hexTx  string
	tx     *wire.MsgTx // the opening transaction (native side: the real one)

	addrProg []byte
	addrStr  string

	est *vSpEstimator

	wsh []vSpWSH
}

type vSpWSH struct {
	p    *btcutil.AddressWitnessScriptHash
	prog []byte
}

var vSpB *vSpBtc

// vSpAddr is the wallet address object returned by the DecodeAddress stub.
type vSpAddr struct{ prog []byte }

func (a *vSpAddr) String() string                 { return "vaddr" }
func (a *vSpAddr) EncodeAddress() string          { return "vaddr" }
func (a *vSpAddr) ScriptAddress() []byte          { return a.prog }
func (a *vSpAddr) IsForNet(*chaincfg.Params) bool { return true }

func vSpHexDecode(x string) ([]byte, error) {
	e := vSpB
	if x == e.mh {
		return e.maker, nil
	}
	if x == e.th {
		return e.taker, nil
	}
	if x == e.hh {
		return e.hash, nil
	}
	if x == "20" {
		return []byte{0x20}, nil
	}
	if x == e.hexTx {
		return []byte{0}, nil // content irrelevant: Deserialize is stubbed
	}
	zzverif.Fail("unexpected hex string")
	return nil, nil
}

func vSpNewReader(b []byte) *bytes.Reader { return &bytes.Reader{} }

func vSpDeserialize(tx *wire.MsgTx, r io.Reader) error {
	e := vSpB
	tx.Version = 2
	tx.TxIn = nil
	tx.TxOut = nil
	for i := 0; i < len(e.outs); i++ {
		tx.TxOut = append(tx.TxOut, &wire.TxOut{Value: e.outs[i].value, PkScript: e.outs[i].script})
	}
	return nil
}

func vSpTxHash(tx *wire.MsgTx) chainhash.Hash {
	// an uninterpreted function of the transaction content with a 32-byte result (the sha256
	// intrinsic is itself uninterpreted; it only supplies the length)
	return chainhash.Hash(sha256.Sum256([]byte(zzverif.UFStr("txhash", tx))))
}

func vSpNewWSH(prog []byte, net *chaincfg.Params) (*btcutil.AddressWitnessScriptHash, error) {
	a := &btcutil.AddressWitnessScriptHash{}
	vSpB.wsh = append(vSpB.wsh, vSpWSH{p: a, prog: prog})
	return a, nil
}

func vSpWSHScriptAddress(a *btcutil.AddressSegWit) []byte {
	for i := 0; i < len(vSpB.wsh); i++ {
		if &vSpB.wsh[i].p.AddressSegWit == a {
			return vSpB.wsh[i].prog
		}
	}
	zzverif.Fail("unknown address object")
	return nil
}

func vSpDecodeAddress(addr string, net *chaincfg.Params) (btcutil.Address, error) {
	if addr != vSpB.addrStr {
		zzverif.Fail("DecodeAddress of a string that is not the wallet's address")
	}
	return &vSpAddr{prog: vSpB.addrProg}, nil
}

// vSpEstimator: every call answers an arbitrary whole rate in sat/vB and remembers it.
type vSpEstimator struct{ perVb []uint64 }

func (e *vSpEstimator) EstimateFeePerKW(targetBlocks uint32) (btcutil.Amount, error) {
	k := uint64(zzverif.U16("fee_rate_sat_per_vb"))
	e.perVb = append(e.perVb, k)
	return btcutil.Amount(int64(k * 250)), nil
}
func (e *vSpEstimator) Start() error { return nil }

// vSpGetFee (symbolic side only): GetFee for the whole-sat/vB rates of vSpEstimator.
func vSpGetFee(b *BitcoinOnChain, txSize int64) (uint64, error) {
	b.estimator.EstimateFeePerKW(BitcoinFeeTargetBlocks)
	est := vSpB.est
	return est.perVb[len(est.perVb)-1] * uint64(txSize), nil // no division: 64-bit bvudiv stalls the solver
}

func vSpNewTxSigHashes(tx *wire.MsgTx, f txscript.PrevOutputFetcher) *txscript.TxSigHashes {
	return &txscript.TxSigHashes{}
}

func vSpCalcWitnessSigHash(script []byte, sh *txscript.TxSigHashes, ht txscript.SigHashType, tx *wire.MsgTx, idx int, amt int64) ([]byte, error) {
	return []byte(zzverif.UFStr("sighash", script, uint32(ht), tx, idx, amt)), nil
}

// vSpBtcSetup draws the world.  maxOuts bounds the number of opening outputs.
func vSpBtcSetup(maxOuts int) *vSpBtc {
	e := &vSpBtc{}
	vSpB = e
	e.est = &vSpEstimator{}
	e.chain = NewBitcoinOnChain(e.est, 0, 0, vBtcChain()) // a literal Params value: a global of the non-executed chaincfg package would be havocked (8x paths)
	e.maker = zzverif.Bytes("maker", 33)
	e.taker = zzverif.Bytes("taker", 33)
	e.hash = zzverif.Bytes("hash", 32)
	vNoteLen(e.maker)
	vNoteLen(e.taker)
	vNoteLen(e.hash)
	// ASSUMPTION (C03 entries only): maker and taker keys differ.  Equal keys are covered by the
	// C02 entries; here the assumption only avoids forking on which hex string is decoded.
	zzverif.Assume(!bytes.Equal(e.maker, e.taker))
	e.mh, e.th, e.hh = hex.EncodeToString(e.maker), hex.EncodeToString(e.taker), hex.EncodeToString(e.hash)
	e.params = &swap.OpeningParams{TakerPubkey: e.th, MakerPubkey: e.mh, ClaimPaymentHash: e.hh, Amount: zzverif.U64("amount"), CSV: BitcoinCsv}
	if zzverif.Symbolic() {
		e.hexTx = "00"
		// facts implied by maker != taker and the lengths (66/66/64 hex digits); stating them once
		// lets the comparisons in vSpHexDecode resolve against the path condition instead of the
		// string solver
		zzverif.Assume(e.mh != e.th)
		zzverif.Assume(e.mh != e.hh)
		zzverif.Assume(e.th != e.hh)
		zzverif.Assume(e.mh != "20")
		zzverif.Assume(e.th != "20")
		zzverif.Assume(e.hh != "20")
		zzverif.Assume(e.mh != "00")
		zzverif.Assume(e.th != "00")
		zzverif.Assume(e.hh != "00")
		zzverif.Override("encoding/hex.DecodeString", vSpHexDecode)
		zzverif.Override("bytes.NewReader", vSpNewReader)
		zzverif.Override("(*github.com/btcsuite/btcd/wire.MsgTx).Deserialize", vSpDeserialize)
		zzverif.Override("(*github.com/btcsuite/btcd/wire.MsgTx).TxHash", vSpTxHash)
		zzverif.Override("github.com/btcsuite/btcd/btcutil.NewAddressWitnessScriptHash", vSpNewWSH)
		zzverif.Override("(*github.com/btcsuite/btcd/btcutil.AddressSegWit).ScriptAddress", vSpWSHScriptAddress)
		zzverif.Override("github.com/btcsuite/btcd/btcutil.DecodeAddress", vSpDecodeAddress)
		zzverif.Override("(*github.com/elementsproject/peerswap/onchain.BitcoinOnChain).GetFee", vSpGetFee)
		zzverif.Override("github.com/btcsuite/btcd/txscript.NewTxSigHashes", vSpNewTxSigHashes)
		zzverif.Override("github.com/btcsuite/btcd/txscript.CalcWitnessSigHash", vSpCalcWitnessSigHash)
	}
	want, err := e.chain.GetOutputScript(e.params)
	if err != nil {
		zzverif.Fail("GetOutputScript failed")
	}
	e.want = want
	// choices are numbered so that path 0 (the one the quick tier validates natively) is the
	// richest: maximal output count, every output carrying the swap script
	n := maxOuts - zzverif.Choice("outputs_below_max", maxOuts+1)
	vn := [vSpMaxOuts]string{"out0_value", "out1_value", "out2_value", "out3_value"}
	kn := [vSpMaxOuts]string{"out0_other_script", "out1_other_script", "out2_other_script", "out3_other_script"}
	sn := [vSpMaxOuts]string{"out0_script", "out1_script", "out2_script", "out3_script"}
	for i := 0; i < n; i++ {
		o := vSpOut{value: zzverif.I64(vn[i]), kind: 1 - zzverif.Choice(kn[i], 2)}
		other := zzverif.Bytes(sn[i], -1)
		if o.kind == 1 {
			o.script = want
		} else {
			// kind 1 covers equality; keeping kind 0 different makes the native run (real
			// SHA256) follow the same path as the symbolic one
			zzverif.Assume(!bytes.Equal(other, want))
			zzverif.Assume(len(other) <= 10000)
			o.script = other
		}
		e.outs = append(e.outs, o)
	}
	if !zzverif.Symbolic() {
		tx := wire.NewMsgTx(2)
		tx.AddTxIn(wire.NewTxIn(wire.NewOutPoint(&chainhash.Hash{1}, 0), nil, nil))
		for i := 0; i < len(e.outs); i++ {
			tx.AddTxOut(wire.NewTxOut(e.outs[i].value, e.outs[i].script))
		}
		var buf bytes.Buffer
		if err := tx.Serialize(&buf); err != nil {
			panic(err)
		}
		e.hexTx = hex.EncodeToString(buf.Bytes())
		e.tx = tx
	}
	return e
}

// expectedVout: index of the first output whose value is the negotiated amount, provided its
// script is the expected one (-1 otherwise) — the rule both ValidateTx and GetVoutAndVerify use.
func (e *vSpBtc) expectedVout() int {
	for i := 0; i < len(e.outs); i++ {
		if e.outs[i].value == int64(e.params.Amount) {
			if e.outs[i].kind == 1 {
				return i
			}
			return -1
		}
	}
	return -1
}

// vSpBtcVout: GetVoutAndVerify and ValidateTx agree: both accept iff the FIRST output carrying
// the negotiated amount has the expected P2WSH script, and the vout returned is that index.
func vSpBtcVout(maxOuts int) {
	e := vSpBtcSetup(maxOuts)
	ok, vout, err := e.chain.GetVoutAndVerify(e.hexTx, e.params)
	vok, verr := e.chain.ValidateTx(e.params, e.hexTx)
	x := e.expectedVout()
	zzverif.Assert(err == nil, "C03.btc_vout_no_error")
	zzverif.Assert(verr == nil, "C03.btc_validate_no_error")
	zzverif.Assert(ok == (x >= 0), "C03.btc_vout_accept_iff_first_by_value_has_script")
	zzverif.Assert(vok == ok, "C03.btc_vout_same_verdict_as_ValidateTx")
	if ok {
		zzverif.Assert(int(vout) == x, "C03.btc_vout_index")
	}
}

// H_C03_btcVout: bounds 0..4 outputs; values arbitrary int64, amount arbitrary uint64, scripts
// arbitrary (<= 10000 bytes) or exactly the expected script.
func H_C03_btcVout() { vSpBtcVout(vSpMaxOuts) }

const (
	vSpPreimage = 0
	vSpCsv      = 1
	vSpCoop     = 2
)

// vSpBtcSpend drives GetVoutAndVerify + PrepareSpendingTransaction with the argument pattern of
// the adapter function for `kind` on an opening transaction that ValidateTx accepts.
func vSpBtcSpend(kind int, maxOuts int) {
	e := vSpBtcSetup(maxOuts)
	vok, verr := e.chain.ValidateTx(e.params, e.hexTx)
	if verr != nil || !vok {
		// precondition of C03: the opening transaction passed validation.  (The adapters ignore
		// the boolean of GetVoutAndVerify and would go on with vout 0 — see report.)
		zzverif.Reach("C03.btc_opening_not_validated")
		return
	}
	x := e.expectedVout()
	_, vout, err := e.chain.GetVoutAndVerify(e.hexTx, e.params)
	zzverif.Assert(err == nil, "C03.btc_spend_vout_no_error")
	zzverif.Assert(x >= 0 && int(vout) == x, "C03.btc_spend_vout_is_validated_output")
	if x < 0 {
		return
	}

	// the wallet's fresh address: a witness-v0 key-hash address
	e.addrProg = zzverif.Bytes("wallet_addr_program", 20)
	if zzverif.Symbolic() {
		e.addrStr = "vaddr"
	} else {
		a, aerr := btcutil.NewAddressWitnessPubKeyHash(e.addrProg, e.chain.GetChain())
		if aerr != nil {
			panic(aerr)
		}
		e.addrStr = a.EncodeAddress()
	}

	csv := uint32(0)
	prepared := uint64(0)
	if kind == vSpCsv {
		csv = BitcoinCsv
	}
	if kind == vSpCoop {
		prepared, _ = e.chain.GetFee(250) // clightning GetRefundFee / lnd GetRefundFee
	}
	claim := &swap.ClaimParams{OpeningTxHex: e.hexTx}
	tx, sigHash, redeem, perr := e.chain.PrepareSpendingTransaction(e.params, claim, e.addrStr, vout, csv, prepared)
	zzverif.Assert(perr == nil, "C03.btc_prepare_no_error")
	if perr != nil {
		return
	}

	// the opening transaction as the node parses it
	op := wire.NewMsgTx(2)
	raw, _ := hex.DecodeString(e.hexTx)
	if derr := op.Deserialize(bytes.NewReader(raw)); derr != nil {
		zzverif.Fail("opening transaction does not parse")
	}
	opHash := op.TxHash()
	spent := op.TxOut[x].Value

	zzverif.Assert(tx.Version == 2, "C03.btc_version_2")
	zzverif.Assert(tx.LockTime == 0, "C03.btc_locktime_0")
	zzverif.Assert(len(tx.TxIn) == 1, "C03.btc_one_input")
	zzverif.Assert(len(tx.TxOut) == 1, "C03.btc_one_output")
	if len(tx.TxIn) != 1 || len(tx.TxOut) != 1 {
		return
	}
	in := tx.TxIn[0]
	zzverif.Assert(in.PreviousOutPoint.Hash == opHash, "C03.btc_spends_opening_txid")
	zzverif.Assert(in.PreviousOutPoint.Index == uint32(x), "C03.btc_spends_validated_vout")
	zzverif.Assert(len(in.SignatureScript) == 0, "C03.btc_empty_scriptsig")
	if kind == vSpCsv {
		zzverif.Assert(in.Sequence == BitcoinCsv, "C03.btc_csv_sequence_is_csv")
	} else {
		zzverif.Assert(in.Sequence == 0, "C03.btc_sequence_0")
	}

	// single output to the wallet address: OP_0 <20-byte program>
	wantOut := append([]byte{0x00, 0x14}, e.addrProg...)
	zzverif.Assert(bytes.Equal(tx.TxOut[0].PkScript, wantOut), "C03.btc_pays_wallet_script")

	// value: spent - 200 - fee (two's complement 64-bit), fee = prepared fee or, when that is 0,
	// GetFee(stripped size 82 + 74) at the rate of the estimator's last answer
	fee := prepared
	if prepared == 0 {
		fee = e.est.perVb[len(e.est.perVb)-1] * (82 + 74)
	}
	zzverif.Assert(spent == int64(e.params.Amount), "C03.btc_spent_value_is_amount")
	zzverif.Assert(tx.TxOut[0].Value == spent-200-int64(fee), "C03.btc_value_is_spent_minus_200_minus_fee")
	// (sign/range of that value: H_C03_btcValueRange)

	// redeem script and sighash arguments: (redeem script, input 0, SIGHASH_ALL, spent value)
	wantRedeem, _ := GetOpeningTxScript(e.taker, e.maker, e.hash, BitcoinCsv)
	zzverif.Assert(bytes.Equal(redeem, wantRedeem), "C03.btc_redeem_script")
	fetcher := txscript.NewCannedPrevOutputFetcher(e.want, spent)
	wantHash, _ := txscript.CalcWitnessSigHash(wantRedeem, txscript.NewTxSigHashes(tx, fetcher), txscript.SigHashAll, tx, 0, spent)
	zzverif.Assert(bytes.Equal(sigHash, wantHash), "C03.btc_sighash_args")
}

// H_C03_btcPreimageSpend / CsvSpend / CoopSpend: on every opening transaction ValidateTx accepts
// (0..3 outputs quick, 0..4 thorough) the spending transaction built with the adapter's
// arguments has version 2, locktime 0, exactly one input spending (TxHash(opening), validated
// vout) with empty scriptSig and nSequence 0 (preimage, coop) / 1008 (csv), exactly one output
// paying OP_0 <wallet program> with value spent-200-fee (fee = GetFee(156 vB), or GetFee(250) for
// coop unless that is 0), and the sighash is computed over (redeem script, input 0, SIGHASH_ALL,
// spent value).  Fee rate arbitrary whole 0..65535 sat/vB.
func H_C03_btcPreimageSpend()   { vSpBtcSpend(vSpPreimage, 3) }
func H_C03_btcCsvSpend()        { vSpBtcSpend(vSpCsv, 3) }
func H_C03_btcCoopSpend()       { vSpBtcSpend(vSpCoop, 3) }
func H_C03_T_btcPreimageSpend() { vSpBtcSpend(vSpPreimage, vSpMaxOuts) }
func H_C03_T_btcCsvSpend()      { vSpBtcSpend(vSpCsv, vSpMaxOuts) }
func H_C03_T_btcCoopSpend()     { vSpBtcSpend(vSpCoop, vSpMaxOuts) }

// H_C03_btcValueRange: arithmetic of the Bitcoin builder's output value v = spent - 200 - fee
// (the formula H_C03_btc*Spend prove for the real code; 64-bit two's complement, fee converted
// with int64(fee) as bitcoin.go:245 does): v is in [0, spent] exactly when spent >= 200 and
// fee <= spent-200, for 0 <= spent <= 21e14 sat.  Otherwise the builder returns a transaction
// with a NEGATIVE output value (nothing in bitcoin.go checks it); such a transaction is invalid
// and cannot move funds.  With the default policy minimum of 100 000 sat this needs a fee above
// 99 800 sat, i.e. more than 639 sat/vB for the 156 vB estimate.  The constant 200 sat is
// deducted in addition to the fee (bitcoin.go:224) and silently goes to the miner.
func H_C03_btcValueRange() {
	spent := zzverif.I64("spent")
	fee := zzverif.U64("fee")
	zzverif.Assume(spent >= 0 && spent <= 2100000000000000)
	v := spent - 200 - int64(fee)
	fits := spent >= 200 && fee <= uint64(spent-200)
	if fits {
		zzverif.Assert(v >= 0, "C03.btc_value_nonnegative_when_fee_fits")
		zzverif.Assert(v <= spent, "C03.btc_value_at_most_spent_when_fee_fits")
		zzverif.Assert(uint64(v)+fee+200 == uint64(spent), "C03.btc_value_plus_fee_plus_200_is_spent")
	} else {
		zzverif.Reach("C03.btc_negative_output_when_fee_exceeds_value")
		zzverif.Assert(v < 0 || fee > 1<<62, "C03.btc_value_negative_or_absurd_fee_otherwise")
	}
}
