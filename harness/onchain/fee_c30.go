//go:build verif

package onchain

import (
	"github.com/elementsproject/glightning/gbitcoin"

	"errors"
	"math"
	"regexp"
	"strconv"

	"github.com/btcsuite/btcd/btcutil"
	"github.com/btcsuite/btcd/chaincfg"
	"github.com/elementsproject/peerswap/zzverif"
)

// ---------------------------------------------------------------------------------------
// C30 — BitcoinOnChain.GetFee, DetermineFeeFloor, normalizeBitcoinVersion, parseVersionSegment.
//
// Environment:
//   - Estimator is an interface: vFeeEstimator answers one arbitrary (amount, error) pair per
//     call — any int64 amount (negative, zero, huge), with or without an error, and an arbitrary
//     amount next to an error.  Nothing else of the estimator is assumed.
//   - The BitcoinOnChain object is built by the real constructor NewBitcoinOnChain with arbitrary
//     int64 fallback and floor (the constructor checks nothing, so nothing is assumed).
//   - "The regex engine is trusted": `regexp` is not executed.  FindStringSubmatch of
//     bitcoinVersionPattern `(\d+)(?:\.(\d+))?(?:\.(\d+))?` is replaced (symbolic side only) by a
//     stub answering nil (no digit in the input) or the 4-element list [whole, major, minor, patch]
//     where major is a non-empty digit run, minor/patch are digit runs or "" for an unmatched
//     group, patch != "" only if minor != "".  Natively the input is "/Satoshi:" + the drawn
//     components joined by "." + "/" (or "custom" for no match) and the real regexp produces that
//     same list.  Components are decimal renderings of arbitrary 64-bit values; strconv.Atoi of
//     such a rendering is exact in the engine (range error above MaxInt64).
// ---------------------------------------------------------------------------------------

type vFeeEstimator struct {
	amount btcutil.Amount
	fail   bool
	calls  int
	target uint32
	// realistic: answers restricted to the domain of H_C30_getFeeRateRealistic
	realistic bool
}

func (e *vFeeEstimator) EstimateFeePerKW(targetBlocks uint32) (btcutil.Amount, error) {
	e.calls++
	e.target = targetBlocks
	e.amount = btcutil.Amount(zzverif.I64("estimate.amount"))
	if e.realistic {
		zzverif.Assume(e.amount >= 0 && e.amount <= 1<<40)
	}
	e.fail = zzverif.Bool("estimate.err")
	if e.fail {
		return e.amount, errors.New("estimator failed")
	}
	return e.amount, nil
}

func (e *vFeeEstimator) Start() error { return nil }

// vFeeOf is the documented conversion sat/kW -> fee in sat for a size in vbytes.
func vFeeOf(rateSatPerKw btcutil.Amount, txSize int64) uint64 {
	satPerKb := rateSatPerKw * 4
	satPerVb := float64(satPerKb) / 1000
	return uint64(satPerVb * float64(txSize))
}

// H_C30_getFeeRate: for every estimator answer, fallback, floor and size GetFee returns no error
// and the fee is the documented conversion of the rate
//
//	r = max(floor, base),  base = fallback if the estimator erred or said 0, else its answer
//
// hence r >= floor on every path and r = max(floor, fallback) when estimation failed or returned
// zero.  The estimator is asked once, for target 6.  All quantities arbitrary 64-bit values.
func H_C30_getFeeRate() { vGetFeeRate(false) }

// H_C30_getFeeRateRealistic: the same obligations on the domain the callers produce (rates 0..2^40 sat/kW,
// sizes 1..2^22 vbytes): there every conversion is in range, so a deviation found by the solver also shows
// natively (outside it float -> uint64 conversions of out-of-range values are arbitrary in the SMT theory
// and saturating on amd64, and a counterexample may not replay).
func H_C30_getFeeRateRealistic() { vGetFeeRate(true) }

func vGetFeeRate(realistic bool) {
	est := &vFeeEstimator{realistic: realistic}
	fallback := btcutil.Amount(zzverif.I64("fallback"))
	floor := btcutil.Amount(zzverif.I64("floor"))
	size := zzverif.I64("size")
	if realistic {
		zzverif.Assume(fallback >= 0 && fallback <= 1<<40 && floor >= 0 && floor <= 1<<40 && size >= 1 && size <= 1<<22)
	}
	b := NewBitcoinOnChain(est, fallback, floor, &chaincfg.MainNetParams)
	zzverif.Assert(b.fallbackFeeRateSatPerKw == fallback && b.feeFloorSatPerKw == floor, "C30.constructor_keeps_rates")

	fee, err := b.GetFee(size)

	zzverif.Assert(err == nil, "C30.getfee_no_error")
	zzverif.Assert(est.calls == 1 && est.target == 6, "C30.estimator_asked_once_target_6")
	noEstimate := est.fail || est.amount == 0
	base := est.amount
	if noEstimate {
		base = fallback
	}
	r := base
	if r < floor {
		r = floor
	}
	zzverif.Assert(r >= floor, "C30.rate_at_least_floor")
	zzverif.Assert(fee == vFeeOf(r, size), "C30.fee_uses_clamped_rate")
	if noEstimate {
		want := fallback
		if want < floor {
			want = floor
		}
		zzverif.Assert(fee == vFeeOf(want, size), "C30.fallback_when_no_estimate")
	}
}

// vFeeParts exposes the intermediate floats of the documented conversion.
func vFeeParts(rateSatPerKw btcutil.Amount, txSize int64) (satPerVb, product float64, fee uint64) {
	satPerKb := rateSatPerKw * 4
	satPerVb = float64(satPerKb) / 1000
	product = satPerVb * float64(txSize)
	return satPerVb, product, uint64(product)
}

// vFeeClamped is the specified rate: max(floor, estimate or fallback).
func vFeeClamped(est *vFeeEstimator, fallback, floor btcutil.Amount) btcutil.Amount {
	r := est.amount
	if est.fail || est.amount == 0 {
		r = fallback
	}
	if r < floor {
		r = floor
	}
	return r
}

// FP monotonicity "fee(rate) >= fee(floor)" is split along the three float operations
//
//	q = float64(rate*4) / 1000;  p = q * float64(size);  fee = uint64(p)
//
// because the monolithic query — and already the single-operation monotonicity lemmas for
// double-precision multiplication and for division with a symbolic bound — are out of reach of
// bit-blasting (z3 4.8.12, z3 5.1, cvc5 1.0.3: unknown after 200-300 s each):
//   - H_C30_getFeeRate (above): fee = uint64(p(r)) for the clamped rate r >= floor.     PROVED
//   - H_C30_satPerVbAtLeastFloor: q(r) >= q(floor) > 0 for the two floors a node can
//     configure, every rate floor <= r <= btcutil.MaxSatoshi.                           PROVED
//   - multiplication by the common factor float64(size), 0 <= size <= 10^6, keeps the
//     order and the product stays below 2^64 (<= 8.4e18*(1+2^-52)).                     ASSUMED
//     (IEEE-754: a correctly rounded operation is monotone in each argument.)
//   - H_C30_floatToUintMonotone: 0 <= y <= x <= 1e19  =>  uint64(x) >= uint64(y)
//     for all float64 x, y.                                                             PROVED
// Domain: rates <= btcutil.MaxSatoshi = 2.1e15 (the range of a btcutil.Amount; rate*4 stays below
// 2^53, so int -> float is exact; from 2^61 on the int64 product rate*4 wraps and the fee is
// meaningless), 0 <= size <= 10^6 vbytes.

// H_C30_satPerVbAtLeastFloor: for floor = 25 or 253 (the results of DetermineFeeFloor, which both
// daemons pass as floor and as fallback) and every clamped rate floor <= r <= MaxSatoshi the
// sat/vB rate float64(r*4)/1000 is at least the floor's sat/vB rate, which is positive.
func H_C30_satPerVbAtLeastFloor() {
	floor := LegacyFeeFloorSatPerKw
	if zzverif.Bool("modern") {
		floor = ModernFeeFloorSatPerKw
	}
	r := btcutil.Amount(zzverif.I64("rate"))
	zzverif.Assume(r >= floor)
	zzverif.Assume(r <= btcutil.MaxSatoshi)
	qr, _, _ := vFeeParts(r, 1)
	qf, _, _ := vFeeParts(floor, 1)
	zzverif.Assert(qr >= qf, "C30.sat_per_vb_at_least_floor")
	zzverif.Assert(qf > 0, "C30.floor_sat_per_vb_positive")
}

// H_C30_floatToUintMonotone: the float64 -> uint64 conversion keeps the order on [0, 1e19].
func H_C30_floatToUintMonotone() {
	x := math.Float64frombits(zzverif.U64("x.bits"))
	y := math.Float64frombits(zzverif.U64("y.bits"))
	zzverif.Assume(y >= 0 && x >= y && x <= 1e19)
	zzverif.Assert(uint64(x) >= uint64(y), "C30.float_to_uint_monotone")
}

// ---- fee floor from the version string ----

// answer of the overridden FindStringSubmatch
var vFloorAnswer []string

func vFloorFindStringSubmatch(re *regexp.Regexp, s string) []string { return vFloorAnswer }

func vDecimal(x uint64) string { return string(strconv.AppendUint(nil, x, 10)) }

type vFloorVersion struct {
	input                string
	matched              bool
	major, minor, patch  uint64
	hasMinor, hasPatch   bool
	majorFits, minorFits bool
}

// vFloorDraw draws a subversion string with 0..3 numeric components.
func vFloorDraw() vFloorVersion {
	v := vFloorVersion{matched: zzverif.Bool("matched")}
	if !v.matched {
		v.input = "custom"
		vFloorAnswer = nil
	} else {
		v.major = zzverif.U64("major")
		v.hasMinor = zzverif.Bool("has_minor")
		whole := vDecimal(v.major)
		ans := []string{"", vDecimal(v.major), "", ""}
		if v.hasMinor {
			v.minor = zzverif.U64("minor")
			whole += "." + vDecimal(v.minor)
			ans[2] = vDecimal(v.minor)
			v.hasPatch = zzverif.Bool("has_patch")
			if v.hasPatch {
				v.patch = zzverif.U64("patch")
				whole += "." + vDecimal(v.patch)
				ans[3] = vDecimal(v.patch)
			}
		}
		ans[0] = whole
		v.input = "/Satoshi:" + whole + "/"
		vFloorAnswer = ans
	}
	v.majorFits = v.major <= math.MaxInt64
	v.minorFits = v.minor <= math.MaxInt64
	if zzverif.Symbolic() {
		zzverif.Override("(*regexp.Regexp).FindStringSubmatch", vFloorFindStringSubmatch)
	}
	return v
}

// H_C30_feeFloor: DetermineFeeFloor returns 25 or 253; 253 with normalized "" when the string has
// no version or the major does not fit an int; with components that fit an int:
// floor = 25 <=> (major, minor) >= (29, 2) (missing minor = 0); in every case floor = 25 only
// if (major, minor) >= (29, 2) numerically (a minor beyond int reads as 0: the higher floor).
func H_C30_feeFloor() {
	v := vFloorDraw()
	floor, normalized := DetermineFeeFloor(v.input)
	zzverif.Assert(floor == ModernFeeFloorSatPerKw || floor == LegacyFeeFloorSatPerKw, "C30.floor_is_25_or_253")
	zzverif.Assert(ModernFeeFloorSatPerKw == 25 && LegacyFeeFloorSatPerKw == 253, "C30.floor_constants")
	if !v.matched || !v.majorFits {
		zzverif.Assert(floor == 253 && normalized == "", "C30.unparsable_is_legacy")
		return
	}
	modern := v.major > 29 || (v.major == 29 && v.hasMinor && v.minor >= 2)
	zzverif.Assert(floor != 25 || modern, "C30.modern_floor_only_from_29_2")
	if v.minorFits {
		zzverif.Assert((floor == 25) == modern, "C30.floor_exact")
	}
}

// H_C30_normalizeVersion: normalizeBitcoinVersion returns nil exactly for unparsable input and
// otherwise the three numeric components (missing or beyond int = 0).
func H_C30_normalizeVersion() {
	v := vFloorDraw()
	got := normalizeBitcoinVersion(v.input)
	if !v.matched || !v.majorFits {
		zzverif.Assert(got == nil, "C30.normalize_nil")
		return
	}
	zzverif.Assert(got != nil, "C30.normalize_some")
	wantMinor, wantPatch := 0, 0
	if v.hasMinor && v.minorFits {
		wantMinor = int(v.minor)
	}
	if v.hasPatch && v.patch <= math.MaxInt64 {
		wantPatch = int(v.patch)
	}
	zzverif.Assert(got.major == int(v.major) && got.minor == wantMinor && got.patch == wantPatch, "C30.normalize_components")
}

// H_C30_parseSegment: parseVersionSegment on an arbitrary list of 0..4 entries (each "" or a digit
// run) and an index 0..4: the numeric value when the entry exists, is non-empty and fits an
// int, otherwise 0.  (Pure function: no regexp involved, lists shorter than the regexp would
// return are included.)
func H_C30_parseSegment() {
	n := zzverif.Choice("n", 5)
	idx := zzverif.Choice("idx", 5)
	var list []string
	var vals [4]uint64
	var present [4]bool
	for i := 0; i < n; i++ {
		present[i] = zzverif.Bool("present" + strconv.Itoa(i))
		s := ""
		if present[i] {
			vals[i] = zzverif.U64("val" + strconv.Itoa(i))
			s = vDecimal(vals[i])
		}
		list = append(list, s)
	}
	got := parseVersionSegment(list, idx)
	want := 0
	if idx < n && present[idx] && vals[idx] <= math.MaxInt64 {
		want = int(vals[idx])
	}
	zzverif.Assert(got == want, "C30.segment_value")
}

// vBitcoind answers the three calls of the bitcoind-backed estimator.
type vBitcoind struct {
	feeRate float64 // BTC/kB as estimatesmartfee reports it
	fail    bool
	calls   int
}

func (b *vBitcoind) GetMempoolInfo() (*gbitcoin.MempoolInfo, error) {
	return nil, errors.New("not used: Start() is not called")
}
func (b *vBitcoind) EstimateFee(blocks uint32, mode string) (*gbitcoin.FeeResponse, error) {
	b.calls++
	if b.fail {
		return nil, errors.New("estimatesmartfee failed")
	}
	return &gbitcoin.FeeResponse{FeeRate: b.feeRate}, nil
}
func (b *vBitcoind) Ping() (bool, error) { return true, nil }

// H_C30_bitcoindEstimatorFallsBack: the bitcoind-backed estimator (what the CLN plugin wires in) built by its
// real constructor from a configured fallback rate and a floor: when estimatesmartfee fails, or answers with
// no estimate (fee rate 0: "insufficient data"), the rate it hands on is the configured fallback (or the floor
// if that is higher); an estimate below the floor is raised to the floor; any other estimate is passed on
// converted from BTC/kB to sat/kW.  The rate never is below the floor.
// Bounds: estimates from {none, 0.00000100, 0.00001000, 0.00025000, 0.01 BTC/kB}, fallback and floor
// arbitrary in 1..2^40 sat/kW.
func H_C30_bitcoindEstimatorFallsBack() {
	fallback, floor := btcutil.Amount(zzverif.I64("fallback")), btcutil.Amount(zzverif.I64("floor"))
	zzverif.Assume(fallback >= 1 && fallback <= 1<<40 && floor >= 1 && floor <= 1<<40)
	rates := []float64{0, 0.000001, 0.00001, 0.00025, 0.01}
	satPerKw := []btcutil.Amount{0, 25, 250, 6250, 250000}
	k := zzverif.Choice("estimate", len(rates))
	b := &vBitcoind{feeRate: rates[k], fail: zzverif.Bool("estimate.err")}
	est, err := NewGBitcoindEstimator(b, "ECONOMICAL", fallback, floor)
	zzverif.Assert(err == nil && est != nil, "C30.estimator_constructed")
	if est == nil {
		return
	}
	got, gerr := est.EstimateFeePerKW(6)
	zzverif.Assert(gerr == nil && b.calls == 1, "C30.estimator_asks_once_and_never_fails")
	zzverif.Assert(got >= floor, "C30.estimator_rate_at_least_floor")
	want := satPerKw[k]
	if b.fail || want == 0 {
		want = fallback
	}
	if want < floor {
		want = floor
	}
	zzverif.Assert(got == want, "C30.estimator_falls_back_to_the_configured_rate")
}
