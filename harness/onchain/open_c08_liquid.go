//go:build verif

package onchain

import (
	"bytes"
	"errors"

	"github.com/elementsproject/peerswap/swap"
	"github.com/elementsproject/peerswap/zzverif"
	"github.com/vulpemventures/go-elements/address"
	"github.com/vulpemventures/go-elements/elementsutil"
	"github.com/vulpemventures/go-elements/transaction"
)

// ---------------------------------------------------------------------------------------
// C08 (Liquid adapter) — LiquidOnChain.CreateOpeningTransaction.
//
// The wallet (wallet.Wallet interface) is vLqWallet: CreateAndBroadcastTransaction fails
// arbitrarily or "funds and broadcasts" a transaction of 1..4 outputs in which the output paying
// the script of swapParams.OpeningAddress sits at an arbitrary position k; the other outputs are
// change (arbitrary other script) or fee outputs (empty script).  It returns the transaction's
// hex, an id and an arbitrary fee.  Natively the wallet builds a real go-elements transaction
// (explicit outputs, one dummy input), serialises it with ToHex and returns its real TxHash, so
// VoutFromTxHex / the real parser read back exactly what was "broadcast".
// The go-elements library is stubbed as described in validate_c01_liquid.go.
// ---------------------------------------------------------------------------------------

type vLqWallet struct {
	calls     int
	gotAddr   string
	gotAmount uint64
	gotAsset  []byte
	failed    bool
	swapIndex int
	n         int
	txid      string
	rawTx     string
	fee       uint64
}

func (w *vLqWallet) CreateAndBroadcastTransaction(p *swap.OpeningParams, asset []byte) (string, string, uint64, error) {
	w.calls++
	w.gotAddr, w.gotAmount, w.gotAsset = p.OpeningAddress, p.Amount, asset
	w.failed = zzverif.Bool("wallet.err")
	if w.failed {
		return "", "", 0, errors.New("wallet: insufficient funds")
	}
	swapScript, err := address.ToOutputScript(p.OpeningAddress)
	if err != nil {
		zzverif.Fail("wallet: opening address does not decode")
	}
	w.n = 1 + zzverif.Choice("wallet.outputs", vLqMaxOutput)
	w.swapIndex = zzverif.Choice("wallet.swap_index", w.n)
	tx := &transaction.Transaction{Version: 2}
	for i := 0; i < w.n; i++ {
		script, value := swapScript, p.Amount
		if i != w.swapIndex {
			value = zzverif.U64("wallet.other_value")
			if zzverif.Bool("wallet.other_is_fee") {
				script = []byte{}
			} else {
				script = zzverif.Bytes("wallet.change_script", -1)
				zzverif.Assume(!bytes.Equal(script, swapScript))
			}
		}
		var val []byte
		if zzverif.Symbolic() {
			val = zzverif.Bytes("wallet.value_bytes", 9)
		} else {
			zzverif.Bytes("wallet.value_bytes", 9)
			val, _ = elementsutil.ValueToBytes(value)
		}
		out := &transaction.TxOutput{Asset: asset, Value: val, Script: script, Nonce: []byte{0x00}}
		tx.Outputs = append(tx.Outputs, out)
		vLqOuts = append(vLqOuts, &vLqOut{kind: vLqExplicit, isSwap: i == w.swapIndex, out: out, value: value})
	}
	w.txid = zzverif.Str("wallet.txid")
	w.fee = zzverif.U64("wallet.fee")
	vLqTx = tx
	if zzverif.Symbolic() {
		w.rawTx = "0200"
	} else {
		tx.Inputs = append(tx.Inputs, transaction.NewTxInput(make([]byte, 32), 0))
		h, err := tx.ToHex()
		if err != nil {
			panic(err)
		}
		w.rawTx = h
		w.txid = tx.TxHash().String()
	}
	vLqTxHex = w.rawTx
	zzverif.Effect("broadcast", w.txid, w.rawTx)
	return w.txid, w.rawTx, w.fee, nil
}

func (w *vLqWallet) GetAddress() (string, error) { zzverif.Fail("unused"); return "", nil }
func (w *vLqWallet) SendToAddress(string, uint64) (string, error) {
	zzverif.Fail("unused")
	return "", nil
}
func (w *vLqWallet) GetBalance() (uint64, error)                { zzverif.Fail("unused"); return 0, nil }
func (w *vLqWallet) SendRawTx(rawTx string) (string, error)     { zzverif.Fail("unused"); return "", nil }
func (w *vLqWallet) GetFee(txSize int64) (uint64, error)        { zzverif.Fail("unused"); return 0, nil }
func (w *vLqWallet) SetLabel(txID, address, label string) error { zzverif.Fail("unused"); return nil }
func (w *vLqWallet) Ping() (bool, error)                        { return true, nil }

// vLqOpen runs CreateOpeningTransaction and checks everything except the output index.
func vLqOpen(vout *uint32) (w *vLqWallet, l *LiquidOnChain, redeem []byte, txHex string, ok bool) {
	zzverif.Unwind(12)
	vLqReset()
	vLqInstall()
	w = &vLqWallet{}
	l = vLqNewChain(w, 32)
	p := vLqDrawParams()
	redeem, expected := vLqExpectedScript(p)

	txHex, addr, txid, fee, v, err := l.CreateOpeningTransaction(p)
	*vout = v

	zzverif.Assert(w.calls == 1, "C08.lq_wallet_called_once")
	if w.failed {
		zzverif.Assert(err != nil, "C08.lq_wallet_error_propagates")
		return w, l, redeem, txHex, false
	}
	zzverif.Assert(err == nil, "C08.lq_no_error")
	zzverif.Assert(txHex == w.rawTx, "C08.lq_txhex_is_broadcast_tx")
	zzverif.Assert(txid == w.txid, "C08.lq_txid_is_broadcast_txid")
	zzverif.Assert(fee == w.fee, "C08.lq_fee_is_wallet_fee")
	zzverif.Assert(w.gotAmount == p.Amount, "C08.lq_wallet_gets_amount")
	zzverif.Assert(bytes.Equal(w.gotAsset, l.asset), "C08.lq_wallet_gets_policy_asset")
	zzverif.Assert(addr == w.gotAddr && addr == p.OpeningAddress, "C08.lq_address_is_the_funded_one")
	// the funded address pays the swap script and is blinded for the announced blinding key
	s, serr := address.ToOutputScript(addr)
	zzverif.Assert(serr == nil && bytes.Equal(s, expected), "C08.lq_address_pays_swap_script")
	// C02's view: the output the maker funds commits to the script of *this swap's* parameters - its CSV
	// (10080 for protocol 7, 60 legacy), its keys, its hash - and to no other script
	zzverif.Assert(serr == nil && bytes.Equal(s, expected), "C02.funded_output_commits_to_the_script_of_the_swap_parameters")
	blinded, berr := l.CreateBlindedOpeningAddress(redeem, p.BlindingKey.PubKey())
	zzverif.Assert(berr == nil && blinded == addr, "C08.lq_address_blinded_with_announced_key")
	return w, l, redeem, txHex, true
}

// H_C08_liquidOpeningTx: CreateOpeningTransaction hands the wallet the amount, the policy asset
// and an address that pays the swap script blinded for BlindingKey, and returns the broadcast
// transaction's hex, id and fee; VoutFromTxHex(txHex, redeemScript) finds the swap output at
// every position.  1..4 outputs, swap output at any position, change/fee outputs around it.
func H_C08_liquidOpeningTx() {
	var vout uint32
	w, l, redeem, txHex, ok := vLqOpen(&vout)
	if !ok {
		return
	}
	want, verr := l.VoutFromTxHex(txHex, redeem)
	zzverif.Assert(verr == nil && int(want) == w.swapIndex, "C08.lq_voutfromtxhex_finds_swap_output")
}

// H_C08_liquidOpeningVout: the returned vout is the index of the output paying the swap script in
// the broadcast transaction, for every position of change and fee outputs (1..4 outputs).
// zzverif:also C02
func H_C08_liquidOpeningVout() {
	var vout uint32
	w, _, _, _, ok := vLqOpen(&vout)
	if !ok {
		return
	}
	zzverif.Assert(int(vout) == w.swapIndex, "C08.lq_vout_is_swap_output_index")
}
