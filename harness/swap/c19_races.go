//go:build verif

package swap

import (
	"errors"
	"time"

	"github.com/elementsproject/peerswap/messages"
	"github.com/elementsproject/peerswap/zzverif"
)

// C19: data races between handlers that run on different goroutines of the daemon (peer message
// goroutine, tx watcher callback, payment notification, timer, RPC).  Each entry builds a swap in a
// waiting state inside a real SwapService, pre-draws the stimuli's values and hands the two handlers to
// zzverif.Race2 (see there).  Bounds: one pair of handlers per path, one swap, no injected faults.

// vC19Handler returns the handler for a stimulus with all scripted values drawn now.
func (sc *vScenario) vC19Handler(stim int) func() {
	id, peer := sc.sm.SwapId, sc.sm.Data.PeerNodeId
	switch stim {
	case stMsgCancel:
		payload := vMarshal(&CancelMessage{SwapId: id, Message: zzverif.Str("c19.cancel.message")})
		return func() { sc.svc.OnMessageReceived(peer, vHexType(messages.MESSAGETYPE_CANCELED), payload) }
	case stMsgCoopClose:
		payload := vMarshal(&CoopCloseMessage{SwapId: id, Message: zzverif.Str("c19.coop.message"), Privkey: zzverif.Str("c19.coop.privkey")})
		return func() { sc.svc.OnMessageReceived(peer, vHexType(messages.MESSAGETYPE_COOPCLOSE), payload) }
	case stTxConfirmed:
		txhex := zzverif.Str("c19.confirmed.txhex")
		return func() { sc.svc.OnTxConfirmed(sc.id, txhex, nil) }
	case stTxConfirmErr:
		return func() { sc.svc.OnTxConfirmed(sc.id, "", errors.New("payment window closed")) }
	case stCsvPassed:
		return func() { sc.svc.OnCsvPassed(sc.id) }
	case stPaidClaim:
		return func() { sc.svc.OnPayment(sc.id, INVOICE_CLAIM) }
	case stPaidFee:
		return func() { sc.svc.OnPayment(sc.id, INVOICE_FEE) }
	case stTimeout:
		return func() { sc.svc.createTimeoutCallback(sc.id)() }
	}
	return func() {}
}

// vC19Rpc: what an RPC goroutine reads while swaps are running (listswaps / getswap / listactiveswaps).
func (sc *vScenario) vC19Rpc() func() {
	return func() {
		if swaps, err := sc.svc.ListActiveSwaps(); err == nil {
			for _, s := range swaps {
				_ = s.Current
				_ = s.Data.GetOpeningTxId()
			}
		}
		if sm, err := sc.svc.GetSwap(sc.id); err == nil {
			_ = sm.Data.GetCancelMessage()
		}
		// swapout / swapin RPCs wait for the swap to reach a state (here: any state, so the call returns)
		if sm, err := sc.svc.GetActiveSwap(sc.id); err == nil {
			sm.WaitForStateChange(func(StateType) bool { return true }, time.Second)
		}
	}
}

func vC19Pair(role int, st StateType, a, b int) {
	sc := vBuild(role, st, false, 7)
	w := sc.env.w
	w.maxFaults = 0
	w.maxPayAttempts = 1
	w.narrow = sc.sm.Data
	ha, hb := sc.vC19Handler(a), sc.vC19Handler(b)
	zzverif.Race2("C19.race_free", ha, hb)
}

// H_C19_takerWatcherVsMessage: a taker waiting for the confirmation of the opening transaction: the tx
// watcher reports the confirmation (or the closed payment window) while the peer's cancel is handled.
func H_C19_takerWatcherVsMessage() {
	role, st := rOutSender, State_SwapOutSender_AwaitTxConfirmation
	if zzverif.Bool("swap_in") {
		role, st = rInReceiver, State_SwapInReceiver_AwaitTxConfirmation
	}
	a := stTxConfirmed
	if zzverif.Bool("watcher_error") {
		a = stTxConfirmErr
	}
	vC19Pair(role, st, a, stMsgCancel)
}

// H_C19_makerPaymentVsMessage: a maker waiting for the claim payment: the payment notification arrives
// while a cancel / coop_close of the peer is handled, or while the csv watcher calls back.
func H_C19_makerPaymentVsMessage() {
	role, st := rInSender, State_SwapInSender_AwaitClaimPayment
	if zzverif.Bool("swap_out") {
		role, st = rOutReceiver, State_SwapOutReceiver_AwaitClaimInvoicePayment
	}
	b := []int{stMsgCancel, stMsgCoopClose, stCsvPassed}[zzverif.Choice("second", 3)]
	vC19Pair(role, st, stPaidClaim, b)
}

// H_C19_rpcVsHandlers: an RPC command lists / reads swaps while a handler changes one.
func H_C19_rpcVsHandlers() {
	role, st := rOutSender, State_SwapOutSender_AwaitTxConfirmation
	if zzverif.Bool("maker") {
		role, st = rInSender, State_SwapInSender_AwaitClaimPayment
	}
	sc := vBuild(role, st, false, 7)
	w := sc.env.w
	w.maxFaults = 0
	w.maxPayAttempts = 1
	w.narrow = sc.sm.Data
	stim := stMsgCancel
	if role == rOutSender && zzverif.Bool("confirmed") {
		stim = stTxConfirmed
	}
	zzverif.Race2("C19.race_free", sc.vC19Handler(stim), sc.vC19Rpc())
}

// H_C19_recoveryVsMessage: RecoverSwaps puts a stored swap back into the active map and then runs its
// recovery (re-executes the action of the stored state) on a goroutine of its own, while the message
// handlers are already registered: a message of the peer for that swap may be handled at the same time.
func H_C19_recoveryVsMessage() {
	role, st := rOutSender, State_SwapOutSender_AwaitTxBroadcastedMessage
	switch zzverif.Choice("state", 4) {
	case 1:
		role, st = rInReceiver, State_SwapInReceiver_AwaitTxBroadcastedMessage
	case 2:
		role, st = rInSender, State_SwapInSender_AwaitClaimPayment
	case 3:
		role, st = rOutReceiver, State_SwapOutReceiver_AwaitClaimInvoicePayment
	}
	sc := vBuild(role, st, false, 7)
	w := sc.env.w
	w.maxFaults = 0
	w.maxPayAttempts = 1
	w.narrow = sc.sm.Data
	msg := stMsgCancel
	if zzverif.Bool("coop_close") {
		msg = stMsgCoopClose
	}
	recoverSwap := func() {
		if done, err := sc.sm.Recover(); err == nil && done {
			sc.svc.RemoveActiveSwap(sc.id)
		}
	}
	zzverif.Race2("C19.race_free", recoverSwap, sc.vC19Handler(msg))
}
