//go:build verif

package swap

import "github.com/elementsproject/peerswap/zzverif"

// vProbeAction stands in for a state's action and looks at the store while it "runs".
type vProbeAction struct {
	sc          *vScenario
	ran         bool
	storedState StateType
	storedOtb   bool
}

func (a *vProbeAction) Execute(services *SwapServices, swap *SwapData) EventType {
	a.ran = true
	if rec, ok := a.sc.env.store.recs[a.sc.id]; ok {
		a.storedState = rec.Current
		a.storedOtb = rec.Data.OpeningTxBroadcasted != nil
	}
	return NoOp
}

// H_C15_stateStoredAfterAction: the restart model of the history harnesses (and C15 itself) relies on the
// write order of SendEvent: while the action of a newly entered state runs, the stored record still names
// the previous state, so a crash inside the action is recovered from the previous state (which fails on
// recover for the states before the broadcast) and never re-runs a half-done broadcast or payment.
// Checked for the transitions into the broadcasting and paying states of all four roles.
func H_C15_stateStoredAfterAction() {
	type tr struct {
		role     int
		from, to StateType
		stim     int
	}
	trs := []tr{
		{rOutReceiver, State_SwapOutReceiver_AwaitFeeInvoicePayment, State_SwapOutReceiver_BroadcastOpeningTx, stPaidFee},
		{rInSender, State_SwapInSender_AwaitAgreement, State_SwapInSender_BroadcastOpeningTx, stMsgAgreement},
		{rOutSender, State_SwapOutSender_AwaitTxConfirmation, State_SwapOutSender_ValidateTxAndPayClaimInvoice, stTxConfirmed},
		{rInReceiver, State_SwapInReceiver_AwaitTxConfirmation, State_SwapInReceiver_ValidateTxAndPayClaimInvoice, stTxConfirmed},
		{rOutSender, State_SwapOutSender_AwaitAgreement, State_SwapOutSender_PayFeeInvoice, stMsgAgreement},
	}
	t := trs[zzverif.Choice("transition", len(trs))]
	sc := vBuild(t.role, t.from, zzverif.Bool("liquid"), 7)
	sc.env.w.maxFaults = 0
	probe := &vProbeAction{sc: sc}
	st := sc.sm.States[t.to]
	st.Action = probe
	sc.sm.States[t.to] = st
	sc.vApply(t.stim)
	if probe.ran {
		zzverif.Reach("c15.action_ran")
		zzverif.Assert(probe.storedState == t.from, "C15.record_names_previous_state_while_action_runs")
	}
}
