//go:build verif

package swap

import (
	"github.com/elementsproject/peerswap/messages"
	"github.com/elementsproject/peerswap/zzverif"
)

// vProbeAction stands in for a state's action and looks at the store while it "runs".
type vProbeAction struct {
	sc          *vScenario
	ran         bool
	storedState StateType
	storedOtb   bool
}

func (a *vProbeAction) Execute(services *SwapServices, swap *SwapData) EventType {
	a.ran = true
	if rec, ok := a.sc.env.store.recs[a.sc.id]; ok {
		a.storedState = rec.Current
		a.storedOtb = rec.Data.OpeningTxBroadcasted != nil
	}
	return NoOp
}

// H_C15_stateStoredAfterAction: the restart model of the history harnesses (and C15 itself) relies on the
// write order of SendEvent: while the action of a newly entered state runs, the stored record still names
// the previous state, so a crash inside the action is recovered from the previous state (which fails on
// recover for the states before the broadcast) and never re-runs a half-done broadcast or payment.
// Checked for the transitions into the broadcasting and paying states of all four roles.
func H_C15_stateStoredAfterAction() {
	type tr struct {
		role     int
		from, to StateType
		stim     int
	}
	trs := []tr{
		{rOutReceiver, State_SwapOutReceiver_AwaitFeeInvoicePayment, State_SwapOutReceiver_BroadcastOpeningTx, stPaidFee},
		{rInSender, State_SwapInSender_AwaitAgreement, State_SwapInSender_BroadcastOpeningTx, stMsgAgreement},
		{rOutSender, State_SwapOutSender_AwaitTxConfirmation, State_SwapOutSender_ValidateTxAndPayClaimInvoice, stTxConfirmed},
		{rInReceiver, State_SwapInReceiver_AwaitTxConfirmation, State_SwapInReceiver_ValidateTxAndPayClaimInvoice, stTxConfirmed},
		{rOutSender, State_SwapOutSender_AwaitAgreement, State_SwapOutSender_PayFeeInvoice, stMsgAgreement},
	}
	t := trs[zzverif.Choice("transition", len(trs))]
	sc := vBuild(t.role, t.from, zzverif.Bool("liquid"), 7)
	sc.env.w.maxFaults = 0
	probe := &vProbeAction{sc: sc}
	st := sc.sm.States[t.to]
	st.Action = probe
	sc.sm.States[t.to] = st
	sc.vApply(t.stim)
	if probe.ran {
		zzverif.Reach("c15.action_ran")
		zzverif.Assert(probe.storedState == t.from, "C15.record_names_previous_state_while_action_runs")
	}
}

// H_C15_failOnRecoverStatesOnlyCancel: the states the tables mark fail-on-recover are those whose record is
// (also) on disk while a payment or a broadcast may be half done.  A restart from such a record gives the
// swap up and does nothing else: no fee payment, no claim payment, no opening transaction, no new invoice,
// no message other than cancel - in particular the state's own action is not run again first.
// Which states carry the flag is read from the real tables; candidates: every state up to the first
// broadcast / payment of the four roles.  No injected faults.
func H_C15_failOnRecoverStatesOnlyCancel() {
	type node struct {
		role int
		st   StateType
	}
	nodes := []node{
		{rOutSender, State_SwapOutSender_CreateSwap}, {rOutSender, State_SwapOutSender_SendRequest}, {rOutSender, State_SwapOutSender_AwaitAgreement}, {rOutSender, State_SwapOutSender_PayFeeInvoice},
		{rInSender, State_SwapInSender_CreateSwap}, {rInSender, State_SwapInSender_SendRequest}, {rInSender, State_SwapInSender_AwaitAgreement},
		{rOutReceiver, State_SwapOutReceiver_CreateSwap}, {rOutReceiver, State_SwapOutReceiver_SendFeeInvoice}, {rOutReceiver, State_SwapOutReceiver_AwaitFeeInvoicePayment},
		{rInReceiver, State_SwapInReceiver_CreateSwap}, {rInReceiver, State_SwapInReceiver_SendAgreement},
	}
	n := nodes[zzverif.Choice("node", len(nodes))]
	sc := vBuild(n.role, n.st, zzverif.Bool("liquid"), 7)
	if !sc.sm.States[n.st].FailOnrecover {
		return
	}
	w := sc.env.w
	w.maxFaults = 0
	w.narrow = sc.sm.Data
	sc.env.store.recs[sc.id] = vSnapshot(sc.sm)
	sc.vRestart()
	post := sc.vCurrent()
	zzverif.Reach("c15.fail_on_recover_restart")
	zzverif.Assert(post == State_SwapCanceled || post == State_SendCancel, "C15.fail_on_recover_state_is_given_up")
	zzverif.Assert(len(w.feePays) == 0 && len(w.pays) == 0 && w.openings == 0 && w.invoicesMade == 0, "C15.fail_on_recover_restart_pays_and_broadcasts_nothing")
	onlyCancel := true
	for i := range w.sends {
		if w.sends[i].msgType != int(messages.MESSAGETYPE_CANCELED) {
			onlyCancel = false
		}
	}
	zzverif.Assert(onlyCancel, "C15.fail_on_recover_restart_sends_only_cancel")
}
