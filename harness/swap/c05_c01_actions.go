//go:build verif

package swap

import "github.com/elementsproject/peerswap/zzverif"

// H_C05_awaitTxConfirmation: a Bitcoin taker registers the confirmation watch only with a recorded
// start height S != 0, while tip < S+504 (uint32 arithmetic as in the code), for an invoice whose final
// CLTV f satisfies f <= 504.  What the guard really enforces about f and S is exported through the
// assertion labels; the composition with the watcher and route facts is H_C05_composition.
func H_C05_awaitTxConfirmation() {
	env := newEnv(true, true)
	s := vTakerSwap(zzverif.Bool("swap_in"), false, vVersion67())
	S := s.StartingBlockHeight
	ev := (&AwaitTxConfirmationAction{}).Execute(env.services, s)
	w := env.w
	zzverif.Assert(len(w.pays) == 0, "C05.await_never_pays")
	if len(w.watches) > 0 {
		zzverif.Reach("btc.watch_registered")
		inv := w.invoices[s.OpeningTxBroadcasted.Payreq]
		zzverif.Assert(ev == NoOp && len(w.watches) == 1, "C05.watch_event")
		zzverif.Assert(inv != nil && !inv.err && inv.cltv <= 504, "C05.watch_cltv_at_most_504")
		// note: a negative final CLTV is not rejected on the Bitcoin branch; C05 quantifies over accepted
		// CLTVs 0..504 (a Lightning node never reports a negative min_final_cltv_expiry), so the
		// composition assumes f >= 0 as the decoder's contract.
		zzverif.Assert(S != 0 && w.heightSeen && w.lastHeight < S+504, "C05.watch_before_deadline")
		wt := w.watches[0]
		zzverif.Assert(wt.kind == "conf" && wt.start == S && wt.param == 504, "C05.watch_args")
	}
}

// H_C05_payClaim: every Bitcoin claim payment attempt happens at a tip p with p - S <= 504 (uint32
// wrap-around included: p < S is refused), with total-CLTV limit 0 (= none).  Bound: 3 attempts.
func H_C05_payClaim() {
	env := newEnv(true, true)
	s := vTakerSwap(zzverif.Bool("swap_in"), false, vVersion67())
	S := s.StartingBlockHeight
	zzverif.Unwind(12)
	(&ValidateTxAndPayClaimInvoiceAction{}).Execute(env.services, s)
	w := env.w
	for i := range w.pays {
		p := w.pays[i]
		zzverif.Reach("btc.pay_attempt")
		// the guard is (now - S) <= 504 in uint32 arithmetic: for heights that do not wrap this is S <= p <= S+504
		zzverif.Assert(p.heightN == i+1 && p.height-S <= 504, "C05.pay_height_at_most_S_plus_504")
		zzverif.Assert(p.limit == 0, "C05.pay_no_route_limit")
	}
}

// H_C01_payDominance: inside the paying action every claim payment attempt (Bitcoin and Liquid v7) is
// preceded by a successful ValidateTx of the stored opening transaction hex against the negotiated
// parameters, and pays the announced invoice over the swap's channel.  Bound: 3 attempts.
func H_C01_payDominance() {
	env := newEnv(true, true)
	liquid := zzverif.Bool("liquid")
	s := vTakerSwap(zzverif.Bool("swap_in"), liquid, 7)
	hex0 := s.OpeningTxHex
	hash0, amount0, taker0, maker0 := s.GetPaymentHash(), s.GetOpeningTXAmount(), s.GetTakerPubkey(), s.GetMakerPubkey()
	zzverif.Unwind(12)
	ev := (&ValidateTxAndPayClaimInvoiceAction{}).Execute(env.services, s)
	w := env.w
	for i := range w.pays {
		p := w.pays[i]
		zzverif.Reach("pay.attempt")
		zzverif.Assert(p.validatedBefore && w.validatedHex == hex0, "C01.pay_after_validation_of_stored_tx")
		par := w.validatedPar
		csv := uint32(1008)
		if liquid {
			csv = 10080
		}
		zzverif.Assert(par.Amount == amount0 && par.TakerPubkey == taker0 && par.MakerPubkey == maker0 &&
			par.ClaimPaymentHash == hash0 && par.CSV == csv, "C01.validated_against_negotiated_params")
		zzverif.Assert(p.payreq == s.OpeningTxBroadcasted.Payreq && p.scid == s.GetScid(), "C01.pays_announced_invoice_over_swap_channel")
	}
	zzverif.Assert(ev != Event_ActionSucceeded || w.validated, "C01.success_needs_validation")
	zzverif.Assert(s.OpeningTxHex == hex0, "C01.pay_action_keeps_tx_hex")
}

// H_C01_invoiceBinding: the confirmation watch (the only way to the paying state) is registered only
// after the announced invoice was decoded, its amount equals the claim amount and its payment hash was
// stored as the hash the opening output is validated against; the watch names the announced txid/vout.
func H_C01_invoiceBinding() {
	env := newEnv(true, true)
	liquid := zzverif.Bool("liquid")
	s := vTakerSwap(zzverif.Bool("swap_in"), liquid, 7)
	(&AwaitTxConfirmationAction{}).Execute(env.services, s)
	w := env.w
	if len(w.watches) > 0 {
		zzverif.Reach("watch_registered")
		inv := w.invoices[s.OpeningTxBroadcasted.Payreq]
		zzverif.Assert(inv != nil && !inv.err && s.ClaimPaymentHash == inv.hash && s.GetPaymentHash() == inv.hash || (inv != nil && inv.hash == ""), "C01.hash_bound_to_invoice")
		zzverif.Assert(inv.msat == s.GetClaimAmount()*1000, "C01.invoice_amount_is_claim_amount")
		wt := w.watches[0]
		zzverif.Assert(wt.txID == s.OpeningTxBroadcasted.TxId && wt.vout == s.OpeningTxBroadcasted.ScriptOut && wt.swapID == s.GetId().String(), "C01.watch_names_announced_output")
	}
}

// H_C05_anchorSurvivesRestart: every Bitcoin window check of a taker is relative to the height at which it
// started waiting (StartingBlockHeight).  The composition argument of C05 needs that height to be the one
// recorded when the wait began: a restart - the chain at an arbitrary later height, recovery re-running
// the state's action - must not move it, neither in memory nor in the stored record.  (The Liquid anchor
// has its own immutability obligations under C13.)
// Bounds: taker in AwaitTxBroadcastedMessage / AwaitTxConfirmation, both swap directions, no injected
// faults, one restart.
func H_C05_anchorSurvivesRestart() {
	role, st := rOutSender, State_SwapOutSender_AwaitTxBroadcastedMessage
	switch zzverif.Choice("state", 4) {
	case 1:
		st = State_SwapOutSender_AwaitTxConfirmation
	case 2:
		role, st = rInReceiver, State_SwapInReceiver_AwaitTxBroadcastedMessage
	case 3:
		role, st = rInReceiver, State_SwapInReceiver_AwaitTxConfirmation
	}
	sc := vBuild(role, st, false, 7)
	w := sc.env.w
	w.maxFaults = 0
	w.maxPayAttempts = 1
	d := sc.sm.Data
	start0 := d.StartingBlockHeight
	zzverif.Assume(start0 != 0)
	sc.env.store.recs[sc.id] = vSnapshot(sc.sm)
	sc.vRestart()
	zzverif.Reach("c05.restarted")
	zzverif.Assert(sc.sm.Data.StartingBlockHeight == start0, "C05.start_height_survives_restart")
	if rec, ok := sc.env.store.recs[sc.id]; ok {
		zzverif.Assert(rec.Data.StartingBlockHeight == start0, "C05.stored_start_height_survives_restart")
	}
}

// H_C05_startHeightIsOnRecordWhenTheWaitBegins: the height every Bitcoin window check is relative to is
// taken when the taker starts waiting for the opening transaction - and it is on record from then on: when
// the transition that set it has settled, the stored record carries the same height as the live swap (a
// restart would otherwise take a later height, cf. H_C05_anchorSurvivesRestart).
// Bounds: swap-out taker entering the wait through the agreement (fee invoice accepted and paid), no
// injected faults.
func H_C05_startHeightIsOnRecordWhenTheWaitBegins() {
	sc := vBuild(rOutSender, State_SwapOutSender_AwaitAgreement, false, 7)
	w := sc.env.w
	w.maxFaults = 0
	w.maxPayAttempts = 1
	// before the wait the swap has no start height yet
	sc.sm.Data.StartingBlockHeight = 0
	sc.env.store.recs[sc.id] = vSnapshot(sc.sm)
	zzverif.Unwind(30)
	sc.vApply(stMsgAgreement)
	if sc.vCurrent() != State_SwapOutSender_AwaitTxBroadcastedMessage {
		return
	}
	zzverif.Reach("c05.wait_for_opening_tx_begun")
	live := sc.sm.Data.StartingBlockHeight
	zzverif.Assert(w.heightSeen && live == w.lastHeight, "C05.start_height_is_the_height_read_when_the_wait_began")
	rec, ok := sc.env.store.recs[sc.id]
	zzverif.Assert(ok && rec.Data.StartingBlockHeight == live, "C05.start_height_is_on_record_when_the_wait_begins")
}
