//go:build verif

package swap

import "github.com/elementsproject/peerswap/zzverif"

// H_C29_hasActiveSwaps: the answer the database upgrade relies on is computed from the persisted swaps
// (startup runs it before any swap is restored into memory): with 0..3 stored records of arbitrary state
// strings and an empty active map, HasActiveSwaps is true exactly when some record is not in one of the
// four terminal states; a failing store yields an error, not "no active swaps".
func H_C29_hasActiveSwaps() {
	env := newEnv(true, true)
	env.w.maxFaults = 0
	svc := NewSwapService(env.services)
	n := zzverif.Choice("records", 4)
	anyActive := false
	for i := 0; i < n; i++ {
		st := StateType(zzverif.Str("state"))
		id := vSwapId("id")
		rec := &SwapStateMachine{SwapId: id, Current: st, Data: &SwapData{}}
		env.store.recs[id.String()] = rec
		terminal := st == State_ClaimedCsv || st == State_SwapCanceled || st == State_ClaimedPreimage || st == State_ClaimedCoop
		zzverif.Assert(rec.IsFinished() == terminal, "C29.is_finished_iff_terminal_state")
		if !terminal {
			anyActive = true
		}
	}
	zzverif.Assume(len(env.store.recs) == n) // distinct ids
	active, err := svc.HasActiveSwaps()
	zzverif.Assert(err == nil && active == anyActive, "C29.has_active_swaps_reads_persisted_swaps")
}
