//go:build verif

package swap

import (
	"context"
	"errors"
	"sync"
	"time"

	"github.com/elementsproject/peerswap/txwatcher"
	"github.com/elementsproject/peerswap/zzverif"
)

// vChainRPC is the chain daemon behind the real rpc tx watcher: every answer arbitrary.
type vChainRPC struct {
	w *vWorld
	// native rendezvous for the two-goroutine replay of a lock-order cycle
	gate    *sync.WaitGroup
	arrived chan struct{}
	// last gettxout answer
	lastConfs uint32
	answered  bool
}

func (c *vChainRPC) GetBlockHeight() (uint64, error) {
	if c.w.fault("rpc.height.err") {
		return 0, errors.New("rpc failed")
	}
	return uint64(zzverif.U32("rpc.height")), nil
}
func (c *vChainRPC) GetTxOut(txid string, vout uint32) (*txwatcher.TxOutResp, error) {
	if c.gate != nil {
		// both goroutines stop here (one holds the watcher lock, the other the swap mutex) until both arrived
		c.arrived <- struct{}{}
		c.gate.Wait()
	}
	if c.w.fault("rpc.gettxout.err") {
		return nil, errors.New("rpc failed")
	}
	if zzverif.Bool("rpc.gettxout.nil") {
		return nil, nil
	}
	c.lastConfs = zzverif.U32("rpc.confs")
	c.answered = true
	return &txwatcher.TxOutResp{BestBlockHash: zzverif.Str("rpc.bestblock"), Confirmations: c.lastConfs}, nil
}
func (c *vChainRPC) GetBlockHash(height uint32) (string, error) {
	return zzverif.Str("rpc.blockhash"), nil
}
func (c *vChainRPC) GetRawtransactionWithBlockHash(txId string, blockHash string) (string, error) {
	return zzverif.Str("rpc.rawtx"), nil
}

// vRealWatcherScenario: a maker waiting for the claim payment, with the REAL rpc tx watcher wired into
// the real SwapService exactly as Start() does.
func vRealWatcherScenario(st StateType) (*vScenario, *txwatcher.BlockchainRpcTxWatcher, *vChainRPC) {
	role := rInSender
	if zzverif.Bool("swap_out") {
		role = rOutReceiver
	}
	sc := vBuild(role, st, false, 7)
	sc.env.w.maxFaults = 0
	rpc := &vChainRPC{w: sc.env.w}
	wt := txwatcher.NewBlockchainRpcTxWatcher(context.Background(), rpc, 3)
	sc.env.services.bitcoinTxWatcher = wt
	wt.AddConfirmationCallback(sc.svc.OnTxConfirmed)
	wt.AddCsvCallback(sc.svc.OnCsvPassed)
	return sc, wt, rpc
}

// H_C18_cancelAfterCsvMatured_NoPanic: a cancel (or a coop_close that then fails) reaching a maker whose CSV
// has already matured on the chain is processed - every chain answer arbitrary - without the handler
// blocking on a lock it already holds; if the chain reports the output mature the swap proceeds to the
// CSV claim.
func H_C18_cancelAfterCsvMatured_NoPanic() {
	st := State_SwapInSender_AwaitClaimPayment
	sc, wt, rpc := vRealWatcherScenario(st)
	if sc.role == rOutReceiver {
		sc.sm.Current, sc.sm.Data.FSMState = State_SwapOutReceiver_AwaitClaimInvoicePayment, State_SwapOutReceiver_AwaitClaimInvoicePayment
	}
	stim := stMsgCancel
	if zzverif.Bool("coop_close") {
		stim = stMsgCoopClose
	}
	sc.vApply(stim)
	zzverif.Reach("c18.handler_returned")
	zzverif.Assert(zzverif.LocksHeld() == 0, "C18.handler_releases_all_locks")
	if sc.vCurrent() == State_WaitCsv {
		// whatever the handler started in the background (or the next block) runs now
		rpc.answered = false
		wt.HandleCsvTx(uint64(zzverif.U32("block")))
		if rpc.answered && rpc.lastConfs >= 1008 {
			zzverif.Reach("c18.csv_matured")
			post := sc.vCurrent()
			zzverif.Assert(post == State_ClaimedCsv || post == State_SwapInSender_ClaimSwapCsv || post == State_SwapOutReceiver_ClaimSwapCsv, "C18.matured_csv_leads_to_refund")
		}
	}
}

// H_C18_restartAfterCsvMatured_NoPanic: recovery of a waiting maker when the CSV matured while the node was
// down does not block either.
func H_C18_restartAfterCsvMatured_NoPanic() {
	sc, _, _ := vRealWatcherScenario(State_WaitCsv)
	sc.vApply(stRestart)
	zzverif.Reach("c18.recover_returned")
	zzverif.Assert(zzverif.LocksHeld() == 0, "C18.recover_releases_all_locks")
}

// H_C18_lockOrder: a peer message handler and a block notification never take the swap mutex and the
// watcher mutex in opposite orders.  Symbolically both handlers run one after the other on the same
// objects and the recorded lock-order edges must be acyclic; natively the two handlers run concurrently
// with a rendezvous inside the chain RPC stub and must both finish.
func H_C18_lockOrder() {
	sc, wt, rpc := vRealWatcherScenario(State_SwapInSender_AwaitClaimPayment)
	if sc.role == rOutReceiver {
		sc.sm.Current, sc.sm.Data.FSMState = State_SwapOutReceiver_AwaitClaimInvoicePayment, State_SwapOutReceiver_AwaitClaimInvoicePayment
	}
	d := sc.sm.Data
	// the swap's CSV watch is registered (the state's action did that when the state was entered)
	wt.AddWaitForCsvTx(sc.id, d.OpeningTxBroadcasted.TxId, d.OpeningTxBroadcasted.ScriptOut, d.StartingBlockHeight, 1008, nil)
	if zzverif.Symbolic() {
		sc.vApply(stMsgCancel)
		wt.HandleCsvTx(uint64(zzverif.U32("block")))
		zzverif.Assert(!zzverif.LockOrderCycle(), "C18.no_lock_order_cycle")
		return
	}
	// native: provoke the interleaving
	rpc.gate = &sync.WaitGroup{}
	rpc.gate.Add(1)
	rpc.arrived = make(chan struct{}, 4)
	done := make(chan struct{}, 2)
	go func() { sc.vApply(stMsgCancel); done <- struct{}{} }()
	go func() { wt.HandleCsvTx(uint64(zzverif.U32("block"))); done <- struct{}{} }()
	arrived := 0
	timeout := time.After(5 * time.Second)
	for arrived < 2 {
		select {
		case <-rpc.arrived:
			arrived++
		case <-timeout:
			arrived = 2
		}
	}
	rpc.gate.Done()
	finished := 0
	deadline := time.After(5 * time.Second)
	for finished < 2 {
		select {
		case <-done:
			finished++
		case <-deadline:
			zzverif.Assert(false, "C18.no_lock_order_cycle")
			return
		}
	}
	zzverif.Assert(true, "C18.no_lock_order_cycle")
}
