//go:build verif

package swap

import (
	"context"
	"errors"
	"sync"
	"time"

	"github.com/elementsproject/peerswap/txwatcher"
	"github.com/elementsproject/peerswap/zzverif"
)

// vChainRPC is the chain daemon behind the real rpc tx watcher: every answer arbitrary.
type vChainRPC struct {
	w *vWorld
	// native rendezvous for the two-goroutine replay of a lock-order cycle
	gate    *sync.WaitGroup
	arrived chan struct{}
	// last gettxout answer
	lastConfs uint32
	answered  bool
	asks      int // gettxout calls
}

func (c *vChainRPC) GetBlockHeight() (uint64, error) {
	if c.w.fault("rpc.height.err") {
		return 0, errors.New("rpc failed")
	}
	return uint64(zzverif.U32("rpc.height")), nil
}
func (c *vChainRPC) GetTxOut(txid string, vout uint32) (*txwatcher.TxOutResp, error) {
	c.asks++
	c.w.yieldPoint("rpc")
	if c.gate != nil {
		// both goroutines stop here (one holds the watcher lock, the other the swap mutex) until both arrived
		c.arrived <- struct{}{}
		c.gate.Wait()
	}
	if c.w.fault("rpc.gettxout.err") {
		return nil, errors.New("rpc failed")
	}
	if zzverif.Bool("rpc.gettxout.nil") {
		return nil, nil
	}
	c.lastConfs = zzverif.U32("rpc.confs")
	c.answered = true
	return &txwatcher.TxOutResp{BestBlockHash: zzverif.Str("rpc.bestblock"), Confirmations: c.lastConfs}, nil
}
func (c *vChainRPC) GetBlockHash(height uint32) (string, error) {
	return zzverif.Str("rpc.blockhash"), nil
}
func (c *vChainRPC) GetRawtransactionWithBlockHash(txId string, blockHash string) (string, error) {
	return zzverif.Str("rpc.rawtx"), nil
}

// vRealWatcherScenario: a maker waiting for the claim payment, with the REAL rpc tx watcher wired into
// the real SwapService exactly as Start() does.
func vRealWatcherScenario(st StateType) (*vScenario, *txwatcher.BlockchainRpcTxWatcher, *vChainRPC) {
	role := rInSender
	if zzverif.Bool("swap_out") {
		role = rOutReceiver
	}
	sc := vBuild(role, st, false, 7)
	sc.env.w.maxFaults = 0
	rpc := &vChainRPC{w: sc.env.w}
	wt := txwatcher.NewBlockchainRpcTxWatcher(context.Background(), rpc, 3)
	sc.env.services.bitcoinTxWatcher = wt
	// (through sc.svc: after a restart the callbacks reach the service of the new process, as Start() wires them)
	wt.AddConfirmationCallback(func(id, hex string, err error) error { return sc.svc.OnTxConfirmed(id, hex, err) })
	wt.AddCsvCallback(func(id string) error { return sc.svc.OnCsvPassed(id) })
	return sc, wt, rpc
}

// H_C18_cancelAfterCsvMatured_NoPanic: a cancel (or a coop_close that then fails) reaching a maker whose CSV
// has already matured on the chain is processed - every chain answer arbitrary - without the handler
// blocking on a lock it already holds; if the chain reports the output mature the swap proceeds to the
// CSV claim.
func H_C18_cancelAfterCsvMatured_NoPanic() {
	st := State_SwapInSender_AwaitClaimPayment
	sc, wt, rpc := vRealWatcherScenario(st)
	if sc.role == rOutReceiver {
		sc.sm.Current, sc.sm.Data.FSMState = State_SwapOutReceiver_AwaitClaimInvoicePayment, State_SwapOutReceiver_AwaitClaimInvoicePayment
	}
	stim := stMsgCancel
	if zzverif.Bool("coop_close") {
		stim = stMsgCoopClose
	}
	sc.vApply(stim)
	zzverif.Reach("c18.handler_returned")
	zzverif.Assert(zzverif.LocksHeld() == 0, "C18.handler_releases_all_locks")
	if sc.vCurrent() == State_WaitCsv {
		// whatever the handler started in the background (or the next block) runs now
		rpc.answered = false
		wt.HandleCsvTx(uint64(zzverif.U32("block")))
		if rpc.answered && rpc.lastConfs >= 1008 {
			zzverif.Reach("c18.csv_matured")
			post := sc.vCurrent()
			zzverif.Assert(post == State_ClaimedCsv || post == State_SwapInSender_ClaimSwapCsv || post == State_SwapOutReceiver_ClaimSwapCsv, "C18.matured_csv_leads_to_refund")
		}
	}
}

// H_C18_restartAfterCsvMatured_NoPanic: recovery of a waiting maker when the CSV matured while the node was
// down does not block either.
func H_C18_restartAfterCsvMatured_NoPanic() {
	sc, _, _ := vRealWatcherScenario(State_WaitCsv)
	sc.vApply(stRestart)
	zzverif.Reach("c18.recover_returned")
	zzverif.Assert(zzverif.LocksHeld() == 0, "C18.recover_releases_all_locks")
	// ... and the recovered swap still takes events: the csv notification (on the watcher's goroutine) and
	// a message of the peer are handled to the end, nobody waits for a lock recovery left behind
	zzverif.Concurrently(func() { sc.svc.OnCsvPassed(sc.id) })
	zzverif.Assert(zzverif.Blocked() == 0, "C18.recovered_swap_handles_csv_notification")
}

// H_C18_csvNotificationSurvivesRecovery_NoPanic: a maker restarted while it waits for the CSV, with the real
// rpc watcher (which checks the output once right at registration, on its own goroutine, every chain answer
// arbitrary): the notification cannot get lost between the registration and the swap becoming active.  After
// the recovery the maker is either past the wait (the matured CSV was acted on) or it is still watched: the
// next block makes the watcher ask the chain about the swap's output again, and a mature answer then leads to
// the refund.
func H_C18_csvNotificationSurvivesRecovery_NoPanic() {
	sc, wt, rpc := vRealWatcherScenario(State_WaitCsv)
	sc.logicalNested = true
	sc.env.store.nativeDelay = 50 * time.Millisecond
	sc.vApply(stRestart)
	zzverif.Reach("c18.recovered_with_real_watcher")
	zzverif.Assert(zzverif.Blocked() == 0, "C18.registration_check_is_not_left_blocked")
	if sc.vCurrent() == State_WaitCsv {
		asks0 := rpc.asks
		rpc.answered = false
		wt.HandleCsvTx(uint64(zzverif.U32("block")))
		zzverif.Assert(rpc.asks > asks0, "C18.waiting_maker_is_still_watched_after_recovery")
		if rpc.answered && rpc.lastConfs >= 1008 {
			post := sc.vCurrent()
			zzverif.Assert(post == State_ClaimedCsv || post == State_SwapInSender_ClaimSwapCsv || post == State_SwapOutReceiver_ClaimSwapCsv, "C18.matured_csv_after_recovery_leads_to_refund")
		}
	}
}

// H_C18_recoveredWaitingSwapTakesEvents_NoPanic: every waiting state a swap can be restarted in: after the
// recovery (whose action registers watchers / notifiers and returns NoOp) the events that end the wait are
// still handled - the handler goroutine is not left blocked on the swap's lock.
func H_C18_recoveredWaitingSwapTakesEvents_NoPanic() {
	type ws struct {
		role int
		st   StateType
		stim int
	}
	all := []ws{
		{rInSender, State_SwapInSender_AwaitClaimPayment, stMsgCancel},
		{rOutReceiver, State_SwapOutReceiver_AwaitClaimInvoicePayment, stPaidClaim},
		{rOutSender, State_SwapOutSender_AwaitTxBroadcastedMessage, stMsgCancel},
		{rInReceiver, State_SwapInReceiver_AwaitTxBroadcastedMessage, stMsgCancel},
		{rOutSender, State_SwapOutSender_AwaitTxConfirmation, stTxConfirmErr},
		{rInReceiver, State_SwapInReceiver_AwaitTxConfirmation, stMsgCancel},
	}
	c := all[zzverif.Choice("case", len(all))]
	sc := vBuild(c.role, c.st, false, 7)
	w := sc.env.w
	w.maxFaults = 0
	w.maxPayAttempts = 1
	w.narrow = sc.sm.Data
	sc.env.store.recs[sc.id] = vSnapshot(sc.sm)
	sc.vRestart()
	zzverif.Reach("c18.waiting_swap_recovered")
	zzverif.Assert(zzverif.LocksHeld() == 0, "C18.recovery_of_waiting_swap_releases_all_locks")
	h := sc.vC19Handler(c.stim)
	zzverif.Concurrently(h)
	zzverif.Assert(zzverif.Blocked() == 0, "C18.recovered_waiting_swap_takes_events")
}

// H_C18_lockOrder: a peer message handler and a block notification never take the swap mutex and the
// watcher mutex in opposite orders.  Symbolically both handlers run one after the other on the same
// objects and the recorded lock-order edges must be acyclic; natively the two handlers run concurrently
// with a rendezvous inside the chain RPC stub and must both finish.
func H_C18_lockOrder() {
	sc, wt, rpc := vRealWatcherScenario(State_SwapInSender_AwaitClaimPayment)
	if sc.role == rOutReceiver {
		sc.sm.Current, sc.sm.Data.FSMState = State_SwapOutReceiver_AwaitClaimInvoicePayment, State_SwapOutReceiver_AwaitClaimInvoicePayment
	}
	d := sc.sm.Data
	// the swap's CSV watch is registered (the state's action did that when the state was entered)
	wt.AddWaitForCsvTx(sc.id, d.OpeningTxBroadcasted.TxId, d.OpeningTxBroadcasted.ScriptOut, d.StartingBlockHeight, 1008, nil)
	if zzverif.Symbolic() {
		sc.vApply(stMsgCancel)
		wt.HandleCsvTx(uint64(zzverif.U32("block")))
		zzverif.Assert(!zzverif.LockOrderCycle(), "C18.no_lock_order_cycle")
		return
	}
	// native: provoke the interleaving
	rpc.gate = &sync.WaitGroup{}
	rpc.gate.Add(1)
	rpc.arrived = make(chan struct{}, 4)
	done := make(chan struct{}, 2)
	go func() { sc.vApply(stMsgCancel); done <- struct{}{} }()
	go func() { wt.HandleCsvTx(uint64(zzverif.U32("block"))); done <- struct{}{} }()
	arrived := 0
	timeout := time.After(5 * time.Second)
	for arrived < 2 {
		select {
		case <-rpc.arrived:
			arrived++
		case <-timeout:
			arrived = 2
		}
	}
	rpc.gate.Done()
	finished := 0
	deadline := time.After(5 * time.Second)
	for finished < 2 {
		select {
		case <-done:
			finished++
		case <-deadline:
			zzverif.Assert(false, "C18.no_lock_order_cycle")
			return
		}
	}
	zzverif.Assert(true, "C18.no_lock_order_cycle")
}

// H_C18_cancelAfterCsvMaturedFlow_NoPanic: the same situation end to end with the goroutines the code
// itself starts: the cancel / failed coop_close is handled, the maker enters WaitCsv and registers the csv
// watch, the real watcher looks at the chain from its own goroutine (a logical goroutine: it runs at once
// and is parked on the swap mutex the message handler still holds, then resumed when the handler lets go).
// Nobody stays blocked, and if the chain said "mature" the swap has moved on to the csv claim.
func H_C18_cancelAfterCsvMaturedFlow_NoPanic() {
	sc, _, rpc := vRealWatcherScenario(State_SwapInSender_AwaitClaimPayment)
	if sc.role == rOutReceiver {
		sc.sm.Current, sc.sm.Data.FSMState = State_SwapOutReceiver_AwaitClaimInvoicePayment, State_SwapOutReceiver_AwaitClaimInvoicePayment
	}
	stim := stMsgCancel
	if zzverif.Bool("coop_close") {
		stim = stMsgCoopClose
	}
	zzverif.GoLogical(true)
	sc.vApply(stim)
	zzverif.GoLogical(false)
	if !zzverif.Symbolic() {
		time.Sleep(300 * time.Millisecond) // the watcher's goroutine finishes
	}
	zzverif.Reach("c18.flow_handler_returned")
	zzverif.Assert(zzverif.Blocked() == 0, "C18.flow_nobody_blocked")
	zzverif.Assert(zzverif.LocksHeld() == 0, "C18.flow_all_locks_released")
	if rpc.answered && rpc.lastConfs >= 1008 {
		zzverif.Reach("c18.flow_csv_matured")
		post := sc.vCurrent()
		zzverif.Assert(post == State_ClaimedCsv || post == State_SwapInSender_ClaimSwapCsv || post == State_SwapOutReceiver_ClaimSwapCsv, "C18.flow_matured_csv_leads_to_refund")
	}
}

// stimuli of the interleaving entries: what a goroutine of the daemon may be doing to a waiting maker
const (
	cvCancel = iota
	cvCoopClose
	cvPaidClaim
	cvBlock
	cvTimeout
	cvN
)

func (sc *vScenario) vFire(k int, wt *txwatcher.BlockchainRpcTxWatcher) {
	switch k {
	case cvCancel:
		sc.vApply(stMsgCancel)
	case cvCoopClose:
		sc.vApply(stMsgCoopClose)
	case cvPaidClaim:
		sc.vApply(stPaidClaim)
	case cvBlock:
		zzverif.Effect("stimulus", "block")
		wt.HandleCsvTx(uint64(zzverif.U32("block")))
	case cvTimeout:
		sc.vApply(stTimeout)
	}
}

// H_C18_interleavedHandlers_NoPanic: schedules.  Two handlers of the daemon work on the same waiting maker
// at the same time: the first (peer message, payment notification, block notification, timeout) is inside a
// call to a collaborator - the chain RPC, the messenger, the wallet - when the second arrives on its own
// goroutine.  With the REAL rpc tx watcher wired in as Start() does and the goroutines the code starts
// itself running as logical goroutines: whatever the pair and whatever the chain answers, nobody ends up
// waiting forever for a mutex and all locks are released.
// Bounds: one preemption (at a collaborator call of the first handler), 5 x 5 handler pairs, maker in
// AwaitClaimPayment / AwaitClaimInvoicePayment or already in WaitCsv, no injected service faults.
func H_C18_interleavedHandlers_NoPanic() {
	st := State_SwapInSender_AwaitClaimPayment
	inWaitCsv := zzverif.Bool("in_waitcsv")
	if inWaitCsv {
		st = State_WaitCsv
	}
	sc, wt, _ := vRealWatcherScenario(st)
	if sc.role == rOutReceiver && !inWaitCsv {
		sc.sm.Current, sc.sm.Data.FSMState = State_SwapOutReceiver_AwaitClaimInvoicePayment, State_SwapOutReceiver_AwaitClaimInvoicePayment
	}
	d := sc.sm.Data
	// the swap's csv watch is registered (the state's action did that when the state was entered)
	wt.AddWaitForCsvTx(sc.id, d.OpeningTxBroadcasted.TxId, d.OpeningTxBroadcasted.ScriptOut, d.StartingBlockHeight, 1008, nil)
	w := sc.env.w
	first, second := zzverif.Choice("first", cvN), zzverif.Choice("second", cvN)
	w.yieldAt = []string{"rpc", "send", "wallet"}[zzverif.Choice("yield.kind", 3)]
	w.interleave = func() { sc.vFire(second, wt) }
	zzverif.GoLogical(true)
	sc.vFire(first, wt)
	zzverif.GoLogical(false)
	if !w.interleaved {
		return // the first handler never reached such a call: sequential handling is the step entries' subject
	}
	if !zzverif.Symbolic() {
		time.Sleep(300 * time.Millisecond)
	}
	zzverif.Reach("c18.interleaved")
	zzverif.Assert(zzverif.Blocked() == 0, "C18.interleaved_nobody_blocked")
	zzverif.Assert(zzverif.LocksHeld() == 0, "C18.interleaved_all_locks_released")
}
