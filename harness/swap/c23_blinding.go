//go:build verif

package swap

import (
	"github.com/elementsproject/peerswap/zzverif"
)

// H_C23_blindingKeyIsNeverTheSwapKey: the blinding key a maker hands to its wallet and announces to the peer
// (GetOpeningParams().BlindingKey, copied into opening_tx_broadcasted) is the per-swap blinding key of the
// record or nothing - never key material derived from the swap's private key, also for a record that carries
// no blinding key at all.  Bounds: maker records of both directions on Liquid, blinding key present or absent.
func H_C23_blindingKeyIsNeverTheSwapKey() {
	swapIn := zzverif.Bool("swap_in")
	s := vMakerSwap(swapIn, true, 7, false)
	if zzverif.Bool("record_without_blinding_key") {
		s.BlindingKeyHex = ""
	}
	p := s.GetOpeningParams()
	if p.BlindingKey != nil {
		zzverif.Reach("c23.blinding_key_present")
		zzverif.AssertNoFlow("C23.blinding_key_is_not_the_swap_key", p.BlindingKey.Serialize(), "privkey")
	}
}
