//go:build verif

package swap

import (
	"os"
	"path/filepath"

	"github.com/elementsproject/peerswap/zzverif"
	"go.etcd.io/bbolt"
)

// The REAL swap store (swap/store.go: bboltStore) over a map model of bbolt.  bbolt itself is never
// executed symbolically: db.Begin / tx.Bucket / tx.Commit / tx.Rollback / Bucket.Get / Put / ForEach are
// overridden by a model with three fixed keys (assumed contract, trusted: atomic commit, byte-ordered
// iteration, values handed to ForEach are the stored ones).  Natively a temp-file bbolt database is used.
// The JSON codec is the engine's model (C14 is not applicable): a record decodes to what was encoded.

var vStoreKeys = []string{
	"1111111111111111111111111111111111111111111111111111111111111111",
	"2222222222222222222222222222222222222222222222222222222222222222",
	"3333333333333333333333333333333333333333333333333333333333333333",
}

type vBoltSwapModel struct {
	present [3]bool
	vals    [3][]byte
	bucket  *bbolt.Bucket
}

var vBoltSwaps *vBoltSwapModel

func vStoreKeyIndex(k []byte) int {
	for i := range vStoreKeys {
		if string(k) == string(h2b(vStoreKeys[i])) {
			return i
		}
	}
	zzverif.Fail("harness: unexpected store key")
	return 0
}

func vSwDBBegin(db *bbolt.DB, writable bool) (*bbolt.Tx, error) { return &bbolt.Tx{}, nil }
func vSwTxRollback(tx *bbolt.Tx) error                          { return nil }
func vSwTxCommit(tx *bbolt.Tx) error                            { return nil }
func vSwTxBucket(tx *bbolt.Tx, name []byte) *bbolt.Bucket {
	if string(name) != "swaps" {
		zzverif.Fail("harness: unexpected bucket")
	}
	return vBoltSwaps.bucket
}
func vSwBucketGet(b *bbolt.Bucket, key []byte) []byte {
	i := vStoreKeyIndex(key)
	if !vBoltSwaps.present[i] {
		return nil
	}
	return vBoltSwaps.vals[i]
}
func vSwBucketPut(b *bbolt.Bucket, key []byte, value []byte) error {
	i := vStoreKeyIndex(key)
	vBoltSwaps.present[i], vBoltSwaps.vals[i] = true, value
	return nil
}
func vSwBucketForEach(b *bbolt.Bucket, fn func(k, v []byte) error) error {
	for i := range vStoreKeys {
		if vBoltSwaps.present[i] {
			if err := fn(h2b(vStoreKeys[i]), vBoltSwaps.vals[i]); err != nil {
				return err
			}
		}
	}
	return nil
}

func vSwBucketStats(b *bbolt.Bucket) bbolt.BucketStats {
	n := 0
	for i := range vStoreKeys {
		if vBoltSwaps.present[i] {
			n++
		}
	}
	return bbolt.BucketStats{KeyN: n}
}

// vSwPath: file of the native database (for entries that close and reopen it).
var vSwPath string

// vRealSwapStore returns the real bboltStore (symbolic: over the map model).
func vRealSwapStore() *bboltStore {
	if zzverif.Symbolic() {
		vBoltSwaps = &vBoltSwapModel{bucket: &bbolt.Bucket{}}
		const p = "go.etcd.io/bbolt."
		zzverif.Override("(*"+p+"DB).Begin", vSwDBBegin)
		zzverif.Override("(*"+p+"Tx).Rollback", vSwTxRollback)
		zzverif.Override("(*"+p+"Tx).Commit", vSwTxCommit)
		zzverif.Override("(*"+p+"Tx).Bucket", vSwTxBucket)
		zzverif.Override("(*"+p+"Bucket).Get", vSwBucketGet)
		zzverif.Override("(*"+p+"Bucket).Put", vSwBucketPut)
		zzverif.Override("(*"+p+"Bucket).ForEach", vSwBucketForEach)
		zzverif.Override("(*"+p+"Bucket).Stats", vSwBucketStats)
		return &bboltStore{db: &bbolt.DB{}}
	}
	dir, err := os.MkdirTemp("", "zzverif-swapstore-")
	if err != nil {
		panic(err)
	}
	vSwPath = filepath.Join(dir, "swaps.db")
	db, err := bbolt.Open(vSwPath, 0o600, nil)
	if err != nil {
		panic(err)
	}
	st, err := NewBboltStore(db)
	if err != nil {
		panic(err)
	}
	return st
}

func vStoreSwap(i int, st StateType) *SwapStateMachine {
	id := &SwapId{}
	if err := id.FromString(vStoreKeys[i]); err != nil {
		zzverif.Fail("harness: bad key")
	}
	return &SwapStateMachine{SwapId: id, Type: SWAPTYPE_OUT, Role: SWAPROLE_SENDER, Current: st,
		Data: &SwapData{PeerNodeId: vPeer, FSMState: st, SwapOutRequest: &SwapOutRequestMessage{ProtocolVersion: 7, SwapId: id, Scid: "1x2x3", Amount: zzverif.U64("amount")}}}
}

// H_C29_realStoreListsEveryRecord: HasActiveSwaps (the gate of the database upgrade) reads the swaps through
// the real store.  With up to three stored swaps in arbitrary states: ListAll returns every stored record
// once, each with its own id and state (no record stands in for another one), GetData returns the record
// of the id asked for, a second UpdateData of an id replaces that record only, and HasActiveSwaps over this
// store is true exactly when some stored swap is not finished.
// Bounds: <= 3 records, states from {a waiting state, a funded waiting state, ClaimedPreimage, SwapCanceled}.
func H_C29_realStoreListsEveryRecord() {
	st := vRealSwapStore()
	states := []StateType{State_SwapOutSender_AwaitAgreement, State_SwapOutSender_AwaitTxConfirmation, State_ClaimedPreimage, State_SwapCanceled}
	var want [3]StateType
	var have [3]bool
	n := 0
	for i := 0; i < 3; i++ {
		if zzverif.Bool("stored") {
			have[i] = true
			want[i] = states[zzverif.Choice("state", len(states))]
			zzverif.Assert(st.UpdateData(vStoreSwap(i, states[0])) == nil, "C29.store_create_ok")
			// the record is written again when the swap moves on
			zzverif.Assert(st.UpdateData(vStoreSwap(i, want[i])) == nil, "C29.store_update_ok")
			n++
		}
	}
	all, err := st.ListAll()
	zzverif.Assert(err == nil && len(all) == n, "C29.store_lists_every_record_once")
	active := false
	for i := 0; i < 3; i++ {
		if !have[i] {
			_, gerr := st.GetData(vStoreKeys[i])
			zzverif.Assert(gerr == ErrDataNotAvailable, "C29.store_unknown_id_not_available")
			continue
		}
		found := 0
		for _, sm := range all {
			if sm.SwapId.String() == vStoreKeys[i] {
				found++
				zzverif.Assert(sm.Current == want[i], "C29.store_listed_record_has_its_own_state")
			}
		}
		zzverif.Assert(found == 1, "C29.store_lists_each_id_once")
		got, gerr := st.GetData(vStoreKeys[i])
		zzverif.Assert(gerr == nil && got.SwapId.String() == vStoreKeys[i] && got.Current == want[i], "C29.store_get_returns_the_record_of_the_id")
		if !(&SwapStateMachine{Current: want[i]}).IsFinished() {
			active = true
		}
	}
	svc := &SwapService{swapServices: &SwapServices{swapStore: st}}
	has, herr := svc.HasActiveSwaps()
	zzverif.Assert(herr == nil && has == active, "C29.has_active_swaps_over_the_real_store")
}

// vSwPutFails: the next Bucket.Put fails (read-only database, full disk, database closed at shutdown).
var vSwPutFails bool

func vSwBucketPutMayFail(b *bbolt.Bucket, key []byte, value []byte) error {
	if vSwPutFails {
		return bbolt.ErrDatabaseReadOnly
	}
	return vSwBucketPut(b, key, value)
}

// H_C15_realStoreReportsFailedWrites: SendEvent relies on UpdateData's error to stop before the next action
// acts on something that is not on disk (C15: no duplicate broadcast/payment after a restart; C13: no pubkey
// before the anchor is durable).  The real bboltStore reports a failed write of an existing and of a new
// record, and leaves the stored record unchanged.
// zzverif:also C13
func H_C15_realStoreReportsFailedWrites() {
	st := vRealSwapStore()
	if zzverif.Symbolic() {
		zzverif.Override("(*go.etcd.io/bbolt.Bucket).Put", vSwBucketPutMayFail)
	}
	existing := zzverif.Bool("record_exists")
	if existing {
		zzverif.Assert(st.UpdateData(vStoreSwap(0, State_SwapOutSender_AwaitAgreement)) == nil, "C15.store_first_write_ok")
	}
	next := vStoreSwap(0, State_SwapOutSender_AwaitTxConfirmation)
	if zzverif.Symbolic() {
		vSwPutFails = true
	} else {
		st.db.Close() // natively: the database was closed (shutdown): every write fails
	}
	err := st.UpdateData(next)
	zzverif.Assert(err != nil, "C15.failed_store_write_is_reported")
	zzverif.Assert(err != nil, "C13.failed_store_write_is_reported")
	if zzverif.Symbolic() {
		vSwPutFails = false
	} else {
		db, oerr := bbolt.Open(vSwPath, 0o600, nil)
		if oerr != nil {
			panic(oerr)
		}
		st = &bboltStore{db: db}
	}
	got, gerr := st.GetData(vStoreKeys[0])
	if existing {
		zzverif.Assert(gerr == nil && got.Current == State_SwapOutSender_AwaitAgreement, "C15.failed_store_write_leaves_record")
	} else {
		zzverif.Assert(gerr == ErrDataNotAvailable, "C15.failed_store_write_creates_nothing")
	}
}

// vStorePutRaw / vStoreGetRaw write and read the bytes stored under key i behind the store's back.
func vStorePutRaw(st *bboltStore, i int, raw []byte) {
	if zzverif.Symbolic() {
		vBoltSwaps.present[i], vBoltSwaps.vals[i] = true, raw
		return
	}
	err := st.db.Update(func(tx *bbolt.Tx) error { return tx.Bucket(swapBuckets).Put(h2b(vStoreKeys[i]), raw) })
	if err != nil {
		panic(err)
	}
}

func vStoreGetRaw(st *bboltStore, i int) ([]byte, bool) {
	if zzverif.Symbolic() {
		return vBoltSwaps.vals[i], vBoltSwaps.present[i]
	}
	var out []byte
	st.db.View(func(tx *bbolt.Tx) error {
		if v := tx.Bucket(swapBuckets).Get(h2b(vStoreKeys[i])); v != nil {
			out = append([]byte{}, v...)
		}
		return nil
	})
	return out, out != nil
}
