//go:build verif

package swap

import (
	"math"

	"github.com/elementsproject/peerswap/lightning"
	"github.com/elementsproject/peerswap/zzverif"
)

// H_C08_openingMessage: the opening_tx_broadcasted message built by the maker's broadcasting action (as
// wired in the state tables) names the transaction and output the wallet reported, carries the invoice
// the Lightning node returned for exactly the claim amount (amount + premium for swap-out, amount for
// swap-in, as mathematical integers) with expiry 24h/1h and final CLTV 503/29 (Bitcoin/Liquid), locks the
// hash of the invoice's preimage in the output, and for Liquid carries the blinding key handed to the
// wallet.  Bounds: amounts <= 2^63 msat; premium inside the range CheckPremiumAmount admits.
func H_C08_openingMessage() {
	vExactPremium = true
	env := newEnv(true, true)
	env.w.maxFaults = 1
	swapIn := zzverif.Bool("swap_in")
	liquid := zzverif.Bool("liquid")
	s := vMakerSwap(swapIn, liquid, 7, false)
	amount, premium := s.GetAmount(), s.GetPremium()
	zzverif.Assume(amount <= vMaxAmountSat)
	// range of premiums a maker can hold in this state: the swap-in initiator checked the agreement's
	// premium (CheckPremiumAmount); the swap-out responder computed its own from its rate
	zzverif.Assume((premium >= 0 && uint64(premium) <= math.MaxUint64/1000-amount) || (premium < 0 && premium != math.MinInt64 && uint64(-premium) <= amount))
	var ev EventType
	if swapIn {
		ev = getSwapInSenderStates()[State_SwapInSender_BroadcastOpeningTx].Action.Execute(env.services, s)
	} else {
		ev = getSwapOutReceiverStates()[State_SwapOutReceiver_BroadcastOpeningTx].Action.Execute(env.services, s)
	}
	w := env.w
	if ev == Event_ActionSucceeded {
		zzverif.Reach("c08.message_built")
		m := s.OpeningTxBroadcasted
		zzverif.Assert(m != nil && m.TxId == w.openTxId && m.ScriptOut == w.openVout && s.OpeningTxHex == w.openTxHex, "C08.message_names_broadcast_tx_and_output")
		var claim uint64
		if swapIn {
			claim = amount
		} else if premium >= 0 {
			claim = amount + uint64(premium)
		} else {
			claim = amount - uint64(-premium)
		}
		zzverif.Assert(w.invoicesMade == 1 && w.lastInvoiceType == INVOICE_CLAIM && w.lastInvoiceMsat == claim*1000, "C08.invoice_for_exact_claim_amount")
		if liquid {
			zzverif.Assert(w.lastInvoiceExpiry == 3600 && w.lastInvoiceCltv == 29, "C08.liquid_invoice_expiry_and_cltv")
			zzverif.Assert(m.BlindingKey == s.BlindingKeyHex && m.BlindingKey != "", "C08.liquid_blinding_key_announced")
		} else {
			zzverif.Assert(w.lastInvoiceExpiry == 86400 && w.lastInvoiceCltv == 503, "C08.bitcoin_invoice_expiry_and_cltv")
			zzverif.Assert(m.BlindingKey == "", "C08.bitcoin_no_blinding_key")
		}
		// the hash locked in the output is the hash of the preimage the invoice was created with
		pre, perr := lightning.MakePreimageFromStr(w.lastInvoicePreimage)
		p := w.openingParams[0]
		zzverif.Assert(perr == nil && p.ClaimPaymentHash == pre.Hash().String() && s.ClaimPreimage == w.lastInvoicePreimage, "C08.output_locks_hash_of_invoice_preimage")
		zzverif.Assert(len(w.openingParams) == 1 && p.TakerPubkey == s.GetTakerPubkey() && p.MakerPubkey == s.GetMakerPubkey(), "C08.output_uses_negotiated_keys")
	}
}
