//go:build verif

package swap

import (
	"strings"

	"github.com/elementsproject/peerswap/messages"
	"github.com/elementsproject/peerswap/zzverif"
)

var vSwapMsgTypes = []messages.MessageType{messages.MESSAGETYPE_SWAPINREQUEST, messages.MESSAGETYPE_SWAPOUTREQUEST, messages.MESSAGETYPE_SWAPINAGREEMENT,
	messages.MESSAGETYPE_SWAPOUTAGREEMENT, messages.MESSAGETYPE_OPENINGTXBROADCASTED, messages.MESSAGETYPE_CANCELED, messages.MESSAGETYPE_COOPCLOSE}

func vNoEffects(w *vWorld) bool {
	return w.persists == 0 && len(w.sends) == 0 && w.payActionRuns == 0 && len(w.pays) == 0 && len(w.feePays) == 0 && len(w.watches) == 0 &&
		w.openings == 0 && len(w.spends) == 0 && w.timeouts == 0
}

// H_C21_malformedPayload_NoPanic: for each of the seven swap message types, payloads of every
// malformed class (empty, truncated, non-object JSON values, `null`, the empty object) never panic and
// change nothing.  Bound: the concrete representatives listed here (decoded exactly as encoding/json
// does); well-formed objects are the subject of the C09/C11 and step harnesses.
func H_C21_malformedPayload_NoPanic() {
	sc, _ := vC09Scenario()
	fp := vFinger(sc.sm)
	t := vSwapMsgTypes[zzverif.Choice("type", len(vSwapMsgTypes))]
	payloads := []string{"", "null", " null ", "{", "{not json", "[]", "0", "\"x\"", "true", "nul"}
	payload := []byte(payloads[zzverif.Choice("payload", len(payloads))])
	sc.svc.OnMessageReceived(zzverif.Str("sender"), vHexType(t), payload)
	zzverif.Reach("c21.returned")
	zzverif.Assert(vFinger(sc.sm) == fp && vNoEffects(sc.env.w), "C21.malformed_payload_ignored")
}

// H_C21_decodeErrorIgnored: when the JSON decoder rejects the payload, the handler returns the error and
// nothing else happens.  (The decoder model forks: error / null / content; this entry keeps the error
// case by asserting on the returned error together with the absence of effects.)
func H_C21_undecodableIgnored() {
	sc, _ := vC09Scenario()
	fp := vFinger(sc.sm)
	t := vSwapMsgTypes[zzverif.Choice("type", len(vSwapMsgTypes))]
	payload := []byte("{not json")
	err := sc.svc.OnMessageReceived(zzverif.Str("sender"), vHexType(t), payload)
	if err != nil && vNoEffects(sc.env.w) {
		zzverif.Reach("c21.rejected")
	}
	zzverif.Assert(vFinger(sc.sm) == fp, "C21.undecodable_changes_no_field")
}

// H_C21_foreignTypeIgnored: message types that are not swap messages (even numbers, other odd custom
// types, poll types handled elsewhere, unparsable strings) change nothing and are not answered.
func H_C21_foreignTypeIgnored() {
	sc, _ := vC09Scenario()
	fp := vFinger(sc.sm)
	types := []string{"a454", "a456", "a467", "a453", "ffff", "0", "a463", "a465", "zz", "", "a4550"}
	ts := types[zzverif.Choice("type", len(types))]
	sc.svc.OnMessageReceived(zzverif.Str("sender"), ts, zzverif.Bytes("payload", -1))
	zzverif.Assert(vFinger(sc.sm) == fp && vNoEffects(sc.env.w), "C21.foreign_type_ignored")
	cur, aerr := sc.svc.GetActiveSwap(sc.id)
	zzverif.Assert(aerr == nil && cur == sc.sm, "C21.foreign_type_active_swap_kept")
}

// H_C21_oversizedIgnored: a payload above 100 KiB is refused before decoding, whatever its type.
func H_C21_oversizedIgnored() {
	sc, _ := vC09Scenario()
	fp := vFinger(sc.sm)
	t := vSwapMsgTypes[zzverif.Choice("type", len(vSwapMsgTypes))]
	payload := zzverif.Bytes("payload", 100*1024+1)
	err := sc.svc.OnMessageReceived(sc.sm.Data.PeerNodeId, vHexType(t), payload)
	zzverif.Assert(err != nil && vFinger(sc.sm) == fp && vNoEffects(sc.env.w), "C21.oversized_ignored")
}

// H_C21_oversizedValidMessageIgnored: the limit is on the byte length, at every length above it: a
// well-formed cancel of the counterparty for the active swap whose encoding is longer than 100 KiB (a long
// message text; lengths 1, 512 and 1023 bytes above the limit and 101 KiB) changes nothing.
func H_C21_oversizedValidMessageIgnored() {
	sc, _ := vC09Scenario()
	fp := vFinger(sc.sm)
	zzverif.JSONArbitrary(false)
	zzverif.JSONUnbounded()
	text := zzverif.Str("m.message")
	n := []int{100*1024 + 1, 100*1024 + 512, 100*1024 + 1023, 101 * 1024}[zzverif.Choice("length", 4)]
	var payload []byte
	if zzverif.Symbolic() {
		// the encoding of some message text has exactly this length
		payload = vMarshal(&CancelMessage{SwapId: sc.sm.SwapId, Message: text})
		zzverif.Assume(len(payload) == n)
	} else {
		// natively: pad the text until the real encoding has it
		overhead := len(vMarshal(&CancelMessage{SwapId: sc.sm.SwapId, Message: ""}))
		payload = vMarshal(&CancelMessage{SwapId: sc.sm.SwapId, Message: strings.Repeat("a", n-overhead)})
	}
	err := sc.svc.OnMessageReceived(sc.sm.Data.PeerNodeId, vHexType(messages.MESSAGETYPE_CANCELED), payload)
	zzverif.Assert(err != nil && vFinger(sc.sm) == fp && vNoEffects(sc.env.w), "C21.oversized_valid_message_ignored")
	cur, aerr := sc.svc.GetActiveSwap(sc.id)
	zzverif.Assert(aerr == nil && cur == sc.sm, "C21.oversized_valid_message_keeps_swap")
}

// H_C21_sentTypesMatchStruct: every message the swap actions marshal is sent with the type number of
// the struct that was marshalled (MarshalPeerswapMessage), for all seven structs.
func H_C21_marshalTypeMatchesStruct() {
	id := vSwapId("swapid")
	msgs := []PeerMessage{&SwapInRequestMessage{SwapId: id}, &SwapOutRequestMessage{SwapId: id}, &SwapInAgreementMessage{SwapId: id},
		&SwapOutAgreementMessage{SwapId: id}, &OpeningTxBroadcastedMessage{SwapId: id}, &CancelMessage{SwapId: id}, &CoopCloseMessage{SwapId: id}}
	k := zzverif.Choice("msg", len(msgs))
	_, t, err := MarshalPeerswapMessage(msgs[k])
	zzverif.Assert(err == nil && t == int(vSwapMsgTypes[k]) && t%2 == 1 && t >= 42069 && t <= 42085, "C21.marshal_type_matches_struct")
}

// H_C21_swapIdDecoding: the swap_id field of every message is decoded by (*SwapId).FromString /
// ParseSwapIdFromString (the JSON codec calls it): exactly 64 hex characters are a swap id, everything
// else - shorter or longer hex, odd length, non-hex - is a decoding error and leaves the id untouched.
// (The JSON layer itself is outside, cf. C14; this is the kernel behind it.)
// Bounds: hex strings of 0, 1, 16, 31, 32, 33 and 64 bytes (arbitrary content), one odd-length and one
// non-hex string (concrete).
func H_C21_swapIdDecoding() {
	lens := []int{0, 1, 16, 31, 32, 33, 64}
	k := zzverif.Choice("kind", len(lens)+2)
	var str string
	wantOK := false
	switch {
	case k < len(lens):
		// (one symbol name per length: length facts about a symbol hold on every path of the entry)
		str = zzverif.HexStr([]string{"id0", "id1", "id16", "id31", "id32", "id33", "id64"}[k], lens[k])
		wantOK = lens[k] == 32
	case k == len(lens):
		str = "0123456789abcdef0123456789abcdef0123456789abcdef0123456789abcde" // 63 hex characters
	default:
		str = "zz23456789abcdef0123456789abcdef0123456789abcdef0123456789abcdef" // 64 characters, not hex
	}
	var id SwapId
	before := id
	err := id.FromString(str)
	zzverif.Assert((err == nil) == wantOK, "C21.swap_id_is_exactly_32_bytes_of_hex")
	if err != nil {
		zzverif.Assert(id == before, "C21.rejected_swap_id_leaves_id_untouched")
	} else {
		zzverif.Assert(id.String() == str, "C21.swap_id_round_trip")
	}
	p, perr := ParseSwapIdFromString(str)
	zzverif.Assert((perr == nil) == wantOK && (perr != nil || p.String() == str), "C21.parse_swap_id_is_exactly_32_bytes_of_hex")
}

// H_C21_swapIdJsonForm: the JSON form of a swap id is a JSON string of 64 hex characters and nothing else:
// (*SwapId).UnmarshalJSON accepts the quoted id (also when characters are written as \u escapes, which a JSON
// string may do) and rejects a number made of 64 digits, an unquoted word, an object, an array, a string with
// the id and more, and null; a rejected value leaves the id untouched.
// Bounds: the concrete payloads listed below.
func H_C21_swapIdJsonForm() {
	const hex64 = "0123456789abcdef0123456789abcdef0123456789abcdef0123456789abcdef"
	payloads := []string{
		`"` + hex64 + `"`,
		`"\u0030123456789abcdef0123456789abcdef0123456789abcdef0123456789abcdef"`, // the first character escaped
		`1111111111111111111111111111111111111111111111111111111111111111`,
		hex64,
		`{"id":"` + hex64 + `"}`,
		`["` + hex64 + `"]`,
		`"` + hex64 + `00"`,
		`null`,
		`""` + hex64 + `""`,
	}
	k := zzverif.Choice("payload", len(payloads))
	var id SwapId
	before := id
	err := id.UnmarshalJSON([]byte(payloads[k]))
	zzverif.Assert((err == nil) == (k < 2), "C21.swap_id_json_form_is_a_string_of_64_hex_characters")
	if err != nil {
		zzverif.Assert(id == before, "C21.rejected_json_swap_id_leaves_id_untouched")
	} else {
		zzverif.Assert(id.String() == hex64, "C21.json_swap_id_value")
	}
}
