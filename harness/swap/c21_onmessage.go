//go:build verif

package swap

import (
	"github.com/elementsproject/peerswap/messages"
	"github.com/elementsproject/peerswap/zzverif"
)

var vSwapMsgTypes = []messages.MessageType{messages.MESSAGETYPE_SWAPINREQUEST, messages.MESSAGETYPE_SWAPOUTREQUEST, messages.MESSAGETYPE_SWAPINAGREEMENT,
	messages.MESSAGETYPE_SWAPOUTAGREEMENT, messages.MESSAGETYPE_OPENINGTXBROADCASTED, messages.MESSAGETYPE_CANCELED, messages.MESSAGETYPE_COOPCLOSE}

func vNoEffects(w *vWorld) bool {
	return w.persists == 0 && len(w.sends) == 0 && w.payActionRuns == 0 && len(w.pays) == 0 && len(w.feePays) == 0 && len(w.watches) == 0 &&
		w.openings == 0 && len(w.spends) == 0 && w.timeouts == 0
}

// H_C21_malformedPayload_NoPanic: for each of the seven swap message types, payloads of every
// malformed class (empty, truncated, non-object JSON values, `null`, the empty object) never panic and
// change nothing.  Bound: the concrete representatives listed here (decoded exactly as encoding/json
// does); well-formed objects are the subject of the C09/C11 and step harnesses.
func H_C21_malformedPayload_NoPanic() {
	sc, _ := vC09Scenario()
	fp := vFinger(sc.sm)
	t := vSwapMsgTypes[zzverif.Choice("type", len(vSwapMsgTypes))]
	payloads := []string{"", "null", " null ", "{", "{not json", "[]", "0", "\"x\"", "true", "nul"}
	payload := []byte(payloads[zzverif.Choice("payload", len(payloads))])
	sc.svc.OnMessageReceived(zzverif.Str("sender"), vHexType(t), payload)
	zzverif.Reach("c21.returned")
	zzverif.Assert(vFinger(sc.sm) == fp && vNoEffects(sc.env.w), "C21.malformed_payload_ignored")
}

// H_C21_decodeErrorIgnored: when the JSON decoder rejects the payload, the handler returns the error and
// nothing else happens.  (The decoder model forks: error / null / content; this entry keeps the error
// case by asserting on the returned error together with the absence of effects.)
func H_C21_undecodableIgnored() {
	sc, _ := vC09Scenario()
	fp := vFinger(sc.sm)
	t := vSwapMsgTypes[zzverif.Choice("type", len(vSwapMsgTypes))]
	payload := []byte("{not json")
	err := sc.svc.OnMessageReceived(zzverif.Str("sender"), vHexType(t), payload)
	if err != nil && vNoEffects(sc.env.w) {
		zzverif.Reach("c21.rejected")
	}
	zzverif.Assert(vFinger(sc.sm) == fp, "C21.undecodable_changes_no_field")
}

// H_C21_foreignTypeIgnored: message types that are not swap messages (even numbers, other odd custom
// types, poll types handled elsewhere, unparsable strings) change nothing and are not answered.
func H_C21_foreignTypeIgnored() {
	sc, _ := vC09Scenario()
	fp := vFinger(sc.sm)
	types := []string{"a454", "a456", "a467", "a453", "ffff", "0", "a463", "a465", "zz", "", "a4550"}
	ts := types[zzverif.Choice("type", len(types))]
	sc.svc.OnMessageReceived(zzverif.Str("sender"), ts, zzverif.Bytes("payload", -1))
	zzverif.Assert(vFinger(sc.sm) == fp && vNoEffects(sc.env.w), "C21.foreign_type_ignored")
	cur, aerr := sc.svc.GetActiveSwap(sc.id)
	zzverif.Assert(aerr == nil && cur == sc.sm, "C21.foreign_type_active_swap_kept")
}

// H_C21_oversizedIgnored: a payload above 100 KiB is refused before decoding, whatever its type.
func H_C21_oversizedIgnored() {
	sc, _ := vC09Scenario()
	fp := vFinger(sc.sm)
	t := vSwapMsgTypes[zzverif.Choice("type", len(vSwapMsgTypes))]
	payload := zzverif.Bytes("payload", 100*1024+1)
	err := sc.svc.OnMessageReceived(sc.sm.Data.PeerNodeId, vHexType(t), payload)
	zzverif.Assert(err != nil && vFinger(sc.sm) == fp && vNoEffects(sc.env.w), "C21.oversized_ignored")
}

// H_C21_sentTypesMatchStruct: every message the swap actions marshal is sent with the type number of
// the struct that was marshalled (MarshalPeerswapMessage), for all seven structs.
func H_C21_marshalTypeMatchesStruct() {
	id := vSwapId("swapid")
	msgs := []PeerMessage{&SwapInRequestMessage{SwapId: id}, &SwapOutRequestMessage{SwapId: id}, &SwapInAgreementMessage{SwapId: id},
		&SwapOutAgreementMessage{SwapId: id}, &OpeningTxBroadcastedMessage{SwapId: id}, &CancelMessage{SwapId: id}, &CoopCloseMessage{SwapId: id}}
	k := zzverif.Choice("msg", len(msgs))
	_, t, err := MarshalPeerswapMessage(msgs[k])
	zzverif.Assert(err == nil && t == int(vSwapMsgTypes[k]) && t%2 == 1 && t >= 42069 && t <= 42085, "C21.marshal_type_matches_struct")
}
