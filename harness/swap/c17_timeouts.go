//go:build verif

package swap

import (
	"time"

	"github.com/elementsproject/peerswap/messages"
	"github.com/elementsproject/peerswap/zzverif"
)

func (sc *vScenario) cancelSentToPeer() bool {
	for i := range sc.env.w.sends {
		s := sc.env.w.sends[i]
		if s.msgType == int(messages.MESSAGETYPE_CANCELED) && s.peer == sc.sm.Data.PeerNodeId {
			return true
		}
	}
	return false
}

// vC17 runs one stimulus without injected faults and reports (post state, cancel sent, still active).
func vC17(role int, st StateType, stim int) (StateType, bool, bool) {
	sc := vBuild(role, st, zzverif.Bool("liquid"), 7)
	sc.env.w.maxFaults = 0
	sc.env.w.narrow = sc.sm.Data
	peer := sc.sm.Data.PeerNodeId
	sc.vApply(stim)
	_, aerr := sc.svc.GetActiveSwap(sc.id)
	sent := false
	for i := range sc.env.w.sends {
		s := sc.env.w.sends[i]
		if s.msgType == int(messages.MESSAGETYPE_CANCELED) && s.peer == peer {
			sent = true
		}
	}
	return sc.vCurrent(), sent, aerr == nil
}

// H_C17_requesterTimeout: a requester waiting for the agreement reacts to the negotiation timeout by
// telling the peer (cancel) and finishing the swap (SwapCanceled, channel released).  No injected faults.
func H_C17_requesterTimeout() {
	role, st := rOutSender, State_SwapOutSender_AwaitAgreement
	if zzverif.Bool("swap_in") {
		role, st = rInSender, State_SwapInSender_AwaitAgreement
	}
	post, sent, active := vC17(role, st, stTimeout)
	zzverif.Assert(post == State_SwapCanceled && !active, "C17.requester_timeout_cancels")
	zzverif.Assert(sent, "C17.requester_timeout_tells_peer")
}

// H_C17_requesterRestart: the same after a restart (the in-memory timer is gone): recovery from
// AwaitAgreement cancels the swap and tells the peer.
func H_C17_requesterRestart() {
	role, st := rOutSender, State_SwapOutSender_AwaitAgreement
	if zzverif.Bool("swap_in") {
		role, st = rInSender, State_SwapInSender_AwaitAgreement
	}
	post, sent, active := vC17(role, st, stRestart)
	zzverif.Assert(post == State_SwapCanceled && !active, "C17.requester_restart_cancels")
	zzverif.Assert(sent, "C17.requester_restart_tells_peer")
}

// H_C17_feeInvoiceTimeout: a swap-out responder whose fee invoice is not paid reacts to its 10 minute
// timeout by failing the swap and telling the peer.
func H_C17_feeInvoiceTimeout() {
	post, sent, active := vC17(rOutReceiver, State_SwapOutReceiver_AwaitFeeInvoicePayment, stTimeout)
	zzverif.Assert(post == State_SwapCanceled && !active, "C17.fee_invoice_timeout_fails_swap")
	zzverif.Assert(sent, "C17.fee_invoice_timeout_tells_peer")
}

// H_C17_arming: the actions that start a negotiation wait arm a 10 minute timeout, and the fee invoice
// expires after 600 s.
func H_C17_arming() {
	env := newEnv(true, true)
	env.w.maxFaults = 1
	liquid := zzverif.Bool("liquid")
	switch zzverif.Choice("action", 3) {
	case 0: // requester (both swap types create the request with this action)
		s := vDataFor(rOutSender, State_SwapOutSender_CreateSwap, liquid, 7)
		ev := (&CreateSwapRequestAction{}).Execute(env.services, s)
		zzverif.Assert(ev != Event_ActionSucceeded || (env.w.timeouts == 1 && env.w.lastTimeout == 10*time.Minute), "C17.request_arms_10_minutes")
	case 1: // swap-out responder
		s := vDataFor(rOutReceiver, State_SwapOutReceiver_CreateSwap, liquid, 7)
		ev := (&CreateSwapOutFromRequestAction{}).Execute(env.services, s)
		zzverif.Assert(ev != Event_ActionSucceeded || (env.w.timeouts == 1 && env.w.lastTimeout == 10*time.Minute), "C17.fee_invoice_arms_10_minutes")
		zzverif.Assert(ev != Event_ActionSucceeded || (env.w.invoicesMade == 1 && env.w.lastInvoiceType == INVOICE_FEE && env.w.lastInvoiceExpiry == 600), "C17.fee_invoice_expires_after_600s")
	default: // swap-in responder
		s := vDataFor(rInReceiver, State_SwapInReceiver_CreateSwap, liquid, 7)
		ev := (&SwapInReceiverInitAction{}).Execute(env.services, s)
		zzverif.Assert(ev != Event_ActionSucceeded || (env.w.timeouts == 1 && env.w.lastTimeout == 10*time.Minute), "C17.agreement_arms_10_minutes")
	}
}
