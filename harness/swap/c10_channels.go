//go:build verif

package swap

import (
	"strings"

	"github.com/elementsproject/peerswap/messages"
	"github.com/elementsproject/peerswap/zzverif"
)

// vScid renders block/tx/output parts with the given separator ('x' or ':').
func vScid(a, b, c string, colon bool) string {
	sep := "x"
	if colon {
		sep = ":"
	}
	return a + sep + b + sep + c
}

func vNorm(s string) string { return strings.ReplaceAll(s, ":", "x") }

// vActiveOnChannel counts non-terminal active swaps whose channel id denotes the same channel.
func vActiveOnChannel(svc *SwapService, a, b, c string) int {
	n := 0
	for _, sm := range svc.activeSwaps {
		if sm.IsFinished() {
			continue
		}
		g := sm.Data.GetScid()
		if g == vScid(a, b, c, false) || g == vScid(a, b, c, true) {
			n++
		}
	}
	return n
}

// vC10Existing: a service with one active, non-terminal swap (any role, resting) on channel a-b-c written
// with either separator.  Channel parts are arbitrary strings without separators (bound: none on length;
// the comparison in the code is on whole strings).
func vC10Existing() (*vScenario, string, string, string) {
	a, b, c := "539268", "845", "1" // parts are concrete: the defect class depends on the separator only
	sc, _ := vC09Scenario()
	scid := vScid(a, b, c, zzverif.Bool("existing.colon"))
	if sc.sm.Data.SwapInRequest != nil {
		sc.sm.Data.SwapInRequest.Scid = scid
	} else {
		sc.sm.Data.SwapOutRequest.Scid = scid
	}
	sc.env.store.recs[sc.id] = vSnapshot(sc.sm)
	zzverif.Unwind(16)
	// local service failures only ever refuse the new swap earlier: not this property's subject here
	// (H_C10_requestAfterRestore keeps one during the restart)
	if !zzverif.Thorough() {
		sc.env.w.maxFaults = 0
	}
	// policy lets the new swap through so that only the channel lock can refuse it
	sc.env.policy.newSwaps, sc.env.policy.allowed, sc.env.policy.suspicious, sc.env.policy.minMsat = true, true, false, 0
	return sc, a, b, c
}

// H_C10_localInitiation: SwapOut / SwapIn for a channel that already has an active swap is refused,
// whichever separator either side of the comparison was written with.
func H_C10_localInitiation() {
	sc, a, b, c := vC10Existing()
	newScid := vScid(a, b, c, zzverif.Bool("new.colon"))
	chain := "btc"
	if sc.liquid {
		chain = "lbtc"
	}
	var err error
	if zzverif.Bool("new.swapout") {
		_, err = sc.svc.SwapOut(vPeer, chain, newScid, "initiator", zzverif.U64("new.amount"), zzverif.I64("new.limitppm"))
	} else {
		_, err = sc.svc.SwapIn(vPeer, chain, newScid, "initiator", zzverif.U64("new.amount"), zzverif.I64("new.limitppm"))
	}
	zzverif.Assert(vActiveOnChannel(sc.svc, a, b, c) <= 1, "C10.one_active_swap_per_channel_local")
	zzverif.Assert(err != nil, "C10.local_initiation_refused")
}

// H_C10_peerRequest: a peer's request for a channel that already has an active swap is answered with
// cancel and does not create a second active swap.
func H_C10_peerRequest() {
	sc, a, b, c := vC10Existing()
	newScid := vScid(a, b, c, zzverif.Bool("new.colon"))
	asset, network := vChainFields(sc.liquid)
	peer := vPeer
	id := vSwapId("new.id")
	zzverif.Assume(id.String() != sc.id)
	if zzverif.Bool("new.swapin") {
		m := &SwapInRequestMessage{ProtocolVersion: 7, SwapId: id, Asset: asset, Network: network, Scid: newScid, Amount: zzverif.U64("new.amount"), Pubkey: zzverif.HexStr("new.pubkey", 33), PremiumLimit: zzverif.I64("new.limit")}
		sc.svc.OnMessageReceived(peer, vHexType(messages.MESSAGETYPE_SWAPINREQUEST), vMarshal(m))
	} else {
		m := &SwapOutRequestMessage{ProtocolVersion: 7, SwapId: id, Asset: asset, Network: network, Scid: newScid, Amount: zzverif.U64("new.amount"), Pubkey: zzverif.HexStr("new.pubkey", 33), PremiumLimit: zzverif.I64("new.limit")}
		sc.svc.OnMessageReceived(peer, vHexType(messages.MESSAGETYPE_SWAPOUTREQUEST), vMarshal(m))
	}
	cnt := vCountSends(sc.env.w, peer)
	zzverif.Assert(vActiveOnChannel(sc.svc, a, b, c) <= 1, "C10.one_active_swap_per_channel_request")
	zzverif.Assert(cnt.agreements == 0, "C10.request_on_busy_channel_not_agreed")
	_, aerr := sc.svc.GetActiveSwap(id.String())
	zzverif.Assert(aerr != nil, "C10.request_on_busy_channel_not_activated")
}

// H_C10_restore: two stored non-terminal swaps on one channel (which C10 forbids to arise, but a record
// written by an older version or in the other spelling may exist) are not both re-activated.
func H_C10_restore() {
	sc, a, b, c := vC10Existing()
	// a second stored record for the same channel in either spelling
	other := vBuild(rOutSender, State_SwapOutSender_AwaitTxBroadcastedMessage, sc.liquid, 7)
	other.sm.Data.SwapOutRequest.Scid = vScid(a, b, c, zzverif.Bool("other.colon"))
	zzverif.Assume(other.id != sc.id)
	sc.env.store.recs[other.id] = vSnapshot(other.sm)
	sc.env.w.maxFaults = 0
	sc.vRestart()
	zzverif.Assert(vActiveOnChannel(sc.svc, a, b, c) <= 1, "C10.one_active_swap_per_channel_restored")
}

// vNonTerminalOnChannel counts the swaps the node knows (active map and store) that are not finished and
// belong to the channel, each id once.
func vNonTerminalOnChannel(sc *vScenario, a, b, c string) int {
	seen := map[string]bool{}
	n := 0
	count := func(id string, sm *SwapStateMachine) {
		if seen[id] || sm.IsFinished() {
			return
		}
		g := sm.Data.GetScid()
		if g == vScid(a, b, c, false) || g == vScid(a, b, c, true) {
			seen[id] = true
			n++
		}
	}
	for id, sm := range sc.svc.activeSwaps {
		count(id, sm)
	}
	for _, id := range sc.env.store.ids() {
		count(id, sc.env.store.recs[id])
	}
	return n
}

// H_C10_requestAfterRestore: after a restart - also one during which a local service failed while the swap
// was being recovered - a request for the channel of a stored non-terminal swap is still refused: the
// node never knows two non-terminal swaps (active or only stored) for one channel.  Bound: <= 1 injected
// fault during the restart, none afterwards.
func H_C10_requestAfterRestore() {
	a, b, c := "539268", "845", "1"
	role, st := rOutReceiver, State_SwapOutReceiver_AwaitClaimInvoicePayment
	if zzverif.Bool("existing.taker") {
		role, st = rOutSender, State_SwapOutSender_AwaitTxConfirmation
	}
	sc := vBuild(role, st, false, 7)
	sc.env.w.maxPayAttempts = 1
	sc.env.w.narrow = sc.sm.Data
	sc.sm.Data.SwapOutRequest.Scid = vScid(a, b, c, zzverif.Bool("existing.colon"))
	sc.env.store.recs[sc.id] = vSnapshot(sc.sm)
	sc.env.policy.newSwaps, sc.env.policy.allowed, sc.env.policy.suspicious, sc.env.policy.minMsat = true, true, false, 0
	zzverif.Unwind(16)
	sc.env.w.maxFaults = 1
	sc.vRestart()
	sc.env.w.maxFaults = sc.env.w.faults // no further faults
	newScid := vScid(a, b, c, zzverif.Bool("new.colon"))
	asset, network := vChainFields(sc.liquid)
	id := vSwapId("new.id")
	zzverif.Assume(id.String() != sc.id)
	m := &SwapInRequestMessage{ProtocolVersion: 7, SwapId: id, Asset: asset, Network: network, Scid: newScid, Amount: zzverif.U64("new.amount"), Pubkey: zzverif.HexStr("new.pubkey", 33), PremiumLimit: zzverif.I64("new.limit")}
	sc.svc.OnMessageReceived(vPeer, vHexType(messages.MESSAGETYPE_SWAPINREQUEST), vMarshal(m))
	zzverif.Assert(vNonTerminalOnChannel(sc, a, b, c) <= 1, "C10.one_non_terminal_swap_per_channel_after_restore")
}

// H_C10_requestWhileInitiating: schedules.  While a local initiation for a channel is under way (the
// service is inside a collaborator call between taking the channel and sending the request), a peer's
// request for the same channel - in either spelling - is handled by the message goroutine.  Whatever the
// order in which the two finish, the node must not end up with two non-terminal swaps on the channel.
// Decided with a second logical goroutine started at the yield point (natively a real goroutine started
// from the wallet / messenger stub).  Bounds: one concurrent request, one yield point (wallet lookup or
// the request send), no injected faults, default premium rate in force; Liquid in the thorough tier only.
func H_C10_requestWhileInitiating() {
	a, b, c := "539268", "845", "1"
	env := newEnv(true, true)
	w := env.w
	w.maxFaults = 0
	env.policy.newSwaps, env.policy.allowed, env.policy.suspicious, env.policy.minMsat = true, true, false, 0
	svc := NewSwapService(env.services)
	zzverif.Unwind(16)
	// which premium rate applies is irrelevant for the channel lock: the default rate is the one in force
	zzverif.Assume(!w.rates.peerSet && w.rates.defSet)
	liquid := zzverif.Thorough() && zzverif.Bool("liquid")
	asset, network := vChainFields(liquid)
	chain := "btc"
	if liquid {
		chain = "lbtc"
	}
	id := vSwapId("new.id")
	peerScid := vScid(a, b, c, zzverif.Bool("peer.colon"))
	peerSwapIn := zzverif.Bool("peer.swapin")
	peerAmount, peerLimit, peerKey := zzverif.U64("peer.amount"), zzverif.I64("peer.limit"), zzverif.HexStr("peer.pubkey", 33)
	if zzverif.Bool("yield.at_send") {
		w.yieldAt = "send"
	} else {
		w.yieldAt = "wallet"
	}
	w.interleave = func() {
		if peerSwapIn {
			m := &SwapInRequestMessage{ProtocolVersion: 7, SwapId: id, Asset: asset, Network: network, Scid: peerScid, Amount: peerAmount, Pubkey: peerKey, PremiumLimit: peerLimit}
			svc.OnMessageReceived(vPeer, vHexType(messages.MESSAGETYPE_SWAPINREQUEST), vMarshal(m))
		} else {
			m := &SwapOutRequestMessage{ProtocolVersion: 7, SwapId: id, Asset: asset, Network: network, Scid: peerScid, Amount: peerAmount, Pubkey: peerKey, PremiumLimit: peerLimit}
			svc.OnMessageReceived(vPeer, vHexType(messages.MESSAGETYPE_SWAPOUTREQUEST), vMarshal(m))
		}
	}
	localScid := vScid(a, b, c, zzverif.Bool("local.colon"))
	localAmount, localLimit := zzverif.U64("local.amount"), zzverif.I64("local.limitppm")
	// the domain of the premium arithmetic shortcut (vCheapCompute), stated once up front
	zzverif.Assume(localAmount <= 1<<40 && peerAmount <= 1<<40 && localLimit <= 1000000 && localLimit >= -1000000)
	zzverif.Assume(w.rates.peerPpm <= 1000000 && w.rates.peerPpm >= -1000000 && w.rates.defPpm <= 1000000 && w.rates.defPpm >= -1000000)
	zzverif.Assume(w.rates.peerPpmIn <= 1000000 && w.rates.peerPpmIn >= -1000000 && w.rates.defPpmIn <= 1000000 && w.rates.defPpmIn >= -1000000)
	if zzverif.Bool("local.swapout") {
		svc.SwapOut(vPeer, chain, localScid, "initiator", localAmount, localLimit)
	} else {
		svc.SwapIn(vPeer, chain, localScid, "initiator", localAmount, localLimit)
	}
	zzverif.Assert(zzverif.Blocked() == 0, "C10.concurrent_request_completes")
	if w.interleaved {
		zzverif.Reach("c10.request_raced_initiation")
	}
	zzverif.Assert(vActiveOnChannel(svc, a, b, c) <= 1, "C10.one_active_swap_per_channel_concurrent")
}

// H_C10_peerMessageKeepsFundedSwapLocked: a maker whose opening transaction is out stays locked on its
// channel whatever the taker sends next: a cancel or coop_close moves it to its CSV / coop-claim wait (a
// non-terminal state), the swap stays in the active map, and a new request for the channel is still
// refused.  Bounds: one message, then one request; no injected faults.
func H_C10_peerMessageKeepsFundedSwapLocked() {
	a, b, c := "539268", "845", "1"
	role, st := rInSender, State_SwapInSender_AwaitClaimPayment
	if zzverif.Bool("swap_out") {
		role, st = rOutReceiver, State_SwapOutReceiver_AwaitClaimInvoicePayment
	}
	sc := vBuild(role, st, false, 7)
	w := sc.env.w
	w.maxFaults = 0
	w.narrow = sc.sm.Data
	scid := vScid(a, b, c, zzverif.Bool("existing.colon"))
	if sc.sm.Data.SwapInRequest != nil {
		sc.sm.Data.SwapInRequest.Scid = scid
	} else {
		sc.sm.Data.SwapOutRequest.Scid = scid
	}
	sc.env.store.recs[sc.id] = vSnapshot(sc.sm)
	sc.env.policy.newSwaps, sc.env.policy.allowed, sc.env.policy.suspicious, sc.env.policy.minMsat = true, true, false, 0
	zzverif.Unwind(16)
	msg := stMsgCancel
	if zzverif.Bool("coop_close") {
		msg = stMsgCoopClose
	}
	sc.vApply(msg)
	post := sc.vCurrent()
	if !vIsTerminal(post) {
		zzverif.Reach("c10.funded_swap_still_open")
		_, aerr := sc.svc.GetActiveSwap(sc.id)
		zzverif.Assert(aerr == nil, "C10.unfinished_swap_stays_active")
		asset, network := vChainFields(false)
		id := vSwapId("new.id")
		zzverif.Assume(id.String() != sc.id)
		m := &SwapOutRequestMessage{ProtocolVersion: 7, SwapId: id, Asset: asset, Network: network, Scid: vScid(a, b, c, zzverif.Bool("new.colon")), Amount: zzverif.U64("new.amount"), Pubkey: zzverif.HexStr("new.pubkey", 33), PremiumLimit: zzverif.I64("new.limit")}
		sc.svc.OnMessageReceived(vPeer, vHexType(messages.MESSAGETYPE_SWAPOUTREQUEST), vMarshal(m))
		zzverif.Assert(vActiveOnChannel(sc.svc, a, b, c) <= 1 && vNonTerminalOnChannel(sc, a, b, c) <= 1, "C10.one_swap_per_channel_after_peer_message")
	}
}
