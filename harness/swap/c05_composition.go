//go:build verif

package swap

import "github.com/elementsproject/peerswap/zzverif"

// H_C05_composition: assume-guarantee composition for C05.  Every assumption below is the conclusion of
// an obligation discharged against the real code by another entry (named in the comment); the assertion
// is the property.  S = taker start height, p = tip read immediately before a payment attempt, f = final
// CLTV of the accepted invoice, hc = height of the block that confirmed the opening transaction as the
// watcher that delivered "confirmed" saw it, h = tip that watcher read.  Domain: heights < 2^31 (no
// uint32 wrap), 0 <= f (a Lightning node never reports a negative min_final_cltv_expiry).
func H_C05_composition() {
	S, p, hc, h := uint64(zzverif.U32("S")), uint64(zzverif.U32("p")), uint64(zzverif.U32("hc")), uint64(zzverif.U32("h"))
	f := zzverif.I64("f")
	zzverif.Assume(S < 1<<31 && p < 1<<31 && hc < 1<<31 && h < 1<<31 && S != 0)
	// H_C05_awaitTxConfirmation: C05.watch_cltv_at_most_504 (+ decoder contract f >= 0)
	zzverif.Assume(f >= 0 && f <= 504)
	// H_C05_payClaim: C05.pay_height_at_most_S_plus_504
	zzverif.Assume(p >= S && p <= S+504)
	// chain heights read by one node never decrease: start <= watcher's tip <= payment tip
	zzverif.Assume(S <= h && h <= p)
	lnd := zzverif.Bool("backend.lnd")
	var delay uint64
	if lnd {
		// H_C05_lndRequestNoLimit: CltvLimit = f + BlockPadding + 1 = f + 4
		delay = uint64(f) + 4
		// H_C05_lndHandover: C05.lnd_ok_confs_below_504 (h <= hc + 502); the payment follows the watcher's report
		zzverif.Assume(h+1 < hc+504)
	} else {
		// H_C05_clnRouteNoLimit: Delay = f + 1
		delay = uint64(f) + 1
		// H_C05_rpcHandover: C05.rpc_ok_three_confirmations_on_tip, rpc_ok_tip_below_start_plus_504,
		// rpc_ok_first_conf_three_deep_below_tip
		zzverif.Assume(hc+2 <= h && h < S+504)
	}
	zzverif.Reach("c05.composition")
	// the HTLC can still be settled at p + delay; the maker's refund can confirm in block hc + 1008
	zzverif.Assert(p+delay < hc+1008, "C05.htlc_expires_before_csv_refund")
}
