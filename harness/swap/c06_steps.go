//go:build verif

package swap

import (
	"github.com/elementsproject/peerswap/messages"
	"github.com/elementsproject/peerswap/zzverif"
)

// C06 tier A: one inductive step.  Ghost: w.payOut = "a claim payment has settled or may still be
// outstanding".  Invariant: payOut => the taker is in a state from which it only claims with the
// preimage (or waits for the confirmation again after a restart); step obligation: no coop_close
// leaves the node while payOut, and the invariant is re-established.

func vC06PaidState(role int, st StateType) bool {
	if role == rOutSender {
		return st == State_SwapOutSender_AwaitTxConfirmation || st == State_SwapOutSender_ValidateTxAndPayClaimInvoice ||
			st == State_SwapOutSender_ClaimSwap || st == State_ClaimedPreimage
	}
	return st == State_SwapInReceiver_AwaitTxConfirmation || st == State_SwapInReceiver_ValidateTxAndPayClaimInvoice ||
		st == State_SwapInReceiver_ClaimSwap || st == State_ClaimedPreimage
}

// vStepTaker: one arbitrary stimulus to a taker resting in st.  Obligations of several properties are
// evaluated on the same exploration (labels carry the property id).
// Bounds: protocol 7, at most one injected local service fault per step, at most two claim payment
// attempts per step, chain height pinned to the swap's start height (window arithmetic: C04/C05 action
// harnesses), id-reusing requests excluded (C09's subject).
func vStepTaker(role int, st StateType) {
	liquid := zzverif.Bool("liquid")
	sc := vBuild(role, st, liquid, 7)
	w := sc.env.w
	w.maxFaults = 1
	w.maxPayAttempts = 1 // bound: claim payment attempts per step (2 in the thorough tier)
	if zzverif.Thorough() {
		w.maxPayAttempts = 2
	}
	d := sc.sm.Data
	w.narrow = d
	// ---- pre-state (ghost) ----
	w.payOut = zzverif.Bool("pre.payout")
	zzverif.Assume(!w.payOut || vC06PaidState(role, st))
	anchor0, set0 := d.StartingBlockHeight, d.StartingBlockHeightSet
	if liquid {
		// C13 data invariant: a Liquid v7 taker that has revealed its pubkey has a stored anchor
		zzverif.Assume(set0)
	}
	next0, nextType0 := d.NextMessage, d.NextMessageType
	stim := stRestart
	if vIsResting(st) {
		stim = zzverif.Choice("stim", nStimuli)
	}
	if stim == stMsgRequest {
		zzverif.Assume(false)
	}
	zzverif.Unwind(30)
	w.effectProbe = func() *SwapStateMachine {
		if sm, err := sc.svc.GetActiveSwap(sc.id); err == nil {
			return sm
		}
		return nil
	}
	sc.vApply(stim)
	post := sc.vCurrent()
	pd := sc.sm.Data
	zzverif.Reach("taker.step_done")
	// ---- a swap that is not finished stays active ----
	// (it stays in the active map, which is what lockSwap consults; dropping it would admit a second swap
	// on the channel and lose every later event for this one)
	if !vIsTerminal(post) {
		_, aerr := sc.svc.GetActiveSwap(sc.id)
		zzverif.Assert(aerr == nil, "C06.unfinished_swap_stays_active")
	}
	// ---- C15: the record keeps up with the state machine ----
	// every send / broadcast / payment / spend of the step ran while the stored record named the state
	// entered last before the running action's state (SendEvent writes after every action), and when the
	// step is over the record names the state the swap rests in: a crash at any of these points is
	// recovered from a state that knows what was done
	zzverif.Assert(!w.effectStale, "C15.effects_run_on_a_current_record")
	zzverif.Assert(!w.effectStale, "C06.effects_run_on_a_current_record") // the crash model of C06 rests on it
	zzverif.Assert(!w.effectStale, "C13.effects_run_on_a_current_record") // the crash model of C13 rests on it
	if act, err := sc.svc.GetActiveSwap(sc.id); err == nil && !w.storeFailed {
		rec, ok := sc.env.store.recs[sc.id]
		zzverif.Assert(ok && rec.Current == act.Current, "C15.record_names_resting_state")
	}
	// ---- C06 ----
	zzverif.Assert(sc.vCoopCloseSends() == 0 || !w.payOut, "C06.no_coop_close_while_payment_may_be_out")
	zzverif.Assert(!w.payOut || vC06PaidState(role, post), "C06.invariant_paid_implies_claiming_state")
	// a taker that tried to claim keeps trying until the claim is out: a step in which a claim attempt was
	// made never ends resting in ClaimSwap (the fault budget lets the next attempt succeed), unless the
	// store failed
	if w.spendAttempts > 0 && (post == State_SwapOutSender_ClaimSwap || post == State_SwapInReceiver_ClaimSwap) {
		zzverif.Assert(w.storeFailed, "C06.paid_taker_keeps_claiming_until_it_succeeds")
	}
	// ---- C13: the anchor never changes once set ----
	if liquid {
		zzverif.Assert(pd.StartingBlockHeightSet && pd.StartingBlockHeight == anchor0, "C13.anchor_immutable")
		if rec, ok := sc.env.store.recs[sc.id]; ok {
			zzverif.Assert(rec.Data.StartingBlockHeightSet && rec.Data.StartingBlockHeight == anchor0, "C13.stored_anchor_immutable")
		}
	}
	// ---- C15 ----
	zzverif.Assert(w.openings == 0, "C15.taker_never_broadcasts_opening")
	if st == State_SwapCanceled || st == State_SendCancel || st == State_ClaimedCoop {
		zzverif.Assert(len(w.pays) == 0 && len(w.feePays) == 0, "C15.no_payment_after_cancel")
	}
	if stim == stRestart && role == rInReceiver && st == State_SwapInReceiver_SendAgreement {
		for i := range w.sends {
			zzverif.Assert(string(w.sends[i].payload) == string(next0) && w.sends[i].msgType == nextType0 || w.sends[i].msgType != int(messages.MESSAGETYPE_SWAPINAGREEMENT), "C15.resent_agreement_is_persisted_message")
		}
	}
	_ = nextType0
	// ---- C23: what leaves the node ----
	for i := range w.sends {
		snd := w.sends[i]
		if snd.msgType == int(messages.MESSAGETYPE_COOPCLOSE) {
			// the taker's own swap key is what coop_close is for; nothing else secret may be in it
			zzverif.AssertNoFlow("C23.coop_close_carries_only_the_swap_key", snd.payload, "claimpreimage", "pay.preimage", "payfee.preimage", "rand.GetPreimage", "newprivkey")
		} else {
			zzverif.AssertNoFlow("C23.no_secret_in_taker_message", snd.payload, "privkey", "claimpreimage", "pay.preimage", "payfee.preimage", "rand.GetPreimage", "newprivkey")
		}
	}
}

// H_C06_payActionContract: the real paying action stays inside the summary used by the history
// harnesses: it returns ActionSucceeded or ActionFailed; on success a payment went out (payOut) and the
// preimage field is what the node returned; it changes no persisted field other than ClaimPreimage,
// LastErrString and CancelMessage; it never sends a message, registers a watcher or arms a timeout.
func H_C06_payActionContract() {
	env := newEnv(true, true)
	s := vTakerSwap(zzverif.Bool("swap_in"), zzverif.Bool("liquid"), 7)
	pre := *s
	preOtb := *s.OpeningTxBroadcasted
	cancel0 := s.CancelMessage
	zzverif.Unwind(12)
	ev := (&ValidateTxAndPayClaimInvoiceAction{}).Execute(env.services, s)
	w := env.w
	zzverif.Assert(ev == Event_ActionSucceeded || ev == Event_ActionFailed, "C06.payaction_events")
	zzverif.Assert(ev != Event_ActionSucceeded || (w.payOut && len(w.pays) > 0 && w.pays[len(w.pays)-1].ok), "C06.payaction_success_means_paid")
	zzverif.Assert(len(w.pays) > 0 || !w.payOut, "C06.payaction_payout_only_by_attempt")
	zzverif.Assert(len(w.sends) == 0 && len(w.watches) == 0 && w.timeouts == 0 && len(w.feePays) == 0 && w.openings == 0 && len(w.spends) == 0, "C06.payaction_no_other_effects")
	zzverif.Assert(s.OpeningTxHex == pre.OpeningTxHex && s.StartingBlockHeight == pre.StartingBlockHeight && s.StartingBlockHeightSet == pre.StartingBlockHeightSet &&
		s.ClaimPaymentHash == pre.ClaimPaymentHash && s.ClaimTxId == pre.ClaimTxId && s.PeerNodeId == pre.PeerNodeId && s.FeePreimage == pre.FeePreimage &&
		s.OpeningTxBroadcasted == pre.OpeningTxBroadcasted && *s.OpeningTxBroadcasted == preOtb && s.SwapInRequest == pre.SwapInRequest && s.SwapOutRequest == pre.SwapOutRequest &&
		s.SwapInAgreement == pre.SwapInAgreement && s.SwapOutAgreement == pre.SwapOutAgreement && s.CoopClose == pre.CoopClose && s.Cancel == pre.Cancel &&
		s.NextMessageType == pre.NextMessageType && s.BlindingKeyHex == pre.BlindingKeyHex, "C06.payaction_touches_only_preimage_and_error_fields")
	zzverif.Assert(ev == Event_ActionSucceeded || s.ClaimPreimage == pre.ClaimPreimage, "C06.payaction_failure_keeps_preimage")
	zzverif.Assert(ev == Event_ActionFailed || (s.CancelMessage == cancel0 && s.LastErrString == pre.LastErrString), "C06.payaction_success_keeps_error_fields")
}

// zzverif:also C13 C15 C23
func H_C06_step_os_AwaitAgreement() { vStepTaker(rOutSender, State_SwapOutSender_AwaitAgreement) }

// zzverif:also C13 C15 C23
func H_C06_step_os_AwaitTxBroadcasted() {
	vStepTaker(rOutSender, State_SwapOutSender_AwaitTxBroadcastedMessage)
}

// zzverif:also C13 C15 C23
func H_C06_step_os_AwaitTxConfirmation() {
	vStepTaker(rOutSender, State_SwapOutSender_AwaitTxConfirmation)
}

// zzverif:also C13 C15 C23
func H_C06_step_os_ValidateTxAndPay() {
	vStepTaker(rOutSender, State_SwapOutSender_ValidateTxAndPayClaimInvoice)
}

// zzverif:also C13 C15 C23
func H_C06_step_os_ClaimSwap() { vStepTaker(rOutSender, State_SwapOutSender_ClaimSwap) }

// zzverif:also C13 C15 C23
func H_C06_step_os_SendPrivkey() { vStepTaker(rOutSender, State_SwapOutSender_SendPrivkey) }

// zzverif:also C13 C15 C23
func H_C06_step_os_SwapCanceled() { vStepTaker(rOutSender, State_SwapCanceled) }

// zzverif:also C13 C15 C23
func H_C06_step_ir_SendAgreement() { vStepTaker(rInReceiver, State_SwapInReceiver_SendAgreement) }

// zzverif:also C13 C15 C23
func H_C06_step_ir_AwaitTxBroadcasted() {
	vStepTaker(rInReceiver, State_SwapInReceiver_AwaitTxBroadcastedMessage)
}

// zzverif:also C13 C15 C23
func H_C06_step_ir_AwaitTxConfirmation() {
	vStepTaker(rInReceiver, State_SwapInReceiver_AwaitTxConfirmation)
}

// zzverif:also C13 C15 C23
func H_C06_step_ir_ValidateTxAndPay() {
	vStepTaker(rInReceiver, State_SwapInReceiver_ValidateTxAndPayClaimInvoice)
}

// zzverif:also C13 C15 C23
func H_C06_step_ir_ClaimSwap() { vStepTaker(rInReceiver, State_SwapInReceiver_ClaimSwap) }

// zzverif:also C13 C15 C23
func H_C06_step_ir_SendPrivkey() { vStepTaker(rInReceiver, State_SwapInReceiver_SendPrivkey) }
