//go:build verif

package swap

import "github.com/elementsproject/peerswap/zzverif"

// C06 tier A: one inductive step.  Ghost: w.payOut = "a claim payment has settled or may still be
// outstanding".  Invariant: payOut => the taker is in a state from which it only claims with the
// preimage (or waits for the confirmation again after a restart); step obligation: no coop_close
// leaves the node while payOut, and the invariant is re-established.

func vC06PaidState(role int, st StateType) bool {
	if role == rOutSender {
		return st == State_SwapOutSender_AwaitTxConfirmation || st == State_SwapOutSender_ValidateTxAndPayClaimInvoice ||
			st == State_SwapOutSender_ClaimSwap || st == State_ClaimedPreimage
	}
	return st == State_SwapInReceiver_AwaitTxConfirmation || st == State_SwapInReceiver_ValidateTxAndPayClaimInvoice ||
		st == State_SwapInReceiver_ClaimSwap || st == State_ClaimedPreimage
}

func vStepC06(role int, st StateType) {
	sc := vBuild(role, st, zzverif.Bool("liquid"), 7)
	w := sc.env.w
	w.maxFaults = 1 // bound: at most one injected local service fault per step
	sc.vUsePaySummary()
	w.payOut = zzverif.Bool("pre.payout")
	zzverif.Assume(!w.payOut || vC06PaidState(role, st))
	if w.payOut && st == sc.paidClaimState() {
		// the payment settled and the action returned: the preimage is stored
		zzverif.Assume(sc.sm.Data.ClaimPreimage != "")
	}
	payOut0 := w.payOut
	stim := zzverif.Choice("stim", nStimuli)
	if stim == stMsgRequest {
		zzverif.Assume(false) // id-reusing requests are C09's subject (H_C09_*)
	}
	zzverif.Unwind(30)
	sc.vApply(stim)
	post := sc.vCurrent()
	zzverif.Reach("c06.step_done")
	zzverif.Assert(sc.vCoopCloseSends() == 0 || !w.payOut, "C06.no_coop_close_while_payment_may_be_out")
	zzverif.Assert(!w.payOut || vC06PaidState(role, post), "C06.invariant_paid_implies_claiming_state")
	_ = payOut0
}

func (sc *vScenario) paidClaimState() StateType {
	if sc.role == rOutSender {
		return State_SwapOutSender_ClaimSwap
	}
	return State_SwapInReceiver_ClaimSwap
}

func H_C06_step_os_AwaitAgreement() { vStepC06(rOutSender, State_SwapOutSender_AwaitAgreement) }
func H_C06_step_os_AwaitTxBroadcasted() {
	vStepC06(rOutSender, State_SwapOutSender_AwaitTxBroadcastedMessage)
}
func H_C06_step_os_AwaitTxConfirmation() {
	vStepC06(rOutSender, State_SwapOutSender_AwaitTxConfirmation)
}
func H_C06_step_os_ValidateTxAndPay() {
	vStepC06(rOutSender, State_SwapOutSender_ValidateTxAndPayClaimInvoice)
}
func H_C06_step_os_ClaimSwap() { vStepC06(rOutSender, State_SwapOutSender_ClaimSwap) }
func H_C06_step_ir_AwaitTxBroadcasted() {
	vStepC06(rInReceiver, State_SwapInReceiver_AwaitTxBroadcastedMessage)
}
func H_C06_step_ir_AwaitTxConfirmation() {
	vStepC06(rInReceiver, State_SwapInReceiver_AwaitTxConfirmation)
}
func H_C06_step_ir_ValidateTxAndPay() {
	vStepC06(rInReceiver, State_SwapInReceiver_ValidateTxAndPayClaimInvoice)
}
func H_C06_step_ir_ClaimSwap() { vStepC06(rInReceiver, State_SwapInReceiver_ClaimSwap) }

// H_C06_payActionContract: the real paying action stays inside the summary used by the history
// harnesses: it returns ActionSucceeded or ActionFailed; on success a payment went out (payOut) and the
// preimage field is what the node returned; it changes no persisted field other than ClaimPreimage,
// LastErrString and CancelMessage; it never sends a message, registers a watcher or arms a timeout.
func H_C06_payActionContract() {
	env := newEnv(true, true)
	s := vTakerSwap(zzverif.Bool("swap_in"), zzverif.Bool("liquid"), 7)
	pre := *s
	preOtb := *s.OpeningTxBroadcasted
	cancel0 := s.CancelMessage
	zzverif.Unwind(12)
	ev := (&ValidateTxAndPayClaimInvoiceAction{}).Execute(env.services, s)
	w := env.w
	zzverif.Assert(ev == Event_ActionSucceeded || ev == Event_ActionFailed, "C06.payaction_events")
	zzverif.Assert(ev != Event_ActionSucceeded || (w.payOut && len(w.pays) > 0 && w.pays[len(w.pays)-1].ok), "C06.payaction_success_means_paid")
	zzverif.Assert(len(w.pays) > 0 || !w.payOut, "C06.payaction_payout_only_by_attempt")
	zzverif.Assert(len(w.sends) == 0 && len(w.watches) == 0 && w.timeouts == 0 && len(w.feePays) == 0 && w.openings == 0 && len(w.spends) == 0, "C06.payaction_no_other_effects")
	zzverif.Assert(s.OpeningTxHex == pre.OpeningTxHex && s.StartingBlockHeight == pre.StartingBlockHeight && s.StartingBlockHeightSet == pre.StartingBlockHeightSet &&
		s.ClaimPaymentHash == pre.ClaimPaymentHash && s.ClaimTxId == pre.ClaimTxId && s.PeerNodeId == pre.PeerNodeId && s.FeePreimage == pre.FeePreimage &&
		s.OpeningTxBroadcasted == pre.OpeningTxBroadcasted && *s.OpeningTxBroadcasted == preOtb && s.SwapInRequest == pre.SwapInRequest && s.SwapOutRequest == pre.SwapOutRequest &&
		s.SwapInAgreement == pre.SwapInAgreement && s.SwapOutAgreement == pre.SwapOutAgreement && s.CoopClose == pre.CoopClose && s.Cancel == pre.Cancel &&
		s.NextMessageType == pre.NextMessageType && s.BlindingKeyHex == pre.BlindingKeyHex, "C06.payaction_touches_only_preimage_and_error_fields")
	zzverif.Assert(ev == Event_ActionSucceeded || s.ClaimPreimage == pre.ClaimPreimage, "C06.payaction_failure_keeps_preimage")
	zzverif.Assert(ev == Event_ActionFailed || (s.CancelMessage == cancel0 && s.LastErrString == pre.LastErrString), "C06.payaction_success_keeps_error_fields")
}
