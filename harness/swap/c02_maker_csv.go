//go:build verif

package swap

import (
	"github.com/elementsproject/peerswap/zzverif"
)

// H_C02_makerFundsWithTheSwapsCsv: the output the maker's broadcasting action (as wired in the state tables)
// asks its wallet to fund carries the CSV of the swap - 1008 on Bitcoin, 10080 on Liquid with protocol 7, 60 on
// legacy Liquid (protocol 6) - where the swap's protocol is the one the request announced, whatever version
// number the peer's agreement carries; the same value is what the maker later hands to its spending
// transactions (GetOpeningParams).  The script built from that number is the subject of the onchain entries.
// Bounds: versions {6,7} for the request, arbitrary 8-bit version in the agreement, at most one failing call.
func H_C02_makerFundsWithTheSwapsCsv() {
	env := newEnv(true, true)
	env.w.maxFaults = 1
	swapIn := zzverif.Bool("swap_in")
	liquid := zzverif.Bool("liquid")
	version := uint8(6)
	if zzverif.Bool("current_protocol") {
		version = 7
	}
	s := vMakerSwap(swapIn, liquid, version, false)
	agreed := zzverif.U8("agreement.version")
	if swapIn {
		s.SwapInAgreement.ProtocolVersion = agreed
	} else {
		s.SwapOutAgreement.ProtocolVersion = agreed
	}
	want := uint32(1008)
	if liquid {
		want = 60
		if version == 7 {
			want = 10080
		}
	}
	if swapIn {
		getSwapInSenderStates()[State_SwapInSender_BroadcastOpeningTx].Action.Execute(env.services, s)
	} else {
		getSwapOutReceiverStates()[State_SwapOutReceiver_BroadcastOpeningTx].Action.Execute(env.services, s)
	}
	for _, p := range env.w.openingParams {
		zzverif.Reach("c02.funded")
		zzverif.Assert(p.CSV == want, "C02.maker_funds_with_the_csv_of_chain_and_protocol")
	}
	if len(env.w.openingParams) > 0 {
		zzverif.Assert(s.GetOpeningParams().CSV == want, "C02.maker_spends_with_the_csv_it_funded")
	}
}

// H_C02_takerChecksAndSpendsWithTheSwapsCsv: the opening parameters a taker derives from its record (used to
// verify the announced output and to build its claim) carry the same CSV: 1008 / 10080 / 60 by chain and by the
// protocol the request announced, whatever version number the agreement carries.
func H_C02_takerChecksAndSpendsWithTheSwapsCsv() {
	swapIn := zzverif.Bool("swap_in")
	liquid := zzverif.Bool("liquid")
	version := uint8(6)
	if zzverif.Bool("current_protocol") {
		version = 7
	}
	s := vTakerSwap(swapIn, liquid, version)
	agreed := zzverif.U8("agreement.version")
	if swapIn {
		s.SwapInAgreement.ProtocolVersion = agreed
	} else {
		s.SwapOutAgreement.ProtocolVersion = agreed
	}
	want := uint32(1008)
	if liquid {
		want = 60
		if version == 7 {
			want = 10080
		}
	}
	zzverif.Assert(s.GetOpeningParams().CSV == want, "C02.taker_uses_the_csv_of_chain_and_protocol")
}
