//go:build verif

package swap

import (
	"time"
	"encoding/json"
	"errors"
	"sync"

	"github.com/elementsproject/peerswap/messages"
	"github.com/elementsproject/peerswap/zzverif"
)

// ---------------------------------------------------------------------------------------
// One-step kit: an arbitrary swap of a given role resting in a given state, wired into a real
// SwapService over the stubs, receives one arbitrary stimulus through the real entry point.
// ---------------------------------------------------------------------------------------

const (
	rOutSender   = iota // swap-out initiator, taker
	rOutReceiver        // swap-out responder, maker
	rInSender           // swap-in initiator, maker
	rInReceiver         // swap-in responder, taker
)

func vIsTaker(role int) bool { return role == rOutSender || role == rInReceiver }

func vStatesOf(role int) States {
	switch role {
	case rOutSender:
		return getSwapOutSenderStates()
	case rOutReceiver:
		return getSwapOutReceiverStates()
	case rInSender:
		return getSwapInSenderStates()
	}
	return getSwapInReceiverStates()
}

func vTypeRole(role int) (SwapType, SwapRole) {
	switch role {
	case rOutSender:
		return SWAPTYPE_OUT, SWAPROLE_SENDER
	case rOutReceiver:
		return SWAPTYPE_OUT, SWAPROLE_RECEIVER
	case rInSender:
		return SWAPTYPE_IN, SWAPROLE_SENDER
	}
	return SWAPTYPE_IN, SWAPROLE_RECEIVER
}

// shape classes of the persisted data (DESIGN appendix E)
const (
	shRequest   = iota // request only
	shAgreed           // request + agreement
	shBroadcast        // request + agreement + opening_tx_broadcasted
)

func vShapeOf(role int, st StateType) int {
	switch st {
	case State_SwapOutSender_CreateSwap, State_SwapOutSender_SendRequest, State_SwapOutSender_AwaitAgreement,
		State_SwapInSender_CreateSwap, State_SwapInSender_SendRequest, State_SwapInSender_AwaitAgreement,
		State_SwapOutReceiver_CreateSwap, State_SwapInReceiver_CreateSwap:
		return shRequest
	case State_SwapInSender_BroadcastOpeningTx, State_SwapOutReceiver_BroadcastOpeningTx:
		// the record of this state is written after the action ran: it normally already holds the
		// broadcast (a crash right after that write is recovered from here); without it the action
		// failed or the store write did
		if zzverif.Bool("shape.broadcast_recorded") {
			return shBroadcast
		}
		return shAgreed
	case State_SwapOutSender_PayFeeInvoice, State_SwapOutSender_AwaitTxBroadcastedMessage,
		State_SwapInReceiver_SendAgreement, State_SwapInReceiver_AwaitTxBroadcastedMessage,
		State_SwapOutReceiver_SendFeeInvoice, State_SwapOutReceiver_AwaitFeeInvoicePayment:
		return shAgreed
	case State_SendCancel, State_SwapCanceled:
		return zzverif.Choice("shape", 3)
	}
	return shBroadcast
}

// vDataFor builds swap data of the role in the shape the state implies; all scalars symbolic.
func vDataFor(role int, st StateType, liquid bool, version uint8) *SwapData {
	shape := vShapeOf(role, st)
	var s *SwapData
	if vIsTaker(role) {
		s = vTakerSwap(role == rInReceiver, liquid, version)
	} else {
		s = vMakerSwap(role == rInSender, liquid, version, shape == shBroadcast)
	}
	if shape < shBroadcast {
		s.OpeningTxBroadcasted = nil
		s.OpeningTxHex = ""
		s.ClaimPaymentHash = ""
		if vIsTaker(role) {
			s.ClaimPreimage = ""
		}
	}
	if shape < shAgreed {
		if role == rOutSender || role == rOutReceiver {
			s.SwapOutAgreement = nil
		} else {
			s.SwapInAgreement = nil
		}
	}
	s.FSMState = st
	s.CancelMessage = zzverif.Str("cancelmessage")
	s.NextMessage = zzverif.Bytes("nextmessage", -1)
	s.NextMessageType = zzverif.Int("nextmessagetype")
	if st == State_SwapInSender_ClaimSwapCoop || st == State_SwapOutReceiver_ClaimSwapCoop {
		s.CoopClose = &CoopCloseMessage{SwapId: s.GetId(), Message: zzverif.Str("coop.msg"), Privkey: zzverif.HexStr("coop.privkey", 32)}
	}
	return s
}

type vScenario struct {
	env    *vEnv
	svc    *SwapService
	sm     *SwapStateMachine
	role   int
	liquid bool
	id     string
	// logicalNested: goroutines started by the recovery goroutines themselves (the rpc watcher's check at
	// registration) run as logical goroutines during a restart instead of being recorded only
	logicalNested bool
}

// vBuild wires a service holding exactly one active swap in the given state.
func vBuild(role int, st StateType, liquid bool, version uint8) *vScenario {
	env := newEnv(true, true)
	svc := NewSwapService(env.services)
	data := vDataFor(role, st, liquid, version)
	t, r := vTypeRole(role)
	sm := &SwapStateMachine{SwapId: data.GetId(), Data: data, Type: t, Role: r, Current: st, Previous: StateType(zzverif.Str("previous")),
		States: vStatesOf(role), swapServices: env.services}
	sm.stateChange = sync.NewCond(&sm.stateMutex)
	id := sm.SwapId.String()
	svc.activeSwaps[id] = sm
	env.store.recs[id] = vSnapshot(sm)
	return &vScenario{env: env, svc: svc, sm: sm, role: role, liquid: liquid, id: id}
}

// ---------------------------------------------------------------------------------------
// Stimuli
// ---------------------------------------------------------------------------------------

const (
	stMsgAgreement = iota // the agreement message matching the swap type
	stMsgOpeningTx
	stMsgCancel
	stMsgCoopClose
	stMsgRequest // a request reusing the id (C09)
	stTxConfirmed
	stTxConfirmErr
	stCsvPassed
	stPaidFee
	stPaidClaim
	stTimeout
	stRestart
	nStimuli
)

var vStimNames = [...]string{"msg_agreement", "msg_opening_tx", "msg_cancel", "msg_coop_close", "msg_request_same_id", "tx_confirmed", "tx_confirm_error", "csv_passed", "paid_fee", "paid_claim", "timeout", "restart"}

func vHexType(t messages.MessageType) string { return messages.MessageTypeToHexString(t) }

func vMarshal(v interface{}) []byte {
	b, err := json.Marshal(v)
	if err != nil {
		zzverif.Fail("marshal")
	}
	return b
}

// vSendMsg delivers a message of the given kind from `sender` carrying the swap's id.
func (sc *vScenario) vSendMsg(kind int, sender string) error {
	id := sc.sm.SwapId
	switch kind {
	case stMsgAgreement:
		if sc.role == rOutSender || sc.role == rOutReceiver {
			m := &SwapOutAgreementMessage{ProtocolVersion: zzverif.U8("m.version"), SwapId: id, Pubkey: zzverif.Str("m.pubkey"), Payreq: zzverif.Str("m.payreq"), Premium: zzverif.I64("m.premium")}
			return sc.svc.OnMessageReceived(sender, vHexType(messages.MESSAGETYPE_SWAPOUTAGREEMENT), vMarshal(m))
		}
		m := &SwapInAgreementMessage{ProtocolVersion: zzverif.U8("m.version"), SwapId: id, Pubkey: zzverif.Str("m.pubkey"), Premium: zzverif.I64("m.premium")}
		return sc.svc.OnMessageReceived(sender, vHexType(messages.MESSAGETYPE_SWAPINAGREEMENT), vMarshal(m))
	case stMsgOpeningTx:
		m := &OpeningTxBroadcastedMessage{SwapId: id, Payreq: zzverif.Str("m.payreq"), TxId: zzverif.Str("m.txid"), ScriptOut: zzverif.U32("m.vout"), BlindingKey: zzverif.Str("m.blindingkey")}
		return sc.svc.OnMessageReceived(sender, vHexType(messages.MESSAGETYPE_OPENINGTXBROADCASTED), vMarshal(m))
	case stMsgCancel:
		m := &CancelMessage{SwapId: id, Message: zzverif.Str("m.message")}
		return sc.svc.OnMessageReceived(sender, vHexType(messages.MESSAGETYPE_CANCELED), vMarshal(m))
	case stMsgCoopClose:
		m := &CoopCloseMessage{SwapId: id, Message: zzverif.Str("m.message"), Privkey: zzverif.Str("m.privkey")}
		return sc.svc.OnMessageReceived(sender, vHexType(messages.MESSAGETYPE_COOPCLOSE), vMarshal(m))
	case stMsgRequest:
		asset, network := vChainFields(sc.liquid)
		if zzverif.Bool("m.swapin") {
			m := &SwapInRequestMessage{ProtocolVersion: 7, SwapId: id, Asset: asset, Network: network, Scid: "7x7x7", Amount: zzverif.U64("m.amount"), Pubkey: zzverif.HexStr("m.pubkey", 33), PremiumLimit: zzverif.I64("m.limit")}
			return sc.svc.OnMessageReceived(sender, vHexType(messages.MESSAGETYPE_SWAPINREQUEST), vMarshal(m))
		}
		m := &SwapOutRequestMessage{ProtocolVersion: 7, SwapId: id, Asset: asset, Network: network, Scid: "7x7x7", Amount: zzverif.U64("m.amount"), Pubkey: zzverif.HexStr("m.pubkey", 33), PremiumLimit: zzverif.I64("m.limit")}
		return sc.svc.OnMessageReceived(sender, vHexType(messages.MESSAGETYPE_SWAPOUTREQUEST), vMarshal(m))
	}
	return nil
}

// vApply delivers one stimulus through the real entry point.
func (sc *vScenario) vApply(stim int) {
	zzverif.Effect("stimulus", vStimNames[stim])
	switch stim {
	case stMsgAgreement, stMsgOpeningTx, stMsgCancel, stMsgCoopClose, stMsgRequest:
		sc.vSendMsg(stim, sc.sm.Data.PeerNodeId)
	case stTxConfirmed:
		sc.svc.OnTxConfirmed(sc.id, zzverif.Str("confirmed.txhex"), nil)
	case stTxConfirmErr:
		sc.svc.OnTxConfirmed(sc.id, "", errors.New("payment window closed"))
	case stCsvPassed:
		sc.svc.OnCsvPassed(sc.id)
	case stPaidFee:
		sc.svc.OnPayment(sc.id, INVOICE_FEE)
	case stPaidClaim:
		sc.svc.OnPayment(sc.id, INVOICE_CLAIM)
	case stTimeout:
		sc.svc.createTimeoutCallback(sc.id)()
	case stRestart:
		sc.vRestart()
	}
}

// vRestart models a process restart: volatile state is dropped, the service is rebuilt over the
// persisted records and the real RecoverSwaps runs (goroutines inline).
func (sc *vScenario) vRestart() {
	sc.env.w.lifetime++
	sc.env.w.timeoutsArmed = 0
	sc.env.w.watchesLive = nil
	sc.env.w.notifiersLive = nil
	sc.env.msgMgr.senders = map[string]messages.StoppableMessenger{}
	sc.svc = NewSwapService(sc.env.services)
	zzverif.GoInline(true)
	if sc.logicalNested {
		zzverif.GoLogical(true)
	}
	sc.svc.RecoverSwaps()
	if sc.logicalNested {
		zzverif.GoLogical(false)
		if !zzverif.Symbolic() {
			time.Sleep(300 * time.Millisecond) // natively the nested goroutines are real: let them finish
		}
	}
	zzverif.GoInline(false)
	if sm, err := sc.svc.GetActiveSwap(sc.id); err == nil {
		sc.sm = sm
	} else if rec, ok := sc.env.store.recs[sc.id]; ok {
		sc.sm = rec
	}
}

// vCurrent is the swap's current state as the service sees it (active map first, then the record).
func (sc *vScenario) vCurrent() StateType {
	if sm, err := sc.svc.GetActiveSwap(sc.id); err == nil {
		return sm.Current
	}
	if rec, ok := sc.env.store.recs[sc.id]; ok {
		return rec.Current
	}
	return sc.sm.Current
}

func (sc *vScenario) vCoopCloseSends() int {
	n := 0
	for _, s := range sc.env.w.sends {
		if s.msgType == int(messages.MESSAGETYPE_COOPCLOSE) {
			n++
		}
	}
	return n
}

func vIsTerminal(st StateType) bool {
	return st == State_ClaimedCsv || st == State_SwapCanceled || st == State_ClaimedPreimage || st == State_ClaimedCoop
}

// ---------------------------------------------------------------------------------------
// Summary of the paying action (assume-guarantee): history harnesses replace
// ValidateTxAndPayClaimInvoiceAction by this over-approximation of its observable behaviour; that the
// real action stays inside it is checked by H_C06_payActionContract on the real code.
// ---------------------------------------------------------------------------------------

type vPaySummary struct{ w *vWorld }

func (a *vPaySummary) Execute(services *SwapServices, swap *SwapData) EventType {
	zzverif.Effect("pay_action_summary")
	a.w.payActionRuns++
	switch zzverif.Choice("paysum", 3) {
	case 0: // fails before any payment attempt (validation, height, window, policy)
		return swap.HandleError(errors.New("summary: no payment attempted"))
	case 1: // payment attempted and reported as failed: it may nevertheless be outstanding
		a.w.payAttempts++
		if zzverif.Bool("paysum.outstanding") {
			a.w.payOut = true
		}
		return swap.HandleError(errors.New("summary: payment error"))
	}
	a.w.payAttempts++
	a.w.payOut = true
	swap.ClaimPreimage = zzverif.Str("paysum.preimage")
	return Event_ActionSucceeded
}

// vUsePaySummary swaps the paying action of this machine's table for the summary.
func (sc *vScenario) vUsePaySummary() {
	for _, st := range []StateType{State_SwapOutSender_ValidateTxAndPayClaimInvoice, State_SwapInReceiver_ValidateTxAndPayClaimInvoice} {
		if s, ok := sc.sm.States[st]; ok {
			s.Action = &vPaySummary{w: sc.env.w}
			sc.sm.States[st] = s
		}
	}
}

// vIsResting: states in which a machine waits for an external stimulus (its action returned NoOp, or a
// retry loop gave up, or it is terminal).  In every other state the machine holds its mutex while the
// action runs, so the only stimulus that can find a swap there is a restart after a crash.  (A failing
// store write can also leave a machine in an action state; that is outside the stated bound.)
func vIsResting(st StateType) bool {
	switch st {
	case State_SwapOutSender_AwaitAgreement, State_SwapOutSender_AwaitTxBroadcastedMessage, State_SwapOutSender_AwaitTxConfirmation,
		State_SwapOutSender_ClaimSwap, State_SwapInReceiver_AwaitTxBroadcastedMessage, State_SwapInReceiver_AwaitTxConfirmation,
		State_SwapInReceiver_ClaimSwap, State_SwapInSender_AwaitAgreement, State_SwapInSender_AwaitClaimPayment,
		State_SwapInSender_ClaimSwapCsv, State_SwapOutReceiver_AwaitFeeInvoicePayment, State_SwapOutReceiver_AwaitClaimInvoicePayment,
		State_SwapOutReceiver_ClaimSwapCsv, State_WaitCsv:
		return true
	}
	return vIsTerminal(st)
}
