//go:build verif

package swap

import (
	"github.com/elementsproject/peerswap/messages"
	"github.com/elementsproject/peerswap/zzverif"
)

// C16: well-founded progress.  vRank is a progress measure on the states of each role; for every
// resting state the harness applies the stimuli the fairness assumptions guarantee (armed timeout,
// registered watcher firing, restart) under eventual conditions (no local service failure; the chain far
// beyond every window) and asserts that the measure strictly increases, or - for a restart - stays while
// the watcher that guarantees the next increase is registered again.  Terminal states release the
// channel.  Peer messages are not guaranteed stimuli (the peer may be silent).

func vRank(st StateType) int {
	switch st {
	case Default:
		return 0
	case State_SwapOutSender_CreateSwap, State_SwapInSender_CreateSwap, State_SwapOutReceiver_CreateSwap, State_SwapInReceiver_CreateSwap:
		return 1
	case State_SwapOutSender_SendRequest, State_SwapInSender_SendRequest, State_SwapOutReceiver_SendFeeInvoice, State_SwapInReceiver_SendAgreement:
		return 2
	case State_SwapOutSender_AwaitAgreement, State_SwapInSender_AwaitAgreement, State_SwapOutReceiver_AwaitFeeInvoicePayment:
		return 3
	case State_SwapOutSender_PayFeeInvoice, State_SwapInSender_BroadcastOpeningTx, State_SwapOutReceiver_BroadcastOpeningTx:
		return 4
	case State_SwapOutSender_AwaitTxBroadcastedMessage, State_SwapInReceiver_AwaitTxBroadcastedMessage,
		State_SwapInSender_SendTxBroadcastedMessage, State_SwapOutReceiver_SendTxBroadcastedMessage:
		return 5
	case State_SwapOutSender_AwaitTxConfirmation, State_SwapInReceiver_AwaitTxConfirmation,
		State_SwapInSender_AwaitClaimPayment, State_SwapOutReceiver_AwaitClaimInvoicePayment:
		return 6
	case State_SwapOutSender_ValidateTxAndPayClaimInvoice, State_SwapInReceiver_ValidateTxAndPayClaimInvoice,
		State_SwapInSender_ClaimSwapCoop, State_SwapOutReceiver_ClaimSwapCoop:
		return 7
	case State_SwapOutSender_ClaimSwap, State_SwapInReceiver_ClaimSwap, State_WaitCsv:
		return 8
	case State_SwapOutSender_SendPrivkey, State_SwapInReceiver_SendPrivkey, State_SwapInSender_ClaimSwapCsv, State_SwapOutReceiver_ClaimSwapCsv:
		return 9
	case State_SwapOutSender_SendCoopClose, State_SwapInReceiver_SendCoopClose:
		return 10
	case State_SendCancel:
		return 11
	}
	if vIsTerminal(st) {
		return 100
	}
	return -1
}

// vC16 applies stimulus g to a swap resting in st under eventual conditions.
func vC16(role int, st StateType, g int) (*vScenario, StateType) {
	sc := vBuild(role, st, zzverif.Bool("liquid"), 7)
	w := sc.env.w
	w.maxFaults = 0
	w.maxPayAttempts = 1
	d := sc.sm.Data
	w.narrow = d
	w.narrowOffset = 1 << 20 // the chain is far beyond every window
	zzverif.Assume(d.StartingBlockHeight < 1<<31)
	if !sc.liquid {
		zzverif.Assume(d.StartingBlockHeight != 0) // set when the state was entered
	} else if vIsTaker(role) {
		zzverif.Assume(d.StartingBlockHeightSet)
	}
	zzverif.Unwind(30)
	sc.vApply(g)
	post := sc.vCurrent()
	if vIsTerminal(post) {
		_, aerr := sc.svc.GetActiveSwap(sc.id)
		zzverif.Assert(aerr != nil, "C16.terminal_state_releases_channel")
	}
	return sc, post
}

func vProgress(st, post StateType, label string) {
	zzverif.Assert(vRank(post) > vRank(st) && vRank(st) >= 0, label)
}

// H_C16_armedTimeout: states that rely on the negotiation timeout make progress when it fires.
func H_C16_armedTimeout() {
	type node struct {
		role int
		st   StateType
	}
	nodes := []node{{rOutSender, State_SwapOutSender_AwaitAgreement}, {rInSender, State_SwapInSender_AwaitAgreement},
		{rInReceiver, State_SwapInReceiver_AwaitTxBroadcastedMessage}, {rOutReceiver, State_SwapOutReceiver_AwaitFeeInvoicePayment}}
	n := nodes[zzverif.Choice("node", len(nodes))]
	_, post := vC16(n.role, n.st, stTimeout)
	vProgress(n.st, post, "C16.timeout_makes_progress")
}

// H_C16_watcherFires: states that wait for the chain make progress when their watcher fires (both
// outcomes of the confirmation watcher; CSV maturity for makers).
func H_C16_watcherFires() {
	type node struct {
		role int
		st   StateType
		g    int
	}
	nodes := []node{{rOutSender, State_SwapOutSender_AwaitTxConfirmation, stTxConfirmed}, {rOutSender, State_SwapOutSender_AwaitTxConfirmation, stTxConfirmErr},
		{rInReceiver, State_SwapInReceiver_AwaitTxConfirmation, stTxConfirmed}, {rInReceiver, State_SwapInReceiver_AwaitTxConfirmation, stTxConfirmErr},
		{rInSender, State_SwapInSender_AwaitClaimPayment, stCsvPassed}, {rOutReceiver, State_SwapOutReceiver_AwaitClaimInvoicePayment, stCsvPassed},
		{rInSender, State_WaitCsv, stCsvPassed}, {rOutReceiver, State_WaitCsv, stCsvPassed}}
	n := nodes[zzverif.Choice("node", len(nodes))]
	_, post := vC16(n.role, n.st, n.g)
	vProgress(n.st, post, "C16.watcher_makes_progress")
}

// H_C16_restart: a restart from any resting non-terminal state either makes progress or keeps the state
// and registers again the watcher whose firing makes progress (confirmation watch for takers, CSV watch
// for makers).  States whose only guaranteed stimulus is the in-memory timeout must make progress on the
// restart itself.
func H_C16_restart() {
	type node struct {
		role  int
		st    StateType
		watch string // watcher that may justify staying ("" = must progress)
	}
	nodes := []node{
		{rOutSender, State_SwapOutSender_AwaitAgreement, ""}, {rOutSender, State_SwapOutSender_AwaitTxBroadcastedMessage, ""},
		{rOutSender, State_SwapOutSender_AwaitTxConfirmation, "conf"}, {rOutSender, State_SwapOutSender_ClaimSwap, ""},
		{rInReceiver, State_SwapInReceiver_AwaitTxBroadcastedMessage, ""}, {rInReceiver, State_SwapInReceiver_AwaitTxConfirmation, "conf"},
		{rInReceiver, State_SwapInReceiver_ClaimSwap, ""},
		{rInSender, State_SwapInSender_AwaitAgreement, ""}, {rInSender, State_SwapInSender_AwaitClaimPayment, "csv"},
		{rInSender, State_SwapInSender_ClaimSwapCsv, ""}, {rInSender, State_WaitCsv, "csv"},
		{rOutReceiver, State_SwapOutReceiver_AwaitFeeInvoicePayment, ""}, {rOutReceiver, State_SwapOutReceiver_AwaitClaimInvoicePayment, "csv"},
		{rOutReceiver, State_SwapOutReceiver_ClaimSwapCsv, ""}, {rOutReceiver, State_WaitCsv, "csv"},
	}
	n := nodes[zzverif.Choice("node", len(nodes))]
	sc, post := vC16(n.role, n.st, stRestart)
	if post == n.st && n.watch != "" {
		live := false
		for i := range sc.env.w.watchesLive {
			if sc.env.w.watchesLive[i].kind == n.watch && sc.env.w.watchesLive[i].swapID == sc.id {
				live = true
			}
		}
		zzverif.Assert(live, "C16.restart_registers_watcher_again")
	} else {
		vProgress(n.st, post, "C16.restart_makes_progress")
	}
}

// H_C16_rankRespectsTables: every transition of the four state tables that is caused by an action result
// (ActionSucceeded / ActionFailed) leads to a state of higher rank, and retries keep the state: actions
// cannot loop.  (Pure table walk: no symbolic input.)
func H_C16_rankRespectsTables() {
	increase, retry, n := true, true, 0
	for role := 0; role < 4; role++ {
		for st, def := range vStatesOf(role) {
			for ev, next := range def.Events {
				switch ev {
				case Event_ActionSucceeded, Event_ActionFailed:
					n++
					if !(vRank(next) > vRank(st) && vRank(st) >= 0) {
						increase = false
					}
				case Event_OnRetry:
					if next != st {
						retry = false
					}
				}
			}
		}
	}
	zzverif.Assert(increase && n > 40, "C16.action_results_increase_rank")
	zzverif.Assert(retry, "C16.retry_keeps_state")
}

// H_C16_claimingStatesFinishDespiteTransientFailures: the states in which the node takes the on-chain
// funds (the taker's ClaimSwap, the maker's ClaimSwapCsv, reached here by the event that leads into them)
// are left for a terminal state even if one local call fails on the way (the claim broadcast, the
// labelling, ...): the failure is retried, it is neither turned into an event the state rejects nor into a
// second broadcast.  This is the "retries go on until they succeed" half of termination.
// Bounds: one injected local failure per run, the next attempt succeeds.
func H_C16_claimingStatesFinishDespiteTransientFailures() {
	type node struct {
		role int
		st   StateType
		g    int
	}
	nodes := []node{
		{rInSender, State_WaitCsv, stCsvPassed}, {rOutReceiver, State_WaitCsv, stCsvPassed},
		{rInSender, State_SwapInSender_AwaitClaimPayment, stCsvPassed}, {rOutReceiver, State_SwapOutReceiver_AwaitClaimInvoicePayment, stCsvPassed},
		{rOutSender, State_SwapOutSender_ClaimSwap, stRestart}, {rInReceiver, State_SwapInReceiver_ClaimSwap, stRestart},
		{rInSender, State_SwapInSender_ClaimSwapCsv, stRestart}, {rOutReceiver, State_SwapOutReceiver_ClaimSwapCsv, stRestart},
	}
	n := nodes[zzverif.Choice("node", len(nodes))]
	sc := vBuild(n.role, n.st, zzverif.Bool("liquid"), 7)
	w := sc.env.w
	w.maxFaults = 1
	w.maxPayAttempts = 1
	w.narrow = sc.sm.Data
	zzverif.Unwind(30)
	sc.vApply(n.g)
	post := sc.vCurrent()
	zzverif.Reach("c16.claiming_step_done")
	if w.spendAttempts > 0 && !w.storeFailed {
		zzverif.Assert(vIsTerminal(post), "C16.claim_attempts_end_in_a_terminal_state")
		zzverif.Assert(len(w.spends) == 1, "C16.exactly_one_claim_goes_out")
	}
}

// H_C16_rejectedMessageLeavesTheSwapStorable: a message of a type the state accepts but with content that
// fails its validation (a coop_close whose key is not hex, an opening_tx_broadcasted whose txid is not hex)
// is rejected - and it leaves nothing behind in the swap that the next record would carry: the stimulus that
// is guaranteed to follow (CSV maturity for the maker, the timeout / cancel for the taker) is handled, its
// record is one the store can decode again (interface-typed member empty, asserted in the store stub), and
// the swap data is otherwise what it was.
// Bounds: maker waiting for the claim payment (both directions) and swap-out taker waiting for the opening
// transaction message; one malformed message; no injected faults.
func H_C16_rejectedMessageLeavesTheSwapStorable() {
	type node struct {
		role int
		st   StateType
		next int
	}
	nodes := []node{
		{rInSender, State_SwapInSender_AwaitClaimPayment, stCsvPassed},
		{rOutReceiver, State_SwapOutReceiver_AwaitClaimInvoicePayment, stCsvPassed},
		{rOutSender, State_SwapOutSender_AwaitTxBroadcastedMessage, stMsgCancel},
		{rInReceiver, State_SwapInReceiver_AwaitTxBroadcastedMessage, stMsgCancel},
	}
	n := nodes[zzverif.Choice("node", len(nodes))]
	sc := vBuild(n.role, n.st, false, 7)
	w := sc.env.w
	w.maxFaults = 0
	w.maxPayAttempts = 1
	w.narrow = sc.sm.Data
	zzverif.Unwind(30)
	id := sc.sm.SwapId
	if n.role == rInSender || n.role == rOutReceiver {
		m := &CoopCloseMessage{SwapId: id, Message: "bye", Privkey: "not-hex"}
		_ = sc.svc.OnMessageReceived(vPeer, vHexType(messages.MESSAGETYPE_COOPCLOSE), vMarshal(m))
	} else {
		m := &OpeningTxBroadcastedMessage{SwapId: id, Payreq: "lnbc1", TxId: "not-hex", ScriptOut: 0}
		_ = sc.svc.OnMessageReceived(vPeer, vHexType(messages.MESSAGETYPE_OPENINGTXBROADCASTED), vMarshal(m))
	}
	zzverif.Reach("c16.malformed_message_handled")
	if cur, err := sc.svc.GetActiveSwap(sc.id); err == nil {
		zzverif.Assert(cur.Data.LastMessage == nil, "C16.rejected_message_is_not_kept_in_the_swap")
	}
	persists := w.persists
	sc.vApply(n.next)
	if w.persists > persists {
		zzverif.Reach("c16.record_written_after_rejected_message")
	}
	zzverif.Assert(sc.vCurrent() != n.st || w.persists > persists, "C16.swap_moves_on_after_a_rejected_message")
}
