//go:build verif

package swap

import (
	"math"
	"time"

	"github.com/elementsproject/peerswap/messages"
	"github.com/elementsproject/peerswap/zzverif"
)

// vDummySender is a registered retransmitter in the pre-state.
type vDummySender struct{ stopped *bool }

func (d *vDummySender) SendMessage(peerId string, message []byte, messageType int) error { return nil }
func (d *vDummySender) Stop()                                                            { *d.stopped = true }

func vPostBroadcastWaiting(st StateType) bool {
	return st == State_SwapInSender_AwaitClaimPayment || st == State_SwapOutReceiver_AwaitClaimInvoicePayment || st == State_WaitCsv
}

func vRetransmitState(st StateType) bool {
	return st == State_SwapInSender_SendTxBroadcastedMessage || st == State_SwapOutReceiver_SendTxBroadcastedMessage ||
		st == State_SwapInSender_AwaitClaimPayment || st == State_SwapOutReceiver_AwaitClaimInvoicePayment
}

func (sc *vScenario) csvWatchLive() bool {
	d := sc.sm.Data
	if d.OpeningTxBroadcasted == nil {
		return false
	}
	for i := range sc.env.w.watchesLive {
		wt := sc.env.w.watchesLive[i]
		if wt.kind == "csv" && wt.txID == d.OpeningTxBroadcasted.TxId && wt.vout == d.OpeningTxBroadcasted.ScriptOut && wt.swapID == sc.id {
			return true
		}
	}
	return false
}

// vStepMaker: one arbitrary stimulus to a maker in state st (resting states: every stimulus; action
// states: restart only).  Obligations of C07, C15, C22 and C26 are evaluated on the same exploration.
// Bounds: protocol 7, at most one injected local service fault per step.
func vStepMaker(role int, st StateType) {
	liquid := zzverif.Bool("liquid")
	sc := vBuild(role, st, liquid, 7)
	w := sc.env.w
	w.maxFaults = 1
	d := sc.sm.Data
	w.narrow = d
	// ---- pre-state ghosts ----
	broadcast0 := d.OpeningTxBroadcasted != nil
	zzverif.Assume(d.GetAmount() <= vMaxAmountSat) // input domain: amounts up to 2^63 msat
	if role == rInSender && broadcast0 {
		// the swap-in initiator broadcasts only after CheckPremiumAmount accepted the agreement; the
		// messages are immutable afterwards, so the premium of a broadcast swap is inside what it accepts
		amount, premium := d.GetAmount(), d.GetPremium()
		zzverif.Assume(premium <= d.SwapInRequest.PremiumLimit)
		zzverif.Assume((premium >= 0 && uint64(premium) <= math.MaxUint64/1000-amount) || (premium < 0 && premium != math.MinInt64 && uint64(-premium) <= amount))
	}
	if vPostBroadcastWaiting(st) {
		// invariant (re-established below): a waiting maker has a live CSV watch on its output
		w.watchesLive = append(w.watchesLive, vWatch{kind: "csv", swapID: sc.id, txID: d.OpeningTxBroadcasted.TxId, vout: d.OpeningTxBroadcasted.ScriptOut})
	}
	stopped := false
	hadSender := vRetransmitState(st) && zzverif.Bool("pre.sender_active")
	if hadSender {
		sc.env.msgMgr.senders[sc.id] = &vDummySender{stopped: &stopped}
	}
	claimTx0 := d.ClaimTxId
	stim := stRestart
	if vIsResting(st) {
		stim = zzverif.Choice("stim", nStimuli)
	}
	if stim == stMsgRequest {
		zzverif.Assume(false)
	}
	zzverif.Unwind(30)
	w.effectProbe = func() *SwapStateMachine {
		if sm, err := sc.svc.GetActiveSwap(sc.id); err == nil {
			return sm
		}
		return nil
	}
	sc.vApply(stim)
	post := sc.vCurrent()
	pd := sc.sm.Data
	zzverif.Reach("maker.step_done")
	// ---- a swap that is not finished stays active ----
	// (it stays in the active map, which is what lockSwap consults; dropping it would admit a second swap
	// on the channel and lose every later event for this one)
	if !vIsTerminal(post) {
		_, aerr := sc.svc.GetActiveSwap(sc.id)
		zzverif.Assert(aerr == nil, "C07.unfinished_swap_stays_active")
	}
	// ---- C15: the record keeps up with the state machine ----
	// every send / broadcast / payment / spend of the step ran while the stored record named the state
	// entered last before the running action's state (SendEvent writes after every action), and when the
	// step is over the record names the state the swap rests in: a crash at any of these points is
	// recovered from a state that knows what was done
	zzverif.Assert(!w.effectStale, "C15.effects_run_on_a_current_record")
	zzverif.Assert(!w.effectStale, "C07.effects_run_on_a_current_record") // the crash model of C07 rests on it
	if act, err := sc.svc.GetActiveSwap(sc.id); err == nil && !w.storeFailed {
		rec, ok := sc.env.store.recs[sc.id]
		zzverif.Assert(ok && rec.Current == act.Current, "C15.record_names_resting_state")
	}

	// ---- C07 ----
	if w.openings > 0 {
		zzverif.Reach("maker.broadcast_in_step")
		rec := sc.env.store.recs[sc.id]
		zzverif.Assert(rec != nil && rec.Data.OpeningTxBroadcasted != nil && rec.Data.OpeningTxBroadcasted.TxId == w.openTxId, "C07.broadcast_is_durably_recorded")
	}
	broadcast1 := broadcast0 || w.openings > 0
	if broadcast1 && vIsTerminal(post) && !vIsTerminal(st) {
		zzverif.Reach("maker.finished_after_broadcast")
		zzverif.Assert((post == State_ClaimedPreimage && stim == stPaidClaim) || len(w.spends) > 0 || claimTx0 != "", "C07.finished_only_when_paid_or_spent")
	}
	if broadcast1 && vPostBroadcastWaiting(post) {
		zzverif.Assert(sc.csvWatchLive(), "C07.waiting_maker_watches_csv")
	}
	// a maker that tried to take its funds back keeps trying: a step in which a csv or coop spend was
	// attempted never ends resting in the claiming state (the fault budget lets the next attempt succeed),
	// unless the store failed
	if w.spendAttempts > 0 && (post == State_SwapInSender_ClaimSwapCsv || post == State_SwapOutReceiver_ClaimSwapCsv) {
		zzverif.Assert(w.storeFailed, "C07.maker_keeps_trying_the_csv_refund")
	}
	// ---- C15 ----
	// The record of the wait that precedes the broadcast is also what is on disk while the broadcasting
	// action itself runs (C15.record_names_previous_state_while_action_runs): a node restarted from it
	// cannot know whether the wallet already broadcast.  It must therefore give the swap up (cancel) and
	// never go on to broadcast - the wait is left for good by the restart.
	if stim == stRestart && (st == State_SwapOutReceiver_AwaitFeeInvoicePayment || st == State_SwapInSender_AwaitAgreement) {
		// (a store that fails while the cancellation is being recorded leaves the swap as it was: store
		// failures during recovery are the subject of known finding C07-F2, not of this obligation)
		zzverif.Assert(post == State_SwapCanceled || post == State_SendCancel || w.storeFailed, "C15.restart_from_pre_broadcast_wait_gives_up")
		zzverif.Assert(w.openings == 0, "C15.restart_from_pre_broadcast_wait_never_broadcasts")
	}
	zzverif.Assert(w.openings <= 1 && (!broadcast0 || w.openings == 0), "C15.at_most_one_opening_broadcast")
	zzverif.Assert(len(w.pays) == 0 && len(w.feePays) == 0, "C15.maker_never_pays")
	// the refund / cooperative claim of the maker goes out once: a later failure (labelling, store) never
	// leads to a second spend of the same output
	zzverif.Assert(len(w.spends) <= 1, "C15.at_most_one_claim_broadcast_by_the_maker")
	// ---- C22 ----
	_, active := sc.env.msgMgr.senders[sc.id]
	zzverif.Assert(!active || vRetransmitState(post), "C22.retransmitter_only_while_waiting_for_taker")
	if hadSender && !vRetransmitState(post) {
		zzverif.Assert(stopped, "C22.retransmitter_stopped_on_leaving")
	}
	zzverif.Assert(w.senderAdds <= 1, "C22.at_most_one_retransmitter")
	// a maker that goes for its funds (csv refund, cooperative close) has left the wait for the taker: the
	// retransmitter is gone before the first attempt, not only after the last (a claim may be retried for long)
	zzverif.Assert(!w.spendWhileRetransmitting, "C22.no_retransmitter_while_the_maker_claims")
	// every retransmission goroutine that was started belongs to a sender registered with the manager
	// (so that leaving the state can stop it).  Symbolically: goroutines started <= senders registered;
	// natively: nothing is re-sent after the step while no sender is registered (retry interval 1 s in
	// the fast_test build the replays use).
	leaked := false
	if zzverif.Symbolic() {
		leaked = zzverif.Spawned() > w.senderAdds
	} else {
		n0 := len(w.sends)
		time.Sleep(1500 * time.Millisecond)
		_, reg := sc.env.msgMgr.senders[sc.id]
		leaked = len(w.sends) > n0 && !reg
	}
	zzverif.Assert(!leaked, "C22.no_unregistered_retransmitter")
	// ---- C26 ----
	if post == State_ClaimedCsv && st != State_ClaimedCsv {
		zzverif.Reach("maker.claimed_csv")
		found := false
		for i := range w.suspicious {
			if w.suspicious[i] == pd.PeerNodeId {
				found = true
			}
		}
		zzverif.Assert(found, "C26.csv_claim_marks_peer_suspicious")
		onlyPeer := true
		for i := range w.suspicious {
			onlyPeer = onlyPeer && w.suspicious[i] == pd.PeerNodeId
		}
		zzverif.Assert(onlyPeer, "C26.nobody_else_is_marked_suspicious")
	}
	// ---- C23: a maker never sends its swap key, its preimage or fresh key material ----
	for i := range w.sends {
		zzverif.AssertNoFlow("C23.no_secret_in_maker_message", w.sends[i].payload, "privkey", "claimpreimage", "rand.GetPreimage", "newprivkey")
	}
	_ = messages.MESSAGETYPE_CANCELED
}

// zzverif:also C15 C22 C23 C26
func H_C07_step_or_AwaitFeeInvoicePayment() {
	vStepMaker(rOutReceiver, State_SwapOutReceiver_AwaitFeeInvoicePayment)
}

// zzverif:also C15 C22 C23 C26
func H_C07_step_or_BroadcastOpeningTx() {
	vStepMaker(rOutReceiver, State_SwapOutReceiver_BroadcastOpeningTx)
}

// zzverif:also C15 C22 C23 C26
func H_C07_step_or_SendTxBroadcasted() {
	vStepMaker(rOutReceiver, State_SwapOutReceiver_SendTxBroadcastedMessage)
}

// zzverif:also C15 C22 C23 C26
func H_C07_step_or_AwaitClaimInvoicePayment() {
	vStepMaker(rOutReceiver, State_SwapOutReceiver_AwaitClaimInvoicePayment)
}

// zzverif:also C15 C22 C23 C26
func H_C07_step_or_ClaimSwapCoop() { vStepMaker(rOutReceiver, State_SwapOutReceiver_ClaimSwapCoop) }

// zzverif:also C15 C22 C23 C26
func H_C07_step_or_ClaimSwapCsv() { vStepMaker(rOutReceiver, State_SwapOutReceiver_ClaimSwapCsv) }

// zzverif:also C15 C22 C23 C26
func H_C07_step_or_WaitCsv() { vStepMaker(rOutReceiver, State_WaitCsv) }

// zzverif:also C15 C22 C23 C26
func H_C07_step_is_AwaitAgreement() { vStepMaker(rInSender, State_SwapInSender_AwaitAgreement) }

// zzverif:also C15 C22 C23 C26
func H_C07_step_is_BroadcastOpeningTx() { vStepMaker(rInSender, State_SwapInSender_BroadcastOpeningTx) }

// zzverif:also C15 C22 C23 C26
func H_C07_step_is_SendTxBroadcasted() {
	vStepMaker(rInSender, State_SwapInSender_SendTxBroadcastedMessage)
}

// zzverif:also C15 C22 C23 C26
func H_C07_step_is_AwaitClaimPayment() { vStepMaker(rInSender, State_SwapInSender_AwaitClaimPayment) }

// zzverif:also C15 C22 C23 C26
func H_C07_step_is_ClaimSwapCoop() { vStepMaker(rInSender, State_SwapInSender_ClaimSwapCoop) }

// zzverif:also C15 C22 C23 C26
func H_C07_step_is_ClaimSwapCsv() { vStepMaker(rInSender, State_SwapInSender_ClaimSwapCsv) }

// zzverif:also C15 C22 C23 C26
func H_C07_step_is_WaitCsv() { vStepMaker(rInSender, State_WaitCsv) }
