//go:build verif

package swap

import (
	"github.com/elementsproject/peerswap/messages"
	"github.com/elementsproject/peerswap/zzverif"
)

type vSentCounts struct{ agreements, cancels, others int }

func vCountSends(w *vWorld, peer string) vSentCounts {
	var c vSentCounts
	for i := range w.sends {
		s := w.sends[i]
		switch {
		case s.msgType == int(messages.MESSAGETYPE_SWAPINAGREEMENT) || s.msgType == int(messages.MESSAGETYPE_SWAPOUTAGREEMENT):
			c.agreements++
		case s.msgType == int(messages.MESSAGETYPE_CANCELED) && s.peer == peer:
			c.cancels++
		default:
			c.others++
		}
	}
	return c
}

// vRequestEnv: a service with no swaps; which chains are enabled is arbitrary.
func vRequestEnv() (*vEnv, *SwapService, bool, bool) {
	btcOn, lbtcOn := zzverif.Bool("cfg.bitcoin_enabled"), zzverif.Bool("cfg.liquid_enabled")
	env := newEnv(btcOn, lbtcOn)
	env.w.maxFaults = 1
	svc := NewSwapService(env.services)
	return env, svc, btcOn, lbtcOn
}

// H_C11_swapInRequest: the node answers a swap_in_request with an agreement only if every policy
// condition holds; otherwise it sends no agreement (and at most cancels to the requester).
// All request fields symbolic (asset/network arbitrary strings, scid arbitrary).  Bound: <= 1 injected
// service fault; amounts <= 2^63 msat.
func H_C11_swapInRequest() {
	env, svc, btcOn, lbtcOn := vRequestEnv()
	w := env.w
	peer := zzverif.Str("peer")
	m := &SwapInRequestMessage{ProtocolVersion: zzverif.U8("m.version"), SwapId: vSwapId("m.id"), Network: zzverif.Str("m.network"), Asset: zzverif.Str("m.asset"),
		Scid: zzverif.Str("m.scid"), Amount: zzverif.U64("m.amount"), Pubkey: zzverif.Str("m.pubkey"), PremiumLimit: zzverif.I64("m.limit")}
	zzverif.Assume(m.Amount <= vMaxAmountSat)
	svc.OnMessageReceived(peer, vHexType(messages.MESSAGETYPE_SWAPINREQUEST), vMarshal(m))
	c := vCountSends(w, peer)
	zzverif.Assert(c.agreements <= 1 && c.others == 0, "C11.swapin_only_agreement_or_cancel")
	if c.agreements == 1 {
		zzverif.Reach("c11.swapin_agreed")
		liquid := m.Asset != "" && m.Network == ""
		btc := m.Asset == "" && m.Network != ""
		zzverif.Assert(env.policy.newSwaps, "C11.swapin_needs_swaps_enabled")
		zzverif.Assert((liquid && lbtcOn && m.Asset == vLiquidAsset) || (btc && btcOn && m.Network == vBtcNetwork), "C11.swapin_needs_enabled_matching_chain")
		zzverif.Assert(m.ProtocolVersion == 7, "C11.swapin_needs_version_7")
		zzverif.Assert(m.Amount*1000 >= env.policy.minMsat, "C11.swapin_needs_minimum_amount")
		zzverif.Assert(env.policy.allowed && !env.policy.suspicious, "C11.swapin_needs_allowed_unsuspicious_peer")
		zzverif.Assert(w.lastSpendable >= m.Amount*1000 && w.spendableAsked, "C11.swapin_amount_fits_channel")
		zzverif.Assert(c.cancels == 0, "C11.swapin_no_cancel_with_agreement")
	}
}

// H_C11_swapOutRequest: same for swap_out_request; additionally the wallet must hold amount + fee.
func H_C11_swapOutRequest() {
	env, svc, btcOn, lbtcOn := vRequestEnv()
	w := env.w
	peer := zzverif.Str("peer")
	m := &SwapOutRequestMessage{ProtocolVersion: zzverif.U8("m.version"), SwapId: vSwapId("m.id"), Network: zzverif.Str("m.network"), Asset: zzverif.Str("m.asset"),
		Scid: zzverif.Str("m.scid"), Amount: zzverif.U64("m.amount"), Pubkey: zzverif.Str("m.pubkey"), PremiumLimit: zzverif.I64("m.limit")}
	zzverif.Assume(m.Amount <= vMaxAmountSat)
	svc.OnMessageReceived(peer, vHexType(messages.MESSAGETYPE_SWAPOUTREQUEST), vMarshal(m))
	c := vCountSends(w, peer)
	zzverif.Assert(c.agreements <= 1 && c.others == 0, "C11.swapout_only_agreement_or_cancel")
	if c.agreements == 1 {
		zzverif.Reach("c11.swapout_agreed")
		liquid := m.Asset != "" && m.Network == ""
		btc := m.Asset == "" && m.Network != ""
		zzverif.Assert(env.policy.newSwaps, "C11.swapout_needs_swaps_enabled")
		zzverif.Assert((liquid && lbtcOn && m.Asset == vLiquidAsset) || (btc && btcOn && m.Network == vBtcNetwork), "C11.swapout_needs_enabled_matching_chain")
		zzverif.Assert(m.ProtocolVersion == 7, "C11.swapout_needs_version_7")
		zzverif.Assert(m.Amount*1000 >= env.policy.minMsat, "C11.swapout_needs_minimum_amount")
		zzverif.Assert(env.policy.allowed && !env.policy.suspicious, "C11.swapout_needs_allowed_unsuspicious_peer")
		zzverif.Assert(w.lastReceivable >= m.Amount*1000 && w.receivableAsked, "C11.swapout_amount_fits_channel")
		// balance >= amount + fee as mathematical integers
		zzverif.Assert(w.balanceAsked && w.lastBalance >= m.Amount && w.lastBalance-m.Amount >= w.lastFlatFee, "C11.swapout_wallet_covers_amount_plus_fee")
		zzverif.Assert(c.cancels == 0, "C11.swapout_no_cancel_with_agreement")
	}
}
