//go:build verif

package swap

import (
	"github.com/elementsproject/peerswap/messages"
	"github.com/elementsproject/peerswap/zzverif"
)

type vSentCounts struct{ agreements, cancels, others int }

func vCountSends(w *vWorld, peer string) vSentCounts {
	var c vSentCounts
	for i := range w.sends {
		s := w.sends[i]
		switch {
		case s.msgType == int(messages.MESSAGETYPE_SWAPINAGREEMENT) || s.msgType == int(messages.MESSAGETYPE_SWAPOUTAGREEMENT):
			c.agreements++
		case s.msgType == int(messages.MESSAGETYPE_CANCELED) && s.peer == peer:
			c.cancels++
		default:
			c.others++
		}
	}
	return c
}

// vRequestStrings draws the string-valued request fields from the classes the admission logic
// distinguishes (bound: these representatives; amounts, limits, versions and every service answer stay
// fully symbolic).  Arbitrary strings through validateScid/validateHexString cost minutes per query.
func vRequestStrings() (network, asset, scid, pubkey string) {
	network = []string{"", vBtcNetwork, "regtest"}[zzverif.Choice("m.network", 3)]
	asset = []string{"", vLiquidAsset, "02" + vLiquidAsset[2:], "zz"}[zzverif.Choice("m.asset", 4)]
	scid = []string{"1x2x3", "1x2"}[zzverif.Choice("m.scid", 2)]
	if zzverif.Bool("m.pubkey_valid") {
		pubkey = zzverif.HexStr("m.pubkey", 33)
	} else {
		pubkey = "nothex"
	}
	return
}

// vRequestEnv: a service with no swaps; which chains are enabled is arbitrary.
func vRequestEnv() (*vEnv, *SwapService, bool, bool) {
	btcOn, lbtcOn := zzverif.Bool("cfg.bitcoin_enabled"), zzverif.Bool("cfg.liquid_enabled")
	env := newEnv(btcOn, lbtcOn)
	env.w.maxFaults = 1
	svc := NewSwapService(env.services)
	return env, svc, btcOn, lbtcOn
}

// H_C11_swapInRequest: the node answers a swap_in_request with an agreement only if every policy
// condition holds; otherwise it sends no agreement (and at most cancels to the requester).
// All request fields symbolic (asset/network arbitrary strings, scid arbitrary).  Bound: <= 1 injected
// service fault; amounts <= 2^63 msat.
func H_C11_swapInRequest() {
	env, svc, btcOn, lbtcOn := vRequestEnv()
	w := env.w
	peer := vPeer
	network, asset, scid, pubkey := vRequestStrings()
	m := &SwapInRequestMessage{ProtocolVersion: zzverif.U8("m.version"), SwapId: vSwapId("m.id"), Network: network, Asset: asset,
		Scid: scid, Amount: zzverif.U64("m.amount"), Pubkey: pubkey, PremiumLimit: zzverif.I64("m.limit")}
	zzverif.Assume(m.Amount <= vMaxAmountSat)
	svc.OnMessageReceived(peer, vHexType(messages.MESSAGETYPE_SWAPINREQUEST), vMarshal(m))
	c := vCountSends(w, peer)
	zzverif.Assert(c.agreements <= 1, "C11.swapin_at_most_one_agreement")
	if c.agreements == 0 && c.cancels == 0 && len(w.sends) == 0 {
		zzverif.Reach("c11.swapin_silent_refusal")
	}
	if c.agreements == 1 {
		zzverif.Reach("c11.swapin_agreed")
		liquid := m.Asset != "" && m.Network == ""
		btc := m.Asset == "" && m.Network != ""
		zzverif.Assert(env.policy.newSwaps, "C11.swapin_needs_swaps_enabled")
		zzverif.Assert((liquid && lbtcOn && m.Asset == vLiquidAsset) || (btc && btcOn && m.Network == vBtcNetwork), "C11.swapin_needs_enabled_matching_chain")
		zzverif.Assert(m.ProtocolVersion == 7, "C11.swapin_needs_version_7")
		zzverif.Assert(m.Amount*1000 >= env.policy.minMsat, "C11.swapin_needs_minimum_amount")
		zzverif.Assert(env.policy.allowed && !env.policy.suspicious, "C11.swapin_needs_allowed_unsuspicious_peer")
		zzverif.Assert(w.lastSpendable >= m.Amount*1000 && w.spendableAsked, "C11.swapin_amount_fits_channel")
		// the premium this node asks for is within what the requester said it accepts
		if sm, err := svc.GetActiveSwap(m.SwapId.String()); err == nil {
			zzverif.Assert(sm.Data.GetPremium() <= m.PremiumLimit, "C11.swapin_agreed_premium_within_limit")
		}
	}
}

// H_C11_swapOutRequest: same for swap_out_request; additionally the wallet must hold amount + fee.
func H_C11_swapOutRequest() {
	env, svc, btcOn, lbtcOn := vRequestEnv()
	w := env.w
	peer := vPeer
	network, asset, scid, pubkey := vRequestStrings()
	m := &SwapOutRequestMessage{ProtocolVersion: zzverif.U8("m.version"), SwapId: vSwapId("m.id"), Network: network, Asset: asset,
		Scid: scid, Amount: zzverif.U64("m.amount"), Pubkey: pubkey, PremiumLimit: zzverif.I64("m.limit")}
	zzverif.Assume(m.Amount <= vMaxAmountSat)
	svc.OnMessageReceived(peer, vHexType(messages.MESSAGETYPE_SWAPOUTREQUEST), vMarshal(m))
	c := vCountSends(w, peer)
	zzverif.Assert(c.agreements <= 1, "C11.swapout_at_most_one_agreement")
	if c.agreements == 1 {
		zzverif.Reach("c11.swapout_agreed")
		liquid := m.Asset != "" && m.Network == ""
		btc := m.Asset == "" && m.Network != ""
		zzverif.Assert(env.policy.newSwaps, "C11.swapout_needs_swaps_enabled")
		zzverif.Assert((liquid && lbtcOn && m.Asset == vLiquidAsset) || (btc && btcOn && m.Network == vBtcNetwork), "C11.swapout_needs_enabled_matching_chain")
		zzverif.Assert(m.ProtocolVersion == 7, "C11.swapout_needs_version_7")
		zzverif.Assert(m.Amount*1000 >= env.policy.minMsat, "C11.swapout_needs_minimum_amount")
		zzverif.Assert(env.policy.allowed && !env.policy.suspicious, "C11.swapout_needs_allowed_unsuspicious_peer")
		zzverif.Assert(w.lastReceivable >= m.Amount*1000 && w.receivableAsked, "C11.swapout_amount_fits_channel")
		// the premium this node charges is within what the requester said it accepts
		if sm, err := svc.GetActiveSwap(m.SwapId.String()); err == nil {
			zzverif.Assert(sm.Data.GetPremium() <= m.PremiumLimit, "C11.swapout_agreed_premium_within_limit")
		}
		// balance >= amount + fee as mathematical integers (bound as in C12: own fee estimate < 2^51 sat)
		zzverif.Assume(w.lastFlatFee < 1<<51)
		zzverif.Assert(w.balanceAsked && w.lastBalance >= m.Amount && w.lastBalance-m.Amount >= w.lastFlatFee, "C11.swapout_wallet_covers_amount_plus_fee")
	}
}
