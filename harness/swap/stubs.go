//go:build verif

package swap

import (
	"context"
	"encoding/hex"
	"errors"
	"os"
	"path/filepath"
	"time"

	"github.com/elementsproject/peerswap/messages"
	"github.com/elementsproject/peerswap/premium"
	"github.com/elementsproject/peerswap/zzverif"
	"go.etcd.io/bbolt"
)

// ---------------------------------------------------------------------------------------
// World: ghost state shared by all stubs of one harness run.  Every stub answer is an
// arbitrary value of its type (zzverif draw); what the node *did* is recorded here so that
// properties are plain Go assertions over it.
// ---------------------------------------------------------------------------------------

type vInvoice struct {
	hash string
	msat uint64
	cltv int64
	err  bool
}

type vPay struct {
	payreq          string
	scid            string
	limit           uint32
	height          uint32 // last height answer of the swap's chain before the call
	heightN         int    // how many height answers had been given
	ok              bool
	validatedBefore bool
}

type vSend struct {
	peer    string
	msgType int
	payload []byte
	// what the store held for the (single) swap of the run when the message left
	recExists    bool
	recAnchorSet bool
	recAnchor    uint32
}

type vWatch struct {
	kind   string // "conf" | "csv"
	swapID string
	txID   string
	vout   uint32
	start  uint32
	param  uint32
	script []byte
}

type vWorld struct {
	invoices map[string]*vInvoice

	pays        []vPay
	feePays     []vPay
	recovers    []string
	sends       []vSend
	watches     []vWatch
	notifiers   []string
	timeouts    int
	persists    int
	lastHeight  uint32
	heightCount int
	heightSeen  bool

	validated      bool // a ValidateTx call returned (true,nil)
	validatedHex   string
	validatedPar   OpeningParams
	openings       int
	openingParams  []OpeningParams
	spends         []string
	labels         int
	suspicious     []string
	reqswaps       int
	payAttempts    int
	maxPayAttempts int

	lastInvoiceMsat     uint64
	lastInvoicePreimage string
	lastInvoiceType     InvoiceType
	lastInvoiceExpiry   uint64
	lastInvoiceCltv     uint64
	invoicesMade        int
	probes              []uint64
	openTxId            string
	openVout            uint32
	openTxHex           string
	lastFlatFee         uint64
	maxFlatFee          uint64
	senderAdds          int
	senderRemoves       int
	lastTimeout         time.Duration
	rates               vRates

	// process-lifetime bookkeeping (reset by vRestart)
	lifetime      int
	timeoutsArmed int
	watchesLive   []vWatch
	notifiersLive []string
	// a claim payment has settled or may still be outstanding (HTLC offered)
	payOut bool

	faults, maxFaults                             int
	payActionRuns                                 int
	lastSpendable, lastReceivable, lastBalance    uint64
	spendableAsked, receivableAsked, balanceAsked bool
	narrow                                        *SwapData // when set, height answers are pinned to this swap's start height
	storeRef                                      *vStore
	interleave                                    func()
	// effectProbe returns the swap whose transition is being observed; at every external effect (send,
	// broadcast, payment, spend) the stubs compare the stored record with it (noteEffect)
	effectProbe    func() *SwapStateMachine
	effectsSeen    int
	storeFailed    bool
	lastTimeoutCtx context.Context
	spendAttempts  int
	// a csv / coop / preimage spend was attempted while a retransmitter of the announcement was registered
	msgMgrRef                *vMsgManager
	spendWhileRetransmitting bool
	effectStale    bool
	staleAt        string
	interleaved    bool
	yieldAt        string
	// narrowOffset is added to the pinned height ("the chain has advanced by this much")
	narrowOffset uint32
}

func newWorld() *vWorld {
	return &vWorld{invoices: map[string]*vInvoice{}, maxPayAttempts: 3, maxFaults: 1 << 30}
}

// fault draws an injected failure of a local service call, within the run's fault budget
// (history harnesses bound the number of injected faults per step; the bound is stated there).
func (w *vWorld) fault(name string) bool {
	if w.faults >= w.maxFaults {
		return false
	}
	if zzverif.Bool(name) {
		w.faults++
		return true
	}
	return false
}

// ---------------------------------------------------------------------------------------
// LightningClient
// ---------------------------------------------------------------------------------------

type vLightning struct{ w *vWorld }

func (l *vLightning) decode(payreq string) *vInvoice {
	if inv, ok := l.w.invoices[payreq]; ok {
		return inv
	}
	inv := &vInvoice{err: zzverif.Bool("decode.err"), hash: zzverif.HexStr("decode.hash", 32),
		msat: zzverif.U64("decode.msat"), cltv: zzverif.I64("decode.cltv")}
	l.w.invoices[payreq] = inv
	return inv
}

func (l *vLightning) DecodePayreq(payreq string) (string, uint64, int64, error) {
	inv := l.decode(payreq)
	if inv.err {
		return "", 0, 0, errors.New("decode failed")
	}
	return inv.hash, inv.msat, inv.cltv, nil
}

func (l *vLightning) PayInvoice(payreq string) (string, error) {
	zzverif.Fail("PayInvoice is never used by the swap package")
	return "", nil
}

func (l *vLightning) GetPayreq(msatAmount uint64, preimage string, swapId string, memo string, invoiceType InvoiceType, expirySeconds, expiryCltv uint64) (string, error) {
	zzverif.Effect("invoice", msatAmount, preimage, swapId, int(invoiceType), expirySeconds, expiryCltv)
	l.w.lastInvoiceMsat, l.w.lastInvoicePreimage, l.w.lastInvoiceType = msatAmount, preimage, invoiceType
	l.w.lastInvoiceExpiry, l.w.lastInvoiceCltv = expirySeconds, expiryCltv
	l.w.invoicesMade++
	if l.w.fault("getpayreq.err") {
		return "", errors.New("getpayreq failed")
	}
	return zzverif.Str("getpayreq.payreq"), nil
}

func (l *vLightning) PayInvoiceViaChannel(payreq string, channel string) (string, error) {
	l.w.noteEffect("pay_fee")
	l.w.feePays = append(l.w.feePays, vPay{payreq: payreq, scid: channel})
	zzverif.Effect("pay_fee", payreq, channel)
	if l.w.fault("payfee.err") {
		return "", errors.New("fee payment failed")
	}
	return zzverif.Str("payfee.preimage"), nil
}

func (l *vLightning) AddPaymentCallback(f func(swapId string, invoiceType InvoiceType)) {}

func (l *vLightning) AddPaymentNotifier(swapId string, payreq string, invoiceType InvoiceType) {
	l.w.notifiers = append(l.w.notifiers, payreq)
	l.w.notifiersLive = append(l.w.notifiersLive, payreq)
	zzverif.Effect("notify_payment", swapId, payreq, int(invoiceType))
}

func (l *vLightning) RebalancePayment(payreq string, channel string, maxTotalCLTVDelta uint32) (string, error) {
	l.w.noteEffect("pay_claim")
	l.w.payAttempts++
	// bound: at most maxPayAttempts attempts per run (outside: stated in the evidence)
	zzverif.Assume(l.w.payAttempts <= l.w.maxPayAttempts)
	p := vPay{payreq: payreq, scid: channel, limit: maxTotalCLTVDelta, height: l.w.lastHeight, heightN: l.w.heightCount,
		validatedBefore: l.w.validated}
	zzverif.Effect("pay_claim", payreq, channel, maxTotalCLTVDelta)
	// the call may take longer than the action's retry window (the peer holds the HTLC): deadlines of
	// pending contexts expire while it runs
	if zzverif.Bool("pay.slow") {
		zzverif.ExpireDeadlines()
	}
	if zzverif.Bool("pay.err") {
		// an error does not tell whether an HTLC went out (RPC error while the payment is pending)
		if zzverif.Bool("pay.err.outstanding") {
			l.w.payOut = true
		}
		l.w.pays = append(l.w.pays, p)
		return "", errors.New("payment failed")
	}
	p.ok = true
	l.w.payOut = true
	l.w.pays = append(l.w.pays, p)
	return zzverif.Str("pay.preimage"), nil
}

func (l *vLightning) RecoverClaimPayment(payreq string) (string, error) {
	l.w.recovers = append(l.w.recovers, payreq)
	zzverif.Effect("recover_payment", payreq)
	if l.w.fault("recover.err") {
		return "", errors.New("no such payment")
	}
	return zzverif.Str("recover.preimage"), nil
}

func (l *vLightning) CanSpend(amountMsat uint64) error {
	if l.w.fault("canspend.err") {
		return errors.New("cannot spend")
	}
	return nil
}
func (l *vLightning) Implementation() string { return "CLN" }
func (l *vLightning) SpendableMsat(scid string) (uint64, error) {
	if l.w.fault("spendable.err") {
		return 0, errors.New("spendable failed")
	}
	v := zzverif.U64("spendable.msat")
	l.w.lastSpendable, l.w.spendableAsked = v, true
	return v, nil
}
func (l *vLightning) ReceivableMsat(scid string) (uint64, error) {
	if l.w.fault("receivable.err") {
		return 0, errors.New("receivable failed")
	}
	v := zzverif.U64("receivable.msat")
	l.w.lastReceivable, l.w.receivableAsked = v, true
	return v, nil
}
func (l *vLightning) ProbePayment(scid string, amountMsat uint64) (bool, string, error) {
	l.w.probes = append(l.w.probes, amountMsat)
	if l.w.fault("probe.err") {
		return false, "", errors.New("probe failed")
	}
	return zzverif.Bool("probe.ok"), "probe failure reason", nil
}

// ---------------------------------------------------------------------------------------
// TxWatcher / Validator / Wallet (one instance per chain)
// ---------------------------------------------------------------------------------------

type vWatcher struct {
	w     *vWorld
	chain string
}

func (t *vWatcher) AddWaitForConfirmationTx(swapID, txID string, vout, startingHeight, paymentWindow uint32, scriptpubkey []byte) {
	t.w.watches = append(t.w.watches, vWatch{kind: "conf", swapID: swapID, txID: txID, vout: vout, start: startingHeight, param: paymentWindow, script: scriptpubkey})
	t.w.watchesLive = append(t.w.watchesLive, vWatch{kind: "conf", swapID: swapID, txID: txID, vout: vout})
	zzverif.Effect("watch_conf", swapID, txID, vout, startingHeight, paymentWindow)
}
func (t *vWatcher) AddWaitForCsvTx(swapID, txID string, vout, startingHeight, csv uint32, scriptpubkey []byte) {
	t.w.watches = append(t.w.watches, vWatch{kind: "csv", swapID: swapID, txID: txID, vout: vout, start: startingHeight, param: csv, script: scriptpubkey})
	t.w.watchesLive = append(t.w.watchesLive, vWatch{kind: "csv", swapID: swapID, txID: txID, vout: vout})
	zzverif.Effect("watch_csv", swapID, txID, vout, startingHeight, csv)
}
func (t *vWatcher) AddConfirmationCallback(func(swapId string, txHex string, err error) error) {}
func (t *vWatcher) AddCsvCallback(func(swapId string) error)                                   {}
func (t *vWatcher) GetBlockHeight() (uint32, error) {
	if t.w.fault("height.err") {
		return 0, errors.New("height failed")
	}
	if t.w.narrow != nil {
		// history harnesses: the chain sits at the swap's start height (inside every payment window);
		// window arithmetic over all heights is the subject of the C04/C05 action harnesses
		h := t.w.narrow.StartingBlockHeight + t.w.narrowOffset
		t.w.lastHeight = h
		t.w.heightCount++
		t.w.heightSeen = true
		return h, nil
	}
	h := zzverif.U32("height")
	t.w.lastHeight = h
	t.w.heightCount++
	t.w.heightSeen = true
	return h, nil
}
func (t *vWatcher) StartWatchingTxs() error { return nil }

type vValidator struct {
	w   *vWorld
	csv uint32
}

func (v *vValidator) TxIdFromHex(txHex string) (string, error) {
	return zzverif.Str("txidfromhex"), nil
}
func (v *vValidator) ValidateTx(swapParams *OpeningParams, txHex string) (bool, error) {
	zzverif.Effect("validate_tx", txHex)
	if v.w.fault("validate.err") {
		return false, errors.New("validate failed")
	}
	ok := zzverif.Bool("validate.ok")
	if ok {
		v.w.validated = true
		v.w.validatedHex = txHex
		v.w.validatedPar = *swapParams
	}
	return ok, nil
}
func (v *vValidator) GetCSVHeight() uint32 { return v.csv }

type vWallet struct {
	w     *vWorld
	chain string
	asset string
	net   string
}

func (w *vWallet) SetLabel(txID, address, label string) error {
	w.w.labels++
	if w.w.fault("label.err") {
		return errors.New("label failed")
	}
	return nil
}
func (w *vWallet) CreateOpeningTransaction(p *OpeningParams) (string, string, string, uint64, uint32, error) {
	w.w.noteEffect("wallet_open")
	// the broadcast may have happened although the call reports an error
	broadcast := zzverif.Bool("open.broadcast")
	fail := w.w.fault("open.err")
	if broadcast || !fail {
		w.w.openings++
		w.w.openingParams = append(w.w.openingParams, *p)
	}
	zzverif.Effect("wallet_open", p.Amount, p.CSV, p.ClaimPaymentHash)
	if fail {
		return "", "", "", 0, 0, errors.New("open failed")
	}
	w.w.openTxId = zzverif.Str("open.txid")
	w.w.openVout = zzverif.U32("open.vout")
	w.w.openTxHex = zzverif.Str("open.txhex")
	return w.w.openTxHex, zzverif.Str("open.addr"), w.w.openTxId, zzverif.U64("open.fee"), w.w.openVout, nil
}
func (w *vWallet) spend(kind string) (string, string, string, error) {
	w.w.noteEffect("wallet_spend")
	w.w.spendAttempts++
	if w.w.msgMgrRef != nil && len(w.w.msgMgrRef.senders) > 0 {
		w.w.spendWhileRetransmitting = true
	}
	zzverif.Effect("wallet_spend_" + kind)
	if w.w.fault("spend.err") {
		return "", "", "", errors.New("spend failed")
	}
	w.w.spends = append(w.w.spends, kind)
	return zzverif.Str("spend.txid"), zzverif.Str("spend.txhex"), zzverif.Str("spend.addr"), nil
}
func (w *vWallet) CreatePreimageSpendingTransaction(p *OpeningParams, c *ClaimParams) (string, string, string, error) {
	return w.spend("preimage")
}
func (w *vWallet) CreateCsvSpendingTransaction(p *OpeningParams, c *ClaimParams) (string, string, string, error) {
	return w.spend("csv")
}
func (w *vWallet) CreateCoopSpendingTransaction(p *OpeningParams, c *ClaimParams, takerSigner Signer) (string, string, string, error) {
	return w.spend("coop")
}
func (w *vWallet) GetOutputScript(params *OpeningParams) ([]byte, error) {
	// contract of the real implementations (onchain.ParamsToTxScript): the only failure is a key or
	// hash that is not hex
	if _, err := hex.DecodeString(params.TakerPubkey); err != nil {
		return nil, err
	}
	if _, err := hex.DecodeString(params.MakerPubkey); err != nil {
		return nil, err
	}
	if _, err := hex.DecodeString(params.ClaimPaymentHash); err != nil {
		return nil, err
	}
	return zzverif.Bytes("outscript", 34), nil
}
func (w *vWallet) NewAddress() (string, error)   { return zzverif.Str("newaddr"), nil }
func (w *vWallet) GetRefundFee() (uint64, error) { return zzverif.U64("refundfee"), nil }
func (w *vWallet) GetFlatOpeningTXFee() (uint64, error) {
	if w.w.fault("flatfee.err") {
		return 0, errors.New("fee estimate failed")
	}
	f := zzverif.U64("flatfee")
	if w.w.maxFlatFee != 0 {
		zzverif.Assume(f < w.w.maxFlatFee) // stated bound of the entry on the wallet's estimate
	} else {
		// bound of every entry: the estimate is below 2^60 sat.  Above 2^64/3 the code's uint64(float64(fee)*3)
		// converts an out-of-range float, whose result Go leaves to the platform: model and native run differ.
		zzverif.Assume(f < 1<<60)
	}
	w.w.lastFlatFee = f
	return f, nil
}
func (w *vWallet) GetAsset() string   { w.w.yieldPoint("wallet"); return w.asset }
func (w *vWallet) GetNetwork() string { w.w.yieldPoint("wallet"); return w.net }

// noteEffect: an action is about to do something the outside world sees.  SendEvent writes the record after
// every action, so at this moment the stored record must name the state the swap was in before the
// running action's state was entered (or, during recovery, that state itself): a crash right after the
// effect is then recovered from a state that knows everything done before.
func (w *vWorld) noteEffect(kind string) {
	if w.effectProbe == nil || w.storeRef == nil {
		return
	}
	sm := w.effectProbe()
	if sm == nil {
		return
	}
	w.effectsSeen++
	rec, ok := w.storeRef.recs[sm.SwapId.String()]
	if !ok || (rec.Current != sm.Previous && rec.Current != sm.Current) {
		if !w.effectStale {
			w.staleAt = kind
		}
		w.effectStale = true
	}
}

// yieldPoint: a call into a collaborator is a point where another goroutine of the daemon (timer, watcher
// callback, message handler, RPC) may run.  Entries that explore schedules set vWorld.interleave to what
// that goroutine does and vWorld.yieldAt to the kind of point; it runs at most once.
func (w *vWorld) yieldPoint(kind string) {
	if w.interleave == nil || w.interleaved || (w.yieldAt != "" && w.yieldAt != kind) {
		return
	}
	if zzverif.Bool("interleave.at_" + kind) {
		w.interleaved = true
		zzverif.Concurrently(w.interleave)
	}
}
func (w *vWallet) GetOnchainBalance() (uint64, error) {
	if w.w.fault("balance.err") {
		return 0, errors.New("balance failed")
	}
	v := zzverif.U64("balance")
	w.w.lastBalance, w.w.balanceAsked = v, true
	return v, nil
}

// ---------------------------------------------------------------------------------------
// Policy, Messenger, MessengerManager, stores, timeouts
// ---------------------------------------------------------------------------------------

type vPolicy struct {
	w          *vWorld
	allowed    bool
	suspicious bool
	newSwaps   bool
	minMsat    uint64
	fixed      bool
}

func newPolicy(w *vWorld) *vPolicy {
	return &vPolicy{w: w, allowed: zzverif.Bool("policy.allowed"), suspicious: zzverif.Bool("policy.suspicious"),
		newSwaps: zzverif.Bool("policy.newswaps"), minMsat: zzverif.U64("policy.minmsat")}
}

func (p *vPolicy) IsPeerAllowed(peer string) bool    { return p.allowed }
func (p *vPolicy) IsPeerSuspicious(peer string) bool { return p.suspicious }
func (p *vPolicy) AddToSuspiciousPeerList(pubkey string) error {
	p.w.suspicious = append(p.w.suspicious, pubkey)
	zzverif.Effect("suspicious_add", pubkey)
	if p.w.fault("suspicious.err") {
		return errors.New("policy write failed")
	}
	return nil
}
func (p *vPolicy) GetReserveOnchainMsat() uint64 { return 0 }
func (p *vPolicy) GetMinSwapAmountMsat() uint64  { return p.minMsat }
func (p *vPolicy) NewSwapsAllowed() bool         { return p.newSwaps }

type vMessenger struct{ w *vWorld }

func (m *vMessenger) SendMessage(peerId string, message []byte, messageType int) error {
	// a second goroutine of the daemon (timer, watcher, message handler) may become active while this
	// send is in flight: the harness decides what it does (vWorld.interleave)
	m.w.yieldPoint("send")
	m.w.noteEffect("send")
	snd := vSend{peer: peerId, msgType: messageType, payload: message}
	if m.w.storeRef != nil {
		for _, r := range m.w.storeRef.recs {
			snd.recExists, snd.recAnchorSet, snd.recAnchor = true, r.Data.StartingBlockHeightSet, r.Data.StartingBlockHeight
		}
	}
	m.w.sends = append(m.w.sends, snd)
	zzverif.Effect("send", peerId, messageType)
	if m.w.fault("send.err") {
		return errors.New("send failed")
	}
	return nil
}
func (m *vMessenger) AddMessageHandler(func(peerId string, msgType string, payload []byte) error) {}

type vMsgManager struct {
	w       *vWorld
	senders map[string]messages.StoppableMessenger
}

func (m *vMsgManager) AddSender(id string, messenger messages.StoppableMessenger) error {
	if _, ok := m.senders[id]; ok {
		return errors.New("sender already exists")
	}
	m.senders[id] = messenger
	m.w.senderAdds++
	zzverif.Effect("send_retry_start", id)
	return nil
}
func (m *vMsgManager) RemoveSender(id string) {
	if s, ok := m.senders[id]; ok {
		s.Stop()
		delete(m.senders, id)
	}
	m.w.senderRemoves++
	zzverif.Effect("send_retry_stop", id)
}

type vReqStore struct{ w *vWorld }

func (s *vReqStore) Add(id string, reqswap RequestedSwap) error {
	s.w.reqswaps++
	return nil
}
func (s *vReqStore) GetAll() (map[string][]RequestedSwap, error) { return nil, nil }
func (s *vReqStore) Get(id string) ([]RequestedSwap, error)      { return nil, nil }

type vTimeouts struct{ w *vWorld }

func (t *vTimeouts) addNewTimeOut(ctx context.Context, d time.Duration, id string) {
	t.w.timeouts++
	t.w.timeoutsArmed++
	t.w.lastTimeout = d
	t.w.lastTimeoutCtx = ctx // the real timer is stopped by cancelling this context
	zzverif.Effect("arm_timeout", id, int64(d))
}

// vStore is the swap store as a map of snapshots of the persisted fields.
type vStore struct {
	w    *vWorld
	recs map[string]*SwapStateMachine
	// nativeDelay: a write takes this long in native runs (a real bbolt write syncs to disk), so that
	// goroutines the code under test started meanwhile get going, as the logical goroutines do symbolically
	nativeDelay time.Duration
}

// put stores a record (used by harness code that seeds the store directly).
func (s *vStore) put(id string, r *SwapStateMachine) { s.recs[id] = r }

// ids lists the stored ids in a deterministic order (byte order), so that native runs agree with the
// symbolic exploration although Go randomises map iteration.
func (s *vStore) ids() []string {
	var out []string
	for id := range s.recs {
		out = append(out, id)
	}
	for i := 1; i < len(out); i++ {
		for j := i; j > 0 && out[j] < out[j-1]; j-- {
			out[j], out[j-1] = out[j-1], out[j]
		}
	}
	return out
}

func (s *vStore) UpdateData(data *SwapStateMachine) error {
	if s.w.fault("store.err") {
		s.w.storeFailed = true
		return errors.New("store failed")
	}
	if s.nativeDelay > 0 && !zzverif.Symbolic() {
		time.Sleep(s.nativeDelay)
	}
	// the real store writes the record as JSON and a restart decodes it again: an interface-typed member
	// (last_message) that holds a value encodes fine but cannot be decoded, and the swap is lost at the next
	// restart - a record that is written must be one that can be read back
	if data.Data != nil {
		zzverif.Assert(data.Data.LastMessage == nil, "C16.stored_record_can_be_decoded_again")
	}
	// the real store marshals the complete record: it reads every field of the swap data
	zzverif.RaceTouch(data.Data, false)
	s.recs[data.SwapId.String()] = vSnapshot(data)
	s.w.persists++
	zzverif.Effect("persist", string(data.Current))
	return nil
}
func (s *vStore) GetData(id string) (*SwapStateMachine, error) {
	if r, ok := s.recs[id]; ok {
		return vSnapshot(r), nil
	}
	return nil, ErrDataNotAvailable
}
func (s *vStore) ListAll() ([]*SwapStateMachine, error) {
	var out []*SwapStateMachine
	for _, id := range s.ids() {
		out = append(out, vSnapshot(s.recs[id]))
	}
	return out, nil
}
func (s *vStore) ListAllByPeer(peer string) ([]*SwapStateMachine, error) { return s.ListAll() }

// vSnapshot copies exactly the fields encoding/json persists (trusted: C14 is not applicable).
func vSnapshot(in *SwapStateMachine) *SwapStateMachine {
	out := &SwapStateMachine{SwapId: in.SwapId, Type: in.Type, Role: in.Role, Previous: in.Previous, Current: in.Current}
	if in.Data != nil {
		d := *in.Data
		d.LastErr = nil
		d.toCancel = nil
		if d.SwapInRequest != nil {
			c := *d.SwapInRequest
			d.SwapInRequest = &c
		}
		if d.SwapInAgreement != nil {
			c := *d.SwapInAgreement
			d.SwapInAgreement = &c
		}
		if d.SwapOutRequest != nil {
			c := *d.SwapOutRequest
			d.SwapOutRequest = &c
		}
		if d.SwapOutAgreement != nil {
			c := *d.SwapOutAgreement
			d.SwapOutAgreement = &c
		}
		if d.OpeningTxBroadcasted != nil {
			c := *d.OpeningTxBroadcasted
			d.OpeningTxBroadcasted = &c
		}
		if d.CoopClose != nil {
			c := *d.CoopClose
			d.CoopClose = &c
		}
		if d.Cancel != nil {
			c := *d.Cancel
			d.Cancel = &c
		}
		out.Data = &d
	}
	return out
}

// ---------------------------------------------------------------------------------------
// premium.Setting: concrete type over bbolt.  Symbolically the two store getters are
// overridden by arbitrary answers; natively a temp-dir bbolt is seeded with the same values.
// ---------------------------------------------------------------------------------------

type vRates struct {
	peerSet, defSet bool
	// swap-out rates (peerPpm, defPpm) and swap-in rates differ: a charge computed with the rate of the
	// other direction must show
	peerPpm, defPpm     int64
	peerPpmIn, defPpmIn int64
	// the L-BTC rates differ from the BTC ones as well (same reason)
	peerPpmL, defPpmL     int64
	peerPpmInL, defPpmInL int64
}

func (r vRates) peer(asset premium.AssetType, op premium.OperationType) int64 {
	switch {
	case asset == premium.LBTC && op == premium.SwapIn:
		return r.peerPpmInL
	case asset == premium.LBTC:
		return r.peerPpmL
	case op == premium.SwapIn:
		return r.peerPpmIn
	}
	return r.peerPpm
}

func (r vRates) def(asset premium.AssetType, op premium.OperationType) int64 {
	switch {
	case asset == premium.LBTC && op == premium.SwapIn:
		return r.defPpmInL
	case asset == premium.LBTC:
		return r.defPpmL
	case op == premium.SwapIn:
		return r.defPpmIn
	}
	return r.defPpm
}

var vCurWorld *vWorld

// vExactPremium: entries about premium arithmetic (C12) execute the real PPM.Compute symbolically; all
// other swap harnesses use vCheapCompute, which equals the real function on the stated domain
// (amount <= 2^40 sat, |rate| <= 10^6 ppm: the 64-bit product cannot wrap) and keeps queries small.
var vExactPremium bool

func vCheapCompute(p *premium.PPM, amtSat uint64) int64 {
	zzverif.Assume(amtSat <= 1<<40)
	zzverif.Assume(p.Value() <= 1000000 && p.Value() >= -1000000)
	return int64(amtSat) * p.Value() / 1000000
}

// vUFCompute: entries about how amounts and premiums are used (C12) need no fact about the premium
// arithmetic beyond "the same rate and amount give the same premium": PPM.Compute is an uninterpreted
// function there (symbolic side; natively the real Compute runs).  Its arithmetic is C27's subject.
var vUFPremium bool

func vUFCompute(p *premium.PPM, amtSat uint64) int64 {
	return int64(zzverif.UFU64("ppm.compute", p.Value(), amtSat))
}

func vNewPremiumStoreModel(db *bbolt.DB) (*premium.BBoltPremiumStore, error) {
	return &premium.BBoltPremiumStore{}, nil
}

func vPremiumGetRate(p *premium.BBoltPremiumStore, peer string, asset premium.AssetType, operation premium.OperationType) (*premium.PremiumRate, error) {
	r := vCurWorld.rates
	if peer == "default" {
		if !r.defSet {
			return nil, premium.ErrRateNotFound
		}
		return premium.NewPremiumRate(asset, operation, premium.NewPPM(r.def(asset, operation)))
	}
	if !r.peerSet {
		return nil, premium.ErrRateNotFound
	}
	return premium.NewPremiumRate(asset, operation, premium.NewPPM(r.peer(asset, operation)))
}

// vPremiumSetting: the same rates for every (asset, operation) of the one peer of a harness run;
// store I/O errors are outside (bbolt is trusted, C27 states it).
func vPremiumSetting(w *vWorld, peer string) *premium.Setting {
	w.rates = vRates{peerSet: zzverif.Bool("rate.peer.set"), peerPpm: zzverif.I64("rate.peer.ppm"),
		defSet: zzverif.Bool("rate.default.set"), defPpm: zzverif.I64("rate.default.ppm"),
		peerPpmIn: zzverif.I64("rate.peer.ppm.in"), defPpmIn: zzverif.I64("rate.default.ppm.in"),
		peerPpmL: zzverif.I64("rate.peer.ppm.lbtc"), defPpmL: zzverif.I64("rate.default.ppm.lbtc"),
		peerPpmInL: zzverif.I64("rate.peer.ppm.lbtc.in"), defPpmInL: zzverif.I64("rate.default.ppm.lbtc.in")}
	vCurWorld = w
	if zzverif.Symbolic() {
		zzverif.Override("(*github.com/elementsproject/peerswap/premium.BBoltPremiumStore).GetRate", vPremiumGetRate)
		if vUFPremium {
			zzverif.Override("(*github.com/elementsproject/peerswap/premium.PPM).Compute", vUFCompute)
		} else if !vExactPremium {
			zzverif.Override("(*github.com/elementsproject/peerswap/premium.PPM).Compute", vCheapCompute)
		}
		// built by the real constructor (whatever else it sets up), over the store model
		zzverif.Override("github.com/elementsproject/peerswap/premium.NewBBoltPremiumStore", vNewPremiumStoreModel)
		ps, perr := premium.NewSetting(nil)
		if perr != nil {
			zzverif.Fail("premium.NewSetting failed over the store model")
		}
		return ps
	}
	dir, err := os.MkdirTemp("", "zzverif-premium-")
	if err != nil {
		panic(err)
	}
	db, err := bbolt.Open(filepath.Join(dir, "premium.db"), 0o600, nil)
	if err != nil {
		panic(err)
	}
	ps, err := premium.NewSetting(db)
	if err != nil {
		panic(err)
	}
	for _, a := range []premium.AssetType{premium.BTC, premium.LBTC} {
		for _, o := range []premium.OperationType{premium.SwapIn, premium.SwapOut} {
			if w.rates.peerSet {
				r, _ := premium.NewPremiumRate(a, o, premium.NewPPM(w.rates.peer(a, o)))
				ps.SetRate(context.Background(), peer, r)
			}
			if w.rates.defSet {
				r, _ := premium.NewPremiumRate(a, o, premium.NewPPM(w.rates.def(a, o)))
				ps.SetDefaultRate(context.Background(), r)
			}
		}
	}
	return ps
}

// ---------------------------------------------------------------------------------------
// Service wiring
// ---------------------------------------------------------------------------------------

const (
	vLiquidAsset = "016f0279e9ed041c3d710a9f57d0c02928416460c4b722ae3457a11eec381c526d"
	vBtcNetwork  = "mainnet"
	vPeer        = "02aaaaaaaaaaaaaaaaaaaaaaaaaaaaaaaaaaaaaaaaaaaaaaaaaaaaaaaaaaaaaaaaaa"
	vSelfNode    = "03bbbbbbbbbbbbbbbbbbbbbbbbbbbbbbbbbbbbbbbbbbbbbbbbbbbbbbbbbbbbbbbbbb" // this node, where a record names it as the initiator
)

type vEnv struct {
	w        *vWorld
	services *SwapServices
	store    *vStore
	policy   *vPolicy
	msgMgr   *vMsgManager
}

// newEnv wires a SwapServices value exactly like NewSwapServices does, over the stubs.
func newEnv(bitcoinEnabled, liquidEnabled bool) *vEnv {
	w := newWorld()
	// time passes only inside stubs that say so (pay.slow); see zzverif.DeadlineControl
	zzverif.DeadlineControl()
	st := &vStore{w: w, recs: map[string]*SwapStateMachine{}}
	w.storeRef = st
	pol := newPolicy(w)
	mm := &vMsgManager{w: w, senders: map[string]messages.StoppableMessenger{}}
	w.msgMgrRef = mm
	sv := NewSwapServices(st, &vReqStore{w: w}, &vLightning{w: w}, &vMessenger{w: w}, mm, pol,
		bitcoinEnabled, &vWallet{w: w, chain: btc_chain, net: vBtcNetwork}, &vValidator{w: w, csv: 1008}, &vWatcher{w: w, chain: btc_chain},
		liquidEnabled, &vWallet{w: w, chain: l_btc_chain, asset: vLiquidAsset}, &vValidator{w: w, csv: 60}, &vWatcher{w: w, chain: l_btc_chain},
		vPremiumSetting(w, vPeer))
	sv.toService = &vTimeouts{w: w}
	return &vEnv{w: w, services: sv, store: st, policy: pol, msgMgr: mm}
}
