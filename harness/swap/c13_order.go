//go:build verif

package swap

import (
	"github.com/elementsproject/peerswap/messages"
	"github.com/elementsproject/peerswap/zzverif"
)

// H_C13_swapOutInitiation: a Liquid swap-out initiator (taker) sends its request (which carries its swap
// pubkey) only after a record holding the payment-window anchor has been stored, and the anchor in the
// final data equals the stored one.  Bound: <= 1 injected service fault.
// zzverif:also C23
func H_C13_swapOutInitiation() {
	env := newEnv(true, true)
	env.w.maxFaults = 1
	env.policy.newSwaps, env.policy.suspicious, env.policy.minMsat = true, false, 0
	svc := NewSwapService(env.services)
	sm, err := svc.SwapOut(vPeer, "lbtc", "1x2x3", "initiator", zzverif.U64("amount"), zzverif.I64("limitppm"))
	w := env.w
	nReq := 0
	for i := range w.sends {
		s := w.sends[i]
		if s.msgType == int(messages.MESSAGETYPE_SWAPOUTREQUEST) {
			nReq++
			zzverif.Reach("c13.request_sent")
			zzverif.AssertNoFlow("C23.request_reveals_only_the_pubkey", s.payload, "rand.GetPreimage", "newprivkey", "privkey")
			zzverif.Assert(s.recExists && s.recAnchorSet, "C13.anchor_stored_before_request")
			if err == nil && sm != nil {
				zzverif.Assert(sm.Data.StartingBlockHeightSet && sm.Data.StartingBlockHeight == s.recAnchor, "C13.request_anchor_is_final_anchor")
			}
		}
	}
	zzverif.Assert(nReq <= 1, "C13.single_request")
}

// H_C13_swapInAgreement: a Liquid swap-in responder (taker) sends its agreement (carrying its pubkey) only
// after a record holding the anchor has been stored.
// zzverif:also C23
func H_C13_swapInAgreement() {
	env := newEnv(true, true)
	env.w.maxFaults = 1
	env.policy.newSwaps, env.policy.allowed, env.policy.suspicious, env.policy.minMsat = true, true, false, 0
	svc := NewSwapService(env.services)
	id := vSwapId("m.id")
	m := &SwapInRequestMessage{ProtocolVersion: 7, SwapId: id, Asset: vLiquidAsset, Scid: "1x2x3", Amount: zzverif.U64("m.amount"), Pubkey: zzverif.HexStr("m.pubkey", 33), PremiumLimit: zzverif.I64("m.limit")}
	svc.OnMessageReceived(vPeer, vHexType(messages.MESSAGETYPE_SWAPINREQUEST), vMarshal(m))
	w := env.w
	for i := range w.sends {
		s := w.sends[i]
		if s.msgType == int(messages.MESSAGETYPE_SWAPINAGREEMENT) {
			zzverif.Reach("c13.agreement_sent")
			zzverif.AssertNoFlow("C23.agreement_reveals_only_the_pubkey", s.payload, "rand.GetPreimage", "newprivkey", "privkey")
			zzverif.Assert(s.recExists && s.recAnchorSet, "C13.anchor_stored_before_agreement")
			if sm, err := svc.GetActiveSwap(id.String()); err == nil {
				zzverif.Assert(sm.Data.StartingBlockHeightSet && sm.Data.StartingBlockHeight == s.recAnchor, "C13.agreement_anchor_is_final_anchor")
			}
		}
	}
}

// H_C13_recoverBeforeAnchor: a crash before the anchor was stored leaves a record (state CreateSwap /
// SendRequest without anchor) from which recovery does not send the pubkey.
func H_C13_recoverBeforeAnchor() {
	role := rOutSender
	st := State_SwapOutSender_CreateSwap
	if zzverif.Bool("swap_in") {
		role, st = rInReceiver, State_SwapInReceiver_CreateSwap
	} else if zzverif.Bool("send_request") {
		st = State_SwapOutSender_SendRequest
	}
	sc := vBuild(role, st, true, 7)
	sc.env.w.maxFaults = 1
	d := sc.sm.Data
	d.StartingBlockHeightSet, d.StartingBlockHeight = false, 0
	sc.env.store.recs[sc.id] = vSnapshot(sc.sm)
	sc.vApply(stRestart)
	for i := range sc.env.w.sends {
		s := sc.env.w.sends[i]
		zzverif.Assert(s.msgType != int(messages.MESSAGETYPE_SWAPOUTREQUEST) && s.msgType != int(messages.MESSAGETYPE_SWAPINAGREEMENT), "C13.no_pubkey_after_crash_without_anchor")
	}
	zzverif.Assert(len(sc.env.w.pays) == 0, "C13.no_payment_without_anchor")
}
