//go:build verif

package swap

import "github.com/elementsproject/peerswap/zzverif"

// vVersion67 draws a protocol version restricted to the two versions getTimelockPolicy accepts
// (other versions are rejected; H_C04_legacyPolicy covers that).
func vVersion67() uint8 {
	v := zzverif.U8("version")
	zzverif.Assume(v == 6 || v == 7)
	return v
}

// H_C04_awaitTxConfirmation: a Liquid taker registers the confirmation watch (the only way to the
// paying state) only for protocol 7, inside the anchored window, for an invoice with 0<=cltv<=29 and
// the exact amount; protocol 6 never registers a watch and only re-reads an existing payment.
func H_C04_awaitTxConfirmation() {
	env := newEnv(true, true)
	v := vVersion67()
	s := vTakerSwap(zzverif.Bool("swap_in"), true, v)
	anchor, set, hex0 := s.StartingBlockHeight, s.StartingBlockHeightSet, s.OpeningTxHex
	ev := (&AwaitTxConfirmationAction{}).Execute(env.services, s)
	w := env.w
	zzverif.Assert(len(w.pays) == 0 && len(w.feePays) == 0, "C04.await_never_pays")
	zzverif.Assert(s.StartingBlockHeight == anchor && s.StartingBlockHeightSet == set, "C04.await_keeps_anchor")
	if len(w.watches) > 0 {
		zzverif.Reach("await.watch_registered")
		inv := w.invoices[s.OpeningTxBroadcasted.Payreq]
		zzverif.Assert(v == 7 && ev == NoOp && len(w.watches) == 1, "C04.watch_only_v7")
		zzverif.Assert(inv != nil && !inv.err && inv.cltv >= 0 && inv.cltv <= 29 && inv.msat == s.GetClaimAmount()*1000, "C04.watch_invoice_bounds")
		zzverif.Assert(set && w.heightSeen && w.lastHeight >= anchor && uint64(w.lastHeight) < uint64(anchor)+60, "C04.watch_inside_window")
		wt := w.watches[0]
		zzverif.Assert(wt.kind == "conf" && wt.start == anchor && wt.param == 60 && wt.txID == s.OpeningTxBroadcasted.TxId && wt.vout == s.OpeningTxBroadcasted.ScriptOut, "C04.watch_args")
	}
	if v == 6 {
		zzverif.Assert(len(w.watches) == 0, "C04.legacy_no_watch")
		zzverif.Assert(len(w.recovers) == 0 || hex0 != "", "C04.legacy_recover_needs_confirmed_tx")
		zzverif.Assert(ev == Event_ActionFailed || (ev == Event_OnTxConfirmed && hex0 != "" && len(w.recovers) == 1), "C04.legacy_events")
	} else {
		zzverif.Assert(len(w.recovers) == 0, "C04.v7_no_recover_in_await")
		zzverif.Assert(ev == NoOp || ev == Event_ActionFailed, "C04.v7_events")
	}
}

// H_C04_payClaim: every claim payment attempt of a Liquid taker (first try and retries) is made for
// protocol 7 only, with the anchor set, while anchor <= tip < anchor+60 for the tip read immediately
// before the attempt, and with the total-CLTV limit 32.  Bound: 3 attempts per action run.
func H_C04_payClaim() {
	env := newEnv(true, true)
	v := vVersion67()
	s := vTakerSwap(zzverif.Bool("swap_in"), true, v)
	anchor, set := s.StartingBlockHeight, s.StartingBlockHeightSet
	pre0 := s.ClaimPreimage
	zzverif.Unwind(12)
	ev := (&ValidateTxAndPayClaimInvoiceAction{}).Execute(env.services, s)
	w := env.w
	for i := range w.pays {
		p := w.pays[i]
		zzverif.Reach("pay.attempt")
		zzverif.Assert(v == 7, "C04.pay_only_v7")
		zzverif.Assert(set && p.heightN == i+1 && p.height >= anchor && uint64(p.height) < uint64(anchor)+60, "C04.pay_inside_window")
		zzverif.Assert(p.limit == 32, "C04.pay_limit_32")
		zzverif.Assert(p.payreq == s.OpeningTxBroadcasted.Payreq && p.scid == s.GetScid(), "C04.pay_args")
	}
	zzverif.Assert(s.StartingBlockHeight == anchor && s.StartingBlockHeightSet == set, "C04.pay_keeps_anchor")
	if v == 6 {
		zzverif.Assert(len(w.pays) == 0, "C04.legacy_never_pays")
		zzverif.Assert(len(w.recovers) == 0 || (w.validated && pre0 == ""), "C04.legacy_recover_after_validation")
	}
	if ev == Event_ActionSucceeded {
		zzverif.Assert(w.validated, "C04.success_needs_validation")
	}
}

// H_C04_setStartingBlockHeight: for Liquid v7 the action never changes the anchor and fails closed
// outside the window.
func H_C04_setStartingBlockHeight() {
	env := newEnv(true, true)
	s := vTakerSwap(zzverif.Bool("swap_in"), true, 7)
	anchor, set := s.StartingBlockHeight, s.StartingBlockHeightSet
	ev := (&SetStartingBlockHeightAction{}).Execute(env.services, s)
	zzverif.Assert(s.StartingBlockHeight == anchor && s.StartingBlockHeightSet == set, "C04.setheight_keeps_anchor")
	zzverif.Assert(ev != NoOp || (set && env.w.lastHeight >= anchor && uint64(env.w.lastHeight) < uint64(anchor)+60), "C04.setheight_window")
	zzverif.Assert(ev == NoOp || ev == Event_ActionFailed, "C04.setheight_events")
}
