//go:build verif

package swap

import (
	"github.com/elementsproject/peerswap/messages"
	"github.com/elementsproject/peerswap/zzverif"
)

// vFingerprint collects the fields of a swap that a foreign message must not change.
type vFingerprint struct {
	current, previous                       StateType
	peer, cancelMsg, openingHex, preimage   string
	inReq, inAgr, outReq, outAgr, otb, coop interface{}
	cancel                                  *CancelMessage
	anchor                                  uint32
	anchorSet                               bool
	privkey                                 string
}

func vFinger(sm *SwapStateMachine) vFingerprint {
	d := sm.Data
	return vFingerprint{current: sm.Current, previous: sm.Previous, peer: d.PeerNodeId, cancelMsg: d.CancelMessage, openingHex: d.OpeningTxHex,
		preimage: d.ClaimPreimage, inReq: d.SwapInRequest, inAgr: d.SwapInAgreement, outReq: d.SwapOutRequest, outAgr: d.SwapOutAgreement,
		otb: d.OpeningTxBroadcasted, coop: d.CoopClose, cancel: d.Cancel, anchor: d.StartingBlockHeight, anchorSet: d.StartingBlockHeightSet,
		privkey: string(d.PrivkeyBytes)}
}

// vC09Scenario: an existing swap of an arbitrary role in a resting state.
func vC09Scenario() (*vScenario, StateType) {
	role := zzverif.Choice("role", 4)
	var st StateType
	switch role {
	case rOutSender:
		st = []StateType{State_SwapOutSender_AwaitAgreement, State_SwapOutSender_AwaitTxBroadcastedMessage, State_SwapOutSender_AwaitTxConfirmation}[zzverif.Choice("state", 3)]
	case rOutReceiver:
		st = []StateType{State_SwapOutReceiver_AwaitFeeInvoicePayment, State_SwapOutReceiver_AwaitClaimInvoicePayment, State_WaitCsv}[zzverif.Choice("state", 3)]
	case rInSender:
		st = []StateType{State_SwapInSender_AwaitAgreement, State_SwapInSender_AwaitClaimPayment, State_WaitCsv}[zzverif.Choice("state", 3)]
	default:
		st = []StateType{State_SwapInReceiver_AwaitTxBroadcastedMessage, State_SwapInReceiver_AwaitTxConfirmation}[zzverif.Choice("state", 2)]
	}
	sc := vBuild(role, st, zzverif.Bool("liquid"), 7)
	sc.env.w.maxFaults = 1
	sc.env.w.maxPayAttempts = 1
	sc.env.w.narrow = sc.sm.Data
	return sc, st
}

// H_C09_foreignSender: a non-request message carrying the swap's id but coming from a peer that is not
// the swap's counterparty changes nothing: no field of the swap, no store write, no message sent, no
// payment, no watcher, and the active map still holds the same object.
func H_C09_foreignSender() {
	sc, _ := vC09Scenario()
	sender := zzverif.Str("sender")
	zzverif.Assume(sender != sc.sm.Data.PeerNodeId)
	fp := vFinger(sc.sm)
	kind := zzverif.Choice("kind", 4) // agreement, opening_tx_broadcasted, cancel, coop_close
	err := sc.vSendMsg(kind, sender)
	w := sc.env.w
	zzverif.Assert(err != nil, "C09.foreign_sender_rejected")
	zzverif.Assert(vFinger(sc.sm) == fp, "C09.foreign_sender_changes_no_field")
	zzverif.Assert(w.persists == 0 && len(w.sends) == 0 && len(w.pays) == 0 && len(w.feePays) == 0 && len(w.watches) == 0 && w.openings == 0 && len(w.spends) == 0, "C09.foreign_sender_no_effects")
	cur, aerr := sc.svc.GetActiveSwap(sc.id)
	zzverif.Assert(aerr == nil && cur == sc.sm, "C09.foreign_sender_active_swap_kept")
}

// H_C09_unknownId: a non-request message for an id the node does not know is ignored.
func H_C09_unknownId() {
	sc, _ := vC09Scenario()
	fp := vFinger(sc.sm)
	other := vSwapId("otherid")
	zzverif.Assume(other.String() != sc.id)
	real := sc.sm.SwapId
	sc.sm.SwapId = other // vSendMsg takes the id from here
	kind := zzverif.Choice("kind", 4)
	err := sc.vSendMsg(kind, zzverif.Str("sender"))
	sc.sm.SwapId = real
	w := sc.env.w
	zzverif.Assert(err != nil, "C09.unknown_id_rejected")
	zzverif.Assert(vFinger(sc.sm) == fp, "C09.unknown_id_changes_no_field")
	zzverif.Assert(w.persists == 0 && len(w.sends) == 0 && len(w.pays) == 0 && len(w.watches) == 0, "C09.unknown_id_no_effects")
}

// H_C09_requestReusesActiveId: a swap request (from anyone) that reuses the id of an active swap is
// refused: the active entry stays the same object, its record and fields are untouched, the requester
// gets a cancel.  The requested channel differs from the existing swap's channel (the same-channel case
// is C10's).  Policy answers are chosen so that the request is otherwise acceptable.
func H_C09_requestReusesActiveId() {
	sc, _ := vC09Scenario()
	fp := vFinger(sc.sm)
	recBefore := sc.env.store.recs[sc.id]
	sender := zzverif.Str("sender")
	sc.vSendMsg(stMsgRequest, sender)
	w := sc.env.w
	cur, aerr := sc.svc.GetActiveSwap(sc.id)
	zzverif.Assert(aerr == nil && cur == sc.sm, "C09.reused_id_active_entry_kept")
	zzverif.Assert(vFinger(sc.sm) == fp, "C09.reused_id_changes_no_field")
	rec := sc.env.store.recs[sc.id]
	zzverif.Assert(rec == recBefore, "C09.reused_id_record_untouched")
	nCancel, nOther := 0, 0
	for i := range w.sends {
		if w.sends[i].msgType == int(messages.MESSAGETYPE_CANCELED) && w.sends[i].peer == sender {
			nCancel++
		} else {
			nOther++
		}
	}
	zzverif.Assert(nOther == 0, "C09.reused_id_no_agreement")
}

// H_C09_requestReusesStoredId: the id of a finished (or not yet restored) swap that only exists in
// the store is not accepted for a new swap either.
// zzverif:also C15
func H_C09_requestReusesStoredId() {
	sc, _ := vC09Scenario()
	// the swap is known to the store only (finished earlier, or the process restarted and has not
	// restored it yet)
	delete(sc.svc.activeSwaps, sc.id)
	// "finished" includes every terminal state: the stored record may say cancelled or claimed
	if k := zzverif.Choice("stored.terminal", 5); k > 0 {
		fin := []StateType{State_SwapCanceled, State_ClaimedPreimage, State_ClaimedCoop, State_ClaimedCsv}[k-1]
		sc.env.store.recs[sc.id].Current = fin
		sc.env.store.recs[sc.id].Data.FSMState = fin
	}
	recBefore := sc.env.store.recs[sc.id]
	stateBefore := recBefore.Current
	sender := zzverif.Str("sender")
	sc.vSendMsg(stMsgRequest, sender)
	rec := sc.env.store.recs[sc.id]
	zzverif.Assert(rec == recBefore && rec.Current == stateBefore, "C09.stored_id_record_untouched")
	_, aerr := sc.svc.GetActiveSwap(sc.id)
	zzverif.Assert(aerr != nil, "C09.stored_id_not_reactivated")
	// C15's view: a swap the node finished (cancelled on recovery, claimed) is never started again by a
	// re-sent request - nothing is paid or broadcast for it a second time
	zzverif.Assert(aerr != nil && len(sc.env.w.pays) == 0 && len(sc.env.w.feePays) == 0 && sc.env.w.openings == 0, "C15.finished_swap_is_not_started_again_by_a_request")
}

// H_C09_acceptedEventsAreListed: a message from the counterparty changes the swap only if the state
// table lists its event for the current state: otherwise state and data are unchanged.
func H_C09_acceptedEventsAreListed() {
	sc, st := vC09Scenario()
	fp := vFinger(sc.sm)
	kind := zzverif.Choice("kind", 4)
	var ev EventType
	switch kind {
	case stMsgAgreement:
		if sc.role == rOutSender || sc.role == rOutReceiver {
			ev = Event_OnFeeInvoiceReceived
		} else {
			ev = Event_SwapInSender_OnAgreementReceived
		}
	case stMsgOpeningTx:
		ev = Event_OnTxOpenedMessage
	case stMsgCancel:
		ev = Event_OnCancelReceived
	default:
		ev = Event_OnCoopCloseReceived
	}
	_, listed := sc.sm.States[st].Events[ev]
	// (whether or not the message content is well-formed, and whether or not the state lists
	// Event_OnInvalid_Message: a message type the state does not accept is rejected before its content is
	// looked at)
	sc.vSendMsg(kind, sc.sm.Data.PeerNodeId)
	if !listed {
		zzverif.Reach("c09.unlisted_event")
		zzverif.Assert(sc.sm.Current == st, "C09.unlisted_event_keeps_state")
		zzverif.Assert(vFinger(sc.sm) == fp, "C09.unlisted_event_changes_no_field")
	}
}

// H_C09_thirdPartyMessageDoesNotShadowCounterparty: a third party that sends a message with the id of
// somebody else's swap is refused - and leaves nothing behind that changes how the counterparty's own next
// message of the same type is treated: the counterparty's cancel is still handled (the swap leaves its
// state).  Bounds: states that accept a cancel, the forged message is of the same type as the genuine one
// that follows it (a cancel with arbitrary text).
func H_C09_thirdPartyMessageDoesNotShadowCounterparty() {
	sc, st := vC09Scenario()
	if _, listed := sc.sm.States[st].Events[Event_OnCancelReceived]; !listed {
		return
	}
	sc.env.w.maxFaults = 0 // (a failing store stops every handler alike: not this entry's subject)
	fp := vFinger(sc.sm)
	third := zzverif.Str("third.party")
	zzverif.Assume(third != sc.sm.Data.PeerNodeId)
	forged := vMarshal(&CancelMessage{SwapId: sc.sm.SwapId, Message: zzverif.Str("forged.text")})
	sc.svc.OnMessageReceived(third, vHexType(messages.MESSAGETYPE_CANCELED), forged)
	zzverif.Assert(sc.sm.Current == st && vFinger(sc.sm) == fp, "C09.third_party_cancel_changes_nothing")
	genuine := vMarshal(&CancelMessage{SwapId: sc.sm.SwapId, Message: zzverif.Str("genuine.text")})
	sc.svc.OnMessageReceived(sc.sm.Data.PeerNodeId, vHexType(messages.MESSAGETYPE_CANCELED), genuine)
	zzverif.Reach("c09.genuine_cancel_after_forged_one")
	zzverif.Assert(sc.sm.Current != st, "C09.counterparty_message_still_handled_after_forged_one")
}

// H_C09_requestReusingUnreadableRecordIsRefused: "ids of swaps the node already knows" includes records the
// running build cannot decode (written by another version, damaged): over the REAL store (bbolt map model,
// see c29_store.go) a request reusing the id of such a record is refused, the stored bytes stay as they
// are and nothing becomes active under the id.  The record's bytes are arbitrary non-JSON or JSON null
// (decoder model with JSONArbitrary(false)).
func H_C09_requestReusingUnreadableRecordIsRefused() {
	env := newEnv(true, true)
	env.w.maxFaults = 0
	env.policy.newSwaps, env.policy.allowed, env.policy.suspicious, env.policy.minMsat = true, true, false, 0
	st := vRealSwapStore()
	env.services.swapStore = st
	svc := NewSwapService(env.services)
	zzverif.JSONArbitrary(false)
	raw := zzverif.Bytes("stored.bytes", -1)
	vStorePutRaw(st, 1, raw)
	id := &SwapId{}
	id.FromString(vStoreKeys[1])
	sender := zzverif.Str("sender")
	var err error
	if zzverif.Bool("m.swapin") {
		m := &SwapInRequestMessage{ProtocolVersion: 7, SwapId: id, Network: vBtcNetwork, Scid: "7x7x7", Amount: zzverif.U64("m.amount"), Pubkey: zzverif.HexStr("m.pubkey", 33), PremiumLimit: zzverif.I64("m.limit")}
		err = svc.OnMessageReceived(sender, vHexType(messages.MESSAGETYPE_SWAPINREQUEST), vMarshal(m))
	} else {
		m := &SwapOutRequestMessage{ProtocolVersion: 7, SwapId: id, Network: vBtcNetwork, Scid: "7x7x7", Amount: zzverif.U64("m.amount"), Pubkey: zzverif.HexStr("m.pubkey", 33), PremiumLimit: zzverif.I64("m.limit")}
		err = svc.OnMessageReceived(sender, vHexType(messages.MESSAGETYPE_SWAPOUTREQUEST), vMarshal(m))
	}
	zzverif.Assert(err != nil, "C09.request_reusing_unreadable_record_refused")
	now, present := vStoreGetRaw(st, 1)
	zzverif.Assert(present && string(now) == string(raw), "C09.unreadable_record_untouched")
	_, aerr := svc.GetActiveSwap(id.String())
	zzverif.Assert(aerr != nil && vNoEffects(env.w), "C09.unreadable_record_id_not_activated")
}
