//go:build verif

package swap

import (
	"math"

	vpremium "github.com/elementsproject/peerswap/premium"
	"github.com/elementsproject/peerswap/zzverif"
)

// vReached is an Action that records that the wrapped action passed control on.
type vReached struct{ hit *bool }

func (a *vReached) Execute(services *SwapServices, swap *SwapData) EventType {
	*a.hit = true
	return Event_ActionSucceeded
}

// Input domain of C12 (stated in the property): amounts up to 2^63 msat.
const vMaxAmountSat = (uint64(1) << 63) / 1000

// H_C12_checkPremium: the initiator continues past the agreement only if premium <= its limit.
func H_C12_checkPremium() {
	vExactPremium = true
	env := newEnv(true, true)
	swapIn := zzverif.Bool("swap_in")
	var s *SwapData
	if swapIn {
		s = vMakerSwap(true, zzverif.Bool("liquid"), 7, false) // swap-in initiator = maker
	} else {
		s = vTakerSwap(false, zzverif.Bool("liquid"), 7) // swap-out initiator = taker
	}
	hit := false
	ev := (&CheckPremiumAmount{next: &vReached{hit: &hit}}).Execute(env.services, s)
	zzverif.Assert(!hit || s.GetPremium() <= vLimit(s), "C12.premium_within_limit")
	zzverif.Assert(hit || ev == Event_ActionFailed, "C12.premium_reject_fails")
	// not required by the property, guards against a check that rejects everything: an in-range
	// premium within the limit is accepted
	amount, premium := s.GetAmount(), s.GetPremium()
	inRange := amount <= math.MaxUint64/1000 && ((premium >= 0 && uint64(premium) <= math.MaxUint64/1000-amount) ||
		(premium < 0 && premium != math.MinInt64 && uint64(-premium) <= amount))
	zzverif.Assert(hit || !(premium <= vLimit(s) && inRange), "C12.premium_accepts_in_range")
}

func vLimit(s *SwapData) int64 {
	if s.SwapInRequest != nil {
		return s.SwapInRequest.PremiumLimit
	}
	return s.SwapOutRequest.PremiumLimit
}

// H_C12_payFeeInvoice: the fee invoice is paid only if fee <= 3 x own estimate and the channel can
// carry amount + fee, both as mathematical integers.  Bounds: amount <= 2^63 msat, estimate < 2^32 sat (quick) / 2^51 sat
// (thorough).
func H_C12_payFeeInvoice() {
	vExactPremium = true
	env := newEnv(true, true)
	s := vTakerSwap(false, zzverif.Bool("liquid"), 7)
	zzverif.Assume(s.SwapOutRequest.Amount <= vMaxAmountSat)
	w := env.w
	w.maxFlatFee = uint64(1) << 32 // quick tier: float64 reasoning over 51 bits takes minutes
	if zzverif.Thorough() {
		w.maxFlatFee = uint64(1) << 51
	}
	ev := (&PayFeeInvoiceAction{}).Execute(env.services, s)
	if len(w.feePays) > 0 {
		zzverif.Reach("fee.paid")
		inv := w.invoices[s.SwapOutAgreement.Payreq]
		zzverif.Assert(len(w.feePays) == 1 && inv != nil && !inv.err, "C12.fee_single_payment")
		est := w.lastFlatFee

		feeSat := inv.msat / 1000
		zzverif.Assert(feeSat <= est*3, "C12.fee_at_most_3x_estimate")
		// spendable >= amount*1000 + feeMsat without wrap
		amtMsat := s.SwapOutRequest.Amount * 1000
		zzverif.Assert(inv.msat <= math.MaxUint64-amtMsat, "C12.fee_required_balance_no_wrap")
		zzverif.Assert(w.feePays[0].payreq == s.SwapOutAgreement.Payreq && w.feePays[0].scid == s.SwapOutRequest.Scid, "C12.fee_pay_args")
		zzverif.Assert(len(w.probes) == 1 && w.probes[0] == amtMsat+inv.msat, "C12.fee_probe_amount")
	}
	zzverif.Assert(ev != Event_ActionSucceeded || len(w.feePays) == 1, "C12.fee_success_means_paid")
}

// H_C12_claimInvoiceAmount: a taker accepts (registers the confirmation watch for) a claim invoice only
// if its amount is exactly (amount + premium) * 1000 msat as mathematical integers, premium <= limit.
// Pre-state: premium <= limit (established by H_C12_checkPremium for the initiator; the responder
// computed the premium itself).  Bounds: amount <= 2^63 msat.
func H_C12_claimInvoiceAmount() {
	vExactPremium = true
	env := newEnv(true, true)
	swapIn := zzverif.Bool("swap_in")
	liquid := zzverif.Bool("liquid")
	s := vTakerSwap(swapIn, liquid, 7)
	amount, premium := s.GetAmount(), s.GetPremium()
	zzverif.Assume(amount <= vMaxAmountSat)
	if !swapIn {
		// the initiator reaches this state only through the real premium check
		hit := false
		(&CheckPremiumAmount{next: &vReached{hit: &hit}}).Execute(env.services, s)
		zzverif.Assume(hit)
	}
	(&AwaitTxConfirmationAction{}).Execute(env.services, s)
	w := env.w
	if len(w.watches) > 0 {
		zzverif.Reach("claim.accepted")
		inv := w.invoices[s.OpeningTxBroadcasted.Payreq]
		if swapIn {
			// swap-in responder pays exactly the requested amount over Lightning
			zzverif.Assert(inv.msat == amount*1000, "C12.swapin_invoice_is_amount")
		} else {
			// swap-out initiator pays amount + premium: no wrap in int64/uint64 conversions
			sumOK := premium >= 0 || uint64(-premium) <= amount
			zzverif.Assert(sumOK, "C12.swapout_claim_amount_nonnegative")
			if sumOK {
				var sum uint64
				if premium >= 0 {
					sum = amount + uint64(premium)
				} else {
					sum = amount - uint64(-premium)
				}
				zzverif.Assert(sum <= math.MaxUint64/1000 && inv.msat == sum*1000, "C12.swapout_invoice_is_amount_plus_premium")
			}
		}
	}
}

// H_C12_openingAmount: the maker hands the wallet exactly amount + premium (swap-in) / amount
// (swap-out) and asks the Lightning node for an invoice of exactly the claim amount.
func H_C12_openingAmount() {
	vExactPremium = true
	env := newEnv(true, true)
	swapIn := zzverif.Bool("swap_in")
	s := vMakerSwap(swapIn, zzverif.Bool("liquid"), 7, false)
	amount, premium := s.GetAmount(), s.GetPremium()
	zzverif.Assume(amount <= vMaxAmountSat)
	// the real action of the broadcasting state, as wired in the state table
	if swapIn {
		getSwapInSenderStates()[State_SwapInSender_BroadcastOpeningTx].Action.Execute(env.services, s)
	} else {
		getSwapOutReceiverStates()[State_SwapOutReceiver_BroadcastOpeningTx].Action.Execute(env.services, s)
	}
	w := env.w
	if len(w.openingParams) > 0 {
		zzverif.Reach("opening.created")
		p := w.openingParams[0]
		if swapIn {
			sumOK := premium >= 0 || uint64(-premium) <= amount
			zzverif.Assert(sumOK, "C12.swapin_opening_amount_nonnegative")
			if sumOK {
				var sum uint64
				if premium >= 0 {
					sum = amount + uint64(premium)
				} else {
					sum = amount - uint64(-premium)
				}
				zzverif.Assert(p.Amount == sum, "C12.swapin_locks_amount_plus_premium")
			}
			zzverif.Assert(w.lastInvoiceMsat == amount*1000, "C12.swapin_requests_amount_over_lightning")
		} else {
			zzverif.Assert(p.Amount == amount, "C12.swapout_locks_amount")
		}
		zzverif.Assert(w.invoicesMade == 1 && w.lastInvoiceType == INVOICE_CLAIM, "C12.one_claim_invoice")
	}
}

// H_C12_responderPremium: the premium a responder puts into its agreement (swap-in) or charges in the claim
// amount (swap-out) is PPM.Compute(amount) of the rate configured for this peer, this swap's asset and this
// direction (peer rate if set, else the stored default, else the built-in default); the four stored rates
// per scope are drawn independently, so a lookup with another asset or direction shows.
// zzverif:also C27
func H_C12_responderPremium() {
	vUFPremium = true // "charges the configured rate" is an identity of Compute applications
	env := newEnv(true, true)
	swapIn := zzverif.Bool("swap_in")
	liquid := zzverif.Bool("liquid")
	asset, network := vChainFields(liquid)
	id := vSwapId("swapid")
	s := &SwapData{PeerNodeId: vPeer, PrivkeyBytes: zzverif.Bytes("privkey", 32), BlindingKeyHex: zzverif.HexStr("blindingkey", 32)}
	amount := zzverif.U64("amount")
	zzverif.Assume(amount <= vMaxAmountSat)
	var ev EventType
	if swapIn {
		s.SwapInRequest = &SwapInRequestMessage{ProtocolVersion: 7, SwapId: id, Asset: asset, Network: network, Scid: zzverif.Str("scid"), Amount: amount, Pubkey: zzverif.Str("maker.pubkey"), PremiumLimit: zzverif.I64("premiumlimit")}
		ev = (&SwapInReceiverInitAction{}).Execute(env.services, s)
	} else {
		s.SwapOutRequest = &SwapOutRequestMessage{ProtocolVersion: 7, SwapId: id, Asset: asset, Network: network, Scid: zzverif.Str("scid"), Amount: amount, Pubkey: zzverif.Str("taker.pubkey"), PremiumLimit: zzverif.I64("premiumlimit")}
		ev = (&CreateSwapOutFromRequestAction{}).Execute(env.services, s)
	}
	if ev == Event_ActionSucceeded {
		zzverif.Reach("responder.agreed")
		r := env.w.rates
		op := vpremium.SwapOut
		if swapIn {
			op = vpremium.SwapIn
		}
		as := vpremium.BTC
		if liquid {
			as = vpremium.LBTC
		}
		var ppm int64
		switch {
		case r.peerSet:
			ppm = r.peer(as, op)
		case r.defSet:
			ppm = r.def(as, op)
		case swapIn:
			ppm = 0 // built-in defaults: swap-in 0 ppm on both chains
		case liquid:
			ppm = 1000
		default:
			ppm = 2000
		}
		// the premium of that rate is premium.PPM.Compute (its arithmetic: C27, H_C27_ppmCompute*)
		want := vpremium.NewPPM(ppm).Compute(amount)
		zzverif.Assert(s.GetPremium() == want, "C12.responder_charges_configured_rate")
		// C27's view: the rate looked up is the one of this peer, this swap's asset and this direction
		zzverif.Assert(s.GetPremium() == want, "C27.swap_charges_the_rate_of_peer_asset_and_direction")
	}
}
