//go:build verif

package swap

import "github.com/elementsproject/peerswap/zzverif"

func vSwapId(name string) *SwapId {
	id := new(SwapId)
	copy(id[:], zzverif.Bytes(name, 32))
	return id
}

// vChainFields returns (asset, network) for the chain; version is symbolic.
func vChainFields(liquid bool) (string, string) {
	if liquid {
		return vLiquidAsset, ""
	}
	return "", vBtcNetwork
}

// vTakerSwap builds taker swap data (swap-out sender or swap-in receiver) after the opening
// transaction was announced: requests/agreements present, every scalar symbolic.
func vTakerSwap(swapIn, liquid bool, version uint8) *SwapData {
	asset, network := vChainFields(liquid)
	id := vSwapId("swapid")
	s := &SwapData{
		PeerNodeId:             vPeer,
		InitiatorNodeId:        vPeer,
		PrivkeyBytes:           zzverif.Bytes("privkey", 32),
		OpeningTxHex:           zzverif.Str("openingtxhex"),
		StartingBlockHeight:    zzverif.U32("anchor"),
		StartingBlockHeightSet: zzverif.Bool("anchor_set"),
		ClaimPreimage:          zzverif.Str("claimpreimage"),
		ClaimPaymentHash:       zzverif.HexStr("claimpaymenthash", 32),
		BlindingKeyHex:         zzverif.HexStr("blindingkeyhex", 32),
		OpeningTxBroadcasted: &OpeningTxBroadcastedMessage{SwapId: id, Payreq: zzverif.Str("otb.payreq"), TxId: zzverif.Str("otb.txid"),
			ScriptOut: zzverif.U32("otb.vout"), BlindingKey: zzverif.HexStr("otb.blindingkey", 32)},
	}
	if swapIn {
		s.Role = SWAPROLE_RECEIVER
		s.SwapInRequest = &SwapInRequestMessage{ProtocolVersion: version, SwapId: id, Asset: asset, Network: network,
			Scid: zzverif.Str("scid"), Amount: zzverif.U64("amount"), Pubkey: zzverif.HexStr("maker.pubkey", 33), PremiumLimit: zzverif.I64("premiumlimit")}
		s.SwapInAgreement = &SwapInAgreementMessage{ProtocolVersion: version, SwapId: id, Pubkey: zzverif.HexStr("taker.pubkey", 33), Premium: zzverif.I64("premium")}
	} else {
		s.Role = SWAPROLE_SENDER
		s.InitiatorNodeId = vSelfNode // a swap-out taker asked for the swap itself
		s.SwapOutRequest = &SwapOutRequestMessage{ProtocolVersion: version, SwapId: id, Asset: asset, Network: network,
			Scid: zzverif.Str("scid"), Amount: zzverif.U64("amount"), Pubkey: zzverif.HexStr("taker.pubkey", 33), PremiumLimit: zzverif.I64("premiumlimit")}
		s.SwapOutAgreement = &SwapOutAgreementMessage{ProtocolVersion: version, SwapId: id, Pubkey: zzverif.HexStr("maker.pubkey", 33),
			Payreq: zzverif.Str("feeinvoice"), Premium: zzverif.I64("premium")}
	}
	return s
}

// vMakerSwap builds maker swap data (swap-in sender or swap-out receiver) once both sides agreed.
func vMakerSwap(swapIn, liquid bool, version uint8, broadcasted bool) *SwapData {
	asset, network := vChainFields(liquid)
	id := vSwapId("swapid")
	s := &SwapData{
		PeerNodeId:             vPeer,
		InitiatorNodeId:        vPeer,
		PrivkeyBytes:           zzverif.Bytes("privkey", 32),
		StartingBlockHeight:    zzverif.U32("anchor"),
		StartingBlockHeightSet: zzverif.Bool("anchor_set"),
		BlindingKeyHex:         zzverif.HexStr("blindingkey", 32),
	}
	if swapIn {
		s.Role = SWAPROLE_SENDER
		s.InitiatorNodeId = vSelfNode // a swap-in maker asked for the swap itself
		s.SwapInRequest = &SwapInRequestMessage{ProtocolVersion: version, SwapId: id, Asset: asset, Network: network,
			Scid: zzverif.Str("scid"), Amount: zzverif.U64("amount"), Pubkey: zzverif.HexStr("maker.pubkey", 33), PremiumLimit: zzverif.I64("premiumlimit")}
		s.SwapInAgreement = &SwapInAgreementMessage{ProtocolVersion: version, SwapId: id, Pubkey: zzverif.HexStr("taker.pubkey", 33), Premium: zzverif.I64("premium")}
	} else {
		s.Role = SWAPROLE_RECEIVER
		s.SwapOutRequest = &SwapOutRequestMessage{ProtocolVersion: version, SwapId: id, Asset: asset, Network: network,
			Scid: zzverif.Str("scid"), Amount: zzverif.U64("amount"), Pubkey: zzverif.HexStr("taker.pubkey", 33), PremiumLimit: zzverif.I64("premiumlimit")}
		s.SwapOutAgreement = &SwapOutAgreementMessage{ProtocolVersion: version, SwapId: id, Pubkey: zzverif.HexStr("maker.pubkey", 33),
			Payreq: zzverif.Str("feeinvoice"), Premium: zzverif.I64("premium")}
	}
	if broadcasted {
		s.ClaimPreimage = zzverif.Str("claimpreimage")
		s.OpeningTxHex = zzverif.Str("openingtxhex")
		s.OpeningTxBroadcasted = &OpeningTxBroadcastedMessage{SwapId: id, Payreq: zzverif.Str("otb.payreq"), TxId: zzverif.Str("otb.txid"),
			ScriptOut: zzverif.U32("otb.vout"), BlindingKey: s.BlindingKeyHex}
	}
	return s
}
