//go:build verif

package swap

import (
	"github.com/elementsproject/peerswap/messages"
	"github.com/elementsproject/peerswap/zzverif"
)

// vOnlySwap returns the single active swap of a service.
func vOnlySwap(svc *SwapService) (string, *SwapStateMachine) {
	for id, sm := range svc.activeSwaps {
		return id, sm
	}
	return "", nil
}

// H_C17_timeoutWhileRequestInFlight: the negotiation timer may fire while the state machine is still
// inside the transition that sends the request / the fee invoice (the send can stall for as long as the
// peer connection does).  The timer goroutine then waits for the swap's lock; once the transition has
// settled in the waiting state the timeout must still take effect: the swap is cancelled and the peer is
// told.  Decided with a second logical goroutine that is parked on the swap mutex and resumed when the
// transition releases it (natively: a real goroutine started inside the messenger stub).
// Bounds: one interleaving point (during a send), no injected faults.
func H_C17_timeoutWhileRequestInFlight() {
	env := newEnv(true, true)
	w := env.w
	w.maxFaults = 0
	env.policy.newSwaps, env.policy.allowed, env.policy.suspicious, env.policy.minMsat = true, true, false, 0
	svc := NewSwapService(env.services)
	w.yieldAt = "send" // the timer is armed by the action before the one that sends
	w.interleave = func() {
		if w.timeouts == 0 {
			return // no timer armed yet: nothing can fire
		}
		if id, _ := vOnlySwap(svc); id != "" {
			svc.createTimeoutCallback(id)()
		}
	}
	var sm *SwapStateMachine
	kind := zzverif.Choice("initiation", 3)
	switch kind {
	case 0:
		sm, _ = svc.SwapOut(vPeer, "btc", "1x2x3", "me", zzverif.U64("amount"), zzverif.I64("limitppm"))
	case 1:
		sm, _ = svc.SwapIn(vPeer, "btc", "1x2x3", "me", zzverif.U64("amount"), zzverif.I64("limitppm"))
	default:
		id := vSwapId("m.id")
		m := &SwapOutRequestMessage{ProtocolVersion: 7, SwapId: id, Network: vBtcNetwork, Scid: "1x2x3", Amount: zzverif.U64("amount"), Pubkey: zzverif.HexStr("m.pubkey", 33), PremiumLimit: zzverif.I64("m.limit")}
		svc.OnMessageReceived(vPeer, vHexType(messages.MESSAGETYPE_SWAPOUTREQUEST), vMarshal(m))
		if rec, ok := env.store.recs[id.String()]; ok {
			sm = rec
		}
		if a, err := svc.GetActiveSwap(id.String()); err == nil {
			sm = a
		}
	}
	zzverif.Assert(zzverif.Blocked() == 0, "C17.timer_goroutine_not_blocked_forever")
	if w.interleaved && sm != nil {
		zzverif.Reach("c17.timer_fired_in_flight")
		cancelSent := false
		for i := range w.sends {
			if w.sends[i].msgType == int(messages.MESSAGETYPE_CANCELED) && w.sends[i].peer == vPeer {
				cancelSent = true
			}
		}
		_, aerr := svc.GetActiveSwap(sm.SwapId.String())
		zzverif.Assert(sm.Current == State_SwapCanceled && aerr != nil, "C17.timeout_in_flight_still_cancels")
		zzverif.Assert(cancelSent, "C17.timeout_in_flight_still_tells_peer")
	}
}
