//go:build verif

package swap

import (
	"github.com/elementsproject/peerswap/messages"
	"github.com/elementsproject/peerswap/zzverif"
)

// vOnlySwap returns the single active swap of a service.
func vOnlySwap(svc *SwapService) (string, *SwapStateMachine) {
	for id, sm := range svc.activeSwaps {
		return id, sm
	}
	return "", nil
}

// H_C17_timeoutWhileRequestInFlight: the negotiation timer may fire while the state machine is still
// inside the transition that sends the request / the fee invoice (the send can stall for as long as the
// peer connection does).  The timer goroutine then waits for the swap's lock; once the transition has
// settled in the waiting state the timeout must still take effect: the swap is cancelled and the peer is
// told.  Decided with a second logical goroutine that is parked on the swap mutex and resumed when the
// transition releases it (natively: a real goroutine started inside the messenger stub).
// Bounds: one interleaving point (during a send), no injected faults.
func H_C17_timeoutWhileRequestInFlight() {
	env := newEnv(true, true)
	w := env.w
	w.maxFaults = 0
	env.policy.newSwaps, env.policy.allowed, env.policy.suspicious, env.policy.minMsat = true, true, false, 0
	svc := NewSwapService(env.services)
	w.yieldAt = "send" // the timer is armed by the action before the one that sends
	w.interleave = func() {
		if w.timeouts == 0 {
			return // no timer armed yet: nothing can fire
		}
		if id, _ := vOnlySwap(svc); id != "" {
			svc.createTimeoutCallback(id)()
		}
	}
	var sm *SwapStateMachine
	kind := zzverif.Choice("initiation", 3)
	switch kind {
	case 0:
		sm, _ = svc.SwapOut(vPeer, "btc", "1x2x3", "me", zzverif.U64("amount"), zzverif.I64("limitppm"))
	case 1:
		sm, _ = svc.SwapIn(vPeer, "btc", "1x2x3", "me", zzverif.U64("amount"), zzverif.I64("limitppm"))
	default:
		id := vSwapId("m.id")
		m := &SwapOutRequestMessage{ProtocolVersion: 7, SwapId: id, Network: vBtcNetwork, Scid: "1x2x3", Amount: zzverif.U64("amount"), Pubkey: zzverif.HexStr("m.pubkey", 33), PremiumLimit: zzverif.I64("m.limit")}
		svc.OnMessageReceived(vPeer, vHexType(messages.MESSAGETYPE_SWAPOUTREQUEST), vMarshal(m))
		if rec, ok := env.store.recs[id.String()]; ok {
			sm = rec
		}
		if a, err := svc.GetActiveSwap(id.String()); err == nil {
			sm = a
		}
	}
	zzverif.Assert(zzverif.Blocked() == 0, "C17.timer_goroutine_not_blocked_forever")
	if w.interleaved && sm != nil {
		zzverif.Reach("c17.timer_fired_in_flight")
		cancelSent := false
		for i := range w.sends {
			if w.sends[i].msgType == int(messages.MESSAGETYPE_CANCELED) && w.sends[i].peer == vPeer {
				cancelSent = true
			}
		}
		_, aerr := svc.GetActiveSwap(sm.SwapId.String())
		zzverif.Assert(sm.Current == State_SwapCanceled && aerr != nil, "C17.timeout_in_flight_still_cancels")
		zzverif.Assert(cancelSent, "C17.timeout_in_flight_still_tells_peer")
	}
}

// vC17Start: a fresh service and one of the three ways a negotiation wait begins (local swap-out, local
// swap-in, reception of a swap-out request).  Returns the swap (nil if the initiation was refused).
func vC17Start() (*vEnv, *SwapService, *SwapStateMachine, int) {
	env := newEnv(true, true)
	w := env.w
	w.maxFaults = 0
	env.policy.newSwaps, env.policy.allowed, env.policy.suspicious, env.policy.minMsat = true, true, false, 0
	svc := NewSwapService(env.services)
	var sm *SwapStateMachine
	role := rOutSender
	switch zzverif.Choice("initiation", 3) {
	case 0:
		sm, _ = svc.SwapOut(vPeer, "btc", "1x2x3", "me", zzverif.U64("amount"), zzverif.I64("limitppm"))
	case 1:
		role = rInSender
		sm, _ = svc.SwapIn(vPeer, "btc", "1x2x3", "me", zzverif.U64("amount"), zzverif.I64("limitppm"))
	default:
		role = rOutReceiver
		id := vSwapId("m.id")
		m := &SwapOutRequestMessage{ProtocolVersion: 7, SwapId: id, Network: vBtcNetwork, Scid: "1x2x3", Amount: zzverif.U64("amount"), Pubkey: zzverif.HexStr("m.pubkey", 33), PremiumLimit: zzverif.I64("m.limit")}
		svc.OnMessageReceived(vPeer, vHexType(messages.MESSAGETYPE_SWAPOUTREQUEST), vMarshal(m))
		if a, err := svc.GetActiveSwap(id.String()); err == nil {
			sm = a
		}
	}
	return env, svc, sm, role
}

func vIsNegotiationWait(st StateType) bool {
	return st == State_SwapOutSender_AwaitAgreement || st == State_SwapInSender_AwaitAgreement || st == State_SwapOutReceiver_AwaitFeeInvoicePayment
}

// H_C17_waitIsOnRecordAndTimerSurvivesRejectedMessages: when a negotiation wait has begun, (a) the stored
// record names the waiting state - a restart then finds a state that fails on recovery and tells the
// peer, instead of silently re-entering the wait without a timer - and (b) a message of the peer that the
// waiting state does not accept changes nothing about the armed timer: it is not stopped, and when it
// fires the swap is cancelled and the peer is told.
// Bounds: one initiation, one message (any of agreement / opening_tx_broadcasted / cancel / coop_close,
// arbitrary content), no injected faults.
func H_C17_waitIsOnRecordAndTimerSurvivesRejectedMessages() {
	env, svc, sm, role := vC17Start()
	w := env.w
	if sm == nil || !vIsNegotiationWait(sm.Current) {
		return
	}
	zzverif.Reach("c17.waiting")
	id := sm.SwapId.String()
	wait := sm.Current
	rec, ok := env.store.recs[id]
	zzverif.Assert(ok && rec.Current == wait, "C17.waiting_state_is_on_record")
	zzverif.Assert(w.timeouts == 1 && w.lastTimeoutCtx != nil, "C17.wait_has_one_timer")
	sc := &vScenario{env: env, svc: svc, sm: sm, role: role, liquid: false, id: id}
	kind := zzverif.Choice("kind", 4)
	var ev EventType
	switch kind {
	case stMsgAgreement:
		if role == rOutSender || role == rOutReceiver {
			ev = Event_OnFeeInvoiceReceived
		} else {
			ev = Event_SwapInSender_OnAgreementReceived
		}
	case stMsgOpeningTx:
		ev = Event_OnTxOpenedMessage
	case stMsgCancel:
		ev = Event_OnCancelReceived
	default:
		ev = Event_OnCoopCloseReceived
	}
	_, listed := sm.States[wait].Events[ev]
	sc.vSendMsg(kind, vPeer)
	if !listed {
		zzverif.Reach("c17.rejected_message")
		zzverif.Assert(sm.Current == wait, "C17.rejected_message_keeps_waiting")
		zzverif.Assert(w.lastTimeoutCtx.Err() == nil, "C17.rejected_message_keeps_timer_armed")
		svc.createTimeoutCallback(id)()
		cancelSent := false
		for i := range w.sends {
			if w.sends[i].msgType == int(messages.MESSAGETYPE_CANCELED) && w.sends[i].peer == vPeer {
				cancelSent = true
			}
		}
		_, aerr := svc.GetActiveSwap(id)
		zzverif.Assert(sm.Current == State_SwapCanceled && aerr != nil && cancelSent, "C17.timeout_after_rejected_message_cancels")
	}
}
