//go:build verif

package swap

import "github.com/elementsproject/peerswap/zzverif"

// vLiquidV7Swap builds swap data of a Liquid protocol-7 swap with symbolic anchor.
func vSwapWithRequest(version uint8, liquid bool, swapIn bool) *SwapData {
	s := &SwapData{
		StartingBlockHeight:    zzverif.U32("anchor"),
		StartingBlockHeightSet: zzverif.Bool("anchor_set"),
	}
	asset, network := "", "mainnet"
	if liquid {
		asset, network = vLiquidAsset, ""
	}
	if swapIn {
		s.SwapInRequest = &SwapInRequestMessage{ProtocolVersion: version, Asset: asset, Network: network}
	} else {
		s.SwapOutRequest = &SwapOutRequestMessage{ProtocolVersion: version, Asset: asset, Network: network}
	}
	return s
}

// H_C04_checkPaymentWindow: the window check accepts exactly anchor <= tip < anchor+60 (64-bit), anchor set.
func H_C04_checkPaymentWindow() {
	s := vSwapWithRequest(7, true, zzverif.Bool("swap_in"))
	tip := zzverif.U32("tip")
	p, err := s.getTimelockPolicy()
	zzverif.Assert(err == nil, "C04.policy_ok")
	zzverif.Assert(p.PaymentWindow == 60 && p.InvoiceFinalCLTV == 29 && p.MaxTotalCLTVDelta == 32 && p.CSV == 10080 && p.AllowNewClaimPayment, "C04.policy_constants")
	werr := checkPaymentWindow(s, tip, p)
	inside := s.StartingBlockHeightSet && tip >= s.StartingBlockHeight &&
		uint64(tip) < uint64(s.StartingBlockHeight)+60
	zzverif.Assert((werr == nil) == inside, "C04.window_exact")
	// arithmetic behind "resolves before refund": CSV + 1 - window >= 10021, route limit <= 32
	zzverif.Assert(uint64(p.CSV)+1-uint64(p.PaymentWindow) >= 10021 && p.MaxTotalCLTVDelta <= 32, "C04.refund_margin")
}

// H_C04_validateClaimInvoice: accepted invoices have 0 <= cltv <= 29 and the exact amount.
func H_C04_validateClaimInvoice() {
	s := vSwapWithRequest(7, true, zzverif.Bool("swap_in"))
	p, _ := s.getTimelockPolicy()
	amt := zzverif.U64("invoice_msat")
	cltv := zzverif.I64("cltv")
	claim := zzverif.U64("claim_sat")
	err := validateClaimInvoice(amt, cltv, claim, p)
	zzverif.Assert(err != nil || (cltv >= 0 && cltv <= 29 && amt == claim*1000), "C04.invoice_bounds")
	zzverif.Assert(err == nil || !(cltv >= 0 && cltv <= 29 && amt == claim*1000), "C04.invoice_complete")
}

// H_C04_totalCLTV: the sender-side limit is inclusive and zero disables it.
func H_C04_totalCLTV() {
	req, lim := zzverif.U32("required"), zzverif.U32("limit")
	err := ValidateTotalCLTVDelta(req, lim)
	zzverif.Assert((err == nil) == (lim == 0 || req <= lim), "C04.total_cltv_exact")
}

// H_C04_legacyPolicy: legacy liquid swaps never allow a new claim payment; unknown versions are rejected.
func H_C04_legacyPolicy() {
	v := zzverif.U8("version")
	s := vSwapWithRequest(v, true, zzverif.Bool("swap_in"))
	p, err := s.getTimelockPolicy()
	if err == nil {
		zzverif.Assert(v == 6 || v == 7, "C04.versions")
		zzverif.Assert(p.AllowNewClaimPayment == (v == 7), "C04.legacy_no_new_payment")
	} else {
		zzverif.Assert(v != 6 && v != 7, "C04.versions_complete")
	}
}
