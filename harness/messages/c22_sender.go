//go:build verif

package messages

import (
	"strings"
	"sync"
	"time"

	"github.com/elementsproject/peerswap/log"
	"github.com/elementsproject/peerswap/zzverif"
)

// ---------------------------------------------------------------------------------------------
// stubs
// ---------------------------------------------------------------------------------------------

// vStoppable is a StoppableMessenger that only counts.
type vStoppable struct{ sends, stops int }

func (s *vStoppable) SendMessage(peerId string, message []byte, messageType int) error {
	s.sends++
	return nil
}
func (s *vStoppable) Stop() { s.stops++ }

// vNet is the underlying Messenger of a RedundantMessenger plus the "other thread" that stops the
// retransmission: while a copy is being handed to the network (call k of SendMessage, k = 1 is the
// synchronous first copy) the environment may call stop() -- from the point of view of the
// retransmission goroutine every interleaving of a concurrent Stop()/RemoveSender() is equivalent
// to one of these, because the goroutine only looks at the stop channel in its select.
//
// Ghost state: sends (all copies), afterStop (copies whose transmission started after stop()
// returned), afterExit (copies started after the goroutine logged that it saw the stop signal).
type vNet struct {
	mu                          sync.Mutex
	stop                        func()         // what the environment calls to stop the retransmission
	tick                        chan time.Time // != nil: explicit ticker model (see H_C22_stopAllowsOneDueCopy)
	maxBefore                   int            // bound: stop() happens at the latest during copy number maxBefore
	maxAfter                    int            // bound (symbolic only): copies explored after stop()
	failFirst                   bool           // the first (synchronous) copy fails
	offline                     bool           // the peer is disconnected when the swap moves on: the copy during which stop() happens fails, and so do the next two
	sends, afterStop, afterExit int
	stopped, sawStop            bool
	stoppedAt                   int
	peers, types                []string
	exited                      chan struct{} // closed when the goroutine logged its exit
}

func (n *vNet) SendMessage(peerId string, message []byte, messageType int) error {
	n.mu.Lock()
	defer n.mu.Unlock()
	n.sends++
	n.peers = append(n.peers, peerId+"|"+string(message))
	if n.sawStop {
		n.afterExit++
	}
	if n.stopped {
		n.afterStop++
		if zzverif.Symbolic() {
			// exploration bound for the untimed ticker model (no draw: the native trace must not
			// depend on the scheduler's choice between two ready channels)
			zzverif.Assume(n.afterStop <= n.maxAfter)
		}
		if n.offline && n.afterStop <= 2 {
			return vErrSend // still disconnected (it reconnects later)
		}
		return nil
	}
	if n.sends == 1 && n.failFirst {
		return vErrSend
	}
	stopNow := zzverif.Bool("stop_during_copy")
	if n.sends >= n.maxBefore {
		zzverif.Assume(stopNow) // bound on the number of copies before the swap moves on
	}
	if stopNow {
		n.stopped, n.stoppedAt = true, n.sends
		n.stop()
		if n.tick != nil && zzverif.Bool("tick_already_due") {
			n.tick <- time.Time{} // a tick that became due before/while this copy went out
		}
		if n.offline && n.sends > 1 {
			return vErrSend // this retransmission did not reach the peer
		}
	} else if n.tick != nil {
		n.tick <- time.Time{} // time passes: the next tick fires
	}
	return nil
}

type vSendError struct{}

func (vSendError) Error() string { return "send failed" }

var vErrSend error = vSendError{}

// vLogger observes the goroutine's exit message (natively through log.SetLogger, symbolically
// through an override of log.Debugf, whose default model is "no effect").
type vLogger struct{ n *vNet }

func (l *vLogger) Infof(format string, v ...any) {}
func (l *vLogger) Debugf(format string, v ...any) {
	if strings.HasPrefix(format, "[RedundantSender] stop sending") {
		l.n.mu.Lock()
		l.n.sawStop = true
		l.n.mu.Unlock()
		close(l.n.exited)
	}
}

var vCurLogger *vLogger

func vDebugf(format string, v ...any) { vCurLogger.Debugf(format, v...) }

func vNewNet(maxBefore, maxAfter int) *vNet {
	n := &vNet{maxBefore: maxBefore, maxAfter: maxAfter, exited: make(chan struct{})}
	vCurLogger = &vLogger{n: n}
	if zzverif.Symbolic() {
		zzverif.Override("github.com/elementsproject/peerswap/log.Debugf", vDebugf)
	} else {
		log.SetLogger(vCurLogger)
	}
	return n
}

// vSettle lets a native run observe what a retransmission goroutine that was NOT stopped (or was
// never started) would do for a few retry intervals; symbolically goroutines run inline, so
// everything they do has already happened.
func vSettle() {
	if !zzverif.Symbolic() {
		time.Sleep(20 * time.Millisecond)
	}
}

const vRetry = time.Millisecond

// ---------------------------------------------------------------------------------------------
// Manager
// ---------------------------------------------------------------------------------------------

// H_C22_managerOnePerId_NoPanic: real Manager.AddSender/RemoveSender over arbitrary id strings.
// AddSender under an id that is registered returns ErrAlreadyHasASender(id) and leaves the
// registered messenger in place, unstopped (<= 1 retransmitter per id); under a different id it
// registers independently; RemoveSender calls Stop exactly once on the registered messenger and
// removes the entry, does not touch other ids, is a no-op when repeated, and the id can be used
// again afterwards; the manager's mutex is released after every call.
// Bounds: two ids, three messengers.
func H_C22_managerOnePerId_NoPanic() {
	m := NewManager()
	a, b, c := &vStoppable{}, &vStoppable{}, &vStoppable{}
	id1, id2 := zzverif.Str("id1"), zzverif.Str("id2")

	err := m.AddSender(id1, a)
	zzverif.Assert(err == nil && len(m.messengers) == 1 && m.messengers[id1] == StoppableMessenger(a), "C22.add_registers")

	err = m.AddSender(id2, b)
	if id2 == id1 {
		zzverif.Assert(err == error(ErrAlreadyHasASender(id1)), "C22.second_add_same_id_fails")
		zzverif.Assert(len(m.messengers) == 1 && m.messengers[id1] == StoppableMessenger(a), "C22.second_add_keeps_first")
	} else {
		zzverif.Assert(err == nil && len(m.messengers) == 2 && m.messengers[id2] == StoppableMessenger(b), "C22.other_id_registers")
	}
	zzverif.Assert(a.stops == 0 && b.stops == 0 && a.sends == 0 && b.sends == 0, "C22.add_never_stops_or_sends")
	zzverif.Assert(zzverif.LocksHeld() == 0, "C22.manager_lock_released")

	m.RemoveSender(id1)
	_, still := m.messengers[id1]
	zzverif.Assert(a.stops == 1 && !still, "C22.remove_stops_and_unregisters")
	zzverif.Assert(b.stops == 0, "C22.remove_leaves_other_ids")
	if id2 != id1 {
		zzverif.Assert(len(m.messengers) == 1 && m.messengers[id2] == StoppableMessenger(b), "C22.remove_keeps_other_entry")
	}

	m.RemoveSender(id1) // nothing registered any more: no second Stop
	zzverif.Assert(a.stops == 1 && b.stops == 0, "C22.second_remove_is_noop")

	err = m.AddSender(id1, c)
	zzverif.Assert(err == nil && m.messengers[id1] == StoppableMessenger(c), "C22.id_reusable_after_remove")
	zzverif.Assert(zzverif.LocksHeld() == 0, "C22.manager_lock_released")
}

// vStopOpen reports (without blocking) that the messenger's stop channel is NOT closed.
// (Engine note: a non-blocking select over a closed channel also explores the default branch, so
// this helper is only used to assert "open"; "closed" is asserted with vAwaitStopClosed.)
func vStopOpen(rm *RedundantMessenger) bool {
	select {
	case <-rm.stop:
		return false
	default:
		return true
	}
}

// vAwaitStopClosed receives from the stop channel: returns at once when it is closed and blocks
// forever otherwise (symbolically: path ends "blocked" and the following assertion is reported as
// unreachable; natively: the replay times out).
func vAwaitStopClosed(rm *RedundantMessenger) bool {
	_, ok := <-rm.stop
	return !ok
}

// H_C22_removeNeverSent_NoPanic: a real RedundantMessenger that was registered but never sent
// anything (what SendMessageWithRetryAction leaves behind when the first copy fails) is stopped by
// RemoveSender without panic or blocking; the stop channel is closed afterwards, nothing was sent,
// a repeated RemoveSender is harmless, and a second real messenger under the same id was refused.
// Bounds: none.
func H_C22_removeNeverSent_NoPanic() {
	n := vNewNet(1, 0)
	m := NewManager()
	id := zzverif.Str("id")
	rm := NewRedundantMessenger(n, vRetry)
	rm2 := NewRedundantMessenger(n, vRetry)
	zzverif.Assert(m.AddSender(id, rm) == nil, "C22.real_add_ok")
	zzverif.Assert(m.AddSender(id, rm2) != nil, "C22.real_second_add_refused")
	zzverif.Assert(vStopOpen(rm), "C22.not_stopped_before_remove")
	m.RemoveSender(id)
	zzverif.Assert(vAwaitStopClosed(rm) && vStopOpen(rm2), "C22.remove_closes_stop_channel_of_registered")
	m.RemoveSender(id)
	vSettle()
	zzverif.Assert(n.sends == 0 && len(m.messengers) == 0, "C22.never_sent_sends_nothing")
}

// ---------------------------------------------------------------------------------------------
// retransmission loop
// ---------------------------------------------------------------------------------------------

// vLoopEntry runs the real RedundantMessenger.SendMessage with its retransmission goroutine inline
// (zzverif.GoInline) against vNet; the environment stops it through Manager.RemoveSender during
// one of the first maxBefore copies.
func vLoopEntry(explicitTicks bool, maxBefore, maxAfter int) {
	n := vNewNet(maxBefore, maxAfter)
	n.failFirst = zzverif.Bool("first_copy_fails")
	n.offline = zzverif.Bool("peer_offline_when_stopped")
	m := NewManager()
	id := "swap-1"
	var rm *RedundantMessenger
	if explicitTicks {
		n.tick = make(chan time.Time, 1)
		rm = &RedundantMessenger{messenger: n, ticker: time.Ticker{C: n.tick}, stop: make(chan struct{})}
	} else {
		rm = NewRedundantMessenger(n, vRetry)
	}
	zzverif.Assert(m.AddSender(id, rm) == nil, "C22.loop_add_ok")
	n.stop = func() { m.RemoveSender(id) }

	zzverif.GoInline(true)
	zzverif.Unwind(32)
	msg := zzverif.Bytes("message", 4)
	err := rm.SendMessage("peer", msg, int(MESSAGETYPE_OPENINGTXBROADCASTED))

	if n.failFirst {
		// the first copy failed: the error is returned and no retransmission goroutine exists
		vSettle()
		n.mu.Lock()
		zzverif.Assert(err == vErrSend && n.sends == 1 && !n.sawStop, "C22.first_copy_error_no_retransmission")
		n.mu.Unlock()
		m.RemoveSender(id) // the swap moves on: stopping the idle messenger is harmless
		zzverif.Assert(vAwaitStopClosed(rm), "C22.idle_messenger_stoppable")
		return
	}
	if err == nil {
		<-n.exited // natively: wait for the goroutine; inline it has run to completion already
	}
	zzverif.Assert(err == nil, "C22.send_returns_nil")
	vSettle()
	n.mu.Lock()
	defer n.mu.Unlock()
	_, registered := m.messengers[id]
	zzverif.Assert(n.stopped && n.sawStop && !registered, "C22.goroutine_exits_after_stop")
	zzverif.Assert(n.afterExit == 0, "C22.no_copy_after_goroutine_saw_stop")
	zzverif.Assert(n.sends == n.stoppedAt+n.afterStop && n.stoppedAt >= 1 && n.stoppedAt <= maxBefore, "C22.copies_accounted")
	same := len(n.peers) == n.sends
	for i := range n.peers {
		if n.peers[i] != "peer|"+string(msg) {
			same = false
		}
	}
	zzverif.Assert(same, "C22.every_copy_is_the_same_message")
	if explicitTicks {
		zzverif.Assert(n.afterStop <= 1, "C22.at_most_one_due_copy_after_stop")
	}
}

// H_C22_retransmitLoop_NoPanic: untimed ticker model (time.NewTicker: the tick channel may be ready
// at every select).  For every moment of the stop (during copy 1..3, i.e. also before the goroutine
// first runs) and every choice the select makes when both channels are ready: no panic, the
// goroutine terminates through the stop case, no copy is started after it saw the stop signal,
// every copy carries the same peer/payload, a failing first copy starts no goroutine.
// Bounds: stop during copy <= 3; <= 2 copies explored after the stop (the untimed model itself
// puts no bound on them, see H_C22_stopAllowsOneDueCopy for what the code guarantees).
func H_C22_retransmitLoop_NoPanic() { vLoopEntry(false, 3, 2) }

// H_C22_stopAllowsOneDueCopy_NoPanic: explicit ticker model.  The ticker channel is a harness
// channel of capacity 1 (time.Ticker's channel has capacity 1); before the stop the next tick
// always fires eventually; at the moment of the stop one tick may already be due ("tick_already_due");
// ASSUMPTION: no further tick becomes due between Stop() and the goroutine's exit, i.e. the at most
// one copy started after Stop() takes less than the retry interval (10 s in production).  Then for
// every select choice: at most ONE copy is started after Stop() returned, and the goroutine exits.
// Bounds: stop during copy <= 3.
func H_C22_stopAllowsOneDueCopy_NoPanic() { vLoopEntry(true, 3, 4) }

// H_C22_T_retransmitLoop_NoPanic: as H_C22_retransmitLoop_NoPanic with stop during copy <= 6 and
// <= 4 copies explored after the stop.
func H_C22_T_retransmitLoop_NoPanic() { vLoopEntry(false, 6, 4) }

// H_C22_T_stopAllowsOneDueCopy_NoPanic: as H_C22_stopAllowsOneDueCopy_NoPanic with stop during
// copy <= 8.
func H_C22_T_stopAllowsOneDueCopy_NoPanic() { vLoopEntry(true, 8, 4) }

// (H_C22_T_stopTwiceDirect_NoPanic removed: it exercised input outside the callers' contract and therefore demanded more
// than the property states; see DESIGN.md "false alarms".)
