//go:build verif

package messages

import (
	"errors"

	"github.com/elementsproject/peerswap/zzverif"
)

// vNine lists the nine protocol message types in protocol order.
var vNine = [9]MessageType{
	MESSAGETYPE_SWAPINREQUEST, MESSAGETYPE_SWAPOUTREQUEST, MESSAGETYPE_SWAPINAGREEMENT,
	MESSAGETYPE_SWAPOUTAGREEMENT, MESSAGETYPE_OPENINGTXBROADCASTED, MESSAGETYPE_CANCELED,
	MESSAGETYPE_COOPCLOSE, MESSAGETYPE_POLL, MESSAGETYPE_REQUEST_POLL,
}

// vIsNine: v is one of 42069, 42071, ..., 42085 (stated arithmetically, independent of the table).
func vIsNine(v int64) bool {
	return uint64(v-42069) <= 16 && (v-42069)%2 == 0
}

// H_C21_typeNumbers: the nine message types are 42069, 42071, ..., 42085 in protocol order, all
// odd and pairwise distinct.  Bounds: none (constants).
func H_C21_typeNumbers() {
	for i := 0; i < 9; i++ {
		zzverif.Assert(int(vNine[i]) == 42069+2*i, "C21.type_number")
		zzverif.Assert(vNine[i]%2 == 1, "C21.type_odd")
		zzverif.Assert(vIsNine(int64(vNine[i])), "C21.type_in_oracle_set")
		for j := i + 1; j < 9; j++ {
			zzverif.Assert(vNine[i] != vNine[j], "C21.types_distinct")
		}
	}
	zzverif.Assert(BASE_MESSAGE_TYPE == 42069 && MESSAGETYPE_REQUEST_POLL == 42085, "C21.type_range")
}

// H_C21_roundTripNine: for each of the nine types the hex rendering is exactly four lower-case hex
// characters (what the CLN side slices off with Payload[:4]) and parses back to the same type
// without error.  Bounds: none (constants; strconv runs concretely).
func H_C21_roundTripNine() {
	want := [9]string{"a455", "a457", "a459", "a45b", "a45d", "a45f", "a461", "a463", "a465"}
	for i := 0; i < 9; i++ {
		h := MessageTypeToHexString(vNine[i])
		zzverif.Assert(h == want[i] && len(h) == 4, "C21.hex_is_4_chars")
		t, err := PeerswapCustomMessageType(h)
		zzverif.Assert(err == nil && t == vNine[i], "C21.parse_format_roundtrip")
	}
}

// H_C21_formatThenParse: for an arbitrary 64-bit type number n (the LND listener passes every
// uint32 type through MessageTypeToHexString), parsing the rendering succeeds exactly for the nine
// numbers and then returns n itself; otherwise the error is the not-a-peerswap-message error.
// Model: FormatInt is an uninterpreted function with ParseInt(FormatInt(n,16),16,64) = (n,nil)
// (strconv round trip, trusted).  Bounds: none.
func H_C21_formatThenParse() {
	n := zzverif.I64("type_number")
	t, err := PeerswapCustomMessageType(MessageTypeToHexString(MessageType(n)))
	zzverif.Assert((err == nil) == vIsNine(n), "C21.format_parse_accepts_exactly_nine")
	if err == nil {
		zzverif.Assert(int64(t) == n, "C21.format_parse_identity")
	} else {
		zzverif.Assert(t == 0 && errors.Is(err, &ErrNotPeerswapCustomMessage{}), "C21.format_parse_other_is_not_peerswap")
	}
}

// vHexDigit: digit value of c in base 16 and validity flag (1/0), computed without branches so
// that the oracle does not multiply paths: 0-9, a-f, A-F are digits, everything else is not.
func vHexDigit(c byte) (d uint16, ok uint16) {
	dec := uint16(c - '0')               // 0..9 for decimal digits (byte arithmetic wraps)
	isDec := uint16(int16(dec)-10) >> 15 // 1 iff dec < 10
	al := uint16((c | 0x20) - 'a')       // 0..5 for a-f and A-F
	isAl := uint16(int16(al)-6) >> 15    // 1 iff al < 6
	d = ((0 - isDec) & dec) | ((0 - isAl) & (al + 10))
	return d, isDec | isAl
}

// vParseHex is the harness' own statement of strconv.ParseInt(string(s), 16, 64) for short inputs:
// optional sign, then at least one hex digit (either case), nothing else (no 0x, no '_').
func vParseHex(s []byte) (v int64, ok bool) {
	n := len(s)
	if n == 0 {
		return 0, false
	}
	i, neg := 0, false
	if s[0] == '+' {
		i = 1
	} else if s[0] == '-' {
		i, neg = 1, true
	}
	if i == n {
		return 0, false
	}
	allOk := uint16(1)
	for ; i < n; i++ {
		d, dok := vHexDigit(s[i])
		allOk &= dok
		v = v*16 + int64(d)
	}
	if neg {
		v = -v
	}
	return v, allOk == 1
}

// vDrawBytes draws a byte string of every length min..max (the length is a concrete choice, every
// byte an arbitrary 8-bit value).
func vDrawBytes(name string, min, max int) []byte {
	n := min + zzverif.Choice(name+"_len", max-min+1)
	b := make([]byte, n)
	for i := 0; i < n; i++ {
		b[i] = zzverif.U8(name + "_ch")
	}
	return b
}

// vParseExact: for every string s of minLen..maxLen bytes (arbitrary byte values),
// PeerswapCustomMessageType(s) returns a nil error exactly when s parses as a base-16 integer
// (strconv.ParseInt syntax: optional sign, hex digits of either case, leading zeros allowed) to
// one of the nine numbers, and then returns that number; a parsable other number gives the
// errors.Is-detectable ErrNotPeerswapCustomMessage; an unparsable string gives a wrapped parse
// error that is not ErrNotPeerswapCustomMessage.
// strconv.ParseInt = engine model (exact up to 8 digits); the oracle vParseHex is written
// independently (range arithmetic vs. the model's digit table).
func vParseExact(minLen, maxLen int) {
	b := vDrawBytes("msg_type", minLen, maxLen)
	s := string(b)
	t, err := PeerswapCustomMessageType(s)
	v, ok := vParseHex(b)
	zzverif.Assert((err == nil) == (ok && vIsNine(v)), "C21.parse_accepts_exactly_nine")
	if err == nil {
		zzverif.Assert(int64(t) == v, "C21.parse_returns_number")
	} else {
		zzverif.Assert(t == 0, "C21.parse_error_zero_type")
		isNot := errors.Is(err, &ErrNotPeerswapCustomMessage{})
		zzverif.Assert(isNot == ok, "C21.parse_error_kind")
		zzverif.Assert(isNot || errors.Unwrap(err) != nil, "C21.parse_error_wraps_strconv")
	}
}

// H_C21_parseExact_len0to4: vParseExact for all strings of 0..4 bytes.
func H_C21_parseExact_len0to4() { vParseExact(0, 4) }

// H_C21_parseExact_len5: vParseExact for all strings of exactly 5 bytes ("+a455", "0a455", ...).
func H_C21_parseExact_len5() { vParseExact(5, 5) }

// H_C21_parseExact_len6: vParseExact for all strings of exactly 6 bytes ("+0a455", "00A455", ...).
func H_C21_parseExact_len6() { vParseExact(6, 6) }
