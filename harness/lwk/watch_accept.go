//go:build verif

package lwk

import (
	"errors"

	goelectrum "github.com/checksum0/go-electrum/electrum"
	"github.com/elementsproject/peerswap/electrum"
	"github.com/elementsproject/peerswap/zzverif"
)

var errTest = errors.New("electrum header stream broke")

func vHeader(name string) *goelectrum.SubscribeHeadersResult {
	if zzverif.Bool(name + ".nil") {
		return nil
	}
	return &goelectrum.SubscribeHeadersResult{Height: zzverif.I32(name + ".height")}
}

// H_C20_lwkParseBlockHeight: parseBlockHeight accepts exactly non-nil headers with a positive
// height and returns that height (sign-extended); everything else is an error.
func H_C20_lwkParseBlockHeight() {
	h := vHeader("hdr")
	got, err := parseBlockHeight(h)
	if h == nil || h.Height <= 0 {
		zzverif.Assert(err != nil && got == 0, "C20.lwk_parse_rejects_nil_and_nonpositive")
	} else {
		zzverif.Assert(err == nil && int64(got) == int64(h.Height) && got > 0, "C20.lwk_parse_exact")
	}
}

// H_C20_lwkAcceptBlockHeight: three header notifications (nil / any int32 height) through the
// real acceptBlockHeight, with an optional fail() between them.  The heights for which
// `changed` is reported (the only ones forwarded to the observers) are positive, equal to the
// header's height and strictly increasing; a nil / non-positive header is an error and
// changes nothing; after fail() nothing is accepted any more; GetBlockHeight returns the
// last accepted height or an error.
// Bounds: 3 headers.
func H_C20_lwkAcceptBlockHeight() {
	r := &electrumTxWatcher{}
	var last electrum.BlockHeight // last forwarded height (0: none)
	failed := false
	names := [3]string{"h0", "h1", "h2"}
	fails := [3]string{"fail0", "fail1", "fail2"}
	for i := 0; i < 3; i++ {
		hdr := vHeader(names[i])
		got, changed, err := r.acceptBlockHeight(hdr)
		if hdr == nil || hdr.Height <= 0 {
			zzverif.Assert(err != nil && !changed, "C20.lwk_accept_rejects_invalid_header")
		}
		if failed {
			zzverif.Assert(err != nil && !changed, "C20.lwk_accept_nothing_after_terminal_error")
		}
		if changed {
			zzverif.Assert(err == nil && hdr != nil && int64(got) == int64(hdr.Height), "C20.lwk_accept_height_is_header_height")
			zzverif.Assert(got > 0 && got > last, "C20.lwk_accept_strictly_increasing_positive")
			last = got
		} else if err == nil {
			// stale or repeated header: not forwarded
			zzverif.Assert(last > 0 && got <= last, "C20.lwk_accept_skips_only_stale_headers")
		}
		bh, berr := r.GetBlockHeight()
		if berr == nil {
			zzverif.Assert(!failed && last > 0 && int64(bh) == int64(last), "C20.lwk_height_is_last_accepted")
		} else {
			zzverif.Assert(failed || last == 0, "C20.lwk_height_error_only_without_height")
		}
		if zzverif.Bool(fails[i]) {
			r.fail(errTest)
			failed = true
		}
	}
}
