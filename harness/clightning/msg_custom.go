//go:build verif

package clightning

// C21, core-lightning side: ClightningClient.SendMessage (wire string = 4 hex characters of the
// type followed by the hex payload) and the custommsg hook ClightningClient.OnCustomMsg
// (type = first 4 hex characters, data = rest decoded).
//
// Environment: lightningd behind the concrete *glightning.Lightning client.  Symbolically the one
// client method used (SendCustomMessage) is overridden by vmSendCustom; natively the same answers
// come from a stand-in lightningd (vmServe) speaking JSON-RPC on a unix socket to the real client.
// github.com/go-errors/errors.New/Errorf (error construction only) are overridden symbolically by
// functions that build the same kind of value.
//
// Contract assumed for lightningd: sendcustommsg answers an error, or a result object with an
// arbitrary code; the custommsg hook payload is the hex of a whole lightning message and therefore
// starts with the 2-byte type, i.e. has at least 4 characters (BOLT #1; lightningd builds it).

import (
	"bytes"
	"encoding/hex"
	"encoding/json"
	"errors"
	"fmt"
	"net"
	"os"
	"path/filepath"

	"github.com/elementsproject/glightning/glightning"
	"github.com/elementsproject/peerswap/messages"
	"github.com/elementsproject/peerswap/swap"
	"github.com/elementsproject/peerswap/zzverif"
	goerrors "github.com/go-errors/errors"
)

type vmSent struct{ node, msg string }

type vmNode struct {
	sent []vmSent
	rpc  []int
}

var vmCur *vmNode

// answer decides one sendcustommsg request: 0 = accepted, 1 = RPC error, 2 = result with code != 0.
func (n *vmNode) answer(node, msg string) int {
	r := zzverif.Choice("sendcustommsg", 3)
	n.rpc = append(n.rpc, r)
	if r != 1 {
		n.sent = append(n.sent, vmSent{node, msg})
	}
	return r
}

func vmSendCustom(l *glightning.Lightning, nodeId, message string) (*glightning.CustomMessageResult, error) {
	switch vmCur.answer(nodeId, message) {
	case 1:
		return nil, errors.New("scripted failure")
	case 2:
		return &glightning.CustomMessageResult{Code: 7, Message: "refused"}, nil
	}
	return &glightning.CustomMessageResult{Status: "ok"}, nil
}

func vmGoErrNew(e interface{}) *goerrors.Error {
	if err, ok := e.(error); ok {
		return &goerrors.Error{Err: err}
	}
	return &goerrors.Error{Err: fmt.Errorf("%v", e)}
}

func vmGoErrorf(format string, a ...interface{}) *goerrors.Error {
	return &goerrors.Error{Err: fmt.Errorf(format, a...)}
}

func (n *vmNode) vmServe(ln net.Listener) {
	c, err := ln.Accept()
	if err != nil {
		return
	}
	dec := json.NewDecoder(c)
	for {
		var rq struct {
			Id     json.RawMessage `json:"id"`
			Method string          `json:"method"`
			Params json.RawMessage `json:"params"`
		}
		if err := dec.Decode(&rq); err != nil {
			return
		}
		if rq.Method != "sendcustommsg" {
			panic("stand-in lightningd: unexpected method " + rq.Method)
		}
		var p struct {
			NodeId string `json:"node_id"`
			Msg    string `json:"msg"`
		}
		if err := json.Unmarshal(rq.Params, &p); err != nil {
			panic(err)
		}
		m := map[string]interface{}{"jsonrpc": "2.0", "id": rq.Id}
		switch n.answer(p.NodeId, p.Msg) {
		case 1:
			m["error"] = map[string]interface{}{"code": -1, "message": "scripted failure"}
		case 2:
			m["result"] = map[string]interface{}{"code": 7, "message": "refused"}
		default:
			m["result"] = map[string]interface{}{"Status": "ok"}
		}
		b, _ := json.Marshal(m)
		c.Write(append(b, '\n', '\n'))
	}
}

func vmClient() (*ClightningClient, *vmNode) {
	n := &vmNode{}
	vmCur = n
	if zzverif.Symbolic() {
		zzverif.Override("(*github.com/elementsproject/glightning/glightning.Lightning).SendCustomMessage", vmSendCustom)
		zzverif.Override("(*github.com/elementsproject/glightning/glightning.CustomMsgReceivedEvent).Continue", vmContinue)
		zzverif.Override("github.com/go-errors/errors.New", vmGoErrNew)
		zzverif.Override("github.com/go-errors/errors.Errorf", vmGoErrorf)
		return &ClightningClient{glightning: &glightning.Lightning{}}, n
	}
	dir, err := os.MkdirTemp("", "zzv-clnmsg-")
	if err != nil {
		panic(err)
	}
	ln, err := net.Listen("unix", filepath.Join(dir, "rpc"))
	if err != nil {
		panic(err)
	}
	go n.vmServe(ln)
	gl := glightning.NewLightning()
	if err := gl.StartUp("rpc", dir); err != nil {
		panic(err)
	}
	return &ClightningClient{glightning: gl}, n
}

func vmContinue(ev *glightning.CustomMsgReceivedEvent) *glightning.CustomMsgReceivedResponse {
	return &glightning.CustomMsgReceivedResponse{Result: "continue"}
}

type vmGot struct {
	peer, typ string
	data      []byte
}

// vmHandlers registers two message handlers; the first returns the given result (0 = nil, 1 = the
// swap package's AlreadyExistsError, 2 = some other error), the second always nil.
func vmHandlers(cl *ClightningClient, firstResult int) (first, second *[]vmGot) {
	first, second = &[]vmGot{}, &[]vmGot{}
	cl.AddMessageHandler(func(peerId string, msgType string, payload []byte) error {
		*first = append(*first, vmGot{peerId, msgType, payload})
		switch firstResult {
		case 1:
			return swap.AlreadyExistsError
		case 2:
			return errors.New("handler failed")
		}
		return nil
	})
	cl.AddMessageHandler(func(peerId string, msgType string, payload []byte) error {
		*second = append(*second, vmGot{peerId, msgType, payload})
		return nil
	})
	return
}

// vmDelivered: both handlers were called exactly once with (peer, typ, data).
func vmDelivered(first, second *[]vmGot, peer, typ string, data []byte) bool {
	if len(*first) != 1 || len(*second) != 1 {
		return false
	}
	for _, g := range []vmGot{(*first)[0], (*second)[0]} {
		if g.peer != peer || g.typ != typ || len(g.typ) != 4 || !bytes.Equal(g.data, data) {
			return false
		}
	}
	return true
}

// H_C21_clnOnCustomMsg_NoPanic: the custommsg hook for an arbitrary peer id and an arbitrary
// payload string of at least 4 characters (lightningd contract, see above): never panics, always
// answers "continue" without error (whatever the handlers return); every handler is called exactly
// once, in order, iff the rest of the payload after the first 4 characters hex-decodes, with
// type string = first 4 characters and data = the decoded rest; an undecodable rest (odd length,
// non-hex characters) reaches no handler.
// Bounds: two handlers.  hex.DecodeString = engine model (UF pair with round trip and length law).
// (Whether an arbitrary string is valid hex is an uninterpreted predicate in the engine; all draws
// happen before the call and both outcomes run the same assertion sequence, so that a native run
// of a witness is comparable whichever way the real decoder decides.)
func H_C21_clnOnCustomMsg_NoPanic() {
	cl, _ := vmClient()
	first, second := vmHandlers(cl, zzverif.Choice("handler_result", 3))
	peer, payload := zzverif.Str("peer"), zzverif.Str("payload")
	zzverif.Assume(len(payload) >= 4)
	res, err := cl.OnCustomMsg(&glightning.CustomMsgReceivedEvent{PeerId: peer, Payload: payload})
	zzverif.Assert(err == nil && res != nil && res.Result == "continue", "C21.cln_hook_always_continues")
	want, derr := hex.DecodeString(payload[4:])
	bad := derr != nil
	zzverif.Assert(!bad || (len(*first) == 0 && len(*second) == 0), "C21.cln_undecodable_payload_reaches_no_handler")
	zzverif.Assert(bad || vmDelivered(first, second, peer, payload[:4], want), "C21.cln_type_first_4_chars_data_decoded_rest")
}

var vmNine = [9]messages.MessageType{
	messages.MESSAGETYPE_SWAPINREQUEST, messages.MESSAGETYPE_SWAPOUTREQUEST, messages.MESSAGETYPE_SWAPINAGREEMENT,
	messages.MESSAGETYPE_SWAPOUTAGREEMENT, messages.MESSAGETYPE_OPENINGTXBROADCASTED, messages.MESSAGETYPE_CANCELED,
	messages.MESSAGETYPE_COOPCLOSE, messages.MESSAGETYPE_POLL, messages.MESSAGETYPE_REQUEST_POLL,
}

// H_C21_clnSendReceive_NoPanic: ClightningClient.SendMessage for each of the nine types, an
// arbitrary peer id and arbitrary payload bytes (any length): an empty peer id or a failing /
// refusing sendcustommsg gives an error; otherwise exactly one sendcustommsg(peer, w) was issued
// with w = 4 lower-case hex characters of the type + hex(payload); feeding w to the receiving
// node's OnCustomMsg hands (sender, type string, data) to the handler with
// PeerswapCustomMessageType(type string) = the sent type and data = the sent payload.
// Bounds: none on the payload (opaque byte string); hex = engine model.
func H_C21_clnSendReceive_NoPanic() {
	cl, n := vmClient()
	t := vmNine[zzverif.Choice("type", 9)]
	peer := zzverif.Str("peer")
	message := zzverif.Bytes("message", -1)
	err := cl.SendMessage(peer, message, int(t))
	if peer == "" {
		zzverif.Assert(err != nil && len(n.rpc) == 0, "C21.cln_send_empty_peer_rejected")
		return
	}
	zzverif.Assert(len(n.rpc) == 1 && (err == nil) == (n.rpc[0] == 0), "C21.cln_send_error_iff_rpc_not_accepted")
	if n.rpc[0] == 1 {
		return
	}
	w := n.sent[0]
	zzverif.Assert(w.node == peer && len(w.msg) >= 4 && w.msg[:4] == messages.MessageTypeToHexString(t), "C21.cln_wire_type_prefix")
	zzverif.Assert(w.msg[4:] == hex.EncodeToString(message), "C21.cln_wire_payload_hex")

	// the receiving node
	rcv, _ := vmClient()
	first, second := vmHandlers(rcv, zzverif.Choice("handler_result", 3))
	sender := zzverif.Str("sender")
	res, herr := rcv.OnCustomMsg(&glightning.CustomMsgReceivedEvent{PeerId: sender, Payload: w.msg})
	zzverif.Assert(herr == nil && res != nil && res.Result == "continue", "C21.cln_hook_always_continues")
	zzverif.Assert(len(*first) == 1 && len(*second) == 1, "C21.cln_roundtrip_delivered_once")
	g := (*second)[0]
	gt, terr := messages.PeerswapCustomMessageType(g.typ)
	zzverif.Assert(terr == nil && gt == t && g.peer == sender, "C21.cln_roundtrip_type")
	zzverif.Assert(bytes.Equal(g.data, message), "C21.cln_roundtrip_payload")
}

// (H_C21_T_clnShortPayload_NoPanic removed: it exercised input outside the callers' contract and therefore demanded more
// than the property states; see DESIGN.md "false alarms".)
