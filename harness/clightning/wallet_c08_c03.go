//go:build verif

package clightning

// C08 / C03, core-lightning wallet adapter (clightning/clightning_wallet.go):
// (*ClightningClient).CreateOpeningTransaction, CreatePreimageSpendingTransaction,
// CreateCsvSpendingTransaction, CreateCoopSpendingTransaction with everything of package onchain
// they call (CreateOpeningAddress, GetFeeSatsFromTx, GetVoutAndVerify, GetOutputScript,
// PrepareSpendingTransaction, Get*Witness, GetFee) — all real.
//
// Environment
//   - lightningd, reached through the concrete *glightning.Lightning client, and bitcoind, reached
//     through *gbitcoin.Bitcoin.  Under the symbolic executor the client methods the adapters use
//     (PrepareTx, SetPSBTVersion, SendTx, NewAddr; SendRawTx) are overridden by the vwRPC* functions
//     below; natively the same answers are given by a stand-in lightningd (JSON-RPC over a unix
//     socket) and a stand-in bitcoind (JSON-RPC over HTTP) to the real client code.  Contract:
//       txprepare   error (also when lightningd cannot decode the address), or (unsigned_tx, txid
//                   of unsigned_tx, psbt): 1..2 wallet inputs (bound) with UTXO values 0..21e14 sat,
//                   the requested output (address script, amount) at an ARBITRARY position, 0..2
//                   change outputs (bound: <= 3 outputs) of arbitrary value 0..21e14 sat and script
//                   other than the swap script.  A node >= v23.05 answers a version-2 PSBT (which the
//                   btcd parser rejects), an older one a version-0 PSBT;
//       setpsbtversion(p, 0)  error, or the same PSBT in version 0;
//       txsend(txid)  error (always for a txid that was not prepared), or (tx, txid of tx): the
//                   signed transaction has the inputs and outputs of the prepared one; each input is
//                   native segwit or NESTED segwit (non-empty scriptSig; old wallets), so the id of
//                   the sent transaction may differ from the id txprepare reported;
//       newaddr     error, or a P2WPKH address (arbitrary 20-byte program);
//       sendrawtransaction(hex)  error (always for a hex string that is no transaction), or the id
//                   of the transaction.
//   - swap.Signer, fee estimator, library model: exactly as in harness/lnd/wallet_c08_c03.go (see
//     the comment there: blobs + table, TxHash / sighash / serialisation as uninterpreted functions,
//     bech32 as an injective function of the program, GetFee = rate*size for whole sat/vB rates).
//   - version.CompareVersionStrings (C30's subject, harness/version/compare.go) is replaced on the
//     symbolic side by "is the node's version string v23.05" for the two version strings the
//     entries use (v23.05, v23.02); natively the real function runs.
//
// OUTSIDE the claim: ECDSA validity, BIP143 hashing, SHA256, (de)serialisation and bech32 coding
// themselves, lightningd's coin selection and signing, relay policy.

import (
	"bytes"
	"encoding/base64"
	"encoding/hex"
	"encoding/json"
	"errors"
	"io"
	"net"
	"net/http"
	"net/http/httptest"
	"os"
	"path/filepath"
	"strconv"
	"strings"

	"github.com/btcsuite/btcd/btcec/v2"
	btecdsa "github.com/btcsuite/btcd/btcec/v2/ecdsa"
	"github.com/btcsuite/btcd/btcutil"
	"github.com/btcsuite/btcd/btcutil/psbt"
	"github.com/btcsuite/btcd/chaincfg"
	"github.com/btcsuite/btcd/chaincfg/chainhash"
	"github.com/btcsuite/btcd/txscript"
	"github.com/btcsuite/btcd/wire"
	"github.com/elementsproject/glightning/gbitcoin"
	"github.com/elementsproject/glightning/glightning"
	"github.com/elementsproject/peerswap/onchain"
	"github.com/elementsproject/peerswap/swap"
	"github.com/elementsproject/peerswap/zzverif"
)

// ---------------------------------------------------------------------------------------
// world
// ---------------------------------------------------------------------------------------

const vwMaxSats = 2100000000000000

type vwTxBlob struct {
	blob []byte
	tx   *wire.MsgTx
}

type vwPsbtBlob struct {
	blob []byte
	b64  string
	pkt  *psbt.Packet
}

type vwReaderRec struct {
	r *bytes.Reader
	b []byte
}

type vwUtilTx struct {
	t  *btcutil.Tx
	tx *wire.MsgTx
}

type vwAddrRec struct {
	s    string
	prog []byte
}

type vwSigRec struct {
	sig *btecdsa.Signature
	der []byte
}

type vwWorld struct {
	chain  *onchain.BitcoinOnChain
	net    *chaincfg.Params
	est    *vwEstimator
	params *swap.OpeningParams
	maker  []byte
	taker  []byte
	hash   []byte
	want   []byte // GetOutputScript(params): OP_0 <SHA256(redeem script)>

	txs     []vwTxBlob
	psbts   []vwPsbtBlob
	readers []vwReaderRec
	utx     []vwUtilTx
	addrs   []vwAddrRec
	sigs    []vwSigRec

	node *vwNode
}

var vw *vwWorld

// vwChain: a harness-made Params value (a global of the non-executed chaincfg package would be
// havocked); the adapters read the segwit HRP only.
func vwChain() *chaincfg.Params {
	return &chaincfg.Params{Name: "regtest", Bech32HRPSegwit: "bcrt"}
}

type vwEstimator struct{ perVb []uint64 }

func (e *vwEstimator) EstimateFeePerKW(targetBlocks uint32) (btcutil.Amount, error) {
	k := uint64(zzverif.U16("fee_rate_sat_per_vb"))
	e.perVb = append(e.perVb, k)
	return btcutil.Amount(int64(k * 250)), nil
}
func (e *vwEstimator) Start() error { return nil }

// ---------------------------------------------------------------------------------------
// library model (symbolic side only)
// ---------------------------------------------------------------------------------------

func vwNewReader(b []byte) *bytes.Reader {
	r := &bytes.Reader{}
	vw.readers = append(vw.readers, vwReaderRec{r, b})
	return r
}

func vwReaderBytes(r io.Reader) []byte {
	br, ok := r.(*bytes.Reader)
	if !ok {
		zzverif.Fail("parser reads from something that is not a bytes.Reader")
	}
	for i := len(vw.readers) - 1; i >= 0; i-- {
		if vw.readers[i].r == br {
			return vw.readers[i].b
		}
	}
	zzverif.Fail("unknown reader")
	return nil
}

func vwCopyTx(dst, src *wire.MsgTx) {
	dst.Version, dst.LockTime = src.Version, src.LockTime
	dst.TxIn, dst.TxOut = nil, nil
	for _, in := range src.TxIn {
		dst.TxIn = append(dst.TxIn, &wire.TxIn{PreviousOutPoint: in.PreviousOutPoint, SignatureScript: in.SignatureScript, Witness: in.Witness, Sequence: in.Sequence})
	}
	for _, out := range src.TxOut {
		dst.TxOut = append(dst.TxOut, &wire.TxOut{Value: out.Value, PkScript: out.PkScript})
	}
}

func vwLookupTx(b []byte) *wire.MsgTx {
	for i := len(vw.txs) - 1; i >= 0; i-- {
		if bytes.Equal(b, vw.txs[i].blob) {
			return vw.txs[i].tx
		}
	}
	return nil
}

func vwDeserialize(tx *wire.MsgTx, r io.Reader) error {
	m := vwLookupTx(vwReaderBytes(r))
	if m == nil {
		return errors.New("wire: unexpected EOF")
	}
	vwCopyTx(tx, m)
	return nil
}

// vwTxArgs: the content of a transaction as arguments of an uninterpreted function.
func vwTxArgs(tx *wire.MsgTx, sigScript, witness, outputs bool) []interface{} {
	a := []interface{}{tx.Version, tx.LockTime, len(tx.TxIn), len(tx.TxOut)}
	for _, in := range tx.TxIn {
		a = append(a, string(in.PreviousOutPoint.Hash[:]), in.PreviousOutPoint.Index, in.Sequence)
		if sigScript {
			a = append(a, string(in.SignatureScript))
		}
		if witness {
			a = append(a, len(in.Witness))
			for _, w := range in.Witness {
				a = append(a, string(w))
			}
		}
	}
	if outputs {
		for _, out := range tx.TxOut {
			a = append(a, out.Value, string(out.PkScript))
		}
	}
	return a
}

func vwSerialize(tx *wire.MsgTx, w io.Writer) error {
	blob := vwUFBytes("txser", vwRawTxLen, vwTxArgs(tx, true, true, true)...)
	snap := &wire.MsgTx{}
	vwCopyTx(snap, tx)
	vw.txs = append(vw.txs, vwTxBlob{blob, snap})
	_, err := w.Write(blob)
	return err
}

func vwTxHash(tx *wire.MsgTx) chainhash.Hash {
	var h chainhash.Hash
	copy(h[:], vwUFBytes("txid", 32, vwTxArgs(tx, true, false, true)...))
	return h
}

// vwUFBytes: an uninterpreted function with a byte-string value of fixed length n (engine
// intrinsic, engine/symex/intrinsics_wallet.go).  Only used by the symbolic-side library model.
func vwUFBytes(name string, n int, args ...interface{}) []byte {
	b := []byte(zzverif.UFStr(name, args...))
	for len(b) < n {
		b = append(b, 0)
	}
	return b[:n]
}

// Length of a serialisation made by the Serialize model (a token: nothing depends on the number;
// short fixed lengths keep the string solvers away from length arithmetic and long models).
const vwRawTxLen = 8

func vwHashString(h chainhash.Hash) string { return zzverif.UFStr("hashstr", string(h[:])) }

func vwPsbtFromRaw(r io.Reader, b64 bool) (*psbt.Packet, error) {
	b := vwReaderBytes(r)
	for i := len(vw.psbts) - 1; i >= 0; i-- {
		e := vw.psbts[i]
		if b64 {
			if string(b) == e.b64 {
				return e.pkt, nil
			}
		} else if bytes.Equal(b, e.blob) {
			return e.pkt, nil
		}
	}
	return nil, errors.New("psbt: invalid magic bytes")
}

func vwPsbtSerialize(p *psbt.Packet, w io.Writer) error {
	for i := len(vw.psbts) - 1; i >= 0; i-- {
		if vw.psbts[i].pkt == p {
			_, err := w.Write(vw.psbts[i].blob)
			return err
		}
	}
	zzverif.Fail("Serialize of a packet the world did not hand out")
	return nil
}

// psbt v1.1.8 utils.go:288 restated.
func vwSumUtxoInputValues(packet *psbt.Packet) (int64, error) {
	if len(packet.UnsignedTx.TxIn) != len(packet.Inputs) {
		return 0, errors.New("TX input length doesn't match PSBT input length")
	}
	inputSum := int64(0)
	for idx, in := range packet.Inputs {
		switch {
		case in.WitnessUtxo != nil:
			inputSum += in.WitnessUtxo.Value
		case in.NonWitnessUtxo != nil:
			utxOuts := in.NonWitnessUtxo.TxOut
			opIdx := packet.UnsignedTx.TxIn[idx].PreviousOutPoint.Index
			if opIdx >= uint32(len(utxOuts)) {
				return 0, errors.New("input has malformed TxOut field")
			}
			inputSum += utxOuts[opIdx].Value
		default:
			return 0, errors.New("input has no UTXO information")
		}
	}
	return inputSum, nil
}

func vwNewTxFromBytes(b []byte) (*btcutil.Tx, error) {
	m := vwLookupTx(b)
	if m == nil {
		return nil, errors.New("wire: unexpected EOF")
	}
	c := &wire.MsgTx{}
	vwCopyTx(c, m)
	t := &btcutil.Tx{}
	vw.utx = append(vw.utx, vwUtilTx{t, c})
	return t, nil
}

func vwUtilMsgTx(t *btcutil.Tx) *wire.MsgTx {
	for i := len(vw.utx) - 1; i >= 0; i-- {
		if vw.utx[i].t == t {
			return vw.utx[i].tx
		}
	}
	zzverif.Fail("unknown btcutil.Tx")
	return nil
}

// vwAddr is what the DecodeAddress model returns.
type vwAddr struct {
	s    string
	prog []byte
}

func (a *vwAddr) String() string                 { return a.s }
func (a *vwAddr) EncodeAddress() string          { return a.s }
func (a *vwAddr) ScriptAddress() []byte          { return a.prog }
func (a *vwAddr) IsForNet(*chaincfg.Params) bool { return true }

func vwEncodeSegWit(a *btcutil.AddressSegWit) string {
	prog := a.ScriptAddress()
	s := "bcrt1:" + hex.EncodeToString(prog) // injective, like bech32
	vw.addrs = append(vw.addrs, vwAddrRec{s, prog})
	return s
}

func vwLookupAddr(s string) []byte {
	for i := len(vw.addrs) - 1; i >= 0; i-- {
		if vw.addrs[i].s == s {
			return vw.addrs[i].prog
		}
	}
	return nil
}

func vwDecodeAddress(addr string, net *chaincfg.Params) (btcutil.Address, error) {
	prog := vwLookupAddr(addr)
	if prog == nil {
		return nil, errors.New("decoded address is of unknown format")
	}
	return &vwAddr{addr, prog}, nil
}

func vwSigSerialize(sig *btecdsa.Signature) []byte {
	for i := 0; i < len(vw.sigs); i++ {
		if vw.sigs[i].sig == sig {
			return vw.sigs[i].der
		}
	}
	zzverif.Fail("Serialize of a signature the harness did not hand out")
	return nil
}

func vwGetFee(b *onchain.BitcoinOnChain, txSize int64) (uint64, error) {
	vw.est.EstimateFeePerKW(onchain.BitcoinFeeTargetBlocks)
	return vw.est.perVb[len(vw.est.perVb)-1] * uint64(txSize), nil // no division: 64-bit bvudiv stalls the solver
}

func vwNewTxSigHashes(tx *wire.MsgTx, f txscript.PrevOutputFetcher) *txscript.TxSigHashes {
	return &txscript.TxSigHashes{}
}

func vwCalcWitnessSigHash(script []byte, sh *txscript.TxSigHashes, ht txscript.SigHashType, tx *wire.MsgTx, idx int, amt int64) ([]byte, error) {
	a := append([]interface{}{string(script), uint32(ht), idx, amt}, vwTxArgs(tx, false, false, true)...)
	return vwUFBytes("sighash", 32, a...), nil
}

func vwCompareVersionStrings(a, b string) (bool, error) {
	if b != "v23.05" || (a != "v23.05" && a != "v23.02") {
		zzverif.Fail("CompareVersionStrings: unexpected version strings")
	}
	return a == "v23.05", nil
}

func vwInstall() {
	if !zzverif.Symbolic() {
		return
	}
	zzverif.Override("bytes.NewReader", vwNewReader)
	zzverif.Override("(*github.com/btcsuite/btcd/wire.MsgTx).Deserialize", vwDeserialize)
	zzverif.Override("(*github.com/btcsuite/btcd/wire.MsgTx).Serialize", vwSerialize)
	zzverif.Override("(*github.com/btcsuite/btcd/wire.MsgTx).TxHash", vwTxHash)
	zzverif.Override("(github.com/btcsuite/btcd/chaincfg/chainhash.Hash).String", vwHashString)
	zzverif.Override("github.com/btcsuite/btcd/btcutil/psbt.NewFromRawBytes", vwPsbtFromRaw)
	zzverif.Override("(*github.com/btcsuite/btcd/btcutil/psbt.Packet).Serialize", vwPsbtSerialize)
	zzverif.Override("github.com/btcsuite/btcd/btcutil/psbt.SumUtxoInputValues", vwSumUtxoInputValues)
	zzverif.Override("github.com/btcsuite/btcd/btcutil.NewTxFromBytes", vwNewTxFromBytes)
	zzverif.Override("(*github.com/btcsuite/btcd/btcutil.Tx).MsgTx", vwUtilMsgTx)
	zzverif.Override("(*github.com/btcsuite/btcd/btcutil.AddressSegWit).EncodeAddress", vwEncodeSegWit)
	zzverif.Override("github.com/btcsuite/btcd/btcutil.DecodeAddress", vwDecodeAddress)
	zzverif.Override("(*github.com/decred/dcrd/dcrec/secp256k1/v4/ecdsa.Signature).Serialize", vwSigSerialize)
	zzverif.Override("(*github.com/elementsproject/peerswap/onchain.BitcoinOnChain).GetFee", vwGetFee)
	zzverif.Override("github.com/btcsuite/btcd/txscript.NewTxSigHashes", vwNewTxSigHashes)
	zzverif.Override("github.com/btcsuite/btcd/txscript.CalcWitnessSigHash", vwCalcWitnessSigHash)
	zzverif.Override("github.com/elementsproject/peerswap/version.CompareVersionStrings", vwCompareVersionStrings)
	zzverif.Override("(*github.com/elementsproject/glightning/glightning.Lightning).PrepareTx", vwRPCPrepareTx)
	zzverif.Override("(*github.com/elementsproject/glightning/glightning.Lightning).SetPSBTVersion", vwRPCSetPSBTVersion)
	zzverif.Override("(*github.com/elementsproject/glightning/glightning.Lightning).SendTx", vwRPCSendTx)
	zzverif.Override("(*github.com/elementsproject/glightning/glightning.Lightning).NewAddr", vwRPCNewAddr)
	zzverif.Override("(*github.com/elementsproject/glightning/gbitcoin.Bitcoin).SendRawTx", vwRPCSendRawTx)
}

// ---------------------------------------------------------------------------------------
// helpers working on both sides
// ---------------------------------------------------------------------------------------

// vwParseTx: the transaction a blob stands for (natively: the real parser); nil if it does not parse.
func vwParseTx(b []byte) *wire.MsgTx {
	tx := wire.NewMsgTx(2)
	if err := tx.Deserialize(bytes.NewReader(b)); err != nil {
		return nil
	}
	return tx
}

func vwSerializeTx(tx *wire.MsgTx) []byte {
	var buf bytes.Buffer
	if err := tx.Serialize(&buf); err != nil {
		panic(err)
	}
	return buf.Bytes()
}

func vwSerializePsbt(p *psbt.Packet) []byte {
	var buf bytes.Buffer
	if err := p.Serialize(&buf); err != nil {
		panic(err)
	}
	return buf.Bytes()
}

// vwAddrScript: the output script lightningd derives from an address string (nil: it cannot decode it).
func vwAddrScript(addr string) []byte {
	if zzverif.Symbolic() {
		prog := vwLookupAddr(addr)
		if prog == nil {
			return nil
		}
		return append([]byte{0x00, byte(len(prog))}, prog...)
	}
	a, err := btcutil.DecodeAddress(addr, vw.net)
	if err != nil {
		return nil
	}
	s, err := txscript.PayToAddrScript(a)
	if err != nil {
		return nil
	}
	return s
}

// vwFill: n bytes b (bytes.Repeat is not executed by the engine).
func vwFill(b byte, n int) []byte {
	out := make([]byte, n)
	for i := range out {
		out[i] = b
	}
	return out
}

// vwCoinTxid: id of the i-th coin the wallet spends (fixed; the adapters never look at it).
func vwCoinTxid(i int) chainhash.Hash {
	var h chainhash.Hash
	copy(h[:], vwFill(byte(0xc0+i), 32))
	return h
}

// vwSetup draws the swap parameters and builds the client (v2: the node is >= v23.05).
func vwSetup(anyKeys bool, v2 bool) (*ClightningClient, *vwWorld) {
	w := &vwWorld{}
	vw = w
	vwInstall()
	w.net = vwChain()
	w.est = &vwEstimator{}
	w.chain = onchain.NewBitcoinOnChain(w.est, 0, 0, w.net)
	if anyKeys {
		w.maker = zzverif.Bytes("maker", 33)
		w.taker = zzverif.Bytes("taker", 33)
		w.hash = zzverif.Bytes("hash", 32)
		zzverif.Assume(!bytes.Equal(w.maker, w.taker)) // equal keys: C02's subject
	} else {
		w.maker = append([]byte{0x02}, vwFill(0x11, 32)...)
		w.taker = append([]byte{0x03}, vwFill(0x22, 32)...)
		w.hash = vwFill(0x33, 32)
	}
	w.params = &swap.OpeningParams{
		TakerPubkey:      hex.EncodeToString(w.taker),
		MakerPubkey:      hex.EncodeToString(w.maker),
		ClaimPaymentHash: hex.EncodeToString(w.hash),
		Amount:           zzverif.U64("amount"),
		CSV:              onchain.BitcoinCsv,
	}
	want, err := w.chain.GetOutputScript(w.params)
	if err != nil {
		zzverif.Fail("GetOutputScript failed")
	}
	w.want = want
	w.node = &vwNode{w: w, v2: v2}
	ver := "v23.02"
	if v2 {
		ver = "v23.05"
	}
	cl := &ClightningClient{bitcoinChain: w.chain, version: ver}
	if zzverif.Symbolic() {
		cl.glightning, cl.gbitcoin = &glightning.Lightning{}, &gbitcoin.Bitcoin{}
		return cl, w
	}
	cl.glightning, cl.gbitcoin = w.node.vwServe()
	return cl, w
}

// ---------------------------------------------------------------------------------------
// lightningd / bitcoind stand-in: the answers (shared by the symbolic overrides and the native
// servers)
// ---------------------------------------------------------------------------------------

type vwNode struct {
	w      *vwWorld
	v2     bool
	region int

	prepares    int
	prepEntries int
	prepAddr    string
	prepAmount  uint64
	prepUrgent  bool
	prepared    bool
	unsigned    *wire.MsgTx
	swapIndex   int
	inValues    []int64
	prepTxid    string
	psbtV0      string
	psbtV2      string

	setVersions int
	sends       int
	sendArgs    []string
	sent        bool
	sendFailed  bool
	signed      *wire.MsgTx
	signedHex   string

	newAddrs    int
	bech32Asked bool
	addrErr     bool
	addr        string
	prog        []byte

	rawSends  []string
	rawFailed bool
}

const (
	vwAnyChange         = 0 // change values arbitrary
	vwChangeNotAmount   = 1 // no change output carries exactly the swap amount
	vwChangeAmountFirst = 2 // a change output in front of the swap output carries exactly the swap amount
)

func (n *vwNode) answerPrepare(entries int, addr string, amount uint64, urgent bool) *glightning.TxResult {
	n.prepares++
	n.prepEntries, n.prepAddr, n.prepAmount, n.prepUrgent = entries, addr, amount, urgent
	zzverif.Effect("cln.txprepare")
	if zzverif.Bool("txprepare.err") {
		return nil
	}
	if entries != 1 {
		zzverif.Fail("txprepare: the stub prepares single-output requests only")
	}
	script := vwAddrScript(addr)
	if script == nil {
		return nil
	}
	// bounds: 1..3 outputs, 1..2 inputs
	cnt := 3 - zzverif.Choice("txprepare.outputs_below_max", 3)
	n.swapIndex = zzverif.Choice("txprepare.swap_index", cnt)
	tx := wire.NewMsgTx(2)
	amountInFront := false
	for i := 0; i < cnt; i++ {
		if i == n.swapIndex {
			tx.AddTxOut(wire.NewTxOut(int64(amount), script))
			continue
		}
		v := zzverif.I64("txprepare.change_value")
		zzverif.Assume(v >= 0)
		zzverif.Assume(v <= vwMaxSats)
		switch n.region {
		case vwChangeNotAmount:
			zzverif.Assume(v != int64(amount))
		case vwChangeAmountFirst:
			if i < n.swapIndex && !amountInFront && zzverif.Bool("txprepare.change_is_amount") {
				zzverif.Assume(v == int64(amount))
				amountInFront = true
			}
		}
		cs := zzverif.Bytes("txprepare.change_script", 22) // P2WPKH-sized; never the 34-byte swap script
		tx.AddTxOut(wire.NewTxOut(v, cs))
	}
	if n.region == vwChangeAmountFirst {
		zzverif.Assume(amountInFront)
	}
	m := 1 + zzverif.Choice("txprepare.more_inputs", 2)
	pkt := &psbt.Packet{UnsignedTx: tx}
	for i := 0; i < m; i++ {
		h := vwCoinTxid(i)
		tx.AddTxIn(wire.NewTxIn(wire.NewOutPoint(&h, zzverif.U32("txprepare.in_vout")), nil, nil))
		v := zzverif.I64("txprepare.in_value")
		zzverif.Assume(v >= 0)
		zzverif.Assume(v <= vwMaxSats)
		n.inValues = append(n.inValues, v)
		pkt.Inputs = append(pkt.Inputs, psbt.PInput{WitnessUtxo: wire.NewTxOut(v, vwFill(0x51, 23))})
	}
	pkt.Outputs = make([]psbt.POutput, cnt)
	blob, raw := []byte("psbt:prepared"), []byte("rawtx:unsigned") // symbolic side: tokens
	if !zzverif.Symbolic() {
		blob, raw = vwSerializePsbt(pkt), vwSerializeTx(tx)
	}
	n.psbtV0 = base64.StdEncoding.EncodeToString(blob)
	n.psbtV2 = "v2:" + n.psbtV0 // what a v23.05 node answers: not a PSBT the btcd parser reads
	n.w.psbts = append(n.w.psbts, vwPsbtBlob{blob, n.psbtV0, pkt})
	n.w.txs = append(n.w.txs, vwTxBlob{raw, tx})
	n.unsigned, n.prepared = tx, true
	n.prepTxid = tx.TxHash().String()
	res := &glightning.TxResult{UnsignedTx: hex.EncodeToString(raw), TxId: n.prepTxid, Psbt: n.psbtV0}
	if n.v2 {
		res.Psbt = n.psbtV2
	}
	return res
}

func (n *vwNode) answerSetVersion(p string, version int) (string, bool) {
	n.setVersions++
	zzverif.Effect("cln.setpsbtversion")
	if zzverif.Bool("setpsbtversion.err") {
		return "", false
	}
	if !n.prepared || version != 0 || (p != n.psbtV2 && p != n.psbtV0) {
		return "", false
	}
	return n.psbtV0, true
}

func (n *vwNode) answerSend(txid string) *glightning.TxResult {
	n.sends++
	n.sendArgs = append(n.sendArgs, txid)
	zzverif.Effect("cln.txsend")
	if zzverif.Bool("txsend.err") {
		n.sendFailed = true
		return nil
	}
	if !n.prepared || txid != n.prepTxid || n.sent {
		n.sendFailed = true
		return nil // "not an unreleased txid"
	}
	final := &wire.MsgTx{}
	vwCopyTx(final, n.unsigned)
	for i := range final.TxIn {
		if zzverif.Bool("txsend.nested") {
			// p2sh-wrapped coin: the redeem script goes into the scriptSig, which the txid covers
			final.TxIn[i].SignatureScript = zzverif.Bytes("txsend.sigscript", 3)
		}
		final.TxIn[i].Witness = wire.TxWitness{[]byte{0x30}}
	}
	raw := []byte("rawtx:signed") // symbolic side: a token
	if !zzverif.Symbolic() {
		raw = vwSerializeTx(final)
	}
	n.w.txs = append(n.w.txs, vwTxBlob{raw, final})
	n.signed, n.signedHex, n.sent = final, hex.EncodeToString(raw), true
	return &glightning.TxResult{SignedTx: n.signedHex, TxId: final.TxHash().String(), Psbt: n.psbtV0}
}

func (n *vwNode) answerNewAddr(addrType string) (string, bool) {
	n.newAddrs++
	n.bech32Asked = addrType == "bech32"
	zzverif.Effect("cln.newaddr")
	if zzverif.Bool("newaddr.err") {
		n.addrErr = true
		return "", false
	}
	n.prog = zzverif.Bytes("wallet_addr_program", 20)
	if zzverif.Symbolic() {
		n.addr = "vaddr"
		n.w.addrs = append(n.w.addrs, vwAddrRec{n.addr, n.prog})
	} else {
		a, err := btcutil.NewAddressWitnessPubKeyHash(n.prog, n.w.net)
		if err != nil {
			panic(err)
		}
		n.addr = a.EncodeAddress()
	}
	return n.addr, true
}

func (n *vwNode) answerSendRaw(txHex string) (string, bool) {
	n.rawSends = append(n.rawSends, txHex)
	zzverif.Effect("bitcoind.sendrawtransaction")
	if zzverif.Bool("sendrawtransaction.err") {
		n.rawFailed = true
		return "", false
	}
	b, err := hex.DecodeString(txHex)
	if err != nil {
		n.rawFailed = true
		return "", false // "TX decode failed"
	}
	tx := vwParseTx(b)
	if tx == nil {
		n.rawFailed = true
		return "", false
	}
	return tx.TxHash().String(), true
}

// ---- symbolic side: overrides of the client methods ----

func vwRPCPrepareTx(l *glightning.Lightning, outputs []*glightning.Outputs, feerate *glightning.FeeRate, minConf *uint16) (*glightning.TxResult, error) {
	if minConf != nil {
		zzverif.Fail("txprepare with minconf: not modelled")
	}
	addr, amount := "", uint64(0)
	for _, o := range outputs {
		addr, amount = o.Address, o.Satoshi
	}
	urgent := feerate != nil && feerate.Rate == 0 && feerate.Directive == glightning.Urgent
	if r := vw.node.answerPrepare(len(outputs), addr, amount, urgent); r != nil {
		return r, nil
	}
	return &glightning.TxResult{}, errors.New("txprepare failed")
}

func vwRPCSetPSBTVersion(l *glightning.Lightning, p string, version int) (*glightning.SetPSBTVersionResponse, error) {
	if r, ok := vw.node.answerSetVersion(p, version); ok {
		return &glightning.SetPSBTVersionResponse{Psbt: r}, nil
	}
	return &glightning.SetPSBTVersionResponse{}, errors.New("setpsbtversion failed")
}

func vwRPCSendTx(l *glightning.Lightning, txid string) (*glightning.TxResult, error) {
	if r := vw.node.answerSend(txid); r != nil {
		return r, nil
	}
	return &glightning.TxResult{}, errors.New("txsend failed")
}

func vwRPCNewAddr(l *glightning.Lightning) (string, error) {
	if a, ok := vw.node.answerNewAddr("bech32"); ok {
		return a, nil
	}
	return "", errors.New("newaddr failed")
}

func vwRPCSendRawTx(b *gbitcoin.Bitcoin, txHex string) (string, error) {
	if id, ok := vw.node.answerSendRaw(txHex); ok {
		return id, nil
	}
	return "", errors.New("sendrawtransaction failed")
}

// ---- native side: stand-in lightningd (unix socket) and bitcoind (HTTP) ----

type vwRPCRequest struct {
	Id     json.RawMessage `json:"id"`
	Method string          `json:"method"`
	Params json.RawMessage `json:"params"`
}

func vwReplyBytes(id json.RawMessage, result interface{}, fail bool) []byte {
	m := map[string]interface{}{"jsonrpc": "2.0", "id": id}
	if fail {
		m["error"] = map[string]interface{}{"code": -1, "message": "scripted failure"}
	} else {
		m["result"] = result
	}
	b, err := json.Marshal(m)
	if err != nil {
		panic(err)
	}
	return b
}

func (n *vwNode) vwServeLightningd(ln net.Listener) {
	c, err := ln.Accept()
	if err != nil {
		return
	}
	dec := json.NewDecoder(c)
	reply := func(id json.RawMessage, result interface{}, fail bool) {
		c.Write(append(vwReplyBytes(id, result, fail), '\n', '\n'))
	}
	for {
		var rq vwRPCRequest
		if err := dec.Decode(&rq); err != nil {
			return
		}
		switch rq.Method {
		case "txprepare":
			var p struct {
				Outputs []map[string]string `json:"outputs"`
				FeeRate string              `json:"feerate"`
				MinConf *uint16             `json:"minconf"`
			}
			if err := json.Unmarshal(rq.Params, &p); err != nil {
				panic(err)
			}
			if p.MinConf != nil {
				panic("txprepare with minconf: not modelled")
			}
			addr, amount := "", uint64(0)
			for _, o := range p.Outputs {
				for a, v := range o {
					addr = a
					amount, err = strconv.ParseUint(strings.TrimSuffix(v, "sat"), 10, 64)
					if err != nil {
						panic(err)
					}
				}
			}
			r := n.answerPrepare(len(p.Outputs), addr, amount, p.FeeRate == "urgent")
			reply(rq.Id, r, r == nil)
		case "setpsbtversion":
			var p struct {
				Psbt    string `json:"psbt"`
				Version int    `json:"version"`
			}
			json.Unmarshal(rq.Params, &p)
			r, ok := n.answerSetVersion(p.Psbt, p.Version)
			reply(rq.Id, map[string]interface{}{"psbt": r}, !ok)
		case "txsend":
			var p struct {
				TxId string `json:"txid"`
			}
			json.Unmarshal(rq.Params, &p)
			r := n.answerSend(p.TxId)
			reply(rq.Id, r, r == nil)
		case "newaddr":
			var p struct {
				AddressType string `json:"addresstype"`
			}
			json.Unmarshal(rq.Params, &p)
			a, ok := n.answerNewAddr(p.AddressType)
			reply(rq.Id, map[string]interface{}{"bech32": a}, !ok)
		default:
			panic("stand-in lightningd: unexpected method " + rq.Method)
		}
	}
}

func (n *vwNode) vwServeBitcoind(rw http.ResponseWriter, r *http.Request) {
	var rq vwRPCRequest
	if err := json.NewDecoder(r.Body).Decode(&rq); err != nil {
		panic(err)
	}
	rw.Header().Set("Content-Type", "application/json")
	switch rq.Method {
	case "echo":
		rw.Write(vwReplyBytes(rq.Id, []string{}, false))
	case "sendrawtransaction":
		var p struct {
			Hex string `json:"hexstring"`
		}
		json.Unmarshal(rq.Params, &p)
		id, ok := n.answerSendRaw(p.Hex)
		rw.Write(vwReplyBytes(rq.Id, id, !ok))
	default:
		panic("stand-in bitcoind: unexpected method " + rq.Method)
	}
}

func (n *vwNode) vwServe() (*glightning.Lightning, *gbitcoin.Bitcoin) {
	dir, err := os.MkdirTemp("", "zzv-cln-")
	if err != nil {
		panic(err)
	}
	ln, err := net.Listen("unix", filepath.Join(dir, "rpc"))
	if err != nil {
		panic(err)
	}
	go n.vwServeLightningd(ln)
	gl := glightning.NewLightning()
	if err := gl.StartUp("rpc", dir); err != nil {
		panic(err)
	}
	srv := httptest.NewServer(http.HandlerFunc(n.vwServeBitcoind))
	host, port, err := net.SplitHostPort(strings.TrimPrefix(srv.URL, "http://"))
	if err != nil {
		panic(err)
	}
	pn, _ := strconv.Atoi(port)
	gb := gbitcoin.NewBitcoin("user", "pass", "")
	if err := gb.StartUp("http://"+host, dir, uint(pn)); err != nil {
		panic(err)
	}
	return gl, gb
}

// vwSigner: swap.Signer.
type vwSigner struct {
	w      *vwWorld
	name   string
	priv   *btcec.PrivateKey
	hashes [][]byte
	sigs   []*btecdsa.Signature
}

func vwNewSigner(w *vwWorld, name string, key byte) *vwSigner {
	s := &vwSigner{w: w, name: name}
	if !zzverif.Symbolic() {
		s.priv, _ = btcec.PrivKeyFromBytes(vwFill(key, 32))
	}
	return s
}

func (s *vwSigner) Sign(hash []byte) (*btecdsa.Signature, error) {
	s.hashes = append(s.hashes, hash)
	der := zzverif.Bytes(s.name, 9)
	var sig *btecdsa.Signature
	if zzverif.Symbolic() {
		sig = new(btecdsa.Signature)
		s.w.sigs = append(s.w.sigs, vwSigRec{sig, der})
	} else {
		sig = btecdsa.Sign(s.priv, hash)
	}
	s.sigs = append(s.sigs, sig)
	return sig, nil
}

// ---------------------------------------------------------------------------------------
// C08: CreateOpeningTransaction
// ---------------------------------------------------------------------------------------

// vwOpening runs CreateOpeningTransaction against the lightningd stand-in.
func vwOpening(region int, anyKeys bool, v2 bool) {
	cl, w := vwSetup(anyKeys, v2)
	n := w.node
	n.region = region
	txHex, addr, txId, fee, vout, err := cl.CreateOpeningTransaction(w.params)

	// what lightningd was asked to prepare: one output, the swap amount to the address paying the swap script
	zzverif.Assert(n.prepares == 1, "C08.cln_txprepare_once")
	zzverif.Assert(n.prepEntries == 1 && n.prepAmount == w.params.Amount, "C08.cln_prepares_swap_amount")
	zzverif.Assert(n.prepUrgent, "C08.cln_prepares_with_urgent_feerate")
	if !n.prepared {
		zzverif.Assert(err != nil && n.sends == 0, "C08.cln_prepare_error_propagates")
		return
	}
	zzverif.Assert(bytes.Equal(vwAddrScript(n.prepAddr), w.want), "C08.cln_prepared_address_pays_swap_script")
	zzverif.Assert(n.sends <= 1, "C08.cln_at_most_one_txsend")
	for _, a := range n.sendArgs {
		zzverif.Assert(a == n.prepTxid, "C08.cln_sends_the_prepared_tx")
	}
	if v2 {
		zzverif.Assert(n.setVersions == 1, "C08.cln_v2_psbt_converted_once")
	} else {
		zzverif.Assert(n.setVersions == 0, "C08.cln_v0_psbt_not_converted")
	}
	if region == vwChangeAmountFirst {
		// GetVoutAndVerify (first output carrying the amount) cannot point to the swap output of this
		// transaction: the adapter must fail and must not have lightningd sign and send it
		zzverif.Assert(err != nil, "C08.cln_unlocatable_swap_output_is_an_error")
		zzverif.Assert(n.sends == 0, "C08.cln_unlocatable_swap_output_not_broadcast")
	}
	if err != nil {
		zzverif.Assert(!n.sent, "C08.cln_error_means_not_broadcast")
		zzverif.Assert(txHex == "" && txId == "" && addr == "" && fee == 0 && vout == 0, "C08.cln_nothing_returned_on_error")
		return
	}
	zzverif.Reach("C08.cln_opening_success")
	zzverif.Assert(n.sent && !n.sendFailed, "C08.cln_success_means_broadcast_succeeded")
	if !n.sent {
		return
	}
	zzverif.Assert(txHex == n.signedHex, "C08.cln_txhex_is_broadcast_tx")
	zzverif.Assert(addr == n.prepAddr, "C08.cln_address_is_the_prepared_one")
	raw, _ := hex.DecodeString(n.signedHex)
	btx := vwParseTx(raw)
	zzverif.Assert(btx != nil, "C08.cln_broadcast_tx_parses")
	if btx == nil {
		return
	}
	zzverif.Assert(txId == btx.TxHash().String(), "C08.cln_txid_is_broadcast_txid")
	zzverif.Assert(int(vout) == n.swapIndex, "C08.cln_vout_is_swap_output_index")
	if int(vout) < len(btx.TxOut) {
		o := btx.TxOut[vout]
		zzverif.Assert(o.Value == int64(w.params.Amount) && bytes.Equal(o.PkScript, w.want), "C08.cln_vout_pays_amount_to_swap_script")
	} else {
		zzverif.Assert(false, "C08.cln_vout_pays_amount_to_swap_script")
	}
	ok, gv, gerr := w.chain.GetVoutAndVerify(txHex, w.params)
	zzverif.Assert(gerr == nil && ok && gv == vout, "C08.cln_vout_is_what_GetVoutAndVerify_accepts")
	// fee: inputs of the PSBT minus outputs of the broadcast transaction
	sum := int64(0)
	for _, v := range n.inValues {
		sum += v
	}
	for _, o := range btx.TxOut {
		sum -= o.Value
	}
	zzverif.Assert(fee == uint64(sum), "C08.cln_fee_is_inputs_minus_outputs")
}

// H_C08_clnOpening (node >= v23.05: version-2 PSBT converted with setpsbtversion) and
// H_C08_clnOpeningOldNode (v23.02: version-0 PSBT): (*ClightningClient).CreateOpeningTransaction
// has lightningd prepare exactly {address paying the swap script: Amount} at feerate "urgent",
// converts the PSBT exactly when the node is >= v23.05, sends at most once and only the prepared
// transaction, returns nothing but an error when txprepare / setpsbtversion / txsend fail (and
// then nothing was sent, unless txsend itself reported the failure), and on success returns
// hex = the transaction lightningd signed and broadcast, txid = TxHash(that transaction) — also
// when an input is p2sh-wrapped, i.e. when txprepare reported ANOTHER id —, vout = index of the
// swap output in that transaction (what GetVoutAndVerify accepts), fee = sum of PSBT input values
// - sum of its outputs.
// Bounds: 1..3 outputs (swap output anywhere), 1..2 inputs each native or nested segwit; fixed
// distinct keys and payment hash (arbitrary ones: H_C08_T_clnOpening).
// Region: no CHANGE output carries exactly the swap amount (complement:
// H_C08_clnOpeningChangeEqualsAmount).
func H_C08_clnOpening()        { vwOpening(vwChangeNotAmount, false, true) }
func H_C08_clnOpeningOldNode() { vwOpening(vwChangeNotAmount, false, false) }
func H_C08_T_clnOpening()      { vwOpening(vwChangeNotAmount, true, true) }

// H_C08_clnOpeningChangeEqualsAmount: the complementary region: a change output IN FRONT of the
// swap output carries exactly the swap amount, so GetVoutAndVerify cannot point to the swap
// output: besides everything above, the adapter returns an error and does not call txsend.
// (Defect fixed by e518e46: the adapter dropped the boolean, sent and reported vout 0.)
func H_C08_clnOpeningChangeEqualsAmount() { vwOpening(vwChangeAmountFirst, false, true) }

// ---------------------------------------------------------------------------------------
// C03: Create{Preimage,Csv,Coop}SpendingTransaction
// ---------------------------------------------------------------------------------------

const (
	vwPreimage = 0
	vwCsv      = 1
	vwCoop     = 2
)

// vwOpeningTx draws an opening transaction that passed validation: 1..maxOuts outputs (bound), the
// swap output (Amount, swap script) at index k, no output in front of it with value == Amount (the
// validator and GetVoutAndVerify look at the FIRST output carrying the amount), arbitrary outputs
// around it.  amountInFront: instead an opening transaction that does NOT pass validation: output
// 0, in front of the swap output, carries the amount with another script.  Returns its hex and k.
func vwOpeningTx(w *vwWorld, maxOuts int, amountInFront bool) (string, int, *wire.MsgTx) {
	n := maxOuts - zzverif.Choice("opening.outputs_below_max", maxOuts)
	k := zzverif.Choice("opening.swap_index", n)
	if amountInFront && k == 0 {
		zzverif.Assume(false)
	}
	tx := wire.NewMsgTx(2)
	h := vwCoinTxid(0)
	tx.AddTxIn(wire.NewTxIn(wire.NewOutPoint(&h, zzverif.U32("opening.in_vout")), nil, nil))
	for i := 0; i < n; i++ {
		if i == k {
			tx.AddTxOut(wire.NewTxOut(int64(w.params.Amount), w.want))
			continue
		}
		v := zzverif.I64("opening.other_value")
		if i < k && !(amountInFront && i == 0) {
			zzverif.Assume(v != int64(w.params.Amount))
		}
		if amountInFront && i == 0 {
			zzverif.Assume(v == int64(w.params.Amount))
		}
		tx.AddTxOut(wire.NewTxOut(v, zzverif.Bytes("opening.other_script", 22)))
	}
	blob := []byte("rawtx:opening") // symbolic side: a token
	if !zzverif.Symbolic() {
		blob = vwSerializeTx(tx)
	}
	w.txs = append(w.txs, vwTxBlob{blob, tx})
	return hex.EncodeToString(blob), k, tx
}

func vwSpend(kind int, maxOuts int, anyKeys bool) {
	cl, w := vwSetup(anyKeys, true)
	openHex, k, openTx := vwOpeningTx(w, maxOuts, false)
	preimage := vwFill(0x44, 32)
	if anyKeys {
		preimage = zzverif.Bytes("preimage", 32)
	}
	own := vwNewSigner(w, "own_signature", 0x31)
	peer := vwNewSigner(w, "taker_signature", 0x32)
	claim := &swap.ClaimParams{Preimage: hex.EncodeToString(preimage), Signer: own, OpeningTxHex: openHex}

	var txId, txHex, addr string
	var err error
	switch kind {
	case vwPreimage:
		txId, txHex, addr, err = cl.CreatePreimageSpendingTransaction(w.params, claim)
	case vwCsv:
		txId, txHex, addr, err = cl.CreateCsvSpendingTransaction(w.params, claim)
	default:
		txId, txHex, addr, err = cl.CreateCoopSpendingTransaction(w.params, claim, peer)
	}
	n := w.node

	zzverif.Assert(len(n.rawSends) <= 1 && n.sends == 0 && n.prepares == 0, "C03.cln_at_most_one_broadcast")
	zzverif.Assert(n.newAddrs == 1 && n.bech32Asked, "C03.cln_asks_wallet_for_one_fresh_bech32_address")
	if n.addrErr {
		zzverif.Assert(err != nil && len(n.rawSends) == 0, "C03.cln_newaddr_error_propagates")
		return
	}
	if err != nil {
		zzverif.Assert(n.rawFailed, "C03.cln_error_only_when_broadcast_failed")
		zzverif.Assert(txId == "" && txHex == "" && addr == "", "C03.cln_nothing_returned_on_error")
		return
	}
	zzverif.Reach("C03.cln_spend_success")
	zzverif.Assert(len(n.rawSends) == 1 && !n.rawFailed, "C03.cln_success_means_broadcast_succeeded")
	if len(n.rawSends) != 1 {
		return
	}
	zzverif.Assert(txHex == n.rawSends[0], "C03.cln_txhex_is_broadcast_tx")
	if kind == vwPreimage {
		// (the csv and coop adapters return their named result `address` unassigned: "" — see report)
		zzverif.Assert(addr == n.addr, "C03.cln_returns_wallet_address")
	}
	pub, _ := hex.DecodeString(n.rawSends[0])
	tx := vwParseTx(pub)
	zzverif.Assert(tx != nil, "C03.cln_broadcast_tx_parses")
	if tx == nil {
		return
	}
	zzverif.Assert(txId == tx.TxHash().String(), "C03.cln_txid_is_broadcast_txid")

	zzverif.Assert(tx.Version == 2 && tx.LockTime == 0, "C03.cln_version_2_locktime_0")
	zzverif.Assert(len(tx.TxIn) == 1 && len(tx.TxOut) == 1, "C03.cln_one_input_one_output")
	if len(tx.TxIn) != 1 || len(tx.TxOut) != 1 {
		return
	}
	in := tx.TxIn[0]
	zzverif.Assert(in.PreviousOutPoint.Hash == openTx.TxHash(), "C03.cln_spends_opening_txid")
	zzverif.Assert(in.PreviousOutPoint.Index == uint32(k), "C03.cln_spends_swap_output")
	zzverif.Assert(len(in.SignatureScript) == 0, "C03.cln_empty_scriptsig")
	if kind == vwCsv {
		zzverif.Assert(in.Sequence == onchain.BitcoinCsv, "C03.cln_csv_sequence_is_csv")
	} else {
		zzverif.Assert(in.Sequence == 0, "C03.cln_sequence_0")
	}

	// single output to the wallet's fresh address, value = amount - 200 - fee
	zzverif.Assert(bytes.Equal(tx.TxOut[0].PkScript, append([]byte{0x00, 0x14}, n.prog...)), "C03.cln_pays_wallet_address")
	rates := w.est.perVb
	fee := uint64(0)
	if kind == vwCoop {
		zzverif.Assert(len(rates) >= 1, "C03.cln_coop_fee_from_estimator")
		fee = rates[0] * 250 // GetRefundFee = GetFee(250)
	}
	if fee == 0 {
		fee = rates[len(rates)-1] * (82 + 74) // GetFee(stripped size + largest witness)
	}
	zzverif.Assert(tx.TxOut[0].Value == int64(w.params.Amount)-200-int64(fee), "C03.cln_value_is_amount_minus_200_minus_fee")

	// signatures: over the BIP143 hash of (redeem script, input 0, SIGHASH_ALL, amount) of THIS transaction
	redeem, _ := onchain.GetOpeningTxScript(w.taker, w.maker, w.hash, onchain.BitcoinCsv)
	unsignedTx := &wire.MsgTx{}
	if tx2 := vwParseTx(pub); tx2 != nil {
		unsignedTx = tx2
		unsignedTx.TxIn[0].Witness = nil
	}
	fetcher := txscript.NewCannedPrevOutputFetcher(w.want, int64(w.params.Amount))
	wantHash, _ := txscript.CalcWitnessSigHash(redeem, txscript.NewTxSigHashes(unsignedTx, fetcher), txscript.SigHashAll, unsignedTx, 0, int64(w.params.Amount))
	wit := in.Witness
	if kind == vwCoop {
		zzverif.Assert(len(own.hashes) == 1 && len(peer.hashes) == 1 && bytes.Equal(own.hashes[0], wantHash) && bytes.Equal(peer.hashes[0], wantHash), "C03.cln_both_sign_the_sighash_once")
		zzverif.Assert(len(wit) == 4, "C03.cln_coop_witness_has_4_items")
		if len(wit) == 4 && len(own.sigs) == 1 && len(peer.sigs) == 1 {
			zzverif.Assert(bytes.Equal(wit[0], append(peer.sigs[0].Serialize(), 0x01)), "C03.cln_coop_witness_0_taker_sig")
			zzverif.Assert(bytes.Equal(wit[1], append(own.sigs[0].Serialize(), 0x01)), "C03.cln_coop_witness_1_maker_sig")
			zzverif.Assert(len(wit[2]) == 0, "C03.cln_coop_witness_2_empty")
			zzverif.Assert(bytes.Equal(wit[3], redeem), "C03.cln_coop_witness_3_redeem_script")
		}
		return
	}
	zzverif.Assert(len(own.hashes) == 1 && len(peer.hashes) == 0 && bytes.Equal(own.hashes[0], wantHash), "C03.cln_signs_the_sighash_once")
	if len(own.sigs) != 1 {
		return
	}
	sig := append(own.sigs[0].Serialize(), 0x01)
	if kind == vwCsv {
		zzverif.Assert(len(wit) == 2, "C03.cln_csv_witness_has_2_items")
		if len(wit) == 2 {
			zzverif.Assert(bytes.Equal(wit[0], sig), "C03.cln_csv_witness_0_sig")
			zzverif.Assert(bytes.Equal(wit[1], redeem), "C03.cln_csv_witness_1_redeem_script")
		}
		return
	}
	zzverif.Assert(len(wit) == 5, "C03.cln_preimage_witness_has_5_items")
	if len(wit) == 5 {
		zzverif.Assert(bytes.Equal(wit[0], sig), "C03.cln_preimage_witness_0_sig")
		zzverif.Assert(bytes.Equal(wit[1], preimage), "C03.cln_preimage_witness_1_preimage")
		zzverif.Assert(len(wit[2]) == 0 && len(wit[3]) == 0, "C03.cln_preimage_witness_2_3_empty")
		zzverif.Assert(bytes.Equal(wit[4], redeem), "C03.cln_preimage_witness_4_redeem_script")
	}
}

// H_C03_clnSpendPreimage / Csv / Coop: on every validated opening transaction (1..3 outputs, swap
// output at any index k) the adapter asks lightningd for exactly one fresh bech32 address, hands
// bitcoind at most one transaction (sendrawtransaction; never txprepare/txsend), fails iff newaddr
// or sendrawtransaction failed (returning nothing), and on success returns (TxHash(broadcast tx),
// the broadcast hex[, the wallet address: preimage adapter only]); the broadcast transaction has
// version 2, locktime 0, one input (TxHash(opening tx), k) with empty scriptSig and nSequence 0
// (preimage, coop) / 1008 (csv), one output OP_0 <wallet program> of value Amount-200-fee (fee =
// rate*156, coop: rate*250 unless that is 0); the signer(s) signed exactly once the sighash of
// (redeem script, input 0, SIGHASH_ALL, Amount) of that transaction; witness = [sig|01, preimage,
// "", "", script] / [sig|01, script] / [taker sig|01, own sig|01, "", script].
// Bounds: opening tx <= 3 outputs (coop quick: <= 2); fee rate whole 0..65535 sat/vB; quick tier:
// fixed distinct keys, payment hash and preimage (arbitrary ones: the _T_ entries and, for the
// builder, H_C03_btc*Spend in harness/onchain).
func H_C03_clnSpendPreimage() { vwSpend(vwPreimage, 3, false) }
func H_C03_clnSpendCsv()      { vwSpend(vwCsv, 3, false) }
func H_C03_clnSpendCoop()     { vwSpend(vwCoop, 2, false) }

// Thorough tier: arbitrary keys / payment hash / preimage (maker != taker), <= 3 outputs (coop: <= 2).
func H_C03_T_clnSpendPreimage() { vwSpend(vwPreimage, 3, true) }
func H_C03_T_clnSpendCsv()      { vwSpend(vwCsv, 3, true) }
func H_C03_T_clnSpendCoop()     { vwSpend(vwCoop, 2, true) }

// H_C03_clnSpendUnvalidatedOpening: an opening transaction that would NOT pass validation (2..3
// outputs, output 0 carries the amount with another script, the swap output sits behind it): each
// of the three adapters returns an error, broadcasts nothing and asks nobody to sign.
func H_C03_clnSpendUnvalidatedOpening() {
	cl, w := vwSetup(false, true)
	openHex, _, _ := vwOpeningTx(w, 3, true)
	own := vwNewSigner(w, "own_signature", 0x31)
	peer := vwNewSigner(w, "taker_signature", 0x32)
	claim := &swap.ClaimParams{Preimage: hex.EncodeToString(vwFill(0x44, 32)), Signer: own, OpeningTxHex: openHex}
	var txId, txHex, addr string
	var err error
	switch zzverif.Choice("adapter", 3) {
	case vwPreimage:
		txId, txHex, addr, err = cl.CreatePreimageSpendingTransaction(w.params, claim)
	case vwCsv:
		txId, txHex, addr, err = cl.CreateCsvSpendingTransaction(w.params, claim)
	default:
		txId, txHex, addr, err = cl.CreateCoopSpendingTransaction(w.params, claim, peer)
	}
	zzverif.Assert(err != nil, "C03.cln_unvalidated_opening_is_an_error")
	zzverif.Assert(len(w.node.rawSends) == 0 && w.node.sends == 0, "C03.cln_unvalidated_opening_nothing_broadcast")
	zzverif.Assert(len(own.hashes) == 0 && len(peer.hashes) == 0, "C03.cln_unvalidated_opening_nothing_signed")
	zzverif.Assert(txId == "" && txHex == "" && addr == "", "C03.cln_unvalidated_opening_nothing_returned")
}
