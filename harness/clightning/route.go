//go:build verif

package clightning

// Route part of C24 / C04 / C05 for the core-lightning back-end: buildDirectClaimRoute and the
// three callers payInvoiceViaChannel, PayInvoiceViaChannel, RebalancePayment.
//
// Environment: lightningd, reached through the concrete *glightning.Lightning client.  Under the
// symbolic executor the three client methods the payment path uses (DecodeBolt11, SendPay,
// WaitSendPay) are overridden by the vr* functions below; natively the very same answers are
// given by a stand-in lightningd (vrServe) that speaks JSON-RPC over a unix socket to the real
// glightning client, so counterexamples and validation witnesses run through the real client code.
//
// Contract assumed for lightningd/glightning (nothing else):
//   - DecodeBolt11(s) fails without a request for s == "" (glightning code), otherwise answers
//     an error or an invoice with ARBITRARY payee, amount (uint64), min_final_cltv_expiry (any Go
//     int: `decode` yields a uint converted with int(), `decodepay` an int), hash, secret;
//   - SendPay fails without a request for an empty payment hash or empty route (glightning code),
//     otherwise records the request and answers ok or error;
//   - WaitSendPay fails without a request for an empty payment hash, otherwise answers an error or
//     an arbitrary preimage string.

import (
	"encoding/json"
	"errors"
	"net"
	"os"
	"path/filepath"
	"strings"

	"github.com/elementsproject/glightning/glightning"
	"github.com/elementsproject/peerswap/zzverif"
)

// ---------------------------------------------------------------------------------------
// ghost state
// ---------------------------------------------------------------------------------------

type vrSendPay struct {
	route   []glightning.RouteHop
	hash    string
	label   string
	msat    uint64
	bolt11  string
	secret  string
	partId  uint64
	waitsBy int // number of waitsendpay requests seen before this sendpay
}

type vrNode struct {
	decodes  []string // strings lightningd was asked to decode
	decoded  *glightning.DecodedBolt11
	sendpays []vrSendPay
	waits    []string
	preimage string
	waitOK   bool
}

var vrCur *vrNode

// vrInvoice draws an arbitrary decoded invoice.
func vrInvoice() *glightning.DecodedBolt11 {
	return &glightning.DecodedBolt11{
		Payee:              zzverif.Str("inv.payee"),
		AmountMsat:         glightning.AmountFromMSat(zzverif.U64("inv.msat")),
		MinFinalCltvExpiry: zzverif.Int("inv.cltv"),
		PaymentHash:        zzverif.Str("inv.hash"),
		PaymentSecret:      zzverif.Str("inv.secret"),
	}
}

// ---- lightningd's answers (shared by the symbolic overrides and the native stand-in) ----

func (n *vrNode) answerDecode(s string) *glightning.DecodedBolt11 {
	n.decodes = append(n.decodes, s)
	zzverif.Effect("cln.decode")
	if zzverif.Bool("decode.err") {
		return nil
	}
	n.decoded = vrInvoice()
	return n.decoded
}

func (n *vrNode) answerSendPay(p vrSendPay) bool {
	p.waitsBy = len(n.waits)
	n.sendpays = append(n.sendpays, p)
	zzverif.Effect("cln.sendpay")
	return !zzverif.Bool("sendpay.err")
}

func (n *vrNode) answerWait(hash string) (string, bool) {
	n.waits = append(n.waits, hash)
	zzverif.Effect("cln.waitsendpay")
	if zzverif.Bool("waitsendpay.err") {
		return "", false
	}
	n.preimage, n.waitOK = zzverif.Str("waitsendpay.preimage"), true
	return n.preimage, true
}

// ---- symbolic side: overrides of the three glightning methods ----

func vrDecodeBolt11(l *glightning.Lightning, bolt11 string) (*glightning.DecodedBolt11, error) {
	if bolt11 == "" {
		return nil, errors.New("Must call decode pay with a bolt11")
	}
	if d := vrCur.answerDecode(bolt11); d != nil {
		return d, nil
	}
	return nil, errors.New("decode failed")
}

func vrSendPayRPC(l *glightning.Lightning, route []glightning.RouteHop, paymentHash, label string, msat uint64, bolt11 string, paymentSecret string, partId uint64) (*glightning.SendPayResult, error) {
	if paymentHash == "" {
		return nil, errors.New("Must specify a paymentHash to pay")
	}
	if len(route) == 0 {
		return nil, errors.New("Must specify a route to send payment along")
	}
	r := make([]glightning.RouteHop, len(route))
	copy(r, route)
	if vrCur.answerSendPay(vrSendPay{route: r, hash: paymentHash, label: label, msat: msat, bolt11: bolt11, secret: paymentSecret, partId: partId}) {
		return &glightning.SendPayResult{}, nil
	}
	return &glightning.SendPayResult{}, errors.New("sendpay failed")
}

func vrWaitSendPay(l *glightning.Lightning, paymentHash string, timeout uint) (*glightning.SendPayFields, error) {
	if paymentHash == "" {
		return nil, errors.New("Must provide a payment hash to pay")
	}
	if pre, ok := vrCur.answerWait(paymentHash); ok {
		return &glightning.SendPayFields{PaymentPreimage: pre}, nil
	}
	return &glightning.SendPayFields{}, errors.New("waitsendpay failed")
}

// ---- native side: stand-in lightningd on a unix socket ----

type vrRPCRequest struct {
	Id     json.RawMessage `json:"id"`
	Method string          `json:"method"`
	Params json.RawMessage `json:"params"`
}

func vrReply(c net.Conn, id json.RawMessage, result interface{}, fail bool) {
	m := map[string]interface{}{"jsonrpc": "2.0", "id": id}
	if fail {
		m["error"] = map[string]interface{}{"code": -1, "message": "scripted failure"}
	} else {
		m["result"] = result
	}
	b, err := json.Marshal(m)
	if err != nil {
		panic(err)
	}
	c.Write(append(b, '\n', '\n'))
}

func (n *vrNode) vrServe(ln net.Listener) {
	c, err := ln.Accept()
	if err != nil {
		return
	}
	dec := json.NewDecoder(c)
	for {
		var rq vrRPCRequest
		if err := dec.Decode(&rq); err != nil {
			return
		}
		switch rq.Method {
		case "decode":
			// answer through the compatibility path only: `decodepay` carries a signed
			// min_final_cltv_expiry, so one native path covers every value of the contract
			vrReply(c, rq.Id, nil, true)
		case "decodepay":
			var p struct {
				Bolt11 string `json:"bolt11"`
			}
			json.Unmarshal(rq.Params, &p)
			d := n.answerDecode(p.Bolt11)
			if d == nil {
				vrReply(c, rq.Id, nil, true)
				break
			}
			vrReply(c, rq.Id, map[string]interface{}{
				"payee": d.Payee, "amount_msat": d.AmountMsat.MSat(), "min_final_cltv_expiry": d.MinFinalCltvExpiry,
				"payment_hash": d.PaymentHash, "payment_secret": d.PaymentSecret,
			}, false)
		case "sendpay":
			var p struct {
				Route   []glightning.RouteHop `json:"route"`
				Hash    string                `json:"payment_hash"`
				Label   string                `json:"label"`
				Msat    uint64                `json:"amount_msat"`
				Bolt11  string                `json:"bolt11"`
				Secret  string                `json:"payment_secret"`
				PartId  uint64                `json:"partid"`
				Retries *int                  `json:"retry_for"`
			}
			if err := json.Unmarshal(rq.Params, &p); err != nil {
				panic(err)
			}
			ok := n.answerSendPay(vrSendPay{route: p.Route, hash: p.Hash, label: p.Label, msat: p.Msat, bolt11: p.Bolt11, secret: p.Secret, partId: p.PartId})
			vrReply(c, rq.Id, map[string]interface{}{"message": "", "payment_hash": p.Hash}, !ok)
		case "waitsendpay":
			var p struct {
				Hash string `json:"payment_hash"`
			}
			json.Unmarshal(rq.Params, &p)
			pre, ok := n.answerWait(p.Hash)
			vrReply(c, rq.Id, map[string]interface{}{"payment_hash": p.Hash, "payment_preimage": pre}, !ok)
		default:
			panic("stand-in lightningd: unexpected method " + rq.Method)
		}
	}
}

// vrClient wires a ClightningClient to the modelled lightningd.
func vrClient() (*ClightningClient, *vrNode) {
	n := &vrNode{}
	vrCur = n
	if zzverif.Symbolic() {
		zzverif.Override("(*github.com/elementsproject/glightning/glightning.Lightning).DecodeBolt11", vrDecodeBolt11)
		zzverif.Override("(*github.com/elementsproject/glightning/glightning.Lightning).SendPay", vrSendPayRPC)
		zzverif.Override("(*github.com/elementsproject/glightning/glightning.Lightning).WaitSendPay", vrWaitSendPay)
		return &ClightningClient{glightning: &glightning.Lightning{}}, n
	}
	dir, err := os.MkdirTemp("", "zzv-cln-")
	if err != nil {
		panic(err)
	}
	ln, err := net.Listen("unix", filepath.Join(dir, "rpc"))
	if err != nil {
		panic(err)
	}
	go n.vrServe(ln)
	gl := glightning.NewLightning()
	if err := gl.StartUp("rpc", dir); err != nil {
		panic(err)
	}
	return &ClightningClient{glightning: gl}, n
}

// ---------------------------------------------------------------------------------------
// scid spellings
// ---------------------------------------------------------------------------------------

func vrSep(name string) string {
	if zzverif.Choice(name, 2) == 0 {
		return ":"
	}
	return "x"
}

// vrScid draws a short channel id "A<sep>B<sep>C" with each separator independently ':' or 'x'
// (LND spelling, CLN spelling and the mixed ones) and returns it together with its CLN spelling
// "AxBxC".  A, B, C: arbitrary strings without either separator character (digits in real ids).
// Bound: at most 14 characters in total.
func vrScid() (scid, clnSpelling string) {
	a, b, c := zzverif.Str("scid.blk"), zzverif.Str("scid.tx"), zzverif.Str("scid.out")
	for _, p := range []string{a, b, c} {
		zzverif.Assume(!strings.Contains(p, ":"))
		zzverif.Assume(!strings.Contains(p, "x"))
	}
	scid = a + vrSep("scid.sep1") + b + vrSep("scid.sep2") + c
	zzverif.Assume(len(scid) <= 14)
	return scid, a + "x" + b + "x" + c
}

// ---------------------------------------------------------------------------------------
// buildDirectClaimRoute
// ---------------------------------------------------------------------------------------

// H_C24_clnRoute: whenever buildDirectClaimRoute yields a route it has exactly one hop, over the
// swap channel in 'x' spelling (whatever spelling was passed), to the invoice's payee, for the
// invoice's amount.  All invoices, all limits (uint32).  Bound: scid <= 14 characters.
func H_C24_clnRoute() {
	inv := vrInvoice()
	scid, want := vrScid()
	limit := zzverif.U32("limit")
	route, err := buildDirectClaimRoute(inv, scid, limit)
	if err != nil {
		zzverif.Assert(route == nil, "C24.cln_no_route_on_error")
		return
	}
	zzverif.Assert(len(route) == 1, "C24.cln_single_hop")
	hop := route[0]
	zzverif.Assert(hop.ShortChannelId == want, "C24.cln_hop_channel")
	zzverif.Assert(hop.Id == inv.Payee, "C24.cln_hop_payee")
	zzverif.Assert(hop.AmountMsat.MSat() == inv.AmountMsat.MSat(), "C24.cln_hop_amount")
	zzverif.Assert(hop.Direction == 0, "C24.cln_hop_direction")
}

// H_C04_clnRouteDelay: with a limit L != 0 a route is built exactly when 0 <= f and f+1 <= L
// (f = the invoice's min_final_cltv_expiry, any Go int; 64-bit comparison, no wrap) and then the
// single hop carries Delay = f+1 <= L.  All L in 1..2^32-1, all f.
func H_C04_clnRouteDelay() {
	inv := vrInvoice()
	f := int64(inv.MinFinalCltvExpiry)
	limit := zzverif.U32("limit")
	zzverif.Assume(limit != 0)
	route, err := buildDirectClaimRoute(inv, "1x2x3", limit)
	fits := f >= 0 && f < int64(limit)
	zzverif.Assert((err == nil) == fits, "C04.cln_route_iff_within_limit")
	if err == nil {
		zzverif.Assert(len(route) == 1 && int64(route[0].Delay) == f+1 && route[0].Delay <= limit, "C04.cln_delay_is_cltv_plus_1")
	}
}

// H_C04_clnRouteLimit32: the Liquid instance: limit 32 => route iff 0 <= f <= 31, Delay = f+1 <= 32.
func H_C04_clnRouteLimit32() {
	inv := vrInvoice()
	f := int64(inv.MinFinalCltvExpiry)
	route, err := buildDirectClaimRoute(inv, "1x2x3", 32)
	zzverif.Assert((err == nil) == (f >= 0 && f <= 31), "C04.cln_limit32_refuses")
	if err == nil {
		zzverif.Assert(len(route) == 1 && int64(route[0].Delay) == f+1 && route[0].Delay <= 32, "C04.cln_limit32_delay")
	}
}

// H_C05_clnRouteNoLimit: limit 0 (Bitcoin, fee invoices): no limit is applied, a route is always
// built and its total delay is exactly uint32(f+1); for 0 <= f <= 2^32-2 that is f+1 without wrap.
func H_C05_clnRouteNoLimit() {
	inv := vrInvoice()
	f := inv.MinFinalCltvExpiry
	route, err := buildDirectClaimRoute(inv, "1x2x3", 0)
	zzverif.Assert(err == nil && len(route) == 1, "C05.cln_no_limit_always_routes")
	if err == nil && len(route) == 1 {
		zzverif.Assert(route[0].Delay == uint32(f+1), "C05.cln_delay_exact")
		if f >= 0 && int64(f) <= 0xFFFFFFFE {
			zzverif.Assert(int64(route[0].Delay) == int64(f)+1, "C05.cln_delay_is_cltv_plus_1")
		}
	}
}

// ---------------------------------------------------------------------------------------
// payInvoiceViaChannel and its exported callers
// ---------------------------------------------------------------------------------------

// vrPay runs one of the three payment entry points; returns the limit that entry point applies.
func vrPay(cl *ClightningClient, payreq, scid string, limit uint32) (uint32, string, error) {
	switch zzverif.Choice("entrypoint", 3) {
	case 0:
		pre, err := cl.PayInvoiceViaChannel(payreq, scid)
		return 0, pre, err
	case 1:
		pre, err := cl.RebalancePayment(payreq, scid, limit)
		return limit, pre, err
	}
	pre, err := cl.payInvoiceViaChannel(payreq, scid, limit)
	return limit, pre, err
}

// H_C24_clnPay: PayInvoiceViaChannel (fee invoice, limit 0), RebalancePayment and
// payInvoiceViaChannel (claim invoice, any limit) ask lightningd for at most one `sendpay`, after
// decoding exactly the given payreq; that sendpay is one part (partid 0) with a one-hop route over
// the swap channel ('x' spelling) to the invoice's payee, hop amount = sendpay amount = invoice
// amount, for the invoice's payment hash/secret and carrying the original payreq; a preimage is
// returned only after that sendpay was accepted and is the one waitsendpay reported.
// All invoices, all limits.  Bound: scid <= 14 characters.
func H_C24_clnPay() {
	cl, n := vrClient()
	payreq := zzverif.Str("payreq")
	scid, want := vrScid()
	_, pre, err := vrPay(cl, payreq, scid, zzverif.U32("limit"))
	zzverif.Assert(len(n.sendpays) <= 1 && len(n.waits) <= len(n.sendpays), "C24.cln_at_most_one_htlc")
	for _, d := range n.decodes {
		zzverif.Assert(d == payreq, "C24.cln_decodes_given_payreq")
	}
	if len(n.sendpays) == 1 {
		zzverif.Reach("cln.sendpay")
		sp, inv := n.sendpays[0], n.decoded
		zzverif.Assert(inv != nil && len(n.decodes) == 1, "C24.cln_sendpay_after_decode")
		zzverif.Assert(len(sp.route) == 1, "C24.cln_pay_single_hop")
		if inv != nil && len(sp.route) == 1 {
			hop := sp.route[0]
			zzverif.Assert(hop.ShortChannelId == want, "C24.cln_pay_hop_channel")
			zzverif.Assert(hop.Id == inv.Payee, "C24.cln_pay_hop_payee")
			zzverif.Assert(hop.AmountMsat.MSat() == inv.AmountMsat.MSat(), "C24.cln_pay_hop_amount")
			zzverif.Assert(sp.msat == inv.AmountMsat.MSat(), "C24.cln_pay_sendpay_amount")
			zzverif.Assert(sp.hash == inv.PaymentHash && sp.secret == inv.PaymentSecret, "C24.cln_pay_hash_secret")
			zzverif.Assert(sp.bolt11 == payreq && sp.partId == 0, "C24.cln_pay_original_payreq_one_part")
		}
		zzverif.Assert(sp.waitsBy == 0, "C24.cln_wait_after_sendpay")
		for _, w := range n.waits {
			zzverif.Assert(w == sp.hash, "C24.cln_waits_for_same_hash")
		}
	}
	if err == nil {
		zzverif.Reach("cln.paid")
		zzverif.Assert(len(n.sendpays) == 1 && len(n.waits) == 1 && n.waitOK && pre == n.preimage, "C24.cln_preimage_from_waitsendpay")
	} else {
		zzverif.Assert(pre == "", "C24.cln_no_preimage_on_error")
	}
}

// H_C04_clnPayLimit: whatever entry point is used with limit L != 0, a sendpay reaches lightningd
// only for an invoice with 0 <= f and f+1 <= L, and its single hop has Delay = f+1.  With L = 32
// (the value the swap package passes for Liquid v7): Delay <= 32.
func H_C04_clnPayLimit() {
	cl, n := vrClient()
	limit := zzverif.U32("limit")
	zzverif.Assume(limit != 0)
	var err error
	if zzverif.Choice("entrypoint", 2) == 0 {
		_, err = cl.RebalancePayment(zzverif.Str("payreq"), "1x2x3", limit)
	} else {
		_, err = cl.payInvoiceViaChannel(zzverif.Str("payreq"), "1x2x3", limit)
	}
	zzverif.Assert(err != nil || len(n.sendpays) == 1, "C04.cln_pay_success_needs_sendpay")
	for _, sp := range n.sendpays {
		zzverif.Reach("cln.sendpay_limited")
		f := int64(n.decoded.MinFinalCltvExpiry)
		zzverif.Assert(f >= 0 && f < int64(limit), "C04.cln_pay_only_within_limit")
		zzverif.Assert(len(sp.route) == 1 && int64(sp.route[0].Delay) == f+1 && sp.route[0].Delay <= limit, "C04.cln_pay_delay")
		zzverif.Assert(limit != 32 || sp.route[0].Delay <= 32, "C04.cln_pay_delay_le_32")
	}
}

// H_C05_clnPayNoLimit: PayInvoiceViaChannel, and RebalancePayment with limit 0 (what the swap
// package passes for Bitcoin swaps), apply no limit: every decodable invoice with a non-empty
// payment hash is sent, with total route delay exactly uint32(f+1) (= f+1 for 0 <= f <= 2^32-2).
func H_C05_clnPayNoLimit() {
	cl, n := vrClient()
	if zzverif.Choice("entrypoint", 2) == 0 {
		cl.PayInvoiceViaChannel(zzverif.Str("payreq"), "1x2x3")
	} else {
		cl.RebalancePayment(zzverif.Str("payreq"), "1x2x3", 0)
	}
	if n.decoded != nil && n.decoded.PaymentHash != "" {
		zzverif.Assert(len(n.sendpays) == 1, "C05.cln_no_limit_always_sends")
	}
	for _, sp := range n.sendpays {
		f := n.decoded.MinFinalCltvExpiry
		zzverif.Assert(len(sp.route) == 1 && sp.route[0].Delay == uint32(f+1), "C05.cln_pay_delay_exact")
		if f >= 0 && int64(f) <= 0xFFFFFFFE {
			zzverif.Assert(int64(sp.route[0].Delay) == int64(f)+1, "C05.cln_pay_delay_is_cltv_plus_1")
		}
	}
}
