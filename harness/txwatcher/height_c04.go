//go:build verif

package txwatcher

import (
	"context"
	"errors"
	"time"

	"github.com/elementsproject/peerswap/zzverif"
)

// vTipChain: a chain daemon whose tip moves: while the block poller runs it answers the heights seen[0],
// seen[1] (then keeps answering the last), and once `now` is set it answers the current tip.
type vTipChain struct {
	seen   [2]uint64
	calls  int
	now    bool
	tip    uint64
	tipErr bool
}

func (c *vTipChain) GetBlockHeight() (uint64, error) {
	if c.now {
		if c.tipErr {
			return 0, errors.New("getblockcount failed")
		}
		return c.tip, nil
	}
	k := c.calls
	c.calls++
	if k > 1 {
		k = 1
	}
	return c.seen[k], nil
}
func (c *vTipChain) GetBlockHash(height uint32) (string, error) { return "hash", nil }
func (c *vTipChain) GetTxOut(txid string, vout uint32) (*TxOutResp, error) {
	return nil, errors.New("not used")
}
func (c *vTipChain) GetRawtransactionWithBlockHash(txId string, blockHash string) (string, error) {
	return "", errors.New("not used")
}

// vTwoTicks replaces time.NewTicker on the symbolic side: a ticker that fires twice and then never again (the
// poller then waits; as a logical goroutine it is idle from there on).
func vTwoTicks(d time.Duration) *time.Ticker {
	ch := make(chan time.Time, 2)
	ch <- time.Time{}
	ch <- time.Time{}
	return &time.Ticker{C: ch}
}

// H_C04_rpcWatcherHeightIsTheChainsAnswerNow: the height the swap compares the payment window with
// (BlockchainRpcTxWatcher.GetBlockHeight; C04's "current height", C05's start height) is what the daemon
// answers at the moment of the call - also while the watcher's own block poller has been running and has
// seen earlier tips (the poller hands blocks to a dispatcher and may sit there for long: whatever it saw last
// is not the tip).  An error of the daemon is reported, not papered over.
// Bounds: the poller saw two tips (arbitrary) before the call; heights < 2^32.
func H_C04_rpcWatcherHeightIsTheChainsAnswerNow() {
	chain := &vTipChain{seen: [2]uint64{uint64(zzverif.U32("seen.0")), uint64(zzverif.U32("seen.1"))},
		tip: uint64(zzverif.U32("tip")), tipErr: zzverif.Bool("tip.err")}
	ctx, cancel := context.WithCancel(context.Background())
	wt := NewBlockchainRpcTxWatcher(ctx, chain, 3)
	if zzverif.Symbolic() {
		zzverif.Override("time.NewTicker", vTwoTicks)
		zzverif.GoLogical(true)
	}
	go func() { _ = wt.StartBlockWatcher() }()
	if zzverif.Symbolic() {
		zzverif.GoLogical(false)
	} else {
		time.Sleep(1300 * time.Millisecond) // two ticks of the real 500 ms ticker
	}
	chain.now = true
	h, err := wt.GetBlockHeight()
	cancel()
	zzverif.Reach("c04.height_read_while_poller_runs")
	if chain.tipErr {
		zzverif.Assert(err != nil, "C04.rpc_height_error_is_reported")
	} else {
		zzverif.Assert(err == nil && h == uint32(chain.tip), "C04.rpc_height_is_the_chains_answer_now")
	}
}
