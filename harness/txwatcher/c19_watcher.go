//go:build verif

package txwatcher

import (
	"context"
	"time"

	"github.com/elementsproject/peerswap/zzverif"
)

// H_C19_blockLoopVsRegistration: the goroutine StartWatchingTxs starts fans every new block out to the
// observers registered so far (it walks observerLoopList), while a swap that has just learned its opening
// transaction registers a new observer (AddWaitForConfirmationTx writes the same map).
// Symbolically the block loop is the logical goroutine the code itself starts: one block notification is
// queued and the context is already cancelled, so the loop handles the block (or stops at once) and ends.
// Natively the loop runs on its real goroutine, gets one block and is cancelled afterwards.
func H_C19_blockLoopVsRegistration() {
	chain := &vChain{mode: vAnyNotif}
	ctx, cancel := context.WithCancel(context.Background())
	wt := NewBlockchainRpcTxWatcher(ctx, chain, 3)
	start := zzverif.U32("start")
	blockLoop := func() {
		if zzverif.Symbolic() {
			// the polling goroutine (StartBlockWatcher: ticker, getblockcount, push to newBlockChan) is
			// represented by the one block queued here
			zzverif.Override("(*github.com/elementsproject/peerswap/txwatcher.BlockchainRpcTxWatcher).StartBlockWatcher", vNoBlockWatcher)
			wt.newBlockChan <- 100
			cancel()
			zzverif.GoLogical(true)
			wt.StartWatchingTxs()
			zzverif.GoLogical(false)
			return
		}
		wt.StartWatchingTxs()
		select {
		case wt.newBlockChan <- 100:
		case <-time.After(2 * time.Second):
		}
		time.Sleep(300 * time.Millisecond)
		cancel()
	}
	register := func() { wt.AddWaitForConfirmationTx(vSwapID, vTxID, 0, start, 1008, nil) }
	zzverif.Race2("C19.race_free", blockLoop, register)
	if !zzverif.Symbolic() {
		cancel()
	}
}

func vNoBlockWatcher(s *BlockchainRpcTxWatcher) error { return nil }
