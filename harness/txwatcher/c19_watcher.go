//go:build verif

package txwatcher

import (
	"context"
	"time"

	"github.com/elementsproject/peerswap/zzverif"
)

// H_C19_blockLoopVsRegistration: the goroutine StartWatchingTxs starts fans every new block out to the
// observers registered so far (it walks observerLoopList), while a swap that has just learned its opening
// transaction registers a new observer (AddWaitForConfirmationTx writes the same map).
// Symbolically the block loop is the logical goroutine the code itself starts: one block notification is
// queued and the context is already cancelled, so the loop handles the block (or stops at once) and ends.
// Natively the loop runs on its real goroutine, gets one block and is cancelled afterwards.
func H_C19_blockLoopVsRegistration() {
	chain := &vChain{mode: vAnyNotif}
	ctx, cancel := context.WithCancel(context.Background())
	wt := NewBlockchainRpcTxWatcher(ctx, chain, 3)
	start := zzverif.U32("start")
	blockLoop := func() {
		if zzverif.Symbolic() {
			// the polling goroutine (StartBlockWatcher: ticker, getblockcount, push to newBlockChan) is
			// represented by the one block queued here
			zzverif.Override("(*github.com/elementsproject/peerswap/txwatcher.BlockchainRpcTxWatcher).StartBlockWatcher", vNoBlockWatcher)
			wt.newBlockChan <- 100
			cancel()
			zzverif.GoLogical(true)
			wt.StartWatchingTxs()
			zzverif.GoLogical(false)
			return
		}
		wt.StartWatchingTxs()
		select {
		case wt.newBlockChan <- 100:
		case <-time.After(2 * time.Second):
		}
		time.Sleep(300 * time.Millisecond)
		cancel()
	}
	register := func() { wt.AddWaitForConfirmationTx(vSwapID, vTxID, 0, start, 1008, nil) }
	zzverif.Race2("C19.race_free", blockLoop, register)
	if !zzverif.Symbolic() {
		cancel()
	}
}

func vNoBlockWatcher(s *BlockchainRpcTxWatcher) error { return nil }

// H_C19_csvScanVsRegistration: a block notification scans the csv watch list (HandleCsvTx: one gettxout
// per entry, callbacks) while another swap registers its csv watch (AddWaitForCsvTx) or a finished one is
// removed (TxClaimed).
func H_C19_csvScanVsRegistration() {
	chain := &vChain{mode: vAnyNotif}
	wt := NewBlockchainRpcTxWatcher(context.Background(), chain, 3)
	wt.AddCsvCallback(func(swapId string) error { return nil })
	start := zzverif.U32("start")
	// one swap is being watched already (registered without the immediate check goroutine mattering)
	wt.csvtxWatchList["swap-0"] = &SwapTxInfo{TxId: "tx-0", TxVout: 0, Csv: 1008, StartingBlockHeight: start}
	block := uint64(zzverif.U32("block"))
	removal := zzverif.Bool("second_is_removal")
	scan := func() { _ = wt.HandleCsvTx(block) }
	change := func() {
		if removal {
			wt.TxClaimed([]string{"swap-0"})
		} else {
			wt.AddWaitForCsvTx(vSwapID, vTxID, 0, start, 1008, nil)
		}
	}
	zzverif.Race2("C19.race_free", scan, change)
}
