//go:build verif

package txwatcher

import (
	"context"
	"time"

	"github.com/elementsproject/peerswap/zzverif"
)

// H_C20_csvOnceWhileCallbackRuns: schedules.  The output is already mature when the swap registers its csv
// watch, so the registration's own check (the goroutine AddWaitForCsvTx starts) calls back; while that
// callback is still running - the swap service is claiming the output, which takes a wallet round trip -
// a new block makes the block loop scan the watch list as well.  The swap must be told once.
// Symbolically the registration goroutine and the block scan are logical goroutines (the scan is started
// from inside the first callback and is parked where the code serialises csv handling); natively they
// are real goroutines.  Bounds: one registration, one concurrent block, chain answers arbitrary per query.
func H_C20_csvOnceWhileCallbackRuns() {
	chain := newCsvChain()
	wt := NewBlockchainRpcTxWatcher(context.Background(), chain, 3)
	calls, scanned := 0, false
	block := uint64(zzverif.U32("block"))
	csv := zzverif.U32("csv")
	wt.AddCsvCallback(func(swapId string) error {
		calls++
		if !scanned {
			scanned = true
			zzverif.Concurrently(func() { _ = wt.HandleCsvTx(block) })
		}
		return nil
	})
	zzverif.GoLogical(true)
	wt.AddWaitForCsvTx("swap-a", "tx-a", zzverif.U32("vout"), zzverif.U32("start"), csv, nil)
	zzverif.GoLogical(false)
	if !zzverif.Symbolic() {
		time.Sleep(500 * time.Millisecond)
	}
	zzverif.Reach("c20.csv_registration_done")
	zzverif.Assert(zzverif.Blocked() == 0, "C20.csv_scan_not_blocked")
	zzverif.Assert(calls <= 1, "C20.csv_reported_at_most_once_while_callback_runs")
}
