//go:build verif

package txwatcher

import (
	"context"

	"github.com/elementsproject/peerswap/zzverif"
)

// vHandoverWatcher: the real watcher with a callback that only records and calls judge.
func vHandoverWatcher(c *vChain, required, start, window uint32, judge func(ok bool)) *BlockchainRpcTxWatcher {
	c.start = start
	c.deadline32 = start + window
	c.end64 = uint64(start) + uint64(window)
	vInstallLog(c)
	l := NewBlockchainRpcTxWatcher(context.Background(), c, required)
	l.AddConfirmationCallback(func(swapId, txHex string, err error) error {
		c.calls++
		if err != nil {
			c.errCall = true
		} else {
			c.okCalls++
		}
		judge(err == nil)
		return nil
	})
	return l
}

// H_C04_rpcWatcherDeadline: Liquid parameters of the RPC watcher (LiquidConfs 2, window 60),
// every anchor including anchor+60 >= 2^32, notification heights unrelated to RPC answers.
//   - ok is only delivered for a notification height h with h < anchor+60 in 64-bit arithmetic,
//     a chain tip (the height the lookup itself read) < anchor+60 in 64-bit arithmetic
//     and a first-confirmation height <= anchor+60;
//   - a notification with h >= anchor+60 (64-bit) is answered by the error callback;
//   - without wrap the deadline error is issued exactly for h >= anchor+60; when anchor+60
//     wraps the watcher is only more conservative (Reach witness);
//   - NOT guaranteed by this watcher: anchor <= h (Reach witness "rpc_ok_below_anchor"):
//     the lower bound is left to checkPaymentWindow on the swap side.
//
// Bounds: <= 2 notifications, scan <= 3 blocks.
func H_C04_rpcWatcherDeadline() {
	zzverif.Unwind(24)
	anchor := zzverif.U32("anchor")
	const window = 60
	c := &vChain{mode: vAnyNotif}
	end := uint64(anchor) + window
	noWrap := end < 1<<32
	l := vHandoverWatcher(c, 2, anchor, window, func(ok bool) {
		if ok {
			zzverif.Assert(c.processed && uint64(c.cur) < end, "C04.rpc_ok_inside_window64")
			// the tip the lookup itself read (truncated as the code does) is inside the window too
			zzverif.Assert(c.haveH && uint64(uint32(c.H)) < end, "C04.rpc_ok_tip_inside_window64")
			if c.out != nil && uint64(c.out.Confirmations) <= uint64(uint32(c.H))+1 {
				zzverif.Assert(uint64(uint32(c.H))+1-uint64(c.out.Confirmations) <= end, "C04.rpc_ok_first_conf_inside_window64")
			}
			if c.cur < anchor {
				zzverif.Reach("rpc_ok_below_anchor")
			}
			return
		}
		if c.callsAtHook == c.heightCalls {
			// error without a single chain query for this notification = the deadline check
			if noWrap {
				zzverif.Assert(uint64(c.cur) >= end, "C04.rpc_deadline_error_only_when_closed")
			} else if uint64(c.cur) < end {
				zzverif.Reach("rpc_deadline_conservative_when_anchor_plus_window_wraps")
			}
		}
	})
	if !vObserve(l, c, anchor, window, 2) {
		return
	}
	zzverif.Assert(!c.closed64 || (c.errCall && c.okCalls == 0), "C04.rpc_closed_window_reports_error")
}

// vFirstConf: the height IsTxInMempoolOrRange reports as "first seen" for the gettxout
// path, exactly as the code computes it (32-bit): H+1-c for c >= 2, H for c == 1.
func vFirstConf(c *vChain) uint32 {
	return uint32(c.H) + 1 - c.out.Confirmations
}

// H_C05_rpcHandover: Bitcoin parameters (requiredConfs 3, window 504), every start height S,
// notification height h unrelated to the RPC answers (weakest environment: covers the queued,
// stale notification h <= tip as well as a reorganisation h > tip; Reach witnesses for both).
// When ok is delivered the watcher guarantees, judged against the snapshot it read last
// (tip = the getblockcount answer IsTxInMempoolOrRange fetched and used, truncated to 32 bits
// as the code does; confs = the gettxout answer on that tip; f = the first-confirmation
// height the code derived from that snapshot; end = S+504 in 64-bit arithmetic):
//
//	h   <  S+504        the early check on the notification (64-bit as well)
//	tip <  S+504        the window is open on the tip the lookup used (64-bit as well)
//	f   <= S+504        as the code compares it (32-bit value of f; 64-bit as well)
//	gettxout path:  confs >= 3 exactly (tip-(f-1) == confs modulo 2^32 with f = tip+1-confs);
//	                with a consistent answer (confs <= tip+1, bitcoind: confs = tip-f+1):
//	                f = tip+1-confs, f+2 <= tip, hence f <= S+501
//	scan path:      S <= f, f+2 <= tip (the tx sits in block f of the scanned range S..tip,
//	                tip-f+1 >= 3 without wrap), hence f <= S+501
//
// and nothing else: f >= S (gettxout path) and f <= h are NOT implied (Reach witnesses).
// ok is never delivered with fewer than 3 confirmations on the tip the watcher read.
// Bounds: 1 notification, scan <= 3 blocks.
func H_C05_rpcHandover() {
	zzverif.Unwind(24)
	S := zzverif.U32("start")
	const window = 504
	c := &vChain{mode: vAnyNotif}
	end := uint64(S) + window
	l := vHandoverWatcher(c, 3, S, window, func(ok bool) {
		if !ok {
			return
		}
		h := c.cur
		tip := uint32(c.H) // the code truncates getblockcount; every fact is on the value it used
		zzverif.Assert(c.processed && uint64(h) < end, "C05.rpc_ok_current_below_start_plus_504")
		zzverif.Assert(c.haveH && uint64(tip) < end, "C05.rpc_ok_tip_below_start_plus_504")
		if h < tip {
			zzverif.Reach("rpc_ok_notification_older_than_tip")
		}
		if h > tip {
			zzverif.Reach("rpc_ok_notification_above_tip")
		}
		if c.out != nil {
			f := vFirstConf(c)
			confs := c.out.Confirmations
			zzverif.Assert(uint64(f) <= end, "C05.rpc_ok_first_seen_at_most_start_plus_504")
			// never ok with fewer than 3 confirmations on the tip the watcher read
			zzverif.Assert(confs >= 3, "C05.rpc_ok_three_confirmations_on_tip")
			if uint64(confs) <= uint64(tip)+1 {
				// consistent gettxout answer: f did not wrap, all facts hold in unbounded arithmetic
				zzverif.Assert(uint64(f)+uint64(confs) == uint64(tip)+1 && uint64(f)+2 <= uint64(tip), "C05.rpc_ok_first_conf_three_deep_below_tip")
				zzverif.Assert(uint64(f)+3 <= end, "C05.rpc_ok_first_conf_at_most_start_plus_501")
			} else {
				// more confirmations than blocks: no bitcoind answer; f is a wrapped value
				zzverif.Reach("rpc_ok_inconsistent_confirmations")
			}
			if f < S {
				zzverif.Reach("rpc_ok_confirmed_before_start")
			}
			if f > h {
				zzverif.Reach("rpc_ok_first_seen_above_current")
			}
		} else if c.found {
			f := c.foundAt
			zzverif.Assert(uint64(f) <= end && f >= S, "C05.rpc_ok_scan_first_seen_in_start_to_start_plus_504")
			zzverif.Assert(uint64(f)+2 <= uint64(tip), "C05.rpc_ok_scan_three_deep_below_tip")
			zzverif.Assert(uint64(f)+3 <= end, "C05.rpc_ok_scan_first_conf_at_most_start_plus_501")
		}
	})
	vObserve(l, c, S, window, 1)
}

// H_C05_rpcHandover_fresh: same parameters, but the notification equals the height the
// watcher reads next and gettxout is a consistent answer (confirmations <= H+1).  Then ok
// implies, with h the current height and f = h+1-confirmations the confirmation height:
//
//	confirmations >= 3,  f <= h-2,  h < S+504,  f <= S+504 (implied), f may be < S.
//
// Bounds: 1 notification, scan <= 3 blocks.
func H_C05_rpcHandover_fresh() {
	zzverif.Unwind(24)
	S := zzverif.U32("start")
	const window = 504
	c := &vChain{mode: vFreshNotif}
	end := uint64(S) + window
	l := vHandoverWatcher(c, 3, S, window, func(ok bool) {
		if !ok {
			return
		}
		h := c.cur
		zzverif.Assert(c.processed && uint64(h) < end && uint64(h) == c.H, "C05.rpc_fresh_ok_current_below_start_plus_504")
		if c.out != nil {
			if uint64(c.out.Confirmations) <= uint64(h)+1 {
				f := vFirstConf(c)
				zzverif.Assert(c.out.Confirmations >= 3 && uint64(f)+2 <= uint64(h), "C05.rpc_fresh_ok_three_deep")
				zzverif.Assert(uint64(f) < end, "C05.rpc_fresh_ok_confirmed_before_deadline")
				if f < S {
					zzverif.Reach("rpc_fresh_ok_confirmed_before_start")
				}
			} else {
				zzverif.Reach("rpc_fresh_ok_inconsistent_confirmations")
			}
		} else if c.found {
			f := c.foundAt
			zzverif.Assert(f >= S && uint64(f)+2 <= uint64(h), "C05.rpc_fresh_ok_scan_three_deep")
		}
	})
	vObserve(l, c, S, window, 1)
}
