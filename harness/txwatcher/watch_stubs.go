//go:build verif

package txwatcher

import (
	"errors"
	"time"

	"github.com/elementsproject/peerswap/log"
	"github.com/elementsproject/peerswap/zzverif"
)

// ---------------------------------------------------------------------------------------
// Environment: txwatcher.BlockchainRpc answered by arbitrary values (DESIGN §4.1, §C20).
// Every answer is a fresh draw; nothing relates two answers unless a mode below adds a
// documented contract.  The stub records the *snapshot the watcher itself read last*:
//   H        last successful getblockcount answer
//   tipHash  answer of the first getblockhash after that (the watcher asks for hash(H))
//   out      last gettxout answer (nil / confirmations / bestblock)
//   found    height of the block in which the range scan saw the raw transaction
// The watcher's decisions are judged against exactly this snapshot, never against hidden
// state the watcher could not know.
// ---------------------------------------------------------------------------------------

const (
	vSwapID = "swap-1"
	vTxID   = "tx-1"
	vLogFmt = "new block height=%v, starting_height=%d, safety_limit=%d for %s"
)

// notification/RPC relation modes
const (
	vAnyNotif   = 0 // reorganisation variant: no relation between notification and RPC height
	vStaleNotif = 1 // the queued notification is an earlier getblockcount answer: notif <= H
	vFreshNotif = 2 // the notification equals the height the watcher reads afterwards
)

type vChain struct {
	mode int
	// btcHeights restricts getblockcount answers to what bitcoind can produce (< 2^31)
	btcHeights bool
	start      uint32 // registration start height (for the range bound only)

	// snapshot ghost state
	heightCalls int
	H           uint64
	haveH       bool
	tipHash     string
	haveTip     bool
	hashCalls   int
	out         *TxOutResp
	outCalls    int
	outNil      bool
	outErr      bool
	lastHash    string // last getblockhash answer
	lastHashAt  uint32
	foundAt     uint32 // range scan: height whose block contained the tx
	found       bool
	rawCalls    int
	anyErr      bool // some RPC of the current snapshot failed

	// loop observation (through the debug log line of observationLoop, see vLogger)
	notifs      int    // notifications taken from the queue
	cur         uint32 // the one being processed
	lastTaken   uint32 // ghost copy of the loop's lastHeight
	processed   bool   // the current notification passed the duplicate filter
	closedSeen  bool   // a processed notification was at/after the 32-bit deadline the code computes
	closed64    bool   // a processed notification was at/after start+window in 64-bit arithmetic
	end64       uint64 // start+window without wrap
	callsAtHook int    // getblockcount calls made when the current notification was taken
	deadline32  uint32

	// callbacks
	calls   int
	okCalls int
	errCall bool
	lastRaw string
}

func (c *vChain) GetBlockHeight() (uint64, error) {
	c.heightCalls++
	c.haveH, c.haveTip, c.out, c.outNil, c.outErr, c.found, c.anyErr = false, false, nil, false, false, false, false
	zzverif.Assert(!c.closedSeen, "C20.rpc_closed_window_no_more_queries")
	if zzverif.Bool("height.err") {
		c.anyErr = true
		return 0, errors.New("getblockcount failed")
	}
	h := zzverif.U64("height")
	switch c.mode {
	case vStaleNotif:
		// Contract (bitcoind/elementsd): getblockcount never decreases; a queued notification
		// is an earlier answer of the same call, so it is <= the answer read now; answers
		// fit 32 bits (the code truncates them), so the relation survives the truncation.
		zzverif.Assume(c.notifs == 0 || uint64(c.cur) <= h)
		zzverif.Assume(h <= 0xffffffff)
	case vFreshNotif:
		zzverif.Assume(c.notifs == 0 || uint64(c.cur) == h)
	}
	if c.btcHeights {
		zzverif.Assume(h < 1<<31) // bitcoind reports heights as a non-negative C int
	}
	c.H, c.haveH = h, true
	return h, nil
}

func (c *vChain) GetBlockHash(height uint32) (string, error) {
	c.hashCalls++
	if zzverif.Bool("hash.err") {
		c.anyErr = true
		return "", errors.New("getblockhash failed")
	}
	h := zzverif.Str("hash")
	if c.haveH && !c.haveTip {
		// first hash request of a snapshot is for the height just read
		zzverif.Assert(height == uint32(c.H), "C20.rpc_tip_hash_requested_for_read_height")
		c.tipHash, c.haveTip = h, true
	}
	c.lastHash, c.lastHashAt = h, height
	return h, nil
}

func (c *vChain) GetTxOut(txid string, vout uint32) (*TxOutResp, error) {
	c.outCalls++
	switch zzverif.Choice("txout.kind", 3) {
	case 0:
		c.outErr, c.anyErr = true, true
		return nil, errors.New("gettxout failed")
	case 1:
		// unknown, spent or not yet visible output: the watcher falls back to scanning
		// blocks start..H.  Bound: the scan covers at most 3 blocks, and H != 2^32-1
		// (at H = 2^32-1 the scan `for i := start; i <= end; i++` cannot terminate; block
		// heights of that size do not exist, stated as an assumption).
		c.outNil = true
		cur := uint32(c.H)
		zzverif.Assume(cur < c.start || cur-c.start <= 2)
		zzverif.Assume(cur != 0xffffffff)
		return nil, nil
	}
	r := &TxOutResp{BestBlockHash: zzverif.Str("txout.bestblock"), Confirmations: zzverif.U32("txout.confs")}
	c.out = r
	return r, nil
}

func (c *vChain) GetRawtransactionWithBlockHash(txId string, blockHash string) (string, error) {
	c.rawCalls++
	if c.outNil {
		// range scan: the watcher ignores the error and looks at the string only, so the
		// failing answer ("", err) and the empty answer ("", nil) are one case here.
		raw := zzverif.Str("raw")
		if raw != "" {
			c.found, c.foundAt = true, c.lastHashAt
			return raw, nil
		}
		return "", errors.New("getrawtransaction: not in block")
	}
	if zzverif.Bool("raw.err") {
		// the real client returns an empty string together with an error
		return "", errors.New("getrawtransaction failed")
	}
	return zzverif.Str("raw"), nil
}

// vLogger observes the one value of the loop no RPC sees: the notification height the loop
// has just taken from its queue (observationLoop logs it before using it).
type vLogger struct{ c *vChain }

func (l *vLogger) Infof(format string, v ...any) {}
func (l *vLogger) Debugf(format string, v ...any) {
	vObserveLog(l.c, format, v...)
}

func vObserveLog(c *vChain, format string, v ...any) {
	if c == nil || format != vLogFmt || len(v) < 1 {
		return
	}
	h, ok := v[0].(uint32)
	if !ok {
		return
	}
	// a notification is only taken while the registration is live
	zzverif.Assert(c.calls == 0, "C20.rpc_no_activity_after_callback")
	zzverif.Assert(!c.closedSeen, "C20.rpc_closed_window_ends_observation")
	c.notifs++
	c.cur = h
	c.callsAtHook = c.heightCalls
	c.processed = h > c.lastTaken
	if c.processed {
		c.lastTaken = h
		if h >= c.deadline32 {
			c.closedSeen = true
		}
		if uint64(h) >= c.end64 {
			c.closed64 = true
		}
	}
}

var vCurrent *vChain

func vDebugfOverride(format string, v ...any) { vObserveLog(vCurrent, format, v...) }

// vInstallLog routes the loop's debug line to the ghost state (symbolic: Override of the
// intrinsic no-op; native: the package's own SetLogger hook).
func vInstallLog(c *vChain) {
	vCurrent = c
	zzverif.Override("github.com/elementsproject/peerswap/log.Debugf", vDebugfOverride)
	log.SetLogger(&vLogger{c: c})
}

// vRun runs f to completion.  Symbolically a receive on an exhausted queue ends the path
// ("blocked"): everything asserted before stays an obligation.  Natively the same situation
// would hang, so f runs in a goroutine and the harness gives up once it is idle.
func vRun(f func(), idle func() bool) (returned bool) {
	if zzverif.Symbolic() {
		f()
		return true
	}
	done := make(chan struct{})
	go func() { defer close(done); f() }()
	stop := time.After(10 * time.Second)
	for {
		select {
		case <-done:
			return true
		case <-stop:
			return false
		case <-time.After(10 * time.Millisecond):
			if idle() {
				select {
				case <-done:
					return true
				case <-time.After(300 * time.Millisecond):
					return false
				}
			}
		}
	}
}
