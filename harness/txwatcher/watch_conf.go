//go:build verif

package txwatcher

import (
	"context"
	"errors"
	"time"

	"github.com/elementsproject/peerswap/zzverif"
)

// vConfWatcher builds the real watcher over the arbitrary-answer chain stub and installs the
// confirmation callback that judges every delivery against the snapshot the watcher read last.
func vConfWatcher(c *vChain, required, start, window uint32) *BlockchainRpcTxWatcher {
	c.start = start
	c.deadline32 = start + window // the (wrapping) value observationLoop compares with
	c.end64 = uint64(start) + uint64(window)
	vInstallLog(c)
	l := NewBlockchainRpcTxWatcher(context.Background(), c, required)
	l.AddConfirmationCallback(func(swapId, txHex string, err error) error {
		c.calls++
		zzverif.Assert(c.calls == 1, "C20.rpc_conf_at_most_one_callback")
		zzverif.Assert(swapId == vSwapID, "C20.rpc_conf_callback_for_registered_swap")
		if err != nil {
			c.errCall = true
			zzverif.Reach("rpc_conf_error_callback")
			// "exceeded" callbacks are only issued for a closed window or a confirmation
			// outside it; serious RPC errors also cancel.  Nothing to judge beyond once-only.
			return vCbResult()
		}
		c.okCalls++
		c.lastRaw = txHex
		zzverif.Reach("rpc_conf_ok_callback")
		vJudgeOk(c, required, start, window)
		return vCbResult()
	})
	return l
}

func vCbResult() error {
	if zzverif.Bool("cb.err") {
		return errors.New("swap service rejected the event")
	}
	return nil
}

// vJudgeOk: ok was delivered; the snapshot the watcher read last must justify it.
func vJudgeOk(c *vChain, required, start, window uint32) {
	// C01's view of the same report: the taker validates and pays on "confirmed", so the report must rest
	// on a snapshot the watcher read completely in this round, showing the required depth on it
	depthOK := c.haveH && c.haveTip && !c.outErr
	if depthOK && c.out != nil {
		depthOK = c.out.BestBlockHash == c.tipHash && c.out.Confirmations >= required
	} else if depthOK {
		depthOK = c.outNil && c.found && c.foundAt <= uint32(c.H) && uint64(uint32(c.H))-uint64(c.foundAt)+1 >= uint64(required)
	}
	zzverif.Assert(depthOK, "C01.confirmed_report_rests_on_fresh_snapshot_with_required_depth")
	// transient errors / unknown height never produce ok
	zzverif.Assert(c.haveH && c.haveTip && !c.outErr, "C20.rpc_ok_needs_complete_snapshot")
	if !(c.haveH && c.haveTip) {
		return
	}
	H := uint32(c.H) // the code truncates; the window contract is on the value it used
	end := uint64(start) + uint64(window)
	// window still open on the height the watcher read last (64-bit, no wrap)
	zzverif.Assert(uint64(H) < end, "C20.rpc_ok_window_open_on_snapshot")
	// ... and on the notification height the loop compared (what the code really guards)
	zzverif.Assert(c.processed && uint64(c.cur) < end, "C20.rpc_ok_window_open_on_notification")
	zzverif.Assert(!c.closedSeen, "C20.rpc_never_ok_after_window_closed")
	if c.out != nil {
		// gettxout path: tip hash matched, depth is the confirmations on that tip
		zzverif.Assert(c.out.BestBlockHash == c.tipHash, "C20.rpc_ok_tip_matched")
		zzverif.Assert(c.out.Confirmations >= required, "C20.rpc_ok_depth")
		// first-confirmation height H+1-c (defined when c <= H+1) inside start+window
		if uint64(c.out.Confirmations) <= uint64(H)+1 {
			zzverif.Assert(uint64(H)+1-uint64(c.out.Confirmations) <= end, "C20.rpc_ok_first_conf_in_window")
		}
		return
	}
	// range-scan path (output unknown to gettxout: e.g. already spent): the tx was seen in
	// the block at height foundAt, start <= foundAt <= H; depth on the snapshot is H-foundAt+1
	zzverif.Assert(c.outNil && c.found, "C20.rpc_ok_scan_found_tx")
	if c.found {
		zzverif.Assert(c.foundAt >= start && c.foundAt <= H, "C20.rpc_ok_scan_height_in_range")
		zzverif.Assert(c.foundAt <= H && uint64(H)-uint64(c.foundAt)+1 >= uint64(required), "C20.rpc_ok_scan_depth")
		zzverif.Assert(uint64(c.foundAt) <= end, "C20.rpc_ok_scan_first_conf_in_window")
	}
}

// vObserve feeds n notification heights (named notif, notif#1, ...) and runs the real loop.
func vObserve(l *BlockchainRpcTxWatcher, c *vChain, start, window uint32, n int) bool {
	ch := make(chan uint32, n)
	for i := 0; i < n; i++ {
		ch <- zzverif.U32("notif")
	}
	vout := zzverif.U32("vout")
	return vRun(func() {
		l.observationLoop(context.Background(), vSwapID, vTxID, vout, start, window, ch)
	}, func() bool { return len(ch) == 0 })
}

func vConfEntry(mode, n int, required, start, window uint32) {
	vConfEntryOn(&vChain{mode: mode}, n, required, start, window)
}

func vConfEntryOn(c *vChain, n int, required, start, window uint32) {
	zzverif.Unwind(24)
	l := vConfWatcher(c, required, start, window)
	returned := vObserve(l, c, start, window, n)
	if !returned {
		return // native only: loop idle on an empty queue
	}
	// the loop only returns after a callback; a closed window must have produced the error
	zzverif.Assert(c.calls == 1, "C20.rpc_conf_return_implies_one_callback")
	zzverif.Assert(!c.closedSeen || (c.errCall && c.okCalls == 0), "C20.rpc_closed_window_reports_error")
	zzverif.Assert(!c.closed64 || (c.errCall && c.okCalls == 0), "C20.rpc_closed_window64_reports_error")
	_, still := l.observerLoopList[vSwapID]
	zzverif.Assert(!still, "C20.rpc_conf_loop_deregistered")
}

// H_C20_rpcConf_stale: real observationLoop + IsTxInMempoolOrRange/IsTxInRange over an
// arbitrary chain; notification heights may be stale (any value <= the getblockcount answer
// the watcher reads while handling it; getblockcount answers < 2^32).  Bounds: <= 2
// notifications (3 in the _T_ variant), range scan <= 3 blocks, all 32-bit
// start/window/required/heights (wrap included), confirmations arbitrary uint32, hashes and
// raw transactions arbitrary strings.
// zzverif:also C01
func H_C20_rpcConf_stale() {
	vConfEntry(vStaleNotif, 2, zzverif.U32("required"), zzverif.U32("start"), zzverif.U32("window"))
}

// H_C20_rpcConf_fresh: same, but every notification equals the height the watcher reads
// next (no block arrives between notification and handling).  Bounds as above.
// zzverif:also C01
func H_C20_rpcConf_fresh() {
	vConfEntry(vFreshNotif, 2, zzverif.U32("required"), zzverif.U32("start"), zzverif.U32("window"))
}

// H_C20_rpcConf_bitcoinStale: the production parameters of the Bitcoin watcher
// (requiredConfs 3, window 504) with realistic heights: start < 2^24, getblockcount < 2^31,
// one stale notification (<= the height read).  Bounds: 1 notification, scan <= 3 blocks.
// zzverif:also C01
func H_C20_rpcConf_bitcoinStale() {
	start := zzverif.U32("start")
	zzverif.Assume(start < 1<<24)
	vConfEntryOn(&vChain{mode: vStaleNotif, btcHeights: true}, 1, 3, start, 504)
}

// H_C20_T_rpcConf_stale3 / fresh3: the 3-notification variants (thorough tier).
func H_C20_T_rpcConf_stale3() {
	vConfEntry(vStaleNotif, 3, zzverif.U32("required"), zzverif.U32("start"), zzverif.U32("window"))
}

func H_C20_T_rpcConf_fresh3() {
	vConfEntry(vFreshNotif, 3, zzverif.U32("required"), zzverif.U32("start"), zzverif.U32("window"))
}

// H_C20_T_rpcConf_reorg: reorganisation variant, no relation at all between notification
// heights and RPC answers, getblockcount over all of uint64 (the code truncates to 32 bits).
// Bounds: <= 3 notifications, scan <= 3 blocks.
func H_C20_T_rpcConf_reorg() {
	vConfEntry(vAnyNotif, 3, zzverif.U32("required"), zzverif.U32("start"), zzverif.U32("window"))
}

// H_C20_rpcAddWaitConf: the real registration AddWaitForConfirmationTx: it reads the height
// (error ignored), registers the loop and queues that height as the first notification; the
// loop then handles it by reading the chain again.  The only contract: getblockcount does
// not decrease between the two reads (and fits 32 bits).  Bounds: the single kick-off
// notification, scan <= 3 blocks; all start/window/required.
func H_C20_rpcAddWaitConf() {
	zzverif.Unwind(24)
	required, start, window := zzverif.U32("required"), zzverif.U32("start"), zzverif.U32("window")
	c := &vChain{mode: vStaleNotif}
	l := vConfWatcher(c, required, start, window)
	vout := zzverif.U32("vout")
	// symbolic: `go observationLoop` is recorded, not run; the queued height stays in the channel
	l.AddWaitForConfirmationTx(vSwapID, vTxID, vout, start, window, nil)
	registered := true
	if zzverif.Symbolic() {
		info, ok := l.observerLoopList[vSwapID]
		registered = ok && c.heightCalls == 1
		l.observationLoop(context.Background(), vSwapID, vTxID, vout, start, window, info.blockChan)
	} else {
		// native: the goroutine started by AddWaitForConfirmationTx is the loop; wait until
		// it delivered its callback (or give up after 0.5 s: idle loop)
		for i := 0; i < 100 && c.calls == 0; i++ {
			time.Sleep(5 * time.Millisecond)
		}
		time.Sleep(20 * time.Millisecond)
		if c.calls == 0 {
			return
		}
	}
	zzverif.Assert(registered, "C20.rpc_addwait_registers_loop_reads_height_once")
	zzverif.Assert(c.calls == 1, "C20.rpc_conf_return_implies_one_callback")
}
