//go:build verif

package txwatcher

import (
	"context"
	"errors"

	"github.com/elementsproject/peerswap/zzverif"
)

// vCsvChain answers gettxout arbitrarily per call and remembers, per watched txid, the last
// answer the watcher read: that answer is the ground truth a CSV callback is judged against.
type vCsvChain struct {
	last    map[string]*TxOutResp // last non-error answer per txid (nil entry: "no such output")
	lastErr map[string]bool
	asked   map[string]int
	vouts   map[string]uint32      // output index of the last gettxout per txid
	pending map[string]*vCsvAnswer // answer drawn ahead for the next gettxout of that txid
}

type vCsvAnswer struct {
	kind  int
	confs uint32
}

func newCsvChain() *vCsvChain {
	return &vCsvChain{last: map[string]*TxOutResp{}, lastErr: map[string]bool{}, asked: map[string]int{}, vouts: map[string]uint32{}, pending: map[string]*vCsvAnswer{}}
}

func (c *vCsvChain) GetBlockHeight() (uint64, error) {
	zzverif.Fail("csv handling never asks for the height")
	return 0, nil
}
func (c *vCsvChain) GetBlockHash(height uint32) (string, error) {
	zzverif.Fail("csv handling never asks for a block hash")
	return "", nil
}
func (c *vCsvChain) GetRawtransactionWithBlockHash(txId string, blockHash string) (string, error) {
	zzverif.Fail("csv handling never asks for a raw transaction")
	return "", nil
}

// draws are named per txid so that Go's random map iteration order (HandleCsvTx ranges over
// the watch list) does not change which scripted value an answer gets.
func vDrawCsvAnswer(txid string) *vCsvAnswer {
	if txid == "tx-a" {
		return &vCsvAnswer{kind: zzverif.Choice("a.txout.kind", 3), confs: zzverif.U32("a.txout.confs")}
	}
	return &vCsvAnswer{kind: zzverif.Choice("b.txout.kind", 3), confs: zzverif.U32("b.txout.confs")}
}

// prepare draws the answer of the next gettxout for txid ahead of the call.  HandleCsvTx asks
// in map iteration order, which differs from run to run natively; drawing ahead in a fixed
// order (tx-a, tx-b) keeps the sequence of draws of a native run equal to the symbolic one
// (translator validation compares the sequences).  The answers stay independent fresh values
// per output and per query, so nothing is lost: the watcher treats the entries of one
// notification independently of each other.
func (c *vCsvChain) prepare(txid string) { c.pending[txid] = vDrawCsvAnswer(txid) }

func (c *vCsvChain) GetTxOut(txid string, vout uint32) (*TxOutResp, error) {
	c.asked[txid]++
	c.vouts[txid] = vout
	a := c.pending[txid]
	if a == nil {
		a = vDrawCsvAnswer(txid) // a second query in the same phase: fresh answer
	}
	delete(c.pending, txid)
	switch a.kind {
	case 0:
		c.lastErr[txid] = true
		return nil, errors.New("gettxout failed")
	case 1:
		c.lastErr[txid] = false
		c.last[txid] = nil
		return nil, nil
	}
	r := &TxOutResp{Confirmations: a.confs}
	c.lastErr[txid] = false
	c.last[txid] = r
	return r, nil
}

type vCsvGhost struct {
	chain   *vCsvChain
	csv     map[string]uint32 // swap id -> registered csv
	tx      map[string]string // swap id -> txid
	calls   map[string]int
	okCalls map[string]int  // callbacks the swap service accepted (returned nil)
	cbErr   map[string]bool // the swap service's answer to the next callback, drawn ahead
	cbDrawn map[string]bool
}

func vDrawCsvCbErr(swapId string) bool {
	if swapId == "swap-a" {
		return zzverif.Bool("a.cb.err")
	}
	return zzverif.Bool("b.cb.err")
}

// prepare: one phase (a registration, or one block notification) asks gettxout at most once
// per registration and calls back at most once per registration; both answers are drawn
// ahead in a fixed order, see vCsvChain.prepare.
func (g *vCsvGhost) prepare(swapId string) {
	g.chain.prepare(g.tx[swapId])
	g.cbErr[swapId], g.cbDrawn[swapId] = vDrawCsvCbErr(swapId), true
}

func vCsvWatcher() (*BlockchainRpcTxWatcher, *vCsvGhost) {
	ch := newCsvChain()
	g := &vCsvGhost{chain: ch, csv: map[string]uint32{}, tx: map[string]string{}, calls: map[string]int{}, okCalls: map[string]int{},
		cbErr: map[string]bool{}, cbDrawn: map[string]bool{}}
	l := NewBlockchainRpcTxWatcher(context.Background(), ch, 3)
	l.AddCsvCallback(func(swapId string) error {
		g.calls[swapId]++
		txid, known := g.tx[swapId]
		zzverif.Assert(known, "C20.rpc_csv_callback_for_registered_swap")
		if !known {
			return nil
		}
		// never again once the swap service accepted a callback for this registration
		zzverif.Assert(g.okCalls[swapId] == 0, "C20.rpc_csv_no_callback_after_accepted_one")
		// maturity on the answer the watcher read last: no error, output exists, depth >= csv
		r := ch.last[txid]
		zzverif.Assert(ch.asked[txid] > 0 && !ch.lastErr[txid] && r != nil, "C20.rpc_csv_needs_txout_answer")
		if r != nil {
			zzverif.Assert(r.Confirmations >= g.csv[swapId], "C20.rpc_csv_depth")
		}
		zzverif.Reach("rpc_csv_callback")
		if !g.cbDrawn[swapId] {
			g.cbErr[swapId] = vDrawCsvCbErr(swapId) // a second callback in the same phase: fresh answer
		}
		acc := !g.cbErr[swapId]
		g.cbDrawn[swapId] = false
		if !acc {
			return errors.New("swap service rejected the event")
		}
		g.okCalls[swapId]++
		return nil
	})
	return l, g
}

// vCsvEntry: real AddWaitForCsvTx (with its immediate checkTxAboveCsvHight) for one or two
// registrations with arbitrary csv values, then `blocks` block notifications through the
// real HandleCsvTx.  A CSV callback is only issued when the last gettxout answer for that
// output shows >= csv confirmations; a registration whose callback was accepted is removed
// and never reported again; errors / missing outputs never report.
func vCsvEntry(two bool, blocks int) {
	zzverif.Unwind(16)
	l, g := vCsvWatcher()
	g.csv["swap-a"], g.tx["swap-a"] = zzverif.U32("a.csv"), "tx-a"
	g.prepare("swap-a")
	voutA := zzverif.U32("a.vout")
	l.AddWaitForCsvTx("swap-a", "tx-a", voutA, zzverif.U32("a.start"), g.csv["swap-a"], nil)
	_, watchedA := l.csvtxWatchList["swap-a"]
	// an immediately accepted callback must not leave a registration behind
	zzverif.Assert(watchedA == (g.okCalls["swap-a"] == 0), "C20.rpc_csv_registered_iff_not_yet_accepted")
	if two {
		g.csv["swap-b"], g.tx["swap-b"] = zzverif.U32("b.csv"), "tx-b"
		g.prepare("swap-b")
		l.AddWaitForCsvTx("swap-b", "tx-b", zzverif.U32("b.vout"), zzverif.U32("b.start"), g.csv["swap-b"], nil)
	}
	for i := 0; i < blocks; i++ {
		// answers for the registrations still on the list, in the fixed order a, b
		if _, on := l.csvtxWatchList["swap-a"]; on {
			g.prepare("swap-a")
		}
		if _, on := l.csvtxWatchList["swap-b"]; on {
			g.prepare("swap-b")
		}
		err := l.HandleCsvTx(zzverif.U64("block"))
		zzverif.Assert(err == nil, "C20.rpc_csv_handle_never_fails")
		// C18's view: the block dispatcher (StartWatchingTxs) ends for good at the first error a handler returns;
		// a chain answer (failing gettxout, missing output) must never stop the notifications of all swaps
		zzverif.Assert(err == nil, "C18.chain_errors_never_stop_the_block_dispatcher")
	}
	zzverif.Assert(g.okCalls["swap-a"] <= 1 && g.okCalls["swap-b"] <= 1, "C20.rpc_csv_at_most_one_accepted_callback")
	_, wa := l.csvtxWatchList["swap-a"]
	_, wb := l.csvtxWatchList["swap-b"]
	zzverif.Assert(wa == (g.okCalls["swap-a"] == 0), "C20.rpc_csv_removed_exactly_when_accepted")
	// C07's view: the maker's refund depends on this watch - it stays registered, whatever the chain
	// answers in between, until the swap service accepted the csv notification
	zzverif.Assert(wa || g.okCalls["swap-a"] > 0, "C07.csv_watch_kept_until_the_swap_was_told")
	// the watcher looks at the output the swap registered (the announced script_out), not at another one
	if g.chain.asked["tx-a"] > 0 {
		zzverif.Assert(g.chain.vouts["tx-a"] == voutA, "C07.csv_watch_queries_the_registered_output")
		zzverif.Assert(g.chain.vouts["tx-a"] == voutA, "C20.rpc_csv_queries_the_registered_output")
	}
	zzverif.Assert(wb == (two && g.okCalls["swap-b"] == 0), "C20.rpc_csv_removed_exactly_when_accepted_b")
}

// H_C20_rpcCsv_one: bounds: 1 registration, registration + 3 block notifications, all
// 32-bit csv/confirmations.
// zzverif:also C07 C18
func H_C20_rpcCsv_one() { vCsvEntry(false, 3) }

// H_C20_rpcCsv_two: bounds: 2 registrations (independent answers per output), registration
// + 1 block notification (2 in the _T_ variant).
func H_C20_rpcCsv_two() { vCsvEntry(true, 1) }

func H_C20_T_rpcCsv_two2() { vCsvEntry(true, 2) }

// H_C20_rpcCsvKernel: checkTxAboveCsvHight is exact: (true,nil) iff gettxout answered an
// output with confirmations >= csv; an error or a missing output gives (false, err).
func H_C20_rpcCsvKernel() {
	l, g := vCsvWatcher()
	csv := zzverif.U32("csv")
	above, err := l.checkTxAboveCsvHight("tx-a", zzverif.U32("vout"), csv)
	r := g.chain.last["tx-a"]
	if g.chain.lastErr["tx-a"] || r == nil {
		zzverif.Assert(!above && err != nil, "C20.rpc_csv_kernel_error_is_not_mature")
	} else {
		zzverif.Assert(err == nil && above == (r.Confirmations >= csv), "C20.rpc_csv_kernel_exact")
	}
}
