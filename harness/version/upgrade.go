//go:build verif

package version

import (
	"errors"
	"os"
	"path/filepath"

	"github.com/elementsproject/peerswap/zzverif"
	"go.etcd.io/bbolt"
)

// ---------------------------------------------------------------------------------------
// C29 — SafeUpgrade.  The version store is a concrete type over bbolt; bbolt is never executed
// symbolically: the two store methods are overridden by a one-cell map model ("version" key:
// absent | arbitrary string) whose calls may fail arbitrarily.  Natively the same draws seed a
// temp-dir bbolt file; a failing GetVersion is produced by closing the database before the call,
// a failing SetVersion by reopening it read-only.  The active-swap dependency is the
// ActiveSwapGetter interface, stubbed with arbitrary answers (the swap-side HasActiveSwaps /
// IsFinished are checked in the swap package).
// Assumed contract of the stubs: a failing SetVersion leaves the stored value unchanged (bbolt
// transactions are atomic: trusted, outside); GetVersion does not write.
// ---------------------------------------------------------------------------------------

type vVerModel struct {
	exists         bool
	stored         string
	getErr, setErr bool

	// symbolic ghost state
	writes    int
	lastWrite string
	reads     int

	// native collaborators
	path string
	db   *bbolt.DB
}

var vVer *vVerModel

var errVStore = errors.New("verif: store I/O error")

func vGetVersion(vs *versionStore) (string, error) {
	vVer.reads++
	if vVer.getErr {
		return "", errVStore
	}
	if !vVer.exists {
		return "", ErrDoesNotExist
	}
	return vVer.stored, nil
}

func vSetVersion(vs *versionStore, v string) error {
	if vVer.setErr {
		return errVStore
	}
	vVer.writes++
	vVer.lastWrite = v
	vVer.exists = true
	vVer.stored = v
	return nil
}

// vNewVersionService draws the store content and failure switches and builds the service.
func vNewVersionService() (*VersionService, *vVerModel) {
	m := &vVerModel{exists: zzverif.Bool("stored.exists"), stored: zzverif.Str("stored.version"),
		getErr: zzverif.Bool("store.get_err"), setErr: zzverif.Bool("store.set_err")}
	if vVerFixedStored != "" {
		m.stored = vVerFixedStored // entry with a concrete stored version (the draw above is ignored)
	}
	vVer = m
	if zzverif.Symbolic() {
		zzverif.Override("(*github.com/elementsproject/peerswap/version.versionStore).GetVersion", vGetVersion)
		zzverif.Override("(*github.com/elementsproject/peerswap/version.versionStore).SetVersion", vSetVersion)
		return &VersionService{versionStore: &versionStore{}}, m
	}
	dir, err := os.MkdirTemp("", "zzverif-version-")
	if err != nil {
		panic(err)
	}
	m.path = filepath.Join(dir, "swaps.db")
	db, err := bbolt.Open(m.path, 0o600, nil)
	if err != nil {
		panic(err)
	}
	vsvc, err := NewVersionService(db)
	if err != nil {
		panic(err)
	}
	if m.exists {
		if err := vsvc.versionStore.SetVersion(m.stored); err != nil {
			panic(err)
		}
	}
	switch {
	case m.getErr:
		db.Close() // every later Begin fails with "database not open"
	case m.setErr:
		db.Close()
		ro, err := bbolt.Open(m.path, 0o600, &bbolt.Options{ReadOnly: true})
		if err != nil {
			panic(err)
		}
		vsvc = &VersionService{versionStore: &versionStore{db: ro}}
		db = ro
	}
	m.db = db
	return vsvc, m
}

// vStoredAfter reads the stored version after the call under test: (value, exists, number of writes).
// Natively the number of writes is observed only through the value (0 or 1).
func (m *vVerModel) vStoredAfter(before string, beforeExists bool) (string, bool, int) {
	if zzverif.Symbolic() {
		return m.stored, m.exists, m.writes
	}
	m.db.Close()
	db, err := bbolt.Open(m.path, 0o600, &bbolt.Options{ReadOnly: true})
	if err != nil {
		panic(err)
	}
	defer db.Close()
	v, err := (&versionStore{db: db}).GetVersion()
	if err == ErrDoesNotExist {
		w := 0
		if beforeExists {
			w = 1
		}
		return "", false, w
	}
	if err != nil {
		panic(err)
	}
	w := 0
	if !beforeExists || v != before {
		w = 1
	}
	return v, true, w
}

type vActive struct {
	calls  int
	active bool
	failed bool
}

func (a *vActive) HasActiveSwaps() (bool, error) {
	a.calls++
	if zzverif.Bool("active.err") {
		a.failed = true
		return zzverif.Bool("active.value_on_err"), errors.New("list swaps failed")
	}
	a.active = zzverif.Bool("active.has")
	return a.active, nil
}

// H_C29_safeUpgrade: for every stored version (absent or an arbitrary string), every answer of
// HasActiveSwaps (true/false/error) and arbitrary store failures:
//   - the stored version is written only after HasActiveSwaps answered (false, nil), exactly once,
//     and the value written is the current version;
//   - active swaps and stored != current (or absent) => ActiveSwapsError, nothing written;
//   - stored == current => nil, nothing written, the swap service is not even asked;
//   - a nil result implies the stored version is the current one afterwards;
//   - every error result leaves the stored version unchanged.
//
// Bounds: none (one arbitrary string cell).  Outside: bbolt itself (atomic Put/Commit).
func H_C29_safeUpgrade() { vSafeUpgradeEntry() }

// vVerFixedStored: a concrete stored version for H_C29_safeUpgradeKnownVersions.
var vVerFixedStored string

// H_C29_safeUpgradeKnownVersions: the same obligations for concrete stored versions around the running
// one - older, equal, newer, longer, with a suffix, not a version at all - so that the verdict does not
// depend on how (or whether) the code parses version strings.
func H_C29_safeUpgradeKnownVersions() {
	vs := []string{"v0.1", "v0.2", "v0.3", "v0.2.1", "v0.2.0", "v0.10", "v1.0", "v0.2.0-beta", "garbage"}
	vVerFixedStored = vs[zzverif.Choice("stored.known", len(vs))]
	vSafeUpgradeEntry()
}

func vSafeUpgradeEntry() {
	vsvc, m := vNewVersionService()
	before, beforeExists := m.stored, m.exists
	act := &vActive{}
	err := vsvc.SafeUpgrade(act)
	after, afterExists, writes := m.vStoredAfter(before, beforeExists)
	cur := GetCurrentVersion()
	zzverif.Assert(cur == "v0.2", "C29.current_constant")

	same := beforeExists && before == cur
	if writes > 0 {
		zzverif.Reach("upgrade.written")
		zzverif.Assert(writes == 1 && act.calls == 1 && !act.failed && !act.active, "C29.write_only_without_active_swaps")
		zzverif.Assert(afterExists && after == cur, "C29.write_value_is_current")
		zzverif.Assert(err == nil && !same, "C29.write_only_when_needed")
	} else {
		zzverif.Assert(afterExists == beforeExists && (!afterExists || after == before), "C29.unchanged_without_write")
	}
	if !m.getErr && !same && act.calls == 1 && !act.failed && act.active {
		zzverif.Reach("upgrade.refused")
		_, isActiveErr := err.(ActiveSwapsError)
		zzverif.Assert(err != nil && isActiveErr && writes == 0, "C29.active_swaps_block_upgrade")
	}
	if !m.getErr && same {
		zzverif.Assert(err == nil && writes == 0 && act.calls == 0, "C29.same_version_no_write")
	}
	if err == nil {
		zzverif.Assert(afterExists && after == cur, "C29.success_means_current")
	} else {
		zzverif.Assert(writes == 0, "C29.error_means_unchanged")
	}
	if !m.getErr && !same {
		zzverif.Assert(act.calls == 1, "C29.swaps_consulted_before_upgrade")
		if act.failed {
			zzverif.Assert(err != nil && writes == 0, "C29.list_error_blocks_upgrade")
		}
	}
	if m.getErr {
		zzverif.Assert(err != nil && writes == 0 && act.calls == 0, "C29.read_error_blocks_upgrade")
	}
}
