//go:build verif

package version

import (
	"math"
	"regexp"
	"strconv"

	"github.com/elementsproject/peerswap/zzverif"
)

// ---------------------------------------------------------------------------------------
// C30 — CompareVersionStrings.
//
// Assumption "the regex engine is trusted": `regexp` is not executed.  (*Regexp).FindAllString
// for the pattern `[0-9]+` is replaced (symbolic side only, zzverif.Override) by a stub that
// returns the list of components the harness drew: 0..4 strings (nil when there is no match),
// each a non-empty run of ASCII digits — which is exactly what `[0-9]+` can match.  Natively the
// version string is built as "v" + components joined by "." and the real regexp extracts the
// same list, so every witness replays through the real parser.
// A component is the decimal rendering of an arbitrary 64-bit value x (optionally with leading
// zeros in the dedicated entry); strconv.Atoi of such a rendering is exact in the engine:
// (x, nil) for x <= MaxInt64, otherwise a range error.  The code under test looks at a
// component only through strconv.Atoi, so its verdict is a function of (x, fits) alone.
// Bounds: at most 4 components per version (vCmpMax); component values < 2^64 (the range-error
// region is [2^63, 2^64)).
// ---------------------------------------------------------------------------------------

const vCmpMax = 4

// the component loops of the harness and of the function under test run at most 3 x 4 times per
// instruction site
const vCmpUnwind = 16

// queue of answers of the overridden FindAllString, in call order
var vCmpAnswers [][]string

func vCmpFindAllString(re *regexp.Regexp, s string, n int) []string {
	if len(vCmpAnswers) == 0 {
		zzverif.Fail("unexpected FindAllString call")
	}
	a := vCmpAnswers[0]
	vCmpAnswers = vCmpAnswers[1:]
	return a
}

type vCmpVersion struct {
	text  string
	parts []string
	vals  [vCmpMax]uint64 // numeric value of each component, missing = 0
	fits  bool            // every present component fits an int
}

// vCmpDrawN draws a version of exactly n components; zeros is prepended to the first one; with
// mustFit every component is assumed to fit an int (<= MaxInt64).
func vCmpDrawN(name string, n int, zeros string, mustFit bool) vCmpVersion {
	v := vCmpVersion{text: "v", fits: true}
	for i := 0; i < n; i++ {
		x := zzverif.U64(name + ".p" + strconv.Itoa(i))
		p := string(strconv.AppendUint(nil, x, 10))
		if i == 0 {
			p = zeros + p
		}
		if i > 0 {
			v.text += "."
		}
		v.text += p
		v.parts = append(v.parts, p)
		v.vals[i] = x
		if mustFit {
			zzverif.Assume(x <= math.MaxInt64)
		} else if x > math.MaxInt64 {
			v.fits = false
		}
	}
	return v
}

// vCmpDraw draws a version of 0..4 components.
func vCmpDraw(name string, mustFit bool) vCmpVersion {
	return vCmpDrawN(name, zzverif.Choice(name+".n", vCmpMax+1), "", mustFit)
}

// vCmpGE is the specification: lexicographic >= on zero-padded numeric vectors.
func vCmpGE(a, b [vCmpMax]uint64) bool {
	for i := 0; i < vCmpMax; i++ {
		if a[i] != b[i] {
			return a[i] > b[i]
		}
	}
	return true
}

func vCmpEq(a, b [vCmpMax]uint64) bool {
	return a[0] == b[0] && a[1] == b[1] && a[2] == b[2] && a[3] == b[3]
}

// vCmpCall runs the real function on (a, b).
func vCmpCall(a, b vCmpVersion) (bool, error) {
	if zzverif.Symbolic() {
		zzverif.Override("(*regexp.Regexp).FindAllString", vCmpFindAllString)
		vCmpAnswers = [][]string{a.parts, b.parts}
	}
	return CompareVersionStrings(a.text, b.text)
}

// H_C30_compareSpec: for all versions a, b of <= 4 digit components: an error is returned
// (verdict false) exactly when some component does not fit an int; otherwise the verdict equals
// the lexicographic >= of the zero-padded numeric vectors.
func H_C30_compareSpec() {
	zzverif.Unwind(vCmpUnwind)
	a, b := vCmpDraw("a", false), vCmpDraw("b", false)
	ge, err := vCmpCall(a, b)
	if !a.fits || !b.fits {
		zzverif.Assert(err != nil && !ge, "C30.atoi_error_no_verdict")
		return
	}
	zzverif.Assert(err == nil, "C30.compare_no_error")
	zzverif.Assert(ge == vCmpGE(a.vals, b.vals), "C30.compare_is_lex_ge")
}

// H_C30_compareLeadingZeros: leading zeros do not change the verdict ("007" is 7): a has one or
// two components with "0"/"00" in front of the first, b one component.
func H_C30_compareLeadingZeros() {
	zzverif.Unwind(vCmpUnwind)
	zeros := "0"
	if zzverif.Bool("two_zeros") {
		zeros = "00"
	}
	a := vCmpDrawN("a", 1+zzverif.Choice("a.n", 2), zeros, true)
	b := vCmpDrawN("b", 1, "", true)
	ge, err := vCmpCall(a, b)
	zzverif.Assert(err == nil && ge == vCmpGE(a.vals, b.vals), "C30.compare_leading_zeros")
}

// H_C30_compareReflexiveTotal: a >= a; a >= b or b >= a; (a >= b and b >= a) <=> numerically
// equal (missing components = 0).  Components that fit an int.
func H_C30_compareReflexiveTotal() {
	zzverif.Unwind(vCmpUnwind)
	a, b := vCmpDraw("a", true), vCmpDraw("b", true)
	aa, err0 := vCmpCall(a, a)
	ab, err1 := vCmpCall(a, b)
	ba, err2 := vCmpCall(b, a)
	zzverif.Assert(err0 == nil && err1 == nil && err2 == nil, "C30.order_no_error")
	zzverif.Assert(aa, "C30.order_reflexive")
	zzverif.Assert(ab || ba, "C30.order_total")
	zzverif.Assert((ab && ba) == vCmpEq(a.vals, b.vals), "C30.order_antisymmetric")
}

// vCmpTransitive: a >= b and b >= c  =>  a >= c, on the real function (three calls).
func vCmpTransitive(a, b, c vCmpVersion) {
	ab, err1 := vCmpCall(a, b)
	bc, err2 := vCmpCall(b, c)
	ac, err3 := vCmpCall(a, c)
	zzverif.Assert(err1 == nil && err2 == nil && err3 == nil, "C30.trans_no_error")
	zzverif.Assert(!(ab && bc) || ac, "C30.order_transitive")
}

// H_C30_compareTransitive: transitivity over three versions, every component-count combination
// in 0..4 (125 shapes).
func H_C30_compareTransitive() {
	zzverif.Unwind(vCmpUnwind)
	vCmpTransitive(vCmpDraw("a", true), vCmpDraw("b", true), vCmpDraw("c", true))
}
