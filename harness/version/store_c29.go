//go:build verif

package version

import (
	"os"
	"path/filepath"

	"github.com/elementsproject/peerswap/zzverif"
	"go.etcd.io/bbolt"
)

// The REAL versionStore (version/store.go) over a one-cell model of bbolt (Begin / Bucket / Get / Put /
// Commit / Rollback overridden symbolically: atomic commit is bbolt's contract, trusted).  Natively a
// temp-file database is used.

type vVersionCell struct {
	present bool
	val     []byte
	bucket  *bbolt.Bucket
}

var vVerCell *vVersionCell

func vVsBegin(db *bbolt.DB, writable bool) (*bbolt.Tx, error) { return &bbolt.Tx{}, nil }
func vVsRollback(tx *bbolt.Tx) error                          { return nil }
func vVsCommit(tx *bbolt.Tx) error                            { return nil }
func vVsBucket(tx *bbolt.Tx, name []byte) *bbolt.Bucket {
	if string(name) != "version" {
		zzverif.Fail("harness: unexpected bucket")
	}
	return vVerCell.bucket
}
func vVsGet(b *bbolt.Bucket, key []byte) []byte {
	if string(key) != "version" {
		zzverif.Fail("harness: unexpected key")
	}
	if !vVerCell.present {
		return nil
	}
	return vVerCell.val
}
func vVsPut(b *bbolt.Bucket, key []byte, value []byte) error {
	if string(key) != "version" {
		zzverif.Fail("harness: unexpected key")
	}
	vVerCell.present, vVerCell.val = true, value
	return nil
}

func vRealVersionStore() *versionStore {
	if zzverif.Symbolic() {
		vVerCell = &vVersionCell{bucket: &bbolt.Bucket{}}
		const p = "go.etcd.io/bbolt."
		zzverif.Override("(*"+p+"DB).Begin", vVsBegin)
		zzverif.Override("(*"+p+"Tx).Rollback", vVsRollback)
		zzverif.Override("(*"+p+"Tx).Commit", vVsCommit)
		zzverif.Override("(*"+p+"Tx).Bucket", vVsBucket)
		zzverif.Override("(*"+p+"Bucket).Get", vVsGet)
		zzverif.Override("(*"+p+"Bucket).Put", vVsPut)
		return &versionStore{db: &bbolt.DB{}}
	}
	dir, err := os.MkdirTemp("", "zzverif-versionstore-")
	if err != nil {
		panic(err)
	}
	db, err := bbolt.Open(filepath.Join(dir, "v.db"), 0o600, nil)
	if err != nil {
		panic(err)
	}
	vs, err := NewVersionStore(db)
	if err != nil {
		panic(err)
	}
	return vs
}

// H_C29_realVersionStoreKeepsTheLastWrite: "the stored version is replaced by the current one" ends in the
// real store: whatever was stored before (nothing, the same string, another string), after SetVersion(v)
// GetVersion answers v; before any write it answers ErrDoesNotExist.
func H_C29_realVersionStoreKeepsTheLastWrite() {
	vs := vRealVersionStore()
	_, err0 := vs.GetVersion()
	zzverif.Assert(err0 == ErrDoesNotExist, "C29.version_store_empty_at_first")
	old, cur := zzverif.Str("old.version"), zzverif.Str("new.version")
	zzverif.Assume(len(old) <= 16 && len(cur) <= 16 && old != "" && cur != "")
	if zzverif.Bool("something_stored_before") {
		zzverif.Assert(vs.SetVersion(old) == nil, "C29.version_store_first_write_ok")
		g, e := vs.GetVersion()
		zzverif.Assert(e == nil && g == old, "C29.version_store_returns_first_write")
	}
	zzverif.Assert(vs.SetVersion(cur) == nil, "C29.version_store_write_ok")
	g, e := vs.GetVersion()
	zzverif.Assert(e == nil && g == cur, "C29.version_store_returns_the_last_write")
}
