//go:build verif

package main

import (
	"encoding/json"
	"errors"
	"io"
	"net/http"
	"net/http/httptest"
	"strconv"
	"strings"

	"github.com/elementsproject/glightning/gbitcoin"
	"github.com/elementsproject/glightning/jrpc2"
	"github.com/elementsproject/peerswap/onchain"
	"github.com/elementsproject/peerswap/zzverif"
)

// vNetInfo: what bitcoind answers to getnetworkinfo (symbolic side: the RPC transport is replaced).
var vNetInfoFails bool
var vNetInfoSubversion string

func vBitcoinRequest(b *gbitcoin.Bitcoin, m jrpc2.Method, resp interface{}) error {
	if vNetInfoFails {
		return errors.New("getnetworkinfo failed")
	}
	if ni, ok := resp.(*bitcoindNetworkInfo); ok {
		ni.Subversion = vNetInfoSubversion
		return nil
	}
	return errors.New("unexpected request")
}

func vBitcoindStandIn(w http.ResponseWriter, r *http.Request) {
	body, _ := io.ReadAll(r.Body)
	var req struct {
		Method string `json:"method"`
		Id     json.RawMessage
	}
	_ = json.Unmarshal(body, &req)
	w.Header().Set("Content-Type", "application/json")
	id := string(req.Id)
	if id == "" {
		id = "null"
	}
	switch {
	case req.Method == "getnetworkinfo" && vNetInfoFails:
		w.WriteHeader(http.StatusInternalServerError)
		_, _ = io.WriteString(w, `{"jsonrpc":"2.0","id":`+id+`,"error":{"code":-28,"message":"loading block index"}}`)
	case req.Method == "getnetworkinfo":
		sub, _ := json.Marshal(vNetInfoSubversion)
		_, _ = io.WriteString(w, `{"jsonrpc":"2.0","id":`+id+`,"result":{"version":1,"subversion":`+string(sub)+`}}`)
	default:
		_, _ = io.WriteString(w, `{"jsonrpc":"2.0","id":`+id+`,"result":[]}`)
	}
}

// H_C30_pluginFeeFloorNeverBelowLegacyWithoutVersion: the floor the CLN plugin hands to its estimator and to
// the on-chain service comes from determineBitcoinFeeFloor.  Whatever getnetworkinfo does - fails, answers
// with a subversion that cannot be parsed, answers with an old or a new Bitcoin Core - the floor is 25 sat/kW
// only for a parsed version >= 29.2 and 253 sat/kW in every other case (in particular it is never 0 when
// the version is unknown; the caller uses the returned floor even when an error comes with it).
// Bounds: subversions from {unparsable, /Satoshi:25.0.0/, /Satoshi:29.1.0/, /Satoshi:29.2.0/, /Satoshi:30.0.0/}.
func H_C30_pluginFeeFloorNeverBelowLegacyWithoutVersion() {
	zzverif.Override("(*github.com/elementsproject/glightning/gbitcoin.Bitcoin).Request", vBitcoinRequest)
	subs := []string{"custom build", "/Satoshi:25.0.0/", "/Satoshi:29.1.0/", "/Satoshi:29.2.0/", "/Satoshi:30.0.0/"}
	k := zzverif.Choice("subversion", len(subs))
	vNetInfoSubversion = subs[k]
	vNetInfoFails = zzverif.Bool("getnetworkinfo.err")
	cli := &gbitcoin.Bitcoin{}
	if !zzverif.Symbolic() {
		// natively the real client talks to a stand-in bitcoind that answers getnetworkinfo the scripted way
		srv := httptest.NewServer(http.HandlerFunc(vBitcoindStandIn))
		defer srv.Close()
		cli = gbitcoin.NewBitcoin("user", "pass", "")
		i := strings.LastIndex(srv.URL, ":")
		port, _ := strconv.Atoi(srv.URL[i+1:])
		if err := cli.StartUp(srv.URL[:i], "", uint(port)); err != nil {
			zzverif.Fail("stand-in bitcoind: " + err.Error())
		}
	}
	floor, normalized, err := determineBitcoinFeeFloor(cli)
	zzverif.Assert(floor == onchain.LegacyFeeFloorSatPerKw || floor == onchain.ModernFeeFloorSatPerKw, "C30.plugin_floor_is_one_of_the_two_floors")
	if vNetInfoFails || k == 0 {
		zzverif.Assert(err != nil && floor == onchain.LegacyFeeFloorSatPerKw, "C30.plugin_floor_is_legacy_when_the_version_is_unknown")
	} else {
		zzverif.Assert(err == nil && normalized != "", "C30.plugin_floor_detection_ok")
		zzverif.Assert((floor == onchain.ModernFeeFloorSatPerKw) == (k >= 3), "C30.plugin_floor_reduced_exactly_from_29_2")
	}
}
