// Package smt: hash-consed term DAG, light simplifier, SMT-LIB2 printing.
package smt

import (
	"fmt"
	"math/big"
	"sort"
	"strings"
	"sync"
)

type Kind int

const (
	KBool Kind = iota
	KBV
	KStr
	KInt
	KF64
)

type Sort struct {
	K Kind
	W int
}

var (
	Bool = Sort{K: KBool}
	Str  = Sort{K: KStr}
	Int  = Sort{K: KInt}
	F64  = Sort{K: KF64}
)

func BV(w int) Sort { return Sort{K: KBV, W: w} }

func (s Sort) String() string {
	switch s.K {
	case KBool:
		return "Bool"
	case KBV:
		return fmt.Sprintf("(_ BitVec %d)", s.W)
	case KStr:
		return "String"
	case KInt:
		return "Int"
	case KF64:
		return "(_ FloatingPoint 11 53)"
	}
	return "?"
}

// Term is an immutable DAG node.  Op values:
//
//	"const"  constant (Val for BV/Int, B for Bool, S for Str)
//	"var"    free symbol Name
//	"uf"     uninterpreted function Name applied to Args
//	others   SMT-LIB operator name; indexed operators carry I0,I1
type Term struct {
	ID   int
	Op   string
	Args []*Term
	Sort Sort
	Val  *big.Int
	B    bool
	S    string
	Name string
	I0   int
	I1   int
}

type table struct {
	mu    sync.Mutex
	byKey map[string]*Term
	all   []*Term
	ufs   map[string]ufSig
	vars  map[string]*Term
}

type ufSig struct {
	Args []Sort
	Res  Sort
}

var tab = &table{byKey: map[string]*Term{}, ufs: map[string]ufSig{}, vars: map[string]*Term{}}

// NumTerms reports how many distinct terms exist.
func NumTerms() int { tab.mu.Lock(); defer tab.mu.Unlock(); return len(tab.all) }

func TermByID(id int) *Term { tab.mu.Lock(); defer tab.mu.Unlock(); return tab.all[id] }

func mk(t *Term) *Term {
	var sb strings.Builder
	sb.WriteString(t.Op)
	sb.WriteByte('|')
	sb.WriteString(t.Sort.String())
	sb.WriteByte('|')
	switch t.Op {
	case "const":
		switch t.Sort.K {
		case KBool:
			fmt.Fprintf(&sb, "%v", t.B)
		case KStr:
			sb.WriteString(t.S)
		default:
			sb.WriteString(t.Val.String())
		}
	case "var", "uf", "raw":
		sb.WriteString(t.Name)
	}
	fmt.Fprintf(&sb, "|%d,%d|", t.I0, t.I1)
	for _, a := range t.Args {
		fmt.Fprintf(&sb, "%d,", a.ID)
	}
	k := sb.String()
	tab.mu.Lock()
	defer tab.mu.Unlock()
	if o, ok := tab.byKey[k]; ok {
		return o
	}
	t.ID = len(tab.all)
	tab.all = append(tab.all, t)
	tab.byKey[k] = t
	return t
}

// ---------- constructors ----------

var (
	True  = mk(&Term{Op: "const", Sort: Bool, B: true})
	False = mk(&Term{Op: "const", Sort: Bool, B: false})
)

func BoolC(b bool) *Term {
	if b {
		return True
	}
	return False
}

func mask(w int) *big.Int {
	m := new(big.Int).Lsh(big.NewInt(1), uint(w))
	return m.Sub(m, big.NewInt(1))
}

func BVC(w int, v uint64) *Term {
	return BVBig(w, new(big.Int).SetUint64(v))
}

func BVBig(w int, v *big.Int) *Term {
	x := new(big.Int).And(v, mask(w))
	return mk(&Term{Op: "const", Sort: BV(w), Val: x})
}

func BVInt(w int, v int64) *Term {
	return BVBig(w, big.NewInt(v))
}

func IntC(v int64) *Term { return mk(&Term{Op: "const", Sort: Int, Val: big.NewInt(v)}) }

func StrC(s string) *Term { return mk(&Term{Op: "const", Sort: Str, S: s}) }

func Var(name string, s Sort) *Term {
	tab.mu.Lock()
	if o, ok := tab.vars[name]; ok {
		tab.mu.Unlock()
		if o.Sort != s {
			panic(fmt.Sprintf("smt: symbol %q redeclared with sort %v (was %v)", name, s, o.Sort))
		}
		return o
	}
	tab.mu.Unlock()
	t := mk(&Term{Op: "var", Sort: s, Name: name})
	tab.mu.Lock()
	tab.vars[name] = t
	tab.mu.Unlock()
	return t
}

// LookupVar returns a declared symbol by name.
func LookupVar(name string) *Term { tab.mu.Lock(); defer tab.mu.Unlock(); return tab.vars[name] }

func UF(name string, res Sort, args ...*Term) *Term {
	sig := ufSig{Res: res}
	for _, a := range args {
		sig.Args = append(sig.Args, a.Sort)
	}
	tab.mu.Lock()
	if o, ok := tab.ufs[name]; ok {
		if o.Res != res || len(o.Args) != len(sig.Args) {
			tab.mu.Unlock()
			panic("smt: uf " + name + " redeclared")
		}
		for i := range o.Args {
			if o.Args[i] != sig.Args[i] {
				tab.mu.Unlock()
				panic("smt: uf " + name + " redeclared with other argument sorts")
			}
		}
	} else {
		tab.ufs[name] = sig
	}
	tab.mu.Unlock()
	if len(args) == 0 {
		return Var(name, res)
	}
	return mk(&Term{Op: "uf", Sort: res, Name: name, Args: args})
}

func (t *Term) IsConst() bool { return t.Op == "const" }
func (t *Term) IsTrue() bool  { return t == True }
func (t *Term) IsFalse() bool { return t == False }

// U64 returns the constant value (BV ≤ 64 or Int) as uint64.
func (t *Term) U64() uint64 { return t.Val.Uint64() }

// SignedVal interprets a BV constant as two's complement.
func (t *Term) SignedVal() *big.Int {
	v := new(big.Int).Set(t.Val)
	if t.Sort.K == KBV && v.Bit(t.Sort.W-1) == 1 {
		v.Sub(v, new(big.Int).Lsh(big.NewInt(1), uint(t.Sort.W)))
	}
	return v
}

func Not(a *Term) *Term {
	if a.IsConst() {
		return BoolC(!a.B)
	}
	if a.Op == "not" {
		return a.Args[0]
	}
	return mk(&Term{Op: "not", Sort: Bool, Args: []*Term{a}})
}

func And(as ...*Term) *Term {
	var out []*Term
	seen := map[int]bool{}
	for _, a := range as {
		if a.IsFalse() {
			return False
		}
		if a.IsTrue() || seen[a.ID] {
			continue
		}
		if a.Op == "and" {
			for _, b := range a.Args {
				if !seen[b.ID] {
					seen[b.ID] = true
					out = append(out, b)
				}
			}
			continue
		}
		seen[a.ID] = true
		out = append(out, a)
	}
	for _, a := range out {
		if a.Op == "not" && seen[a.Args[0].ID] {
			return False
		}
	}
	if len(out) == 0 {
		return True
	}
	if len(out) == 1 {
		return out[0]
	}
	return mk(&Term{Op: "and", Sort: Bool, Args: out})
}

func Or(as ...*Term) *Term {
	var out []*Term
	seen := map[int]bool{}
	for _, a := range as {
		if a.IsTrue() {
			return True
		}
		if a.IsFalse() || seen[a.ID] {
			continue
		}
		if a.Op == "or" {
			for _, b := range a.Args {
				if !seen[b.ID] {
					seen[b.ID] = true
					out = append(out, b)
				}
			}
			continue
		}
		seen[a.ID] = true
		out = append(out, a)
	}
	for _, a := range out {
		if a.Op == "not" && seen[a.Args[0].ID] {
			return True
		}
	}
	if len(out) == 0 {
		return False
	}
	if len(out) == 1 {
		return out[0]
	}
	return mk(&Term{Op: "or", Sort: Bool, Args: out})
}

func Implies(a, b *Term) *Term { return Or(Not(a), b) }

func Ite(c, a, b *Term) *Term {
	if c.IsTrue() {
		return a
	}
	if c.IsFalse() {
		return b
	}
	if a == b {
		return a
	}
	if a.Sort != b.Sort {
		panic(fmt.Sprintf("smt: ite sort mismatch %v vs %v", a.Sort, b.Sort))
	}
	if a.Sort.K == KBool {
		if a.IsTrue() && b.IsFalse() {
			return c
		}
		if a.IsFalse() && b.IsTrue() {
			return Not(c)
		}
	}
	return mk(&Term{Op: "ite", Sort: a.Sort, Args: []*Term{c, a, b}})
}

func Eq(a, b *Term) *Term {
	if a.Sort != b.Sort {
		panic(fmt.Sprintf("smt: = sort mismatch %v vs %v (%s vs %s)", a.Sort, b.Sort, a, b))
	}
	if a == b {
		return True
	}
	if a.IsConst() && b.IsConst() {
		return False // hash-consed: distinct constants differ
	}
	if a.Sort.K == KBool {
		if a.IsConst() {
			a, b = b, a
		}
		if b.IsTrue() {
			return a
		}
		if b.IsFalse() {
			return Not(a)
		}
	}
	// ite(c,k1,k2) = k  with constants folds to c / not c / false
	if b.IsConst() && a.Op == "ite" && a.Args[1].IsConst() && a.Args[2].IsConst() {
		t1 := a.Args[1] == b
		t2 := a.Args[2] == b
		switch {
		case t1 && t2:
			return True
		case t1:
			return a.Args[0]
		case t2:
			return Not(a.Args[0])
		default:
			return False
		}
	}
	if a.IsConst() && b.Op == "ite" {
		return Eq(b, a)
	}
	if a.Sort.K == KBV {
		if ia, ib, ok := lenCmp(a, b, true); ok {
			return Eq(ia, ib)
		}
	}
	if a.Sort.K == KInt && a.IsConst() && a.Val.Sign() < 0 && isLenInt(b) || a.Sort.K == KInt && b.IsConst() && b.Val.Sign() < 0 && isLenInt(a) {
		return False
	}
	if a.ID > b.ID {
		a, b = b, a
	}
	return mk(&Term{Op: "=", Sort: Bool, Args: []*Term{a, b}})
}

func bvBin(op string, a, b *Term, f func(x, y *big.Int, w int) *big.Int) *Term {
	if a.Sort != b.Sort || a.Sort.K != KBV {
		panic(fmt.Sprintf("smt: %s sort mismatch %v vs %v", op, a.Sort, b.Sort))
	}
	if a.IsConst() && b.IsConst() && f != nil {
		if r := f(a.Val, b.Val, a.Sort.W); r != nil {
			return BVBig(a.Sort.W, r)
		}
	}
	return mk(&Term{Op: op, Sort: a.Sort, Args: []*Term{a, b}})
}

func isZero(t *Term) bool { return t.IsConst() && t.Val.Sign() == 0 }
func isOne(t *Term) bool  { return t.IsConst() && t.Val.Cmp(big.NewInt(1)) == 0 }

func toSigned(v *big.Int, w int) *big.Int {
	x := new(big.Int).Set(v)
	if x.Bit(w-1) == 1 {
		x.Sub(x, new(big.Int).Lsh(big.NewInt(1), uint(w)))
	}
	return x
}

func BVAdd(a, b *Term) *Term {
	if isZero(a) {
		return b
	}
	if isZero(b) {
		return a
	}
	if la, ok := lenView(a); ok {
		if lb, ok := lenView(b); ok {
			return Int2BV(a.Sort.W, IntAdd(la, lb))
		}
	}
	return bvBin("bvadd", a, b, func(x, y *big.Int, w int) *big.Int { return new(big.Int).Add(x, y) })
}
func BVSub(a, b *Term) *Term {
	if isZero(b) {
		return a
	}
	if a == b {
		return BVC(a.Sort.W, 0)
	}
	return bvBin("bvsub", a, b, func(x, y *big.Int, w int) *big.Int { return new(big.Int).Sub(x, y) })
}
func BVMul(a, b *Term) *Term {
	if isOne(a) {
		return b
	}
	if isOne(b) {
		return a
	}
	if isZero(a) || isZero(b) {
		return BVC(a.Sort.W, 0)
	}
	return bvBin("bvmul", a, b, func(x, y *big.Int, w int) *big.Int { return new(big.Int).Mul(x, y) })
}
func BVUDiv(a, b *Term) *Term {
	if isOne(b) {
		return a
	}
	return bvBin("bvudiv", a, b, func(x, y *big.Int, w int) *big.Int {
		if y.Sign() == 0 {
			return mask(w)
		}
		return new(big.Int).Quo(x, y)
	})
}
func BVURem(a, b *Term) *Term {
	return bvBin("bvurem", a, b, func(x, y *big.Int, w int) *big.Int {
		if y.Sign() == 0 {
			return x
		}
		return new(big.Int).Rem(x, y)
	})
}
func BVSDiv(a, b *Term) *Term {
	if isOne(b) {
		return a
	}
	return bvBin("bvsdiv", a, b, func(x, y *big.Int, w int) *big.Int {
		if y.Sign() == 0 {
			return nil
		}
		return new(big.Int).Quo(toSigned(x, w), toSigned(y, w))
	})
}
func BVSRem(a, b *Term) *Term {
	return bvBin("bvsrem", a, b, func(x, y *big.Int, w int) *big.Int {
		if y.Sign() == 0 {
			return nil
		}
		return new(big.Int).Rem(toSigned(x, w), toSigned(y, w))
	})
}
func BVAnd(a, b *Term) *Term {
	if a == b {
		return a
	}
	return bvBin("bvand", a, b, func(x, y *big.Int, w int) *big.Int { return new(big.Int).And(x, y) })
}
func BVOr(a, b *Term) *Term {
	if a == b {
		return a
	}
	return bvBin("bvor", a, b, func(x, y *big.Int, w int) *big.Int { return new(big.Int).Or(x, y) })
}
func BVXor(a, b *Term) *Term {
	return bvBin("bvxor", a, b, func(x, y *big.Int, w int) *big.Int { return new(big.Int).Xor(x, y) })
}
func BVShl(a, b *Term) *Term {
	return bvBin("bvshl", a, b, func(x, y *big.Int, w int) *big.Int {
		if y.Cmp(big.NewInt(int64(w))) >= 0 {
			return big.NewInt(0)
		}
		return new(big.Int).Lsh(x, uint(y.Uint64()))
	})
}
func BVLshr(a, b *Term) *Term {
	return bvBin("bvlshr", a, b, func(x, y *big.Int, w int) *big.Int {
		if y.Cmp(big.NewInt(int64(w))) >= 0 {
			return big.NewInt(0)
		}
		return new(big.Int).Rsh(x, uint(y.Uint64()))
	})
}
func BVAshr(a, b *Term) *Term {
	return bvBin("bvashr", a, b, func(x, y *big.Int, w int) *big.Int {
		s := toSigned(x, w)
		sh := uint(w)
		if y.Cmp(big.NewInt(int64(w))) < 0 {
			sh = uint(y.Uint64())
		}
		return new(big.Int).Rsh(s, sh)
	})
}
func BVNot(a *Term) *Term {
	if a.IsConst() {
		return BVBig(a.Sort.W, new(big.Int).Xor(a.Val, mask(a.Sort.W)))
	}
	return mk(&Term{Op: "bvnot", Sort: a.Sort, Args: []*Term{a}})
}
func BVNeg(a *Term) *Term {
	if a.IsConst() {
		return BVBig(a.Sort.W, new(big.Int).Neg(a.Val))
	}
	return mk(&Term{Op: "bvneg", Sort: a.Sort, Args: []*Term{a}})
}

// isLenInt: an Int term known to be a small non-negative number (string lengths and sums of them).
// Comparisons of int2bv(lenInt) are moved to the Int theory, which avoids the expensive
// int<->bit-vector bridge; assumes string lengths stay below 2^62 (stated in the evidence).
func isLenInt(t *Term) bool {
	switch t.Op {
	case "str.len":
		return true
	case "const":
		return t.Sort.K == KInt && t.Val.Sign() >= 0 && t.Val.BitLen() < 62
	case "+":
		return isLenInt(t.Args[0]) && isLenInt(t.Args[1])
	}
	return false
}

// lenView returns the Int view of a BV term when it is int2bv(lenInt) or a small non-negative constant.
func lenView(t *Term) (*Term, bool) {
	if t.Op == "int2bv" && isLenInt(t.Args[0]) {
		return t.Args[0], true
	}
	return nil, false
}

func constAsInt(t *Term, signed bool) (*Term, bool) {
	if !t.IsConst() || t.Sort.K != KBV {
		return nil, false
	}
	v := t.Val
	if signed {
		v = toSigned(t.Val, t.Sort.W)
	}
	return mk(&Term{Op: "const", Sort: Int, Val: new(big.Int).Set(v)}), true
}

// lenCmp tries to express a comparison between BV terms in Int when one side is a length.
func lenCmp(a, b *Term, signed bool) (ia, ib *Term, ok bool) {
	la, oka := lenView(a)
	lb, okb := lenView(b)
	switch {
	case oka && okb:
		return la, lb, true
	case oka:
		if c, ok := constAsInt(b, signed); ok {
			return la, c, true
		}
	case okb:
		if c, ok := constAsInt(a, signed); ok {
			return c, lb, true
		}
	}
	return nil, nil, false
}

func bvCmp(op string, a, b *Term, f func(x, y *big.Int, w int) bool) *Term {
	if ia, ib, ok := lenCmp(a, b, op == "bvslt" || op == "bvsle"); ok {
		// unsigned view of a negative constant is huge: lengths are always below it
		if op == "bvult" || op == "bvslt" {
			return IntLt(ia, ib)
		}
		return IntLe(ia, ib)
	}
	if a.Sort != b.Sort || a.Sort.K != KBV {
		panic(fmt.Sprintf("smt: %s sort mismatch %v vs %v", op, a.Sort, b.Sort))
	}
	if a.IsConst() && b.IsConst() {
		return BoolC(f(a.Val, b.Val, a.Sort.W))
	}
	return mk(&Term{Op: op, Sort: Bool, Args: []*Term{a, b}})
}
func BVUlt(a, b *Term) *Term {
	if a == b {
		return False
	}
	return bvCmp("bvult", a, b, func(x, y *big.Int, w int) bool { return x.Cmp(y) < 0 })
}
func BVUle(a, b *Term) *Term {
	if a == b {
		return True
	}
	return bvCmp("bvule", a, b, func(x, y *big.Int, w int) bool { return x.Cmp(y) <= 0 })
}
func BVSlt(a, b *Term) *Term {
	if a == b {
		return False
	}
	return bvCmp("bvslt", a, b, func(x, y *big.Int, w int) bool { return toSigned(x, w).Cmp(toSigned(y, w)) < 0 })
}
func BVSle(a, b *Term) *Term {
	if a == b {
		return True
	}
	return bvCmp("bvsle", a, b, func(x, y *big.Int, w int) bool { return toSigned(x, w).Cmp(toSigned(y, w)) <= 0 })
}

func ZeroExt(a *Term, to int) *Term {
	n := to - a.Sort.W
	if n == 0 {
		return a
	}
	if n < 0 {
		panic("smt: zero_extend to narrower")
	}
	if a.IsConst() {
		return BVBig(to, a.Val)
	}
	return mk(&Term{Op: "zero_extend", Sort: BV(to), Args: []*Term{a}, I0: n})
}
func SignExt(a *Term, to int) *Term {
	n := to - a.Sort.W
	if n == 0 {
		return a
	}
	if n < 0 {
		panic("smt: sign_extend to narrower")
	}
	if a.IsConst() {
		return BVBig(to, toSigned(a.Val, a.Sort.W))
	}
	return mk(&Term{Op: "sign_extend", Sort: BV(to), Args: []*Term{a}, I0: n})
}
func Extract(a *Term, hi, lo int) *Term {
	if lo == 0 && hi == a.Sort.W-1 {
		return a
	}
	if a.IsConst() {
		return BVBig(hi-lo+1, new(big.Int).Rsh(a.Val, uint(lo)))
	}
	if (a.Op == "zero_extend" || a.Op == "sign_extend") && lo == 0 && hi == a.Args[0].Sort.W-1 {
		return a.Args[0]
	}
	return mk(&Term{Op: "extract", Sort: BV(hi - lo + 1), Args: []*Term{a}, I0: hi, I1: lo})
}
func Concat(a, b *Term) *Term {
	if a.IsConst() && b.IsConst() {
		v := new(big.Int).Lsh(a.Val, uint(b.Sort.W))
		return BVBig(a.Sort.W+b.Sort.W, v.Or(v, b.Val))
	}
	return mk(&Term{Op: "concat", Sort: BV(a.Sort.W + b.Sort.W), Args: []*Term{a, b}})
}

// ---------- strings ----------

func StrConcat(as ...*Term) *Term {
	var out []*Term
	for _, a := range as {
		if a.Op == "str.++" {
			out = append(out, a.Args...)
			continue
		}
		if a.IsConst() && a.S == "" {
			continue
		}
		if a.IsConst() && len(out) > 0 && out[len(out)-1].IsConst() {
			out[len(out)-1] = StrC(out[len(out)-1].S + a.S)
			continue
		}
		out = append(out, a)
	}
	if len(out) == 0 {
		return StrC("")
	}
	if len(out) == 1 {
		return out[0]
	}
	return mk(&Term{Op: "str.++", Sort: Str, Args: out})
}
func StrLen(a *Term) *Term {
	if a.IsConst() {
		return IntC(int64(len(a.S)))
	}
	return mk(&Term{Op: "str.len", Sort: Int, Args: []*Term{a}})
}
func StrAt(a, i *Term) *Term {
	if a.IsConst() && i.IsConst() {
		k := int(i.Val.Int64())
		if k >= 0 && k < len(a.S) {
			return StrC(a.S[k : k+1])
		}
		return StrC("")
	}
	return mk(&Term{Op: "str.at", Sort: Str, Args: []*Term{a, i}})
}
func StrSubstr(a, off, n *Term) *Term {
	if a.IsConst() && off.IsConst() && n.IsConst() {
		o, l := int(off.Val.Int64()), int(n.Val.Int64())
		if o < 0 || o >= len(a.S) || l <= 0 {
			return StrC("")
		}
		if o+l > len(a.S) {
			l = len(a.S) - o
		}
		return StrC(a.S[o : o+l])
	}
	return mk(&Term{Op: "str.substr", Sort: Str, Args: []*Term{a, off, n}})
}
func StrContains(a, b *Term) *Term {
	if a.IsConst() && b.IsConst() {
		return BoolC(strings.Contains(a.S, b.S))
	}
	return mk(&Term{Op: "str.contains", Sort: Bool, Args: []*Term{a, b}})
}
func StrPrefixOf(p, a *Term) *Term {
	if a.IsConst() && p.IsConst() {
		return BoolC(strings.HasPrefix(a.S, p.S))
	}
	return mk(&Term{Op: "str.prefixof", Sort: Bool, Args: []*Term{p, a}})
}
func StrSuffixOf(p, a *Term) *Term {
	if a.IsConst() && p.IsConst() {
		return BoolC(strings.HasSuffix(a.S, p.S))
	}
	return mk(&Term{Op: "str.suffixof", Sort: Bool, Args: []*Term{p, a}})
}
func StrReplaceAll(a, from, to *Term) *Term {
	if a.IsConst() && from.IsConst() && to.IsConst() && from.S != "" {
		return StrC(strings.ReplaceAll(a.S, from.S, to.S))
	}
	return mk(&Term{Op: "str.replace_all", Sort: Str, Args: []*Term{a, from, to}})
}
func StrIndexOf(a, b, from *Term) *Term {
	return mk(&Term{Op: "str.indexof", Sort: Int, Args: []*Term{a, b, from}})
}
func StrLt(a, b *Term) *Term {
	if a.IsConst() && b.IsConst() {
		return BoolC(a.S < b.S)
	}
	return mk(&Term{Op: "str.<", Sort: Bool, Args: []*Term{a, b}})
}
func StrLe(a, b *Term) *Term {
	if a.IsConst() && b.IsConst() {
		return BoolC(a.S <= b.S)
	}
	return mk(&Term{Op: "str.<=", Sort: Bool, Args: []*Term{a, b}})
}
func StrToInt(a *Term) *Term   { return mk(&Term{Op: "str.to_int", Sort: Int, Args: []*Term{a}}) }
func StrFromInt(a *Term) *Term { return mk(&Term{Op: "str.from_int", Sort: Str, Args: []*Term{a}}) }
func StrToCode(a *Term) *Term {
	if a.IsConst() {
		if len(a.S) == 1 {
			return IntC(int64(a.S[0]))
		}
		return IntC(-1)
	}
	return mk(&Term{Op: "str.to_code", Sort: Int, Args: []*Term{a}})
}

// ---------- ints (bridges only) ----------

func Int2BV(w int, a *Term) *Term {
	if a.IsConst() {
		return BVBig(w, a.Val)
	}
	if a.Op == "bv2nat" && a.Args[0].Sort.W == w {
		return a.Args[0]
	}
	return mk(&Term{Op: "int2bv", Sort: BV(w), Args: []*Term{a}, I0: w})
}
func BV2Nat(a *Term) *Term {
	if a.IsConst() {
		return mk(&Term{Op: "const", Sort: Int, Val: new(big.Int).Set(a.Val)})
	}
	return mk(&Term{Op: "bv2nat", Sort: Int, Args: []*Term{a}})
}
func IntAdd(a, b *Term) *Term {
	if a.IsConst() && b.IsConst() {
		return mk(&Term{Op: "const", Sort: Int, Val: new(big.Int).Add(a.Val, b.Val)})
	}
	return mk(&Term{Op: "+", Sort: Int, Args: []*Term{a, b}})
}
func IntSub(a, b *Term) *Term {
	if a.IsConst() && b.IsConst() {
		return mk(&Term{Op: "const", Sort: Int, Val: new(big.Int).Sub(a.Val, b.Val)})
	}
	return mk(&Term{Op: "-", Sort: Int, Args: []*Term{a, b}})
}
func IntLe(a, b *Term) *Term {
	if a.IsConst() && b.IsConst() {
		return BoolC(a.Val.Cmp(b.Val) <= 0)
	}
	return mk(&Term{Op: "<=", Sort: Bool, Args: []*Term{a, b}})
}
func IntLt(a, b *Term) *Term {
	if a.IsConst() && b.IsConst() {
		return BoolC(a.Val.Cmp(b.Val) < 0)
	}
	return mk(&Term{Op: "<", Sort: Bool, Args: []*Term{a, b}})
}

// ---------- floats (two kernels only) ----------

func FPFromUBV(a *Term) *Term { return mk(&Term{Op: "to_fp_unsigned", Sort: F64, Args: []*Term{a}}) }
func FPFromSBV(a *Term) *Term { return mk(&Term{Op: "to_fp_signed", Sort: F64, Args: []*Term{a}}) }
func FPBin(op string, a, b *Term) *Term {
	return mk(&Term{Op: op, Sort: F64, Args: []*Term{a, b}})
}
func FPCmp(op string, a, b *Term) *Term {
	return mk(&Term{Op: op, Sort: Bool, Args: []*Term{a, b}})
}
func FPNeg(a *Term) *Term { return mk(&Term{Op: "fp.neg", Sort: F64, Args: []*Term{a}}) }
func FPToUBV(w int, a *Term) *Term {
	return mk(&Term{Op: "fp.to_ubv", Sort: BV(w), Args: []*Term{a}, I0: w})
}
func FPToSBV(w int, a *Term) *Term {
	return mk(&Term{Op: "fp.to_sbv", Sort: BV(w), Args: []*Term{a}, I0: w})
}

// FPConstBits builds a float64 constant from its IEEE bits.
func FPConstBits(bits uint64) *Term {
	return mk(&Term{Op: "fpbits", Sort: F64, Args: []*Term{BVC(64, bits)}})
}

// Raw wraps SMT-LIB text (a Bool-sorted expression over the given symbols); used for
// known-finding regions written by hand.
func Raw(text string, syms ...*Term) *Term {
	return mk(&Term{Op: "raw", Sort: Bool, S: text, Args: syms, Name: text})
}

// ---------- printing ----------

func symName(n string) string {
	ok := n != ""
	for _, c := range n {
		if !(c >= 'a' && c <= 'z' || c >= 'A' && c <= 'Z' || c >= '0' && c <= '9' || c == '_' || c == '.') {
			ok = false
		}
	}
	if ok && !(n[0] >= '0' && n[0] <= '9') {
		return n
	}
	return "|" + strings.ReplaceAll(n, "|", "!") + "|"
}

// SymName is the SMT-LIB spelling of a symbol name.
func SymName(n string) string { return symName(n) }

func strLit(s string) string {
	var sb strings.Builder
	sb.WriteByte('"')
	for i := 0; i < len(s); i++ {
		c := s[i]
		switch {
		case c == '"':
			sb.WriteString(`""`)
		case c == '\\' || c < 0x20 || c > 0x7e:
			fmt.Fprintf(&sb, `\u{%x}`, c)
		default:
			sb.WriteByte(c)
		}
	}
	sb.WriteByte('"')
	return sb.String()
}

func (t *Term) ref() string {
	switch t.Op {
	case "const":
		switch t.Sort.K {
		case KBool:
			if t.B {
				return "true"
			}
			return "false"
		case KBV:
			if t.Sort.W%4 == 0 {
				return fmt.Sprintf("#x%0*s", t.Sort.W/4, t.Val.Text(16))
			}
			return fmt.Sprintf("#b%0*s", t.Sort.W, t.Val.Text(2))
		case KStr:
			return strLit(t.S)
		case KInt:
			if t.Val.Sign() < 0 {
				return "(- " + new(big.Int).Neg(t.Val).String() + ")"
			}
			return t.Val.String()
		}
	case "var":
		return symName(t.Name)
	}
	return fmt.Sprintf("t!%d", t.ID)
}

// body prints the node with children referenced by name.
func (t *Term) body() string {
	args := make([]string, len(t.Args))
	for i, a := range t.Args {
		args[i] = a.ref()
	}
	j := strings.Join(args, " ")
	switch t.Op {
	case "const", "var":
		return t.ref()
	case "uf":
		return "(" + symName(t.Name) + " " + j + ")"
	case "zero_extend", "sign_extend":
		return fmt.Sprintf("((_ %s %d) %s)", t.Op, t.I0, j)
	case "extract":
		return fmt.Sprintf("((_ extract %d %d) %s)", t.I0, t.I1, j)
	case "int2bv":
		return fmt.Sprintf("((_ int2bv %d) %s)", t.I0, j)
	case "to_fp_unsigned":
		return "((_ to_fp_unsigned 11 53) RNE " + j + ")"
	case "to_fp_signed":
		return "((_ to_fp 11 53) RNE " + j + ")"
	case "fp.add", "fp.sub", "fp.mul", "fp.div":
		return "(" + t.Op + " RNE " + j + ")"
	case "fp.to_ubv", "fp.to_sbv":
		return fmt.Sprintf("((_ %s %d) RTZ %s)", t.Op, t.I0, j)
	case "fpbits":
		return "((_ to_fp 11 53) " + j + ")"
	case "raw":
		return t.S
	}
	return "(" + t.Op + " " + j + ")"
}

// String prints a term fully expanded (debugging, samples).  Large DAGs are cut.
func (t *Term) String() string {
	var sb strings.Builder
	t.write(&sb, 0)
	return sb.String()
}

func (t *Term) write(sb *strings.Builder, depth int) {
	if sb.Len() > 4000 {
		sb.WriteString("…")
		return
	}
	if t.Op == "const" || t.Op == "var" {
		sb.WriteString(t.ref())
		return
	}
	sb.WriteByte('(')
	switch t.Op {
	case "uf":
		sb.WriteString(symName(t.Name))
	case "zero_extend", "sign_extend":
		fmt.Fprintf(sb, "(_ %s %d)", t.Op, t.I0)
	case "extract":
		fmt.Fprintf(sb, "(_ extract %d %d)", t.I0, t.I1)
	case "int2bv":
		fmt.Fprintf(sb, "(_ int2bv %d)", t.I0)
	default:
		sb.WriteString(t.Op)
	}
	for _, a := range t.Args {
		sb.WriteByte(' ')
		a.write(sb, depth+1)
	}
	sb.WriteByte(')')
}

// Vars returns the free symbols of the terms, sorted by name.
func Vars(ts ...*Term) []*Term {
	seen := map[int]bool{}
	var out []*Term
	var walk func(t *Term)
	walk = func(t *Term) {
		if seen[t.ID] {
			return
		}
		seen[t.ID] = true
		if t.Op == "var" {
			out = append(out, t)
		}
		for _, a := range t.Args {
			walk(a)
		}
	}
	for _, t := range ts {
		walk(t)
	}
	sort.Slice(out, func(i, j int) bool { return out[i].Name < out[j].Name })
	return out
}

// UFSig exposes a declared uninterpreted function signature.
func UFSig(name string) (args []Sort, res Sort, ok bool) {
	tab.mu.Lock()
	defer tab.mu.Unlock()
	s, ok := tab.ufs[name]
	return s.Args, s.Res, ok
}

// HasStringSort reports whether any subterm has sort String (such queries go to cvc5, which is
// orders of magnitude faster than z3 on them; measured 0.24 s vs 56 s on a 447-query transcript).
func HasStringSort(ts ...*Term) bool {
	seen := map[int]bool{}
	var walk func(t *Term) bool
	walk = func(t *Term) bool {
		if seen[t.ID] {
			return false
		}
		seen[t.ID] = true
		if t.Sort.K == KStr || t.Sort.K == KInt || t.Op == "raw" {
			return true
		}
		for _, a := range t.Args {
			if walk(a) {
				return true
			}
		}
		return false
	}
	for _, t := range ts {
		if walk(t) {
			return true
		}
	}
	return false
}

// HasHardArith reports non-linear bit-vector arithmetic or floating point (z3 territory).
func HasHardArith(ts ...*Term) bool {
	seen := map[int]bool{}
	var walk func(t *Term) bool
	walk = func(t *Term) bool {
		if seen[t.ID] {
			return false
		}
		seen[t.ID] = true
		switch t.Op {
		case "bvmul", "bvudiv", "bvurem", "bvsdiv", "bvsrem":
			if !t.Args[0].IsConst() && !t.Args[1].IsConst() || t.Sort.W > 64 {
				return true
			}
		}
		if t.Sort.K == KF64 {
			return true
		}
		for _, a := range t.Args {
			if walk(a) {
				return true
			}
		}
		return false
	}
	for _, t := range ts {
		if walk(t) {
			return true
		}
	}
	return false
}

// HasStringOps reports whether any term uses string theory operators beyond
// equality on variables/constants (used to route queries to the string solver).
func HasStringOps(ts ...*Term) bool {
	seen := map[int]bool{}
	var walk func(t *Term) bool
	walk = func(t *Term) bool {
		if seen[t.ID] {
			return false
		}
		seen[t.ID] = true
		if strings.HasPrefix(t.Op, "str.") {
			return true
		}
		for _, a := range t.Args {
			if walk(a) {
				return true
			}
		}
		return false
	}
	for _, t := range ts {
		if walk(t) {
			return true
		}
	}
	return false
}

// Subst replaces free symbols (by name) and returns the rebuilt term (no re-simplification).
func Subst(t *Term, repl map[string]*Term) *Term {
	memo := map[int]*Term{}
	var walk func(x *Term) *Term
	walk = func(x *Term) *Term {
		if r, ok := memo[x.ID]; ok {
			return r
		}
		var out *Term
		switch {
		case x.Op == "var":
			if r, ok := repl[x.Name]; ok {
				out = r
			} else {
				out = x
			}
		case len(x.Args) == 0:
			out = x
		default:
			changed := false
			na := make([]*Term, len(x.Args))
			for i, a := range x.Args {
				na[i] = walk(a)
				if na[i] != a {
					changed = true
				}
			}
			if !changed {
				out = x
			} else {
				out = mk(&Term{Op: x.Op, Args: na, Sort: x.Sort, Val: x.Val, B: x.B, S: x.S, Name: x.Name, I0: x.I0, I1: x.I1})
			}
		}
		memo[x.ID] = out
		return out
	}
	return walk(t)
}

// UFApps collects the applications of the named uninterpreted functions below the terms.
func UFApps(names map[string]bool, ts ...*Term) []*Term {
	seen := map[int]bool{}
	var out []*Term
	var walk func(x *Term)
	walk = func(x *Term) {
		if seen[x.ID] {
			return
		}
		seen[x.ID] = true
		if x.Op == "uf" && names[x.Name] {
			out = append(out, x)
		}
		for _, a := range x.Args {
			walk(a)
		}
	}
	for _, t := range ts {
		walk(t)
	}
	return out
}
