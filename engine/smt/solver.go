package smt

import (
	"bufio"
	"fmt"
	"io"
	"math/big"
	"os"
	"os/exec"
	"sort"
	"strconv"
	"strings"
	"sync"
	"time"
)

type Result int

const (
	Unsat Result = iota
	Sat
	Unknown
)

func (r Result) String() string { return [...]string{"unsat", "sat", "unknown"}[r] }

// Solver is one persistent solver process.
type Solver struct {
	Name      string
	cmd       *exec.Cmd
	in        io.WriteCloser
	out       *bufio.Reader
	defined   map[int]bool
	declUF    map[string]bool
	axiomsOut int
	TimeoutMs int
	Queries   int
	Unknowns  int
	Errors    int
	Time      time.Duration
	memo      map[string]Result
	shared    *sync.Map
	Log       io.Writer // optional transcript
	dead      bool
	// Scope: only axioms whose free symbols all carry this name prefix (one namespace per harness
	// entry) are asserted in this solver; axioms of other entries running in the same process are
	// irrelevant here.
	Scope      string
	axScanned  int
	axPending  []*Term
	axRelevant int
}

// global axiom instances (valid facts about UFs), asserted at base level in every solver.
var axioms []*Term
var axiomSeen = map[int]bool{}

// AddAxiom registers a ground fact that every query may rely on.
func AddAxiom(t *Term) {
	tab.mu.Lock()
	defer tab.mu.Unlock()
	if t.IsTrue() || axiomSeen[t.ID] {
		return
	}
	axiomSeen[t.ID] = true
	axioms = append(axioms, t)
}

func NumAxioms() int { tab.mu.Lock(); defer tab.mu.Unlock(); return len(axioms) }

// FastTimeoutMs is the per-query limit of the first portfolio round.
var FastTimeoutMs = 6000

// NewSolver starts "z3", "z3-new" or "cvc5" (suffix ":fast": with the short first-round time limit).
func NewSolver(name string, timeoutMs int) (*Solver, error) {
	var cmd *exec.Cmd
	full := name
	if strings.HasSuffix(name, ":fast") {
		// first-round instance of a staggered portfolio: same solver, short time limit
		name = strings.TrimSuffix(name, ":fast")
		if timeoutMs > FastTimeoutMs {
			timeoutMs = FastTimeoutMs
		}
	}
	defer func() { name = full }()
	switch name {
	case "z3":
		cmd = exec.Command("/usr/bin/z3", "-in")
	case "z3-new":
		cmd = exec.Command("z3-new", "-in")
	case "cvc5":
		cmd = exec.Command("cvc5", "--incremental", "--strings-exp", "--produce-models",
			"--lang=smt2", "--strings-model-max-len=4194304", fmt.Sprintf("--tlimit-per=%d", timeoutMs))
	default:
		return nil, fmt.Errorf("unknown solver %q", name)
	}
	in, err := cmd.StdinPipe()
	if err != nil {
		return nil, err
	}
	outp, err := cmd.StdoutPipe()
	if err != nil {
		return nil, err
	}
	cmd.Stderr = os.Stderr
	if err := cmd.Start(); err != nil {
		return nil, err
	}
	s := &Solver{Name: full, cmd: cmd, in: in, out: bufio.NewReaderSize(outp, 1<<20),
		defined: map[int]bool{}, declUF: map[string]bool{}, TimeoutMs: timeoutMs, memo: map[string]Result{}}
	if lp := os.Getenv("VCHECK_SMTLOG"); lp != "" {
		if f, err := os.OpenFile(fmt.Sprintf("%s.%s.%d", lp, name, os.Getpid()), os.O_CREATE|os.O_WRONLY|os.O_APPEND, 0o644); err == nil {
			s.Log = f
		}
	}
	s.send("(set-option :print-success false)")
	s.send("(set-option :produce-models true)")
	s.send("(set-option :global-declarations true)")
	if !strings.HasPrefix(name, "cvc5") {
		s.send(fmt.Sprintf("(set-option :timeout %d)", timeoutMs))
	}
	s.send("(set-logic ALL)")
	return s, nil
}

func (s *Solver) Close() {
	if s == nil || s.dead {
		return
	}
	s.dead = true
	fmt.Fprintln(s.in, "(exit)")
	s.in.Close()
	done := make(chan struct{})
	go func() { s.cmd.Wait(); close(done) }()
	select {
	case <-done:
	case <-time.After(2 * time.Second):
		s.cmd.Process.Kill()
	}
}

func (s *Solver) send(line string) {
	if s.Log != nil {
		fmt.Fprintln(s.Log, line)
	}
	fmt.Fprintln(s.in, line)
}

// define emits declarations/definitions for t's DAG (post-order), once per solver.
func (s *Solver) define(t *Term) {
	if s.defined[t.ID] {
		return
	}
	s.defined[t.ID] = true
	for _, a := range t.Args {
		s.define(a)
	}
	switch t.Op {
	case "const":
	case "var":
		s.send(fmt.Sprintf("(declare-fun %s () %s)", symName(t.Name), t.Sort))
	case "uf":
		if !s.declUF[t.Name] {
			s.declUF[t.Name] = true
			as, r, _ := UFSig(t.Name)
			ss := make([]string, len(as))
			for i, a := range as {
				ss[i] = a.String()
			}
			s.send(fmt.Sprintf("(declare-fun %s (%s) %s)", symName(t.Name), strings.Join(ss, " "), r))
		}
		fallthrough
	default:
		s.send(fmt.Sprintf("(define-fun t!%d () %s %s)", t.ID, t.Sort, t.body()))
	}
}

// syncAxioms picks the new global axioms that belong to this solver's scope.
func (s *Solver) syncAxioms() {
	tab.mu.Lock()
	pend := append([]*Term(nil), axioms[s.axScanned:]...)
	s.axScanned = len(axioms)
	tab.mu.Unlock()
	for _, a := range pend {
		rel := true
		for _, k := range symbolKeys(a) {
			if strings.HasPrefix(k, "v:") && !strings.HasPrefix(k[2:], s.Scope) {
				rel = false
				break
			}
		}
		if rel {
			s.axPending = append(s.axPending, a)
			s.axRelevant++
		}
	}
}

func (s *Solver) flushAxioms() {
	for _, a := range s.axPending {
		s.define(a)
		s.send("(assert " + a.ref() + ")")
	}
	s.axPending = nil
}

func key(as []*Term) string {
	ids := make([]int, len(as))
	for i, a := range as {
		ids[i] = a.ID
	}
	sort.Ints(ids)
	var sb strings.Builder
	for _, id := range ids {
		sb.WriteString(strconv.Itoa(id))
		sb.WriteByte(',')
	}
	return sb.String()
}

func (s *Solver) readLine() (string, error) {
	l, err := s.out.ReadString('\n')
	return strings.TrimSpace(l), err
}

// readSexp reads one balanced s-expression (possibly multi-line).
func (s *Solver) readSexp() (string, error) {
	var sb strings.Builder
	depth := 0
	inStr := false
	started := false
	for {
		c, err := s.out.ReadByte()
		if err != nil {
			return sb.String(), err
		}
		if !started {
			if c == ' ' || c == '\n' || c == '\r' || c == '\t' {
				continue
			}
			started = true
			if c != '(' {
				// atom: read to end of line
				sb.WriteByte(c)
				rest, err := s.out.ReadString('\n')
				sb.WriteString(strings.TrimSpace(rest))
				return sb.String(), err
			}
		}
		sb.WriteByte(c)
		if inStr {
			if c == '"' {
				inStr = false
			}
			continue
		}
		switch c {
		case '"':
			inStr = true
		case '(':
			depth++
		case ')':
			depth--
			if depth == 0 {
				return sb.String(), nil
			}
		}
	}
}

// Check decides the conjunction of the assertions (plus global axioms).
func (s *Solver) Check(as ...*Term) Result {
	r, _ := s.check(as, nil)
	return r
}

// CheckModel is Check plus values for the given symbols when sat.
func (s *Solver) CheckModel(as []*Term, syms []*Term) (Result, map[string]ModelVal) {
	return s.check(as, syms)
}

func (s *Solver) check(as []*Term, syms []*Term) (Result, map[string]ModelVal) {
	conj := make([]*Term, 0, len(as))
	for _, a := range as {
		if a.IsFalse() {
			return Unsat, nil
		}
		if !a.IsTrue() {
			conj = append(conj, a)
		}
	}
	s.syncAxioms()
	k := key(conj) + fmt.Sprintf("|ax%d", s.axRelevant)
	if syms == nil {
		if r, ok := s.memo[k]; ok {
			return r, nil
		}
		if s.shared != nil {
			if r, ok := s.shared.Load(k); ok {
				s.memo[k] = r.(Result)
				return r.(Result), nil
			}
			// another worker of the entry may be deciding the very same query right now: wait for it
			mine := make(chan struct{})
			if ch, busy := s.shared.LoadOrStore("inflight|"+k, mine); busy {
				<-ch.(chan struct{})
				if r, ok := s.shared.Load(k); ok {
					s.memo[k] = r.(Result)
					return r.(Result), nil
				}
			} else {
				defer func() {
					s.shared.Delete("inflight|" + k)
					close(mine)
				}()
			}
		}
	}
	if s.dead {
		return Unknown, nil
	}
	start := time.Now()
	if HasStringSort(conj...) {
		s.flushAxioms()
	}
	for _, a := range conj {
		s.define(a)
	}
	s.send("(push 1)")
	for _, a := range conj {
		s.send("(assert " + a.ref() + ")")
	}
	s.send("(check-sat)")
	s.Queries++
	res := Unknown
	errsBefore := s.Errors
	for {
		l, err := s.readLine()
		if err != nil {
			s.dead = true
			s.Errors++
			fmt.Fprintf(os.Stderr, "solver %s died: %v\n", s.Name, err)
			return Unknown, nil
		}
		if l == "" {
			continue
		}
		if s.Log != nil {
			fmt.Fprintln(s.Log, "; ->", l)
		}
		if l == "sat" {
			res = Sat
			break
		}
		if l == "unsat" {
			res = Unsat
			break
		}
		if l == "unknown" || strings.HasPrefix(l, "timeout") {
			res = Unknown
			break
		}
		if strings.HasPrefix(l, "(error") {
			s.Errors++
			fmt.Fprintf(os.Stderr, "solver %s: %s\n", s.Name, l)
			res = Unknown
			// an error may be followed by the check-sat answer; keep reading until it arrives
			continue
		}
	}
	if s.Errors > errsBefore && res != Unknown {
		// any (error line makes the verdict inconclusive
		res = Unknown
	}
	var model map[string]ModelVal
	if res == Sat && len(syms) > 0 {
		names := make([]string, len(syms))
		for i, v := range syms {
			s.define(v)
			names[i] = v.ref()
		}
		s.send("(get-value (" + strings.Join(names, " ") + "))")
		sx, err := s.readSexp()
		if err == nil {
			model = parseModel(sx, syms)
		}
	}
	s.send("(pop 1)")
	if res == Unknown {
		s.Unknowns++
	}
	s.Time += time.Since(start)
	if s.Log != nil {
		fmt.Fprintf(s.Log, "; took %.2fs result %v conjuncts %d\n", time.Since(start).Seconds(), res, len(conj))
	}
	if syms == nil {
		s.memo[k] = res
		if s.shared != nil && res != Unknown {
			s.shared.Store(k, res)
		}
	}
	return res, model
}

// ModelVal is a concrete value from a model.
type ModelVal struct {
	Sort Sort
	U    *big.Int // BV / Int
	B    bool
	S    string
	Raw  string
}

func (m ModelVal) String() string {
	switch m.Sort.K {
	case KBool:
		return fmt.Sprint(m.B)
	case KStr:
		return strconv.Quote(m.S)
	case KBV, KInt:
		if m.U != nil {
			return m.U.String()
		}
	}
	return m.Raw
}

type sx struct {
	atom string
	list []*sx
	isL  bool
}

func parseSx(s string) *sx {
	pos := 0
	var parse func() *sx
	skip := func() {
		for pos < len(s) && (s[pos] == ' ' || s[pos] == '\n' || s[pos] == '\t' || s[pos] == '\r') {
			pos++
		}
	}
	parse = func() *sx {
		skip()
		if pos >= len(s) {
			return nil
		}
		if s[pos] == '(' {
			pos++
			n := &sx{isL: true}
			for {
				skip()
				if pos >= len(s) {
					return n
				}
				if s[pos] == ')' {
					pos++
					return n
				}
				n.list = append(n.list, parse())
			}
		}
		if s[pos] == '"' {
			st := pos
			pos++
			for pos < len(s) {
				if s[pos] == '"' {
					if pos+1 < len(s) && s[pos+1] == '"' {
						pos += 2
						continue
					}
					pos++
					break
				}
				pos++
			}
			return &sx{atom: s[st:pos]}
		}
		if s[pos] == '|' {
			st := pos
			pos++
			for pos < len(s) && s[pos] != '|' {
				pos++
			}
			pos++
			return &sx{atom: s[st:pos]}
		}
		st := pos
		for pos < len(s) && !strings.ContainsRune(" \n\t\r()", rune(s[pos])) {
			pos++
		}
		return &sx{atom: s[st:pos]}
	}
	return parse()
}

func (n *sx) String() string {
	if n == nil {
		return ""
	}
	if !n.isL {
		return n.atom
	}
	ps := make([]string, len(n.list))
	for i, c := range n.list {
		ps[i] = c.String()
	}
	return "(" + strings.Join(ps, " ") + ")"
}

func unescapeSMT(lit string) string {
	if len(lit) >= 2 && lit[0] == '"' {
		lit = lit[1 : len(lit)-1]
	}
	lit = strings.ReplaceAll(lit, `""`, `"`)
	var sb strings.Builder
	for i := 0; i < len(lit); {
		if lit[i] == '\\' && i+1 < len(lit) {
			if lit[i+1] == 'u' && i+2 < len(lit) && lit[i+2] == '{' {
				j := strings.IndexByte(lit[i:], '}')
				if j > 0 {
					v, err := strconv.ParseUint(lit[i+3:i+j], 16, 32)
					if err == nil {
						if v < 256 {
							sb.WriteByte(byte(v))
						} else {
							sb.WriteByte('?')
						}
						i += j + 1
						continue
					}
				}
			}
			if lit[i+1] == 'u' && i+5 < len(lit) {
				v, err := strconv.ParseUint(lit[i+2:i+6], 16, 32)
				if err == nil {
					if v < 256 {
						sb.WriteByte(byte(v))
					} else {
						sb.WriteByte('?')
					}
					i += 6
					continue
				}
			}
			if lit[i+1] == 'x' && i+3 < len(lit) {
				v, err := strconv.ParseUint(lit[i+2:i+4], 16, 8)
				if err == nil {
					sb.WriteByte(byte(v))
					i += 4
					continue
				}
			}
		}
		sb.WriteByte(lit[i])
		i++
	}
	return sb.String()
}

func parseModel(s string, syms []*Term) map[string]ModelVal {
	root := parseSx(s)
	out := map[string]ModelVal{}
	if root == nil || !root.isL {
		return out
	}
	for i, p := range root.list {
		if i >= len(syms) || !p.isL || len(p.list) != 2 {
			continue
		}
		v := p.list[1]
		sym := syms[i]
		mv := ModelVal{Sort: sym.Sort, Raw: v.String()}
		switch sym.Sort.K {
		case KBool:
			mv.B = v.atom == "true"
		case KBV:
			a := v.atom
			if strings.HasPrefix(a, "#x") {
				mv.U, _ = new(big.Int).SetString(a[2:], 16)
			} else if strings.HasPrefix(a, "#b") {
				mv.U, _ = new(big.Int).SetString(a[2:], 2)
			} else if v.isL && len(v.list) == 3 && v.list[0].atom == "_" && strings.HasPrefix(v.list[1].atom, "bv") {
				mv.U, _ = new(big.Int).SetString(v.list[1].atom[2:], 10)
			}
		case KInt:
			if v.isL && len(v.list) == 2 && v.list[0].atom == "-" {
				mv.U, _ = new(big.Int).SetString(v.list[1].atom, 10)
				if mv.U != nil {
					mv.U.Neg(mv.U)
				}
			} else {
				mv.U, _ = new(big.Int).SetString(v.atom, 10)
			}
		case KStr:
			mv.S = unescapeSMT(v.atom)
		}
		out[sym.Name] = mv
	}
	return out
}

// Script renders a standalone SMT-LIB2 script for the assertions (for cross-checking with another solver
// or for saving next to a counterexample).
func Script(as []*Term) string {
	var sb strings.Builder
	sb.WriteString("(set-logic ALL)\n")
	seen := map[int]bool{}
	ufs := map[string]bool{}
	var def func(t *Term)
	def = func(t *Term) {
		if seen[t.ID] {
			return
		}
		seen[t.ID] = true
		for _, a := range t.Args {
			def(a)
		}
		switch t.Op {
		case "const":
		case "var":
			fmt.Fprintf(&sb, "(declare-fun %s () %s)\n", symName(t.Name), t.Sort)
		case "uf":
			if !ufs[t.Name] {
				ufs[t.Name] = true
				as, r, _ := UFSig(t.Name)
				ss := make([]string, len(as))
				for i, a := range as {
					ss[i] = a.String()
				}
				fmt.Fprintf(&sb, "(declare-fun %s (%s) %s)\n", symName(t.Name), strings.Join(ss, " "), r)
			}
			fallthrough
		default:
			fmt.Fprintf(&sb, "(define-fun t!%d () %s %s)\n", t.ID, t.Sort, t.body())
		}
	}
	tab.mu.Lock()
	ax := append([]*Term(nil), axioms...)
	tab.mu.Unlock()
	for _, a := range ax {
		def(a)
		fmt.Fprintf(&sb, "(assert %s)\n", a.ref())
	}
	for _, a := range as {
		def(a)
		fmt.Fprintf(&sb, "(assert %s)\n", a.ref())
	}
	sb.WriteString("(check-sat)\n")
	return sb.String()
}

// OneShot runs a standalone script through a fresh solver process.
func OneShot(solver string, script string, timeoutMs int) Result {
	var cmd *exec.Cmd
	switch solver {
	case "z3":
		cmd = exec.Command("/usr/bin/z3", "-in", fmt.Sprintf("-t:%d", timeoutMs))
	case "z3-new":
		cmd = exec.Command("z3-new", "-in", fmt.Sprintf("-t:%d", timeoutMs))
	default:
		cmd = exec.Command("cvc5", "--strings-exp", "--lang=smt2", fmt.Sprintf("--tlimit=%d", timeoutMs))
	}
	cmd.Stdin = strings.NewReader(script)
	out, _ := cmd.CombinedOutput()
	o := string(out)
	if strings.Contains(o, "(error") {
		return Unknown
	}
	for _, l := range strings.Split(o, "\n") {
		l = strings.TrimSpace(l)
		if l == "sat" {
			return Sat
		}
		if l == "unsat" {
			return Unsat
		}
	}
	return Unknown
}

// Checker is what the symbolic executor needs from a solver.
type Checker interface {
	Check(as ...*Term) Result
	CheckModel(as []*Term, syms []*Term) (Result, map[string]ModelVal)
}

// Router sends queries with string-theory content to cvc5 and everything else to z3, and
// falls back to the other solvers when the first answers unknown.
type Router struct {
	Scope     string
	TimeoutMs int
	solvers   map[string]*Solver
	Fallbacks int
	wins      map[string]int
	// Shared: verdicts shared by the routers of the parallel workers of one entry (same scope, hence the
	// same axioms); nil = none
	Shared *sync.Map
}

func NewRouter(timeoutMs int) *Router {
	return &Router{TimeoutMs: timeoutMs, solvers: map[string]*Solver{}}
}

func (r *Router) get(name string) *Solver {
	if s, ok := r.solvers[name]; ok && !s.dead {
		return s
	}
	s, err := NewSolver(name, r.TimeoutMs)
	if err != nil {
		panic(err)
	}
	s.Scope = r.Scope
	s.shared = r.Shared
	r.solvers[name] = s
	return s
}

func (r *Router) order(as []*Term) []string {
	if HasStringSort(as...) {
		return []string{"cvc5", "z3-new", "z3"}
	}
	if HasHardArith(as...) {
		return []string{"z3", "z3-new", "cvc5"}
	}
	return []string{"z3", "cvc5", "z3-new"}
}

// Check decides the conjunction by independent components: conjuncts that share no free symbol and
// no uninterpreted function (transitively) are decided separately (each by the solver suited to its
// theories) and memoised separately.  The conjunction is sat iff every component is.
func (r *Router) Check(as ...*Term) Result {
	var live []*Term
	for _, a := range as {
		if a.IsFalse() {
			return Unsat
		}
		if !a.IsTrue() {
			live = append(live, a)
		}
	}
	comps := Components(live)
	if len(comps) <= 1 {
		res, _ := r.checkFull(live, nil)
		return res
	}
	out := Sat
	for _, c := range comps {
		res, _ := r.checkFull(c, nil)
		if res == Unsat {
			return Unsat
		}
		if res == Unknown {
			out = Unknown
		}
	}
	return out
}

// CheckModel: a sliced Check first (cheap, memoised); the full query only when a model is needed.
func (r *Router) CheckModel(as []*Term, syms []*Term) (Result, map[string]ModelVal) {
	if syms == nil {
		return r.Check(as...), nil
	}
	if res := r.Check(as...); res == Unsat {
		return Unsat, nil
	}
	return r.checkFull(as, syms)
}

func (r *Router) checkFull(as []*Term, syms []*Term) (Result, map[string]ModelVal) {
	for _, a := range as {
		if a.IsFalse() {
			return Unsat, nil
		}
	}
	// staggered portfolio: every solver gets a short try first (a query that stalls one solver is often
	// easy for another), then each gets the full time limit
	order := r.order(as)
	if r.TimeoutMs > FastTimeoutMs {
		for i, name := range order {
			res, m := r.get(name+":fast").check(as, syms)
			if res != Unknown {
				if i > 0 {
					r.Fallbacks++
				}
				return res, m
			}
		}
	}
	// second round: the solver that settled earlier escalated queries of this entry goes first
	order = append([]string(nil), order...)
	sort.SliceStable(order, func(i, j int) bool { return r.wins[order[i]] > r.wins[order[j]] })
	for _, name := range order {
		res, m := r.get(name).check(as, syms)
		if res != Unknown {
			r.Fallbacks++
			if r.wins == nil {
				r.wins = map[string]int{}
			}
			r.wins[name]++
			return res, m
		}
	}
	return Unknown, nil
}

func (r *Router) Close() {
	for _, s := range r.solvers {
		s.Close()
	}
}

// Stats sums the per-solver counters.
func (r *Router) Stats() (queries, unknowns int, secs float64, names []string) {
	for n, s := range r.solvers {
		queries += s.Queries
		unknowns += s.Unknowns
		secs += s.Time.Seconds()
		names = append(names, fmt.Sprintf("%s:%dq/%.1fs", n, s.Queries, s.Time.Seconds()))
	}
	sort.Strings(names)
	return
}

// symbolKeys returns the free symbols and UF names below t (memoised per term id).
var symKeyMemo = map[int][]string{}
var symKeyMu sync.Mutex

func symbolKeys(t *Term) []string {
	symKeyMu.Lock()
	if k, ok := symKeyMemo[t.ID]; ok {
		symKeyMu.Unlock()
		return k
	}
	symKeyMu.Unlock()
	set := map[string]bool{}
	seen := map[int]bool{}
	var walk func(x *Term)
	walk = func(x *Term) {
		if seen[x.ID] {
			return
		}
		seen[x.ID] = true
		switch x.Op {
		case "var":
			set["v:"+x.Name] = true
		case "uf":
			set["f:"+x.Name] = true
		}
		for _, a := range x.Args {
			walk(a)
		}
	}
	walk(t)
	out := make([]string, 0, len(set))
	for k := range set {
		out = append(out, k)
	}
	sort.Strings(out)
	symKeyMu.Lock()
	symKeyMemo[t.ID] = out
	symKeyMu.Unlock()
	return out
}

// Components partitions conjuncts into groups connected through shared symbols / UF names.
func Components(as []*Term) [][]*Term {
	parent := make([]int, len(as))
	for i := range parent {
		parent[i] = i
	}
	var find func(i int) int
	find = func(i int) int {
		for parent[i] != i {
			parent[i] = parent[parent[i]]
			i = parent[i]
		}
		return i
	}
	owner := map[string]int{}
	for i, a := range as {
		for _, k := range symbolKeys(a) {
			if j, ok := owner[k]; ok {
				ri, rj := find(i), find(j)
				if ri != rj {
					parent[ri] = rj
				}
			} else {
				owner[k] = i
			}
		}
	}
	groups := map[int][]*Term{}
	var order []int
	for i, a := range as {
		r := find(i)
		if _, ok := groups[r]; !ok {
			order = append(order, r)
		}
		groups[r] = append(groups[r], a)
	}
	out := make([][]*Term, 0, len(order))
	for _, r := range order {
		out = append(out, groups[r])
	}
	return out
}
