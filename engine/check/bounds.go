package check

// Per-property bounds and assumptions reported in the evidence (kept next to the checks so they
// are stated once; DESIGN.md §5 explains them).
var boundsTable = map[string]map[string]interface{}{}
var assumptionsTable = map[string][]string{}

var commonAssumptions = []string{
	"go/ssa (x/tools v0.29.0) lowers the source faithfully; the executor's instruction semantics are validated per run by native execution of reach witnesses (traces_validated_against_impl)",
	"environment stubs return arbitrary values of their result types (harness stubs listed per entry in DESIGN.md §4.1)",
	"hashes, key derivation and encoders are uninterpreted functions (determinism only)",
	"SMT solvers z3 4.8.12 / z3 5.1.0 / cvc5 1.0 are sound; any (error line, unknown or timeout makes the run inconclusive (exit 2), never a pass",
}

func boundsFor(cfg Config) map[string]interface{} {
	b := map[string]interface{}{"symbolic_decisions_per_site": "4 (harness may raise with zzverif.Unwind; exceeding it ends the run inconclusive)",
		"integers": "full machine width, wrapping"}
	for k, v := range boundsTable[cfg.Property] {
		b[k] = v
	}
	return b
}

func assumptionsFor(cfg Config) []string {
	return append(append([]string(nil), commonAssumptions...), assumptionsTable[cfg.Property]...)
}
