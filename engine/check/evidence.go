package check

import (
	"encoding/json"
	"fmt"
	"os"
	"path/filepath"
	"sort"

	"verif/engine/symex"
)

func writeEvidence(cfg Config, prog *symex.Program, results []*entryResult, findings []Finding, nViol, nKnown, validated int, inconclusive []string, unconfirmed []string, loadSecs, wall float64) {
	paths, queries, unknowns := 0, 0, 0
	solverSecs := 0.0
	var samples []interface{}
	funcs := map[string]bool{}
	havoc := map[string]bool{}
	outcomes := map[string]int{}
	obligations, discharged, nontrivial := 0, 0, 0
	labels := map[string]bool{}
	var entryNames []string
	var knownMatched []string
	solverNames := map[string]bool{}
	for _, r := range results {
		entryNames = append(entryNames, r.Entry.Name)
		paths += r.Paths
		queries += r.Queries
		unknowns += r.Unknowns
		solverSecs += r.SolverSecs
		for _, n := range r.SolverNames {
			solverNames[n] = true
		}
		for _, f := range r.Funcs {
			funcs[f] = true
		}
		for _, h := range r.Havoc {
			havoc[h] = true
		}
		for k, v := range r.Outcomes {
			outcomes[k] += v
		}
		seenLabel := map[string]bool{}
		for _, ob := range r.Obligations {
			obligations++
			if ob.Verdict == "unsat" {
				discharged++
			}
			if ob.Known != "" {
				knownMatched = append(knownMatched, ob.Known)
			}
			key := r.Entry.Name + "/" + ob.Label
			if !labels[key] {
				labels[key] = true
				if _, ok := r.Reach[ob.Label]; ok || ob.Verdict == "sat" {
					nontrivial++
				}
			}
			if !seenLabel[ob.Label] && len(samples) < 40 {
				seenLabel[ob.Label] = true
				s := map[string]interface{}{"entry": r.Entry.Name, "obligation": ob.Label, "path": ob.PathID, "verdict": ob.Verdict, "pc_conjuncts": ob.PCLen}
				if w, ok := r.Reach[ob.Label]; ok {
					s["reach_witness"] = trimWitness(w)
				}
				if ob.Verdict == "sat" {
					s["counterexample"] = trimWitness(ob.Witness)
					s["replayed"] = ob.Replayed
					s["known_finding"] = ob.Known
				}
				samples = append(samples, s)
			}
		}
	}
	sort.Strings(entryNames)
	sort.Strings(knownMatched)
	ev := map[string]interface{}{
		"property_id": cfg.Property,
		"tier":        cfg.Tier,
		"seed":        cfg.Seed,
		"level":       "model_checking",
		"coverage": map[string]interface{}{
			"states":                        paths,
			"transitions":                   queries,
			"traces_validated_against_impl": validated,
			"samples":                       samples,
			"evaluations":                   queries,
			"distinct_nontrivial":           nontrivial,
			"rule":                          "one obligation = (harness entry, feasible symbolic path, assertion); states = symbolic paths explored, transitions = SMT queries discharged; an (entry, assertion label) is non-trivial when the solver produced a model reaching it (vacuity twin) or a counterexample",
			"obligations":                   obligations,
			"discharged":                    discharged,
			"entries":                       entryNames,
			"path_outcomes":                 outcomes,
			"functions_encoded":             keys(funcs),
			"stubs_havoc":                   keys(havoc),
			"bounds":                        boundsFor(cfg),
			"solver":                        map[string]interface{}{"processes": keys(solverNames), "time_s": round1(solverSecs), "unknown_answers": unknowns},
			"known_findings_matched":        uniq(knownMatched),
			"inconclusive":                  inconclusive,
			"race_candidates_unconfirmed":   unconfirmed,
			"load_s":                        round1(loadSecs),
			"exhaustive":                    false,
			"explanation":                   "bounded symbolic execution of the real functions (go/ssa of /repo's working tree, re-encoded on every run) with SMT discharge of every harness assertion on every feasible path",
		},
		"assumptions": assumptionsFor(cfg),
		"wall_s":      round1(wall),
		"violations":  nViol,
	}
	b, _ := json.MarshalIndent(ev, "", " ")
	dir := filepath.Join(cfg.Verif, "evidence")
	os.MkdirAll(dir, 0o755)
	if err := os.WriteFile(filepath.Join(dir, cfg.Property+".json"), b, 0o644); err != nil {
		fmt.Fprintln(os.Stderr, err)
	}
}

func trimWitness(w map[string]string) map[string]string {
	if len(w) <= 24 {
		return w
	}
	ks := make([]string, 0, len(w))
	for k := range w {
		ks = append(ks, k)
	}
	sort.Strings(ks)
	out := map[string]string{}
	for _, k := range ks[:24] {
		out[k] = w[k]
	}
	out["…"] = fmt.Sprintf("%d more symbols", len(w)-24)
	return out
}

func keys(m map[string]bool) []string {
	out := make([]string, 0, len(m))
	for k := range m {
		out = append(out, k)
	}
	sort.Strings(out)
	return out
}

func uniq(a []string) []string {
	var out []string
	for i, s := range a {
		if i == 0 || a[i-1] != s {
			out = append(out, s)
		}
	}
	return out
}

func round1(f float64) float64 { return float64(int(f*10+0.5)) / 10 }
