// Package check drives one property: discover harness entries, execute them symbolically,
// discharge obligations, replay counterexamples natively, write evidence.
package check

import (
	"crypto/sha256"
	"encoding/hex"
	"encoding/json"
	"fmt"
	"os"
	"path/filepath"
	"regexp"
	"sort"
	"strings"
	"sync"
	"sync/atomic"
	"time"

	"verif/engine/smt"
	"verif/engine/symex"

	"golang.org/x/tools/go/ssa"
)

type Config struct {
	Repo       string
	Verif      string
	Property   string
	Tier       string
	Seed       int
	Verbose    bool
	OnlyEntry  string
	NoReplay   bool
	Workers    int
	Inner      int // parallel workers inside one entry
	KeepGoing  bool
	NoValidate bool
	HarnessDir string // snapshot of <verif>/harness used by this run
}

func snapshotHarness(src string) (string, error) {
	dst, err := os.MkdirTemp("", "vcheck-harness-")
	if err != nil {
		return "", err
	}
	err = filepath.Walk(src, func(p string, info os.FileInfo, err error) error {
		if err != nil {
			return err
		}
		rel, _ := filepath.Rel(src, p)
		if info.IsDir() {
			return os.MkdirAll(filepath.Join(dst, rel), 0o755)
		}
		b, err := os.ReadFile(p)
		if err != nil {
			return err
		}
		return os.WriteFile(filepath.Join(dst, rel), b, 0o644)
	})
	return dst, err
}

// Finding is one line of known_findings.jsonl.
type Finding struct {
	Status   string            `json:"status"` // finding | fixed
	Property string            `json:"property"`
	ID       string            `json:"id"`
	Entry    string            `json:"entry"`
	Label    string            `json:"label"`
	Region   string            `json:"region"`  // SMT-LIB Bool expression over named symbols; "" = whole obligation
	Symbols  map[string]string `json:"symbols"` // symbol -> sort ("bv32","bv64","bool","str","bv8")
	What     string            `json:"what"`
	Commit   string            `json:"commit,omitempty"`
}

type entryInfo struct {
	Name   string
	PkgDir string // relative to repo, e.g. "swap"
	File   string
	Also   []string // further properties this entry carries obligations for (// zzverif:also Cxx ...)
}

func (e entryInfo) serves(prop string) bool {
	if propOf(e.Name) == prop {
		return true
	}
	for _, a := range e.Also {
		if a == prop {
			return true
		}
	}
	return false
}

var entryRe = regexp.MustCompile(`(?m)^(?://\s*zzverif:also((?:\s+C\d+)+)\s*\n)?func (H_(C\d+)_\w+)\(\)`)

func discoverEntries(harnessDir string) ([]entryInfo, error) {
	var out []entryInfo
	err := filepath.Walk(harnessDir, func(p string, info os.FileInfo, err error) error {
		if err != nil || info.IsDir() || !strings.HasSuffix(p, ".go") {
			return err
		}
		b, err := os.ReadFile(p)
		if err != nil {
			return err
		}
		rel, _ := filepath.Rel(harnessDir, p)
		for _, mm := range entryRe.FindAllStringSubmatch(string(b), -1) {
			out = append(out, entryInfo{Name: mm[2], PkgDir: filepath.Dir(rel), File: p, Also: strings.Fields(mm[1])})
		}
		return nil
	})
	sort.Slice(out, func(i, j int) bool { return out[i].Name < out[j].Name })
	return out, err
}

func propOf(entry string) string { return strings.SplitN(entry, "_", 3)[1] }

var labelPropRe = regexp.MustCompile(`^(C\d+)\.`)

func labelProp(label string) string {
	if mm := labelPropRe.FindStringSubmatch(label); mm != nil {
		return mm[1]
	}
	return ""
}

type obligation struct {
	Entry    string
	Label    string
	PathID   int
	Verdict  string // unsat | sat | unknown
	Known    string // finding id when the violation is a known finding
	Witness  map[string]string
	PCLen    int
	Replayed string // "", "reproduced", "not-reproduced", "skipped"
	Replay   string // dir
	model    map[string]smt.ModelVal
	races    []symex.RaceConflict
}

type valCase struct {
	model   map[string]smt.ModelVal
	trace   []string
	outcome string
	pathID  int
}

type entryResult struct {
	Entry       entryInfo
	Paths       int
	Complete    bool
	Outcomes    map[string]int
	Obligations []*obligation
	Reach       map[string]map[string]string // label -> witness
	Unsupported []string
	Inconcl     []string
	Havoc       []string
	Funcs       []string
	Queries     int
	Unknowns    int
	SolverSecs  float64
	SolverNames []string
	Steps       int
	Wall        float64
	UnknownBr   int
	witnessFor  map[string]map[string]smt.ModelVal // label -> model for translator validation
	valCases    map[string]*valCase
	pathSamples []string
}

func modelToStrings(m map[string]smt.ModelVal) map[string]string {
	out := map[string]string{}
	for k, v := range m {
		out[bareName(k)] = v.String()
	}
	return out
}

// bareName strips the per-entry namespace prefix ("H_Cxx_entry!") from an SMT symbol name.
func bareName(k string) string {
	if i := strings.Index(k, "!"); i >= 0 && strings.HasPrefix(k, "H_C") {
		return k[i+1:]
	}
	return k
}

// matchesList: "" matches everything; otherwise a comma-separated list of names, a trailing * is a prefix wildcard.
func matchesList(list, name string) bool {
	if strings.TrimSpace(list) == "" {
		return true
	}
	for _, it := range strings.Split(list, ",") {
		it = strings.TrimSpace(it)
		if it == name || (strings.HasSuffix(it, "*") && strings.HasPrefix(name, strings.TrimSuffix(it, "*"))) {
			return true
		}
	}
	return false
}

func sortFromName(s string) smt.Sort {
	switch s {
	case "bool":
		return smt.Bool
	case "str":
		return smt.Str
	case "bv8":
		return smt.BV(8)
	case "bv16":
		return smt.BV(16)
	case "bv32":
		return smt.BV(32)
	}
	return smt.BV(64)
}

func regionTerm(f Finding, prefix string) *smt.Term {
	if f.Region == "" {
		return smt.True
	}
	var syms []*smt.Term
	names := make([]string, 0, len(f.Symbols))
	for n := range f.Symbols {
		names = append(names, n)
	}
	sort.Strings(names)
	var binds []string
	for _, n := range names {
		v := smt.Var(prefix+n, sortFromName(f.Symbols[n]))
		syms = append(syms, v)
		binds = append(binds, "("+smt.SymName(n)+" "+smt.SymName(prefix+n)+")")
	}
	text := f.Region
	if len(binds) > 0 {
		text = "(let (" + strings.Join(binds, " ") + ") " + f.Region + ")"
	}
	return smt.Raw(text, syms...)
}

func loadFindings(verif string) ([]Finding, error) {
	b, err := os.ReadFile(filepath.Join(verif, "known_findings.jsonl"))
	if os.IsNotExist(err) {
		return nil, nil
	}
	if err != nil {
		return nil, err
	}
	var out []Finding
	for _, l := range strings.Split(string(b), "\n") {
		l = strings.TrimSpace(l)
		if l == "" || strings.HasPrefix(l, "#") {
			continue
		}
		var f Finding
		if err := json.Unmarshal([]byte(l), &f); err != nil {
			return nil, fmt.Errorf("known_findings.jsonl: %v in %q", err, l)
		}
		out = append(out, f)
	}
	return out, nil
}

// Run executes the check and returns the process exit code.
func Run(cfg Config) int {
	start := time.Now()
	// work on a private snapshot of the harness sources so that concurrent edits cannot change what
	// this run analyses and replays
	snap, err := snapshotHarness(filepath.Join(cfg.Verif, "harness"))
	if err != nil {
		fmt.Fprintln(os.Stderr, "harness snapshot:", err)
		return 2
	}
	defer os.RemoveAll(snap)
	cfg.HarnessDir = snap
	harnessDir := snap
	all, err := discoverEntries(harnessDir)
	if err != nil {
		fmt.Fprintln(os.Stderr, "discover:", err)
		return 2
	}
	var entries []entryInfo
	for _, e := range all {
		if !e.serves(cfg.Property) {
			continue
		}
		if cfg.OnlyEntry != "" && e.Name != cfg.OnlyEntry {
			continue
		}
		if cfg.Tier == "quick" && strings.Contains(e.Name, "_T_") { // thorough-only entries carry _T_
			continue
		}
		entries = append(entries, e)
	}
	if len(entries) == 0 {
		fmt.Fprintf(os.Stderr, "no harness entries for %s\n", cfg.Property)
		return 2
	}
	findings, err := loadFindings(cfg.Verif)
	if err != nil {
		fmt.Fprintln(os.Stderr, err)
		return 2
	}
	overlay, err := symex.HarnessOverlay(cfg.Repo, harnessDir)
	if err != nil {
		fmt.Fprintln(os.Stderr, err)
		return 2
	}
	pkgSet := map[string]bool{}
	for _, e := range entries {
		pkgSet[e.PkgDir] = true
	}
	var patterns []string
	for d := range pkgSet {
		patterns = append(patterns, "./"+d)
	}
	sort.Strings(patterns)
	patterns = append(patterns, extraPackages(patterns)...)
	var extraExec []string
	for d := range pkgSet {
		if b, err := os.ReadFile(filepath.Join(harnessDir, d, "EXEC")); err == nil {
			for _, l := range strings.Split(string(b), "\n") {
				l = strings.TrimSpace(l)
				if l != "" && !strings.HasPrefix(l, "#") {
					extraExec = append(extraExec, l)
					patterns = append(patterns, l)
				}
			}
		}
	}
	loadStart := time.Now()
	prog, err := symex.Load(cfg.Repo, overlay, patterns, extraExec)
	if err != nil {
		fmt.Fprintln(os.Stderr, "load:", err)
		return 2
	}
	loadSecs := time.Since(loadStart).Seconds()
	if cfg.Verbose {
		fmt.Fprintf(os.Stderr, "loaded %v in %.1fs\n", patterns, loadSecs)
	}

	results := make([]*entryResult, len(entries))
	workers := cfg.Workers
	if workers <= 0 {
		workers = 8
	}
	var wg sync.WaitGroup
	sem := make(chan struct{}, workers)
	for i, e := range entries {
		wg.Add(1)
		go func(i int, e entryInfo) {
			defer wg.Done()
			sem <- struct{}{}
			defer func() { <-sem }()
			results[i] = runEntry(cfg, prog, e, findings)
			r := results[i]
			fmt.Fprintf(os.Stderr, "[entry %s] paths=%d obligations=%d outcomes=%v queries=%d solver=%.1fs wall=%.1fs\n", e.Name, r.Paths, len(r.Obligations), r.Outcomes, r.Queries, r.SolverSecs, r.Wall)
		}(i, e)
	}
	wg.Wait()

	// ---- replay candidate violations, translator validation ----
	rp := newReplayer(cfg, overlay)
	defer rp.cleanup()
	exit := 0
	var violations []string
	var knownLines []string
	inconclusive := []string{}
	unconfirmed := []string{}
	validated := 0
	validationMismatch := []string{}
	for _, r := range results {
		for _, u := range r.Unsupported {
			inconclusive = append(inconclusive, r.Entry.Name+": "+u)
		}
		for _, u := range r.Inconcl {
			inconclusive = append(inconclusive, r.Entry.Name+": "+u)
		}
		// counterexamples: replay one witness per (label, known-finding id); prefer short paths
		groups := map[string][]*obligation{}
		var gorder []string
		for _, ob := range r.Obligations {
			switch ob.Verdict {
			case "unknown":
				inconclusive = append(inconclusive, fmt.Sprintf("%s: obligation %s path %d: solver unknown", r.Entry.Name, ob.Label, ob.PathID))
			case "sat":
				k := ob.Label + "|" + ob.Known
				if _, ok := groups[k]; !ok {
					gorder = append(gorder, k)
				}
				groups[k] = append(groups[k], ob)
			}
		}
		for _, k := range gorder {
			obs := groups[k]
			sort.SliceStable(obs, func(i, j int) bool { return obs[i].PCLen < obs[j].PCLen })
			var hit *obligation
			var lastOut, lastDir string
			if cfg.NoReplay {
				hit = obs[0]
				hit.Replayed = "skipped"
			} else {
				for i := 0; i < len(obs) && i < 3; i++ {
					dir, ok, out := rp.replay(r.Entry, obs[i])
					obs[i].Replay = dir
					lastOut, lastDir = out, dir
					if ok {
						obs[i].Replayed = "reproduced"
						hit = obs[i]
						break
					}
					obs[i].Replayed = "not-reproduced"
				}
			}
			if hit == nil && len(obs[0].races) > 0 {
				// a lockset candidate the race detector did not confirm in any attempt: the two accesses may be
				// ordered by something the lockset does not see (goroutine start, channel, WaitGroup).  Reported,
				// recorded in the evidence, not an alarm.
				c := obs[0].races[0]
				fmt.Fprintf(os.Stderr, "RACE-CANDIDATE-UNCONFIRMED: %s %s: %s (%s) vs %s (%s); see %s\n", r.Entry.Name, obs[0].Label, c.A, c.FnA, c.B, c.FnB, lastDir)
				unconfirmed = append(unconfirmed, fmt.Sprintf("%s %s: %s vs %s", r.Entry.Name, obs[0].Label, c.A, c.B))
				for _, ob := range obs {
					ob.Verdict = "unconfirmed-candidate"
				}
				continue
			}
			if hit == nil {
				inconclusive = append(inconclusive, fmt.Sprintf("%s: %d counterexample(s) for %s did not reproduce natively (encoder/stub mismatch); see %s\n%s", r.Entry.Name, len(obs), obs[0].Label, lastDir, tail(lastOut, 15)))
				continue
			}
			for _, ob := range obs {
				if ob != hit && ob.Replayed == "" {
					ob.Replayed = "same-label-as-replayed"
				}
			}
			if hit.Known != "" {
				knownLines = append(knownLines, fmt.Sprintf("KNOWN-FINDING: property=%s %s [%s %s, %d path(s)] replay=%s", cfg.Property, findingWhat(findings, hit.Known), hit.Known, hit.Label, len(obs), hit.Replay))
			} else {
				violations = append(violations, fmt.Sprintf("VIOLATION property=%s replay=%s", cfg.Property, hit.Replay))
				fmt.Fprintf(os.Stderr, "violation: entry=%s label=%s (%d path(s)) witness=%v\n", r.Entry.Name, hit.Label, len(obs), hit.Witness)
			}
		}
		if !cfg.NoValidate && !cfg.NoReplay {
			n, mism := rp.validate(r)
			validated += n
			validationMismatch = append(validationMismatch, mism...)
		}
	}
	for _, mm := range validationMismatch {
		inconclusive = append(inconclusive, "translator validation mismatch: "+mm)
	}
	seen := map[string]bool{}
	for _, l := range knownLines {
		key := l[:strings.Index(l, " replay=")]
		if !seen[key] {
			seen[key] = true
			fmt.Println(l)
		}
	}
	seenV := map[string]bool{}
	for _, l := range violations {
		if !seenV[l] {
			seenV[l] = true
			fmt.Println(l)
		}
	}
	if totalObl(results) == 0 {
		inconclusive = append(inconclusive, "vacuous: no obligation for this property in any entry")
	}
	if len(violations) > 0 {
		exit = 1
	} else if len(inconclusive) > 0 {
		exit = 2
	}
	for _, l := range inconclusive {
		fmt.Fprintln(os.Stderr, "INCONCLUSIVE:", l)
	}
	writeEvidence(cfg, prog, results, findings, len(violations), len(knownLines), validated, inconclusive, unconfirmed, loadSecs, time.Since(start).Seconds())
	fmt.Fprintf(os.Stderr, "%s %s: entries=%d paths=%d obligations=%d violations=%d known=%d inconclusive=%d validated=%d wall=%.1fs\n",
		cfg.Property, cfg.Tier, len(results), totalPaths(results), totalObl(results), len(seenV), len(seen), len(inconclusive), validated, time.Since(start).Seconds())
	return exit
}

func tail(s string, n int) string {
	ls := strings.Split(strings.TrimSpace(s), "\n")
	if len(ls) > n {
		ls = ls[len(ls)-n:]
	}
	return strings.Join(ls, "\n")
}

func findingWhat(fs []Finding, id string) string {
	for _, f := range fs {
		if f.ID == id {
			return f.What
		}
	}
	return id
}

func totalPaths(rs []*entryResult) int {
	n := 0
	for _, r := range rs {
		n += r.Paths
	}
	return n
}
func totalObl(rs []*entryResult) int {
	n := 0
	for _, r := range rs {
		n += len(r.Obligations)
	}
	return n
}

// extraPackages: dependency packages whose bodies some harness packages need (kept small).
func extraPackages(patterns []string) []string {
	return []string{"./zzverif"}
}

func runEntry(cfg Config, prog *symex.Program, e entryInfo, findings []Finding) *entryResult {
	t0 := time.Now()
	res := &entryResult{Entry: e, Outcomes: map[string]int{}, Reach: map[string]map[string]string{}, witnessFor: map[string]map[string]smt.ModelVal{}, valCases: map[string]*valCase{}}
	pkg := prog.Pkgs[symex.ModPath+"/"+e.PkgDir]
	if pkg == nil {
		res.Unsupported = append(res.Unsupported, "package not loaded: "+e.PkgDir)
		return res
	}
	fn := pkg.Func(e.Name)
	if fn == nil {
		res.Unsupported = append(res.Unsupported, "entry not found in SSA: "+e.Name)
		return res
	}
	timeout := 20000
	maxPaths := 20000
	budget := 8 * time.Minute // per entry; a loaded machine (parallel checks) needs the margin
	if cfg.Tier == "thorough" {
		timeout = 120000
		maxPaths = 100000
		budget = 30 * time.Minute
	}
	inner := cfg.Inner
	if inner < 1 {
		inner = 1
	}
	shared := &sync.Map{}
	var routers []*smt.Router
	var ms []*symex.Machine
	for i := 0; i < inner; i++ {
		r := smt.NewRouter(timeout)
		r.Scope = e.Name + "!"
		r.Shared = shared
		defer r.Close()
		mi := symex.NewMachine(prog, r)
		mi.Verbose = cfg.Verbose
		mi.Thorough = cfg.Tier == "thorough"
		mi.Prefix = e.Name + "!"
		routers = append(routers, r)
		ms = append(ms, mi)
	}
	router, m := routers[0], ms[0]
	prefix := m.Prefix
	paths, complete := symex.ExploreParallel(ms, fn, maxPaths, budget)
	for _, mi := range ms[1:] {
		m.UnknownBranches += mi.UnknownBranches
		for k, n := range mi.HavocCalls {
			m.HavocCalls[k] += n
		}
		for f := range mi.FuncsSeen {
			m.FuncsSeen[f] = true
		}
	}
	res.Paths = len(paths)
	res.Complete = complete
	if !complete {
		res.Inconcl = append(res.Inconcl, fmt.Sprintf("path/time budget exhausted after %d paths", len(paths)))
	}
	res.UnknownBr = m.UnknownBranches
	if m.UnknownBranches > 0 {
		// branches kept on unknown are sound for safety but make reach witnesses unreliable; report
		res.pathSamples = append(res.pathSamples, fmt.Sprintf("unknown_branches=%d (kept)", m.UnknownBranches))
	}
	myFindings := map[string][]Finding{}
	for _, f := range findings {
		if f.Status == "finding" && f.Property == cfg.Property && matchesList(f.Entry, e.Name) {
			for _, l := range strings.Split(f.Label, ",") {
				myFindings[strings.TrimSpace(l)] = append(myFindings[strings.TrimSpace(l)], f)
			}
		}
	}
	// Race2 entries: combine the accesses of paths that ran the first handler with those of paths that ran
	// the second one; a candidate needs both paths possible from one setup (joint path condition).
	{
		var aPaths, bPaths []*symex.Path
		for _, p := range paths {
			if p.RaceLabel == "" || p.Outcome != "return" {
				continue
			}
			if p.RaceRegion == 1 {
				aPaths = append(aPaths, p)
			} else {
				bPaths = append(bPaths, p)
			}
		}
		seenPair := map[string]bool{}
		for _, pa := range aPaths {
			for _, pb := range bPaths {
				cs := symex.RaceConflicts(pa.RaceAcc, pb.RaceAcc)
				var fresh []symex.RaceConflict
				for _, c := range cs {
					if !seenPair[c.Desc+"|"+c.A+"|"+c.B] {
						fresh = append(fresh, c)
					}
				}
				if len(fresh) == 0 {
					continue
				}
				joint := append(append([]*smt.Term(nil), pa.PC...), pb.PC...)
				if router.Check(joint...) != smt.Sat {
					continue
				}
				byDesc := map[string][]symex.RaceConflict{}
				for _, c := range fresh {
					seenPair[c.Desc+"|"+c.A+"|"+c.B] = true
					byDesc[c.Desc] = append(byDesc[c.Desc], c)
				}
				for d, l := range byDesc {
					pa.Asserts = append(pa.Asserts, &symex.AssertRec{Label: pa.RaceLabel + ":" + strings.ReplaceAll(d, " ", "_"), Cond: smt.False,
						PC: joint, Draws: append(append([]string(nil), pa.Draws...), pb.Draws...), Races: l})
				}
			}
		}
	}
	seenUnsupp := map[string]bool{}
	deadline := t0.Add(budget + budget/2)
	timedOut := false
	if inner > 1 {
		// decide the obligations in parallel first (sliced, memoised verdicts shared by the routers); the
		// loop below then finds the unsat ones answered and only asks for models of the others
		var wg sync.WaitGroup
		next := int64(-1)
		for _, r := range routers {
			wg.Add(1)
			go func(r *smt.Router) {
				defer wg.Done()
				for {
					i := int(atomic.AddInt64(&next, 1))
					if i >= len(paths) || time.Now().After(deadline) {
						return
					}
					for _, ar := range paths[i].Asserts {
						if lp := labelProp(ar.Label); lp != "" && lp != cfg.Property {
							continue
						}
						q := append(append([]*smt.Term(nil), ar.PC...), smt.Not(ar.Cond))
						if fs := myFindings[ar.Label]; len(fs) > 0 {
							var regions []*smt.Term
							for _, f := range fs {
								regions = append(regions, regionTerm(f, prefix))
							}
							q = append(q, smt.Not(smt.Or(regions...)))
						}
						symex.WithCPU(func() { r.Check(q...) })
					}
				}
			}(r)
		}
		wg.Wait()
	}
	for _, p := range paths {
		if time.Now().After(deadline) {
			timedOut = true
			break
		}
		res.Outcomes[p.Outcome]++
		res.Steps += p.Steps
		switch p.Outcome {
		case "unsupported", "budget", "unwind":
			msg := p.Outcome + ": " + p.Msg
			if !seenUnsupp[msg] {
				seenUnsupp[msg] = true
				res.Unsupported = append(res.Unsupported, msg)
			}
		case "panic", "deadlock", "blocked":
			// a panic/deadlock path is reported through the harness' own obligations:
			// harness entries that must not panic declare it via the entry name suffix _NoPanic
			if strings.Contains(e.Name, "NoPanic") && p.Outcome != "blocked" {
				ar := &symex.AssertRec{Label: cfg.Property + ".no_" + p.Outcome, Cond: smt.False, PC: p.PC, Draws: p.Draws}
				p.Asserts = append(p.Asserts, ar)
				if len(res.pathSamples) < 6 {
					res.pathSamples = append(res.pathSamples, p.Outcome+": "+p.Msg)
				}
			}
		}
		for _, ar := range p.Asserts {
			if lp := labelProp(ar.Label); lp != "" && lp != cfg.Property {
				continue // obligation of another property served by the same entry
			}
			ob := &obligation{Entry: e.Name, Label: ar.Label, PathID: p.ID, PCLen: len(ar.PC), races: ar.Races}
			res.Obligations = append(res.Obligations, ob)
			neg := smt.Not(ar.Cond)
			q := append(append([]*smt.Term(nil), ar.PC...), neg)
			fs := myFindings[ar.Label]
			var regions []*smt.Term
			for _, f := range fs {
				regions = append(regions, regionTerm(f, prefix))
			}
			syms := symsFor(ar.Draws, q)
			// vacuity twin: the assertion point is reachable
			if _, done := res.Reach[ar.Label]; !done {
				rr, mm := router.CheckModel(ar.PC, symsFor(ar.Draws, ar.PC))
				if rr == smt.Sat {
					res.Reach[ar.Label] = modelToStrings(mm)
					if p.Outcome == "return" {
						res.witnessFor[ar.Label] = mm
					}
				}
			}
			if len(fs) > 0 {
				// new violations first: outside all listed regions
				qOut := append(append([]*smt.Term(nil), q...), smt.Not(smt.Or(regions...)))
				r, model := router.CheckModel(qOut, syms)
				switch r {
				case smt.Sat:
					ob.Verdict = "sat"
					ob.Witness = modelToStrings(model)
					ob.model = model
					continue
				case smt.Unknown:
					ob.Verdict = "unknown"
					continue
				}
				ob.Verdict = "unsat"
				for i, f := range fs {
					qIn := append(append([]*smt.Term(nil), q...), regions[i])
					r, model := router.CheckModel(qIn, syms)
					if r == smt.Sat {
						kob := &obligation{Entry: e.Name, Label: ar.Label, PathID: p.ID, PCLen: len(ar.PC), Verdict: "sat", Known: f.ID, Witness: modelToStrings(model), model: model, races: ar.Races}
						res.Obligations = append(res.Obligations, kob)
					} else if r == smt.Unknown {
						ob.Verdict = "unknown"
					}
				}
				continue
			}
			r, model := router.CheckModel(q, syms)
			switch r {
			case smt.Unsat:
				ob.Verdict = "unsat"
			case smt.Sat:
				ob.Verdict = "sat"
				ob.Witness = modelToStrings(model)
				ob.model = model
			default:
				ob.Verdict = "unknown"
			}
		}
		if p.Outcome == "return" && len(res.valCases) < 8 {
			clean := true
			for _, ef := range p.Effects {
				if ef.Name == "select" || ef.Name == "spawn" || ef.Name == "concurrently" {
					clean = false // scheduler choices cannot be scripted natively
				}
			}
			for _, ob := range res.Obligations {
				if ob.PathID == p.ID && ob.Verdict != "unsat" {
					clean = false
				}
			}
			if clean && dependsOnFormatting(p.PC) {
				// the path condition compares against fmt.Sprintf of symbolic arguments, an uninterpreted
				// function here: the model's value for it is not the text the native run formats
				clean = false
			}
			if clean {
				rr, mm := router.CheckModel(p.PC, symsFor(p.Draws, p.PC))
				if rr == smt.Sat {
					res.valCases[fmt.Sprintf("%06d", p.ID)] = &valCase{model: mm, trace: p.HTrace, outcome: p.Outcome, pathID: p.ID}
				}
			}
		}
		for _, rc := range p.Reaches {
			if _, done := res.Reach["reach:"+rc.Label]; !done {
				rr, mm := router.CheckModel(rc.PC, symsFor(p.Draws, rc.PC))
				if rr == smt.Sat {
					res.Reach["reach:"+rc.Label] = modelToStrings(mm)
				}
			}
		}
		if len(res.pathSamples) < 4 && p.Outcome == "return" {
			res.pathSamples = append(res.pathSamples, fmt.Sprintf("path %d: %d pc conjuncts, %d effects, %d asserts", p.ID, len(p.PC), len(p.Effects), len(p.Asserts)))
		}
	}
	if timedOut {
		res.Inconcl = append(res.Inconcl, "time budget exhausted while discharging obligations")
	}
	// every assert label must have a reachable instance
	labels := map[string]bool{}
	for _, ob := range res.Obligations {
		labels[ob.Label] = true
	}
	for l := range labels {
		if _, ok := res.Reach[l]; !ok && !strings.Contains(l, ".no_") {
			hasSat := false
			for _, ob := range res.Obligations {
				if ob.Label == l && ob.Verdict == "sat" {
					hasSat = true
				}
			}
			if !hasSat {
				res.Inconcl = append(res.Inconcl, "vacuous: no satisfiable path reaches assertion "+l)
			}
		}
	}
	if len(res.Obligations) == 0 && len(res.Unsupported) == 0 && propOf(e.Name) == cfg.Property {
		// (an entry that serves this property only through "zzverif:also" may have nothing to say about it)
		res.Inconcl = append(res.Inconcl, "vacuous: entry produced no obligation")
	}
	res.Havoc = m.SortedHavoc()
	for _, h := range res.Havoc {
		// a verdict must not rest on an unreviewed stub: havocked callees make the run inconclusive
		res.Inconcl = append(res.Inconcl, "havocked callee (no body, no intrinsic): "+h)
	}
	for f := range m.FuncsSeen {
		res.Funcs = append(res.Funcs, funcDesc(prog, f))
	}
	sort.Strings(res.Funcs)
	for _, r := range routers {
		q, u, secs, names := r.Stats()
		res.Queries += q
		res.Unknowns += u
		res.SolverSecs += secs
		if r == router {
			res.SolverNames = names
		}
	}
	res.Wall = time.Since(t0).Seconds()
	return res
}

func funcDesc(prog *symex.Program, f *ssa.Function) string {
	pos := prog.Fset.Position(f.Pos())
	h := sha256.New()
	f.WriteTo(h)
	file := pos.Filename
	if i := strings.Index(file, "/repo/"); i >= 0 {
		file = file[i+6:]
	}
	return fmt.Sprintf("%s %s:%d ssa=%s", f.String(), file, pos.Line, hex.EncodeToString(h.Sum(nil))[:12])
}

func symsFor(draws []string, q []*smt.Term) []*smt.Term {
	seen := map[string]bool{}
	var out []*smt.Term
	for _, v := range smt.Vars(q...) {
		if !seen[v.Name] {
			seen[v.Name] = true
			out = append(out, v)
		}
	}
	return out
}

// dependsOnFormatting: some conjunct mentions an application of the uninterpreted stand-in for fmt.Sprintf.
func dependsOnFormatting(pc []*smt.Term) bool {
	seen := map[int]bool{}
	var walk func(t *smt.Term) bool
	walk = func(t *smt.Term) bool {
		if t == nil || seen[t.ID] {
			return false
		}
		seen[t.ID] = true
		if t.Op == "uf" && strings.HasPrefix(t.Name, "sprintf") {
			return true
		}
		for _, a := range t.Args {
			if walk(a) {
				return true
			}
		}
		return false
	}
	for _, c := range pc {
		if walk(c) {
			return true
		}
	}
	return false
}
