package check

import (
	"context"
	"crypto/sha256"
	"encoding/hex"
	"encoding/json"
	"fmt"
	"os"
	"os/exec"
	"path/filepath"
	"regexp"
	"sort"
	"strings"
	"time"

	"strconv"

	"verif/engine/smt"
	"verif/engine/symex"
)

// replayer builds one native test binary per harness package (through go test -overlay, no file is
// added to /repo) and runs harness entries under scripted values.
type replayer struct {
	cfg      Config
	overlay  map[string]string
	scratch  string
	bins     map[string]string // pkgdir -> test binary ("" = build failed)
	buildLog map[string]string
	all      []entryInfo
}

func newReplayer(cfg Config, overlay map[string]string) *replayer {
	hd := cfg.HarnessDir
	if hd == "" {
		hd = filepath.Join(cfg.Verif, "harness")
	}
	all, _ := discoverEntries(hd)
	return &replayer{cfg: cfg, overlay: overlay, bins: map[string]string{}, buildLog: map[string]string{}, all: all}
}

func (r *replayer) cleanup() {
	if r.scratch != "" {
		os.RemoveAll(r.scratch)
	}
}

var pkgLineRe = regexp.MustCompile(`(?m)^package (\w+)`)

func (r *replayer) binFor(pkgDir string) (string, error) {
	if b, ok := r.bins[pkgDir]; ok {
		if b == "" {
			return "", fmt.Errorf("native harness build failed earlier:\n%s", r.buildLog[pkgDir])
		}
		return b, nil
	}
	if r.scratch == "" {
		d, err := os.MkdirTemp("", "vcheck-replay-")
		if err != nil {
			return "", err
		}
		r.scratch = d
	}
	var names []string
	pkgName := ""
	for _, e := range r.all {
		if e.PkgDir == pkgDir {
			names = append(names, e.Name)
			if pkgName == "" {
				b, _ := os.ReadFile(e.File)
				if mm := pkgLineRe.FindSubmatch(b); mm != nil {
					pkgName = string(mm[1])
				}
			}
		}
	}
	var sb strings.Builder
	sb.WriteString("//go:build verif\n\npackage " + pkgName + "\n\nimport (\n\t\"fmt\"\n\t\"os\"\n\t\"testing\"\n\n\t\"github.com/elementsproject/peerswap/zzverif\"\n)\n\n")
	sb.WriteString("var zzEntries = map[string]func(){\n")
	for _, n := range names {
		fmt.Fprintf(&sb, "\t%q: %s,\n", n, n)
	}
	sb.WriteString("}\n\nfunc TestZZReplay(t *testing.T) {\n\tf := zzEntries[os.Getenv(\"ZZVERIF_ENTRY\")]\n\tif f == nil {\n\t\tt.Fatalf(\"unknown entry\")\n\t}\n")
	sb.WriteString("\tdefer func() {\n\t\tif r := recover(); r != nil {\n\t\t\tif _, ok := r.(zzverif.AssumeFailure); ok {\n\t\t\t\tfmt.Println(\"ZZVERIF-ASSUME-FAIL\")\n\t\t\t\treturn\n\t\t\t}\n\t\t\tfmt.Printf(\"ZZVERIF-PANIC %v\\n\", r)\n\t\t\tpanic(r)\n\t\t}\n\t}()\n")
	sb.WriteString("\tf()\n\tfmt.Println(\"ZZVERIF-DONE\")\n}\n")
	testFile := filepath.Join(r.scratch, strings.ReplaceAll(pkgDir, "/", "_")+"_replay_test.go")
	if err := os.WriteFile(testFile, []byte(sb.String()), 0o644); err != nil {
		return "", err
	}
	ov := map[string]string{}
	for k, v := range r.overlay {
		ov[k] = v
	}
	ov[filepath.Join(r.cfg.Repo, pkgDir, "zz_verif_replay_test.go")] = testFile
	ovb, _ := json.Marshal(map[string]interface{}{"Replace": ov})
	ovFile := filepath.Join(r.scratch, strings.ReplaceAll(pkgDir, "/", "_")+"_overlay.json")
	os.WriteFile(ovFile, ovb, 0o644)
	bin := filepath.Join(r.scratch, strings.ReplaceAll(pkgDir, "/", "_")+".test")
	ctx, cancel := context.WithTimeout(context.Background(), 10*time.Minute)
	defer cancel()
	args := []string{"test", "-tags", "verif,fast_test", "-vet=off", "-c", "-o", bin, "-overlay", ovFile}
	if r.cfg.Property == "C19" {
		args = append(args, "-race") // candidate data races are confirmed by the race detector
	}
	args = append(args, "./"+pkgDir)
	cmd := exec.CommandContext(ctx, "go", args...)
	cmd.Dir = r.cfg.Repo
	cmd.Env = append(os.Environ(), "GOFLAGS=-mod=mod", "GOPROXY=off", "GOSUMDB=off", "GOTOOLCHAIN=local")
	out, err := cmd.CombinedOutput()
	if err != nil {
		r.bins[pkgDir] = ""
		r.buildLog[pkgDir] = string(out)
		return "", fmt.Errorf("native harness build failed: %v\n%s", err, tail(string(out), 30))
	}
	r.bins[pkgDir] = bin
	return bin, nil
}

func scriptJSON(w map[string]string, model map[string]smt.ModelVal) []byte {
	vals := map[string]interface{}{}
	for k, v := range model {
		k = bareName(k)
		switch v.Sort.K {
		case smt.KBool:
			vals[k] = v.B
		case smt.KStr:
			vals[k] = hex.EncodeToString([]byte(v.S))
		default:
			if v.U != nil {
				vals[k] = v.U.String()
			}
		}
	}
	b, _ := json.MarshalIndent(map[string]interface{}{"values": vals}, "", " ")
	return b
}

// witnessScript converts the string-rendered witness of an obligation back into a script.
func witnessScript(w map[string]string) []byte {
	vals := map[string]interface{}{}
	for k, v := range w {
		switch {
		case v == "true" || v == "false":
			vals[k] = v == "true"
		case strings.HasPrefix(v, "\""):
			var s string
			if u, err := unquote(v); err == nil {
				s = u
			}
			vals[k] = hex.EncodeToString([]byte(s))
		default:
			vals[k] = v
		}
	}
	b, _ := json.MarshalIndent(map[string]interface{}{"values": vals}, "", " ")
	return b
}

func unquote(s string) (string, error) {
	var out string
	err := json.Unmarshal([]byte(s), &out)
	if err == nil {
		return out, nil
	}
	// strconv.Quote output may contain \x escapes that JSON rejects
	return strconvUnquote(s)
}

// tryIndex is exported to the native harness as $ZZVERIF_TRY: schedule-dependent helpers (Race2) vary the
// start order of their goroutines with it.
var tryIndex = 0

func (r *replayer) run(pkgDir, entry string, script []byte, logPath string, timeout time.Duration) (string, error) {
	bin, err := r.binFor(pkgDir)
	if err != nil {
		return err.Error(), err
	}
	sf := filepath.Join(r.scratch, fmt.Sprintf("script-%d.json", time.Now().UnixNano()))
	os.WriteFile(sf, script, 0o644)
	defer os.Remove(sf)
	ctx, cancel := context.WithTimeout(context.Background(), timeout)
	defer cancel()
	cmd := exec.CommandContext(ctx, bin, "-test.run", "^TestZZReplay$", "-test.count=1", "-test.v", "-test.timeout", (timeout - 2*time.Second).String())
	cmd.Dir = filepath.Join(r.cfg.Repo, pkgDir)
	cmd.Env = append(os.Environ(), "ZZVERIF_SCRIPT="+sf, "ZZVERIF_ENTRY="+entry, "ZZVERIF_LOG="+logPath, "VERIF_TIER="+r.cfg.Tier, "PAYMENT_RETRY_TIME=2", fmt.Sprintf("ZZVERIF_TRY=%d", tryIndex))
	out, err := cmd.CombinedOutput()
	if ctx.Err() != nil {
		return string(out) + "\nZZVERIF-TIMEOUT", nil
	}
	return string(out), nil
}

// replay materialises a counterexample under /verif/replays and runs it natively.
func (r *replayer) replay(e entryInfo, ob *obligation) (dir string, reproduced bool, output string) {
	script := scriptJSON(nil, ob.model)
	h := sha256.Sum256(append([]byte(e.Name+"|"+ob.Label+"|"), script...))
	dir = filepath.Join(r.cfg.Verif, "replays", r.cfg.Property, hex.EncodeToString(h[:])[:12])
	os.MkdirAll(dir, 0o755)
	os.WriteFile(filepath.Join(dir, "script.json"), script, 0o644)
	meta := map[string]interface{}{"property": r.cfg.Property, "entry": e.Name, "pkgdir": e.PkgDir, "label": ob.Label, "known_finding": ob.Known,
		"how": "bin/check replay " + dir}
	if len(ob.races) > 0 {
		meta["races"] = ob.races
	}
	_ = meta
	mb, _ := json.MarshalIndent(meta, "", " ")
	os.WriteFile(filepath.Join(dir, "meta.json"), mb, 0o644)
	var out string
	var err error
	// native runs with select/goroutines depend on the Go scheduler: give a witness three tries
	tries := 3
	if len(ob.races) > 0 {
		tries = 6 // whether the race detector sees a race depends on which handler gets the lock first
	}
	for try := 0; try < tries; try++ {
		tryIndex = try
		out, err = r.run(e.PkgDir, e.Name, script, filepath.Join(dir, "native.log"), 60*time.Second)
		os.WriteFile(filepath.Join(dir, "native_output.txt"), []byte(out), 0o644)
		if err != nil {
			return dir, false, out
		}
		if reproducedIn(out, ob.Label, ob.races) {
			return dir, true, out
		}
	}
	return dir, false, out
}

var ssaMethodRe = regexp.MustCompile(`^\(\*(.*)\.(\w+)\)\.(\w+)$`)

// raceSideIn: one side of a candidate appears in a race report - by source line or by its function.
func raceSideIn(block, where, fn string) bool {
	if strings.Contains(block, where+" ") {
		return true
	}
	// the detector attributes map and struct-copy accesses to runtime helpers and to the line of the
	// enclosing statement, which need not be the line of the SSA instruction: the function is enough
	if fn != "" {
		if mm := ssaMethodRe.FindStringSubmatch(fn); mm != nil {
			fn = mm[1] + ".(*" + mm[2] + ")." + mm[3]
		}
		return strings.Contains(block, fn+"()")
	}
	return false
}

func reproducedIn(out, label string, races []symex.RaceConflict) bool {
	if len(races) > 0 {
		// a candidate data race is confirmed when one report of the race detector names both accesses
		for _, block := range strings.Split(out, "==================") {
			if !strings.Contains(block, "WARNING: DATA RACE") {
				continue
			}
			for _, c := range races {
				if raceSideIn(block, c.A, c.FnA) && raceSideIn(block, c.B, c.FnB) {
					return true
				}
			}
		}
		return false
	}
	switch {
	case strings.HasSuffix(label, ".no_panic"):
		return strings.Contains(out, "ZZVERIF-PANIC") || strings.Contains(out, "panic:")
	case strings.HasSuffix(label, ".no_deadlock"):
		return strings.Contains(out, "ZZVERIF-TIMEOUT") || strings.Contains(out, "all goroutines are asleep") || strings.Contains(out, "test timed out")
	}
	return strings.Contains(out, "ZZVERIF-ASSERT-FAIL "+label+"\n")
}

// ReplayDir re-runs a stored counterexample (bin/check replay <dir>).
func ReplayDir(cfg Config, dir string) int {
	mb, err := os.ReadFile(filepath.Join(dir, "meta.json"))
	if err != nil {
		fmt.Fprintln(os.Stderr, err)
		return 2
	}
	var meta struct {
		Property, Entry, Pkgdir, Label string
		Races                          []symex.RaceConflict
	}
	json.Unmarshal(mb, &meta)
	script, err := os.ReadFile(filepath.Join(dir, "script.json"))
	if err != nil {
		fmt.Fprintln(os.Stderr, err)
		return 2
	}
	overlay, err := harnessOverlay(cfg)
	if err != nil {
		fmt.Fprintln(os.Stderr, err)
		return 2
	}
	cfg.Property = meta.Property
	rp := newReplayer(cfg, overlay)
	defer rp.cleanup()
	out, err := rp.run(meta.Pkgdir, meta.Entry, script, filepath.Join(dir, "native.log"), 60*time.Second)
	fmt.Println(out)
	if err != nil {
		return 2
	}
	if reproducedIn(out, meta.Label, meta.Races) {
		fmt.Printf("VIOLATION property=%s replay=%s\n", meta.Property, dir)
		return 1
	}
	fmt.Println("not reproduced")
	return 0
}

// validate runs reach witnesses natively and compares the harness-visible trace with the symbolic prediction.
func (r *replayer) validate(er *entryResult) (int, []string) {
	var mism []string
	n := 0
	keys := make([]string, 0, len(er.valCases))
	for k := range er.valCases {
		keys = append(keys, k)
	}
	sort.Strings(keys)
	limit := 1
	if r.cfg.Tier == "thorough" {
		limit = 6
	}
	for _, k := range keys {
		if n >= limit {
			break
		}
		vc := er.valCases[k]
		logPath := filepath.Join(r.scratchDir(), fmt.Sprintf("val-%s-%d.log", er.Entry.Name, n))
		out, err := r.run(er.Entry.PkgDir, er.Entry.Name, scriptJSON(nil, vc.model), logPath, 60*time.Second)
		if err != nil {
			mism = append(mism, er.Entry.Name+": "+tail(out, 8))
			return n, mism
		}
		lb, _ := os.ReadFile(logPath)
		got := filterTrace(nativeTrace(string(lb)), r.cfg.Property)
		want := filterTrace(vc.trace, r.cfg.Property)
		if strings.Contains(out, "ZZVERIF-ASSUME-FAIL") {
			// the model satisfied an assumption only through an abstraction (uninterpreted function) that the
			// native run computes for real: not comparable, try the next case
			limit++
			if limit > 8 {
				break
			}
			continue
		}
		n++
		if vc.outcome == "return" && !strings.Contains(out, "ZZVERIF-DONE") {
			mism = append(mism, fmt.Sprintf("%s path %d: symbolic path returns, native run did not finish: %s", er.Entry.Name, vc.pathID, tail(out, 6)))
			continue
		}
		if !equalTrace(got, want) {
			mism = append(mism, fmt.Sprintf("%s path %d: trace differs\n  symbolic: %v\n  native:   %v", er.Entry.Name, vc.pathID, want, got))
		}
	}
	return n, mism
}

func (r *replayer) scratchDir() string {
	if r.scratch == "" {
		d, _ := os.MkdirTemp("", "vcheck-replay-")
		r.scratch = d
	}
	return r.scratch
}

// nativeTrace extracts "draw X" / "assert L" / "reach L" / "effect N" events from the zzverif log.
func nativeTrace(log string) []string {
	var out []string
	for _, l := range strings.Split(log, "\n") {
		l = strings.TrimSpace(l)
		switch {
		case strings.HasPrefix(l, "draw "), strings.HasPrefix(l, "reach "), strings.HasPrefix(l, "effect "):
			out = append(out, l)
		case strings.HasPrefix(l, "assert-ok "):
			out = append(out, "assert "+strings.TrimPrefix(l, "assert-ok "))
		case strings.HasPrefix(l, "assert-fail "):
			out = append(out, "assert "+strings.TrimPrefix(l, "assert-fail ")+" FAILED")
		}
	}
	return out
}

func equalTrace(a, b []string) bool {
	if len(a) != len(b) {
		return false
	}
	for i := range a {
		if a[i] != b[i] {
			return false
		}
	}
	return true
}

func harnessOverlay(cfg Config) (map[string]string, error) {
	return symex.HarnessOverlay(cfg.Repo, filepath.Join(cfg.Verif, "harness"))
}

func strconvUnquote(s string) (string, error) { return strconv.Unquote(s) }

// filterTrace drops assertion events of other properties (an entry may serve several properties; only
// the obligations of the property being checked were discharged on this run).
func filterTrace(tr []string, prop string) []string {
	var out []string
	for _, e := range tr {
		if strings.HasPrefix(e, "assert ") {
			lbl := strings.TrimSuffix(strings.TrimPrefix(e, "assert "), " FAILED")
			if lp := labelProp(lbl); lp != "" && lp != prop {
				continue
			}
		}
		out = append(out, e)
	}
	return out
}
