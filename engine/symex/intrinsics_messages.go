package symex

import (
	"strconv"

	"verif/engine/smt"

	"golang.org/x/tools/go/ssa"
)

// strconv.ParseInt / strconv.ParseUint for a constant base (2..36) and bit size 64.
//
// Model (exact for inputs of at most parseIntMaxDigits digits after the optional sign):
//   - forks on the length of the input (concrete on every path), on the sign character and on
//     "all remaining characters are digits of the base";
//   - "" / a lone sign / a character that is not a digit of the base  => (0, syntax error);
//     the "0x"/"_" forms are accepted by strconv only for base 0 and are therefore errors here;
//   - otherwise value = Horner sum of the digit values (per-character case split on the
//     allowed characters, both letter cases), negated after '-' (ParseUint: signs are errors);
//     no range error can occur within the digit bound (36^8 < 2^63).
//   - ParseInt(FormatInt(x, b), b) = (x, nil) when the argument is the FormatInt term itself.
//
// Longer inputs get the contract-level answer: either an error or an arbitrary value.
const parseIntMaxDigits = 8

func init() {
	intrinsics["strconv.ParseInt"] = func(m *Machine, fn *ssa.Function, args []Value) Value {
		return m.parseIntModel(args, true)
	}
	intrinsics["strconv.ParseUint"] = func(m *Machine, fn *ssa.Function, args []Value) Value {
		return m.parseIntModel(args, false)
	}
}

func digitChars(base int) (chars []string, vals []uint64) {
	for d := 0; d < base; d++ {
		if d < 10 {
			chars = append(chars, string(rune('0'+d)))
			vals = append(vals, uint64(d))
			continue
		}
		chars = append(chars, string(rune('a'+d-10)), string(rune('A'+d-10)))
		vals = append(vals, uint64(d), uint64(d))
	}
	return
}

func (m *Machine) parseIntModel(args []Value, signed bool) Value {
	s := strArg(args[0])
	bt, zt := args[1].(*smt.Term), args[2].(*smt.Term)
	name := "strconv.ParseUint"
	if signed {
		name = "strconv.ParseInt"
	}
	if !bt.IsConst() || !zt.IsConst() {
		panic(unsupported(name + " with symbolic base or bit size"))
	}
	base, bits := int(bt.SignedVal().Int64()), int(zt.SignedVal().Int64())
	if s.IsConst() {
		if signed {
			v, err := strconv.ParseInt(s.S, base, bits)
			if err != nil {
				return TupleV{smt.BVInt(64, v), m.newError(smt.StrC(err.Error()), nil)}
			}
			return TupleV{smt.BVInt(64, v), &IfaceV{}}
		}
		v, err := strconv.ParseUint(s.S, base, bits)
		if err != nil {
			return TupleV{smt.BVC(64, v), m.newError(smt.StrC(err.Error()), nil)}
		}
		return TupleV{smt.BVC(64, v), &IfaceV{}}
	}
	if base < 2 || base > 36 || (bits != 64 && bits != 0) {
		panic(unsupported(name + ": only constant base 2..36 and bit size 64 are modelled"))
	}
	// round trip with the formatter (the formatter is an uninterpreted function of value and base)
	if s.Op == "uf" && (s.Name == "strconv.FormatInt" && signed || s.Name == "strconv.FormatUint" && !signed) &&
		len(s.Args) == 2 && s.Args[1].IsConst() && int(s.Args[1].SignedVal().Int64()) == base {
		return TupleV{s.Args[0], &IfaceV{}}
	}
	// fast path: the string is built from individual bytes (string([]byte{...}) of byte symbols,
	// constants): its length is concrete and the characters are 8-bit terms, so the whole model
	// stays in the bit-vector theory.
	if cs, ok := strChars(s); ok {
		return m.parseIntChars(name, s, cs, base, signed)
	}
	maxLen := parseIntMaxDigits
	if signed {
		maxLen++
	}
	n := smt.StrLen(s)
	conds := make([]*smt.Term, 0, maxLen+2)
	for l := 0; l <= maxLen; l++ {
		conds = append(conds, smt.Eq(n, smt.IntC(int64(l))))
	}
	conds = append(conds, smt.IntLt(smt.IntC(int64(maxLen)), n))
	l := m.decide(conds, nil)
	if l > maxLen {
		return m.parseIntLong(name, s)
	}
	cs := make([]*smt.Term, l)
	for i := range cs {
		cs[i] = smt.StrAt(s, smt.IntC(int64(i)))
	}
	return m.parseIntChars(name, s, cs, base, signed)
}

// strChars splits a string term of concrete shape into per-byte terms (sort BV8).
func strChars(s *smt.Term) ([]*smt.Term, bool) {
	switch {
	case s.IsConst():
		out := make([]*smt.Term, len(s.S))
		for i := range out {
			out[i] = smt.BVC(8, uint64(s.S[i]))
		}
		return out, true
	case s.Op == "uf" && s.Name == "byte2str" && len(s.Args) == 1:
		return []*smt.Term{s.Args[0]}, true
	case s.Op == "str.++":
		var out []*smt.Term
		for _, a := range s.Args {
			cs, ok := strChars(a)
			if !ok {
				return nil, false
			}
			out = append(out, cs...)
		}
		return out, true
	}
	return nil, false
}

// parseIntLong: inputs beyond the exactly modelled length: an error, or some value.
func (m *Machine) parseIntLong(name string, s *smt.Term) Value {
	if m.choose(2) == 0 {
		return TupleV{smt.BVC(64, 0), m.newError(smt.UF(name+".errtext", smt.Str, s), nil)}
	}
	return TupleV{m.Fresh(name+".long", smt.BV(64)), &IfaceV{}}
}

// parseIntChars: cs are the characters of s, either all of sort BV8 (bytes) or all one-character
// strings (str.at terms of a string of that concrete length).
func (m *Machine) parseIntChars(name string, s *smt.Term, cs []*smt.Term, base int, signed bool) Value {
	synErr := func() Value {
		return TupleV{smt.BVC(64, 0), m.newError(smt.UF(name+".errtext", smt.Str, s), nil)}
	}
	is := func(c *smt.Term, ch string) *smt.Term {
		if c.Sort.K == smt.KBV {
			return smt.Eq(c, smt.BVC(8, uint64(ch[0])))
		}
		return smt.Eq(c, smt.StrC(ch))
	}
	l := len(cs)
	if l == 0 {
		return synErr()
	}
	start, neg := 0, false
	if signed {
		isPlus, isMinus := is(cs[0], "+"), is(cs[0], "-")
		switch m.decide([]*smt.Term{smt.And(smt.Not(isPlus), smt.Not(isMinus)), isPlus, isMinus}, nil) {
		case 1:
			start = 1
		case 2:
			start, neg = 1, true
		}
	}
	if l-start == 0 {
		return synErr()
	}
	if l-start > parseIntMaxDigits {
		return m.parseIntLong(name, s)
	}
	chars, vals := digitChars(base)
	valid := smt.True
	v := smt.BVC(64, 0)
	for i := start; i < l; i++ {
		var isDigit []*smt.Term
		d := smt.BVC(64, 0)
		for k := len(chars) - 1; k >= 0; k-- {
			e := is(cs[i], chars[k])
			isDigit = append(isDigit, e)
			d = smt.Ite(e, smt.BVC(64, vals[k]), d)
		}
		valid = smt.And(valid, smt.Or(isDigit...))
		v = smt.BVAdd(smt.BVMul(v, smt.BVC(64, uint64(base))), d)
	}
	if !m.branch(valid, nil) {
		return synErr()
	}
	if neg {
		v = smt.BVNeg(v)
	}
	return TupleV{v, &IfaceV{}}
}
