package symex

import (
	"fmt"
	"go/constant"
	"go/token"
	"go/types"
	"math"
	"os"
	"sort"
	"strings"
	"sync"
	"time"

	"verif/engine/smt"

	"golang.org/x/tools/go/ssa"
)

// Program is the loaded SSA program plus execution policy.
type Program struct {
	Prog *ssa.Program
	Fset *token.FileSet
	// packages whose function bodies are interpreted (path prefixes)
	ExecPrefixes []string
	Pkgs         map[string]*ssa.Package
}

func (p *Program) shouldExec(fn *ssa.Function) bool {
	if fn.Blocks == nil {
		return false
	}
	pk := fn.Package()
	if pk == nil && fn.Origin() != nil {
		pk = fn.Origin().Package()
	}
	if pk == nil {
		// synthetic wrappers (bound methods, thunks) have no package: execute
		return true
	}
	path := pk.Pkg.Path()
	for _, pre := range p.ExecPrefixes {
		if strings.HasPrefix(path, pre) {
			return true
		}
	}
	return false
}

type Effect struct {
	Name  string
	Args  []Value
	PCLen int
	Locks []string
	Pos   string
}

type AssertRec struct {
	Label string
	Cond  *smt.Term
	PC    []*smt.Term
	Pos   string
	// filled by the checker
	Result smt.Result
	Model  map[string]smt.ModelVal
	Draws  []string
	// candidate data races behind a Race2 obligation (confirmed natively under the race detector)
	Races []RaceConflict
}

type ReachRec struct {
	Label string
	PC    []*smt.Term
}

// Path is the result of one explored path.
type Path struct {
	ID        int
	PC        []*smt.Term
	Effects   []Effect
	Asserts   []*AssertRec
	Reaches   []ReachRec
	Outcome   string // return | panic | deadlock | blocked | assume | unwind | unsupported | budget | infeasible | exit
	Msg       string
	Ret       Value
	Decisions []int
	Draws     []string // names of symbolic draws in order
	HDraws    []string // draws made by harness code through zzverif (what a native run sees)
	HTrace    []string // harness-visible event trace: draws, asserts, reaches, effects
	Steps     int
	altsFound [][]int
	// Race2 bookkeeping: the handler this path ran (1 or 2), its recorded accesses and the obligation label
	RaceRegion int
	RaceLabel  string
	RaceAcc    []RaceAccess
}

// siteKey: unwinding is counted per instruction site and per function activation (a loop re-visits
// the site inside one activation; a helper called many times does not).
var debugSites = os.Getenv("VERIF_SITES") != ""

// SiteCount (debug, $VERIF_SITES): fresh decisions per source position, accumulated over all paths.
var (
	siteCountMu sync.Mutex
	SiteCount   = map[string]int{}
)

// DumpSites prints the decision sites by count.
func DumpSites() {
	if !debugSites {
		return
	}
	type kv struct {
		k string
		n int
	}
	var l []kv
	for k, n := range SiteCount {
		l = append(l, kv{k, n})
	}
	sort.Slice(l, func(i, j int) bool { return l[i].n > l[j].n })
	for i, e := range l {
		if i >= 40 {
			break
		}
		fmt.Fprintf(os.Stderr, "site %6d %s\n", e.n, e.k)
	}
}

type siteKey struct {
	site  ssa.Instruction
	frame int
}

type pathEnd struct {
	outcome string
	msg     string
}

type frame struct {
	fn     *ssa.Function
	regs   map[ssa.Value]Value
	bind   []Value
	defers []func()
}

// Machine runs paths.
type Machine struct {
	P            *Program
	Solver       smt.Checker
	Unwind       int // max symbolic decisions per site per path
	curUnwind    int
	MaxSteps     int
	MaxDepth     int
	MaxDecisions int
	GoInline     bool
	Verbose      bool
	Thorough     bool
	Prefix       string

	// per path
	pc        []*smt.Term
	prefix    []int
	trace     []int
	alts      [][]int
	globals   map[*ssa.Global]*Cell
	initDone  map[*ssa.Package]bool
	cellID    int
	freshCnt  map[string]int
	effects   []Effect
	asserts   []*AssertRec
	reaches   []ReachRec
	draws     []string
	hdraws    []string
	htrace    []string
	held      map[string]int // lock key -> 1 write, 2+ = readers+1
	heldOrder []string
	siteCnt   map[siteKey]int
	frameSeq  int
	curFrame  int
	steps     int
	depth     int
	onceDone  map[string]bool
	lockEdges map[[2]string]bool
	spawned   int
	owner     map[string]int // lock key -> logical goroutine that holds it
	gors      []*lgor
	cur       *lgor
	yield     chan *lgor
	overrides map[string]*FuncV
	ghost     map[string]Value
	stack     []string

	// stats across paths
	UnknownBranches int
	GoLogical       bool
	race            raceState
	regionTag       string          // prefix of symbols drawn by the second handler of a Race2
	curSite         ssa.Instruction // call site of the intrinsic being executed
	HavocCalls      map[string]int
	FuncsSeen       map[*ssa.Function]bool
}

func NewMachine(p *Program, s smt.Checker) *Machine {
	return &Machine{P: p, Solver: s, Unwind: 4, MaxSteps: 400000, MaxDepth: 120, MaxDecisions: 400,
		HavocCalls: map[string]int{}, FuncsSeen: map[*ssa.Function]bool{}}
}

func (m *Machine) reset(prefix []int) {
	m.pc = nil
	m.prefix = prefix
	m.trace = nil
	m.alts = nil
	m.globals = map[*ssa.Global]*Cell{}
	m.initDone = map[*ssa.Package]bool{}
	m.cellID = 0
	m.freshCnt = map[string]int{}
	m.effects = nil
	m.asserts = nil
	m.reaches = nil
	m.draws = nil
	m.hdraws = nil
	m.htrace = nil
	m.held = map[string]int{}
	m.heldOrder = nil
	m.siteCnt = map[siteKey]int{}
	m.frameSeq = 0
	m.curFrame = 0
	m.steps = 0
	m.depth = 0
	m.onceDone = map[string]bool{}
	m.lockEdges = nil
	m.spawned = 0
	m.owner = map[string]int{}
	m.gors = nil
	m.cur = nil
	m.overrides = map[string]*FuncV{}
	m.ghost = map[string]Value{}
	m.stack = nil
	m.GoInline = false
	m.GoLogical = false
	m.race = raceState{}
	m.regionTag = ""
	m.curUnwind = m.Unwind
}

// Explore runs fn (no parameters) over all feasible paths.
func (m *Machine) Explore(fn *ssa.Function, maxPaths int, budget time.Duration) ([]*Path, bool) {
	work := [][]int{{}}
	var out []*Path
	start := time.Now()
	complete := true
	for len(work) > 0 {
		if len(out) >= maxPaths || (budget > 0 && time.Since(start) > budget) {
			complete = false
			break
		}
		prefix := work[len(work)-1]
		work = work[:len(work)-1]
		p := m.runOne(fn, prefix)
		p.ID = len(out)
		out = append(out, p)
		work = append(work, p.altsFound...)
		if m.Verbose {
			fmt.Fprintf(os.Stderr, "  path %d: %s %s (steps %d, decisions %v)\n", p.ID, p.Outcome, p.Msg, p.Steps, p.Decisions)
		}
	}
	return out, complete
}

// cpuTokens bounds the number of paths executed at the same time over all entries of a run.
var cpuTokens = make(chan struct{}, 16)

// WithCPU runs f holding one of the CPU tokens.
func WithCPU(f func()) {
	cpuTokens <- struct{}{}
	defer func() { <-cpuTokens }()
	f()
}

// ExploreParallel is Explore with several machines (one per worker, each with its own solver processes)
// taking decision prefixes from one shared stack.  The set of paths is the same as Explore's; they are
// returned in the lexicographic order of their decision vectors (= the sequential DFS order).
func ExploreParallel(ms []*Machine, fn *ssa.Function, maxPaths int, budget time.Duration) ([]*Path, bool) {
	if len(ms) == 1 {
		return ms[0].Explore(fn, maxPaths, budget)
	}
	var (
		mu       sync.Mutex
		cond     = sync.NewCond(&mu)
		work     = [][]int{{}}
		out      []*Path
		active   int
		complete = true
		start    = time.Now()
		fatal    interface{}
	)
	var wg sync.WaitGroup
	for _, m := range ms {
		wg.Add(1)
		go func(m *Machine) {
			defer wg.Done()
			for {
				mu.Lock()
				for len(work) == 0 && active > 0 && complete && fatal == nil {
					cond.Wait()
				}
				if len(work) == 0 || !complete || fatal != nil {
					mu.Unlock()
					cond.Broadcast()
					return
				}
				if len(out)+active >= maxPaths || (budget > 0 && time.Since(start) > budget) {
					complete = false
					mu.Unlock()
					cond.Broadcast()
					return
				}
				prefix := work[len(work)-1]
				work = work[:len(work)-1]
				active++
				mu.Unlock()
				cpuTokens <- struct{}{}
				var p *Path
				func() {
					defer func() {
						<-cpuTokens
						if r := recover(); r != nil {
							mu.Lock()
							fatal = r
							mu.Unlock()
						}
					}()
					p = m.runOne(fn, prefix)
				}()
				mu.Lock()
				active--
				if p != nil {
					out = append(out, p)
					work = append(work, p.altsFound...)
					if m.Verbose {
						fmt.Fprintf(os.Stderr, "  path: %s %s (steps %d, decisions %v)\n", p.Outcome, p.Msg, p.Steps, p.Decisions)
					}
				}
				mu.Unlock()
				cond.Broadcast()
			}
		}(m)
	}
	wg.Wait()
	if fatal != nil {
		panic(fatal)
	}
	sort.Slice(out, func(i, j int) bool {
		a, b := out[i].Decisions, out[j].Decisions
		for k := 0; k < len(a) && k < len(b); k++ {
			if a[k] != b[k] {
				return a[k] > b[k] // the sequential DFS explores the last alternative first
			}
		}
		return len(a) < len(b)
	})
	for i, p := range out {
		p.ID = i
	}
	return out, complete
}

func (m *Machine) runOne(fn *ssa.Function, prefix []int) (res *Path) {
	m.reset(prefix)
	res = &Path{}
	defer func() {
		r := recover()
		m.abandonLogical()
		if r != nil {
			switch e := r.(type) {
			case pathEnd:
				res.Outcome, res.Msg = e.outcome, e.msg
			case unsupportedErr:
				res.Outcome, res.Msg = "unsupported", e.msg+" @ "+strings.Join(m.stackTail(6), " < ")
			default:
				panic(r)
			}
		}
		res.PC = append([]*smt.Term(nil), m.pc...)
		res.Effects = m.effects
		res.Asserts = m.asserts
		res.Reaches = m.reaches
		res.Decisions = append([]int(nil), m.trace...)
		res.Draws = m.draws
		res.HDraws = m.hdraws
		res.HTrace = m.htrace
		res.Steps = m.steps
		res.altsFound = m.alts
		res.RaceRegion, res.RaceLabel, res.RaceAcc = m.race.region, m.race.label, m.race.acc
	}()
	ret := m.callFunction(fn, nil, nil, nil)
	res.Outcome = "return"
	res.Ret = ret
	return res
}

func (m *Machine) stackTail(n int) []string {
	var out []string
	for i := len(m.stack) - 1; i >= 0 && len(out) < n; i-- {
		out = append(out, m.stack[i])
	}
	return out
}

func (m *Machine) end(outcome, msg string) {
	if outcome == "blocked" && m.cur != nil {
		// a logical goroutine waiting for a channel / condition nothing on this path makes ready: it
		// idles (an observer loop, a ticker loop); only goroutines stuck on a mutex count as blocked
		panic(gorIdle{msg})
	}
	panic(pathEnd{outcome, msg})
}

// ---------- decisions ----------

// decide picks one of the mutually exclusive conditions, forking on the others.
func (m *Machine) decide(conds []*smt.Term, site ssa.Instruction) int {
	// concrete resolution
	nFalse := 0
	for i, c := range conds {
		if c.IsTrue() {
			return i
		}
		if c.IsFalse() {
			nFalse++
			_ = i
		}
	}
	if nFalse == len(conds) {
		m.end("infeasible", "no alternative")
	}
	// syntactic resolution against the path condition (deterministic, so replays agree)
	inPC := map[int]bool{}
	for _, c := range m.pc {
		inPC[c.ID] = true
	}
	conds = append([]*smt.Term(nil), conds...)
	for i, c := range conds {
		if inPC[c.ID] {
			return i
		}
		if inPC[smt.Not(c).ID] {
			conds[i] = smt.False
		}
	}
	if site != nil { // decisions made inside intrinsics (no site) are bounded by the intrinsics themselves
		k := siteKey{site, m.curFrame}
		m.siteCnt[k]++
		if m.siteCnt[k] > m.curUnwind {
			where := m.P.Fset.Position(site.Pos()).String()
			if iff, ok := site.(*ssa.If); ok {
				where = m.P.Fset.Position(iff.Cond.Pos()).String()
			}
			if site.Parent() != nil {
				where += " in " + site.Parent().Name()
			}
			m.end("unwind", fmt.Sprintf("more than %d symbolic decisions at %s", m.curUnwind, where))
		}
	}
	if len(m.trace) > m.MaxDecisions {
		m.end("unwind", fmt.Sprintf("more than %d decisions on one path", m.MaxDecisions))
	}
	pos := len(m.trace)
	if debugSites && pos >= len(m.prefix) {
		where := "intrinsic"
		if site != nil {
			where = m.P.Fset.Position(site.Pos()).String()
			if iff, ok := site.(*ssa.If); ok {
				where = m.P.Fset.Position(iff.Cond.Pos()).String()
			}
		}
		if len(m.stack) > 0 {
			where += " in " + m.stack[len(m.stack)-1]
		}
		siteCountMu.Lock()
		SiteCount[where]++
		siteCountMu.Unlock()
	}
	if pos < len(m.prefix) {
		k := m.prefix[pos]
		m.trace = append(m.trace, k)
		m.pc = append(m.pc, conds[k])
		return k
	}
	var feas []int
	for i, c := range conds {
		if c.IsFalse() {
			continue
		}
		// last candidate with no feasible one so far must be feasible if pc is
		q := append(append([]*smt.Term(nil), m.pc...), c)
		r := m.Solver.Check(q...)
		if r == smt.Unknown {
			m.UnknownBranches++
		}
		if r != smt.Unsat {
			feas = append(feas, i)
		}
	}
	if len(feas) == 0 {
		m.end("infeasible", "path condition became unsatisfiable")
	}
	for _, k := range feas[1:] {
		alt := append(append([]int(nil), m.trace...), k)
		m.alts = append(m.alts, alt)
	}
	k := feas[0]
	m.trace = append(m.trace, k)
	m.pc = append(m.pc, conds[k])
	return k
}

// chooseAt is choose with unwinding accounting for the instruction site that asks.
func (m *Machine) chooseAt(n int, site ssa.Instruction) int {
	if site != nil && n > 1 {
		k := siteKey{site, m.curFrame}
		m.siteCnt[k]++
		if m.siteCnt[k] > m.curUnwind {
			m.end("unwind", fmt.Sprintf("more than %d nondeterministic choices at %s", m.curUnwind, m.P.Fset.Position(site.Pos())))
		}
	}
	return m.choose(n)
}

// choose forks n ways without constraints (nondeterministic choice).
func (m *Machine) choose(n int) int {
	if n <= 1 {
		return 0
	}
	if len(m.trace) > m.MaxDecisions {
		m.end("unwind", fmt.Sprintf("more than %d decisions on one path", m.MaxDecisions))
	}
	pos := len(m.trace)
	if pos < len(m.prefix) {
		k := m.prefix[pos]
		m.trace = append(m.trace, k)
		return k
	}
	for k := 1; k < n; k++ {
		m.alts = append(m.alts, append(append([]int(nil), m.trace...), k))
	}
	m.trace = append(m.trace, 0)
	return 0
}

func (m *Machine) branch(c *smt.Term, site ssa.Instruction) bool {
	return m.decide([]*smt.Term{c, smt.Not(c)}, site) == 0
}

func (m *Machine) assume(c *smt.Term) {
	if c.IsTrue() {
		return
	}
	if c.IsFalse() {
		m.end("assume", "assumption false")
	}
	q := append(append([]*smt.Term(nil), m.pc...), c)
	if m.Solver.Check(q...) == smt.Unsat {
		m.end("assume", "assumption unsatisfiable on this path")
	}
	m.pc = append(m.pc, c)
}

// Fresh makes a named symbolic value; repeated names get #k suffixes.
func (m *Machine) freshName(name string) string {
	name = m.regionTag + name
	k := m.freshCnt[name]
	m.freshCnt[name] = k + 1
	if k > 0 {
		name = fmt.Sprintf("%s#%d", name, k)
	}
	m.draws = append(m.draws, name)
	return name
}

// Fresh makes a named symbol.  SMT-level names carry the machine's prefix (one namespace per harness
// entry, so entries running in one process cannot clash); draws/scripts use the bare name.
func (m *Machine) Fresh(name string, s smt.Sort) *smt.Term {
	return smt.Var(m.Prefix+m.freshName(name), s)
}

func (m *Machine) newCell(v Value, t types.Type, name string) *Cell {
	m.cellID++
	return &Cell{V: v, ID: m.cellID, T: t, Name: name}
}

func (m *Machine) effect(name string, args ...Value) {
	var locks []string
	locks = append(locks, m.heldOrder...)
	m.effects = append(m.effects, Effect{Name: name, Args: args, PCLen: len(m.pc), Locks: locks})
}

// ---------- function calls ----------

func (m *Machine) callFunction(fn *ssa.Function, args []Value, bind []Value, site ssa.Instruction) Value {
	if ov, ok := m.overrides[fn.String()]; ok && ov != nil {
		return m.callValue(ov, args, site)
	}
	if in := lookupIntrinsic(fn); in != nil {
		m.curSite = site
		return in(m, fn, args)
	}
	if !m.P.shouldExec(fn) {
		return m.havocCall(fn, args)
	}
	m.FuncsSeen[fn] = true
	m.depth++
	if m.depth > m.MaxDepth {
		m.end("budget", "call depth exceeded at "+fn.String())
	}
	m.stack = append(m.stack, fn.Name())
	defer func() { m.depth--; m.stack = m.stack[:len(m.stack)-1] }()
	return m.interpret(fn, args, bind)
}

func (m *Machine) havocCall(fn *ssa.Function, args []Value) Value {
	m.HavocCalls[fn.String()]++
	m.effect("havoc:" + fn.String())
	res := fn.Signature.Results()
	switch res.Len() {
	case 0:
		return nil
	case 1:
		return m.FreshValue(res.At(0).Type(), "havoc."+fn.Name(), 2)
	}
	tv := make(TupleV, res.Len())
	for i := range tv {
		tv[i] = m.FreshValue(res.At(i).Type(), fmt.Sprintf("havoc.%s.%d", fn.Name(), i), 2)
	}
	return tv
}

func (m *Machine) callValue(f Value, args []Value, site ssa.Instruction) Value {
	fv, ok := f.(*FuncV)
	if !ok || fv == nil {
		m.end("panic", "call of nil function")
	}
	if fv.Host != nil {
		return fv.Host(m, args)
	}
	return m.callFunction(fv.Fn, args, fv.Bind, site)
}

func (m *Machine) interpret(fn *ssa.Function, args []Value, bind []Value) Value {
	m.frameSeq++
	saved := m.curFrame
	m.curFrame = m.frameSeq
	defer func() { m.curFrame = saved }()
	fr := &frame{fn: fn, regs: make(map[ssa.Value]Value, 64), bind: bind}
	if len(args) != len(fn.Params) {
		panic(unsupported(fmt.Sprintf("arity mismatch calling %s: %d args for %d params", fn, len(args), len(fn.Params))))
	}
	for i, p := range fn.Params {
		fr.regs[p] = args[i]
	}
	block := fn.Blocks[0]
	var prev *ssa.BasicBlock
	for {
		// phis first (parallel assignment)
		nphi := 0
		var phiVals []Value
		for _, ins := range block.Instrs {
			phi, ok := ins.(*ssa.Phi)
			if !ok {
				break
			}
			nphi++
			idx := -1
			for i, p := range block.Preds {
				if p == prev {
					idx = i
					break
				}
			}
			if idx < 0 {
				panic(unsupported("phi without matching predecessor"))
			}
			phiVals = append(phiVals, m.get(fr, phi.Edges[idx]))
		}
		for i := 0; i < nphi; i++ {
			fr.regs[block.Instrs[i].(*ssa.Phi)] = phiVals[i]
		}
		var next *ssa.BasicBlock
		for _, ins := range block.Instrs[nphi:] {
			m.steps++
			if m.steps > m.MaxSteps {
				m.end("budget", "step budget exceeded")
			}
			switch ins := ins.(type) {
			case *ssa.If:
				c := m.get(fr, ins.Cond).(*smt.Term)
				if m.branch(c, ins) {
					next = block.Succs[0]
				} else {
					next = block.Succs[1]
				}
			case *ssa.Jump:
				next = block.Succs[0]
			case *ssa.Return:
				switch len(ins.Results) {
				case 0:
					return nil
				case 1:
					return m.get(fr, ins.Results[0])
				}
				tv := make(TupleV, len(ins.Results))
				for i, r := range ins.Results {
					tv[i] = m.get(fr, r)
				}
				return tv
			case *ssa.Panic:
				m.end("panic", "explicit panic: "+describe(m.get(fr, ins.X))+" at "+m.P.Fset.Position(ins.Pos()).String())
			case *ssa.RunDefers:
				for i := len(fr.defers) - 1; i >= 0; i-- {
					d := fr.defers[i]
					fr.defers = fr.defers[:i]
					d()
				}
			default:
				m.exec(fr, ins)
			}
			if next != nil {
				break
			}
		}
		if next == nil {
			panic(unsupported("block fell through in " + fn.String()))
		}
		prev, block = block, next
	}
}

func (m *Machine) get(fr *frame, v ssa.Value) Value {
	switch x := v.(type) {
	case *ssa.Const:
		return m.constVal(x)
	case *ssa.Global:
		return &Ptr{Cell: m.globalCell(x)}
	case *ssa.Function:
		return &FuncV{Fn: x}
	case *ssa.Builtin:
		return x
	case *ssa.FreeVar:
		for i, fv := range fr.fn.FreeVars {
			if fv == x {
				return fr.bind[i]
			}
		}
		panic(unsupported("free var not found"))
	}
	r, ok := fr.regs[v]
	if !ok {
		panic(unsupported(fmt.Sprintf("unset register %s in %s", v.Name(), fr.fn)))
	}
	return r
}

func (m *Machine) constVal(c *ssa.Const) Value {
	t := c.Type()
	if c.Value == nil {
		return Zero(t)
	}
	s, ok := sortOf(t)
	if !ok {
		// constant of type parameter or similar
		panic(unsupported("constant of type " + t.String()))
	}
	switch s.K {
	case smt.KBool:
		return smt.BoolC(constant.BoolVal(c.Value))
	case smt.KStr:
		return smt.StrC(constant.StringVal(c.Value))
	case smt.KBV:
		if v, ok := constant.Int64Val(constant.ToInt(c.Value)); ok {
			return smt.BVInt(s.W, v)
		}
		if v, ok := constant.Uint64Val(constant.ToInt(c.Value)); ok {
			return smt.BVC(s.W, v)
		}
	case smt.KF64:
		f, _ := constant.Float64Val(c.Value)
		return smt.FPConstBits(math.Float64bits(f))
	}
	panic(unsupported("constant " + c.String()))
}

func (m *Machine) globalCell(g *ssa.Global) *Cell {
	if c, ok := m.globals[g]; ok {
		return c
	}
	pkg := g.Pkg
	elem := g.Type().(*types.Pointer).Elem()
	exec := false
	for _, pre := range m.P.ExecPrefixes {
		if pkg != nil && strings.HasPrefix(pkg.Pkg.Path(), pre) {
			exec = true
		}
	}
	if exec && pkg.Func("init") != nil && pkg.Func("init").Blocks != nil {
		// allocate every global of the package with zero values, then run its initializer once
		if !m.initDone[pkg] {
			m.initDone[pkg] = true
			for _, mem := range pkg.Members {
				if gg, ok := mem.(*ssa.Global); ok {
					if _, done := m.globals[gg]; !done {
						et := gg.Type().(*types.Pointer).Elem()
						m.globals[gg] = m.newCell(Zero(et), et, gg.String())
						m.globals[gg].Global = true
					}
				}
			}
			if gc, ok := m.globals[pkg.Var("init$guard")]; ok {
				gc.V = smt.False
			}
			saved := m.stack
			m.stack = append(m.stack, "init:"+pkg.Pkg.Name())
			m.interpret(pkg.Func("init"), nil, nil)
			m.stack = saved
		}
		if c, ok := m.globals[g]; ok {
			return c
		}
	}
	// global of a package that is not executed: sentinel for errors, havoc otherwise
	var v Value
	if types.IsInterface(elem) {
		// unique sentinel object
		c := m.newCell(&StructV{F: []Value{smt.StrC("sentinel:" + g.String())}}, nil, g.String())
		v = &IfaceV{T: errMarkerType, V: &Ptr{Cell: c}}
	} else {
		v = m.FreshValue(elem, "global."+g.String(), 1)
	}
	c := m.newCell(v, elem, g.String())
	c.Global = true
	m.globals[g] = c
	return c
}

// ---------- instruction execution ----------

func (m *Machine) exec(fr *frame, ins ssa.Instruction) {
	switch ins := ins.(type) {
	case *ssa.DebugRef:
	case *ssa.Alloc:
		t := ins.Type().(*types.Pointer).Elem()
		fr.regs[ins] = &Ptr{Cell: m.newCell(Zero(t), t, ins.Comment)}
	case *ssa.Store:
		p := m.get(fr, ins.Addr).(*Ptr)
		if p == nil {
			m.end("panic", "nil pointer dereference (store) at "+m.P.Fset.Position(ins.Pos()).String())
		}
		if m.race.on {
			m.raceRecord(p, true, ins, ins.Addr)
		}
		p.store(m.get(fr, ins.Val))
	case *ssa.UnOp:
		fr.regs[ins] = m.unop(fr, ins)
	case *ssa.BinOp:
		fr.regs[ins] = m.binop(ins.Op, m.get(fr, ins.X), m.get(fr, ins.Y), ins.X.Type(), ins.Y.Type(), ins)
	case *ssa.FieldAddr:
		p := m.get(fr, ins.X).(*Ptr)
		if p == nil {
			m.end("panic", "nil pointer dereference (field "+fieldName(ins.X.Type(), ins.Field)+") at "+m.P.Fset.Position(ins.Pos()).String())
		}
		fr.regs[ins] = p.sub(ins.Field)
	case *ssa.Field:
		fr.regs[ins] = m.get(fr, ins.X).(*StructV).F[ins.Field]
	case *ssa.IndexAddr:
		fr.regs[ins] = m.indexAddr(fr, ins)
	case *ssa.Index:
		fr.regs[ins] = m.index(fr, ins)
	case *ssa.Lookup:
		fr.regs[ins] = m.lookup(fr, ins)
	case *ssa.MapUpdate:
		mv := m.get(fr, ins.Map).(*MapV)
		if mv.M == nil {
			m.end("panic", "assignment to entry in nil map")
		}
		if m.race.on {
			m.raceRecordMap(mv.M, true, ins, ins.Map)
		}
		m.mapStore(mv.M, m.get(fr, ins.Key), m.get(fr, ins.Value), ins.Key.Type(), ins)
	case *ssa.MakeMap:
		m.cellID++
		m.cellID++
		fr.regs[ins] = &MapV{M: &MapObj{ID: m.cellID}}
	case *ssa.MakeSlice:
		fr.regs[ins] = m.makeSlice(fr, ins)
	case *ssa.MakeChan:
		m.cellID++
		fr.regs[ins] = &ChanV{C: &ChanObj{ID: m.cellID}}
	case *ssa.MakeClosure:
		b := make([]Value, len(ins.Bindings))
		for i, x := range ins.Bindings {
			b[i] = m.get(fr, x)
		}
		fr.regs[ins] = &FuncV{Fn: ins.Fn.(*ssa.Function), Bind: b}
	case *ssa.MakeInterface:
		fr.regs[ins] = &IfaceV{T: ins.X.Type(), V: m.get(fr, ins.X)}
	case *ssa.ChangeInterface:
		fr.regs[ins] = m.get(fr, ins.X)
	case *ssa.ChangeType:
		fr.regs[ins] = m.get(fr, ins.X)
	case *ssa.Convert:
		fr.regs[ins] = m.convert(m.get(fr, ins.X), ins.X.Type(), ins.Type(), ins)
	case *ssa.TypeAssert:
		fr.regs[ins] = m.typeAssert(fr, ins)
	case *ssa.Extract:
		fr.regs[ins] = m.get(fr, ins.Tuple).(TupleV)[ins.Index]
	case *ssa.Slice:
		fr.regs[ins] = m.sliceOp(fr, ins)
	case *ssa.Range:
		fr.regs[ins] = m.rangeInit(fr, ins)
	case *ssa.Next:
		fr.regs[ins] = m.rangeNext(fr, ins)
	case *ssa.Call:
		fr.regs[ins] = m.call(fr, &ins.Call, ins)
	case *ssa.Defer:
		call := ins.Call
		fnv, args := m.prepareCall(fr, &call, ins)
		fr.defers = append(fr.defers, func() { fnv(args) })
	case *ssa.Go:
		call := ins.Call
		fnv, args := m.prepareCall(fr, &call, ins)
		name := "?"
		if sc := call.StaticCallee(); sc != nil {
			name = sc.String()
		} else if call.IsInvoke() {
			name = call.Method.Name()
		}
		m.effect("spawn", smt.StrC(name))
		if m.GoInline {
			// only goroutines started directly by the code under GoInline(true) run inline; the ones
			// they start themselves (tickers, retransmitters) are recorded as spawn effects
			m.GoInline = false
			fnv(args)
			m.GoInline = true
		} else if m.GoLogical {
			// the started goroutine runs now as a logical goroutine: until it finishes or needs a mutex
			// somebody else holds (then it is parked and resumed at the release); its own go statements
			// are recorded only
			m.GoLogical = false
			m.spawnLogical(func() { fnv(args) })
			m.GoLogical = true
		} else {
			m.spawned++
		}
	case *ssa.Send:
		ch := m.get(fr, ins.Chan).(*ChanV)
		if ch.C == nil {
			m.end("blocked", "send on nil channel")
		}
		ch.C.Buf = append(ch.C.Buf, m.get(fr, ins.X))
		m.effect("chan_send", smt.BVC(64, uint64(ch.C.ID)))
	case *ssa.Select:
		fr.regs[ins] = m.selectOp(fr, ins)
	case *ssa.SliceToArrayPointer:
		s := m.get(fr, ins.X).(*SliceV)
		if s == nil {
			fr.regs[ins] = (*Ptr)(nil)
		} else if s.Off == 0 {
			fr.regs[ins] = &Ptr{Cell: s.Arr}
		} else {
			panic(unsupported("slice to array pointer with offset"))
		}
	default:
		panic(unsupported(fmt.Sprintf("instruction %T (%s)", ins, ins)))
	}
}

func fieldName(t types.Type, i int) string {
	if p, ok := under(t).(*types.Pointer); ok {
		if s, ok := under(p.Elem()).(*types.Struct); ok {
			return s.Field(i).Name()
		}
	}
	return fmt.Sprint(i)
}

func (m *Machine) unop(fr *frame, ins *ssa.UnOp) Value {
	x := m.get(fr, ins.X)
	switch ins.Op {
	case token.MUL: // load
		p := x.(*Ptr)
		if p == nil {
			m.end("panic", "nil pointer dereference (load) at "+m.P.Fset.Position(ins.Pos()).String())
		}
		if m.race.on {
			m.raceRecord(p, false, ins, ins.X)
		}
		return p.load()
	case token.NOT:
		return smt.Not(x.(*smt.Term))
	case token.SUB:
		t := x.(*smt.Term)
		if t.Sort.K == smt.KF64 {
			return smt.FPNeg(t)
		}
		return smt.BVNeg(t)
	case token.XOR:
		return smt.BVNot(x.(*smt.Term))
	case token.ARROW:
		ch := x.(*ChanV)
		return m.recv(ch, ins.CommaOk, ins.Type())
	}
	panic(unsupported("unop " + ins.Op.String()))
}

func (m *Machine) recv(ch *ChanV, commaOk bool, t types.Type) Value {
	if ch.C == nil {
		m.end("blocked", "receive from nil channel")
	}
	var v Value
	ok := smt.True
	et := t
	if commaOk {
		et = t.(*types.Tuple).At(0).Type()
	}
	switch {
	case len(ch.C.Buf) > 0:
		v = ch.C.Buf[0]
		ch.C.Buf = ch.C.Buf[1:]
	case ch.C.Closed || (ch.C.Kind == "ctxdone" && ch.C.Ctx.Cancelled):
		v = Zero(et)
		ok = smt.False
	case ch.C.Kind == "ctxdone" && ch.C.Ctx.HasDL && m.deadlineExpired():
		v = Zero(et)
		ok = smt.False
	case ch.C.Kind == "ticker" || ch.C.Kind == "timer" || (ch.C.Kind == "ctxdone" && ch.C.Ctx.HasDL && !m.deadlineControlled()):
		v = m.FreshValue(et, "chanrecv", 1)
	default:
		m.end("blocked", "receive on channel that nothing on this path makes ready")
	}
	if commaOk {
		return TupleV{v, ok}
	}
	return v
}

func (m *Machine) selectOp(fr *frame, ins *ssa.Select) Value {
	var ready []int
	definitely := false
	for i, st := range ins.States {
		ch := m.get(fr, st.Chan).(*ChanV)
		if ch.C == nil {
			continue
		}
		if st.Dir == types.SendOnly {
			ready = append(ready, i)
			continue
		}
		c := ch.C
		if len(c.Buf) > 0 || c.Closed || (c.Kind == "ctxdone" && c.Ctx.Cancelled) {
			definitely = true
			ready = append(ready, i)
		} else if c.Kind == "ticker" || c.Kind == "timer" {
			ready = append(ready, i)
		} else if c.Kind == "ctxdone" && c.Ctx.HasDL && (!m.deadlineControlled() || m.deadlineExpired()) {
			ready = append(ready, i)
		}
	}
	n := len(ready)
	if !ins.Blocking && !definitely {
		n++ // default branch is taken only when no case is certainly ready
	}
	if n == 0 {
		m.end("blocked", "select with no ready case")
	}
	k := m.chooseAt(n, ins)
	m.effect("select", smt.BVC(64, uint64(k)))
	res := make(TupleV, 2+countRecv(ins))
	if k >= len(ready) {
		res[0] = smt.BVInt(64, -1)
		res[1] = smt.False
		ri := 2
		for _, st := range ins.States {
			if st.Dir == types.RecvOnly {
				res[ri] = Zero(st.Chan.Type().Underlying().(*types.Chan).Elem())
				ri++
			}
		}
		return res
	}
	idx := ready[k]
	res[0] = smt.BVC(64, uint64(idx))
	res[1] = smt.True
	ri := 2
	for i, st := range ins.States {
		if st.Dir == types.RecvOnly {
			et := st.Chan.Type().Underlying().(*types.Chan).Elem()
			if i == idx {
				ch := m.get(fr, st.Chan).(*ChanV)
				tv := m.recv(ch, true, types.NewTuple(types.NewVar(0, nil, "", et), types.NewVar(0, nil, "", types.Typ[types.Bool]))).(TupleV)
				res[ri] = tv[0]
				res[1] = tv[1]
			} else {
				res[ri] = Zero(et)
			}
			ri++
		} else if i == idx {
			ch := m.get(fr, st.Chan).(*ChanV)
			ch.C.Buf = append(ch.C.Buf, m.get(fr, st.Send))
		}
	}
	return res
}

func countRecv(ins *ssa.Select) int {
	n := 0
	for _, st := range ins.States {
		if st.Dir == types.RecvOnly {
			n++
		}
	}
	return n
}

// ---------- arithmetic ----------

func (m *Machine) binop(op token.Token, x, y Value, xt, yt types.Type, site ssa.Instruction) Value {
	switch op {
	case token.EQL:
		return m.valueEq(x, y, xt)
	case token.NEQ:
		return smt.Not(m.valueEq(x, y, xt))
	}
	a, aok := x.(*smt.Term)
	b, bok := y.(*smt.Term)
	if !aok || !bok {
		panic(unsupported(fmt.Sprintf("binop %s on %T,%T", op, x, y)))
	}
	switch a.Sort.K {
	case smt.KStr:
		switch op {
		case token.ADD:
			return smt.StrConcat(a, b)
		case token.LSS:
			return smt.StrLt(a, b)
		case token.LEQ:
			return smt.StrLe(a, b)
		case token.GTR:
			return smt.StrLt(b, a)
		case token.GEQ:
			return smt.StrLe(b, a)
		}
	case smt.KBool:
		switch op {
		case token.AND, token.LAND:
			return smt.And(a, b)
		case token.OR, token.LOR:
			return smt.Or(a, b)
		case token.XOR:
			return smt.Not(smt.Eq(a, b))
		}
	case smt.KF64:
		switch op {
		case token.ADD:
			return smt.FPBin("fp.add", a, b)
		case token.SUB:
			return smt.FPBin("fp.sub", a, b)
		case token.MUL:
			return smt.FPBin("fp.mul", a, b)
		case token.QUO:
			return smt.FPBin("fp.div", a, b)
		case token.LSS:
			return smt.FPCmp("fp.lt", a, b)
		case token.LEQ:
			return smt.FPCmp("fp.leq", a, b)
		case token.GTR:
			return smt.FPCmp("fp.gt", a, b)
		case token.GEQ:
			return smt.FPCmp("fp.geq", a, b)
		}
	case smt.KBV:
		signed := isSigned(xt)
		switch op {
		case token.ADD:
			return smt.BVAdd(a, b)
		case token.SUB:
			return smt.BVSub(a, b)
		case token.MUL:
			return smt.BVMul(a, b)
		case token.QUO, token.REM:
			if m.branch(smt.Eq(b, smt.BVC(b.Sort.W, 0)), site) {
				m.end("panic", "integer divide by zero at "+m.P.Fset.Position(site.Pos()).String())
			}
			if op == token.QUO {
				if signed {
					return smt.BVSDiv(a, b)
				}
				return smt.BVUDiv(a, b)
			}
			if signed {
				return smt.BVSRem(a, b)
			}
			return smt.BVURem(a, b)
		case token.AND:
			return smt.BVAnd(a, b)
		case token.OR:
			return smt.BVOr(a, b)
		case token.XOR:
			return smt.BVXor(a, b)
		case token.AND_NOT:
			return smt.BVAnd(a, smt.BVNot(b))
		case token.SHL, token.SHR:
			return shift(op, a, b, signed, isSigned(yt))
		case token.LSS:
			if signed {
				return smt.BVSlt(a, b)
			}
			return smt.BVUlt(a, b)
		case token.LEQ:
			if signed {
				return smt.BVSle(a, b)
			}
			return smt.BVUle(a, b)
		case token.GTR:
			if signed {
				return smt.BVSlt(b, a)
			}
			return smt.BVUlt(b, a)
		case token.GEQ:
			if signed {
				return smt.BVSle(b, a)
			}
			return smt.BVUle(b, a)
		}
	}
	panic(unsupported(fmt.Sprintf("binop %s on sort %v", op, a.Sort)))
}

func shift(op token.Token, a, b *smt.Term, signed, countSigned bool) *smt.Term {
	w := a.Sort.W
	// bring the count to width w, saturating
	var cnt *smt.Term
	var over *smt.Term = smt.False
	switch {
	case b.Sort.W == w:
		cnt = b
	case b.Sort.W < w:
		cnt = smt.ZeroExt(b, w)
	default:
		cnt = smt.Extract(b, w-1, 0)
		over = smt.Not(smt.Eq(smt.Extract(b, b.Sort.W-1, w), smt.BVC(b.Sort.W-w, 0)))
	}
	var r *smt.Term
	switch {
	case op == token.SHL:
		r = smt.BVShl(a, cnt)
	case signed:
		r = smt.BVAshr(a, cnt)
	default:
		r = smt.BVLshr(a, cnt)
	}
	if !over.IsFalse() {
		var sat *smt.Term
		if op == token.SHR && signed {
			sat = smt.BVAshr(a, smt.BVC(w, uint64(w-1)))
		} else {
			sat = smt.BVC(w, 0)
		}
		r = smt.Ite(over, sat, r)
	}
	return r
}

// valueEq compares two values of static type t.
func (m *Machine) valueEq(x, y Value, t types.Type) *smt.Term {
	switch a := x.(type) {
	case nil:
		return smt.BoolC(isNilValue(y))
	case *smt.Term:
		b, ok := y.(*smt.Term)
		if !ok {
			panic(unsupported("eq term vs non-term"))
		}
		if a.Sort.K == smt.KF64 {
			return smt.FPCmp("fp.eq", a, b)
		}
		return smt.Eq(a, b)
	case *Ptr:
		b, _ := y.(*Ptr)
		return smt.BoolC(samePtr(a, b))
	case *SliceV:
		b, _ := y.(*SliceV)
		if a != nil && b != nil {
			panic(unsupported("slice comparison of two non-nil slices"))
		}
		return smt.BoolC(a == nil && (y == nil || b == nil))
	case *MapV:
		b, _ := y.(*MapV)
		if y == nil {
			return smt.BoolC(a.M == nil)
		}
		return smt.BoolC(a.M == nil && b.M == nil)
	case *FuncV:
		b, _ := y.(*FuncV)
		return smt.BoolC(a == nil && b == nil)
	case *ChanV:
		b, _ := y.(*ChanV)
		if y == nil {
			return smt.BoolC(a.C == nil)
		}
		return smt.BoolC(a.C == b.C)
	case *IfaceV:
		b, ok := y.(*IfaceV)
		if !ok {
			if y == nil {
				return smt.BoolC(a.T == nil)
			}
			panic(unsupported("iface vs non-iface comparison"))
		}
		if a.T == nil || b.T == nil {
			return smt.BoolC(a.T == nil && b.T == nil)
		}
		if !types.Identical(a.T, b.T) {
			return smt.False
		}
		return m.valueEq(a.V, b.V, a.T)
	case *StructV:
		b := y.(*StructV)
		st := under(t).(*types.Struct)
		var cs []*smt.Term
		for i := range a.F {
			cs = append(cs, m.valueEq(a.F[i], b.F[i], st.Field(i).Type()))
		}
		return smt.And(cs...)
	case *ArrayV:
		switch b := y.(type) {
		case *ArrayV:
			et := under(t).(*types.Array).Elem()
			var cs []*smt.Term
			for i := range a.E {
				cs = append(cs, m.valueEq(a.E[i], b.E[i], et))
			}
			return smt.And(cs...)
		case *OpaqueBytes:
			ta, ok := bytesOfArray(a)
			if !ok {
				panic(unsupported("array vs opaque comparison"))
			}
			return smt.Eq(ta, b.T)
		}
	case *OpaqueBytes:
		switch b := y.(type) {
		case *OpaqueBytes:
			return smt.Eq(a.T, b.T)
		case *ArrayV:
			return m.valueEq(y, x, t)
		}
	}
	panic(unsupported(fmt.Sprintf("equality on %T vs %T", x, y)))
}

func isNilValue(v Value) bool {
	switch a := v.(type) {
	case nil:
		return true
	case *Ptr:
		return a == nil
	case *SliceV:
		return a == nil
	case *MapV:
		return a.M == nil
	case *FuncV:
		return a == nil
	case *ChanV:
		return a.C == nil
	case *IfaceV:
		return a.T == nil
	}
	return false
}

// ---------- conversions ----------

func (m *Machine) convert(x Value, from, to types.Type, site ssa.Instruction) Value {
	fs, fok := sortOf(from)
	ts, tok := sortOf(to)
	if fok && tok {
		a := x.(*smt.Term)
		switch {
		case fs.K == smt.KBV && ts.K == smt.KBV:
			if ts.W == fs.W {
				return a
			}
			if ts.W < fs.W {
				return smt.Extract(a, ts.W-1, 0)
			}
			if isSigned(from) {
				return smt.SignExt(a, ts.W)
			}
			return smt.ZeroExt(a, ts.W)
		case fs.K == smt.KBV && ts.K == smt.KF64:
			if isSigned(from) {
				return smt.FPFromSBV(a)
			}
			return smt.FPFromUBV(a)
		case fs.K == smt.KF64 && ts.K == smt.KBV:
			if isSigned(to) {
				return smt.FPToSBV(ts.W, a)
			}
			return smt.FPToUBV(ts.W, a)
		case fs.K == smt.KF64 && ts.K == smt.KF64:
			return a
		case fs.K == smt.KStr && ts.K == smt.KStr:
			return a
		case fs.K == smt.KBV && ts.K == smt.KStr:
			// string(rune)
			if a.IsConst() {
				return smt.StrC(string(rune(a.U64())))
			}
			return smt.UF("rune2str", smt.Str, smt.ZeroExt(smt.Extract(a, min(a.Sort.W, 32)-1, 0), 32))
		}
	}
	// string <-> []byte
	if tok && ts.K == smt.KStr {
		if sl, ok := under(from).(*types.Slice); ok && isByteType(sl.Elem()) {
			return m.bytesToString(x.(*SliceV))
		}
	}
	if fok && fs.K == smt.KStr {
		if sl, ok := under(to).(*types.Slice); ok && isByteType(sl.Elem()) {
			return m.stringToBytes(x.(*smt.Term))
		}
	}
	if _, ok := under(from).(*types.Pointer); ok {
		// unsafe.Pointer conversions
		return x
	}
	panic(unsupported(fmt.Sprintf("convert %s -> %s", from, to)))
}

func (m *Machine) bytesToString(s *SliceV) *smt.Term {
	if s == nil || s.Len == 0 && !isOpaque(s) {
		return smt.StrC("")
	}
	if ob, ok := s.Arr.V.(*OpaqueBytes); ok {
		return ob.T
	}
	a := s.Arr.V.(*ArrayV)
	t, ok := bytesOfArray(&ArrayV{E: a.E[s.Off : s.Off+s.Len]})
	if !ok {
		panic(unsupported("bytes to string"))
	}
	return t
}

func isOpaque(s *SliceV) bool {
	if s == nil {
		return false
	}
	_, ok := s.Arr.V.(*OpaqueBytes)
	return ok
}

func (m *Machine) stringToBytes(t *smt.Term) *SliceV {
	if t.IsConst() {
		e := make([]Value, len(t.S))
		for i := range e {
			e[i] = smt.BVC(8, uint64(t.S[i]))
		}
		c := m.newCell(&ArrayV{E: e}, nil, "[]byte(const)")
		return &SliceV{Arr: c, Len: len(e), Cap: len(e)}
	}
	c := m.newCell(&OpaqueBytes{T: t, N: -1}, nil, "[]byte(sym)")
	return &SliceV{Arr: c, Len: -1, Cap: -1}
}

// ---------- type assertions ----------

func (m *Machine) typeAssert(fr *frame, ins *ssa.TypeAssert) Value {
	x := m.get(fr, ins.X).(*IfaceV)
	ok := false
	if x.T != nil {
		if types.IsInterface(ins.AssertedType) {
			it := under(ins.AssertedType).(*types.Interface)
			if isMarker(x.T) {
				ok = markerImplements(x.T, it)
			} else {
				ok = types.Implements(x.T, it)
			}
		} else {
			ok = types.Identical(x.T, ins.AssertedType)
		}
	}
	var v Value
	if ok {
		if types.IsInterface(ins.AssertedType) {
			v = x
		} else {
			v = x.V
		}
	} else {
		v = Zero(ins.AssertedType)
	}
	if ins.CommaOk {
		return TupleV{v, smt.BoolC(ok)}
	}
	if !ok {
		m.end("panic", fmt.Sprintf("interface conversion failed: %v is not %s at %s", x.T, ins.AssertedType, m.P.Fset.Position(ins.Pos())))
	}
	return v
}

// ---------- indexing ----------

func (m *Machine) concreteIndex(idx *smt.Term, n int, site ssa.Instruction, what string) int {
	if idx.IsConst() {
		v := idx.SignedVal()
		if !v.IsInt64() || v.Int64() < 0 || v.Int64() >= int64(n) {
			m.end("panic", fmt.Sprintf("index out of range [%s] with length %d (%s) at %s", v, n, what, m.P.Fset.Position(site.Pos())))
		}
		return int(v.Int64())
	}
	if n > 64 {
		panic(unsupported(fmt.Sprintf("symbolic index into %s of length %d", what, n)))
	}
	conds := make([]*smt.Term, n+1)
	var inr []*smt.Term
	for i := 0; i < n; i++ {
		conds[i] = smt.Eq(idx, smt.BVC(idx.Sort.W, uint64(i)))
		inr = append(inr, conds[i])
	}
	conds[n] = smt.Not(smt.Or(inr...))
	k := m.decide(conds, site)
	if k == n {
		m.end("panic", fmt.Sprintf("index out of range (symbolic) with length %d (%s) at %s", n, what, m.P.Fset.Position(site.Pos())))
	}
	return k
}

func (m *Machine) indexAddr(fr *frame, ins *ssa.IndexAddr) Value {
	idx := m.get(fr, ins.Index).(*smt.Term)
	switch x := m.get(fr, ins.X).(type) {
	case *Ptr: // pointer to array
		if x == nil {
			m.end("panic", "nil pointer dereference (index)")
		}
		n := int(under(ins.X.Type().(*types.Pointer).Elem()).(*types.Array).Len())
		return x.sub(m.concreteIndex(idx, n, ins, "array"))
	case *SliceV:
		if x == nil {
			m.end("panic", "index of nil slice at "+m.P.Fset.Position(ins.Pos()).String())
		}
		if ob, ok := x.Arr.V.(*OpaqueBytes); ok {
			if ob.N < 0 {
				if !idx.IsConst() {
					panic(unsupported("symbolic index into opaque bytes of unknown length"))
				}
				// bounds: fork on len > idx
				ln := smt.StrLen(ob.T)
				if !m.branch(smt.IntLt(smt.IntC(idx.SignedVal().Int64()), ln), ins) {
					m.end("panic", "index out of range on byte slice at "+m.P.Fset.Position(ins.Pos()).String())
				}
				return (&Ptr{Cell: x.Arr}).sub(int(idx.U64()))
			}
			return (&Ptr{Cell: x.Arr}).sub(m.concreteIndex(idx, ob.N, ins, "bytes"))
		}
		k := m.concreteIndex(idx, x.Len, ins, "slice")
		return (&Ptr{Cell: x.Arr}).sub(x.Off + k)
	}
	panic(unsupported("indexaddr"))
}

func (m *Machine) index(fr *frame, ins *ssa.Index) Value {
	idx := m.get(fr, ins.Index).(*smt.Term)
	switch x := m.get(fr, ins.X).(type) {
	case *ArrayV:
		return x.E[m.concreteIndex(idx, len(x.E), ins, "array")]
	case *OpaqueBytes:
		return opaqueAt(x, m.concreteIndex(idx, x.N, ins, "bytes"))
	case *smt.Term: // string index
		return m.strIndex(x, idx, ins)
	}
	panic(unsupported("index"))
}

func (m *Machine) strIndex(s, idx *smt.Term, site ssa.Instruction) Value {
	if s.IsConst() && idx.IsConst() {
		k := idx.SignedVal().Int64()
		if k < 0 || k >= int64(len(s.S)) {
			m.end("panic", "string index out of range")
		}
		return smt.BVC(8, uint64(s.S[k]))
	}
	i := smt.BV2Nat(idx)
	inr := smt.IntLt(i, smt.StrLen(s))
	if !m.branch(inr, site) {
		m.end("panic", "string index out of range at "+m.P.Fset.Position(site.Pos()).String())
	}
	return smt.Int2BV(8, smt.StrToCode(smt.StrAt(s, i)))
}

func (m *Machine) lookup(fr *frame, ins *ssa.Lookup) Value {
	x := m.get(fr, ins.X)
	if s, ok := x.(*smt.Term); ok {
		return m.strIndex(s, m.get(fr, ins.Index).(*smt.Term), ins)
	}
	mv := x.(*MapV)
	if m.race.on && mv.M != nil {
		m.raceRecordMap(mv.M, false, ins, ins.X)
	}
	vt := under(ins.X.Type()).(*types.Map).Elem()
	key := m.get(fr, ins.Index)
	var v Value
	found := false
	if mv.M != nil {
		if i := m.mapFind(mv.M, key, ins.Index.Type(), ins); i >= 0 {
			v, found = mv.M.Vals[i], true
		}
	}
	if !found {
		v = Zero(vt)
	}
	if ins.CommaOk {
		return TupleV{v, smt.BoolC(found)}
	}
	return v
}

// mapFind forks on key equality with the existing keys (in insertion order).
func (m *Machine) mapFind(mo *MapObj, key Value, kt types.Type, site ssa.Instruction) int {
	for i, k := range mo.Keys {
		c := m.valueEq(k, key, kt)
		if c.IsTrue() {
			return i
		}
		if c.IsFalse() {
			continue
		}
		if m.branch(c, site) {
			return i
		}
	}
	return -1
}

func (m *Machine) mapStore(mo *MapObj, key, val Value, kt types.Type, site ssa.Instruction) {
	if i := m.mapFind(mo, key, kt, site); i >= 0 {
		mo.Vals[i] = val
		return
	}
	mo.Keys = append(mo.Keys, key)
	mo.Vals = append(mo.Vals, val)
}

func (m *Machine) mapDelete(mo *MapObj, key Value, kt types.Type, site ssa.Instruction) {
	if i := m.mapFind(mo, key, kt, site); i >= 0 {
		mo.Keys = append(append([]Value(nil), mo.Keys[:i]...), mo.Keys[i+1:]...)
		mo.Vals = append(append([]Value(nil), mo.Vals[:i]...), mo.Vals[i+1:]...)
	}
}

func (m *Machine) makeSlice(fr *frame, ins *ssa.MakeSlice) Value {
	l := m.get(fr, ins.Len).(*smt.Term)
	c := m.get(fr, ins.Cap).(*smt.Term)
	if !l.IsConst() || !c.IsConst() {
		panic(unsupported("make slice with symbolic length"))
	}
	et := under(ins.Type()).(*types.Slice).Elem()
	n, cp := int(l.U64()), int(c.U64())
	if cp > 1<<16 {
		panic(unsupported("make slice too large"))
	}
	e := make([]Value, cp)
	z := Zero(et)
	for i := range e {
		e[i] = z
	}
	cell := m.newCell(&ArrayV{E: e}, nil, "makeslice")
	return &SliceV{Arr: cell, Len: n, Cap: cp}
}

func (m *Machine) sliceOp(fr *frame, ins *ssa.Slice) Value {
	getI := func(v ssa.Value) (*smt.Term, bool) {
		if v == nil {
			return nil, false
		}
		return m.get(fr, v).(*smt.Term), true
	}
	lo, hasLo := getI(ins.Low)
	hi, hasHi := getI(ins.High)
	x := m.get(fr, ins.X)
	switch a := x.(type) {
	case *smt.Term: // string slicing
		var loI, hiI *smt.Term
		if hasLo {
			loI = smt.BV2Nat(lo)
		} else {
			loI = smt.IntC(0)
		}
		ln := smt.StrLen(a)
		if hasHi {
			hiI = smt.BV2Nat(hi)
		} else {
			hiI = ln
		}
		okc := smt.And(smt.IntLe(loI, hiI), smt.IntLe(hiI, ln))
		if !m.branch(okc, ins) {
			m.end("panic", "slice bounds out of range (string) at "+m.P.Fset.Position(ins.Pos()).String())
		}
		return smt.StrSubstr(a, loI, smt.IntSub(hiI, loI))
	case *Ptr: // pointer to array
		if a == nil {
			m.end("panic", "slice of nil array pointer")
		}
		arrT := under(ins.X.Type().(*types.Pointer).Elem()).(*types.Array)
		n := int(arrT.Len())
		l, h := 0, n
		if hasLo {
			l = m.concreteBound(lo, ins)
		}
		if hasHi {
			h = m.concreteBound(hi, ins)
		}
		if l > h || h > n {
			m.end("panic", "slice bounds out of range")
		}
		if len(a.Path) != 0 {
			// array embedded in a struct: materialise a view cell is unsound for aliasing; copy-out only when read-only use
			v := a.load()
			switch av := v.(type) {
			case *OpaqueBytes:
				if l == 0 && h == n {
					return &SliceV{Arr: m.newCell(av, nil, "arrview"), Len: n, Cap: n}
				}
			case *ArrayV:
				return &SliceV{Arr: &Cell{V: av, ID: -1, alias: a}, Off: l, Len: h - l, Cap: n - l}
			}
			panic(unsupported("slice of embedded array"))
		}
		if ob, ok := a.Cell.V.(*OpaqueBytes); ok {
			if l == 0 && h == n {
				return &SliceV{Arr: a.Cell, Len: n, Cap: n}
			}
			if ob.T.IsConst() || true {
				sub := smt.StrSubstr(ob.T, smt.IntC(int64(l)), smt.IntC(int64(h-l)))
				return &SliceV{Arr: m.newCell(&OpaqueBytes{T: sub, N: h - l}, nil, "subopaque"), Len: h - l, Cap: h - l}
			}
		}
		return &SliceV{Arr: a.Cell, Off: l, Len: h - l, Cap: n - l}
	case *SliceV:
		if a == nil {
			if (hasLo && !isZeroTerm(lo)) || (hasHi && !isZeroTerm(hi)) {
				m.end("panic", "slice bounds out of range (nil slice)")
			}
			return (*SliceV)(nil)
		}
		if ob, ok := a.Arr.V.(*OpaqueBytes); ok {
			if (!hasLo || isZeroTerm(lo)) && !hasHi {
				return a
			}
			var loI, hiI *smt.Term
			loI = smt.IntC(0)
			if hasLo {
				loI = smt.BV2Nat(lo)
			}
			ln := smt.StrLen(ob.T)
			hiI = ln
			if hasHi {
				hiI = smt.BV2Nat(hi)
			}
			okc := smt.And(smt.IntLe(loI, hiI), smt.IntLe(hiI, ln))
			if !m.branch(okc, ins) {
				m.end("panic", "slice bounds out of range (bytes) at "+m.P.Fset.Position(ins.Pos()).String())
			}
			nn := -1
			if loI.IsConst() && hiI.IsConst() {
				nn = int(hiI.Val.Int64() - loI.Val.Int64())
			}
			sub := smt.StrSubstr(ob.T, loI, smt.IntSub(hiI, loI))
			return &SliceV{Arr: m.newCell(&OpaqueBytes{T: sub, N: nn}, nil, "subopaque"), Len: nn, Cap: nn}
		}
		l, h := 0, a.Len
		if hasLo {
			l = m.concreteBound(lo, ins)
		}
		if hasHi {
			h = m.concreteBound(hi, ins)
		}
		if l > h || h > a.Cap {
			m.end("panic", "slice bounds out of range at "+m.P.Fset.Position(ins.Pos()).String())
		}
		return &SliceV{Arr: a.Arr, Off: a.Off + l, Len: h - l, Cap: a.Cap - l}
	}
	panic(unsupported(fmt.Sprintf("slice of %T", x)))
}

func isZeroTerm(t *smt.Term) bool { return t.IsConst() && t.Val.Sign() == 0 }

func (m *Machine) concreteBound(t *smt.Term, site ssa.Instruction) int {
	if !t.IsConst() {
		panic(unsupported("symbolic slice bound at " + m.P.Fset.Position(site.Pos()).String()))
	}
	v := t.SignedVal().Int64()
	if v < 0 {
		m.end("panic", "negative slice bound")
	}
	return int(v)
}

// ---------- range ----------

func (m *Machine) rangeInit(fr *frame, ins *ssa.Range) Value {
	switch x := m.get(fr, ins.X).(type) {
	case *MapV:
		it := &mapIter{}
		if m.race.on && x.M != nil {
			m.raceRecordMap(x.M, false, ins, ins.X)
		}
		if x.M != nil {
			it.keys = append([]Value(nil), x.M.Keys...)
			it.vals = append([]Value(nil), x.M.Vals...)
		}
		return it
	case *smt.Term:
		if !x.IsConst() {
			panic(unsupported("range over symbolic string"))
		}
		it := &mapIter{}
		for i, r := range x.S {
			it.keys = append(it.keys, smt.BVC(64, uint64(i)))
			it.vals = append(it.vals, smt.BVC(32, uint64(r)))
		}
		return it
	}
	panic(unsupported("range"))
}

func (m *Machine) rangeNext(fr *frame, ins *ssa.Next) Value {
	it := m.get(fr, ins.Iter).(*mapIter)
	tt := ins.Type().(*types.Tuple)
	if it.i >= len(it.keys) {
		return TupleV{smt.False, zeroOrNil(tt.At(1).Type()), zeroOrNil(tt.At(2).Type())}
	}
	k, v := it.keys[it.i], it.vals[it.i]
	it.i++
	return TupleV{smt.True, k, v}
}

func zeroOrNil(t types.Type) Value {
	if b, ok := t.(*types.Basic); ok && b.Kind() == types.Invalid {
		return nil
	}
	return Zero(t)
}

// ---------- calls ----------

func (m *Machine) prepareCall(fr *frame, call *ssa.CallCommon, site ssa.Instruction) (func([]Value) Value, []Value) {
	args := make([]Value, 0, len(call.Args)+1)
	if call.IsInvoke() {
		recv := m.get(fr, call.Value).(*IfaceV)
		for _, a := range call.Args {
			args = append(args, m.get(fr, a))
		}
		return func(args []Value) Value { return m.invoke(recv, call.Method, args, site) }, args
	}
	for _, a := range call.Args {
		args = append(args, m.get(fr, a))
	}
	switch f := call.Value.(type) {
	case *ssa.Function:
		return func(args []Value) Value { return m.callFunction(f, args, nil, site) }, args
	case *ssa.Builtin:
		return func(args []Value) Value { return m.builtin(f, args, call, site) }, args
	}
	fv := m.get(fr, call.Value)
	return func(args []Value) Value { return m.callValue(fv, args, site) }, args
}

func (m *Machine) call(fr *frame, call *ssa.CallCommon, site ssa.Instruction) Value {
	f, args := m.prepareCall(fr, call, site)
	return f(args)
}

func (m *Machine) invoke(recv *IfaceV, method *types.Func, args []Value, site ssa.Instruction) Value {
	if recv.T == nil {
		m.end("panic", "nil pointer dereference: method "+method.Name()+" on nil interface at "+m.P.Fset.Position(site.Pos()).String())
	}
	if isMarker(recv.T) {
		return m.markerInvoke(recv, method, args, site)
	}
	fn := m.P.Prog.LookupMethod(recv.T, method.Pkg(), method.Name())
	if fn == nil {
		panic(unsupported(fmt.Sprintf("no method %s on %s", method.Name(), recv.T)))
	}
	return m.callFunction(fn, append([]Value{recv.V}, args...), nil, site)
}

func (m *Machine) builtin(b *ssa.Builtin, args []Value, call *ssa.CallCommon, site ssa.Instruction) Value {
	switch b.Name() {
	case "len":
		switch x := args[0].(type) {
		case *smt.Term:
			return smt.Int2BV(64, smt.StrLen(x))
		case *SliceV:
			if x == nil {
				return smt.BVC(64, 0)
			}
			if ob, ok := x.Arr.V.(*OpaqueBytes); ok {
				if ob.N >= 0 {
					return smt.BVC(64, uint64(ob.N))
				}
				return smt.Int2BV(64, smt.StrLen(ob.T))
			}
			return smt.BVC(64, uint64(x.Len))
		case *MapV:
			if x.M == nil {
				return smt.BVC(64, 0)
			}
			// keys may alias under symbolic equality; keys in the object are pairwise distinct by construction
			return smt.BVC(64, uint64(len(x.M.Keys)))
		case *ArrayV:
			return smt.BVC(64, uint64(len(x.E)))
		case *OpaqueBytes:
			return smt.BVC(64, uint64(x.N))
		case *Ptr:
			n := under(call.Args[0].Type().(*types.Pointer).Elem()).(*types.Array).Len()
			return smt.BVC(64, uint64(n))
		case *ChanV:
			if x.C == nil {
				return smt.BVC(64, 0)
			}
			return smt.BVC(64, uint64(len(x.C.Buf)))
		}
	case "cap":
		switch x := args[0].(type) {
		case *SliceV:
			if x == nil {
				return smt.BVC(64, 0)
			}
			if x.Cap < 0 {
				return m.builtin(&ssa.Builtin{}, args, call, site)
			}
			return smt.BVC(64, uint64(x.Cap))
		}
	case "append":
		return m.appendOp(args[0], args[1], call.Args[0].Type())
	case "copy":
		return m.copyOp(args[0], args[1])
	case "delete":
		mv := args[0].(*MapV)
		if mv.M != nil {
			if m.race.on && site != nil {
				m.raceRecordMap(mv.M, true, site, call.Args[0])
			}
			m.mapDelete(mv.M, args[1], call.Args[1].Type(), site)
		}
		return nil
	case "close":
		ch := args[0].(*ChanV)
		if ch.C == nil {
			m.end("panic", "close of nil channel")
		}
		if ch.C.Closed {
			m.end("panic", "close of closed channel")
		}
		ch.C.Closed = true
		m.effect("chan_close", smt.BVC(64, uint64(ch.C.ID)))
		return nil
	case "min", "max":
		r := args[0].(*smt.Term)
		signed := isSigned(call.Args[0].Type())
		for _, a := range args[1:] {
			t := a.(*smt.Term)
			var lt *smt.Term
			if r.Sort.K == smt.KBV {
				if signed {
					lt = smt.BVSlt(t, r)
				} else {
					lt = smt.BVUlt(t, r)
				}
			} else {
				panic(unsupported("min/max on non-integers"))
			}
			if b.Name() == "max" {
				gt := smt.Not(smt.Or(lt, smt.Eq(t, r))) // t > r
				r = smt.Ite(gt, t, r)
				continue
			}
			r = smt.Ite(lt, t, r)
		}
		return r
	case "print", "println":
		return nil
	case "recover":
		return &IfaceV{}
	case "ssa:wrapnilchk":
		p := args[0].(*Ptr)
		if p == nil {
			m.end("panic", "nil pointer dereference (value method called on nil pointer) at "+m.P.Fset.Position(site.Pos()).String())
		}
		return args[0]
	}
	panic(unsupported("builtin " + b.Name()))
}

func (m *Machine) appendOp(dst, src Value, st types.Type) Value {
	d, _ := dst.(*SliceV)
	// append([]byte, string...)
	if s, ok := src.(*smt.Term); ok {
		src = m.stringToBytes(s)
	}
	s, _ := src.(*SliceV)
	if s == nil || (s.Len == 0 && !isOpaque(s)) {
		return d
	}
	if isOpaque(s) || isOpaque(d) {
		// byte sequences: concatenate as strings
		var dt *smt.Term = smt.StrC("")
		dn := 0
		if d != nil {
			dt = m.bytesToString(d)
			dn = d.Len
			if ob, ok := d.Arr.V.(*OpaqueBytes); ok {
				dn = ob.N
			}
		}
		stt := m.bytesToString(s)
		sn := s.Len
		if ob, ok := s.Arr.V.(*OpaqueBytes); ok {
			sn = ob.N
		}
		n := -1
		if dn >= 0 && sn >= 0 {
			n = dn + sn
		}
		c := m.newCell(&OpaqueBytes{T: smt.StrConcat(dt, stt), N: n}, nil, "append")
		return &SliceV{Arr: c, Len: n, Cap: n}
	}
	sa := s.Arr.V.(*ArrayV).E[s.Off : s.Off+s.Len]
	if d == nil {
		e := append([]Value(nil), sa...)
		return &SliceV{Arr: m.newCell(&ArrayV{E: e}, nil, "append"), Len: len(e), Cap: len(e)}
	}
	da := d.Arr.V.(*ArrayV)
	if d.Len+len(sa) <= d.Cap {
		e := append([]Value(nil), da.E...)
		copy(e[d.Off+d.Len:], sa)
		m.writeBack(d.Arr, &ArrayV{E: e})
		return &SliceV{Arr: d.Arr, Off: d.Off, Len: d.Len + len(sa), Cap: d.Cap}
	}
	ncap := (d.Len + len(sa)) * 2
	e := make([]Value, ncap)
	copy(e, da.E[d.Off:d.Off+d.Len])
	copy(e[d.Len:], sa)
	z := Zero(under(st).(*types.Slice).Elem())
	for i := d.Len + len(sa); i < ncap; i++ {
		e[i] = z
	}
	return &SliceV{Arr: m.newCell(&ArrayV{E: e}, nil, "append"), Len: d.Len + len(sa), Cap: ncap}
}

// writeBack stores a new array value into a backing cell (following struct-embedded aliases).
func (m *Machine) writeBack(c *Cell, v Value) {
	c.V = v
	if c.alias != nil {
		c.alias.store(v)
	}
}

func (m *Machine) copyOp(dst, src Value) Value {
	d, _ := dst.(*SliceV)
	if st, ok := src.(*smt.Term); ok {
		src = m.stringToBytes(st)
	}
	s, _ := src.(*SliceV)
	if d == nil || s == nil {
		return smt.BVC(64, 0)
	}
	if isOpaque(s) || isOpaque(d) {
		sob, sok := s.Arr.V.(*OpaqueBytes)
		sn := s.Len
		var stt *smt.Term
		if sok {
			sn = sob.N
			stt = sob.T
		} else {
			stt = m.bytesToString(s)
		}
		dn := d.Len
		if dob, ok := d.Arr.V.(*OpaqueBytes); ok {
			dn = dob.N
		}
		if sn >= 0 && sn == dn && d.Off == 0 {
			full := false
			switch dv := d.Arr.V.(type) {
			case *OpaqueBytes:
				full = true
			case *ArrayV:
				full = len(dv.E) == dn
			}
			if full {
				m.writeBack(d.Arr, &OpaqueBytes{T: stt, N: sn})
				return smt.BVC(64, uint64(sn))
			}
		}
		if dn >= 0 && d.Off == 0 && sok {
			full := false
			switch dv := d.Arr.V.(type) {
			case *OpaqueBytes:
				full = true
			case *ArrayV:
				full = len(dv.E) == dn
			}
			// source of unknown or larger length: the destination is filled when len(src) >= len(dst)
			srcLen := smt.StrLen(stt)
			if full && (sn < 0 || sn >= dn) {
				if sn < 0 && !m.branch(smt.IntLe(smt.IntC(int64(dn)), srcLen), nil) {
					panic(unsupported("copy from a shorter opaque byte sequence of unknown length"))
				}
				m.writeBack(d.Arr, &OpaqueBytes{T: smt.StrSubstr(stt, smt.IntC(0), smt.IntC(int64(dn))), N: dn})
				return smt.BVC(64, uint64(dn))
			}
		}
		// a shorter source of known length: the head of the destination is overwritten, its tail stays
		if sn >= 0 && dn > sn && d.Off == 0 {
			if _, whole := d.Arr.V.(*OpaqueBytes); whole || func() bool { av, ok := d.Arr.V.(*ArrayV); return ok && len(av.E) == dn }() {
				old := m.bytesToString(d)
				nt := smt.StrConcat(stt, smt.StrSubstr(old, smt.IntC(int64(sn)), smt.IntC(int64(dn-sn))))
				m.writeBack(d.Arr, &OpaqueBytes{T: nt, N: dn})
				return smt.BVC(64, uint64(sn))
			}
		}
		panic(unsupported(fmt.Sprintf("copy between opaque byte sequences of different/unknown length (%d -> %d)", sn, dn)))
	}
	n := min(d.Len, s.Len)
	sa := s.Arr.V.(*ArrayV).E
	e := append([]Value(nil), d.Arr.V.(*ArrayV).E...)
	tmp := append([]Value(nil), sa[s.Off:s.Off+n]...)
	copy(e[d.Off:], tmp)
	m.writeBack(d.Arr, &ArrayV{E: e})
	return smt.BVC(64, uint64(n))
}

// ---------- locks ----------

func lockKey(p *Ptr) string {
	if p.Cell.Global {
		return fmt.Sprintf("g:%s%v", p.Cell.Name, p.Path)
	}
	return fmt.Sprintf("c%d%v", p.Cell.ID, p.Path)
}

func (m *Machine) lock(p *Ptr, write bool, name string) {
	k := lockKey(p)
	if p.Cell.Name != "" {
		name = p.Cell.Name + name
	}
	for {
		st, held := m.held[k]
		if !held {
			break
		}
		if m.owner[k] != m.curGid() {
			if !write && st >= 2 {
				m.held[k] = st + 1 // shared read lock across goroutines
				return
			}
			if m.cur == nil {
				// the main goroutine waits for a lock held by a parked goroutine: nobody can release it
				m.effect("deadlock", smt.StrC(k))
				m.end("deadlock", "main goroutine waits for "+k+" ("+name+") held by a blocked goroutine")
			}
			m.park(k)
			continue
		}
		if write || st == 1 {
			m.effect("deadlock", smt.StrC(k))
			m.end("deadlock", "goroutine re-acquires "+k+" ("+name+") which it already holds; held: "+strings.Join(m.heldOrder, ","))
		}
		m.held[k] = st + 1
		return
	}
	for _, h := range m.heldOrder {
		m.effect("lock_order", smt.StrC(h), smt.StrC(k))
		if m.lockEdges == nil {
			m.lockEdges = map[[2]string]bool{}
		}
		m.lockEdges[[2]string{h, k}] = true
	}
	if write {
		m.held[k] = 1
	} else {
		m.held[k] = 2
	}
	m.owner[k] = m.curGid()
	m.heldOrder = append(m.heldOrder, k)
}

func (m *Machine) unlock(p *Ptr, write bool) {
	k := lockKey(p)
	st, held := m.held[k]
	if !held {
		m.end("panic", "unlock of unlocked mutex "+k)
	}
	if !write && st > 2 {
		m.held[k] = st - 1
		return
	}
	delete(m.held, k)
	for i, h := range m.heldOrder {
		if h == k {
			m.heldOrder = append(append([]string(nil), m.heldOrder[:i]...), m.heldOrder[i+1:]...)
			break
		}
	}
	delete(m.owner, k)
	m.wake(k)
}

// SortedHavoc lists havocked callees.
func (m *Machine) SortedHavoc() []string {
	var out []string
	for k, n := range m.HavocCalls {
		out = append(out, fmt.Sprintf("%s×%d", k, n))
	}
	sort.Strings(out)
	return out
}

// LockOrderCycle reports whether the lock-order edges (A held while B acquired) recorded on this path
// contain a cycle: two code paths that take the same locks in opposite orders deadlock when they run
// concurrently.
func (m *Machine) LockOrderCycle() bool {
	adj := map[string][]string{}
	for e := range m.lockEdges {
		adj[e[0]] = append(adj[e[0]], e[1])
	}
	state := map[string]int{}
	var dfs func(n string) bool
	dfs = func(n string) bool {
		state[n] = 1
		for _, x := range adj[n] {
			if state[x] == 1 {
				return true
			}
			if state[x] == 0 && dfs(x) {
				return true
			}
		}
		state[n] = 2
		return false
	}
	for n := range adj {
		if state[n] == 0 && dfs(n) {
			return true
		}
	}
	return false
}

// Deadline control: by default a context with a deadline may expire at any moment.  A harness can take
// control (zzverif.DeadlineControl) so that deadlines expire exactly when one of its stubs says that
// time has passed (zzverif.ExpireDeadlines); natively the stub really sleeps past the deadline.
func (m *Machine) deadlineControlled() bool { b, _ := m.ghost["deadline.controlled"].(bool); return b }
func (m *Machine) deadlineExpired() bool    { b, _ := m.ghost["deadline.expired"].(bool); return b }
