package symex

import (
	"fmt"
	"go/types"
	"strings"

	"verif/engine/smt"

	"golang.org/x/tools/go/ssa"
)

// Intrinsics used by the premium / peersync / version / policy harnesses.
//
// math/bits.Mul64(x, y) = (hi, lo): the exact 128-bit product.  lo is the wrapping 64-bit product
// (the very term the code under test builds for x*y), hi the upper word of the product of the
// zero-extended operands.
//
// math/bits.Div64(hi, lo, y) = (quo, rem) of the 128-bit value hi:lo by y, for y != 0 and y > hi
// (otherwise the real function panics; callers in the harnesses establish the precondition, the
// intrinsic ends the path as a panic when it may be violated).
//
// strings.ToUpper: folded for constants, otherwise an uninterpreted function (like strings.ToLower).
//
// encoding/json.Unmarshal: the base model recognises Marshal(v) -> Unmarshal(&w) only when v and w
// have the same type.  peersync's store marshals a *peerRecord and unmarshals into a peerRecord
// value; encoding/json encodes a non-nil pointer as its pointee, so that round trip returns the
// pointee's content as well (same trust as the base model: encoding/json round-trips these structs).
func init() {
	intrinsics["strings.ToUpper"] = func(m *Machine, fn *ssa.Function, args []Value) Value {
		s := strArg(args[0])
		if s.IsConst() {
			return smt.StrC(strings.ToUpper(s.S))
		}
		return smt.UF("strings.ToUpper", smt.Str, s)
	}
	baseUnmarshal := intrinsics["encoding/json.Unmarshal"]
	intrinsics["encoding/json.Unmarshal"] = func(m *Machine, fn *ssa.Function, args []Value) Value {
		data, _ := m.sliceBytesTerm(args[0])
		if dst, ok := args[1].(*IfaceV); ok {
			if pt, ok := dst.T.(*types.Pointer); ok {
				if src, ok := m.ghost[fmt.Sprintf("json:%d", data.ID)].(*IfaceV); ok {
					if sp, ok := src.T.(*types.Pointer); ok && types.Identical(sp.Elem(), pt.Elem()) {
						if p, ok := src.V.(*Ptr); ok && p != nil && p.Cell != nil {
							dst.V.(*Ptr).store(jsonMergeOmitted(pt.Elem(), dst.V.(*Ptr).load(), p.load()))
							return &IfaceV{}
						}
					}
				}
			}
		}
		return baseUnmarshal(m, fn, args)
	}
	intrinsics["math/bits.Mul64"] = func(m *Machine, fn *ssa.Function, args []Value) Value {
		x, y := args[0].(*smt.Term), args[1].(*smt.Term)
		p := smt.BVMul(smt.ZeroExt(x, 128), smt.ZeroExt(y, 128))
		return TupleV{smt.Extract(p, 127, 64), smt.BVMul(x, y)}
	}
	intrinsics["math/bits.Div64"] = func(m *Machine, fn *ssa.Function, args []Value) Value {
		hi, lo, y := args[0].(*smt.Term), args[1].(*smt.Term), args[2].(*smt.Term)
		if !m.branch(smt.BVUlt(hi, y), nil) {
			m.end("panic", "math/bits.Div64: division by zero or quotient overflow")
		}
		n := smt.Concat(hi, lo)
		d := smt.ZeroExt(y, 128)
		return TupleV{smt.Extract(smt.BVUDiv(n, d), 63, 0), smt.Extract(smt.BVURem(n, d), 63, 0)}
	}
}
