package symex

import (
	"fmt"
	"go/types"
	"sort"
	"strings"

	"verif/engine/smt"

	"golang.org/x/tools/go/ssa"
)

func smtFalse() *smt.Term { return smt.False }
func smtTrue() *smt.Term  { return smt.True }

// Lockset bookkeeping for zzverif.Race2(label, a, b): a and b are two handlers of the daemon that run on
// different goroutines in the real program.  They are executed one after the other on the same objects;
// every load and store of a memory location that existed before the first handler started (the shared
// state: service, swaps, watcher, policy, stores - not what a handler allocates itself) is recorded with
// the locks the executing goroutine holds.  Two accesses of the same location from different handlers, at
// least one of them a write, with no common lock held in a mode that excludes the other, are a candidate
// data race.  (Lockset discipline over-approximates races: a candidate is reported only after the native
// replay - both handlers on real goroutines under the race detector - confirms it.)

// RaceAccess is one recorded access of shared memory.
type RaceAccess struct {
	Region int
	Cell   int
	Loc    string // stable identity of the location's object: cell id, or the name of a global
	Path   []int
	IsMap  bool
	Write  bool
	Locks  map[string]int // lock key -> 1 exclusive, 2 shared
	Where  string         // file:line of the access
	Desc   string         // Type.field
	Fn     string
}

type raceAccess = RaceAccess

type raceState struct {
	on     bool
	region int
	mark   int
	acc    []raceAccess
	seen   map[string]bool
	label  string
}

func (m *Machine) raceLocks() map[string]int {
	out := map[string]int{}
	for k, st := range m.held {
		if m.owner[k] != m.curGid() && st < 2 {
			continue
		}
		if st == 1 {
			out[k] = 1
		} else {
			out[k] = 2
		}
	}
	return out
}

func describeAddr(addr ssa.Value) string {
	switch a := addr.(type) {
	case *ssa.FieldAddr:
		t := a.X.Type()
		if p, ok := t.Underlying().(*types.Pointer); ok {
			t = p.Elem()
		}
		name := types.TypeString(t, func(p *types.Package) string { return p.Name() })
		if s, ok := t.Underlying().(*types.Struct); ok && a.Field < s.NumFields() {
			return name + "." + s.Field(a.Field).Name()
		}
		return name
	case *ssa.IndexAddr:
		return "element of " + types.TypeString(a.X.Type(), func(p *types.Package) string { return p.Name() })
	case *ssa.Global:
		return "global " + a.Name()
	}
	return types.TypeString(addr.Type(), func(p *types.Package) string { return p.Name() })
}

func (m *Machine) raceRecord(p *Ptr, write bool, ins ssa.Instruction, addr ssa.Value) {
	r := &m.race
	c, path := p.Cell, p.Path
	for c.alias != nil {
		path = append(append([]int(nil), c.alias.Path...), path...)
		c = c.alias.Cell
	}
	_, global := addr.(*ssa.Global)
	if c.ID > r.mark && !global && !c.Global {
		return
	}
	if ins.Parent() != nil && ins.Parent().Pkg != nil && strings.HasSuffix(ins.Parent().Pkg.Pkg.Path(), "/zzverif") {
		return
	}
	pos := m.P.Fset.Position(ins.Pos())
	where := fmt.Sprintf("%s:%d", pos.Filename, pos.Line)
	if strings.Contains(pos.Filename, "zz_verif_") {
		return // ghost state of the harness stubs
	}
	key := fmt.Sprintf("%d|%d|%v|%v|%s|%v", r.region, c.ID, path, write, where, m.raceLocks())
	if r.seen[key] {
		return
	}
	r.seen[key] = true
	fn := ""
	if ins.Parent() != nil {
		fn = ins.Parent().String()
	}
	r.acc = append(r.acc, raceAccess{Region: r.region, Cell: c.ID, Loc: cellLoc(c), Path: append([]int(nil), path...), Write: write,
		Locks: m.raceLocks(), Where: where, Desc: describeAddr(addr), Fn: fn})
}

func (m *Machine) raceRecordMap(mo *MapObj, write bool, ins ssa.Instruction, mapVal ssa.Value) {
	r := &m.race
	if mo.ID > r.mark {
		return
	}
	pos := m.P.Fset.Position(ins.Pos())
	if strings.Contains(pos.Filename, "zz_verif_") {
		return
	}
	where := fmt.Sprintf("%s:%d", pos.Filename, pos.Line)
	key := fmt.Sprintf("%d|m%d|%v|%s|%v", r.region, mo.ID, write, where, m.raceLocks())
	if r.seen[key] {
		return
	}
	r.seen[key] = true
	desc := "map " + types.TypeString(mapVal.Type(), func(p *types.Package) string { return p.Name() })
	if fa, ok := mapVal.(*ssa.UnOp); ok {
		desc = "map " + describeAddr(fa.X)
	}
	fn := ""
	if ins.Parent() != nil {
		fn = ins.Parent().String()
	}
	r.acc = append(r.acc, raceAccess{Region: r.region, Cell: mo.ID, Loc: fmt.Sprintf("m%d", mo.ID), IsMap: true, Write: write, Locks: m.raceLocks(), Where: where, Desc: desc, Fn: fn})
}

func cellLoc(c *Cell) string {
	if c.Global {
		return "g:" + c.Name
	}
	return fmt.Sprintf("c%d", c.ID)
}

func pathOverlap(a, b []int) bool {
	n := len(a)
	if len(b) < n {
		n = len(b)
	}
	for i := 0; i < n; i++ {
		if a[i] != b[i] {
			return false
		}
	}
	return true
}

func protectedBy(a, b raceAccess) bool {
	for k, ma := range a.Locks {
		mb, ok := b.Locks[k]
		if !ok {
			continue
		}
		// a common lock orders the two accesses unless both hold it shared
		if ma == 1 || mb == 1 {
			return true
		}
	}
	return false
}

// RaceConflict is one candidate: two unsynchronised accesses of the same location.
type RaceConflict struct {
	Desc   string
	A, B   string // file:line
	FnA    string
	FnB    string
	WriteA bool
	WriteB bool
}

// RaceConflicts combines the accesses of a path that ran the first handler with those of a path that ran
// the second one.
func RaceConflicts(as, bs []RaceAccess) []RaceConflict {
	var out []RaceConflict
	seen := map[string]bool{}
	for _, a := range as {
		for _, b := range bs {
			if a.Region != 1 || b.Region != 2 {
				continue
			}
			if a.IsMap != b.IsMap || a.Loc != b.Loc || (!a.Write && !b.Write) {
				continue
			}
			if !a.IsMap && !pathOverlap(a.Path, b.Path) {
				continue
			}
			if protectedBy(a, b) {
				continue
			}
			desc := a.Desc
			if len(b.Path) > len(a.Path) {
				desc = b.Desc
			}
			k := desc + "|" + a.Where + "|" + b.Where
			if seen[k] {
				continue
			}
			seen[k] = true
			out = append(out, RaceConflict{Desc: desc, A: a.Where, B: b.Where, FnA: a.Fn, FnB: b.Fn, WriteA: a.Write, WriteB: b.Write})
		}
	}
	sort.Slice(out, func(i, j int) bool {
		if out[i].Desc != out[j].Desc {
			return out[i].Desc < out[j].Desc
		}
		return out[i].A+out[i].B < out[j].A+out[j].B
	})
	return out
}

func (m *Machine) recordRaceAssert(label string, cs []RaceConflict) {
	m.asserts = append(m.asserts, &AssertRec{Label: label, Cond: smtFalse(), PC: append([]*smt.Term(nil), m.pc...),
		Draws: append([]string(nil), m.draws...), Races: cs})
}

// recordRaceOK records the (trivially true) obligation that keeps the label reachable when there is no candidate.
func (m *Machine) recordRaceOK(label string) {
	m.asserts = append(m.asserts, &AssertRec{Label: label, Cond: smtTrue(), PC: append([]*smt.Term(nil), m.pc...),
		Draws: append([]string(nil), m.draws...)})
	m.htrace = append(m.htrace, "assert "+label)
}

// raceTouch records an access of the whole object at the position of the harness call.
func (m *Machine) raceTouch(p *Ptr, write bool) {
	r := &m.race
	c, path := p.Cell, p.Path
	for c.alias != nil {
		path = append(append([]int(nil), c.alias.Path...), path...)
		c = c.alias.Cell
	}
	if c.ID > r.mark {
		return
	}
	where, fn := "?", ""
	if m.curSite != nil {
		pos := m.P.Fset.Position(m.curSite.Pos())
		where = fmt.Sprintf("%s:%d", pos.Filename, pos.Line)
		if m.curSite.Parent() != nil {
			fn = m.curSite.Parent().String()
		}
	}
	desc := "whole record"
	if c.T != nil {
		desc = types.TypeString(c.T, func(p *types.Package) string { return p.Name() }) + " (whole record)"
	}
	r.acc = append(r.acc, raceAccess{Region: r.region, Cell: c.ID, Loc: cellLoc(c), Path: append([]int(nil), path...), Write: write,
		Locks: m.raceLocks(), Where: where, Desc: desc, Fn: fn})
}
