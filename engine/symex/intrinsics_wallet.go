package symex

import (
	"encoding/base64"

	"verif/engine/smt"

	"golang.org/x/tools/go/ssa"
)

// Intrinsics needed by the wallet-adapter harnesses (harness/lnd/wallet_c08_c03.go,
// harness/clightning/wallet_c08_c03.go).  Contract-level models of the standard library:
//
//   - bytes.Buffer used as an append-only sink (new(bytes.Buffer); Write*; Bytes/Len/String): the
//     buffer's first field (buf []byte) holds everything written so far; nothing is ever read from
//     the buffer through Read*, so off stays 0 and Bytes() is the whole content.
//   - base64.StdEncoding.EncodeToString: an injective uninterpreted function of the bytes (the
//     decoder is the inverse on encodings), exact on constants.

func bufferPtr(m *Machine, v Value) *Ptr {
	p, _ := v.(*Ptr)
	if p == nil {
		m.end("panic", "nil *bytes.Buffer receiver")
	}
	if _, ok := p.load().(*StructV); !ok {
		panic(unsupported("bytes.Buffer that is not a plain struct value"))
	}
	return p
}

func (m *Machine) bufferAppend(b *Ptr, pt *smt.Term, pn int) {
	cur, _ := b.sub(0).load().(*SliceV)
	ct, cn := m.sliceBytesTerm(cur)
	switch {
	case pn == 0:
		return
	case cn == 0:
		b.sub(0).store(m.bytesValue(pt, pn))
	default:
		n := -1
		if cn >= 0 && pn >= 0 {
			n = cn + pn
		}
		b.sub(0).store(m.bytesValue(smt.StrConcat(ct, pt), n))
	}
}

func lenTerm(t *smt.Term, n int) *smt.Term {
	if n >= 0 {
		return smt.BVC(64, uint64(n))
	}
	return smt.Int2BV(64, smt.StrLen(t))
}

func init() {
	I := intrinsics

	I["(*bytes.Buffer).Write"] = func(m *Machine, fn *ssa.Function, args []Value) Value {
		b := bufferPtr(m, args[0])
		pt, pn := m.sliceBytesTerm(args[1])
		m.bufferAppend(b, pt, pn)
		return TupleV{lenTerm(pt, pn), &IfaceV{}}
	}
	I["(*bytes.Buffer).WriteString"] = func(m *Machine, fn *ssa.Function, args []Value) Value {
		b := bufferPtr(m, args[0])
		s := strArg(args[1])
		n := -1
		if s.IsConst() {
			n = len(s.S)
		}
		m.bufferAppend(b, s, n)
		return TupleV{lenTerm(s, n), &IfaceV{}}
	}
	I["(*bytes.Buffer).WriteByte"] = func(m *Machine, fn *ssa.Function, args []Value) Value {
		b := bufferPtr(m, args[0])
		c := args[1].(*smt.Term)
		if !c.IsConst() {
			panic(unsupported("bytes.Buffer.WriteByte of a symbolic byte"))
		}
		m.bufferAppend(b, smt.StrC(string([]byte{byte(c.U64())})), 1)
		return &IfaceV{}
	}
	I["(*bytes.Buffer).Bytes"] = func(m *Machine, fn *ssa.Function, args []Value) Value {
		b := bufferPtr(m, args[0])
		cur, _ := b.sub(0).load().(*SliceV)
		if cur == nil {
			return (*SliceV)(nil)
		}
		return cur
	}
	I["(*bytes.Buffer).Len"] = func(m *Machine, fn *ssa.Function, args []Value) Value {
		b := bufferPtr(m, args[0])
		cur, _ := b.sub(0).load().(*SliceV)
		t, n := m.sliceBytesTerm(cur)
		return lenTerm(t, n)
	}
	I["(*bytes.Buffer).String"] = func(m *Machine, fn *ssa.Function, args []Value) Value {
		if p, _ := args[0].(*Ptr); p == nil {
			return smt.StrC("<nil>")
		}
		b := bufferPtr(m, args[0])
		cur, _ := b.sub(0).load().(*SliceV)
		t, _ := m.sliceBytesTerm(cur)
		return t
	}

	// base64.StdEncoding.EncodeToString(b) / DecodeString(s): injective encoder, decoder inverse on
	// encodings (b64dec(b64enc(b)) = b); any other string either fails to decode or decodes to
	// arbitrary bytes.
	I["(*encoding/base64.Encoding).EncodeToString"] = func(m *Machine, fn *ssa.Function, args []Value) Value {
		t, _ := m.sliceBytesTerm(args[1])
		if t.IsConst() {
			return smt.StrC(base64.StdEncoding.EncodeToString([]byte(t.S)))
		}
		e := smt.UF("b64enc", smt.Str, t)
		smt.AddAxiom(smt.Eq(smt.UF("b64dec", smt.Str, e), t))
		smt.AddAxiom(smt.UF("b64ok", smt.Bool, e))
		return e
	}
	I["(*encoding/base64.Encoding).DecodeString"] = func(m *Machine, fn *ssa.Function, args []Value) Value {
		s := strArg(args[1])
		if s.IsConst() {
			d, err := base64.StdEncoding.DecodeString(s.S)
			if err != nil {
				return TupleV{(*SliceV)(nil), m.newError(smt.StrC("illegal base64 data"), nil)}
			}
			return TupleV{m.stringToBytes(smt.StrC(string(d))), &IfaceV{}}
		}
		if s.Op == "uf" && s.Name == "b64enc" {
			return TupleV{m.bytesValue(s.Args[0], -1), &IfaceV{}}
		}
		if m.branch(smt.UF("b64ok", smt.Bool, s), nil) {
			return TupleV{m.bytesValue(smt.UF("b64dec", smt.Str, s), -1), &IfaceV{}}
		}
		return TupleV{(*SliceV)(nil), m.newError(smt.StrC("illegal base64 data"), nil)}
	}
}

// vwUFBytes(name, n, args...) (harness/lnd, harness/clightning wallet_c08_c03.go): an uninterpreted
// function of the arguments whose value is a byte string of the fixed length n (serialisations,
// hashes).  Natively the harness body renders the arguments deterministically; it is only ever
// used on the symbolic side (inside Override targets).
func init() {
	uf := func(m *Machine, fn *ssa.Function, args []Value) Value {
		name := "h:" + constStr(args[0], "uf name")
		n := constInt(args[1], "vwUFBytes length")
		t := m.ufOver(name, smt.Str, variadic(args[2])...)
		smt.AddAxiom(smt.Eq(smt.StrLen(t), smt.IntC(int64(n))))
		return m.bytesValue(t, n)
	}
	intrinsics[ModPath+"/lnd.vwUFBytes"] = uf
	intrinsics[ModPath+"/clightning.vwUFBytes"] = uf
}
