// Package symex: path-forking symbolic interpreter over go/ssa.
//
// Exploration is by decision-prefix re-execution: every path starts from a fresh heap,
// follows a recorded prefix of branch decisions and extends it; alternatives are pushed on
// a work list.  Pointers, dynamic types and lengths are concrete on a path; scalar leaves
// are SMT terms.
package symex

import (
	"fmt"
	"go/types"
	"strings"

	"verif/engine/smt"

	"golang.org/x/tools/go/ssa"
)

type Value interface{}

// Cell is a mutable memory location holding an (immutable) value tree.
type Cell struct {
	V     Value
	ID    int
	Name  string
	T     types.Type
	alias *Ptr // set for view cells over an array embedded in another cell
	// Global: the cell of a package-level variable (identified by Name: its id depends on when the
	// package was first touched on the path)
	Global bool
}

// OpaqueObj is an object of a foreign type modelled by one term (keys, signatures ...).
type OpaqueObj struct {
	Kind string
	T    *smt.Term
	Aux  Value
}

// Ptr points into a cell.  The nil pointer is (*Ptr)(nil).
type Ptr struct {
	Cell *Cell
	Path []int
}

type StructV struct{ F []Value }
type ArrayV struct{ E []Value }

// OpaqueBytes is a byte sequence whose content is one String-sorted term. N is the
// concrete length, or -1 when unknown.
type OpaqueBytes struct {
	T *smt.Term
	N int
}

// SliceV: backing cell holds an ArrayV (Off/Len/Cap apply) or an OpaqueBytes (whole).
type SliceV struct {
	Arr           *Cell
	Off, Len, Cap int
}

type MapObj struct {
	Keys []Value
	Vals []Value
	ID   int
}
type MapV struct{ M *MapObj }

type IfaceV struct {
	T types.Type // nil => nil interface
	V Value
}

type FuncV struct {
	Fn   *ssa.Function
	Bind []Value
	// host-implemented function value (used for callbacks made by intrinsics)
	Host func(m *Machine, args []Value) Value
	Name string
}

type ChanObj struct {
	ID     int
	Kind   string // "", "ticker", "ctxdone", "timer"
	Closed bool
	Ctx    *CtxObj
	Buf    []Value
}
type ChanV struct{ C *ChanObj }

type CtxObj struct {
	ID        int
	Cancelled bool
	HasDL     bool // WithTimeout/WithDeadline: may fire at any time
	Done      *ChanObj
}

type TupleV []Value

// mapIter is the state of a range loop.
type mapIter struct {
	keys, vals []Value
	i          int
	str        *smt.Term
}

func isNilPtr(v Value) bool { p, ok := v.(*Ptr); return ok && p == nil }

func under(t types.Type) types.Type { return t.Underlying() }

func sortOf(t types.Type) (smt.Sort, bool) {
	switch u := under(t).(type) {
	case *types.Basic:
		switch u.Kind() {
		case types.Bool, types.UntypedBool:
			return smt.Bool, true
		case types.Int8, types.Uint8:
			return smt.BV(8), true
		case types.Int16, types.Uint16:
			return smt.BV(16), true
		case types.Int32, types.Uint32, types.UntypedRune:
			return smt.BV(32), true
		case types.Int, types.Uint, types.Int64, types.Uint64, types.Uintptr, types.UntypedInt:
			return smt.BV(64), true
		case types.String, types.UntypedString:
			return smt.Str, true
		case types.Float64, types.UntypedFloat, types.Float32:
			return smt.F64, true
		}
	}
	return smt.Sort{}, false
}

func isSigned(t types.Type) bool {
	if b, ok := under(t).(*types.Basic); ok {
		return b.Info()&types.IsInteger != 0 && b.Info()&types.IsUnsigned == 0
	}
	return false
}

func isByteType(t types.Type) bool {
	b, ok := under(t).(*types.Basic)
	return ok && (b.Kind() == types.Uint8 || b.Kind() == types.Int8)
}

func zeroTerm(s smt.Sort) *smt.Term {
	switch s.K {
	case smt.KBool:
		return smt.False
	case smt.KBV:
		return smt.BVC(s.W, 0)
	case smt.KStr:
		return smt.StrC("")
	case smt.KF64:
		return smt.FPConstBits(0)
	}
	return smt.IntC(0)
}

// Zero builds the zero value of a type.
func Zero(t types.Type) Value {
	if s, ok := sortOf(t); ok {
		return zeroTerm(s)
	}
	switch u := under(t).(type) {
	case *types.Pointer:
		return (*Ptr)(nil)
	case *types.Struct:
		f := make([]Value, u.NumFields())
		for i := range f {
			f[i] = Zero(u.Field(i).Type())
		}
		return &StructV{F: f}
	case *types.Array:
		n := int(u.Len())
		e := make([]Value, n)
		if n > 0 {
			z := Zero(u.Elem())
			for i := range e {
				e[i] = z
			}
		}
		return &ArrayV{E: e}
	case *types.Slice:
		return (*SliceV)(nil)
	case *types.Map:
		return &MapV{}
	case *types.Interface:
		return &IfaceV{}
	case *types.Signature:
		return (*FuncV)(nil)
	case *types.Chan:
		return &ChanV{}
	case *types.Tuple:
		tv := make(TupleV, u.Len())
		for i := range tv {
			tv[i] = Zero(u.At(i).Type())
		}
		return tv
	case *types.Basic:
		if u.Kind() == types.UnsafePointer {
			return (*Ptr)(nil)
		}
		if u.Kind() == types.UntypedNil {
			return nil
		}
	}
	panic(unsupported("zero value of " + t.String()))
}

type unsupportedErr struct{ msg string }

func unsupported(msg string) unsupportedErr { return unsupportedErr{msg} }

// get navigates a value tree.
func getPath(v Value, path []int) Value {
	for _, i := range path {
		switch x := v.(type) {
		case *StructV:
			v = x.F[i]
		case *ArrayV:
			if i < 0 || i >= len(x.E) {
				panic(unsupported(fmt.Sprintf("array index %d out of range %d in path", i, len(x.E))))
			}
			v = x.E[i]
		case *OpaqueBytes:
			v = opaqueAt(x, i)
		default:
			panic(unsupported(fmt.Sprintf("path into %T", v)))
		}
	}
	return v
}

func opaqueAt(o *OpaqueBytes, i int) *smt.Term {
	return smt.Int2BV(8, smt.StrToCode(smt.StrAt(o.T, smt.IntC(int64(i)))))
}

func setPath(v Value, path []int, nv Value) Value {
	if len(path) == 0 {
		return nv
	}
	i := path[0]
	switch x := v.(type) {
	case *StructV:
		f := append([]Value(nil), x.F...)
		f[i] = setPath(f[i], path[1:], nv)
		return &StructV{F: f}
	case *ArrayV:
		e := append([]Value(nil), x.E...)
		e[i] = setPath(e[i], path[1:], nv)
		return &ArrayV{E: e}
	case *OpaqueBytes:
		if x.N >= 0 && x.N <= 64 {
			// explode into cells
			e := make([]Value, x.N)
			for k := range e {
				e[k] = opaqueAt(x, k)
			}
			return setPath(&ArrayV{E: e}, path, nv)
		}
	}
	panic(unsupported(fmt.Sprintf("store path into %T", v)))
}

func (p *Ptr) load() Value { return getPath(p.Cell.V, p.Path) }
func (p *Ptr) store(v Value) {
	p.Cell.V = setPath(p.Cell.V, p.Path, v)
}
func (p *Ptr) sub(i int) *Ptr {
	np := make([]int, len(p.Path)+1)
	copy(np, p.Path)
	np[len(p.Path)] = i
	return &Ptr{Cell: p.Cell, Path: np}
}

func samePtr(a, b *Ptr) bool {
	if a == nil || b == nil {
		return a == nil && b == nil
	}
	if a.Cell != b.Cell || len(a.Path) != len(b.Path) {
		return false
	}
	for i := range a.Path {
		if a.Path[i] != b.Path[i] {
			return false
		}
	}
	return true
}

// bytesTerm flattens a byte sequence value to one String term (each byte one char).
func bytesOfArray(a *ArrayV) (*smt.Term, bool) {
	parts := make([]*smt.Term, 0, len(a.E))
	allConst := true
	var sb strings.Builder
	for _, e := range a.E {
		t, ok := e.(*smt.Term)
		if !ok || t.Sort.K != smt.KBV || t.Sort.W != 8 {
			return nil, false
		}
		if t.IsConst() {
			sb.WriteByte(byte(t.U64()))
		} else {
			allConst = false
		}
		parts = append(parts, t)
	}
	if allConst {
		return smt.StrC(sb.String()), true
	}
	// symbolic cells: use UF from code (rare)
	ps := make([]*smt.Term, len(parts))
	for i, t := range parts {
		if t.IsConst() {
			ps[i] = smt.StrC(string([]byte{byte(t.U64())}))
		} else {
			ps[i] = smt.UF("byte2str", smt.Str, t)
			smt.AddAxiom(smt.Eq(smt.Int2BV(8, smt.StrToCode(ps[i])), t))
			smt.AddAxiom(smt.Eq(smt.StrLen(ps[i]), smt.IntC(1)))
		}
	}
	return smt.StrConcat(ps...), true
}

// describe renders a value for samples / effect logs.
func describe(v Value) string {
	switch x := v.(type) {
	case nil:
		return "nil"
	case *smt.Term:
		return x.String()
	case *Ptr:
		if x == nil {
			return "nil"
		}
		return fmt.Sprintf("&cell%d%v", x.Cell.ID, x.Path)
	case *StructV:
		ps := make([]string, len(x.F))
		for i, f := range x.F {
			ps[i] = describe(f)
		}
		return "{" + strings.Join(ps, ", ") + "}"
	case *ArrayV:
		if t, ok := bytesOfArray(x); ok && len(x.E) > 0 {
			return "bytes:" + t.String()
		}
		ps := make([]string, len(x.E))
		for i, f := range x.E {
			ps[i] = describe(f)
		}
		return "[" + strings.Join(ps, ", ") + "]"
	case *OpaqueBytes:
		return fmt.Sprintf("bytes[%d]:%s", x.N, x.T)
	case *SliceV:
		if x == nil {
			return "nil"
		}
		if ob, ok := x.Arr.V.(*OpaqueBytes); ok {
			return describe(ob)
		}
		a := x.Arr.V.(*ArrayV)
		return describe(&ArrayV{E: a.E[x.Off : x.Off+x.Len]})
	case *MapV:
		if x.M == nil {
			return "nilmap"
		}
		return fmt.Sprintf("map%d(len=%d)", x.M.ID, len(x.M.Keys))
	case *IfaceV:
		if x.T == nil {
			return "nil"
		}
		return fmt.Sprintf("(%s)%s", x.T, describe(x.V))
	case *FuncV:
		if x == nil {
			return "nil"
		}
		if x.Fn != nil {
			return "func:" + x.Fn.String()
		}
		return "func:" + x.Name
	case *ChanV:
		return "chan"
	case TupleV:
		ps := make([]string, len(x))
		for i, f := range x {
			ps[i] = describe(f)
		}
		return "(" + strings.Join(ps, ", ") + ")"
	}
	return fmt.Sprintf("%T", v)
}
