package symex

import (
	"go/types"

	"verif/engine/smt"

	"golang.org/x/tools/go/ssa"
)

// Route-builder harnesses (C24/C04/C05: clightning, lnd, lightning).
//
// strings.ReplaceAll refinement.  The base intrinsic emits one str.replace_all over the whole
// argument; cvc5 does not terminate on such a term when the argument is a concatenation with
// symbolic parts (lightning.Scid.ClnStyle/LndStyle on "A:B:C" built from symbolic parts).  When the
// pattern is a single constant character no occurrence can span two parts of a concatenation, hence
//
//	replace_all(p1 ++ … ++ pn, c, t) = replace_all(p1, c, t) ++ … ++ replace_all(pn, c, t)
//
// is an equivalence (not an abstraction); constant parts fold, and str.from_int parts (decimal
// digits only, or "") are unchanged when c is not a decimal digit.  Every other shape falls through
// to the base encoding.
func init() {
	base := intrinsics["strings.ReplaceAll"]
	intrinsics["strings.ReplaceAll"] = func(m *Machine, fn *ssa.Function, args []Value) Value {
		a, ok0 := args[0].(*smt.Term)
		from, ok1 := args[1].(*smt.Term)
		to, ok2 := args[2].(*smt.Term)
		if !ok0 || !ok1 || !ok2 || !from.IsConst() || !to.IsConst() || len(from.S) != 1 {
			return base(m, fn, args)
		}
		return replaceAllChar(a, from, to)
	}
}

func replaceAllChar(a, from, to *smt.Term) *smt.Term {
	switch {
	case a.IsConst():
		return smt.StrReplaceAll(a, from, to)
	case a.Op == "str.++":
		parts := make([]*smt.Term, len(a.Args))
		for i, p := range a.Args {
			parts[i] = replaceAllChar(p, from, to)
		}
		return smt.StrConcat(parts...)
	case a.Op == "str.from_int" && (from.S[0] < '0' || from.S[0] > '9'):
		return a
	}
	return smt.StrReplaceAll(a, from, to)
}

// Exact models of trivial accessors of foreign value types whose fields are unexported or whose
// package is loaded from export data only (no body available):
//
//	glightning.AmountFromMSat(x) = Amount{msat: x};  Amount.MSat() = a.msat
//	(*lnrpc.PayReq).GetDestination / GetCltvExpiry / GetNumSatoshis / GetPaymentHash and
//	(*lnrpc.Channel).GetChanId / GetRemotePubkey: protobuf getters, "zero value on a nil
//	receiver, the field otherwise" (protoc-gen-go contract).
func init() {
	const gl = "github.com/elementsproject/glightning/glightning"
	intrinsics[gl+".AmountFromMSat"] = func(m *Machine, fn *ssa.Function, args []Value) Value {
		return &StructV{F: []Value{args[0]}}
	}
	intrinsics["("+gl+".Amount).MSat"] = func(m *Machine, fn *ssa.Function, args []Value) Value {
		return args[0].(*StructV).F[0]
	}
	const lnrpc = "github.com/lightningnetwork/lnd/lnrpc"
	for _, g := range [][2]string{
		{"PayReq", "Destination"}, {"PayReq", "CltvExpiry"}, {"PayReq", "NumSatoshis"}, {"PayReq", "PaymentHash"},
		{"Channel", "ChanId"}, {"Channel", "RemotePubkey"},
	} {
		field := g[1]
		intrinsics["(*"+lnrpc+"."+g[0]+").Get"+field] = func(m *Machine, fn *ssa.Function, args []Value) Value {
			res := fn.Signature.Results().At(0).Type()
			p, _ := args[0].(*Ptr)
			if p == nil {
				return Zero(res)
			}
			st := under(fn.Signature.Recv().Type().(*types.Pointer).Elem()).(*types.Struct)
			for i := 0; i < st.NumFields(); i++ {
				if st.Field(i).Name() == field {
					return p.sub(i).load()
				}
			}
			panic(unsupported("protobuf getter: no field " + field))
		}
	}
}
