package symex

import (
	"verif/engine/smt"

	"golang.org/x/tools/go/ssa"
)

// Route-builder harnesses (C24/C04/C05: clightning, lnd, lightning).
//
// strings.ReplaceAll refinement.  The base intrinsic emits one str.replace_all over the whole
// argument; cvc5 does not terminate on such a term when the argument is a concatenation with
// symbolic parts (lightning.Scid.ClnStyle/LndStyle on "A:B:C" built from symbolic parts).  When the
// pattern is a single constant character no occurrence can span two parts of a concatenation, hence
//
//	replace_all(p1 ++ … ++ pn, c, t) = replace_all(p1, c, t) ++ … ++ replace_all(pn, c, t)
//
// is an equivalence (not an abstraction); constant parts fold, and str.from_int parts (decimal
// digits only, or "") are unchanged when c is not a decimal digit.  Every other shape falls through
// to the base encoding.
func init() {
	base := intrinsics["strings.ReplaceAll"]
	intrinsics["strings.ReplaceAll"] = func(m *Machine, fn *ssa.Function, args []Value) Value {
		a, ok0 := args[0].(*smt.Term)
		from, ok1 := args[1].(*smt.Term)
		to, ok2 := args[2].(*smt.Term)
		if !ok0 || !ok1 || !ok2 || !from.IsConst() || !to.IsConst() || len(from.S) != 1 {
			return base(m, fn, args)
		}
		return replaceAllChar(a, from, to)
	}
}

func replaceAllChar(a, from, to *smt.Term) *smt.Term {
	switch {
	case a.IsConst():
		return smt.StrReplaceAll(a, from, to)
	case a.Op == "str.++":
		parts := make([]*smt.Term, len(a.Args))
		for i, p := range a.Args {
			parts[i] = replaceAllChar(p, from, to)
		}
		return smt.StrConcat(parts...)
	case a.Op == "str.from_int" && (from.S[0] < '0' || from.S[0] > '9'):
		return a
	}
	return smt.StrReplaceAll(a, from, to)
}
