package symex

import (
	"reflect"
	"encoding/hex"
	"encoding/json"
	"fmt"
	"go/types"
	"strconv"
	"strings"

	"verif/engine/smt"

	"golang.org/x/tools/go/ssa"
)

type intrinsic func(m *Machine, fn *ssa.Function, args []Value) Value

// marker dynamic types for modelled interface values
var (
	errMarkerType = types.NewPointer(types.NewNamed(types.NewTypeName(0, nil, "verif.error", nil), types.NewStruct(nil, nil), nil))
	ctxMarkerType = types.NewPointer(types.NewNamed(types.NewTypeName(0, nil, "verif.context", nil), types.NewStruct(nil, nil), nil))
)

func isMarker(t types.Type) bool { return t == errMarkerType || t == ctxMarkerType }

func markerImplements(t types.Type, it *types.Interface) bool {
	var have map[string]bool
	switch t {
	case errMarkerType:
		have = map[string]bool{"Error": true, "Unwrap": true}
	case ctxMarkerType:
		have = map[string]bool{"Deadline": true, "Done": true, "Err": true, "Value": true}
	}
	for i := 0; i < it.NumMethods(); i++ {
		if !have[it.Method(i).Name()] {
			return false
		}
	}
	return true
}

// error object layout: StructV{ msg Term, wrapped Value }
func (m *Machine) newError(msg *smt.Term, wrapped Value) *IfaceV {
	if wrapped == nil {
		wrapped = &IfaceV{}
	}
	c := m.newCell(&StructV{F: []Value{msg, wrapped}}, nil, "error")
	return &IfaceV{T: errMarkerType, V: &Ptr{Cell: c}}
}

func (m *Machine) markerInvoke(recv *IfaceV, method *types.Func, args []Value, site ssa.Instruction) Value {
	switch recv.T {
	case errMarkerType:
		st := recv.V.(*Ptr).load().(*StructV)
		switch method.Name() {
		case "Error":
			return st.F[0]
		case "Unwrap":
			if len(st.F) > 1 {
				return st.F[1]
			}
			return &IfaceV{}
		}
	case ctxMarkerType:
		ctx := recv.V.(*CtxObj)
		switch method.Name() {
		case "Done":
			return &ChanV{C: ctx.Done}
		case "Err":
			if ctx.Cancelled {
				return m.newError(smt.StrC("context canceled"), nil)
			}
			if ctx.HasDL {
				if m.deadlineControlled() {
					if m.deadlineExpired() {
						return m.newError(smt.StrC("context deadline exceeded"), nil)
					}
					return &IfaceV{}
				}
				if m.chooseAt(2, site) == 1 {
					return m.newError(smt.StrC("context deadline exceeded"), nil)
				}
			}
			return &IfaceV{}
		case "Value":
			return &IfaceV{}
		}
	}
	panic(unsupported("marker method " + method.Name()))
}

// errorText returns the message term of an error value (calling Error() if needed).
func (m *Machine) errorText(e *IfaceV) *smt.Term {
	if e.T == nil {
		return smt.StrC("<nil>")
	}
	if e.T == errMarkerType {
		return e.V.(*Ptr).load().(*StructV).F[0].(*smt.Term)
	}
	fn := m.lookupMethodByName(e.T, "Error")
	if fn == nil {
		return smt.StrC("<error?>")
	}
	return m.callFunction(fn, []Value{e.V}, nil, nil).(*smt.Term)
}

func (m *Machine) lookupMethodByName(t types.Type, name string) *ssa.Function {
	ms := m.P.Prog.MethodSets.MethodSet(t)
	for i := 0; i < ms.Len(); i++ {
		sel := ms.At(i)
		if sel.Obj().Name() == name {
			return m.P.Prog.MethodValue(sel)
		}
	}
	return nil
}

// ---------- type-directed fresh values ----------

// FreshValue builds an arbitrary value of type t with symbolic leaves.
func (m *Machine) FreshValue(t types.Type, name string, depth int) Value {
	if s, ok := sortOf(t); ok {
		return m.Fresh(name, s)
	}
	switch u := under(t).(type) {
	case *types.Pointer:
		if depth <= 0 {
			return (*Ptr)(nil)
		}
		if isOpaqueObjType(u.Elem()) {
			return m.newOpaqueObj(opaqueKind(u.Elem()), m.Fresh(name, smt.Str))
		}
		if m.choose(2) == 0 {
			return (*Ptr)(nil)
		}
		return &Ptr{Cell: m.newCell(m.FreshValue(u.Elem(), name, depth-1), u.Elem(), name)}
	case *types.Struct:
		f := make([]Value, u.NumFields())
		for i := range f {
			f[i] = m.FreshValue(u.Field(i).Type(), name+"."+u.Field(i).Name(), depth)
		}
		return &StructV{F: f}
	case *types.Array:
		if isByteType(u.Elem()) {
			return &OpaqueBytes{T: m.freshBytes(name, int(u.Len())), N: int(u.Len())}
		}
		e := make([]Value, u.Len())
		for i := range e {
			e[i] = m.FreshValue(u.Elem(), fmt.Sprintf("%s[%d]", name, i), depth)
		}
		return &ArrayV{E: e}
	case *types.Slice:
		if isByteType(u.Elem()) {
			c := m.newCell(&OpaqueBytes{T: m.Fresh(name, smt.Str), N: -1}, nil, name)
			return &SliceV{Arr: c, Len: -1, Cap: -1}
		}
		return (*SliceV)(nil)
	case *types.Interface:
		if isErrorType(t) {
			if m.choose(2) == 0 {
				return &IfaceV{}
			}
			return m.newError(m.Fresh(name+".msg", smt.Str), nil)
		}
		return &IfaceV{}
	case *types.Map:
		return &MapV{}
	case *types.Signature:
		return (*FuncV)(nil)
	case *types.Chan:
		return &ChanV{}
	case *types.Tuple:
		tv := make(TupleV, u.Len())
		for i := range tv {
			tv[i] = m.FreshValue(u.At(i).Type(), fmt.Sprintf("%s.%d", name, i), depth)
		}
		return tv
	}
	panic(unsupported("fresh value of " + t.String()))
}

func (m *Machine) freshBytes(name string, n int) *smt.Term {
	t := m.Fresh(name, smt.Str)
	if n >= 0 {
		// a path fact, not a global axiom: the same name may be drawn with another length on another path
		m.pc = append(m.pc, smt.Eq(smt.StrLen(t), smt.IntC(int64(n))))
	}
	return t
}

func isErrorType(t types.Type) bool {
	return types.Identical(t, types.Universe.Lookup("error").Type())
}

func isOpaqueObjType(t types.Type) bool { return opaqueKind(t) != "" }

func opaqueKind(t types.Type) string {
	n, ok := t.(*types.Named)
	if !ok || n.Obj().Pkg() == nil {
		return ""
	}
	switch n.Obj().Pkg().Path() + "." + n.Obj().Name() {
	case "github.com/decred/dcrd/dcrec/secp256k1/v4.PrivateKey", "github.com/btcsuite/btcd/btcec/v2.PrivateKey":
		return "privkey"
	case "github.com/decred/dcrd/dcrec/secp256k1/v4.PublicKey", "github.com/btcsuite/btcd/btcec/v2.PublicKey":
		return "pubkey"
	case "github.com/decred/dcrd/dcrec/secp256k1/v4/ecdsa.Signature", "github.com/btcsuite/btcd/btcec/v2/ecdsa.Signature":
		return "signature"
	case "regexp.Regexp":
		return "regexp"
	}
	return ""
}

func (m *Machine) newOpaqueObj(kind string, t *smt.Term) *Ptr {
	return &Ptr{Cell: m.newCell(&OpaqueObj{Kind: kind, T: t}, nil, kind)}
}

func opaqueOf(v Value) *OpaqueObj {
	if o, ok := v.(*OpaqueObj); ok {
		return o
	}
	p, ok := v.(*Ptr)
	if !ok || p == nil {
		return nil
	}
	o, _ := p.Cell.V.(*OpaqueObj)
	return o
}

// flatten collects scalar leaves reachable from a value (for UF arguments / taint).
func (m *Machine) flatten(v Value, depth int, out *[]*smt.Term, seen map[*Cell]bool) {
	switch x := v.(type) {
	case *smt.Term:
		*out = append(*out, x)
	case *Ptr:
		if x == nil || depth <= 0 || seen[x.Cell] {
			return
		}
		seen[x.Cell] = true
		m.flatten(x.load(), depth-1, out, seen)
	case *StructV:
		for _, f := range x.F {
			m.flatten(f, depth, out, seen)
		}
	case *ArrayV:
		if t, ok := bytesOfArray(x); ok {
			*out = append(*out, t)
			return
		}
		for _, f := range x.E {
			m.flatten(f, depth, out, seen)
		}
	case *OpaqueBytes:
		*out = append(*out, x.T)
	case *OpaqueObj:
		*out = append(*out, x.T)
	case *SliceV:
		if x == nil {
			return
		}
		if ob, ok := x.Arr.V.(*OpaqueBytes); ok {
			*out = append(*out, ob.T)
			return
		}
		a := x.Arr.V.(*ArrayV)
		m.flatten(&ArrayV{E: a.E[x.Off : x.Off+x.Len]}, depth, out, seen)
	case *IfaceV:
		if x.T == nil {
			return
		}
		if x.T == errMarkerType {
			*out = append(*out, m.errorText(x))
			return
		}
		if isMarker(x.T) {
			return
		}
		// Stringer / error: use the text
		if fn := m.lookupMethodByName(x.T, "Error"); fn != nil && depth > 0 {
			*out = append(*out, m.callFunction(fn, []Value{x.V}, nil, nil).(*smt.Term))
			return
		}
		if fn := m.lookupMethodByName(x.T, "String"); fn != nil && depth > 0 && m.P.shouldExec(fn) {
			*out = append(*out, m.callFunction(fn, []Value{x.V}, nil, nil).(*smt.Term))
			return
		}
		m.flatten(x.V, depth, out, seen)
	case TupleV:
		for _, f := range x {
			m.flatten(f, depth, out, seen)
		}
	case *MapV:
		if x.M != nil {
			for i := range x.M.Keys {
				m.flatten(x.M.Keys[i], depth, out, seen)
				m.flatten(x.M.Vals[i], depth, out, seen)
			}
		}
	}
}

// ufOver builds an uninterpreted function application over arbitrary argument values.
func (m *Machine) ufOver(name string, res smt.Sort, args ...Value) *smt.Term {
	var ts []*smt.Term
	seen := map[*Cell]bool{}
	for _, a := range args {
		m.flatten(a, 4, &ts, seen)
	}
	var sig strings.Builder
	sig.WriteString(name)
	for _, t := range ts {
		switch t.Sort.K {
		case smt.KBool:
			sig.WriteString("_b")
		case smt.KBV:
			fmt.Fprintf(&sig, "_%d", t.Sort.W)
		case smt.KStr:
			sig.WriteString("_s")
		case smt.KF64:
			sig.WriteString("_f")
		case smt.KInt:
			sig.WriteString("_i")
		}
	}
	if len(ts) == 0 {
		return smt.UF(sig.String()+"_const", res)
	}
	return smt.UF(sig.String(), res, ts...)
}

func (m *Machine) sprintf(format *smt.Term, args []Value) *smt.Term {
	if len(args) == 0 {
		return format
	}
	allConst := format.IsConst()
	var cargs []interface{}
	for _, a := range args {
		iv, ok := a.(*IfaceV)
		if !ok {
			allConst = false
			break
		}
		t, ok := iv.V.(*smt.Term)
		if iv.T != nil && ok && t.IsConst() && !isMarker(iv.T) && m.lookupMethodByName(iv.T, "String") == nil && m.lookupMethodByName(iv.T, "Error") == nil {
			switch t.Sort.K {
			case smt.KStr:
				cargs = append(cargs, t.S)
			case smt.KBool:
				cargs = append(cargs, t.B)
			case smt.KBV:
				if isSigned(iv.T) {
					cargs = append(cargs, t.SignedVal().Int64())
				} else {
					cargs = append(cargs, t.U64())
				}
			default:
				allConst = false
			}
		} else {
			allConst = false
		}
	}
	if allConst {
		return smt.StrC(fmt.Sprintf(format.S, cargs...))
	}
	fname := "sprintf"
	if format.IsConst() {
		fname = "sprintf<" + format.S + ">"
		return m.ufOver(fname, smt.Str, TupleV(args))
	}
	return m.ufOver(fname, smt.Str, format, TupleV(args))
}

func variadic(v Value) []Value {
	s, _ := v.(*SliceV)
	if s == nil {
		return nil
	}
	a := s.Arr.V.(*ArrayV)
	return a.E[s.Off : s.Off+s.Len]
}

func (m *Machine) bytesValue(t *smt.Term, n int) *SliceV {
	if t.IsConst() {
		return m.stringToBytes(t)
	}
	c := m.newCell(&OpaqueBytes{T: t, N: n}, nil, "bytes")
	return &SliceV{Arr: c, Len: n, Cap: n}
}

func (m *Machine) sliceBytesTerm(v Value) (*smt.Term, int) {
	s, _ := v.(*SliceV)
	if s == nil {
		return smt.StrC(""), 0
	}
	if ob, ok := s.Arr.V.(*OpaqueBytes); ok {
		return ob.T, ob.N
	}
	return m.bytesToString(s), s.Len
}

// hex model: UF pair with round-trip axiom instances.
func (m *Machine) hexEncode(b *smt.Term, n int) *smt.Term {
	if b.IsConst() {
		return smt.StrC(hex.EncodeToString([]byte(b.S)))
	}
	// if b = hexdec(x) produced by a successful decode, encode(decode(x)) is the lower-cased x; keep UF
	e := smt.UF("hexenc", smt.Str, b)
	smt.AddAxiom(smt.Eq(smt.UF("hexdec", smt.Str, e), b))
	smt.AddAxiom(smt.UF("hexok", smt.Bool, e))
	if n >= 0 {
		smt.AddAxiom(smt.Eq(smt.StrLen(e), smt.IntC(int64(2*n))))
	} else {
		smt.AddAxiom(smt.Eq(smt.StrLen(e), smt.IntAdd(smt.StrLen(b), smt.StrLen(b))))
	}
	return e
}

// pcLen returns the length the path condition fixes for the string term t (a draw with a stated
// length), or -1.
func (m *Machine) pcLen(t *smt.Term) int {
	if t.IsConst() {
		return len(t.S)
	}
	l := smt.StrLen(t)
	for _, c := range m.pc {
		if c.Op != "=" || len(c.Args) != 2 {
			continue
		}
		a, b := c.Args[0], c.Args[1]
		if a == l && b.IsConst() && b.Val != nil {
			return int(b.Val.Int64())
		}
		if b == l && a.IsConst() && a.Val != nil {
			return int(a.Val.Int64())
		}
	}
	return -1
}

func (m *Machine) hexDecode(s *smt.Term) (okc *smt.Term, data *smt.Term) {
	if s.IsConst() {
		d, err := hex.DecodeString(s.S)
		if err != nil {
			return smt.False, smt.StrC("")
		}
		return smt.True, smt.StrC(string(d))
	}
	if s.Op == "uf" && s.Name == "hexenc" {
		return smt.True, s.Args[0]
	}
	okc = smt.UF("hexok", smt.Bool, s)
	data = smt.UF("hexdec", smt.Str, s)
	// length law for successful decodes
	smt.AddAxiom(smt.Implies(okc, smt.Eq(smt.StrLen(s), smt.IntAdd(smt.StrLen(data), smt.StrLen(data)))))
	return okc, data
}

var intrinsics = map[string]intrinsic{}

func lookupIntrinsic(fn *ssa.Function) intrinsic {
	if fn.Name() == "init" && fn.Synthetic != "" && fn.Signature.Recv() == nil {
		// initializers of imported packages: globals are initialised lazily per package
		return noop
	}
	name := fn.String()
	if o := fn.Origin(); o != nil {
		name = o.String()
	}
	if in, ok := intrinsics[name]; ok {
		return in
	}
	if pk := fn.Package(); pk != nil {
		p := pk.Pkg.Path()
		if strings.HasSuffix(p, "/zzverif") {
			if in, ok := intrinsics["zzverif."+fn.Name()]; ok {
				return in
			}
			panic(unsupported("zzverif function without intrinsic: " + fn.Name()))
		}
		switch p {
		case "github.com/elementsproject/peerswap/log", "log":
			return noop
		}
	} else if fn.Signature.Recv() != nil {
		// method wrappers of foreign types have no package; name-based lookup already done
	}
	return nil
}

func noop(m *Machine, fn *ssa.Function, args []Value) Value {
	res := fn.Signature.Results()
	if res.Len() == 0 {
		return nil
	}
	if res.Len() == 1 {
		return Zero(res.At(0).Type())
	}
	return Zero(res)
}

func strArg(v Value) *smt.Term { return v.(*smt.Term) }

func constStr(v Value, what string) string {
	t := v.(*smt.Term)
	if !t.IsConst() {
		panic(unsupported(what + " must be a constant string"))
	}
	return t.S
}

func okErr(m *Machine, v Value, okc *smt.Term, msg *smt.Term, site string) Value {
	return nil
}

func init() {
	I := intrinsics
	// ---- zzverif ----
	draw := func(s smt.Sort) intrinsic {
		return func(m *Machine, fn *ssa.Function, args []Value) Value {
			t := m.Fresh(constStr(args[0], "symbol name"), s)
			m.hdraw(strings.TrimPrefix(t.Name, m.Prefix))
			return t
		}
	}
	I["zzverif.Bool"] = draw(smt.Bool)
	I["zzverif.U8"] = draw(smt.BV(8))
	I["zzverif.U16"] = draw(smt.BV(16))
	I["zzverif.U32"] = draw(smt.BV(32))
	I["zzverif.I32"] = draw(smt.BV(32))
	I["zzverif.U64"] = draw(smt.BV(64))
	I["zzverif.I64"] = draw(smt.BV(64))
	I["zzverif.Int"] = draw(smt.BV(64))
	I["zzverif.Str"] = draw(smt.Str)
	I["zzverif.Bytes"] = func(m *Machine, fn *ssa.Function, args []Value) Value {
		n := int(args[1].(*smt.Term).SignedVal().Int64())
		t := m.freshBytes(constStr(args[0], "symbol name"), n)
		m.hdraw(strings.TrimPrefix(t.Name, m.Prefix))
		c := m.newCell(&OpaqueBytes{T: t, N: n}, nil, "zzbytes")
		return &SliceV{Arr: c, Len: n, Cap: n}
	}
	I["zzverif.HexStr"] = func(m *Machine, fn *ssa.Function, args []Value) Value {
		// a hex string encoding n arbitrary bytes
		n := int(args[1].(*smt.Term).SignedVal().Int64())
		t := m.freshBytes(constStr(args[0], "symbol name"), n)
		m.hdraw(strings.TrimPrefix(t.Name, m.Prefix))
		return m.hexEncode(t, n)
	}
	I["zzverif.Assume"] = func(m *Machine, fn *ssa.Function, args []Value) Value {
		m.assume(args[0].(*smt.Term))
		return nil
	}
	I["zzverif.Assert"] = func(m *Machine, fn *ssa.Function, args []Value) Value {
		m.asserts = append(m.asserts, &AssertRec{Label: constStr(args[1], "assert label"), Cond: args[0].(*smt.Term),
			PC: append([]*smt.Term(nil), m.pc...), Draws: append([]string(nil), m.draws...)})
		m.htrace = append(m.htrace, "assert "+constStr(args[1], "assert label"))
		return nil
	}
	I["zzverif.Reach"] = func(m *Machine, fn *ssa.Function, args []Value) Value {
		m.reaches = append(m.reaches, ReachRec{Label: constStr(args[0], "reach label"), PC: append([]*smt.Term(nil), m.pc...)})
		m.htrace = append(m.htrace, "reach "+constStr(args[0], "reach label"))
		return nil
	}
	I["zzverif.Effect"] = func(m *Machine, fn *ssa.Function, args []Value) Value {
		m.effect("h:"+constStr(args[0], "effect name"), variadic(args[1])...)
		m.htrace = append(m.htrace, "effect "+constStr(args[0], "effect name"))
		return nil
	}
	I["zzverif.Unwind"] = func(m *Machine, fn *ssa.Function, args []Value) Value {
		m.curUnwind = int(args[0].(*smt.Term).U64())
		return nil
	}
	I["zzverif.Choice"] = func(m *Machine, fn *ssa.Function, args []Value) Value {
		n := int(args[1].(*smt.Term).U64())
		name := m.freshName(constStr(args[0], "choice name"))
		m.hdraw(name)
		k := m.choose(n)
		// keep the choice visible to the model/replay as a constrained symbol
		v := smt.Var(m.Prefix+name, smt.BV(64))
		m.pc = append(m.pc, smt.Eq(v, smt.BVC(64, uint64(k))))
		return smt.BVC(64, uint64(k))
	}
	I["zzverif.GoInline"] = func(m *Machine, fn *ssa.Function, args []Value) Value {
		m.GoInline = args[0].(*smt.Term).IsTrue()
		return nil
	}
	I["zzverif.GoLogical"] = func(m *Machine, fn *ssa.Function, args []Value) Value {
		m.GoLogical = args[0].(*smt.Term).IsTrue()
		return nil
	}
	I["zzverif.JSONUnbounded"] = func(m *Machine, fn *ssa.Function, args []Value) Value {
		m.ghost["json.unbounded"] = true
		return nil
	}
	I["zzverif.JSONArbitrary"] = func(m *Machine, fn *ssa.Function, args []Value) Value {
		m.ghost["json.noarbitrary"] = !args[0].(*smt.Term).IsTrue()
		return nil
	}
	// AssertNoFlow(label, value, secrets...): two-run non-interference.  The value (and the path
	// condition) must be the same in a second run that differs only in the named secret symbols, given
	// equal declassified images (public key derivation, hashes).
	I["zzverif.AssertNoFlow"] = func(m *Machine, fn *ssa.Function, args []Value) Value {
		label := constStr(args[0], "label")
		var ts []*smt.Term
		m.flatten(args[1], 4, &ts, map[*Cell]bool{})
		repl := map[string]*smt.Term{}
		for _, sv := range variadic(args[2]) {
			name := constStr(sv, "secret name")
			for _, full := range m.draws {
				base := full
				if i := strings.Index(full, "#"); i >= 0 {
					base = full[:i]
				}
				if base == name {
					if v := smt.LookupVar(m.Prefix + full); v != nil {
						repl[v.Name] = smt.Var(v.Name+"'", v.Sort)
					}
				}
			}
		}
		declass := map[string]bool{"pubkey": true, "sercompressed": true, "sha256": true}
		var hyp []*smt.Term
		for _, c := range m.pc {
			hyp = append(hyp, smt.Subst(c, repl))
		}
		all := append(append([]*smt.Term(nil), ts...), m.pc...)
		for _, app := range smt.UFApps(declass, all...) {
			if p := smt.Subst(app, repl); p != app {
				hyp = append(hyp, smt.Eq(app, p))
			}
		}
		var same []*smt.Term
		for _, t := range ts {
			same = append(same, smt.Eq(t, smt.Subst(t, repl)))
		}
		cond := smt.Implies(smt.And(hyp...), smt.And(same...))
		m.asserts = append(m.asserts, &AssertRec{Label: label, Cond: cond, PC: append([]*smt.Term(nil), m.pc...), Draws: append([]string(nil), m.draws...)})
		m.htrace = append(m.htrace, "assert "+label)
		return nil
	}
	I["zzverif.DeadlineControl"] = func(m *Machine, fn *ssa.Function, args []Value) Value {
		m.ghost["deadline.controlled"] = true
		return nil
	}
	I["zzverif.ExpireDeadlines"] = func(m *Machine, fn *ssa.Function, args []Value) Value {
		m.ghost["deadline.expired"] = true
		m.effect("deadlines_expire")
		return nil
	}
	I["zzverif.Thorough"] = func(m *Machine, fn *ssa.Function, args []Value) Value { return smt.BoolC(m.Thorough) }
	I["zzverif.Symbolic"] = func(m *Machine, fn *ssa.Function, args []Value) Value { return smt.True }
	I["zzverif.Fail"] = func(m *Machine, fn *ssa.Function, args []Value) Value {
		m.end("exit", "harness stop: "+constStr(args[0], "message"))
		return nil
	}
	I["zzverif.Override"] = func(m *Machine, fn *ssa.Function, args []Value) Value {
		name := constStr(args[0], "override target")
		iv := args[1].(*IfaceV)
		m.overrides[name] = iv.V.(*FuncV)
		return nil
	}
	I["zzverif.CrashPoint"] = func(m *Machine, fn *ssa.Function, args []Value) Value {
		// returns true on the forked path where the process crashes here
		name := m.freshName(constStr(args[0], "crash point"))
		m.hdraw(name)
		k := m.choose(2)
		v := smt.Var(m.Prefix+name, smt.Bool)
		m.pc = append(m.pc, smt.Eq(v, smt.BoolC(k == 1)))
		return smt.BoolC(k == 1)
	}
	I["zzverif.LockOrderCycle"] = func(m *Machine, fn *ssa.Function, args []Value) Value {
		return smt.BoolC(m.LockOrderCycle())
	}
	I["zzverif.Concurrently"] = func(m *Machine, fn *ssa.Function, args []Value) Value {
		m.effect("concurrently")
		f := args[0]
		m.spawnLogical(func() { m.callValue(f, nil, nil) })
		return nil
	}
	// Race2(label, a, b): see race.go.  The path forks: it runs handler a or handler b with access
	// recording on; the checker combines the accesses of a-paths and b-paths of the entry (same setup,
	// hence the same object identities) into candidate conflicts and asks the solver whether both paths
	// are possible from one setup.
	I["zzverif.Race2"] = func(m *Machine, fn *ssa.Function, args []Value) Value {
		label := constStr(args[0], "race label")
		side := m.choose(2)
		m.race = raceState{on: true, region: side + 1, mark: m.cellID, seen: map[string]bool{}, label: label}
		m.effect("spawn", smt.StrC("race2")) // scheduler-dependent natively: not a translator-validation case
		if side == 1 {
			m.regionTag = "rb." // what the second handler draws is a different symbol from the first one's
		}
		m.callValue(args[1+side], nil, nil)
		m.regionTag = ""
		m.race.on = false
		m.recordRaceOK(label)
		return nil
	}
	// RaceTouch(ptr, write): the (stubbed) collaborator reads / writes the whole object behind ptr here, as
	// its real counterpart does (the bbolt store marshals the complete record).
	I["zzverif.RaceTouch"] = func(m *Machine, fn *ssa.Function, args []Value) Value {
		if !m.race.on {
			return nil
		}
		var p *Ptr
		switch v := args[0].(type) {
		case *IfaceV:
			p, _ = v.V.(*Ptr)
		case *Ptr:
			p = v
		}
		if p == nil {
			return nil
		}
		m.raceTouch(p, args[1].(*smt.Term).IsTrue())
		return nil
	}
	I["zzverif.Blocked"] = func(m *Machine, fn *ssa.Function, args []Value) Value {
		return smt.BVC(64, uint64(m.blockedLogical()))
	}
	I["zzverif.Spawned"] = func(m *Machine, fn *ssa.Function, args []Value) Value {
		return smt.BVC(64, uint64(m.spawned))
	}
	I["zzverif.LocksHeld"] = func(m *Machine, fn *ssa.Function, args []Value) Value {
		return smt.BVC(64, uint64(len(m.heldOrder)))
	}
	// hashing as UF usable from harness oracles
	I["zzverif.UFStr"] = func(m *Machine, fn *ssa.Function, args []Value) Value {
		return m.ufOver("h:"+constStr(args[0], "uf name"), smt.Str, variadic(args[1])...)
	}

	I["zzverif.UFU64"] = func(m *Machine, fn *ssa.Function, args []Value) Value {
		return m.ufOver("h:"+constStr(args[0], "uf name"), smt.BV(64), variadic(args[1])...)
	}

	// ---- fmt / errors ----
	I["fmt.Sprintf"] = func(m *Machine, fn *ssa.Function, args []Value) Value {
		return m.sprintf(strArg(args[0]), variadic(args[1]))
	}
	I["fmt.Sprint"] = func(m *Machine, fn *ssa.Function, args []Value) Value {
		return m.sprintf(smt.StrC("%v"), variadic(args[0]))
	}
	I["fmt.Errorf"] = func(m *Machine, fn *ssa.Function, args []Value) Value {
		va := variadic(args[1])
		var wrapped Value
		if f := strArg(args[0]); f.IsConst() && strings.Contains(f.S, "%w") {
			for _, a := range va {
				if iv, ok := a.(*IfaceV); ok && iv.T != nil {
					if _, isErr := iv.V.(*Ptr); isErr || iv.T == errMarkerType {
						wrapped = iv
					}
				}
			}
		}
		return m.newError(m.sprintf(strArg(args[0]), va), wrapped)
	}
	I["fmt.Println"] = noop
	I["fmt.Printf"] = noop
	I["fmt.Print"] = noop
	I["fmt.Fprintf"] = noop
	I["fmt.Fprintln"] = noop
	I["errors.New"] = func(m *Machine, fn *ssa.Function, args []Value) Value {
		return m.newError(strArg(args[0]), nil)
	}
	I["errors.Is"] = func(m *Machine, fn *ssa.Function, args []Value) Value {
		err := args[0].(*IfaceV)
		target := args[1].(*IfaceV)
		for depth := 0; depth < 8 && err.T != nil; depth++ {
			if target.T != nil && types.Identical(err.T, target.T) && types.Comparable(err.T) {
				if c := m.valueEq(err.V, target.V, err.T); c.IsTrue() {
					return smt.True
				} else if !c.IsFalse() {
					if m.branch(c, nil) {
						return smt.True
					}
				}
			}
			if !isMarker(err.T) {
				if is := m.lookupMethodByName(err.T, "Is"); is != nil {
					r := m.callFunction(is, []Value{err.V, target}, nil, nil).(*smt.Term)
					if r.IsTrue() {
						return smt.True
					}
					if !r.IsFalse() && m.branch(r, nil) {
						return smt.True
					}
				}
			}
			// unwrap
			if err.T == errMarkerType {
				w, _ := err.V.(*Ptr).load().(*StructV).F[1].(*IfaceV)
				if w == nil {
					break
				}
				err = w
				continue
			}
			if uw := m.lookupMethodByName(err.T, "Unwrap"); uw != nil {
				err = m.callFunction(uw, []Value{err.V}, nil, nil).(*IfaceV)
				continue
			}
			break
		}
		return smt.False
	}
	I["errors.Unwrap"] = func(m *Machine, fn *ssa.Function, args []Value) Value {
		err := args[0].(*IfaceV)
		if err.T == errMarkerType {
			return err.V.(*Ptr).load().(*StructV).F[1]
		}
		return &IfaceV{}
	}

	// ---- hex ----
	I["encoding/hex.EncodeToString"] = func(m *Machine, fn *ssa.Function, args []Value) Value {
		t, n := m.sliceBytesTerm(args[0])
		return m.hexEncode(t, n)
	}
	I["encoding/hex.DecodeString"] = func(m *Machine, fn *ssa.Function, args []Value) Value {
		okc, data := m.hexDecode(strArg(args[0]))
		if m.branch(okc, nil) {
			if data.IsConst() {
				return TupleV{m.stringToBytes(data), &IfaceV{}}
			}
			c := m.newCell(&OpaqueBytes{T: data, N: -1}, nil, "hexdec")
			return TupleV{&SliceV{Arr: c, Len: -1, Cap: -1}, &IfaceV{}}
		}
		return TupleV{(*SliceV)(nil), m.newError(smt.StrC("encoding/hex: invalid string"), nil)}
	}

	I["encoding/hex.DecodedLen"] = func(m *Machine, fn *ssa.Function, args []Value) Value {
		return smt.BVLshr(args[0].(*smt.Term), smt.BVC(64, 1))
	}
	I["encoding/hex.EncodedLen"] = func(m *Machine, fn *ssa.Function, args []Value) Value {
		return smt.BVShl(args[0].(*smt.Term), smt.BVC(64, 1))
	}
	// hex.Decode(dst, src): decode like DecodeString, then copy into dst (the real function panics when
	// dst is too short: callers check DecodedLen first, an overflow here ends the path as panic)
	I["encoding/hex.Decode"] = func(m *Machine, fn *ssa.Function, args []Value) Value {
		src, ok := args[1].(*SliceV)
		if !ok || src == nil {
			return TupleV{smt.BVC(64, 0), &IfaceV{}}
		}
		okc, data := m.hexDecode(m.bytesToString(src))
		if !m.branch(okc, nil) {
			return TupleV{smt.BVC(64, 0), m.newError(smt.StrC("encoding/hex: invalid string"), nil)}
		}
		var dec *SliceV
		if data.IsConst() {
			dec = m.stringToBytes(data)
		} else {
			k := m.pcLen(data)
			c := m.newCell(&OpaqueBytes{T: data, N: k}, nil, "hexdec")
			dec = &SliceV{Arr: c, Len: k, Cap: k}
		}
		n := m.copyOp(args[0], dec)
		return TupleV{n, &IfaceV{}}
	}

	// ---- strings / strconv ----
	I["strings.ReplaceAll"] = func(m *Machine, fn *ssa.Function, args []Value) Value {
		return smt.StrReplaceAll(strArg(args[0]), strArg(args[1]), strArg(args[2]))
	}
	I["strings.Contains"] = func(m *Machine, fn *ssa.Function, args []Value) Value {
		return smt.StrContains(strArg(args[0]), strArg(args[1]))
	}
	I["strings.HasPrefix"] = func(m *Machine, fn *ssa.Function, args []Value) Value {
		return smt.StrPrefixOf(strArg(args[1]), strArg(args[0]))
	}
	I["strings.HasSuffix"] = func(m *Machine, fn *ssa.Function, args []Value) Value {
		return smt.StrSuffixOf(strArg(args[1]), strArg(args[0]))
	}
	I["strings.ToLower"] = func(m *Machine, fn *ssa.Function, args []Value) Value {
		s := strArg(args[0])
		if s.IsConst() {
			return smt.StrC(strings.ToLower(s.S))
		}
		return smt.UF("strings.ToLower", smt.Str, s)
	}
	I["strings.TrimSpace"] = func(m *Machine, fn *ssa.Function, args []Value) Value {
		s := strArg(args[0])
		if s.IsConst() {
			return smt.StrC(strings.TrimSpace(s.S))
		}
		return smt.UF("strings.TrimSpace", smt.Str, s)
	}
	I["strings.Split"] = func(m *Machine, fn *ssa.Function, args []Value) Value {
		s, sep := strArg(args[0]), strArg(args[1])
		if s.IsConst() && sep.IsConst() {
			parts := strings.Split(s.S, sep.S)
			e := make([]Value, len(parts))
			for i, p := range parts {
				e[i] = smt.StrC(p)
			}
			return &SliceV{Arr: m.newCell(&ArrayV{E: e}, nil, "split"), Len: len(e), Cap: len(e)}
		}
		if !sep.IsConst() || len(sep.S) != 1 {
			panic(unsupported("strings.Split with symbolic or multi-char separator"))
		}
		// case split on the number of parts 1..5 (+ "more")
		const maxParts = 5
		var parts []*smt.Term
		rest := s
		for k := 1; k <= maxParts; k++ {
			has := smt.StrContains(rest, sep)
			if !m.branch(has, nil) {
				parts = append(parts, rest)
				e := make([]Value, len(parts))
				for i, p := range parts {
					e[i] = p
				}
				return &SliceV{Arr: m.newCell(&ArrayV{E: e}, nil, "split"), Len: len(e), Cap: len(e)}
			}
			idx := smt.StrIndexOf(rest, sep, smt.IntC(0))
			head := smt.StrSubstr(rest, smt.IntC(0), idx)
			tail := smt.StrSubstr(rest, smt.IntAdd(idx, smt.IntC(1)), smt.StrLen(rest))
			parts = append(parts, head)
			rest = tail
		}
		m.end("assume", "bound: strings.Split input has more than 5 separators")
		return nil
	}
	I["strconv.Atoi"] = func(m *Machine, fn *ssa.Function, args []Value) Value {
		s := strArg(args[0])
		if s.IsConst() {
			v, err := strconv.Atoi(s.S)
			if err != nil {
				return TupleV{smt.BVC(64, 0), m.newError(smt.StrC("strconv.Atoi: parsing: invalid syntax"), nil)}
			}
			return TupleV{smt.BVInt(64, int64(v)), &IfaceV{}}
		}
		// model: succeeds iff the string is a non-empty run of digits (optionally signed, not modelled) within 18 digits
		n := smt.StrToInt(s)
		okc := smt.And(smt.IntLe(smt.IntC(0), n), smt.IntLe(smt.StrLen(s), smt.IntC(18)))
		if m.branch(okc, nil) {
			return TupleV{smt.Int2BV(64, n), &IfaceV{}}
		}
		return TupleV{smt.BVC(64, 0), m.newError(smt.StrC("strconv.Atoi: parsing: invalid syntax"), nil)}
	}
	I["strconv.Itoa"] = func(m *Machine, fn *ssa.Function, args []Value) Value {
		t := args[0].(*smt.Term)
		if t.IsConst() {
			return smt.StrC(strconv.FormatInt(t.SignedVal().Int64(), 10))
		}
		return smt.UF("strconv.Itoa", smt.Str, t)
	}
	I["strconv.FormatInt"] = func(m *Machine, fn *ssa.Function, args []Value) Value {
		t := args[0].(*smt.Term)
		b := args[1].(*smt.Term)
		if t.IsConst() && b.IsConst() {
			return smt.StrC(strconv.FormatInt(t.SignedVal().Int64(), int(b.U64())))
		}
		return smt.UF("strconv.FormatInt", smt.Str, t, b)
	}
	I["strconv.FormatUint"] = func(m *Machine, fn *ssa.Function, args []Value) Value {
		t := args[0].(*smt.Term)
		b := args[1].(*smt.Term)
		if t.IsConst() && b.IsConst() {
			return smt.StrC(strconv.FormatUint(t.U64(), int(b.U64())))
		}
		return smt.UF("strconv.FormatUint", smt.Str, t, b)
	}
	I["strconv.ParseInt"] = func(m *Machine, fn *ssa.Function, args []Value) Value {
		s, base, bits := strArg(args[0]), args[1].(*smt.Term), args[2].(*smt.Term)
		if s.IsConst() && base.IsConst() && bits.IsConst() {
			v, err := strconv.ParseInt(s.S, int(base.U64()), int(bits.U64()))
			if err != nil {
				return TupleV{smt.BVInt(64, v), m.newError(smt.StrC(err.Error()), nil)}
			}
			return TupleV{smt.BVInt(64, v), &IfaceV{}}
		}
		panic(unsupported("strconv.ParseInt on a symbolic string"))
	}
	I["bytes.Equal"] = func(m *Machine, fn *ssa.Function, args []Value) Value {
		a, _ := m.sliceBytesTerm(args[0])
		b, _ := m.sliceBytesTerm(args[1])
		return smt.Eq(a, b)
	}

	// ---- os / misc ----
	I["os.Getenv"] = func(m *Machine, fn *ssa.Function, args []Value) Value { return smt.StrC("") }
	I["time.Sleep"] = noop
	I["math.Pow"] = func(m *Machine, fn *ssa.Function, args []Value) Value {
		return m.ufOver("math.Pow", smt.F64, args[0], args[1])
	}
	I["math/rand.Intn"] = func(m *Machine, fn *ssa.Function, args []Value) Value {
		n := args[0].(*smt.Term)
		v := m.Fresh("rand.Intn", smt.BV(64))
		m.pc = append(m.pc, smt.BVSle(smt.BVC(64, 0), v))
		_ = n
		return v
	}
	I["crypto/rand.Read"] = func(m *Machine, fn *ssa.Function, args []Value) Value {
		s := args[0].(*SliceV)
		if s != nil {
			n := s.Len
			if ob, ok := s.Arr.V.(*OpaqueBytes); ok {
				n = ob.N
			}
			full := s.Off == 0
			if a, ok := s.Arr.V.(*ArrayV); ok && len(a.E) != n {
				full = false
			}
			if !full {
				panic(unsupported("rand.Read into partial slice"))
			}
			caller := "rand"
			if len(m.stack) > 0 {
				caller = "rand." + m.stack[len(m.stack)-1]
			}
			m.writeBack(s.Arr, &OpaqueBytes{T: m.freshBytes(caller, n), N: n})
			k, _ := m.ghost["cryptorand.reads"].(int)
			m.ghost["cryptorand.reads"] = k + 1
			return TupleV{smt.BVC(64, uint64(n)), &IfaceV{}}
		}
		return TupleV{smt.BVC(64, 0), &IfaceV{}}
	}
	// math/rand.Read: bytes of the process-wide pseudo-random stream - arbitrary, but not a draw from the
	// crypto source (zzverif.SecretDraws does not count it)
	I["math/rand.Read"] = func(m *Machine, fn *ssa.Function, args []Value) Value {
		s := args[0].(*SliceV)
		if s == nil {
			return TupleV{smt.BVC(64, 0), &IfaceV{}}
		}
		n := s.Len
		if ob, ok := s.Arr.V.(*OpaqueBytes); ok {
			n = ob.N
		}
		if a, ok := s.Arr.V.(*ArrayV); s.Off != 0 || (ok && len(a.E) != n) {
			panic(unsupported("math/rand.Read into partial slice"))
		}
		m.writeBack(s.Arr, &OpaqueBytes{T: m.freshBytes("mathrand", n), N: n})
		return TupleV{smt.BVC(64, uint64(n)), &IfaceV{}}
	}
	I["zzverif.SecretDraws"] = func(m *Machine, fn *ssa.Function, args []Value) Value {
		k, _ := m.ghost["cryptorand.reads"].(int)
		return smt.BVC(64, uint64(k))
	}
	I["crypto/sha256.Sum256"] = func(m *Machine, fn *ssa.Function, args []Value) Value {
		t, _ := m.sliceBytesTerm(args[0])
		h := smt.UF("sha256", smt.Str, t)
		smt.AddAxiom(smt.Eq(smt.StrLen(h), smt.IntC(32)))
		return &OpaqueBytes{T: h, N: 32}
	}

	// ---- sync ----
	lockFn := func(write, acquire bool) intrinsic {
		return func(m *Machine, fn *ssa.Function, args []Value) Value {
			p := args[0].(*Ptr)
			if p == nil {
				m.end("panic", "nil mutex")
			}
			if acquire {
				m.lock(p, write, "")
			} else {
				m.unlock(p, write)
			}
			return nil
		}
	}
	I["(*sync.Mutex).Lock"] = lockFn(true, true)
	I["(*sync.Mutex).Unlock"] = lockFn(true, false)
	I["(*sync.RWMutex).Lock"] = lockFn(true, true)
	I["(*sync.RWMutex).Unlock"] = lockFn(true, false)
	I["(*sync.RWMutex).RLock"] = lockFn(false, true)
	I["(*sync.RWMutex).RUnlock"] = lockFn(false, false)
	I["(*sync.Mutex).TryLock"] = func(m *Machine, fn *ssa.Function, args []Value) Value {
		p := args[0].(*Ptr)
		if _, held := m.held[lockKey(p)]; held {
			return smt.False
		}
		m.lock(p, true, "")
		return smt.True
	}
	I["sync.NewCond"] = func(m *Machine, fn *ssa.Function, args []Value) Value {
		t := fn.Signature.Results().At(0).Type().(*types.Pointer).Elem()
		return &Ptr{Cell: m.newCell(Zero(t), t, "cond")}
	}
	I["(*sync.Cond).Broadcast"] = noop
	I["(*sync.Cond).Signal"] = noop
	I["(*sync.Cond).Wait"] = func(m *Machine, fn *ssa.Function, args []Value) Value {
		m.end("blocked", "sync.Cond.Wait")
		return nil
	}
	I["(*sync.WaitGroup).Add"] = noop
	I["(*sync.WaitGroup).Done"] = noop
	I["(*sync.WaitGroup).Wait"] = noop
	I["(*sync.Once).Do"] = func(m *Machine, fn *ssa.Function, args []Value) Value {
		p := args[0].(*Ptr)
		k := lockKey(p)
		if m.onceDone[k] {
			return nil
		}
		m.onceDone[k] = true
		m.callValue(args[1], nil, nil)
		return nil
	}

	// ---- context / time ----
	newCtx := func(m *Machine, hasDL bool) (*IfaceV, *CtxObj) {
		m.cellID++
		ctx := &CtxObj{ID: m.cellID, HasDL: hasDL}
		ctx.Done = &ChanObj{ID: m.cellID, Kind: "ctxdone", Ctx: ctx}
		return &IfaceV{T: ctxMarkerType, V: ctx}, ctx
	}
	I["context.Background"] = func(m *Machine, fn *ssa.Function, args []Value) Value {
		iv, _ := newCtx(m, false)
		return iv
	}
	I["context.TODO"] = I["context.Background"]
	cancelFn := func(ctx *CtxObj) *FuncV {
		return &FuncV{Name: "context.cancel", Host: func(m *Machine, args []Value) Value {
			ctx.Cancelled = true
			m.effect("ctx_cancel", smt.BVC(64, uint64(ctx.ID)))
			return nil
		}}
	}
	I["context.WithCancel"] = func(m *Machine, fn *ssa.Function, args []Value) Value {
		iv, ctx := newCtx(m, false)
		if p, ok := args[0].(*IfaceV); ok && p.T == ctxMarkerType {
			pc := p.V.(*CtxObj)
			ctx.HasDL = pc.HasDL
			ctx.Cancelled = pc.Cancelled
		}
		return TupleV{iv, cancelFn(ctx)}
	}
	I["context.WithTimeout"] = func(m *Machine, fn *ssa.Function, args []Value) Value {
		iv, ctx := newCtx(m, true)
		return TupleV{iv, cancelFn(ctx)}
	}
	I["context.WithDeadline"] = I["context.WithTimeout"]
	I["time.NewTicker"] = func(m *Machine, fn *ssa.Function, args []Value) Value {
		t := fn.Signature.Results().At(0).Type().(*types.Pointer).Elem()
		st := under(t).(*types.Struct)
		v := Zero(t).(*StructV)
		f := append([]Value(nil), v.F...)
		for i := 0; i < st.NumFields(); i++ {
			if st.Field(i).Name() == "C" {
				m.cellID++
				f[i] = &ChanV{C: &ChanObj{ID: m.cellID, Kind: "ticker"}}
			}
		}
		return &Ptr{Cell: m.newCell(&StructV{F: f}, t, "ticker")}
	}
	I["(*time.Ticker).Stop"] = noop
	I["time.After"] = func(m *Machine, fn *ssa.Function, args []Value) Value {
		m.cellID++
		return &ChanV{C: &ChanObj{ID: m.cellID, Kind: "timer"}}
	}
	I["time.Now"] = func(m *Machine, fn *ssa.Function, args []Value) Value {
		t := fn.Signature.Results().At(0).Type()
		st := under(t).(*types.Struct)
		v := Zero(t).(*StructV)
		f := append([]Value(nil), v.F...)
		now := m.Fresh("time.Now", smt.BV(64))
		if last, ok := m.ghost["time.last"].(*smt.Term); ok {
			m.pc = append(m.pc, smt.BVSle(last, now))
		} else {
			m.pc = append(m.pc, smt.BVSle(smt.BVC(64, 0), now))
		}
		m.ghost["time.last"] = now
		for i := 0; i < st.NumFields(); i++ {
			if st.Field(i).Name() == "ext" {
				f[i] = now
			}
		}
		return &StructV{F: f}
	}
	timeNs := func(v Value) *smt.Term {
		return v.(*StructV).F[1].(*smt.Term)
	}
	I["(time.Time).Unix"] = func(m *Machine, fn *ssa.Function, args []Value) Value {
		return smt.BVSDiv(timeNs(args[0]), smt.BVC(64, 1000000000))
	}
	I["(time.Time).UnixNano"] = func(m *Machine, fn *ssa.Function, args []Value) Value { return timeNs(args[0]) }
	I["(time.Time).Sub"] = func(m *Machine, fn *ssa.Function, args []Value) Value {
		return smt.BVSub(timeNs(args[0]), timeNs(args[1]))
	}
	I["(time.Time).Add"] = func(m *Machine, fn *ssa.Function, args []Value) Value {
		st := args[0].(*StructV)
		f := append([]Value(nil), st.F...)
		f[1] = smt.BVAdd(timeNs(args[0]), args[1].(*smt.Term))
		return &StructV{F: f}
	}
	I["(time.Time).After"] = func(m *Machine, fn *ssa.Function, args []Value) Value {
		return smt.BVSlt(timeNs(args[1]), timeNs(args[0]))
	}
	I["(time.Time).Before"] = func(m *Machine, fn *ssa.Function, args []Value) Value {
		return smt.BVSlt(timeNs(args[0]), timeNs(args[1]))
	}
	I["(time.Time).Equal"] = func(m *Machine, fn *ssa.Function, args []Value) Value {
		return smt.Eq(timeNs(args[0]), timeNs(args[1]))
	}
	I["(time.Time).IsZero"] = func(m *Machine, fn *ssa.Function, args []Value) Value {
		return smt.Eq(timeNs(args[0]), smt.BVC(64, 0))
	}
	I["time.Since"] = func(m *Machine, fn *ssa.Function, args []Value) Value {
		now := I["time.Now"](m, m.timeNowFn(fn), nil).(*StructV)
		return smt.BVSub(timeNs(now), timeNs(args[0]))
	}
	I["time.Unix"] = func(m *Machine, fn *ssa.Function, args []Value) Value {
		t := fn.Signature.Results().At(0).Type()
		v := Zero(t).(*StructV)
		f := append([]Value(nil), v.F...)
		f[1] = smt.BVAdd(smt.BVMul(args[0].(*smt.Term), smt.BVC(64, 1000000000)), args[1].(*smt.Term))
		return &StructV{F: f}
	}
	I["(time.Duration).Seconds"] = func(m *Machine, fn *ssa.Function, args []Value) Value {
		return smt.FPBin("fp.div", smt.FPFromSBV(args[0].(*smt.Term)), smt.FPFromSBV(smt.BVC(64, 1000000000)))
	}
	I["(time.Duration).String"] = func(m *Machine, fn *ssa.Function, args []Value) Value {
		return smt.UF("Duration.String", smt.Str, args[0].(*smt.Term))
	}

	// ---- secp256k1 keys as opaque objects ----
	privFromBytes := func(m *Machine, fn *ssa.Function, args []Value) Value {
		t, _ := m.sliceBytesTerm(args[0])
		priv := m.newOpaqueObj("privkey", t)
		pub := m.newOpaqueObj("pubkey", smt.UF("pubkey", smt.Str, t))
		return TupleV{priv, pub}
	}
	I["github.com/btcsuite/btcd/btcec/v2.PrivKeyFromBytes"] = privFromBytes
	I["github.com/btcsuite/btcd/btcec/v2.NewPrivateKey"] = func(m *Machine, fn *ssa.Function, args []Value) Value {
		return TupleV{m.newOpaqueObj("privkey", m.freshBytes("newprivkey", 32)), &IfaceV{}}
	}
	pubOf := func(m *Machine, fn *ssa.Function, args []Value) Value {
		o := opaqueOf(args[0])
		if o == nil {
			m.end("panic", "nil private key")
		}
		return m.newOpaqueObj("pubkey", smt.UF("pubkey", smt.Str, o.T))
	}
	I["(*github.com/decred/dcrd/dcrec/secp256k1/v4.PrivateKey).PubKey"] = pubOf
	I["(*github.com/btcsuite/btcd/btcec/v2.PrivateKey).PubKey"] = pubOf
	serPriv := func(m *Machine, fn *ssa.Function, args []Value) Value {
		o := opaqueOf(args[0])
		if o == nil {
			m.end("panic", "nil private key")
		}
		return m.bytesValue(o.T, 32)
	}
	I["(*github.com/decred/dcrd/dcrec/secp256k1/v4.PrivateKey).Serialize"] = serPriv
	I["(github.com/decred/dcrd/dcrec/secp256k1/v4.PrivateKey).Serialize"] = serPriv
	serPub := func(m *Machine, fn *ssa.Function, args []Value) Value {
		o := opaqueOf(args[0])
		if o == nil {
			m.end("panic", "nil public key")
		}
		s := smt.UF("sercompressed", smt.Str, o.T)
		smt.AddAxiom(smt.Eq(smt.StrLen(s), smt.IntC(33)))
		return m.bytesValue(s, 33)
	}
	I["(*github.com/decred/dcrd/dcrec/secp256k1/v4.PublicKey).SerializeCompressed"] = serPub
	I["(github.com/decred/dcrd/dcrec/secp256k1/v4.PublicKey).SerializeCompressed"] = serPub

	// ---- json ----
	I["encoding/json.Marshal"] = func(m *Machine, fn *ssa.Function, args []Value) Value {
		iv := args[0].(*IfaceV)
		tn := "nil"
		if iv.T != nil {
			tn = iv.T.String()
		}
		t := m.ufOver("json<"+tn+">", smt.Str, iv.V)
		// bound (stated in the evidence): marshalled payloads are shorter than 60000 bytes, unless the
		// harness asks for arbitrarily long encodings (zzverif.JSONUnbounded)
		if on, _ := m.ghost["json.unbounded"].(bool); !on {
			smt.AddAxiom(smt.IntLe(smt.StrLen(t), smt.IntC(60000)))
		}
		m.ghostJSON(t, iv)
		return TupleV{m.bytesValue(t, -1), &IfaceV{}}
	}
	I["encoding/json.Unmarshal"] = jsonUnmarshal
}

func (m *Machine) timeNowFn(fn *ssa.Function) *ssa.Function {
	// time.Since has result Duration; time.Now's signature is needed to build a Time: find it via the package
	if pk := m.P.Prog.ImportedPackage("time"); pk != nil {
		return pk.Func("Now")
	}
	panic(unsupported("time package not loaded"))
}

// ghostJSON remembers which value a marshalled payload term stands for, so that Unmarshal of the
// same term (same dynamic type) returns the same content (trusted: encoding/json round-trips
// these structs).
func (m *Machine) ghostJSON(t *smt.Term, iv *IfaceV) {
	m.ghost[fmt.Sprintf("json:%d", t.ID)] = iv
}

func jsonUnmarshal(m *Machine, fn *ssa.Function, args []Value) Value {
	data, _ := m.sliceBytesTerm(args[0])
	dst := args[1].(*IfaceV)
	pt, ok := dst.T.(*types.Pointer)
	if !ok {
		panic(unsupported("json.Unmarshal into non-pointer"))
	}
	target := dst.V.(*Ptr)
	elem := pt.Elem()
	// known payload produced by json.Marshal on this path?
	if src, ok := m.ghost[fmt.Sprintf("json:%d", data.ID)].(*IfaceV); ok {
		var sv Value = src.V
		st := src.T
		// compare modulo pointer level
		if pp, ok := elem.(*types.Pointer); ok {
			// target is **T
			if sp, ok := st.(*types.Pointer); ok && types.Identical(sp.Elem(), pp.Elem()) {
				// deep copy the pointee
				np := &Ptr{Cell: m.newCell(sv.(*Ptr).load(), pp.Elem(), "json.copy")}
				target.store(np)
				return &IfaceV{}
			}
			if types.Identical(st, pp.Elem()) {
				np := &Ptr{Cell: m.newCell(sv, pp.Elem(), "json.copy")}
				target.store(np)
				return &IfaceV{}
			}
		} else if types.Identical(st, elem) {
			target.store(jsonMergeOmitted(elem, target.load(), sv))
			return &IfaceV{}
		}
	}
	if b, ok := under(elem).(*types.Basic); ok && b.Kind() == types.String && data.IsConst() {
		// a concrete payload decoded into a string: the real decoder decides
		var out string
		if err := json.Unmarshal([]byte(data.S), &out); err != nil {
			return m.newError(smt.StrC("json: "+err.Error()), nil)
		}
		if strings.TrimSpace(data.S) != "null" {
			target.store(smt.StrC(out))
		}
		return &IfaceV{}
	}
	if data.IsConst() {
		// concrete payloads follow encoding/json exactly for the cases that can be decided here
		trimmed := strings.TrimSpace(data.S)
		switch {
		case !json.Valid([]byte(data.S)):
			return m.newError(smt.StrC("json: invalid syntax"), nil)
		case trimmed == "null":
			return &IfaceV{} // null leaves pointers nil without error
		case trimmed[0] != '{':
			return m.newError(smt.StrC("json: cannot unmarshal non-object into Go struct"), nil)
		case strings.Join(strings.Fields(trimmed), "") == "{}":
			if pp, ok := elem.(*types.Pointer); ok {
				target.store(&Ptr{Cell: m.newCell(Zero(pp.Elem()), pp.Elem(), "json.empty")})
			}
			return &IfaceV{}
		}
		panic(unsupported("json.Unmarshal of a concrete object literal"))
	}
	// adversarial payload: error, null, or arbitrary content
	nAlt := 3
	if b, ok := m.ghost["json.noarbitrary"].(bool); ok && b {
		nAlt = 2 // harness bound: unknown payloads decode as error or null only
	}
	switch m.choose(nAlt) {
	case 0:
		return m.newError(smt.StrC("json: cannot unmarshal"), nil)
	case 1:
		m.pc = append(m.pc, smt.Eq(data, smt.StrC("null")))
		return &IfaceV{}
	}
	if pp, ok := elem.(*types.Pointer); ok {
		v := m.FreshValue(pp.Elem(), "json", 2)
		target.store(&Ptr{Cell: m.newCell(v, pp.Elem(), "json.decoded")})
	} else {
		target.store(m.FreshValue(elem, "json", 2))
	}
	return &IfaceV{}
}

// jsonMergeOmitted: what decoding the encoding of src into a destination that already holds old gives.
// encoding/json sets the members present in the payload and leaves the others alone; a member is absent
// exactly when its tag says omitempty and the encoded value was empty (false, 0, "", nil, length 0).  Only
// the case that matters is modelled: a destination member that is not the zero value already (a decoder
// reusing a record) - there the member keeps its old content when the source member was empty.
func jsonMergeOmitted(t types.Type, old, src Value) Value {
	st, ok := under(t).(*types.Struct)
	if !ok {
		return src
	}
	os, ok1 := old.(*StructV)
	ss, ok2 := src.(*StructV)
	if !ok1 || !ok2 || len(os.F) != len(ss.F) || len(ss.F) != st.NumFields() {
		return src
	}
	var out *StructV
	for i := 0; i < st.NumFields(); i++ {
		tag := reflect.StructTag(st.Tag(i)).Get("json")
		if !st.Field(i).Exported() || !strings.Contains(tag, ",omitempty") || jsonIsZeroValue(os.F[i]) {
			continue
		}
		var merged Value
		switch v := ss.F[i].(type) {
		case *smt.Term:
			o, ok := os.F[i].(*smt.Term)
			if !ok {
				continue
			}
			merged = smt.Ite(smt.Eq(v, zeroTerm(v.Sort)), o, v)
		case *SliceV:
			if v == nil || v.Len == 0 {
				merged = os.F[i]
			}
		case *Ptr:
			if v == nil {
				merged = os.F[i]
			}
		case *IfaceV:
			if v == nil || v.T == nil {
				merged = os.F[i]
			}
		}
		if merged == nil {
			continue
		}
		if out == nil {
			out = &StructV{F: append([]Value(nil), ss.F...)}
		}
		out.F[i] = merged
	}
	if out == nil {
		return src
	}
	return out
}

func jsonIsZeroValue(v Value) bool {
	switch x := v.(type) {
	case *smt.Term:
		return x.IsConst() && smt.Eq(x, zeroTerm(x.Sort)) == smt.True
	case *SliceV:
		return x == nil
	case *Ptr:
		return x == nil
	case *IfaceV:
		return x == nil || x.T == nil
	case *StructV:
		for _, f := range x.F {
			if !jsonIsZeroValue(f) {
				return false
			}
		}
		return true
	case *MapV:
		return x == nil || x.M == nil
	}
	return false
}

func (m *Machine) hdraw(name string) {
	m.hdraws = append(m.hdraws, name)
	m.htrace = append(m.htrace, "draw "+name)
}
