package symex

import (
	"crypto/sha256"
	"go/types"
	"math"
	"regexp"
	"strconv"
	"strings"
	"sync"

	"verif/engine/smt"

	"golang.org/x/tools/go/ssa"
)

// Intrinsics needed by the harnesses of package onchain / version (C01 validators, C08, C30).
// All of them are contract-level: the result is constrained only by the documented behaviour
// of the library function.

// digitsOnly: s is a non-empty run of ASCII digits.  SMT-LIB: str.to_int(s) = -1 exactly when
// s is empty or contains a non-digit.
func digitsOnly(s *smt.Term) *smt.Term { return smt.IntLe(smt.IntC(0), smt.StrToInt(s)) }

// decimalTerm is the canonical decimal rendering of a 64-bit unsigned value x: an uninterpreted
// function of x (so no query ever needs str.from_int / bv2nat reasoning, on which cvc5 spends
// minutes) with the length law 1 <= len <= 20.  Over-approximation: two different values may
// render to equal strings; what the code under test can learn from a rendering is its
// emptiness, equality with other strings and — exactly — its strconv.Atoi value (decimalOf).
func decimalTerm(x *smt.Term) *smt.Term {
	if x.IsConst() {
		return smt.StrC(strconv.FormatUint(x.U64(), 10))
	}
	d := smt.UF("strconv.decimal", smt.Str, x)
	smt.AddAxiom(smt.IntLe(smt.IntC(1), smt.StrLen(d)))
	smt.AddAxiom(smt.IntLe(smt.StrLen(d), smt.IntC(20)))
	return d
}

// decimalOf recognises a decimalTerm (produced by the strconv.AppendUint intrinsic below),
// optionally preceded by a constant run of '0' characters, and returns x.
func decimalOf(s *smt.Term) (*smt.Term, bool) {
	if s.Op == "str.++" && len(s.Args) == 2 && s.Args[0].IsConst() && strings.Trim(s.Args[0].S, "0") == "" {
		s = s.Args[1]
	}
	if s.Op == "uf" && s.Name == "strconv.decimal" {
		return s.Args[0], true
	}
	return nil, false
}

// allocNonNil builds a value of type t in which every pointer (down to the given depth) points to a
// freshly allocated zero value, without forking on nil-ness.
func (m *Machine) allocNonNil(t types.Type, name string, depth int) Value {
	switch u := under(t).(type) {
	case *types.Pointer:
		if depth <= 0 {
			return (*Ptr)(nil)
		}
		return &Ptr{Cell: m.newCell(m.allocNonNil(u.Elem(), name, depth-1), u.Elem(), name)}
	case *types.Struct:
		f := make([]Value, u.NumFields())
		for i := range f {
			f[i] = m.allocNonNil(u.Field(i).Type(), name+"."+u.Field(i).Name(), depth)
		}
		return &StructV{F: f}
	}
	return Zero(t)
}

// hexLen remembers the concrete byte length of byte strings that went through
// hex.EncodeToString, so that hex.DecodeString of that very encoding returns a slice of concrete
// length (the general model in intrinsics.go returns length "unknown", which turns every later
// len() comparison into a solver decision).  Terms are hash-consed and global, the length of a
// given term never changes.
var (
	hexLenMu sync.Mutex
	hexLen   = map[int]int{}
)

func init() {
	I := intrinsics

	generalHexEncode := I["encoding/hex.EncodeToString"]
	I["encoding/hex.EncodeToString"] = func(m *Machine, fn *ssa.Function, args []Value) Value {
		if t, n := m.sliceBytesTerm(args[0]); n >= 0 && !t.IsConst() {
			hexLenMu.Lock()
			hexLen[t.ID] = n
			hexLenMu.Unlock()
		}
		return generalHexEncode(m, fn, args)
	}
	generalHexDecode := I["encoding/hex.DecodeString"]
	I["encoding/hex.DecodeString"] = func(m *Machine, fn *ssa.Function, args []Value) Value {
		if s := strArg(args[0]); s.Op == "uf" && s.Name == "hexenc" {
			hexLenMu.Lock()
			n, ok := hexLen[s.Args[0].ID]
			hexLenMu.Unlock()
			if ok {
				return TupleV{m.bytesValue(s.Args[0], n), &IfaceV{}}
			}
		}
		return generalHexDecode(m, fn, args)
	}

	// strconv.AppendUint(dst, x, 10): dst followed by the canonical decimal digits of x.
	I["strconv.AppendUint"] = func(m *Machine, fn *ssa.Function, args []Value) Value {
		x := args[1].(*smt.Term)
		base := args[2].(*smt.Term)
		if !base.IsConst() || base.U64() != 10 {
			panic(unsupported("strconv.AppendUint with base other than 10"))
		}
		dst, _ := m.sliceBytesTerm(args[0])
		return m.bytesValue(smt.StrConcat(dst, decimalTerm(x)), -1)
	}
	// strconv.Atoi of a decimal rendering (see decimalOf) is exact and needs no string
	// reasoning: Atoi(dec(x)) = (x, nil) when x <= MaxInt64, otherwise (…, ErrRange).  Every
	// other argument goes to the general model in intrinsics.go.
	generalAtoi := I["strconv.Atoi"]
	I["strconv.Atoi"] = func(m *Machine, fn *ssa.Function, args []Value) Value {
		if x, ok := decimalOf(strArg(args[0])); ok {
			if m.branch(smt.BVSle(smt.BVC(64, 0), x), nil) {
				return TupleV{x, &IfaceV{}}
			}
			return TupleV{smt.BVInt(64, 1<<63-1), m.newError(smt.StrC("strconv.Atoi: parsing: value out of range"), nil)}
		}
		return generalAtoi(m, fn, args)
	}

	// regexp.MustCompile: an opaque object that remembers its pattern.  Matching itself is not
	// modelled here: the harness redirects FindAllString / FindStringSubmatch with
	// zzverif.Override to a stub that answers within the contract of the pattern ("the regex
	// engine is trusted").  An un-overridden matching call is havocked => inconclusive.
	I["regexp.MustCompile"] = func(m *Machine, fn *ssa.Function, args []Value) Value {
		return m.newOpaqueObj("regexp", strArg(args[0]))
	}
	// btcutil.NewAmount(f): round(f * 1e8) sat, an error for NaN / infinities - computed for constant
	// arguments (fee rates reported by a node stub are drawn from concrete classes); symbolic: no model
	I["github.com/btcsuite/btcd/btcutil.NewAmount"] = func(m *Machine, fn *ssa.Function, args []Value) Value {
		t, ok := args[0].(*smt.Term)
		if !ok || t.Op != "fpbits" || len(t.Args) != 1 || !t.Args[0].IsConst() {
			return m.havocCall(fn, args)
		}
		f := math.Float64frombits(t.Args[0].U64())
		if math.IsNaN(f) || math.IsInf(f, 0) {
			return TupleV{smt.BVC(64, 0), m.newError(smt.StrC("invalid bitcoin amount"), nil)}
		}
		v := f * 1e8
		var r int64
		if v < 0 {
			r = int64(v - 0.5)
		} else {
			r = int64(v + 0.5)
		}
		return TupleV{smt.BVC(64, uint64(r)), &IfaceV{}}
	}
	// (*Regexp).FindAllString on a constant pattern and a constant string is computed with the real engine
	// (symbolic strings: no model - harnesses override the call, see harness/version/compare.go)
	I["(*regexp.Regexp).FindAllString"] = func(m *Machine, fn *ssa.Function, args []Value) Value {
		var pat *smt.Term
		if p, ok := args[0].(*Ptr); ok && p != nil {
			if o, ok := p.Cell.V.(*OpaqueObj); ok {
				pat = o.T
			}
		}
		if o, ok := args[0].(*OpaqueObj); ok {
			pat = o.T
		}
		s := strArg(args[1])
		n := args[2].(*smt.Term)
		if pat == nil || !pat.IsConst() || !s.IsConst() || !n.IsConst() {
			return m.havocCall(fn, args)
		}
		re, err := regexp.Compile(pat.S)
		if err != nil {
			panic(unsupported("regexp pattern " + pat.S))
		}
		res := re.FindAllString(s.S, int(n.SignedVal().Int64()))
		if res == nil {
			return (*SliceV)(nil)
		}
		e := make([]Value, len(res))
		for i, r := range res {
			e[i] = smt.StrC(r)
		}
		c := m.newCell(&ArrayV{E: e}, nil, "findall")
		return &SliceV{Arr: c, Len: len(e), Cap: len(e)}
	}
	// (*Regexp).FindStringSubmatch: the same, constants only
	I["(*regexp.Regexp).FindStringSubmatch"] = func(m *Machine, fn *ssa.Function, args []Value) Value {
		var pat *smt.Term
		if p, ok := args[0].(*Ptr); ok && p != nil {
			if o, ok := p.Cell.V.(*OpaqueObj); ok {
				pat = o.T
			}
		}
		if o, ok := args[0].(*OpaqueObj); ok {
			pat = o.T
		}
		s := strArg(args[1])
		if pat == nil || !pat.IsConst() || !s.IsConst() {
			return m.havocCall(fn, args)
		}
		re, err := regexp.Compile(pat.S)
		if err != nil {
			panic(unsupported("regexp pattern " + pat.S))
		}
		res := re.FindStringSubmatch(s.S)
		if res == nil {
			return (*SliceV)(nil)
		}
		e := make([]Value, len(res))
		for i, r := range res {
			e[i] = smt.StrC(r)
		}
		c := m.newCell(&ArrayV{E: e}, nil, "submatch")
		return &SliceV{Arr: c, Len: len(e), Cap: len(e)}
	}
	// regexp.MatchString is supported for the one pattern the harnesses use to state
	// "this string is what [0-9]+ can match": ^[0-9]+$.
	I["regexp.MatchString"] = func(m *Machine, fn *ssa.Function, args []Value) Value {
		pat := constStr(args[0], "regexp.MatchString pattern")
		if pat != `^[0-9]+$` {
			panic(unsupported("regexp.MatchString with pattern " + pat))
		}
		if _, ok := decimalOf(strArg(args[1])); ok {
			return TupleV{smt.True, &IfaceV{}}
		}
		return TupleV{digitsOnly(strArg(args[1])), &IfaceV{}}
	}

	// math.Float64frombits: an arbitrary float64 determined by the bits.  Over-approximation: an
	// uninterpreted function (every float, NaN and infinities included, is a possible value), so a
	// statement proved for it holds for the real bit-cast; a counterexample would not replay.
	I["math.Float64frombits"] = func(m *Machine, fn *ssa.Function, args []Value) Value {
		return smt.UF("math.Float64frombits", smt.F64, args[0].(*smt.Term))
	}

	// sha256.Sum256 of a constant input is computed (exact); symbolic inputs keep the
	// uninterpreted model of intrinsics.go.
	generalSha256 := I["crypto/sha256.Sum256"]
	I["crypto/sha256.Sum256"] = func(m *Machine, fn *ssa.Function, args []Value) Value {
		if t, _ := m.sliceBytesTerm(args[0]); t.IsConst() {
			sum := sha256.Sum256([]byte(t.S))
			e := make([]Value, 32)
			for i := range e {
				e[i] = smt.BVC(8, uint64(sum[i]))
			}
			return &ArrayV{E: e}
		}
		return generalSha256(m, fn, args)
	}

	// Package initialisation of btcd/txscript evaluates `new(big.Int).Rsh(btcec.S256().N, 1)`
	// (half the curve order, used only by signature-encoding checks).  math/big and the curve are
	// not executed: S256() is an allocated curve object with opaque contents, Rsh leaves an opaque
	// big.Int in the receiver.  Any later arithmetic on these values is still a havocked math/big
	// call (=> inconclusive), so nothing is decided from them.
	I["github.com/btcsuite/btcd/btcec/v2.S256"] = func(m *Machine, fn *ssa.Function, args []Value) Value {
		return m.allocNonNil(fn.Signature.Results().At(0).Type(), "btcec.S256", 4)
	}
	I["(*math/big.Int).Rsh"] = func(m *Machine, fn *ssa.Function, args []Value) Value {
		z := args[0].(*Ptr)
		if z == nil {
			m.end("panic", "nil *big.Int receiver")
		}
		z.store(&OpaqueObj{Kind: "big.Int", T: m.ufOver("big.Rsh", smt.Str, args[2])})
		return z
	}

	// bytes.NewReader: an opaque reader over the bytes; only parsers that are overridden by a
	// harness consume it.
	I["bytes.NewReader"] = func(m *Machine, fn *ssa.Function, args []Value) Value {
		t, _ := m.sliceBytesTerm(args[0])
		return m.newOpaqueObj("bytes.Reader", t)
	}

	// btcutil.NewAddressWitnessScriptHash(program, net): an address object whose ScriptAddress()
	// is the program; an error when the program is not 32 bytes long (documented contract).
	I["github.com/btcsuite/btcd/btcutil.NewAddressWitnessScriptHash"] = func(m *Machine, fn *ssa.Function, args []Value) Value {
		t, n := m.sliceBytesTerm(args[0])
		var is32 *smt.Term
		if n >= 0 {
			is32 = smt.BoolC(n == 32)
		} else {
			is32 = smt.Eq(smt.StrLen(t), smt.IntC(32))
		}
		if m.branch(is32, nil) {
			return TupleV{m.newOpaqueObj("addr_wsh", t), &IfaceV{}}
		}
		return TupleV{(*Ptr)(nil), m.newError(smt.StrC("witness program must be 32 bytes for p2wsh"), nil)}
	}
	scriptAddress := func(m *Machine, fn *ssa.Function, args []Value) Value {
		o := opaqueOf(args[0])
		if o == nil || o.Kind != "addr_wsh" {
			panic(unsupported("ScriptAddress of an address that is not a modelled witness script hash"))
		}
		return m.bytesValue(o.T, 32)
	}
	I["(*github.com/btcsuite/btcd/btcutil.AddressSegWit).ScriptAddress"] = scriptAddress
	I["(*github.com/btcsuite/btcd/btcutil.AddressWitnessScriptHash).ScriptAddress"] = scriptAddress

	// bytes.Compare: 0 iff equal, otherwise -1 or +1 (the sign is the lexicographic order of the
	// byte strings; SMT str.< is the same order on code points < 256).
	I["bytes.Compare"] = func(m *Machine, fn *ssa.Function, args []Value) Value {
		a, _ := m.sliceBytesTerm(args[0])
		b, _ := m.sliceBytesTerm(args[1])
		minus1 := smt.BVInt(64, -1)
		return smt.Ite(smt.Eq(a, b), smt.BVC(64, 0), smt.Ite(smt.StrLt(a, b), minus1, smt.BVC(64, 1)))
	}
}
